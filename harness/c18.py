# c18.py — C18: extended precision: words of 64+ bits store and render integers bit-exactly.
import itertools, math
from fractions import Fraction
import lib, storelib as S, arithlib as A
from lib import Result, model_call, run_sharded, e_fmt, e_list, e_dy, Reader, RMODES, OMODES
import c11

RULE = ('n_word in {64,65,66,72,96,127,128,129,200,256}, n_frac in {0,1,n_word/2,n_word-1,n_word}, both signednesses and overflow modes; codes at and just beyond both bounds, multiples of the modulus, '
        'random codes of up to 4x the word length; lists of 2..4 such integers mixing in-range and out-of-range elements; supplied as a Python integer code (raw=True), as a Python integer value, and as binary / hex strings in raw mode, by constructor, call and set_val; observed: val, overflow / underflow '
        'flags, bin(), hex(), ~ & | ^; the extended_prec indicator for n_word 8..256 through explicit sizes, dtype=, like=, best-size and bitwise routes. Expected values from the extracted Spec (saturate / wrap of the exact integer). '
        'Non-trivial = the code is outside the range or needs more than 64 bits; distinct by full input.')
ASSUMPTIONS = ['rendering and bitwise operators are compared for scalar inputs; arrays (lists of 2..4 Python integers, in and out of range mixed) are compared for stored codes and flags']
WORDS = [64, 65, 66, 72, 96, 127, 128, 129, 200, 256]

def gen(rng):
    n = rng.choice(WORDS); s = rng.random() < 0.5; nf = rng.choice([0, 1, n // 2, n - 1, n]); lo, hi = S.fmt_bounds(s, n); M = 1 << n
    k = rng.random()
    if k < 0.35: c = rng.choice([lo, hi, lo - 1, hi + 1, lo + 1, hi - 1, 0, -1, 1])
    elif k < 0.55: c = rng.choice([M, -M, 2 * M, M + 1, M - 1, -M - 1, 3 * M + 5, -2 * M + hi])
    elif k < 0.8: c = rng.choice([1, -1]) * rng.getrandbits(rng.randint(1, 4 * n))
    else: c = rng.randint(lo, hi)
    kind = rng.choice(['raw', 'raw', 'value', 'binstr', 'hexstr', 'hexshort'])
    if kind == 'hexshort': c = rng.getrandbits(rng.randint(1, max(1, n - 2)))      # (a non-negative code of any length below the word)
    return {'f': [s, n, nf], 'c': c, 'o': rng.choice(OMODES), 'r': rng.choice(RMODES), 'kind': kind, 'route': rng.choice(['ctor', 'call', 'set_val', 'widened', 'copy_resized'])}

def rng_pick(c, opts): return opts[(abs(int(c['c'])) + c['f'][1]) % len(opts)]

def run_cases(cases, res):
    fx = lib.impl(); import numpy as np
    pend = []; reqs = []
    for c in cases:
        s, n, nf = c['f']; code = c['c']; lo, hi = S.fmt_bounds(s, n)
        kw = dict(rounding=c['r'], overflow=c['o'])
        try:
            kind = c['kind']
            if kind in ('binstr', 'hexstr', 'hexshort'):
                if not (lo <= code <= hi): kind = 'raw'
                elif kind == 'hexshort' and code < 0: kind = 'hexstr'
            if kind == 'raw': val, raw = code, True
            elif kind == 'value': val, raw = code, False
            elif kind == 'binstr': val, raw = '0b' + c11.py_bin(n, code), True
            elif kind == 'hexshort': val, raw = '0x%X' % code, True      # the digits of a non-negative code without leading zeros (what hex(padding=False) renders)
            else: val, raw = '0x' + c11.py_hex(n, code), True
            if c['route'] == 'widened':
                # the object was created NARROW (40 bits, the same n_frac) and widened by resize(n_word=): an element write and the operators
                # then behave as on an object built at the wide format
                x0 = fx.Fxp([0, 1 if n > 1 else 0], s, 40, nf, raw=True, **kw); x0.resize(n_word=n)
                x0.set_val(val, raw=raw, index=0)
                xw = x0
                x = x0[0]
            elif c['route'] == 'copy_resized':
                # a (shallow) copy() of the wide object was taken and RESIZED to a narrow word before the write: the wide object itself is
                # written as before (its own format decides how it stores)
                x = fx.Fxp(0, s, n, nf, **kw); b_ = x.copy(); b_.resize(n_word=rng_pick(c, [8, 16, 40]))
                x.set_val(val, raw=raw)
            elif c['route'] == 'ctor': x = fx.Fxp(val, s, n, nf, raw=raw, **kw)
            else:
                x = fx.Fxp(None, s, n, nf, **kw)
                if c['route'] == 'set_val' or raw: x.set_val(val, raw=raw)
                else: x(val)
            got = lib.codes_of(x)[0]
            st_of = xw if c['route'] == 'widened' else x      # (the flags of an element write belong to the array that was written)
            obs = {'code': got, 'st': lib.status3(st_of)[:2], 'extp': st_of.status.get('extended_prec'), 'bin': x.bin(), 'hex': x.hex(), 'dtype': str(np.asarray(x.val).dtype)}
            y = fx.Fxp(hi if got != hi else lo, s, n, nf, raw=True)
            if c['route'] == 'widened': obs['bit'] = {'~': lib.codes_of(~xw)[0], '&': lib.codes_of(xw & y)[0], '|': lib.codes_of(xw | y)[0], '^': lib.codes_of(xw ^ y)[0]}
            else: obs['bit'] = {'~': lib.codes_of(~x)[0], '&': lib.codes_of(x & y)[0], '|': lib.codes_of(x | y)[0], '^': lib.codes_of(x ^ y)[0]}
            obs['ycode'] = lib.codes_of(y)[0]
        except Exception as e:
            res.fail(c, 'C18: storing / rendering a wide value raised %s' % lib.exc_name(e), got=str(e)[:300]); continue
        scaled = code if kind != 'value' else code * (1 << nf)
        pend.append((c, obs, scaled))
        reqs.append([4] + e_fmt(s, n, 0) + [0, OMODES.index(c['o'])] + e_list([Fraction(scaled)], e_dy))
    outs = model_call(reqs)
    for (c, obs, scaled), out in zip(pend, outs):
        s, n, nf = c['f']; lo, hi = S.fmt_bounds(s, n); mask = (1 << n) - 1
        rd = Reader(out); want = rd.lst(rd.z)[0]; so, su = rd.b(), rd.b()
        res.count('W:wide-stores', key=repr(c), nontrivial=not (lo <= scaled <= hi) or abs(scaled) >= 2**64, n=8)
        res.sample(c)
        if obs['code'] != want:
            res.fail(c, 'C18: wide value is not stored bit-exactly / saturated / wrapped as C01 and C03 prescribe', expected=want, got=obs['code']); continue
        if obs['st'] != (so, su):
            res.fail(c, 'C18: overflow/underflow flags of a wide store are not exact', expected=(so, su), got=obs['st']); continue
        if obs['extp'] is not True and c['route'] != 'copy_resized':      # (copy() is shallow by its documentation: the status record - the indicator included - is shared with the resized copy)
            res.fail(c, 'C18: the extended-precision indicator is not set for n_word >= 64', expected=True, got=obs['extp']); continue
        if obs['bin'] != c11.py_bin(n, want) or obs['hex'] != '0x' + c11.py_hex(n, want):
            res.fail(c, 'C18: bin()/hex() of a wide word is not the exact image of the code', expected=(c11.py_bin(n, want), c11.py_hex(n, want)), got=(obs['bin'], obs['hex'])); continue
        ux, uy = want & mask, obs['ycode'] & mask
        wb = {'~': mask - ux, '&': ux & uy, '|': ux | uy, '^': ux ^ uy}
        for k2, u in wb.items():
            wc = u - (1 << n) if (s and u >= (1 << (n - 1))) else u
            if obs['bit'][k2] != wc:
                res.fail(c, 'C18: bitwise operator %s is not exact at this width' % k2, expected=wc, got=obs['bit'][k2]); break

def gen_array(rng):
    base = gen(rng); s, n, nf = base['f']; lo, hi = S.fmt_bounds(s, n); M = 1 << n
    cs = [base['c']]
    for _ in range(rng.randint(1, 3)):
        k = rng.random()
        if k < 0.4: cs.append(rng.randint(lo, hi))
        elif k < 0.6: cs.append(rng.choice([lo, hi, lo - 1, hi + 1, 0, -1, 5]))
        else: cs.append(rng.choice([1, -1]) * rng.getrandbits(rng.randint(1, 2 * n)))
    if rng.random() < 0.25:
        # a sequence mixing integers of [2^63, 2^64) with negative ones, nothing beyond 64 bits (NumPy would promote such a list to float64)
        cs = [rng.choice([2 ** 63 + rng.getrandbits(40) * 2 + 1, 2 ** 64 - rng.randint(1, 9), 2 ** 63 + 1]) for _ in range(rng.randint(1, 2))] + [-rng.randint(1, 9) for _ in range(rng.randint(1, 2))]
    rng.shuffle(cs)
    route = base['route'] if base['route'] not in ('widened', 'copy_resized') else 'ctor'
    if rng.random() < 0.3: route = rng.choice(['slice', 'slice_step', 'mask'])      # (item assignment of the whole sequence)
    return {'f': base['f'], 'cs': cs, 'o': base['o'], 'r': base['r'], 'kind': rng.choice(['raw', 'value']), 'route': route, 'strarr': rng.choice([None, None, 'hex', 'bin'])}

def run_array_cases(cases, res):
    fx = lib.impl(); import numpy as np
    pend = []; reqs = []
    for c in cases:
        s, n, nf = c['f']; lo, hi = S.fmt_bounds(s, n)
        kw = dict(rounding=c['r'], overflow=c['o']); raw = c['kind'] == 'raw'; val = list(c['cs'])
        if c.get('strarr') and raw and all(lo <= v <= hi for v in c['cs']):
            # the codes as hex / binary strings held in a NumPy string array (what np.array(x.hex()) gives)
            val = np.array([('0x' + c11.py_hex(n, v)) if c['strarr'] == 'hex' else ('0b' + c11.py_bin(n, v)) for v in c['cs']])
        try:
            if c['route'] == 'ctor': x = fx.Fxp(val, s, n, nf, raw=raw, **kw)
            elif c['route'] in ('slice', 'slice_step', 'mask'):
                x = fx.Fxp([0] * len(val), s, n, nf, **kw)
                idx_ = slice(None) if c['route'] == 'slice' else (slice(None, None, 1) if c['route'] == 'slice_step' else np.array([True] * len(val)))
                if raw: x.set_val(val, raw=True, index=idx_)
                else: x[idx_] = val
            else:
                x = fx.Fxp(None, s, n, nf, **kw)
                if c['route'] == 'set_val' or raw: x.set_val(val, raw=raw)
                else: x(val)
            obs = {'codes': lib.codes_of(x), 'st': lib.status3(x)[:2], 'extp': x.status.get('extended_prec')}
            # an element taken out of the wide array is a fixed-point object like any other: bitwise operators, int(), bin()
            e = x[0]; c0 = obs['codes'][0]; mask = (1 << n) - 1
            obs['elem'] = (lib.codes_of(e | 1)[0], lib.codes_of(e ^ 1)[0], lib.codes_of(e & 3)[0], lib.codes_of(~e)[0], int(e) if nf == 0 else None, e.bin())
            # an indexed write of a Python integer: the buffer still holds plain Python integers (no nested array objects)
            y = fx.Fxp(val, s, n, nf, raw=raw, **kw); y[0] = 0; y[len(val) - 1] = 1
            # ... and a SEQUENCE assigned to one element is either rejected or stored as numbers: never as a nested array object
            for seq in ([5], np.array([5]), (1, 0)):
                try: y[0] = seq
                except (ValueError, TypeError): pass
            obs['buffer_types'] = sorted(set(type(t).__name__ for t in np.asarray(y.val).reshape(-1).tolist()))
        except Exception as e:
            res.fail(c, 'C18: storing a list of wide integers raised %s' % lib.exc_name(e), got=str(e)[:300]); continue
        scaled = [v if raw else v * (1 << nf) for v in c['cs']]
        pend.append((c, obs, scaled))
        reqs.append([4] + e_fmt(s, n, 0) + [0, OMODES.index(c['o'])] + e_list([Fraction(v) for v in scaled], e_dy))
    outs = model_call(reqs)
    for (c, obs, scaled), out in zip(pend, outs):
        s, n, nf = c['f']; lo, hi = S.fmt_bounds(s, n)
        rd = Reader(out); want = rd.lst(rd.z); so, su = rd.b(), rd.b()
        res.count('WA:wide-array-stores', key=repr(c), nontrivial=any(not (lo <= v <= hi) for v in scaled) and any(lo <= v <= hi and abs(v) >= 2**64 for v in scaled), n=len(scaled))
        res.sample(c)
        if obs['codes'] != want:
            res.fail(c, 'C18: a list of wide integers is not stored bit-exactly / saturated / wrapped element-wise', expected=want, got=obs['codes']); continue
        if obs['st'] != (so, su):
            res.fail(c, 'C18: overflow/underflow flags of a wide array store are not exact', expected=(so, su), got=obs['st']); continue
        if obs['extp'] is not True:
            res.fail(c, 'C18: the extended-precision indicator is not set for n_word >= 64', expected=True, got=obs['extp']); continue
        if obs['buffer_types'] != ['int']:
            res.fail(c, 'C18: after an indexed write the value buffer of a wide object does not hold plain Python integers', expected=['int'], got=obs['buffer_types']); continue
        c0 = want[0]; mask = (1 << n) - 1; u = c0 & mask
        def code(p): return p - (1 << n) if (s and p >= (1 << (n - 1))) else p
        want_e = (code(u | 1), code(u ^ 1), code(u & 3), code(mask - u), c0 if nf == 0 else None, c11.py_bin(n, c0))
        if tuple(obs['elem']) != want_e:
            res.fail(c, 'C18: an element indexed out of a wide array does not behave as a fixed-point object (| ^ & ~ int bin)', expected=[str(t) for t in want_e], got=[str(t) for t in obs['elem']]); continue

def indicator(rng, res, n_cases):
    cases = []
    for _ in range(n_cases):
        n = rng.choice([8, 32, 52, 62, 63, 64, 65, 72, 128, 256]); s = rng.random() < 0.5; nf = rng.choice([0, 1, n // 2])
        cases.append({'n': n, 's': s, 'nf': nf, 'nwm': rng.choice([None, None, 128, 96, 32, 300])})      # (n_word_max, the configurable size-inference limit, has no say in the indicator)
    run_indicator_cases(cases, res)

def run_indicator_cases(cases, res):
    fx = lib.impl()
    for c in cases:
        c = {k: c.get(k) for k in ('n', 's', 'nf', 'nwm')}; n, s, nf = c['n'], c['s'], c['nf']
        kw = {} if c['nwm'] is None else {'n_word_max': c['nwm']}
        try:
            base = fx.Fxp(3, s, n, nf, **kw)
            routes = {'sizes': base, 'dtype': fx.Fxp(3, dtype=base.dtype, **kw), 'like': fx.Fxp(3, like=base), 'like_none': fx.Fxp(None, like=base),
                      'best_frac': fx.Fxp(3, s, n, **kw), 'invert': ~base, 'and': base & 1, 'resize': fx.Fxp(3, s, 8, 0, **kw), 'getitem': fx.Fxp([3, 1], s, n, nf, **kw)[0]}
            routes['resize'].resize(s, n, nf)
            w = fx.Fxp(3, s, n, nf, **kw); w.reset(); routes['reset'] = w
        except Exception as e:
            res.fail(c, 'C18: building a wide object raised %s' % lib.exc_name(e), got=str(e)[:200]); continue
        res.count('I:indicator', key=repr(c), nontrivial=True, n=len(routes))
        for name, obj in routes.items():
            if obj.n_word != n and name != 'best_frac': continue
            if bool(obj.status.get('extended_prec', 'MISSING')) != (obj.n_word >= 64) or 'extended_prec' not in obj.status:
                res.fail(dict(c, route=name), 'C18: the extended-precision indicator is not (n_word >= 64)', expected=obj.n_word >= 64, got=obj.status.get('extended_prec', 'MISSING')); break

WIDTHS = [64, 65, 66, 72, 96, 127, 128, 129, 200, 256]
def shift_cases(rng, n):
    """the shift operators on wide words (default shifting = expand: x << n is x * 2^n and x >> n is x / 2^n exactly, the word or the
    fraction growing as needed), on scalars and arrays, codes at and next to powers of two"""
    cases = []
    for _ in range(n):
        nw = rng.choice(WIDTHS); s = rng.random() < 0.6; nf = rng.choice([0, 1, nw // 2, nw - 1, nw]); lo, hi = S.fmt_bounds(s, nw)
        def code():
            k = rng.randint(40, nw - 2)
            c = rng.choice([1 << k, (1 << k) + 1, (1 << k) - 1, hi, hi - 1, 3 << (k - 1), rng.randint(0, hi), 5, 1])
            if s and rng.random() < 0.45: c = rng.choice([-c, -c - 1, lo, lo + 1])
            return max(lo, min(hi, c))
        cs = [code() for _k in range(rng.choice([1, 1, 2, 3]))]
        cases.append({'s': s, 'nw': nw, 'nf': nf, 'shift_codes': cs, 'n': rng.choice([0, 1, 1, 2, 3, 7, 64]), 'dir': rng.choice(['<<', '<<', '>>']), 'arr': len(cs) > 1 or rng.random() < 0.3})
    return cases

def run_shift_cases(cases, res):
    fx = lib.impl(); import numpy as np
    for c in cases:
        s, nw, nf, cs, n = c['s'], c['nw'], c['nf'], c['shift_codes'], c['n']
        try:
            x = fx.Fxp(list(cs), s, nw, nf, raw=True) if c['arr'] else fx.Fxp(cs[0], s, nw, nf, raw=True)
            z = (x << n) if c['dir'] == '<<' else (x >> n)
            zc = [int(v) for v in np.asarray(z.val).reshape(-1).tolist()]; zf = (bool(z.signed), int(z.n_word), int(z.n_frac)); st = lib.status3(z)[:2]
            after = [int(v) for v in np.asarray(x.val).reshape(-1).tolist()]
        except Exception as e:
            res.fail(c, 'C18: %s on a wide word raised %s' % (c['dir'], lib.exc_name(e)), got=str(e)[:200]); continue
        want = [Fraction(v) / Fraction(2) ** nf * (Fraction(2) ** n if c['dir'] == '<<' else Fraction(1, 2 ** n)) for v in (cs if c['arr'] else cs[:1])]
        got = [Fraction(v) / Fraction(2) ** zf[2] for v in zc]
        res.count('H:shifts-on-wide-words', key=repr(c), nontrivial=n > 0, n=len(want))
        res.sample({k: c[k] for k in ('s', 'nw', 'nf', 'n', 'dir', 'arr')})
        lo, hi = S.fmt_bounds(zf[0], zf[1])
        if got != want or st != (False, False) or any(not (lo <= v <= hi) for v in zc):
            res.fail(c, 'C18: x %s n on a wide word (expand mode) is not exactly x %s 2^n' % (c['dir'], '*' if c['dir'] == '<<' else '/'), expected=[str(w) for w in want], got=(zf, zc, st)); continue
        if after != (list(cs) if c['arr'] else cs[:1]):
            res.fail(c, 'C18: a shift modified its operand', expected=cs, got=after)

def shard(shard, nshards, rng, tier, extra):
    res = Result()
    run_cases([gen(rng) for _ in range((9000 if tier == 'quick' else 80000) // nshards)], res)
    run_array_cases([gen_array(rng) for _ in range((4500 if tier == 'quick' else 40000) // nshards)], res)
    indicator(rng, res, (1200 if tier == 'quick' else 8000) // nshards)
    # 2-D arrays of Python integers in C order, as transposed views and in Fortran order, both overflow modes: stored position by position
    import c03
    c03.run_wide2d(c03.wide2d_cases(rng, (900 if tier == 'quick' else 8000) // nshards, omodes=('wrap', 'saturate')), res, pid='C18')
    run_shift_cases(shift_cases(rng, (1800 if tier == 'quick' else 15000) // nshards), res)
    return res

def run(seed, tier):
    return run_sharded('c18', 'shard', 16, seed, tier)
def classify(fl): return None
def replay(payload):
    res = Result(); c = payload['case']
    if 'c' in c: run_cases([c], res)
    elif 'cs' in c: run_array_cases([c], res)
    elif 'shift_codes' in c: run_shift_cases([c], res)
    elif 'shape2d' in c:
        import c03; c03.run_wide2d([c], res, pid='C18')
    elif 'n' in c: run_indicator_cases([c], res)
    return {'holds': not res.failures, 'failures': res.failures}
