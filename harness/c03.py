# c03.py — C03: wrap overflow is exact two's-complement modular arithmetic.
import itertools, math
from fractions import Fraction
import lib, storelib as S
from lib import Result, RMODES, OMODES, e_fmt, e_list, e_dy, model_call, run_sharded, Reader
from storelib import check_store_cases

RULE = ('(A) exhaustive quarter-LSB sweep of every format with n_word<=3 (quick) / <=6 (thorough) under wrap, all 5 rounding modes; (B) random core formats up to 52 bits, '
        'values up to 3x the range on both sides; (C) period pairs v and v+k*2^(n_word-n_frac) (floor/ceil/around always; trunc/fix when integral or same side of zero); '
        '(D) n_word 64..256 with Python integers of up to 4x the word length, raw and value mode, compared with Spec.wrap_res and with the model object path; '
        '(E) register arithmetic: results of + - * stored with wrap into a fixed format, chains of up to 6 operations, widths 2..100; (F) values held by 64..128-bit objects copied into core words; '
        '(G) + - * on operands of at most 52 bits stored through out= / op_out into wrap registers of 64..128 bits with any fraction length 0..n_word and into narrow registers (8..40 bits), operands being scalars, array elements or arrays; sum / max of arrays of 2..4 codes of 45..60 bits into registers with fewer fraction bits (a raw result beyond 53 bits rescaled by a negative power of two). '
        'Non-trivial = the rounded input is outside the range (a wrap actually happens); distinct by full input.')
ASSUMPTIONS = ['the period law is enforced in the forms that are consequences of the congruence (see DESIGN.md C03 interpretation decision)']

def wide_cases(rng, n):
    cases = []
    for _ in range(n):
        nw = rng.choice([64, 65, 66, 72, 96, 127, 128, 129, 200, 256, rng.randint(64, 256)])
        s = rng.random() < 0.5
        lo, hi = S.fmt_bounds(s, nw)
        k = rng.random()
        if k < 0.4: c = rng.choice([lo, hi, lo - 1, hi + 1, lo + 1, hi - 1, 0, -1, 1 << nw, -(1 << nw), (1 << nw) + 1, 3 * (1 << nw) - 1, 1 << (nw - 1), -(1 << (nw - 1)) - 1])
        elif k < 0.7: c = rng.choice([1, -1]) * rng.getrandbits(rng.randint(1, 4 * nw))
        else: c = rng.randint(lo - (1 << nw), hi + (1 << nw))
        raw = rng.random() < 0.5
        nf = 0 if raw else rng.choice([0, 1, nw // 2, nw - 1, nw, -1, -3, -8])
        cases.append({'s': s, 'nw': nw, 'nf': nf, 'raw': raw, 'c': c, 'r': rng.choice(RMODES), 'route': rng.choice(['ctor', 'call', 'set_val'])})
    return cases

def run_wide(cases, res):
    fx = lib.impl()
    reqs = []; outs_impl = []
    for c in cases:
        try:
            kw = dict(rounding=c['r'], overflow='wrap')
            if c['route'] == 'ctor':
                x = fx.Fxp(c['c'], c['s'], c['nw'], c['nf'], raw=c['raw'], **kw)
            else:
                x = fx.Fxp(None, c['s'], c['nw'], c['nf'], **kw)
                if c['route'] == 'set_val' or c['raw']: x.set_val(c['c'], raw=c['raw'])
                else: x(c['c'])
            outs_impl.append({'codes': lib.codes_of(x), 'status': lib.status3(x)})
        except Exception as e:
            outs_impl.append({'exc': lib.exc_name(e), 'msg': str(e)[:200]})
        # spec: the scaled integer wrapped
        scaled = Fraction(c['c']) if c['raw'] else Fraction(c['c']) * Fraction(2) ** c['nf']
        reqs.append([4] + e_fmt(c['s'], c['nw'], 0) + [RMODES.index(c['r']), 1] + e_list([scaled], e_dy))
        reqs.append([10] + e_fmt(c['s'], c['nw'], c['nf']) + [RMODES.index(c['r']), 1, 1 if c['raw'] else 0, 3] + e_list([c['c']], lambda z: [0, z]) + [0])
    outs = model_call(reqs)
    for i, c in enumerate(cases):
        sp = Reader(outs[2 * i]); want = sp.lst(sp.z); so, su = sp.b(), sp.b()
        mo = S.read_model_store(outs[2 * i + 1])
        io = outs_impl[i]
        lo, hi = S.fmt_bounds(c['s'], c['nw'])
        scaled = Fraction(c['c']) if c['raw'] else Fraction(c['c']) * Fraction(2) ** c['nf']
        res.count('D:wide-words-python-ints', key=tuple(sorted(c.items())), nontrivial=not (lo <= scaled <= hi))
        res.sample(c)
        if 'exc' in io:
            res.fail(c, 'C03: storing a Python integer into a wide word under wrap raised %s' % io['exc'], expected=want, got=io['msg']); continue
        if io['codes'] != want:
            res.fail(c, 'C03: wide-word wrap is not the in-range residue of the input', expected=want, got=io['codes']); continue
        if io['status'][:2] != (so, su):
            res.fail(c, 'C03: overflow/underflow flags of a wide-word wrap are wrong', expected=(so, su), got=io['status'][:2]); continue
        if c['nf'] < 0 and abs(c['c']) >= 2**53: continue      # exact-rational scaling of big integers by 2^n_frac < 1: outside the modelled domain
        if mo['kind'] != 'ok' or mo['codes'] != io['codes']:
            res.fail(c, 'model object path disagrees with the implementation although Spec agrees', expected=mo, got=io['codes']); res.failures[-1]['no_input'] = True

def wide2d_cases(rng, n, omodes=('wrap',)):
    """2-D arrays of Python integers into words of 64 bits and more, in three memory layouts (C order, a transposed view, Fortran
    order) and as nested Python lists / tuples: the code stored at a position is the residue (or the bound) of the input AT THAT POSITION"""
    cases = []
    for _ in range(n):
        nw = rng.choice([64, 65, 72, 100, 128, 256]); s = rng.random() < 0.6; nf = rng.choice([0, 0, 1, nw // 2])
        lo, hi = S.fmt_bounds(s, nw); r_, c_ = rng.choice([(2, 3), (3, 2), (2, 2)])
        m = [rng.choice([lo, hi, lo - 1 - rng.randint(0, 9), hi + 1 + rng.randint(0, 9), rng.randint(-5, 5), rng.randint(lo, hi), rng.getrandbits(rng.choice([nw, 2 * nw, 300])) * rng.choice([1, -1]), 3 * (1 << nw) + rng.randint(-9, 9)])
             for _k in range(r_ * c_)]
        layout = rng.choice(['C', 'T', 'T', 'F', 'L', 'L', 'LT'])
        if layout in ('L', 'LT') and rng.random() < 0.6:
            # nested Python lists whose elements all fit in int64 except some in the one-bit band [2^63, 2^64) (np.array() of such a list is a float64 array)
            m = [rng.choice([rng.randint(-9, 9), rng.randint(-(1 << 63), (1 << 63) - 1), (1 << 63) + rng.getrandbits(62) * 2 + 1, (1 << 64) - 1 - rng.randint(0, 9)]) for _k in range(r_ * c_)]
            m[rng.randrange(len(m))] = (1 << 63) + rng.getrandbits(62) * 2 + 1
        cases.append({'s': s, 'nw': nw, 'nf': nf, 'shape2d': [r_, c_], 'm': m, 'layout': layout, 'raw': nf == 0 or rng.random() < 0.7,
                      'o': rng.choice(list(omodes)), 'route': rng.choice(['ctor', 'set_val', 'call'])})
    return cases

def run_wide2d(cases, res, pid='C03'):
    fx = lib.impl(); import numpy as np
    pend = []; reqs = []
    for c in cases:
        r_, c_ = c['shape2d']; m = c['m']
        try:
            if c['layout'] == 'T':      # the array handed over is a transposed VIEW of a (c_, r_) array holding the same matrix
                base = np.array([m[i * c_ + j] for j in range(c_) for i in range(r_)] + [None], dtype=object)[:-1].reshape(c_, r_); a = base.T
            elif c['layout'] in ('L', 'LT'):     # nested Python lists / tuples (no NumPy array on the caller's side)
                a = [[m[i * c_ + j] for j in range(c_)] for i in range(r_)]
                if c['layout'] == 'LT': a = tuple(tuple(row) for row in a)
            else:
                a = np.array(m + [None], dtype=object)[:-1].reshape(r_, c_)
                if c['layout'] == 'F': a = np.asfortranarray(a)
            kw = dict(overflow=c['o'])
            if c['route'] == 'ctor': x = fx.Fxp(a, c['s'], c['nw'], c['nf'], raw=c['raw'], **kw)
            else:
                x = fx.Fxp(np.zeros((r_, c_)), c['s'], c['nw'], c['nf'], **kw)
                if c['route'] == 'set_val' or c['raw']: x.set_val(a, raw=c['raw'])
                else: x(a)
            got = ([int(v) for v in np.asarray(x.val).reshape(-1).tolist()], tuple(np.asarray(x.val).shape), lib.status3(x)[:2])
        except Exception as e:
            res.fail(c, pid + ': storing a 2-D array of Python integers into a wide word raised %s' % lib.exc_name(e), got=str(e)[:200]); continue
        sc = [Fraction(v) if c['raw'] else Fraction(v) * Fraction(2) ** c['nf'] for v in m]
        pend.append((c, got)); reqs.append([4] + e_fmt(c['s'], c['nw'], 0) + [0, OMODES.index(c['o'])] + e_list(sc, e_dy))
    outs = model_call(reqs)
    for (c, got), o in zip(pend, outs):
        rd = Reader(o); want = rd.lst(rd.z); wf = (rd.b(), rd.b())
        res.count('W:wide-2d-layouts', key=repr(c), nontrivial=c['layout'] != 'C', n=len(want))
        res.sample({k: c[k] for k in ('s', 'nw', 'nf', 'shape2d', 'layout', 'route', 'o')})
        if got[1] != tuple(c['shape2d']):
            res.fail(c, pid + ': shape of the stored 2-D array differs from the input', expected=c['shape2d'], got=got[1]); continue
        if got[0] != want:
            res.fail(c, pid + ': a 2-D array of Python integers (a NumPy array in some memory layout, or nested lists) is not stored position by position (the code at [i, j] must be the residue / bound of the input at [i, j])', expected=want, got=got[0]); continue
        if got[2] != wf:
            res.fail(c, pid + ': overflow / underflow flags of a 2-D wide store are wrong', expected=wf, got=got[2])

def period_cases(rng, n):
    cases = []
    while len(cases) < n:
        s, nw, nf = S.random_format(rng)
        r = rng.choice(RMODES)
        v = S.boundary_values(rng, s, nw, nf, 1)[0]
        k = rng.choice([1, -1, 2, -2, 3, rng.randint(-2**20, 2**20)])
        v2 = v + k * Fraction(2) ** (nw - nf)
        if not (S.in_core(nf, v2) and S.is_double(v2)): continue
        if r in ('trunc', 'fix'):
            sc = v * Fraction(2) ** nf
            if not (sc.denominator == 1 or (v >= 0 and v2 >= 0) or (v <= 0 and v2 <= 0)): continue
        cases.append({'s': s, 'nw': nw, 'nf': nf, 'r': r, 'v': v, 'v2': v2, 'k': k})
    return cases

def run_period(cases, res):
    fx = lib.impl()
    for c in cases:
        x = fx.Fxp(None, c['s'], c['nw'], c['nf'], rounding=c['r'], overflow='wrap')
        try:
            a = lib.codes_of(x(S.as_number(c['v'])))
            b = lib.codes_of(x(S.as_number(c['v2'])))
        except Exception as e:
            res.fail(c, 'C03: period pair raised %s' % lib.exc_name(e), got=str(e)[:200]); continue
        lo, hi = S.fmt_bounds(c['s'], c['nw'])
        res.count('C:period-pairs', key=(c['s'], c['nw'], c['nf'], c['r'], c['v'], c['k']), nontrivial=True)
        res.sample({k: (str(v) if isinstance(v, Fraction) else v) for k, v in c.items()})
        if a != b:
            res.fail({k: (str(v) if isinstance(v, Fraction) else v) for k, v in c.items()},
                     'C03: shifting the input by a multiple of 2^(n_word-n_frac) changed the stored code', expected=a, got=b)

def widesrc_cases(rng, n):
    cases = []
    for _ in range(n):
        snw = rng.choice([64, 64, 72, 128]); snf = rng.choice([0, 16, 32, 48])
        slo, shi = S.fmt_bounds(True, snw)
        code = rng.choice([rng.getrandbits(rng.randint(40, 62)), -rng.getrandbits(rng.randint(40, 62)), (1 << 61) + 1, -(1 << 61) - 3, rng.getrandbits(62) | 1])
        s, nw, nf = S.random_format(rng)
        d = snf - nf
        if 1 <= d <= 40 and rng.random() < 0.35:      # an exact tie (or one raw unit beside it) at the dropped bits
            code = ((rng.getrandbits(61 - d) | (1 << (60 - d))) << d | (1 << (d - 1))) + rng.choice([0, 0, 1, -1])
            code *= rng.choice([1, -1])
        cases.append({'src': [True, snw, snf], 'code': code, 's': s, 'nw': nw, 'nf': nf, 'r': rng.choice(RMODES), 'route': rng.choice(['ctor', 'call', 'set_val', 'setitem', 'like_kw'])})
    return cases

def run_widesrc(cases, res):
    """a value held exactly by a 64-bit or wider object, copied into a core-domain word under wrap: the low bits must survive"""
    fx = lib.impl(); import numpy as np
    pend = []; reqs = []
    for c in cases:
        try:
            src = fx.Fxp(None, *c['src']); src.set_val(c['code'], raw=True)
            kw = dict(rounding=c['r'], overflow='wrap')
            if c['route'] == 'ctor': d = fx.Fxp(src, c['s'], c['nw'], c['nf'], **kw)
            elif c['route'] == 'like_kw': d = fx.Fxp(src, like=fx.Fxp(None, c['s'], c['nw'], c['nf'], **kw))
            elif c['route'] == 'setitem':
                d = fx.Fxp([0, 0], c['s'], c['nw'], c['nf'], **kw); d[0] = src
            else:
                d = fx.Fxp(None, c['s'], c['nw'], c['nf'], **kw)
                (d if c['route'] == 'call' else d.set_val)(src)
            got = lib.codes_of(d)[0]; vdt = src.vdtype
            vd = 1 if (vdt is not None and vdt != complex and np.issubdtype(vdt, np.integer)) else 2
            st3 = lib.status3(d)
        except Exception as e:
            res.fail(c, 'C03: copying a wide object into a narrower wrap word raised %s' % lib.exc_name(e), got=str(e)[:200]); continue
        pend.append((c, got, st3)); reqs.append([4] + e_fmt(c['s'], c['nw'], c['nf']) + [RMODES.index(c['r']), 1] + e_list([Fraction(c['code'], 1 << c['src'][2])], e_dy))
        # the conversion model (exact rationals when the code has more than 53 bits and fraction bits are dropped)
        reqs.append([30] + e_fmt(*c['src']) + e_list([c['code']]) + [1, vd] + e_fmt(c['s'], c['nw'], c['nf']) + [RMODES.index(c['r']), 1])
    outs = model_call(reqs)
    for i, (c, got, st3) in enumerate(pend):
        rd = Reader(outs[2 * i]); want = rd.lst(rd.z)[0]
        res.count('F:wide-source-into-narrow-word', key=repr(c), nontrivial=True)
        res.sample(c)
        if got != want:
            res.fail(c, 'C03: a value held by a 64-bit or wider object, stored into a narrower word under wrap, is not the residue of the exact value', expected=want, got=got); continue
        rm = Reader(outs[2 * i + 1]); n = rm.z(); tag = rm.z() if n == 1 else None
        mo = (rm.lst(rm.z), rm.b(), rm.b(), rm.b()) if tag == 0 else None
        if mo is None or mo[0] != [got] or (c['route'] != 'setitem' and mo[1:3] != st3[:2]):
            res.fail(c, 'model Convert.convert disagrees with the implementation although the Spec agrees (wide source)', expected=str(mo), got=(got, st3))
            res.failures[-1]['no_input'] = True

def register_cases(rng, n):
    cases = []
    for _ in range(n):
        nw = rng.choice([2, 3, 4, 8, 16, 24, 31, 32, 33, 48, 52, 64, 65, 72, 100, rng.randint(2, 52), rng.randint(64, 100)])
        s = rng.random() < 0.6
        nf = rng.choice([0, 0, 1, nw // 2])
        lo, hi = S.fmt_bounds(s, nw)
        steps = []
        for _ in range(rng.randint(1, 6)):
            op = rng.choice(['+', '-', '*'])
            c = rng.choice([lo, hi, lo + 1, hi - 1, 1, -1 if s else 1, rng.randint(lo, hi), rng.randint(lo, hi)])
            steps.append((op, c))
        case = {'s': s, 'nw': nw, 'nf': nf, 'init': rng.randint(lo, hi), 'steps': steps}
        if rng.random() < 0.4:      # the second operand in another format (more fractional bits: they are dropped by the register)
            nwy = rng.choice([nw, max(2, nw - 3), min(nw + 1, 256)]); nfy = nf + rng.choice([1, 3, rng.randint(1, 8)])
            ly, hy = S.fmt_bounds(s, nwy)
            case['yfmt'] = [s, nwy, nfy]; case['steps'] = [(op, rng.choice([ly, hy, 1, rng.randint(ly, hy)])) for op, _ in steps]
        cases.append(case)
    return cases

def run_register(cases, res):
    """acc = acc (op) y with sizing 'same' and overflow 'wrap' must equal the wrapped exact result"""
    fx = lib.impl()
    for c in cases:
        s, nw, nf = c['s'], c['nw'], c['nf']
        try:
            acc = fx.Fxp(c['init'], s, nw, nf, raw=True, overflow='wrap', rounding='floor', op_sizing='same')
            exact = Fraction(c['init'], 1 << nf)
            codes_seq = []; flags_seq = []
            reqs = []
            for op, yc in c['steps']:
                ys, nwy, nfy = c.get('yfmt', [s, nw, nf])
                y = fx.Fxp(yc, ys, nwy, nfy, raw=True, overflow='wrap', rounding='floor')
                cur = Fraction(lib.codes_of(acc)[0], 1 << nf)
                yv = Fraction(yc, 1 << nfy)
                ex = cur + yv if op == '+' else (cur - yv if op == '-' else cur * yv)
                acc = acc + y if op == '+' else (acc - y if op == '-' else acc * y)
                codes_seq.append(lib.codes_of(acc)[0]); flags_seq.append(lib.status3(acc)[:2])
                reqs.append([4] + e_fmt(s, nw, nf) + [RMODES.index('floor'), 1] + e_list([ex], e_dy))
            outs = model_call(reqs)
            want = [Reader(o).lst(lambda: 0) for o in []]
            want = []; wflags = []
            for o in outs:
                rd = Reader(o); want.append(rd.lst(rd.z)[0]); wflags.append((rd.b(), rd.b()))
        except Exception as e:
            res.fail(c, 'C03: register arithmetic raised %s' % lib.exc_name(e), got=str(e)[:300]); continue
        lo, hi = S.fmt_bounds(s, nw)
        res.count('E:register-arithmetic', key=(s, nw, nf, c['init'], tuple(c['steps'])), nontrivial=True, n=len(c['steps']))
        res.sample(c)
        if (acc.signed, acc.n_word, acc.n_frac) != (s, nw, nf):
            res.fail(c, 'C03: register arithmetic with sizing same changed the format', expected=(s, nw, nf), got=(acc.signed, acc.n_word, acc.n_frac)); continue
        if codes_seq != want:
            res.fail(c, 'C03: arithmetic stored with wrap is not the n_word-bit register result', expected=want, got=codes_seq); continue
        if flags_seq != wflags:
            res.fail(c, 'C03: register arithmetic reports overflow / underflow on the wrong side (an intermediate was reinterpreted)', expected=wflags, got=flags_seq)

def outreg_cases(rng, n):
    cases = []
    for _ in range(n):
        def f():
            nw = rng.choice([8, 16, 24, 31, 32, 40, 48, rng.randint(2, 52)]); return [rng.random() < 0.6, nw, rng.choice([0, 0, 1, nw // 2, nw])]
        fxm, fym = f(), f()
        narrow = rng.random() < 0.3      # (a narrow register: only the low bits of a wide exact result survive)
        nwo = rng.choice([8, 16, 24, 40]) if narrow else rng.choice([64, 65, 72, 100, 128]); nfo = rng.choice([0, 1, 16, 30, 40, 63, 64, rng.randint(0, nwo)]) if not narrow else rng.choice([0, 0, 1, fxm[2] + fym[2]])
        def code(fm):
            lo, hi = S.fmt_bounds(fm[0], fm[1]); return rng.choice([lo, hi, hi - 1, lo + 1, rng.randint(lo, hi), rng.randint(lo, hi)])
        op = rng.choice(['+', '-', '*', '*', 'sum', 'max', 'dot', 'prod', 'cumsum'])
        if rng.random() < 0.08:
            # a negative difference of two UNSIGNED operands into a signed register wider than 64 bits (a uint64 difference would wrap mod 2^64)
            op = '-'; fxm[0] = False; fym[0] = False; narrow = False; nwo = rng.choice([65, 72, 100, 128]); nfo = rng.choice([0, 1, max(fxm[2], fym[2])])
        if op in '+-' and not narrow and rng.random() < 0.5:
            # the register's fraction length puts the aligned operands at the int64 edge: each aligned code still fits, their sum or difference does not
            nfo_ = 63 - max(fxm[1] - fxm[2], fym[1] - fym[2]) + rng.choice([-1, 0, 0, 1])
            if 0 <= nfo_ <= nwo - 2: nfo = nfo_
        more = []
        if op in ('sum', 'max', 'dot', 'prod', 'cumsum'):
            if rng.random() < 0.5 or op in ('dot', 'prod', 'cumsum'):
                # a reduction whose raw result needs more than 53 bits and is rescaled by a negative power of two (fewer fraction bits in the register)
                nw = rng.choice([52, 53, 56, 60, 62, 63, rng.randint(45, 63)]) if op in ('sum', 'max', 'cumsum') else rng.choice([20, 31, 32, 33, 40, 48, 52, rng.randint(12, 60)])
                fxm = [rng.random() < 0.6, nw, rng.choice([1, 2, 8, nw // 2, nw])]
                nfo = max(0, fxm[2] - rng.choice([1, 1, 2, 3, rng.randint(1, 12)]))
                more = [code(fxm) for _ in range(rng.choice([0, 1, 2]))]
            fym = fxm        # (a reduction of an array [cx, cy, ...] held in one format)
        cases.append({'x': fxm, 'cx': code(fxm), 'y': fym, 'cy': code(fym), 'op': op, 'out': [fxm[0] or fym[0] or rng.random() < 0.7, nwo, nfo],   # (a signed result into an unsigned out is a documented error)
                      'r': rng.choice(RMODES), 'route': rng.choice(['out', 'op_out']), 'build': rng.choice(['scalar', 'scalar', 'indexed', 'array'])})
        if more: cases[-1]['more'] = more
    return cases

def run_outreg(cases, res):
    """x (op) y on operands of at most 52 bits, stored through out= into a wrap register of 64 bits or more (any fraction length):
    the register holds the residue of the exact result, whatever the size of the rescaled intermediate"""
    fx = lib.impl(); import numpy as np
    pend = []; reqs = []
    for c in cases:
        try:
            x = fx.Fxp(c['cx'], *c['x'], raw=True); y = fx.Fxp(c['cy'], *c['y'], raw=True)
            if c.get('build') == 'indexed':       # operands that are elements of arrays (their raw value is a NumPy scalar)
                x = fx.Fxp([0, c['cx']], *c['x'], raw=True)[1]; y = fx.Fxp([c['cy'], 0], *c['y'], raw=True)[0]
            elif c.get('build') == 'array':
                x = fx.Fxp([c['cx']], *c['x'], raw=True); y = fx.Fxp([c['cy']], *c['y'], raw=True)
            out = fx.Fxp(None, *c['out'], overflow='wrap', rounding=c['r'])
            if c['op'] in ('sum', 'max', 'dot', 'prod', 'cumsum'):
                xa = fx.Fxp([c['cx'], c['cy']] + c.get('more', []), *c['x'], raw=True)
                if c['op'] == 'dot': z = fx.dot(xa, xa, out=out)
                elif c['op'] == 'prod': z = fx.prod(xa, out=out)
                elif c['op'] == 'cumsum':
                    out = fx.Fxp(np.zeros(np.asarray(xa.val).shape), *c['out'], overflow='wrap', rounding=c['r']); z = fx.cumsum(xa, out=out)
                else: z = (fx.sum if c['op'] == 'sum' else fx.fxp_max)(xa, out=out)
            elif c['route'] == 'out':
                z = {'+': fx.add, '-': fx.sub, '*': fx.mul}[c['op']](x, y, out=out)
            else:
                x.config.op_out = out
                z = x + y if c['op'] == '+' else (x - y if c['op'] == '-' else x * y)
            got = (lib.codes_of(z)[-1], z is out, (bool(z.signed), int(z.n_word), int(z.n_frac)))      # (cumsum: the last prefix sum = the sum)
            if c['op'] in ('sum', 'dot', 'prod', 'cumsum'):
                # the same reduction into its own (optimal) word, which may exceed 64 bits: compared with the exact result and with the model
                zo = {'sum': lambda: np.sum(xa), 'dot': lambda: np.dot(xa, xa), 'prod': lambda: np.prod(xa), 'cumsum': lambda: np.cumsum(xa)}[c['op']]()
                c['_opt'] = ((bool(zo.signed), int(zo.n_word), int(zo.n_frac)), lib.codes_of(zo), lib.status3(zo)[:2])
        except Exception as e:
            res.fail(c, 'C03: arithmetic into a wide wrap register raised %s' % lib.exc_name(e), got=str(e)[:200]); continue
        xv = Fraction(c['cx'], 1) / (1 << c['x'][2]); yv = Fraction(c['cy'], 1) / (1 << c['y'][2])
        ex = xv + yv if c['op'] in ('+', 'sum') else (xv - yv if c['op'] == '-' else (max(xv, yv) if c['op'] == 'max' else xv * yv))
        if c['op'] in ('sum', 'max', 'dot', 'prod', 'cumsum'):
            mv = [Fraction(m, 1) / (1 << c['x'][2]) for m in c.get('more', [])]
            if c['op'] in ('sum', 'cumsum'): ex = sum(mv, xv + yv)
            elif c['op'] == 'max': ex = max([xv, yv] + mv)
            elif c['op'] == 'dot': ex = sum(v * v for v in [xv, yv] + mv)
            else:
                ex = xv * yv
                for v in mv: ex *= v
        exs = [ex]
        if c['op'] == 'cumsum':       # every prefix sum is stored: the flags are those of all of them, the last code is the sum
            allv = [xv, yv] + mv; exs = [sum(allv[:k + 1], Fraction(0)) for k in range(len(allv))]
        pend.append((c, got, lib.status3(z))); reqs.append([4] + e_fmt(*c['out']) + [RMODES.index(c['r']), 1] + e_list(exs, e_dy))
        # the arithmetic model (raw method into the imposed format: Python integers, exact rationals for a negative rescale)
        reqs.append([41, {'+': 0, '-': 1, '*': 2}.get(c['op'], 0)] + e_fmt(*c['x']) + e_list([c['cx']]) + e_fmt(*c['y']) + e_list([c['cy']]) + e_fmt(*c['out']) + [RMODES.index(c['r']), 1])
    outs = model_call(reqs); wide_pend = []; wide_reqs = []
    for i, (c, got, st3) in enumerate(pend):
        o = outs[2 * i]; mo = S.read_model_store(outs[2 * i + 1])
        rd = Reader(o); want = rd.lst(rd.z)[-1]; wflags = (rd.b(), rd.b())
        res.count('G:narrow-operands-into-wide-register', key=repr(c), nontrivial=True)
        res.sample(c)
        if got == (want, True, tuple(c['out'])) and st3[:2] != wflags:
            res.fail(c, 'C03: arithmetic stored through out= into a wrap register: the overflow / underflow flags are not those of the exact result (an intermediate wrapped)', expected=wflags, got=st3[:2]); continue
        if got != (want, True, tuple(c['out'])):
            res.fail(c, 'C03: arithmetic stored through out= into a wrap register of 64 bits or more is not the residue of the exact result', expected=(want, True, tuple(c['out'])), got=got); continue
        if c['op'] not in '+-*':           # (reductions into a register: compared with the Spec only; into the optimal word: exact result and model)
            if '_opt' in c:
                zf, zc, zs = c.pop('_opt'); codes = [c['cx'], c['cy']] + c.get('more', [])
                kind = {'sum': 0, 'cumsum': 1, 'prod': 2}.get(c['op'])
                ex_codes = {'sum': [sum(codes)], 'cumsum': [sum(codes[:k + 1]) for k in range(len(codes))], 'dot': [sum(v * v for v in codes)]}.get(c['op'])
                if ex_codes is None:
                    p_ = 1
                    for v in codes: p_ *= v
                    ex_codes = [p_]
                if zc != ex_codes or zs != (False, False):
                    res.fail(c, 'C03: %s with optimal sizing is not the exact result when its word exceeds the machine word (an intermediate wrapped)' % c['op'], expected=ex_codes, got=(zf, zc, zs)); continue
                wide_pend.append((c, zf, zc))
                wide_reqs.append(([110, kind] + e_fmt(*c['x']) + [len(codes)] + e_list(codes)) if kind is not None else ([111] + e_fmt(*c['x']) + e_fmt(*c['x']) + e_list(codes) + e_list(codes)))
            continue
        if mo['kind'] != 'ok' or mo['codes'] != [got[0]] or mo['status'][:2] != st3[:2]:
            res.fail(c, 'model Arith.arith_raw disagrees with the implementation although the Spec agrees (wide register)', expected=str(mo)[:200], got=(got[0], st3))
            res.failures[-1]['no_input'] = True
    for (c, zf, zc), mout in zip(wide_pend, model_call(wide_reqs)):
        kind_, rd = lib.outcome(mout)
        if kind_ == 'ok': mf = (rd.b(), rd.z(), rd.z()); mc = rd.lst(rd.z)
        if kind_ != 'ok' or mf != zf or mc != zc:
            res.fail(c, 'model Reduce disagrees with the implementation although the exact oracle agrees (%s, optimal word)' % c['op'], expected=str(kind_), got=(zf, zc[:4])); res.failures[-1]['no_input'] = True

def run_unhandled(cases, res):
    """NumPy functions the library does not implement itself (np.square, np.left_shift) on integer-valued operands of 64 bits and more,
    stored through out= into a wrap register wider than 64 bits: the register holds the residue of the exact result"""
    fx = lib.impl(); import numpy as np
    for c in cases:
        try:
            x = fx.Fxp(list(c['uv']), c['s'], c['nwx'], 0)
            z = fx.Fxp(np.zeros(len(c['uv'])), c['sz'], c['nwz'], 0, overflow='wrap')
            r = np.square(x, out=z) if c['fn'] == 'square' else np.left_shift(x, c['k'], out=z)
            got = (lib.codes_of(z), r is z)
        except Exception as e:
            res.fail(c, 'C03: an unhandled NumPy function into a wide wrap register raised %s' % lib.exc_name(e), got=str(e)[:200]); continue
        m_ = 1 << c['nwz']
        def reg(v):
            w = v % m_; return w - m_ if (c['sz'] and w >= m_ // 2) else w
        want = [reg(v * v if c['fn'] == 'square' else v << c['k']) for v in c['uv']]
        res.count('N:unhandled-numpy-into-wide-register', key=repr(c), nontrivial=True, n=len(want))
        if got != (want, True):
            res.fail(c, 'C03: np.%s of integer-valued wide operands stored through out= into a wrap register is not the residue of the exact result' % c['fn'], expected=want, got=got)

def unhandled_cases(rng, n):
    cases = []
    for _ in range(n):
        s = rng.random() < 0.5; sz = s or rng.random() < 0.5
        uv = [rng.choice([rng.getrandbits(rng.choice([33, 38, 40, 50, 62])), 3, (1 << 37) + (1 << 33) + 1]) * (rng.choice([1, -1]) if s else 1) for _k in range(rng.choice([1, 2, 3]))]
        cases.append({'s': s, 'nwx': rng.choice([64, 72, 80]), 'sz': sz, 'nwz': rng.choice([65, 72, 100, 130]), 'uv': uv, 'fn': rng.choice(['square', 'left_shift']), 'k': rng.choice([30, 40, 64])})
    return cases

def shard(shard, nshards, rng, tier, extra):
    res = Result()
    nwmax = 3 if tier == 'quick' else 6
    fmts = [(s, nw, nf) for s in (True, False) for nw in range(1, nwmax + 1) for nf in range(-8, nw + 9)]
    cases = []
    for idx, (s, nw, nf) in enumerate(fmts):
        if idx % nshards != shard: continue
        sweep = [S.as_number(v) for v in S.quarter_lsb_sweep(s, nw, nf)]
        for mi, r in enumerate(RMODES):
            cases.append({'s': s, 'nw': nw, 'nf': nf, 'r': r, 'o': 'wrap', 'carrier': 'arr:float64', 'route': S.ROUTES[(idx + mi) % 4], 'vals': sweep, 'setmode': 'slice'})
            if (idx + mi) % 5 == 0: cases[-1]['ack'] = True      # (the object carries a callback that resets the flags inside the event: the stored codes are the same)
    check_store_cases(cases, res, 'A:exhaustive-quarter-LSB-wrap', 'C03')
    n = (12000 if tier == 'quick' else 120000) // nshards
    cases = []
    for _ in range(n):
        s, nw, nf = S.random_format(rng)
        vals = [S.as_number(v) for v in S.boundary_values(rng, s, nw, nf, rng.choice([1, 2, 4]))]
        cases.append({'s': s, 'nw': nw, 'nf': nf, 'r': rng.choice(RMODES), 'o': 'wrap', 'carrier': rng.choice(S.carriers_for(vals, rng)), 'route': rng.choice(S.ROUTES), 'vals': vals, 'setmode': 'slice'})
        if rng.random() < 0.15: cases[-1]['ack'] = True
    check_store_cases(cases, res, 'B:random-core-wrap', 'C03')
    run_unhandled(unhandled_cases(rng, (300 if tier == 'quick' else 6000) // nshards), res)
    run_period(period_cases(rng, (4500 if tier == 'quick' else 40000) // nshards), res)
    run_wide(wide_cases(rng, (7500 if tier == 'quick' else 60000) // nshards), res)
    run_wide2d(wide2d_cases(rng, (900 if tier == 'quick' else 8000) // nshards), res)
    run_register(register_cases(rng, (3600 if tier == 'quick' else 30000) // nshards), res)
    run_widesrc(widesrc_cases(rng, (1800 if tier == 'quick' else 15000) // nshards), res)
    run_outreg(outreg_cases(rng, (2400 if tier == 'quick' else 20000) // nshards), res)
    res.exhaustive = True
    return res

def run(seed, tier):
    return run_sharded('c03', 'shard', 16, seed, tier)

def classify(fl):
    """known finding 'mul-rescale-float': the first wrong step is a product whose exact integer value needs more than
    53 bits and which is rescaled by a negative power of two (n_frac > 0 with sizing 'same')"""
    c = fl['case']
    if 'steps' not in c or 'yfmt' in c or c['nf'] <= 0 or not isinstance(fl.get('expected'), list) or not isinstance(fl.get('got'), list): return None
    exp, got = fl['expected'], fl['got']
    prev = c['init']
    for i, (op, yc) in enumerate(c['steps']):
        if i >= len(got) or got[i] != exp[i]:
            if op == '*' and abs(prev * yc) >= 2**53: return 'mul-rescale-float'
            return None
        prev = got[i]
    return None

def replay(payload):
    c = payload['case']; res = Result()
    if 'uv' in c: run_unhandled([c], res)
    elif 'vals' in c: check_store_cases([c], res, 'replay', 'C03')
    elif 'steps' in c: c['steps'] = [tuple(t) for t in c['steps']]; run_register([c], res)
    elif 'src' in c: run_widesrc([c], res)
    elif 'shape2d' in c: run_wide2d([c], res)
    elif 'out' in c: run_outreg([c], res)
    elif 'v2' in c:
        c['v'] = Fraction(c['v']); c['v2'] = Fraction(c['v2']); run_period([c], res)
    else: run_wide([c], res)
    return {'holds': not res.failures, 'failures': res.failures}
