# c06.py — C06: size inference picks the smallest format that holds the values exactly.
import itertools, math, os, sys
from fractions import Fraction
import lib, storelib as S, arithlib as A
from lib import Result, model_call, run_sharded, e_list, e_dy, Reader, outcome

RULE = ('scalar and array inputs whose elements are dyadic rationals k/2^f with f<=20 and |k|<2^40 (boundary values +-2^j, 2^j - LSB, small integers, random; arrays with symmetric and near-symmetric extremes v, -v, -v+-LSB), as floats, Python ints, int arrays and NumPy scalars / arrays of narrow dtypes (int8..uint32, float16, float32); signedness True / False (non-negative values) / default; '
        'every subset of {n_word, n_frac, n_int} left unspecified. Checked with exact rationals: values stored exactly with no flag; n_frac minimal (fewest fraction bits making all values integral); n_word minimal with a non-negative integer length; '
        'only n_word given: n_frac = min(exact n_frac, room left); only n_frac given: minimal word; n_int given with one other size: the third follows arithmetically; capped case (scalars and arrays of 1..3 random non-dyadic doubles of different magnitudes, optionally with n_word given): word within the limit, every element within 1 LSB, no overflow, inexact flag. '
        'Compared also with the model Sizes.init_size. Non-trivial = some value has a fractional part or needs more than 1 integer bit; distinct by full input.')
ASSUMPTIONS = ['"minimal" follows the statement: fewest fraction bits first, then fewest word bits with n_int >= 0']

def min_frac(vals):
    k = 0
    while any((v * 2 ** k).denominator != 1 for v in vals): k += 1
    return k
def min_int(vals, nf, signed):
    codes = [v * 2 ** nf for v in vals]
    i = 0
    while True:
        lim = 2 ** (i + nf)
        if all((-lim <= c < lim) if signed else (0 <= c < lim) for c in codes): return i
        i += 1

def gen(rng):
    n = rng.choice([1, 1, 1, 2, 2, 4]); f = rng.randint(0, 20)
    vals = []
    for _ in range(n):
        k = rng.random()
        if k < 0.3: v = Fraction(rng.choice([1, -1]) * 2 ** rng.randint(0, 18)) - rng.choice([0, 0, Fraction(1, 2 ** f)])
        elif k < 0.5: v = Fraction(rng.randint(-40, 40))
        else: v = Fraction(rng.randint(-2 ** rng.randint(1, 40), 2 ** rng.randint(1, 40)), 2 ** f)
        vals.append(v)
    if n >= 2 and rng.random() < 0.4:   # union-of-requirements boundaries: symmetric and near-symmetric extremes
        vals[1] = -vals[0] + rng.choice([0, 0, 1, -1]) * Fraction(1, 2 ** f)
    signed = rng.choice([True, None, False])
    if signed is False: vals = [abs(v) for v in vals]
    given = rng.choice(['none', 'none', 'n_word', 'n_frac', 'n_int+n_frac', 'n_int+n_word', 'n_int'])
    c = {'vals': [str(v) for v in vals], 'signed': signed, 'given': given, 'shape': 'scalar' if n == 1 and rng.random() < 0.7 else 'array',
         'carrier': rng.choice(['float', 'float', 'int'])}
    if rng.random() < 0.25: c['prelude'] = rng.choice([1, 3, 6])
    if rng.random() < 0.1: c['prelude_inf'] = True
    if rng.random() < 0.3: c['objarr'] = True
    # NumPy carriers of a narrow dtype (values that the dtype holds exactly)
    if rng.random() < 0.3:
        import numpy as np
        cands = []
        for name in ('int8', 'uint8', 'int16', 'uint16', 'int32', 'uint32', 'float16', 'float32'):
            dt = np.dtype(name)
            try:
                if dt.kind in 'iu':
                    if all(v.denominator == 1 and np.iinfo(dt).min <= int(v) <= np.iinfo(dt).max for v in vals): cands.append(name)
                elif all(Fraction(float(dt.type(float(v)))) == v for v in vals): cands.append(name)
            except (OverflowError, ValueError): pass
        if cands: c['carrier'] = 'np:' + rng.choice(cands)
    elif rng.random() < 0.08: c['carrier'] = 'decimal'; c.pop('objarr', None)
    elif rng.random() < 0.12 and all(abs(v) < 2 ** 40 for v in vals):
        c['carrier'] = 'fxp:%d:%d' % (rng.choice([0, 1, 3, 8]), rng.choice([0, 1, 2, 6])); c.pop('objarr', None)
    return c

def run_cases(cases, res):
    fx = lib.impl(); import numpy as np
    pend = []; reqs = []
    for c in cases:
        vals = [Fraction(v) for v in c['vals']]; s_eff = True if c['signed'] is None else c['signed']
        nf0 = min_frac(vals); ni0 = min_int(vals, nf0, s_eff); sign = 1 if s_eff else 0
        kw = {}
        if c['signed'] is not None: kw['signed'] = c['signed']
        g = c['given']
        if g == 'n_word': kw['n_word'] = max(1, sign + ni0 if c.get('slack', 0) < -1 else 1, c.get('n_word', sign + ni0 + nf0 + c.get('slack', 0)))      # (a word many bits short of the exact fraction still leaves room for the integer part)
        elif g == 'n_frac': kw['n_frac'] = c.get('n_frac', nf0 + c.get('slack', 0))
        elif g == 'n_int+n_frac': kw['n_int'] = ni0 + c.get('slack', 0); kw['n_frac'] = nf0
        elif g == 'n_int+n_word': kw['n_int'] = ni0; kw['n_word'] = sign + ni0 + nf0 + c.get('slack', 0)
        elif g == 'n_int': kw['n_int'] = ni0
        allint = all(v.denominator == 1 for v in vals)
        nums = [int(v) if (c['carrier'] == 'int' and allint) else float(v) for v in vals]
        val = nums[0] if c['shape'] == 'scalar' else (np.array(nums) if rng_choice(c) else list(nums))
        if c.get('objarr') and c['shape'] != 'scalar' and len(nums) >= 2 and len(nums) % 2 == 0 and vals[0].denominator == 1 and not c['carrier'].startswith('np:'):
            # a 2-D OBJECT ndarray: a Python int first, Python floats elsewhere (the widest type decides how the values are read)
            val = np.array([int(vals[0])] + [float(v) for v in vals[1:]] + [None], dtype=object)[:-1].reshape(2, -1)
        if c['carrier'].startswith('np:'):
            dt = np.dtype(c['carrier'][3:])
            val = dt.type(nums[0]) if c['shape'] == 'scalar' else np.array(nums, dtype=dt)
        if c['carrier'] == 'decimal':
            # decimal.Decimal objects holding the dyadic values exactly (a scalar, or a list of them)
            from decimal import Decimal
            ds_ = [Decimal(v.numerator) / Decimal(v.denominator) for v in vals]
            if all(Fraction(d) == v for d, v in zip(ds_, vals)): val = ds_[0] if c['shape'] == 'scalar' else ds_
        if c['carrier'].startswith('fxp:'):
            # the values handed over by ANOTHER fixed-point object that holds them exactly in a format wider than the minimal one
            _, dw_, df_ = c['carrier'].split(':'); f0_ = nf0 + int(df_); w0_ = 1 + ni0 + f0_ + int(dw_)
            val = fx.Fxp([float(v) for v in vals] if c['shape'] != 'scalar' else float(vals[0]), True, w0_, f0_)
        try:
            if c.get('prelude_inf'):
                globals()['_INF_PRELUDE_RAN'] = True
                # an earlier size inference of the same process that FAILED (an infinite value): nothing of it - NumPy's floating-point error state
                # included - may survive into the construction under test
                for bad_ in (float('inf'), [1.0, -np.inf]):
                    try: fx.Fxp(bad_)
                    except Exception: pass
            if c.get('prelude'):
                # an earlier construction of the same values in the same process under a COARSE max_error (it may legitimately stop early):
                # nothing of it may survive into the construction under test
                try: fx.Fxp(val, max_error=2.0 ** -c['prelude'], **{k_: v_ for k_, v_ in kw.items() if k_ == 'signed'})
                except Exception: pass
            x = fx.Fxp(val, **kw)
            obs = {'fmt': (bool(x.signed), int(x.n_word), int(x.n_frac)), 'n_int': int(x.n_int), 'codes': lib.codes_of(x), 'status': lib.status3(x), 'dtype': x.dtype}
        except Exception as e:
            # (when a failed inference ran earlier in this process it is part of the failing history: the replay runs it first)
            res.fail(dict(c, prelude_inf=True) if globals().get('_INF_PRELUDE_RAN') else c, 'C06: size inference raised %s' % lib.exc_name(e), got=str(e)[:200]); continue
        pend.append((c, obs, vals, kw, s_eff, nf0, ni0))
        sgn = 2 if c['signed'] is None else (1 if c['signed'] else 0)
        req = [100, sgn, 1 if 'n_word' in kw else 0, kw.get('n_word', 0), 1 if 'n_frac' in kw else 0, kw.get('n_frac', 0), 1 if 'n_int' in kw else 0, kw.get('n_int', 0), 1] + e_list(vals, e_dy)
        reqs.append(req)
    outs = model_call(reqs)
    for (c, obs, vals, kw, s_eff, nf0, ni0), out in zip(pend, outs):
        sign = 1 if s_eff else 0
        s, nw, nf = obs['fmt']
        res.count('S:sizes', key=repr(c), nontrivial=(nf0 > 0 or ni0 > 1), n=1)
        res.sample(dict(c, kw=kw, got=obs['fmt']))
        exact_vals = [Fraction(cd) / Fraction(2) ** nf for cd in obs['codes']]
        g = c['given']
        fits = True
        if g == 'none' or g == 'n_int':
            want = (s_eff, sign + ni0 + nf0, nf0)
            if g == 'n_int': want = None
        elif g == 'n_word':
            w = kw['n_word']; want = (s_eff, w, min(w - sign - ni0, nf0)); fits = (w - sign - ni0 >= nf0)
        elif g == 'n_frac':
            f_ = kw['n_frac']; fits = all((v * Fraction(2) ** f_).denominator == 1 for v in vals)
            want = (s_eff, sign + max(min_int(vals, f_, s_eff) + f_, 0), f_) if fits else None      # (all-zero values under a negative n_frac need no magnitude bit)
        elif g == 'n_int+n_frac':
            want = (s_eff, kw['n_int'] + kw['n_frac'] + sign, kw['n_frac'])
        else:
            want = (s_eff, kw['n_word'], kw['n_word'] - kw['n_int'] - sign); fits = want[2] >= nf0
        if s != s_eff:
            res.fail(c, 'C06: signedness of the inferred format is wrong', expected=s_eff, got=s); continue
        if obs['n_int'] != nw - nf - sign or obs['dtype'] != 'fxp-%s%d/%d' % ('s' if s else 'u', nw, nf):
            res.fail(c, 'C06: n_int / dtype inconsistent with the inferred sizes', expected=nw - nf - sign, got=(obs['n_int'], obs['dtype'])); continue
        if want is not None and (s, nw, nf) != want:
            res.fail(c, 'C06: inferred format is not the minimal / arithmetically determined one', expected=want, got=(s, nw, nf)); continue
        if g == 'n_frac' and not fits and c.get('slack', 0) < 0 and kw['n_frac'] >= 0:
            trunc_codes = [math.trunc(v * Fraction(2) ** kw['n_frac']) for v in vals]
            if obs['codes'] != trunc_codes or obs['status'][0] or obs['status'][1] or nf != kw['n_frac']:
                res.fail(c, 'C06: only n_frac given with fewer fraction bits than the values need: the inferred word does not hold every truncated code (overflow / underflow raised, or a code changed)', expected=(trunc_codes, kw['n_frac']), got=(obs['codes'], obs['status'], (s, nw, nf))); continue
        if fits and (exact_vals != vals or obs['status'] != (False, False, False)):
            res.fail(c, 'C06: the inferred format does not hold the supplied values exactly without flags', expected=c['vals'], got=([str(v) for v in exact_vals], obs['status'])); continue
        kind, rd = outcome(out)
        if kind == 'ok': m = (rd.b(), rd.z(), rd.z())
        if kind != 'ok' or m != (s, nw, nf):
            res.fail(c, 'model Sizes.init_size disagrees with the implementation although the property holds', expected=str((kind, m if kind == 'ok' else None)), got=(s, nw, nf)); res.failures[-1]['no_input'] = True

def rng_choice(c):
    return (hash(repr(c)) & 1) == 0

def capped(rng, n_cases, res):
    cases = []
    for _ in range(n_cases):
        def one(): return rng.choice([0.1, 1 / 3.0, -0.7, rng.uniform(-100, 100), rng.uniform(-1, 1) * 2.0 ** rng.randint(-10, 30), math.pi, 1000.1,
                                      2.0 ** rng.randint(20, 50) + rng.choice([0, 0.5, 1]), 2.0 ** -rng.randint(30, 75), -2.0 ** rng.randint(20, 50), 3 * 2.0 ** -rng.randint(20, 45)])      # (wide dynamic range: the cap shortens the fraction)
        vs = [one() for _ in range(rng.choice([1, 1, 2, 3]))]
        signed = rng.choice([True, None, False])
        if signed is False: vs = [abs(v) for v in vs]
        cases.append({'capped': [repr(v) for v in vs], 'signed': signed, 'n_word': rng.choice([None, None, 32, 48])})
    run_capped(cases, res)

def run_capped(cases, res):
    fx = lib.impl()
    for c in cases:
        vs = [float(t) for t in c['capped']]; kw = {}
        if c['signed'] is not None: kw['signed'] = c['signed']
        if c.get('n_word'): kw['n_word'] = c['n_word']
        try:
            x = fx.Fxp(vs[0] if len(vs) == 1 else vs, **kw)
        except Exception as e:
            res.fail(c, 'C06: capped inference raised %s' % lib.exc_name(e), got=str(e)[:200]); continue
        res.count('C:capped', key=repr(c), nontrivial=True)
        got = [Fraction(cd) / Fraction(2) ** x.n_frac for cd in lib.codes_of(x)]; lsb = Fraction(2) ** (-x.n_frac)
        bad = [(str(g), repr(v)) for g, v in zip(got, vs) if abs(g - Fraction(v)) >= lsb]
        inexact = any(g != Fraction(v) for g, v in zip(got, vs))
        # the model of the size inference (opcode 100): the same format, the cap and the shortened fraction length included
        sgn_ = 2 if c['signed'] is None else (1 if c['signed'] else 0)
        mo_ = model_call([[100, sgn_, 1 if c.get('n_word') else 0, c.get('n_word') or 0, 0, 0, 0, 0, 1] + e_list([Fraction(v) for v in vs], e_dy)])[0]
        kind_, rd_ = outcome(mo_)
        mfmt = (rd_.b(), rd_.z(), rd_.z()) if kind_ == 'ok' else None
        in_model = all(Fraction(v).denominator <= 2 ** 52 for v in vs)      # (the model computes v mod 1 and the residues exactly: so does the implementation, in doubles, for multiples of 2^-52; and the default max_error 2^-63 never stops the search on them)
        if in_model and (kind_ != 'ok' or mfmt != (bool(x.signed), int(x.n_word), int(x.n_frac))):
            res.fail(c, 'model Sizes.init_size disagrees with the implementation on a capped / non-dyadic input although the property holds', expected=str((kind_, mfmt)), got=(bool(x.signed), int(x.n_word), int(x.n_frac))); res.failures[-1]['no_input'] = True; continue
        if x.n_word > 64 or (c.get('n_word') and x.n_word != c['n_word']) or bad or (inexact and not x.status['inaccuracy']) or x.status['overflow'] or x.status['underflow']:
            res.fail(c, 'C06: capped inference exceeds the word limit, or errs by a full LSB (overflow), or is not flagged inexact', expected='word within the limit, every element within 1 LSB, only the inaccuracy flag', got=(x.dtype, bad[:3], {k: v for k, v in x.status.items() if v}))

HIST_SCRIPT = r"""
import sys, json, warnings
warnings.filterwarnings('ignore')
from fractions import Fraction
import numpy as np
np.seterr(all='ignore')
import fxpmath as fx
out = []
for call in json.load(sys.stdin):
    vs = [float(Fraction(t)) for t in call['v']]
    try:
        x = fx.Fxp(vs[0] if len(vs) == 1 else vs, **call['kw'])
        out.append([bool(x.signed), int(x.n_word), int(x.n_frac), [int(t) for t in np.asarray(x.val).reshape(-1).tolist()], sorted(k for k, v in x.status.items() if v)])
    except Exception as e:
        out.append(['raised', type(e).__name__, str(e)[:120]])
print(json.dumps(out))
"""

def gen_history(rng):
    """a sequence of size inferences as the FIRST ones of a process: the result of each must not depend on the ones before it"""
    def call(small):
        f = rng.choice([0, 1, 3, 5]) if small else rng.choice([0, 2, 7, 12, 16, 20]); j = rng.randint(0, 5 if small else 9)
        vs = [Fraction(rng.randint(-2 ** (j + f), 2 ** (j + f)) | 1, 2 ** f) for _ in range(rng.choice([1, 1, 3]))]
        kw = {}
        sg = rng.choice([None, None, True, False])
        if sg is False: vs = [abs(v) for v in vs]
        if sg is not None: kw['signed'] = sg
        if small: kw['n_word_max'] = rng.choice([8, 10, 12, 16])
        elif rng.random() < 0.2: kw['n_word_max'] = rng.choice([24, 32, 48])
        return {'v': [str(v) for v in vs], 'kw': kw}
    first_small = rng.random() < 0.6
    return {'history': [call(first_small)] + [call(rng.random() < 0.25) for _ in range(7)]}

def run_history(cases, res):
    import subprocess, json as _json
    fx = lib.impl(); import numpy as np
    for c in cases:
        env = dict(os.environ); env['PYTHONPATH'] = lib.REPO; env['PYTHONHASHSEED'] = '0'
        try:
            pr = subprocess.run([sys.executable, '-B', '-c', HIST_SCRIPT], input=_json.dumps(c['history']), capture_output=True, text=True, env=env, timeout=120)
            fresh = _json.loads(pr.stdout.strip().splitlines()[-1])
        except Exception as e:
            res.fail(c, 'C06: a fresh process running a sequence of size inferences failed (%s)' % lib.exc_name(e), got=str(e)[:200]); continue
        for i, (call, fr) in enumerate(zip(c['history'], fresh)):
            vs = [float(Fraction(t)) for t in call['v']]
            try:
                x = fx.Fxp(vs[0] if len(vs) == 1 else vs, **call['kw'])
                here = [bool(x.signed), int(x.n_word), int(x.n_frac), lib.codes_of(x), sorted(k for k, v in x.status.items() if v)]
            except Exception as e:
                here = ['raised', lib.exc_name(e), str(e)[:120]]
            res.count('H:first-inferences-of-a-process', key=repr((c['history'][:i + 1])), nontrivial=True)
            # the exact expectation for dyadic values the limit can hold: the least fraction length and the least word
            lim = call['kw'].get('n_word_max', 64); vals = [Fraction(t) for t in call['v']]
            nf = max(v.denominator.bit_length() - 1 for v in vals); sg = call['kw'].get('signed'); sg = True if sg is None else sg      # (the default is a signed format)
            codes = [int(v * 2 ** nf) for v in vals]
            nw = max(max((cd.bit_length() + 1) if cd >= 0 else ((-cd - 1).bit_length() + 1) for cd in codes) if sg else max(cd.bit_length() for cd in codes), 1)
            want = [sg, nw, nf, codes, []] if nw <= lim and nf <= lim - (1 if sg else 0) else None
            if fr != here or (want is not None and fr[:1] != ['raised'] and (fr[2] != want[2] or fr[3] != want[3] or fr[4] != [] or fr[1] < want[1])) or (want is not None and fr[:1] == ['raised']):
                one = {'history': c['history'][:i + 1]}
                res.fail(one, 'C06: a size inference depends on the inferences the process made before it (call %d of a fresh process)' % (i + 1), expected={'in a warmed-up process': here, 'exact': want}, got=fr); break

def shard(shard, nshards, rng, tier, extra):
    res = Result()
    cases = []
    for _ in range((12000 if tier == 'quick' else 100000) // nshards):
        c = gen(rng)
        if c['given'] in ('n_word', 'n_frac', 'n_int+n_frac', 'n_int+n_word'): c['slack'] = rng.choice([0, 0, 1, 3, -1 if c['given'] == 'n_word' else 2] + ([-rng.randint(2, 16), -rng.randint(2, 6)] if c['given'] == 'n_word' else []))
        if c['given'] == 'n_frac' and rng.random() < 0.3 and not c.get('objarr') and c['carrier'] in ('float', 'int'):
            # only n_frac given and FEWER fraction bits than the values need (default rounding: truncation): the word holds every truncated code -
            # arrays whose extremes truncate onto the same power of two included (-1.25 and 1.0 at n_frac = 0)
            c['slack'] = -rng.randint(1, 6)
            if rng.random() < 0.5:
                j_ = rng.randint(0, 8); f_ = rng.randint(1, 6); c['vals'] = [str(-(Fraction(2 ** j_) + Fraction(rng.randint(1, 2 ** f_ - 1), 2 ** f_))), str(Fraction(2 ** j_))] + ([str(Fraction(rng.randint(-2 ** j_, 2 ** j_)))] if rng.random() < 0.5 else [])
                c['shape'] = 'array'; c['signed'] = rng.choice([True, None]); c['carrier'] = 'float'; c['slack'] = -f_
        cases.append(c)
        if rng.random() < 0.06:
            # only n_word given and many bits short of the exact fraction, the extreme just beyond a power of two (the integer part is decided by the exact value, not by a truncated one)
            f = rng.randint(4, 20); j = rng.randint(0, 6); sg_ = rng.choice([-1, -1, 1])
            v = sg_ * (Fraction(2 ** j) + Fraction(rng.choice([1, 1, -1]), 2 ** f))
            vals = [v] + ([Fraction(rng.randint(-2 ** j, 2 ** j), 4)] if rng.random() < 0.4 else [])
            cases.append({'vals': [str(t) for t in vals], 'signed': rng.choice([True, None]), 'given': 'n_word', 'shape': 'scalar' if len(vals) == 1 else 'array', 'carrier': 'float', 'slack': -rng.randint(2, f - 1)})
        if rng.random() < 0.04:
            # only a NEGATIVE n_frac given (values that are multiples of 2^-n_frac): the word is the least one holding the codes
            j = rng.randint(1, 12); sg_ = rng.choice([True, None, False])
            vals = [Fraction(rng.randint(0 if sg_ is False else -2 ** rng.randint(1, 20), 2 ** rng.randint(1, 20)) * 2 ** (j + rng.choice([0, 0, 1, 3]))) for _ in range(rng.choice([1, 1, 3]))]
            cases.append({'vals': [str(t) for t in vals], 'signed': sg_, 'given': 'n_frac', 'n_frac': -j, 'shape': 'scalar' if len(vals) == 1 else 'array', 'carrier': rng.choice(['float', 'int', 'decimal'])})
    run_cases(cases, res)
    capped(rng, (900 if tier == 'quick' else 6000) // nshards, res)
    run_history([gen_history(rng) for _ in range(2 if tier == 'quick' else 12)], res)
    return res

def run(seed, tier):
    return run_sharded('c06', 'shard', 16, seed, tier)
def classify(fl): return None
def replay(payload):
    res = Result(); c = payload['case']
    if 'vals' in c: run_cases([c], res)
    elif 'capped' in c: run_capped([c], res)
    elif 'history' in c: run_history([c], res)
    return {'holds': not res.failures, 'failures': res.failures}
