# c01.py — C01: storing a value quantizes it exactly (scale, round, saturate/wrap).
# Correspondence: implementation vs extracted Spec.quantize (the property predicate)
# and vs the code-shaped model set_val_real, over every carrier and route.
import itertools, math
from fractions import Fraction
import lib, storelib as S
from lib import Result, RMODES, OMODES, e_fmt, e_list, e_dy, model_call, run_sharded

RULE = ('stratified: (A) exhaustive quarter-LSB sweep over 3x the range of every format with n_word<=3 (quick) / <=6 (thorough), '
        'n_frac -8..n_word+8, all 10 mode pairs, as arrays by rotating routes; (B) random formats up to 52 bits, boundary-biased '
        'values, every carrier that can hold them exactly, every route; (C) huge finite floats under saturate; (D) floats and integers with |v*2^n_frac| in [2^50, 2^62) (beyond the integer precision of float64) under both overflow modes, small and random words; (E) float arrays mixing an element of magnitude >= 2^64 with fractional ones under saturate; (T) non-zero floats so small that v*2^n_frac (n_frac < 0) is below the smallest subnormal double; (X) complex scalars, lists, tuples and complex128 arrays (each component, flags, read-back, dtype). A case is non-trivial '
        'when some element is changed by quantization (rounded or overflowed); distinct by hash of format, modes, carrier, route, values.')
ASSUMPTIONS = ['carrier glue (np.array dtype inference on lists/tuples, float(str)) is exercised but has no Gallina counterpart']

from storelib import check_store_cases, spec_list_request
def check_cases(cases, res, stratum, huge=False, keep_array=False):
    return check_store_cases(cases, res, stratum, 'C01', huge=huge, keep_array=keep_array)

def run_complex_cases(cases, res, stratum):
    """complex inputs: each component must be quantized on its own; flags are those of either part"""
    from lib import Reader, outcome, e_f64
    fx = lib.impl(); import numpy as np
    pend = []; reqs = []
    for c in cases:
        s, nw, nf = c['s'], c['nw'], c['nf']; re, im = c['re'], c['im']
        zs = [complex(a, b) for a, b in zip(re, im)]
        val = zs[0] if c['carrier'] == 'pycomplex' else (list(zs) if c['carrier'] == 'list' else (tuple(zs) if c['carrier'] == 'tuple' else np.array(zs, dtype=np.complex128)))
        if c['carrier'] == 'arr:complex64': val = np.array(zs, dtype=np.complex64)
        elif c['carrier'] == 'np:complex64': val = np.complex64(zs[0])
        elif c['carrier'] == 'list:complex64': val = [np.complex64(z) for z in zs]
        elif c['carrier'] == 'arr_obj':
            # an object ndarray mixing Python ints, floats and complex numbers (an element with a zero imaginary part goes in as a real number)
            val = np.array([(int(a) if float(a) == int(a) else float(a)) if b == 0 else complex(a, b) for a, b in zip(re, im)] + [None], dtype=object)[:-1]
        kw = dict(rounding=c['r'], overflow=c['o'])
        try:
            if c['route'] == 'ctor': x = fx.Fxp(val, s, nw, nf, **kw)
            else:
                x = fx.Fxp(None, s, nw, nf, **kw)
                (x if c['route'] == 'call' else x.set_val)(val)
            # a real number written by index into a complex array must leave the imaginary parts of the other elements alone
            idxw = None
            if len(zs) >= 2 and c['carrier'] != 'pycomplex':
                y = fx.Fxp(val, s, nw, nf, **kw); before = np.asarray(y.get_val()).reshape(-1).tolist()
                y[0] = 0.0; after = np.asarray(y.get_val()).reshape(-1).tolist()
                idxw = (before[1:], after[1:], complex(after[0]), y.dtype)
            # ... and a complex value written by index into an array holding real values: both components are stored ("indexed assignment" is a route)
            idxc = None
            if c['carrier'] != 'pycomplex' or True:
                yr = fx.Fxp([0.0, 0.0], s, nw, nf, **kw); yr[1] = complex(zs[0]); ar = np.asarray(yr.get_val()).reshape(-1).tolist()
                idxc = (complex(ar[1]), complex(ar[0]), lib.status3(yr)[2])
            v = np.asarray(x.val).reshape(-1)
            obs = {'idxw': idxw, 'idxc': idxc, 're': [Fraction(float(t.real)) for t in v], 'im': [Fraction(float(t.imag)) for t in v], 'st': lib.status3(x),
                   'get': [(Fraction(float(t.real)), Fraction(float(t.imag))) for t in np.asarray(x.get_val()).reshape(-1)], 'dtype': x.dtype,
                   'parts': ([Fraction(float(t)) for t in np.asarray(x.real).reshape(-1)], [Fraction(float(t)) for t in np.asarray(x.imag).reshape(-1)])}
        except Exception as e:
            res.fail(c, 'C01: storing a complex value raised %s' % lib.exc_name(e), got=str(e)[:200]); continue
        pend.append((c, obs))
        f = e_fmt(s, nw, nf); ro = [RMODES.index(c['r']), OMODES.index(c['o'])]
        reqs.append([4] + f + ro + e_list([Fraction(t) for t in re], e_dy))
        reqs.append([4] + f + ro + e_list([Fraction(t) for t in im], e_dy))
        reqs.append([11] + f + ro + e_list(re, e_f64) + e_list(im, e_f64))
    outs = model_call(reqs)
    for i, (c, obs) in enumerate(pend):
        nf = c['nf']
        r1 = Reader(outs[3 * i]); wre = r1.lst(r1.z); f1 = (r1.b(), r1.b(), r1.b())
        r2 = Reader(outs[3 * i + 1]); wim = r2.lst(r2.z); f2 = (r2.b(), r2.b(), r2.b())
        want_st = tuple(a or b for a, b in zip(f1, f2))
        exact = [Fraction(t) for t in c['re']] + [Fraction(t) for t in c['im']]
        res.count(stratum, key=repr(c), nontrivial=any(Fraction(cd) / Fraction(2) ** nf != v for cd, v in zip(wre + wim, exact)), n=2 * len(wre))
        res.sample(c)
        if obs['re'] != wre or obs['im'] != wim:
            res.fail(c, 'C01: a component of a complex value is not stored as OVERFLOW(ROUND(component*2^n_frac))', expected=(wre, wim), got=([str(t) for t in obs['re']], [str(t) for t in obs['im']])); continue
        if obs['st'] != want_st:
            res.fail(c, 'C01: status flags after a complex store are not those of either component', expected=want_st, got=obs['st']); continue
        back = [(Fraction(a) / Fraction(2) ** nf, Fraction(b) / Fraction(2) ** nf) for a, b in zip(wre, wim)]
        if obs['get'] != back or obs['parts'] != ([b[0] for b in back], [b[1] for b in back]):
            res.fail(c, 'C01: complex value read back (get_val / .real / .imag) is not code*2^-n_frac per component', expected=[(str(a), str(b)) for a, b in back], got=[(str(a), str(b)) for a, b in obs['get']]); continue
        if obs['idxw'] is not None and (obs['idxw'][0] != obs['idxw'][1] or obs['idxw'][2] != 0j or not obs['idxw'][3].endswith('-complex')):
            res.fail(c, 'C01: writing a real value by index into a complex array changed the values read back from the other elements (imaginary parts dropped)', expected=[str(t) for t in obs['idxw'][0]], got=[str(t) for t in obs['idxw'][1]]); continue
        if obs['idxc'] is not None:
            w0 = complex(float(back[0][0]), float(back[0][1]))
            if obs['idxc'][0] != w0 or obs['idxc'][1] != 0j:
                res.fail(c, 'C01: a complex value written by index into an array of real values is not stored with both components (or a neighbour changed)', expected=str(w0), got=str(obs['idxc'][:2])); continue
        if not obs['dtype'].endswith('-complex'):
            res.fail(c, 'C01: an object holding complex values does not report a complex dtype', expected='...-complex', got=obs['dtype']); continue
        kind, rd = outcome(outs[3 * i + 2])
        if kind != 'ok':
            res.fail(c, 'model set_val_complex is %s on an in-domain input' % kind); res.failures[-1]['no_input'] = True; continue
        mre, mim = rd.lst(rd.z), rd.lst(rd.z); mst = (rd.b(), rd.b(), rd.b())
        if (mre, mim, mst) != (wre, wim, want_st):
            res.fail(c, 'model set_val_complex disagrees with the implementation although the Spec agrees', expected=(mre, mim, mst), got=(wre, wim, want_st)); res.failures[-1]['no_input'] = True

def run_longdouble(cases, res):
    """np.longdouble carriers (64-bit significands on x86-64): a value a double cannot hold, e.g. 2.5 + 2^-60, as a scalar, a 0-d array,
    a 1-element array and a list must be quantized exactly (the carrier's precision is not cut to a double first)"""
    from lib import Reader
    fx = lib.impl(); import numpy as np
    if np.finfo(np.longdouble).nmant < 63: return           # (no extended precision on this platform)
    pend = []; reqs = []
    for c in cases:
        v = Fraction(c['v']); d = Fraction(c['d']); ld = np.longdouble(float(v)) + np.longdouble(float(d))
        num, den = ld.as_integer_ratio()
        if Fraction(int(num), int(den)) != v + d: continue      # (the sum is not exact in 64 bits)
        cplx = c['carrier'].startswith('c')       # extended-precision COMPLEX carriers (np.clongdouble): the value is ld - 1j*ld, each part on its own
        cld = np.array([ld], dtype=np.clongdouble)[0] * (1 - 1j) if cplx else None
        val = {'scalar': ld, 'arr0d': np.array(ld), 'arr1': np.array([ld]), 'list': [ld], 'cscalar': cld, 'carr1': np.array([cld] if cplx else [0]), 'clist': [cld],
               'arr_huge': np.array([ld, np.longdouble(10) ** 30])}[c['carrier']]       # (next to a huge neighbour - saturate, n_frac >= 0 - the array takes the Python-object path)
        if c['carrier'] == 'arr_huge' and (c['o'] != 'saturate' or c['nf'] < 0): continue
        try:
            if c['route'] == 'ctor': x = fx.Fxp(val, c['s'], c['nw'], c['nf'], rounding=c['r'], overflow=c['o'])
            else:
                x = fx.Fxp(None, c['s'], c['nw'], c['nf'], rounding=c['r'], overflow=c['o'])
                (x if c['route'] == 'call' else x.set_val)(val)
            if cplx:
                z0 = np.asarray(x.val).reshape(-1).tolist()[0]
                got = ((int(z0.real), int(z0.imag)), None)
            else: got = (lib.codes_of(x)[0], lib.status3(x))
        except Exception as e:
            res.fail(c, 'C01: storing a longdouble value raised %s' % lib.exc_name(e), got=str(e)[:200]); continue
        pend.append((c, got)); reqs.append([4] + e_fmt(c['s'], c['nw'], c['nf']) + [RMODES.index(c['r']), OMODES.index(c['o'])] + e_list([v + d, -(v + d)] if cplx else [v + d], lib.e_dy))
    for (c, got), o in zip(pend, model_call(reqs)):
        rd = Reader(o); wants = rd.lst(rd.z); want = wants[0]; wf = (rd.b(), rd.b(), rd.b())
        res.count('L:longdouble-carriers', key=repr(c), nontrivial=True)
        if c['carrier'].startswith('c'):
            if got[0] != (wants[0], wants[1]):
                res.fail(c, 'C01: a complex longdouble value is not stored as OVERFLOW(ROUND(.)) of each component (the carrier was cut to doubles first?)', expected=(wants[0], wants[1]), got=got[0])
            continue
        if got[0] != want:
            res.fail(c, 'C01: a longdouble value is not stored as OVERFLOW(ROUND(v*2^n_frac)) (the carrier was cut to a double first?)', expected=want, got=got[0]); continue
        if got[1] != wf and c['carrier'] != 'arr_huge':
            res.fail(c, 'C01: status flags after storing a longdouble value are not those of its exact quantization', expected=wf, got=got[1])

def run_bool(cases, res):
    """boolean carriers (Python bool, np.bool_, lists and arrays of them): True is the number 1 and False the number 0"""
    from lib import Reader
    fx = lib.impl(); import numpy as np
    pend = []; reqs = []
    for c in cases:
        bs = [bool(b) for b in c['bools']]
        val = {'pybool': bs[0], 'npbool': np.bool_(bs[0]), 'listbool': list(bs), 'arrbool': np.array(bs)}[c['carrier']]
        n = 1 if c['carrier'] in ('pybool', 'npbool') else len(bs)
        try:
            if c['route'] == 'ctor': x = fx.Fxp(val, c['s'], c['nw'], c['nf'], rounding=c['r'], overflow=c['o'])
            else:
                x = fx.Fxp(None if n == 1 else np.zeros(n), c['s'], c['nw'], c['nf'], rounding=c['r'], overflow=c['o'])
                (x if c['route'] == 'call' else x.set_val)(val)
            got = (lib.codes_of(x), lib.status3(x))
        except Exception as e:
            res.fail(c, 'C01: storing a boolean value raised %s' % lib.exc_name(e), got=str(e)[:200]); continue
        pend.append((c, got)); reqs.append([4] + e_fmt(c['s'], c['nw'], c['nf']) + [RMODES.index(c['r']), OMODES.index(c['o'])] + e_list([Fraction(int(b)) for b in bs[:n]], lib.e_dy))
    for (c, got), o in zip(pend, model_call(reqs)):
        rd = Reader(o); want = rd.lst(rd.z); wf = (rd.b(), rd.b(), rd.b())
        res.count('B:bool-carriers', key=repr(c), nontrivial=any(c['bools']), n=len(want))
        if got[0] != want or got[1] != wf:
            res.fail(c, 'C01: a boolean value is not stored as OVERFLOW(ROUND(v*2^n_frac)) of 1 / 0 with its flags', expected=(want, wf), got=got)

def exhaustive_formats(tier):
    nwmax = 3 if tier == 'quick' else 6
    out = []
    for s in (True, False):
        for nw in range(1, nwmax + 1):
            for nf in range(-8, nw + 9):
                out.append((s, nw, nf))
    return out

def shard(shard, nshards, rng, tier, extra):
    res = Result()
    # ---- (A) exhaustive small formats
    fmts = exhaustive_formats(tier)
    cases = []
    for idx, (s, nw, nf) in enumerate(fmts):
        if idx % nshards != shard: continue
        sweep = [S.as_number(v) for v in S.quarter_lsb_sweep(s, nw, nf)]
        for mi, (r, o) in enumerate(itertools.product(RMODES, OMODES)):
            route = S.ROUTES[(idx + mi) % 4]
            all_int = all(isinstance(v, int) for v in sweep)
            carrier = 'arr:float64' if not all_int else ['arr:int64', 'list', 'arr:float64', 'tuple'][(idx + mi) % 4]
            cases.append({'s': s, 'nw': nw, 'nf': nf, 'r': r, 'o': o, 'carrier': carrier, 'route': route, 'vals': sweep, 'setmode': ['slice', 'fancy'][mi % 2]})
    check_cases(cases, res, 'A:exhaustive-quarter-LSB')
    # ---- (B) random formats, carriers, routes
    total = 6000 if tier == 'quick' else 200000
    n = total // nshards
    cases = []
    for _ in range(n):
        s, nw, nf = S.random_format(rng)
        k = rng.choice([1, 1, 1, 2, 3, 4, 6])
        vals = [S.as_number(v) for v in S.boundary_values(rng, s, nw, nf, k)]
        if rng.random() < 0.3: vals = [int(math.floor(v)) if abs(v) < 2**53 else v for v in vals]
        vals = [v for v in vals if S.in_core(nf, v)] or [0]
        cars = S.carriers_for(vals, rng)
        carrier = rng.choice(cars)
        route = rng.choice(S.ROUTES)
        cases.append({'s': s, 'nw': nw, 'nf': nf, 'r': rng.choice(RMODES), 'o': rng.choice(OMODES), 'carrier': carrier, 'route': route,
                      'vals': vals, 'setmode': rng.choice(['slice', 'each', 'fancy', 'view'])})
    for c_ in cases:
        if rng.random() < 0.1: c_['ack'] = True      # (an acknowledging callback - reset() inside the event - on the object: what is stored does not depend on it)
    check_cases(cases, res, 'B:random-formats-carriers-routes')
    # ---- (C) huge finite floats under saturate, n_frac >= 0 (scalar floats)
    cases = []
    for _ in range((900 if tier == 'quick' else 6000) // nshards):
        s, nw, nf = S.random_format(rng)
        if nf < 0: nf = -nf
        mag = rng.choice([2.0**63, 2.0**64, 2.0**65, 1e30, 1e100, 1.7e308, 2.0**1023, rng.uniform(1, 2) * 2.0**rng.randint(53, 1023)])
        v = mag * rng.choice([1, -1])
        cases.append({'s': s, 'nw': nw, 'nf': nf, 'r': rng.choice(RMODES), 'o': 'saturate', 'carrier': 'pyfloat', 'route': rng.choice(S.ROUTES[:3]), 'vals': [v]})
    check_cases(cases, res, 'C:huge-floats-saturate')
    # ---- (D) far-out-of-range floats: |v*2^n_frac| in [2^50, 2^62), beyond float64's integer precision, both overflow modes
    cases = []
    for _ in range((3600 if tier == 'quick' else 30000) // nshards):
        s, nw, nf = S.random_format(rng)
        if rng.random() < 0.5: nw = rng.randint(1, 12)
        vals = []
        for _k in range(rng.choice([1, 1, 2, 4])):
            m = rng.getrandbits(53) | (1 << 52) | rng.choice([0, 1]); e = rng.randint(50, 61) - 52 - nf
            v = Fraction(m) * Fraction(2) ** e * rng.choice([1, -1])
            if rng.random() < 0.3: v = Fraction(2) ** (rng.randint(50, 61) - nf) * rng.choice([1, -1])
            if S.in_core(nf, v) and S.is_double(v): vals.append(S.as_number(v))
        if not vals: continue
        if rng.random() < 0.5: vals = [float(v) for v in vals]
        carrier = rng.choice(S.carriers_for(vals, rng))
        cases.append({'s': s, 'nw': nw, 'nf': nf, 'r': rng.choice(RMODES), 'o': rng.choice(OMODES), 'carrier': carrier, 'route': rng.choice(S.ROUTES),
                      'vals': vals, 'setmode': rng.choice(['slice', 'each', 'fancy', 'view'])})
    check_cases(cases, res, 'D:far-out-of-range')
    # ---- (D2) beyond the stated |v*2^n_frac| < 2^62: floats whose scaled value lies in [2^62, 2^70) under WRAP (the period law of C03
    # speaks of any multiple of the modulus); compared with the Spec only (the model's int64 cast is undefined there)
    cases = []
    for _ in range((900 if tier == 'quick' else 8000) // nshards):
        s, nw, nf = S.random_format(rng)
        if nf < 10: continue
        vals = []
        for _k in range(rng.choice([1, 1, 2])):
            e = rng.randint(62, 69); m = rng.getrandbits(30) | (1 << 29)
            v = Fraction(m) * Fraction(2) ** (e - 29 - nf) * rng.choice([1, -1])
            if abs(v) < 2 ** 53 and S.is_double(v): vals.append(float(v))
        if not vals: continue
        cases.append({'s': s, 'nw': nw, 'nf': nf, 'r': rng.choice(RMODES), 'o': 'wrap', 'carrier': rng.choice(['pyfloat', 'arr:float64', 'list']) if len(vals) == 1 else rng.choice(['arr:float64', 'list']),
                      'route': rng.choice(S.ROUTES[:3]), 'vals': vals, 'setmode': 'each'})
    check_cases(cases, res, 'D2:wrap-beyond-2^62', huge=True, keep_array=True)
    # ---- (E) float arrays mixing a huge element (>= 2^64 in magnitude) with fractional ones, under saturate, n_frac >= 0
    cases = []
    for _ in range((1200 if tier == 'quick' else 8000) // nshards):
        s, nw, nf = S.random_format(rng)
        if nf < 0: nf = -nf
        vals = [float(S.as_number(v)) for v in S.boundary_values(rng, s, nw, nf, rng.choice([1, 2, 3]))]
        # (the top binades included: there the scaled product of the huge element overflows to infinity inside the object array)
        vals.insert(rng.randint(0, len(vals)), rng.choice([1, -1]) * rng.choice([2.0**64, 2.0**65, 1e30, 1e100, 1.5e308, 2.0**1023, 1.7e308, rng.uniform(1, 2) * 2.0**rng.randint(64, 200), rng.uniform(1, 2) * 2.0**rng.randint(960, 1023)]))
        cases.append({'s': s, 'nw': nw, 'nf': nf, 'r': rng.choice(RMODES), 'o': 'saturate', 'carrier': rng.choice(['arr:float64', 'list', 'tuple']),
                      'route': rng.choice(S.ROUTES[:3]), 'vals': vals})
    check_cases(cases, res, 'E:huge-mixed-with-fractional', keep_array=True)
    # ---- (T) tiny floats into formats with n_frac < 0: v * 2^n_frac falls below the smallest subnormal double
    cases = []
    for _ in range((900 if tier == 'quick' else 6000) // nshards):
        s, nw, nf = S.random_format(rng); nf = -rng.randint(1, 8)
        vals = [rng.choice([1, -1]) * rng.choice([5e-324, 2.0 ** -1074, 2.0 ** -1070, 2.0 ** rng.randint(-1074, -1060), 3 * 2.0 ** -1074]) for _k in range(rng.choice([1, 2]))]
        if not s: vals = [abs(v) if rng.random() < 0.7 else v for v in vals]
        if rng.random() < 0.5: vals.append(float(rng.randint(0, 3) * 2 ** -nf))
        if rng.random() < 0.4: vals.insert(rng.randint(0, len(vals)), rng.choice([0.0, -0.0]))      # (an exact zero next to a vanishing element)
        cases.append({'s': s, 'nw': nw, 'nf': nf, 'r': rng.choice(RMODES), 'o': rng.choice(OMODES), 'carrier': rng.choice(['pyfloat', 'arr:float64', 'list']) if len(vals) == 1 else rng.choice(['arr:float64', 'list']),
                      'route': rng.choice(S.ROUTES[:3]), 'vals': vals})
    check_cases(cases, res, 'T:tiny-floats-negative-n_frac', huge=False, keep_array=True)
    # ---- (L) longdouble carriers: a double at or next to a rounding boundary, plus or minus a few units of its 60th..63rd bit
    cases = []
    for _ in range((900 if tier == 'quick' else 6000) // nshards):
        s, nw, nf = S.random_format(rng)
        v = S.boundary_values(rng, s, nw, nf, 1)[0]
        if v == 0 or not S.is_double(v): continue
        e = math.floor(math.log2(abs(float(v))))
        d = Fraction(rng.choice([1, -1, 3, -3]), 1) * Fraction(2) ** (e - rng.choice([60, 61, 62]))
        cases.append({'s': s, 'nw': nw, 'nf': nf, 'r': rng.choice(RMODES), 'o': rng.choice(OMODES), 'v': str(Fraction(v)), 'd': str(d),
                      'carrier': rng.choice(['scalar', 'scalar', 'arr0d', 'arr1', 'list', 'cscalar', 'carr1', 'clist', 'arr_huge', 'arr_huge']), 'route': rng.choice(['ctor', 'call', 'set_val'])})
    run_longdouble(cases, res)
    cases = []
    for _ in range((240 if tier == 'quick' else 2000) // nshards + 1):
        s_, nw, nf = S.random_format(rng)
        cases.append({'bools': [rng.random() < 0.6 for _k in range(rng.choice([1, 2, 3]))], 'carrier': rng.choice(['pybool', 'npbool', 'listbool', 'arrbool']), 'route': rng.choice(['ctor', 'call', 'set_val']),
                      's': s_, 'nw': nw, 'nf': nf, 'r': rng.choice(RMODES), 'o': rng.choice(OMODES)})
    run_bool(cases, res)
    # ---- (X) complex inputs: each component on its own
    cases = []
    for _ in range((2400 if tier == 'quick' else 20000) // nshards):
        s, nw, nf = S.random_format(rng)
        k = rng.choice([1, 1, 2, 3])
        re = [float(S.as_number(v)) for v in S.boundary_values(rng, s, nw, nf, k)]; im = [float(S.as_number(v)) for v in S.boundary_values(rng, s, nw, nf, k)]
        if rng.random() < 0.2: im = [0.0] * k
        carrier = 'pycomplex' if (k == 1 and rng.random() < 0.5) else rng.choice(['list', 'tuple', 'arr:complex128'])
        if rng.random() < 0.3:
            # single-precision complex carriers: the components are exact float32 values (the library must still compute in double)
            import numpy as _np
            if rng.random() < 0.5 and nf >= 0:      # words wider than the float32 mantissa, values at and beyond the upper bound
                nw = rng.randint(25, 40); nf = rng.randint(0, 8); lo, hi = S.fmt_bounds(s, nw)
                re = [float(_np.float32(rng.choice([hi + 1, hi, hi // 2 + 1, 3 * hi, 1, 0.5]) / 2.0 ** nf)) for _ in range(k)]
                im = [float(_np.float32(rng.choice([hi + 1, lo if s else 0, 1, 0.25, 2 * hi]) / 2.0 ** nf)) for _ in range(k)]
            else:
                re = [float(_np.float32(v)) for v in re]; im = [float(_np.float32(v)) for v in im]
            if all(math.isfinite(v) for v in re + im):
                carrier = 'np:complex64' if k == 1 and rng.random() < 0.5 else rng.choice(['arr:complex64', 'list:complex64'])
        if nf < 0 and rng.random() < 0.3:           # a component so small that component * 2^n_frac underflows to zero: its sign still decides ceil / floor
            re = [rng.choice([5e-324, -5e-324, 1e-320, 0.0])] * k; im = [rng.choice([5e-324, -5e-324, 0.0, 2.0 ** -nf])] * k; carrier = rng.choice(['pycomplex', 'arr:complex128']) if k == 1 else 'arr:complex128'
        if k >= 2 and carrier in ('list', 'tuple', 'arr:complex128') and rng.random() < 0.3:
            # mixed object array: some elements real (ints or floats), at least one complex, in any order
            carrier = 'arr_obj'; im = [0.0 if rng.random() < 0.5 else v for v in im]
            if all(v == 0 for v in im): im[rng.randrange(k)] = 1.0 / 2 ** max(nf, 0)
            if rng.random() < 0.5: re[0] = float(int(re[0]))
        cases.append({'s': s, 'nw': nw, 'nf': nf, 'r': rng.choice(RMODES), 'o': rng.choice(OMODES), 'carrier': carrier, 'route': rng.choice(['ctor', 'call', 'set_val']), 're': re, 'im': im})
    run_complex_cases(cases, res, 'X:complex-components')
    if tier != 'quick' or True:
        res.exhaustive = True   # stratum A enumerates its finite set completely
    return res

def run(seed, tier):
    return run_sharded('c01', 'shard', 16, seed, tier)

def classify(fl):
    return None

def replay(payload):
    if 'bools' in payload.get('case', {}):
        res = Result(); run_bool([payload['case']], res); return {'holds': not res.failures, 'failures': res.failures}
    if 'd' in payload.get('case', {}) and 'v' in payload['case']:
        res = Result(); run_longdouble([payload['case']], res); return {'holds': not res.failures, 'failures': res.failures}
    c = payload['case']
    res = Result()
    if 're' in c:
        run_complex_cases([c], res, 'replay'); return {'holds': not res.failures, 'failures': res.failures}
    check_cases([c], res, 'replay', huge=any(abs(v) >= 2**53 for v in c['vals']))
    return {'holds': not res.failures, 'failures': res.failures}
