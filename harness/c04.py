# c04.py — C04: status flags and callbacks report exactly what happened, and are sticky.
import itertools, math
from fractions import Fraction
import lib, storelib as S
from lib import Result, RMODES, OMODES, e_fmt, e_list, e_dy, model_call, run_sharded, Reader, outcome

RULE = ('histories of up to 10 steps on one object (scalar and array writes by call / set_val / indexed assignment, reset(), interleaved arithmetic with a second operand) '
        'over core-domain formats and all 10 mode pairs, with a recording callback object; values are boundary-biased (both bounds +-1 LSB/4, ties, far outside). After every step the three '
        'flags, the extended_prec entry and the callback log of that step are compared with the model trace (Status.history_run over Store.set_val_real) and with the Spec conditions. '
        'Complex writes (scalars, lists, complex128 arrays): flags = OR over both components, each callback at most once per write, reset, same write again. Single writes of integers of 54..63 bits into formats with a negative fraction length (scalar, list, int64 array; constructor, call, set_val): flags, codes and callbacks from the exact integers. Non-trivial = the history raises at least one flag; distinct by full history.')
ASSUMPTIONS = ['histories use real-valued writes; complex writes are checked one write at a time (flags, callbacks, reset)', 'the mechanism that invokes callbacks (hasattr/getattr loop) is exercised, not modelled']
EV = {0: 'ovf', 1: 'unf', 2: 'inacc', 3: 'change'}

def A_fmt(x): return (bool(x.signed), int(x.n_word), int(x.n_frac))

def gen_history(rng):
    s, nw, nf = S.random_format(rng, max_word=rng.choice([6, 12, 52]))
    r, o = rng.choice(RMODES), rng.choice(OMODES)
    n = rng.choice([0, 0, 1, 3, 5])          # 0 = scalar object
    steps = []
    for _ in range(rng.randint(2, 10)):
        k = rng.random()
        if k < 0.62:
            cnt = 1 if n == 0 else n
            setone = n > 0 and rng.random() < 0.3
            if setone: cnt = 1
            vals = [S.as_number(v) for v in S.boundary_values(rng, s, nw, nf, cnt)]
            if rng.random() < 0.35:   # representable values: no flag
                lo, hi = S.fmt_bounds(s, nw)
                cand = [Fraction(rng.randint(lo, hi)) / Fraction(2) ** nf for _ in range(cnt)]
                if all(S.in_core(nf, v) and S.is_double(v) for v in cand): vals = [S.as_number(v) for v in cand]
            route = 'setitem' if setone else (rng.choice(['call', 'set_val', 'setitem']) if n > 0 else rng.choice(['call', 'set_val']))
            if route == 'setitem':
                idx = rng.randrange(n) if setone else None
                steps.append({'op': 'write', 'route': 'setitem', 'vals': vals, 'idx': idx})
            else:
                carrier = rng.choice([c for c in S.carriers_for(vals, rng) if c not in ('nested', 'arr2d') and (n == 0 or c.startswith('arr:') or c in ('list', 'tuple', 'list_str'))])
                steps.append({'op': 'write', 'route': route, 'vals': vals, 'carrier': carrier})
        elif k < 0.66 and n > 0:
            steps.append({'op': 'empty_write', 'sel': rng.choice(['slice', 'mask', 'index_list'])})
        elif k < 0.69:
            steps.append({'op': 'rejected_write', 'src': rng.choice(['fxp_inexact', 'list_big'])})
        elif k < 0.8:
            steps.append({'op': 'reset'})
        else:
            steps.append({'op': 'arith', 'fn': rng.choice(['+', '-', '*']), 'y_inexact': rng.random() < 0.5})
    return {'s': s, 'nw': nw, 'nf': nf, 'r': r, 'o': o, 'n': n, 'steps': steps, 'reg': rng.choice(['ctor', 'ctor', 'like', 'append', 'resized', 'like_sized']), 'dw': rng.choice([-3, -1, 1, 2, 5])}

def run_history(h, res):
    fx = lib.impl(); import numpy as np
    s, nw, nf = h['s'], h['nw'], h['nf']
    rec = S.Recorder()
    try:
        init = 0 if h['n'] == 0 else [0] * h['n']
        if h.get('reg') == 'like':      # the callbacks registered on an object created from a template (like=) by the callbacks keyword
            tmpl = fx.Fxp(init, s, nw, nf, rounding=h['r'], overflow=h['o']); x = fx.Fxp(init, like=tmpl, callbacks=[rec])
        elif h.get('reg') in ('resized', 'like_sized') and nw - nf - (1 if s else 0) >= 0:
            # the format reached from ANOTHER word size through the (n_frac, n_int) pair: resize(n_frac=, n_int=) of an existing object, or like= with both sizes given
            w0 = max(1 + (1 if s else 0), nw + h.get('dw', 2)); ni = nw - nf - (1 if s else 0)
            if h['reg'] == 'resized':
                x = fx.Fxp(init, s, w0, nf, rounding=h['r'], overflow=h['o'], callbacks=[rec]); x.resize(n_frac=nf, n_int=ni)
            else:
                tmpl = fx.Fxp(init, s, w0, nf, rounding=h['r'], overflow=h['o']); x = fx.Fxp(init, like=tmpl, n_frac=nf, n_int=ni, callbacks=[rec])
            if A_fmt(x) != (s, nw, nf):
                res.fail(h, 'C04: resize(n_frac=, n_int=) / like= with both sizes did not give the requested format', expected=(s, nw, nf), got=A_fmt(x)); return
            x.reset()
        elif h.get('reg') == 'append':  # registered afterwards on the object's own list
            x = fx.Fxp(init, s, nw, nf, rounding=h['r'], overflow=h['o']); x.callbacks.append(rec)
        else:
            x = fx.Fxp(init, s, nw, nf, rounding=h['r'], overflow=h['o'], callbacks=[rec])
        # a bystander: another object of the same format with no callback of its own; what happens to it is no event of x
        rec.log.clear()
        by = fx.Fxp(init, s, nw, nf, rounding=h['r'], overflow=h['o']); by(by.upper * 4 + by.precision / 4); _ = by + by
        if rec.log:
            res.fail(h, 'C04: a callback registered on one object was invoked for writes to ANOTHER object (or for the operands / results of its arithmetic)', expected=[], got=list(rec.log)); return
    except Exception as e:
        res.fail(h, 'C04: constructing the object raised %s' % lib.exc_name(e), got=str(e)[:200]); return
    obs = []; msteps = []
    cur = [0] * max(h['n'], 1)
    for st in h['steps']:
        rec.log.clear()
        try:
            if st['op'] == 'reset':
                x.reset()
                obs.append({'flags': lib.status3(x), 'extp': x.status.get('extended_prec', 'MISSING'), 'events': list(rec.log)})
                msteps.append([1])
            elif st['op'] == 'empty_write':
                # a write through an EMPTY selection stores nothing: no condition occurred, so no flag and no callback
                before = (lib.status3(x), lib.codes_of(x))
                sel = slice(1, 1) if st['sel'] == 'slice' else (np.zeros(h['n'], dtype=bool) if st['sel'] == 'mask' else [])
                x[sel] = float(2.0 ** (nw - nf + 3)) + 0.3 * 2.0 ** -nf
                st['_empty'] = (before, (lib.status3(x), lib.codes_of(x)), list(rec.log))
                obs.append(None); msteps.append(None)
            elif st['op'] == 'rejected_write':
                # an indexed write that is REJECTED (more values than places; an inexact fixed-point source or an out-of-range list): nothing is
                # stored, so no flag changes and no callback runs
                before = (lib.status3(x), lib.codes_of(x)); m_ = max(h['n'], 1) + 2
                bad_ = fx.Fxp([0.3] * m_, True, 8, 2) if st['src'] == 'fxp_inexact' else [float(2.0 ** (nw - nf + 3))] * m_
                try:
                    if h['n'] == 0: x[...] = bad_
                    else: x[0:h['n']] = bad_
                    rej_ = False
                except (ValueError, IndexError): rej_ = True
                st['_empty'] = (before, (lib.status3(x), lib.codes_of(x)), list(rec.log)) if rej_ else (before, before, [])
                obs.append(None); msteps.append(None)
            elif st['op'] == 'write':
                vals = st['vals']
                if st['route'] == 'setitem':
                    if st['idx'] is not None: x[st['idx']] = vals[0]
                    else: x[:] = np.array([float(v) for v in vals]) if not all(isinstance(v, int) for v in vals) else list(vals)
                    kind = 'i' if all(isinstance(v, int) for v in vals) else 'f'
                    mv = [int(v) for v in vals] if kind == 'i' else [float(v) for v in vals]
                else:
                    val = S.build_carrier(st['carrier'], vals)
                    if st['route'] == 'call': x(val)
                    else: x.set_val(val)
                    kind, mv = S.model_inputs({'carrier': st['carrier'], 'vals': vals, 'nf': nf})
                arr, vd = S.model_arr_enc(kind, mv)
                msteps.append([0] + arr + [vd])
                obs.append({'flags': lib.status3(x), 'extp': x.status.get('extended_prec', 'MISSING'), 'events': list(rec.log)})
            else:
                yv = 0.3 if st['y_inexact'] else 1
                y = fx.Fxp(yv, True, 8, 4)
                xin = lib.status3(x)[2]; yin = lib.status3(y)[2]
                z = x + y if st['fn'] == '+' else (x - y if st['fn'] == '-' else x * y)
                z2 = y + x if st['fn'] == '+' else (y - x if st['fn'] == '-' else y * x)
                # ... also when the result is stored through a destination the caller supplies (out= of the function and of the NumPy spelling)
                fn_ = {'+': (fx.add, np.add), '-': (fx.sub, np.subtract), '*': (fx.mul, np.multiply)}[st['fn']]
                d1 = fx.Fxp(None, True, 62, 20); d2 = fx.Fxp(None, True, 62, 20)
                z3 = fn_[0](x, y, out=d1); z4 = fn_[1](y, x, out=d2)
                st['_prop'] = (xin, yin, lib.status3(z)[2] and lib.status3(z3)[2], lib.status3(z2)[2] and lib.status3(z4)[2] and (z3 is d1))
                st['_unary'] = (xin, lib.status3(-x)[2], lib.status3(+x)[2], lib.status3(abs(x))[2],
                                # the same operations through NumPy, and multiplication / division by a power of two
                                lib.status3(np.negative(x))[2], lib.status3(np.abs(x))[2], lib.status3(x << 1)[2], lib.status3(x >> 1)[2]) + \
                               ((lib.status3(np.sum(x))[2], lib.status3(fx.fxp_sum(x))[2], lib.status3(np.cumsum(x))[2]) if np.ndim(x.val) > 0 else ())       # sums of the elements
                obs.append(None); msteps.append(None)
        except Exception as e:
            res.fail(h, 'C04: step %r raised %s' % (st['op'], lib.exc_name(e)), got=str(e)[:200]); return
    # model trace over the write/reset steps (arithmetic does not touch x)
    req = [20] + e_fmt(s, nw, nf) + [RMODES.index(h['r']), OMODES.index(h['o']), 0, 0, 0, 0] + [len([m for m in msteps if m is not None])]
    for m in msteps:
        if m is not None: req += m
    return req, obs

def compare(h, req_obs, out, res):
    req, obs = req_obs
    kind, rd = outcome(out)
    any_flag = False
    if kind != 'ok':
        res.fail(h, 'model history_run is %s on an in-domain history' % kind); res.failures[-1]['no_input'] = True; return
    trace = rd.lst(lambda: (tuple(rd.b() for _ in range(4)), rd.lst(rd.z)))
    ti = 0
    for st, ob in zip(h['steps'], obs):
        if st['op'] == 'rejected_write':
            b_, a_, ev_ = st.pop('_empty')
            if a_ != b_ or ev_:
                res.fail(h, 'C04: a REJECTED indexed write (ValueError: more values than places) changed flags or codes, or invoked callbacks', expected=(b_, []), got=(a_, ev_)); return
            continue
        if st['op'] == 'empty_write':
            b_, a_, ev_ = st.pop('_empty')
            if a_ != b_ or ev_:
                res.fail(h, 'C04: a write through an EMPTY selection (nothing is stored) raised flags, changed codes or invoked callbacks', expected=(b_, []), got=(a_, ev_)); return
            continue
        if st['op'] == 'arith':
            xin, yin, zin, z2in = st.pop('_prop')
            un = st.pop('_unary')
            if (xin or yin) and not (zin and z2in):
                res.fail(h, 'C04: result of arithmetic (x op y, y op x, also stored through out=) does not carry the inaccuracy flag of an operand', expected=True, got=(zin, z2in)); return
            if un[0] and not all(un[1:]):
                res.fail(h, 'C04: result of unary arithmetic (-x, +x, abs(x), np.negative, np.abs, x << 1, x >> 1, np.sum, fxp_sum, np.cumsum) does not carry the inaccuracy flag of its operand', expected=True, got=un[1:]); return
            continue
        (mo, mu, mi, mx), mev = trace[ti]; ti += 1
        if (mo, mu, mi) != (False, False, False): any_flag = True
        if ob['flags'] != (mo, mu, mi):
            res.fail(h, 'C04: status flags after a %s differ from the OR of the conditions since the last reset' % st['op'], expected=(mo, mu, mi), got=ob['flags']); return
        if ob['extp'] == 'MISSING' or bool(ob['extp']) != mx:
            res.fail(h, 'C04: the extended_prec entry of the status record is missing or wrong after a %s' % st['op'], expected=mx, got=ob['extp']); return
        if ob['events'] != [EV[e] for e in mev]:
            res.fail(h, 'C04: callbacks invoked by a %s differ from the conditions that occurred' % st['op'], expected=[EV[e] for e in mev], got=ob['events']); return
    res.count('H:histories', key=repr(h), nontrivial=any_flag, n=len(h['steps']))
    res.sample({k: h[k] for k in ('s', 'nw', 'nf', 'r', 'o', 'n')} | {'steps': h['steps'][:4]})

def run_batch(hs, res):
    pend = []
    for h in hs:
        ro = run_history(h, res)
        if ro is not None: pend.append((h, ro))
    outs = model_call([ro[0] for _, ro in pend])
    for (h, ro), out in zip(pend, outs): compare(h, ro, out, res)

def run_complex_writes(cases, res):
    """a complex write: flags = OR over both components of the Spec conditions; every callback at most once per write"""
    from lib import e_f64
    fx = lib.impl(); import numpy as np
    pend = []; reqs = []
    for c in cases:
        s, nw, nf = c['s'], c['nw'], c['nf']; rec = S.Recorder()
        zs = [complex(a, b) for a, b in zip(c['re'], c['im'])]
        val = zs[0] if c['carrier'] == 'pycomplex' else (list(zs) if c['carrier'] == 'list' else np.array(zs, dtype=np.complex128))
        try:
            x = fx.Fxp(None, s, nw, nf, rounding=c['r'], overflow=c['o'], callbacks=[rec]); rec.log.clear()
            (x if c['route'] == 'call' else x.set_val)(val)
            first = (lib.status3(x), list(rec.log))
            rec.log.clear(); x.reset(); after_reset = lib.status3(x)
            rec.log.clear(); (x if c['route'] == 'call' else x.set_val)(val); second = (lib.status3(x), list(rec.log))
        except Exception as e:
            res.fail(c, 'C04: a complex write raised %s' % lib.exc_name(e), got=str(e)[:200]); continue
        pend.append((c, first, after_reset, second))
        f = e_fmt(s, nw, nf); ro = [RMODES.index(c['r']), OMODES.index(c['o'])]
        reqs.append([4] + f + ro + e_list([Fraction(t) for t in c['re']], e_dy)); reqs.append([4] + f + ro + e_list([Fraction(t) for t in c['im']], e_dy))
        reqs.append([11] + f + ro + e_list(c['re'], e_f64) + e_list(c['im'], e_f64))
    outs = model_call(reqs)
    for i, (c, first, after_reset, second) in enumerate(pend):
        r1 = Reader(outs[3 * i]); r1.lst(r1.z); f1 = (r1.b(), r1.b(), r1.b())
        r2 = Reader(outs[3 * i + 1]); r2.lst(r2.z); f2 = (r2.b(), r2.b(), r2.b())
        want = tuple(a or b for a, b in zip(f1, f2))
        want_ev = [n for n, b in zip(('ovf', 'unf', 'inacc'), want) if b] + ['change']
        res.count('X:complex-writes', key=repr(c), nontrivial=any(want), n=2)
        res.sample(c)
        if first[0] != want or second[0] != want or after_reset != (False, False, False):
            res.fail(c, 'C04: flags after a complex write are not the OR of the conditions of both components (or reset did not clear them)', expected=want, got=(first[0], after_reset, second[0])); continue
        if first[1] != want_ev or second[1] != want_ev:
            res.fail(c, 'C04: callbacks of a complex write are not invoked once for exactly the conditions that occurred', expected=want_ev, got=first[1]); continue
        kind, rd = outcome(outs[3 * i + 2])
        if kind == 'ok':
            rd.lst(rd.z); rd.lst(rd.z); mst = (rd.b(), rd.b(), rd.b())
        if kind != 'ok' or mst != want:
            res.fail(c, 'model set_val_complex flags disagree with the implementation although the Spec agrees', expected=str(kind), got=want); res.failures[-1]['no_input'] = True

def gen_complex_write(rng):
    s, nw, nf = S.random_format(rng, max_word=rng.choice([6, 12, 52]))
    k = rng.choice([1, 1, 2, 3])
    re = [float(S.as_number(v)) for v in S.boundary_values(rng, s, nw, nf, k)]; im = [float(S.as_number(v)) for v in S.boundary_values(rng, s, nw, nf, k)]
    return {'s': s, 'nw': nw, 'nf': nf, 'r': rng.choice(RMODES), 'o': rng.choice(OMODES), 'carrier': 'pycomplex' if (k == 1 and rng.random() < 0.5) else rng.choice(['list', 'arr:complex128']),
            'route': rng.choice(['call', 'set_val']), 're': re, 'im': im}

def gen_wideint_write(rng):
    # integers of 54..63 bits into core formats with a negative fraction length (also around the format bound)
    s, nw = rng.random() < 0.6, rng.choice([8, 24, 40, 48, 52, rng.randint(4, 52)]); nf = -rng.randint(1, 8)
    k = rng.choice([1, 1, 2, 3])
    def one():
        t = rng.choice([53, 54, 55, 58, 60, 62, nw - nf - 1, nw - nf])
        t = max(min(t, 62), 53)
        v = (1 << t) + rng.choice([0, 1, -1, (1 << -nf) - 1, 1 << (-nf - 1), (1 << -nf), rng.randint(0, 1 << (t - 1))])
        return v * (rng.choice([1, -1]) if s else 1)
    vals = [one() for _ in range(k)]
    if k > 1 and rng.random() < 0.5: vals[rng.randrange(k)] = rng.randint(-1000, 1000) << -nf     # (a small representable neighbour)
    return {'s': s, 'nw': nw, 'nf': nf, 'r': rng.choice(RMODES), 'o': rng.choice(OMODES), 'wide': [int(v) for v in vals],
            'carrier': 'pyint' if (k == 1 and rng.random() < 0.5) else rng.choice(['list', 'arr:int64']), 'route': rng.choice(['ctor', 'call', 'set_val'])}

def run_wideint_writes(cases, res):
    """a write of integers of more than 53 bits into a format with a negative fraction length: flags and callbacks from the exact integers"""
    fx = lib.impl(); import numpy as np
    pend = []; reqs = []
    for c in cases:
        s, nw, nf = c['s'], c['nw'], c['nf']; rec = S.Recorder()
        val = c['wide'][0] if c['carrier'] == 'pyint' else (list(c['wide']) if c['carrier'] == 'list' else np.array(c['wide'], dtype=np.int64))
        try:
            if c['route'] == 'ctor':
                x = fx.Fxp(val, s, nw, nf, rounding=c['r'], overflow=c['o'], callbacks=[rec])
            else:
                x = fx.Fxp(None, s, nw, nf, rounding=c['r'], overflow=c['o'], callbacks=[rec]); rec.log.clear()
                (x if c['route'] == 'call' else x.set_val)(val)
            got = (lib.status3(x), list(rec.log), lib.codes_of(x))
        except Exception as e:
            res.fail(c, 'C04: a write of wide integers raised %s' % lib.exc_name(e), got=str(e)[:200]); continue
        pend.append((c, got))
        reqs.append([4] + e_fmt(s, nw, nf) + [RMODES.index(c['r']), OMODES.index(c['o'])] + e_list([Fraction(v) for v in c['wide']], e_dy))
        arr, vd = S.model_arr_enc('i', [int(v) for v in c['wide']])
        reqs.append([10] + e_fmt(s, nw, nf) + [RMODES.index(c['r']), OMODES.index(c['o']), 0] + arr + [vd])
    outs = model_call(reqs)
    for i, (c, got) in enumerate(pend):
        o = outs[2 * i]; mo = S.read_model_store(outs[2 * i + 1])
        rd = Reader(o); codes = rd.lst(rd.z); want = (rd.b(), rd.b(), rd.b())
        want_ev = [n for n, b in zip(('ovf', 'unf', 'inacc'), want) if b] + ['change']
        res.count('W:wide-integer-writes', key=repr(c), nontrivial=any(want))
        res.sample(c)
        if got[0] != want or got[2] != codes:
            res.fail(c, 'C04: flags (or codes) after writing integers of more than 53 bits differ from the conditions on the exact integers', expected=(want, codes), got=(got[0], got[2])); continue
        if got[1] != want_ev and c['route'] != 'ctor':       # (the constructor performs writes of its own before the value)
            res.fail(c, 'C04: callbacks after writing integers of more than 53 bits differ from the conditions that occurred', expected=want_ev, got=got[1]); continue
        if mo['kind'] != 'ok' or mo['codes'] != got[2] or mo['status'] != got[0]:
            res.fail(c, 'model Store.set_val_real (exact rational factor) disagrees with the implementation although the Spec agrees', expected=str(mo)[:200], got=(got[2], got[0]))
            res.failures[-1]['no_input'] = True

def gen_mixed_decimal(rng):
    """a list that starts with a plain number and holds a Decimal LATER which is NOT a double: within 1e-25 of a representable value
    (the write is inexact: inaccuracy) or just below the upper bound (no overflow)"""
    s, nw, nf = S.random_format(rng, max_word=16); nf = max(0, min(nf, 12)); lo, hi = S.fmt_bounds(s, nw)
    kind = rng.choice(['near_code', 'near_code', 'below_upper'])
    c = rng.randint(max(lo, 1 if hi >= 1 else lo), hi) if hi >= 1 else 0
    return {'mixed_decimal': kind, 's': s, 'nw': nw, 'nf': nf, 'r': rng.choice(['floor', 'trunc', 'fix', 'around']), 'o': rng.choice(OMODES), 'c': c,
            'first': rng.choice(['float', 'int', 'np.float64']), 'route': rng.choice(['ctor', 'call', 'set_val'])}

def run_mixed_decimal(cases, res):
    fx = lib.impl(); import numpy as np
    from decimal import Decimal
    for c in cases:
        s, nw, nf = c['s'], c['nw'], c['nf']; lo, hi = S.fmt_bounds(s, nw)
        if hi < 1: continue
        code = c['c'] if c['mixed_decimal'] == 'near_code' else hi
        eps = Decimal('1e-25')
        import decimal
        with decimal.localcontext() as ctx_:
            ctx_.prec = 90      # (the default 28 digits would round the tiny part away)
            d = Decimal(code) / Decimal(2 ** nf) + (eps if c['mixed_decimal'] == 'near_code' else (Decimal(1) / Decimal(2 ** nf) - eps))     # (code + tiny, or the next grid point - tiny: both round down to `code`)
        first = {'float': 0.0, 'int': 0, 'np.float64': np.float64(0.0)}[c['first']]
        val = [first, d]; rec = S.Recorder()
        try:
            if c['route'] == 'ctor': x = fx.Fxp(val, s, nw, nf, rounding=c['r'], overflow=c['o'], callbacks=[rec])
            else:
                x = fx.Fxp([0, 0], s, nw, nf, rounding=c['r'], overflow=c['o'], callbacks=[rec]); rec.log.clear()
                (x(val) if c['route'] == 'call' else x.set_val(val))
            got = (lib.codes_of(x), lib.status3(x), sorted(set(rec.log)))
        except Exception as e:
            res.fail(c, 'C04: a write of a list holding a Decimal raised %s' % lib.exc_name(e), got=str(e)[:200]); continue
        want_code = code if c['r'] != 'around' or c['mixed_decimal'] == 'near_code' else (hi if c['o'] == 'saturate' else None)
        res.count('M:mixed-lists-with-a-Decimal', key=repr(c), nontrivial=True)
        if c['r'] == 'around' and c['mixed_decimal'] == 'below_upper': continue      # (rounds up to hi + 1: an overflow, not this observation)
        if got[0] != [0, code] or got[1] != (False, False, True) or got[2] != ['change', 'inacc']:
            res.fail(c, 'C04: flags / callbacks of a write of a mixed list whose Decimal element is not representable (it rounds down to a code inside the range) are not "inaccuracy only"', expected=([0, code], (False, False, True), ['change', 'inacc']), got=got)

def gen_empty2d(rng):
    s, nw, nf = S.random_format(rng, max_word=16)
    return {'empty2d': rng.choice(['col_slice', 'col_list', 'ellipsis_slice', 'row_slice', 'mask_false', 'both_empty']), 's': s, 'nw': nw, 'nf': nf, 'o': rng.choice(OMODES)}

def run_empty2d(cases, res):
    """writes through EMPTY selections of a 2-D object (an empty slice or index list on a trailing axis: shape (k, 0)): nothing is stored, so no
    flag is raised and no callback runs, whatever the value"""
    fx = lib.impl(); import numpy as np
    for c in cases:
        s, nw, nf = c['s'], c['nw'], c['nf']
        rec = S.Recorder()
        try:
            x = fx.Fxp(np.zeros((2, 3)), s, nw, nf, overflow=c['o'], callbacks=[rec]); x.reset(); rec.log.clear()
            big = float(2.0 ** (nw - nf + 3)) + 0.3 * 2.0 ** -nf
            k = c['empty2d']
            if k == 'col_slice': x[:, 1:1] = big
            elif k == 'col_list': x[0:2, []] = big
            elif k == 'ellipsis_slice': x[..., 3:3] = [[big], [big]]
            elif k == 'row_slice': x[1:1, :] = big
            elif k == 'mask_false': x[np.zeros((2, 3), dtype=bool)] = big
            else: x[2:2, 0:0] = big
            got = (lib.status3(x), lib.codes_of(x), list(rec.log))
        except Exception as e:
            res.fail(c, 'C04: a write through an empty selection of a 2-D object raised %s' % lib.exc_name(e), got=str(e)[:200]); continue
        res.count('E:empty-selections-2-D', key=repr(c), nontrivial=True)
        if got != ((False, False, False), [0] * 6, []):
            res.fail(c, 'C04: a write through an EMPTY selection of a 2-D object (nothing is stored) raised flags, changed codes or invoked callbacks', expected=((False, False, False), [0] * 6, []), got=got)

def run_resize_keep(cases, res):
    """x.resize(..., restore_val=False): the raw codes are KEPT and written into the new format like any raw write - flags and callbacks
    report what that write does to them (a code beyond the new range overflows / underflows; the stored code then differs: inexact)"""
    fx = lib.impl(); import numpy as np
    for c in cases:
        rec = S.Recorder()
        try:
            x = fx.Fxp(list(c['keep_codes']), c['s'], c['nw'], c['nf'], raw=True, rounding=c['r'], overflow=c['o'], callbacks=[rec])
            x.reset(); rec.log.clear()
            x.resize(signed=c['s2'], n_word=c['nw2'], restore_val=False)
            got = (lib.codes_of(x), lib.status3(x), list(rec.log), (bool(x.signed), int(x.n_word), int(x.n_frac)))
        except Exception as e:
            res.fail(c, 'C04: resize(restore_val=False) raised %s' % lib.exc_name(e), got=str(e)[:200]); continue
        lo, hi = S.fmt_bounds(c['s2'], c['nw2']); m_ = 1 << c['nw2']
        def store(v):
            if lo <= v <= hi: return v
            if c['o'] == 'saturate': return max(lo, min(hi, v))
            w = v % m_; return w - m_ if (c['s2'] and w >= m_ // 2) else w
        want_codes = [store(v) for v in c['keep_codes']]
        ovf = any(v > hi for v in c['keep_codes']); unf = any(v < lo for v in c['keep_codes']); ina = want_codes != list(c['keep_codes'])
        want_ev = [n for n, b in zip(('ovf', 'unf', 'inacc'), (ovf, unf, ina)) if b] + ['change']
        res.count('K:resize-keeping-codes', key=repr(c), nontrivial=ovf or unf, n=len(want_codes))
        if got != (want_codes, (ovf, unf, ina), want_ev, (c['s2'], c['nw2'], c['nf'])):
            res.fail(c, 'C04: resize(restore_val=False) does not store the kept codes into the new format with the flags and callbacks of that write', expected=(want_codes, (ovf, unf, ina), want_ev), got=got)

def gen_resize_keep(rng):
    s, nw = rng.random() < 0.6, rng.choice([4, 6, 8, 12, 16]); lo, hi = S.fmt_bounds(s, nw)
    return {'s': s, 'nw': nw, 'nf': rng.choice([0, 2, nw // 2]), 'keep_codes': [rng.choice([lo, hi, 0, 1, rng.randint(lo, hi)]) for _ in range(rng.choice([1, 2, 3]))],
            's2': s if rng.random() < 0.7 else (not s), 'nw2': max(1, nw + rng.choice([-3, -2, -1, 0, 1, 2])), 'r': rng.choice(RMODES), 'o': rng.choice(OMODES)}

def shard(shard, nshards, rng, tier, extra):
    res = Result()
    n = (9000 if tier == 'quick' else 60000) // nshards
    run_batch([gen_history(rng) for _ in range(n)], res)
    run_complex_writes([gen_complex_write(rng) for _ in range((1800 if tier == 'quick' else 12000) // nshards)], res)
    run_wideint_writes([gen_wideint_write(rng) for _ in range((1800 if tier == 'quick' else 12000) // nshards)], res)
    run_resize_keep([gen_resize_keep(rng) for _ in range((900 if tier == 'quick' else 8000) // nshards)], res)
    run_empty2d([gen_empty2d(rng) for _ in range((600 if tier == 'quick' else 5000) // nshards)], res)
    run_mixed_decimal([gen_mixed_decimal(rng) for _ in range((900 if tier == 'quick' else 8000) // nshards)], res)
    return res

def run(seed, tier):
    return run_sharded('c04', 'shard', 16, seed, tier)

def classify(fl):
    return None

def shrink(fl):
    """drop steps while the same failure kind persists"""
    h = fl['case']; what = fl['what']
    if 'steps' not in h: return fl
    steps = list(h['steps'])
    i = 0
    while i < len(steps) and len(steps) > 1:
        cand = dict(h); cand['steps'] = [dict(s) for s in steps[:i] + steps[i + 1:]]
        r = Result(); run_batch([cand], r)
        if r.failures and r.failures[0]['what'] == what:
            steps = steps[:i] + steps[i + 1:]; fl = r.failures[0]
        else: i += 1
    return fl

def replay(payload):
    res = Result()
    if 're' in payload['case']: run_complex_writes([payload['case']], res)
    elif 'wide' in payload['case']: run_wideint_writes([payload['case']], res)
    elif 'keep_codes' in payload['case']: run_resize_keep([payload['case']], res)
    elif 'mixed_decimal' in payload['case']: run_mixed_decimal([payload['case']], res)
    elif 'empty2d' in payload['case']: run_empty2d([payload['case']], res)
    else: run_batch([payload['case']], res)
    return {'holds': not res.failures, 'failures': res.failures}
