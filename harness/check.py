# check.py — entry point of every registered check:  ./check <Cxx> [--tier quick|thorough] [--replay file]
# Stages (DESIGN.md section 5): build, proof obligations of Props/<Cxx>.v, NP-layer
# validation, corpus + generated correspondence cases, verdict, evidence.
import os, sys, json, time, re, subprocess, importlib, argparse, glob, hashlib
sys.path.insert(0, os.path.dirname(os.path.abspath(__file__)))
import lib
from lib import VERIF, Result, jsonable

ALLOWED_AXIOMS = set()   # no axiom is allow-listed: every theorem must be closed

def sh(cmd, timeout=3600, cwd=VERIF):
    p = subprocess.run(cmd, shell=True, cwd=cwd, capture_output=True, text=True, timeout=timeout)
    out = '\n'.join(l for l in (p.stdout + p.stderr).split('\n') if 'conda.cli.condarc' not in l)
    return p.returncode, out

def build():
    rc, out = sh('./build.sh', timeout=3500)
    return rc == 0, out

def proof_stage(pid):
    """compile Props/<pid>.v on its own, parse Print Assumptions.  Returns dict."""
    src = os.path.join(VERIF, 'coq', 'Props', pid + '.v')
    info = {'file': 'coq/Props/%s.v' % pid, 'obligations': 0, 'discharged': 0, 'theorems': [], 'axioms': [], 'ok': False, 'log': ''}
    if not os.path.exists(src):
        info['log'] = 'missing ' + src
        return info
    text = open(src).read()
    text_nc = re.sub(r'\(\*.*?\*\)', '', text, flags=re.S)
    thms = re.findall(r'^\s*(?:Theorem|Lemma|Corollary)\s+([A-Za-z0-9_\']+)', text_nc, flags=re.M)
    exs = re.findall(r'^\s*(?:Example)\s+([A-Za-z0-9_\']+)', text_nc, flags=re.M)
    prints = re.findall(r'^\s*Print Assumptions\s+([A-Za-z0-9_\']+)\s*\.', text_nc, flags=re.M)
    info['theorems'] = thms
    info['examples'] = exs
    info['obligations'] = len(thms)
    bad = re.findall(r'\b(Admitted|admit|Axiom|Parameter|Conjecture|Abort)\b', text_nc)
    if bad:
        info['log'] = 'forbidden vernacular in Props file: %s' % bad
        return info
    missing = [t for t in thms if t not in prints]
    if missing:
        info['log'] = 'theorems without Print Assumptions: %s' % missing
        return info
    import shutil
    outdir = os.path.join(VERIF, 'build', 'props', '%s.%d' % (pid, os.getpid()))
    os.makedirs(outdir, exist_ok=True)
    out_vo = os.path.join(outdir, pid + '.vo')
    cmd = 'flock -s build/.lock timeout 900 coqc -Q coq FxpVerif -w -notation-overridden,-ambiguous-paths -o %s coq/Props/%s.v' % (out_vo, pid)
    rc, out = sh(cmd, timeout=1000)
    shutil.rmtree(outdir, ignore_errors=True)
    info['log'] = out[-3000:]
    if rc != 0:
        m = re.search(r'File "[^"]*", line (\d+)', out)
        if m:
            ln = int(m.group(1))
            upto = '\n'.join(text.split('\n')[:ln])
            names = re.findall(r'^\s*(?:Theorem|Lemma|Corollary|Example)\s+([A-Za-z0-9_\']+)', upto, flags=re.M)
            info['broken'] = names[-1] if names else '?'
        return info
    closed = out.count('Closed under the global context')
    axioms = []
    for blk in re.findall(r'Axioms:\n((?:.+\n?)+?)(?=\n\S|\Z)', out):
        for l in blk.split('\n'):
            m = re.match(r'^([A-Za-z0-9_\.\']+)\s*:', l)
            if m: axioms.append(m.group(1))
    info['axioms'] = sorted(set(axioms))
    n_print = len(prints)
    if closed + (1 if axioms else 0) < 1 and n_print > 0:
        return info
    if axioms and not set(axioms) <= ALLOWED_AXIOMS:
        info['log'] += '\nnon-allow-listed axioms: %s' % axioms
        return info
    if closed != n_print and not axioms:
        info['log'] += '\nexpected %d closed assumption reports, saw %d' % (n_print, closed)
        return info
    info['discharged'] = len(thms)
    info['ok'] = True
    return info

def coqchk_stage(pid):
    """thorough tier: re-check the compiled Props module and everything it depends on with the
    independent checker, and read its context summary (axioms, type-in-type, unsafe fixpoints)"""
    cmd = 'flock -s build/.lock timeout 3000 coqchk -silent -o -Q coq FxpVerif FxpVerif.Props.%s' % pid
    rc, out = sh(cmd, timeout=3100)
    info = {'cmd': 'coqchk -silent -o -Q coq FxpVerif FxpVerif.Props.%s' % pid, 'rc': rc, 'ok': False, 'summary': out[-1500:]}
    m = re.search(r'\* Axioms:\s*(.*?)\n\s*\n\* Constants/Inductives relying on type-in-type:\s*(.*?)\n\s*\n\* Constants/Inductives relying on unsafe \(co\)fixpoints:\s*(.*?)\n\s*\n\* Inductives whose positivity is assumed:\s*(.*?)\n', out, flags=re.S)
    if rc == 0 and m:
        info['axioms'], info['type_in_type'], info['unsafe_fix'], info['assumed_positive'] = [x.strip() for x in m.groups()]
        info['ok'] = all(x == '<none>' for x in m.groups())
    return info

def load_known():
    p = os.path.join(VERIF, 'known_findings.json')
    if not os.path.exists(p): return []
    return json.load(open(p)).get('findings', [])

def write_replay(pid, seed, k, payload):
    d = os.path.join(os.environ['VERIF_EVIDENCE_DIR'], 'replays') if os.environ.get('VERIF_EVIDENCE_DIR') else os.path.join(VERIF, 'replays'); os.makedirs(d, exist_ok=True)
    path = os.path.join(d, '%s-%s-%d.json' % (pid, seed, k))
    json.dump(jsonable(payload), open(path, 'w'), indent=1)
    return path

def main():
    ap = argparse.ArgumentParser()
    ap.add_argument('pid')
    ap.add_argument('--tier', default=os.environ.get('VERIF_TIER', 'quick'))
    ap.add_argument('--replay', default=None)
    ap.add_argument('--no-build', action='store_true')
    args = ap.parse_args()
    pid = args.pid
    tier = args.tier if args.tier in ('quick', 'thorough') else 'quick'
    seed = int(os.environ.get('VERIF_SEED', '20260930') or 0)
    t0 = time.time()
    violations = []      # (line_suffix, replay_path)
    known_printed = []
    evidence_path = os.path.join(os.environ.get('VERIF_EVIDENCE_DIR') or os.path.join(VERIF, 'evidence'), pid + '.json')
    os.makedirs(os.path.dirname(evidence_path), exist_ok=True)

    mod = importlib.import_module(pid.lower())
    if not args.replay:
        for old in glob.glob(os.path.join(VERIF, 'replays', pid + '-*.json')):
            try: os.unlink(old)
            except OSError: pass

    # ---- replay mode ---------------------------------------------------------
    if args.replay:
        ok, out = (True, '') if args.no_build else build()
        payload = json.load(open(args.replay))
        if 'case' not in payload:
            # a theorem / correspondence that no longer checked, without a concrete input: re-run that obligation
            pr = proof_stage(pid) if ok else {'ok': False, 'log': out[-2000:]}
            res = {'holds': bool(ok and pr['ok']), 'rechecked': payload.get('no_longer_checks'), 'log': pr.get('log', '')[-1500:] if not pr.get('ok') else ''}
        else:
            res = mod.replay(payload)
        print(json.dumps(jsonable(res), indent=1))
        sys.exit(0 if res.get('holds') else 1)

    # ---- stage 0: build --------------------------------------------------------
    build_ok, build_log = (True, '') if args.no_build else build()
    proof = {'ok': False, 'obligations': 0, 'discharged': 0, 'theorems': [], 'axioms': [], 'log': 'build failed'}
    res = Result()
    np_info = {}
    if not build_ok:
        path = write_replay(pid, seed, 0, {'property': pid, 'no_longer_checks': 'build of the Coq development / extraction', 'log': build_log[-4000:]})
        violations.append((' no-failing-input-found', path))
    else:
        # ---- stage 1: proof obligations ---------------------------------------
        proof = proof_stage(pid)
        if tier == 'thorough' and proof['ok'] and not os.environ.get('VERIF_SKIP_COQCHK'):
            chk = coqchk_stage(pid)
            proof['coqchk'] = chk
            if not chk['ok']:
                proof['ok'] = False; proof['broken'] = 'coqchk re-check of FxpVerif.Props.%s' % pid; proof['log'] = chk['summary']
        # ---- stage 2: NP layer + correspondence -------------------------------
        import np_layer
        np_res = np_layer.validate(seed, tier)
        np_info = {'np_layer_cases': np_res.evaluations, 'np_layer_failures': len(np_res.failures)}
        res = mod.run(seed, tier)
        if not proof['ok']:
            path = write_replay(pid, seed, 0, {'property': pid, 'no_longer_checks': 'theorem %s of %s' % (proof.get('broken', '?'), proof.get('file')), 'log': proof['log'][-4000:]})
            violations.append((' no-failing-input-found', path))
        if np_res.failures:
            path = write_replay(pid, seed, 1, {'property': pid, 'no_longer_checks': 'NP-layer correspondence (model of a NumPy/Python primitive disagrees with the interpreter)', 'cases': np_res.failures[:10]})
            violations.append((' no-failing-input-found', path))

    # ---- stage 3: verdict on correspondence failures ------------------------------
    known = {k['id']: k for k in load_known() if k.get('property') == pid}
    k = 10
    seen_kf = set()
    unexplained = []
    for fl in res.failures:
        kid = None
        try:
            kid = mod.classify(fl) if hasattr(mod, 'classify') else None
        except Exception:
            kid = None
        if kid is not None and kid in known and known[kid].get('status') == 'open':
            if kid not in seen_kf:
                seen_kf.add(kid)
                known_printed.append('KNOWN-FINDING: property=%s %s' % (pid, known[kid]['what']))
            continue
        unexplained.append(fl)
    # group unexplained failures by 'what', one replay per group (first = smallest after module-side shrinking)
    groups = {}
    for fl in unexplained:
        groups.setdefault(fl['what'], []).append(fl)
    for gi, (what, fls) in enumerate(groups.items()):
        if gi >= 12: break          # at most 12 distinct kinds are written out; the evidence counts all
        fl = fls[0]
        if hasattr(mod, 'shrink'):
            try: fl = mod.shrink(fl)
            except Exception: pass
        payload = {'property': pid, 'what': what, 'case': fl['case'], 'expected': fl.get('expected'), 'got': fl.get('got'),
                   'similar_failures': getattr(res, 'fail_counts', {}).get(what, len(fls)), 'replay_cmd': './check %s --replay <this file>' % pid}
        path = write_replay(pid, seed, k, payload); k += 1
        suffix = ' no-failing-input-found' if fl.get('no_input') else ''
        violations.append((suffix, path))

    for l in known_printed: print(l)
    for suffix, path in violations:
        print('VIOLATION property=%s replay=%s%s' % (pid, path, suffix))

    # ---- evidence --------------------------------------------------------------
    wall = time.time() - t0
    rule = getattr(mod, 'RULE', 'cases are generated by the stratified generator of harness/%s.py; a case is non-trivial by the module rule and distinct by the hash of its full input' % pid.lower())
    cov = {
        'obligations': max(proof.get('obligations', 0), 0),
        'discharged': proof.get('discharged', 0),
        'checker_cmd': 'coqc -Q coq FxpVerif coq/Props/%s.v  (after a full `make` of coq/_CoqProject; thorough tier: coqchk -o -silent)' % pid,
        'trusted_base': [
            'Coq 8.16.1 kernel (coqc, full .vo build; vm_compute used in Examples/refutation witnesses; no native_compute)',
            'axioms reported by Print Assumptions: %s' % (', '.join(proof.get('axioms', [])) or 'none (Closed under the global context)'),
            'NP layer (coq/NP.v): hand-written model of CPython 3.12 / NumPy primitives, validated against the interpreter on every run, not proved',
            'hand-written model (coq/*.v) tied to /repo by this correspondence run, sampled not proved',
            'extraction (ExtrOcamlBasic directives only), ocaml/driver.ml, harness/*.py',
        ],
        'coqchk': proof.get('coqchk', 'not run in this tier (thorough only)'),
        'theorems': proof.get('theorems', []),
        'examples': proof.get('examples', []),
        'evaluations': res.evaluations,
        'distinct_nontrivial': len(res.distinct),
        'rule': rule,
        'strata': res.strata,
        'samples': jsonable(res.samples[:8]) or [{'note': 'no correspondence case was run (build failed)'}],
        'correspondence_failures': sum(getattr(res, 'fail_counts', {}).values()),
        'known_findings_printed': known_printed,
        'notes': res.notes[:20],
    }
    if res.exhaustive is not None: cov['exhaustive'] = bool(res.exhaustive)
    cov.update(np_info)
    if hasattr(mod, 'EXTRA_COVERAGE'): cov.update(mod.EXTRA_COVERAGE)
    ev = {
        'property_id': pid, 'tier': tier, 'seed': seed, 'level': 'proof',
        'coverage': cov,
        'assumptions': getattr(mod, 'ASSUMPTIONS', []) + [
            'the model functions are faithful to /repo only as far as the correspondence cases of this run show',
            'NumPy %s / CPython %s semantics as modelled in coq/NP.v' % (_np_version(), sys.version.split()[0])],
        'wall_s': round(wall, 2),
        'violations': len(violations),
    }
    json.dump(ev, open(evidence_path, 'w'), indent=1)
    print('%s tier=%s seed=%d proof=%d/%d cases=%d distinct=%d failures=%d known=%d violations=%d wall=%.1fs' % (
        pid, tier, seed, proof.get('discharged', 0), proof.get('obligations', 0), res.evaluations, len(res.distinct),
        len(res.failures), len(known_printed), len(violations), wall))
    sys.exit(1 if violations else 0)

def _np_version():
    try:
        import numpy; return numpy.__version__
    except Exception:
        return '?'

if __name__ == '__main__':
    main()
