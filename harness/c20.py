# c20.py — C20: objects are independent and inputs are never mutated.
import itertools, math, copy
from fractions import Fraction
import lib, storelib as S, arithlib as A
from lib import Result, model_call, run_sharded, Reader, RMODES, OMODES

RULE = ('histories: a pool of objects is grown by every public derivation route (constructor, like=, class template, deepcopy(), like(), Fxp(x), x+y / x*const, ~x / x&m, x<<k / x>>k in each shifting mode, np.sum / np.add, x[i]) and then mutated '
        '(whole-value writes, indexed writes, config changes, flag-raising writes, reset()); after every mutation every OTHER object must be unchanged (value, status record, configuration), except that an indexed write is visible through the parent/view pair created by x[i]; '
        'identity facts (config / status / callbacks objects, np.shares_memory of buffers) are compared with the allocation table of the model Alias.v; input containers (list, tuple, nested lists to 3 levels, ndarray, lists of arrays, flat and nested lists / tuples / arrays of bin, hex and decimal strings, the rendering of a 2-D object) are compared before/after construction; '
        'every invalid configuration value is tried through attribute assignment, constructor keyword and Config.update. Non-trivial = the history contains a flag-raising or config-changing mutation after a derivation; distinct by full history.')
ASSUMPTIONS = ['copy(), .T, flatten(), fxp_like() are documented shallow copies and outside the statement', 'Python reference semantics (is, ndarray views) are taken from the interpreter']
ROUTES = ['ctor', 'like_kw', 'template', 'deepcopy', 'like_method', 'fxp_of_fxp', 'add', 'mul_const', 'invert', 'and_mask', 'lshift', 'rshift_expand', 'rshift_keep', 'np_sum', 'np_add', 'neg', 'getitem',
          'T', 'flatten', 'ravel', 'fxp_like', 'np_transpose', 'np_clip', 'abs', 'equal', 'iter_pair', 'elem', 'unpack']
# routes whose result shares the value buffer with its source (model Alias.v: only getitem)
VIEW_ROUTES = {'getitem'}

def snapshot(x):
    import numpy as np
    c = x.config
    return {'val': np.asarray(x.val).reshape(-1).tolist(), 'status': dict(x.status),
            'cfg': (c.rounding, c.overflow, c.shifting, c.op_sizing, c.op_method, c.const_op_sizing, c.op_input_size, c.dtype_notation),
            'fmt': (x.signed, x.n_word, x.n_frac)}

def derive(fx, np, rng, route, pool):
    src = rng.choice(pool)
    if route == 'ctor': return fx.Fxp(np.array([0.5, -1.25, 2.0]), True, 12, 4), None
    if route == 'like_kw': return fx.Fxp([0.25, 1.0, -2.0], like=src), src
    if route == 'template':
        class T(fx.Fxp): template = src
        return T([0.5, 0.5, 0.5]), src
    if route == 'deepcopy': return src.deepcopy(), src
    if route == 'like_method':
        plain = [o for o in pool if type(o) is fx.Fxp]
        me = rng.choice(plain); other = rng.choice(plain); return me.like(other), other
    if route == 'fxp_of_fxp': return fx.Fxp(src), src
    if route == 'add':
        other = rng.choice([o for o in pool if np.asarray(o.val).shape == np.asarray(src.val).shape])
        return src + other, src
    if route == 'mul_const': return src * 0.5, src
    if route == 'invert': return ~src, src
    if route == 'and_mask': return src & 3, src
    if route == 'lshift': return src << 1, src
    if route == 'rshift_expand':
        return src >> 1, src
    if route == 'rshift_keep':
        old = src.config.shifting; src.config.shifting = 'keep'
        try: y = src >> 1
        finally: src.config.shifting = old
        return y, src
    if route == 'np_sum': return np.sum(src), src
    if route == 'np_add': return np.add(src, src), src
    if route == 'neg': return -src, src
    if route == 'T': return src.T, src
    if route == 'flatten': return src.flatten(), src
    if route == 'ravel': return src.ravel(), src
    if route == 'fxp_like': return fx.fxp_like(src, [0.5, 0.25, -1.0] if np.asarray(src.val).ndim else 0.5), src
    if route == 'np_transpose': return np.transpose(src), src
    if route == 'np_clip': return np.clip(src, -1.0, 1.0), src
    if route == 'abs': return abs(src), src
    if route == 'equal':
        d = fx.Fxp(np.asarray(src.get_val()) * 0, True, 16, 6); d.equal(src); return d, src
    if route in ('iter_pair', 'unpack'):
        # two elements of ONE iteration over an array (for e in x / list(x) / a, b, c = x): siblings own their configuration, status and callbacks too
        if not (np.asarray(src.val).ndim == 1 and np.asarray(src.val).size == 3): return src.deepcopy(), src
        if route == 'unpack': a, b, c_ = src
        else: it = list(src); a, b = it[0], it[2]
        pool.append(a); return b, src
    if route == 'elem': return (src[1] if np.asarray(src.val).ndim == 1 and np.asarray(src.val).size >= 2 else src.deepcopy()), src
    if route == 'getitem': return src[0:2] if np.asarray(src.val).ndim > 0 and np.asarray(src.val).size >= 2 else src.deepcopy(), src
    raise ValueError(route)

MUTATIONS = ['write_all', 'write_index', 'write_flag', 'cfg_rounding', 'cfg_overflow', 'cfg_shifting', 'reset', 'cfg_op']

def mutate(fx, np, rng, x, m):
    if m == 'write_all': x(np.asarray(x.get_val()) * 0 + rng.choice([0.5, -0.75, 1.0])) if np.asarray(x.val).ndim else x(rng.choice([0.5, 1.0]))
    elif m == 'write_index':
        if np.asarray(x.val).ndim > 0 and np.asarray(x.val).size > 0: x[0] = rng.choice([0.25, -0.5, 0.75])
        else: x(0.25)
    elif m == 'write_flag':
        big = 2.0 ** (x.n_word + 4)
        if np.asarray(x.val).ndim > 0 and np.asarray(x.val).size > 0: x[0] = rng.choice([big, -big, 0.3])
        else: x(rng.choice([big, -big, 0.3]))
    elif m == 'cfg_rounding': x.config.rounding = rng.choice([r for r in RMODES if r != x.config.rounding])
    elif m == 'cfg_overflow': x.config.overflow = 'wrap' if x.config.overflow == 'saturate' else 'saturate'
    elif m == 'cfg_shifting': x.config.shifting = rng.choice([r for r in ['expand', 'trunc', 'keep'] if r != x.config.shifting])
    elif m == 'cfg_op': x.config.op_sizing = rng.choice(['same', 'largest', 'smallest']); x.config.dtype_notation = 'Q'
    elif m == 'reset': x.reset()

def run_history(rng, res, hist_id):
    fx = lib.impl(); import numpy as np
    log = []
    try:
        pool = [fx.Fxp(np.array([0.5, -1.0, 1.5]), True, 12, 4), fx.Fxp(np.array([0.25, 0.75, -0.5]), True, 10, 6, rounding='around')]
        if hist_id % 2:      # every other history also holds an object of more than 64 bits (its codes are Python integers in an object array)
            pool.append(fx.Fxp([2 ** 70 + 1, -5, 7], True, 80, 2, raw=True))
        parents = {}       # index of object -> index of the object whose buffer it views
        for _ in range(rng.randint(2, 6)):
            route = rng.choice(ROUTES)
            y, src = derive(fx, np, rng, route, pool)
            if not isinstance(y, fx.Fxp): continue
            log.append(('derive', route))
            pool.append(y)
            if route in VIEW_ROUTES and src is not None and y.val is not src.val and np.shares_memory(np.asarray(y.val), np.asarray(src.val)):
                si = next(i for i, o in enumerate(pool) if o is src)
                parents[len(pool) - 1] = parents.get(si, si)          # the root of the view family
            # identity facts of the new object against every older one (model table: everything fresh, getitem shares the buffer only)
            for i, o in enumerate(pool[:-1]):
                if y.config is o.config or y.status is o.status or (y.callbacks is o.callbacks and route not in ('ctor',)):
                    res.fail({'history': hist_id, 'log': log}, 'C20: an object obtained by %s shares its configuration / status / callbacks object with another object' % route,
                             expected='fresh', got={'config': y.config is o.config, 'status': y.status is o.status, 'callbacks': y.callbacks is o.callbacks}); return
                shares = np.shares_memory(np.asarray(y.val), np.asarray(o.val)) if np.asarray(y.val).dtype != object else (y.val is o.val)
                fam_y = parents.get(len(pool) - 1, len(pool) - 1); fam_o = parents.get(i, i)
                if shares and not (route in VIEW_ROUTES and fam_y == fam_o):
                    res.fail({'history': hist_id, 'log': log}, 'C20: an object obtained by %s shares its value buffer with another object' % route, expected='fresh buffer', got='shared'); return
        # mutations
        nontriv = False
        for _ in range(rng.randint(2, 6)):
            i = rng.randrange(len(pool)); m = rng.choice(MUTATIONS)
            before = [snapshot(o) for o in pool]
            mutate(fx, np, rng, pool[i], m); log.append(('mutate', i, m))
            if m in ('write_flag', 'cfg_rounding', 'cfg_overflow', 'cfg_shifting', 'cfg_op'): nontriv = True
            after = [snapshot(o) for o in pool]
            for j in range(len(pool)):
                if j == i: continue
                related = parents.get(j, j) == parents.get(i, i)
                b, a = before[j], after[j]
                if b['status'] != a['status'] or b['cfg'] != a['cfg'] or b['fmt'] != a['fmt']:
                    res.fail({'history': hist_id, 'log': log}, 'C20: mutating one object (%s) changed the status or configuration of another object' % m, expected=(b['status'], b['cfg']), got=(a['status'], a['cfg'])); return
                if b['val'] != a['val'] and not (related and m in ('write_index', 'write_flag')):
                    res.fail({'history': hist_id, 'log': log}, 'C20: mutating one object (%s) changed the values of an unrelated object' % m, expected=b['val'], got=a['val']); return
        res.count('H:histories', key=repr(log), nontrivial=nontriv, n=len(log))
        res.sample({'log': log[:8]})
    except Exception as e:
        import traceback
        res.fail({'history': hist_id, 'log': log}, 'C20: a history raised %s' % lib.exc_name(e), got=traceback.format_exc()[-400:])

def view_write_through(rng, res):
    """chained indexed assignment x[i][j] = v writes through to x; so does a write through a slice y = x[a:b], and a write to x is
    seen through a row r = x[i] taken earlier.  Formats of the core domain and (the statement does not depend on the word) of 64 bits and more"""
    fx = lib.impl(); import numpy as np
    s_, nw, nf = rng.choice([(True, 12, 4), (True, 12, 4), (False, 8, 0), (True, 32, 16), (True, 63, 8), (True, 64, 8), (False, 64, 0), (True, 72, 4), (False, 96, 10), (True, 128, 64)])
    kind = rng.choice(['chained', 'chained', 'slice', 'row_sees_parent', 'chained_complex'])
    x = fx.Fxp(np.zeros((3, 3)), s_, nw, nf)
    i, j = rng.randrange(3), rng.randrange(3)
    c = {'i': i, 'j': j, 'f': [s_, nw, nf], 'kind': kind}
    res.count('V:view-write-through', key=repr(c), nontrivial=True)
    try:
        if kind == 'chained': x[i][j] = 3
        elif kind == 'chained_complex':
            # a complex value written through a view of real values: the write is not lost (x shows at least its real part; the part
            # that cannot be stored is reported by the inaccuracy flag of the view that executed the write)
            r = x[i]; r[j] = 3 + 1j
            got_re = int(np.real(np.asarray(x.val)).reshape(-1).tolist()[3 * i + j])
            if got_re != 3 * 2 ** nf or (not np.iscomplexobj(x.val) and not r.status['inaccuracy']):
                res.fail(c, 'C20: a complex value written through a view x[i][j] = v of real values is lost silently (x unchanged, or the dropped imaginary part not reported)', expected=3 * 2 ** nf, got=(got_re, dict(r.status))); return
            res.count('V:view-write-through', key=repr(c) + 'c', nontrivial=True); return
        elif kind == 'slice':
            a = 0 if i < 2 else 1; y = x[a:a + 2]; y[i - a, j] = 3
        else:
            r = x[i]; x[i, j] = 3
            if [Fraction(int(v)) / Fraction(2) ** nf for v in np.asarray(r.val).reshape(-1).tolist()] != [Fraction(3) if k == j else Fraction(0) for k in range(3)]:
                res.fail(c, 'C20: a write to x is not seen through the row x[i] taken earlier (indexing does not return a view of the values)', expected='3 at column %d' % j, got=[int(v) for v in np.asarray(r.val).reshape(-1).tolist()]); return
    except Exception as e:
        res.fail(c, 'C20: an indexed write through a view raised %s' % lib.exc_name(e), got=str(e)[:200]); return
    codes = [int(v) for v in np.asarray(x.val).reshape(-1).tolist()]
    want = [0] * 9; want[3 * i + j] = 3 * 2 ** nf
    if codes != want:
        res.fail(c, 'C20: chained indexed assignment x[i][j] = v / a write through a slice does not write through to x', expected=want, got=codes); return
    # ... and every value view of x shows it (x.real is a view of the values too)
    if np.asarray(x.real).tolist() != np.asarray(x.get_val()).tolist():
        res.fail(c, 'C20: after a write through a view, x.real does not show the values of x (stale)', expected=np.asarray(x.get_val()).tolist(), got=np.asarray(x.real).tolist())

def deep_same(a, b):
    """same types and same contents, recursively (lists / tuples / ndarrays / scalars)"""
    import numpy as np
    if type(a) != type(b): return False
    if isinstance(a, np.ndarray): return a.dtype == b.dtype and a.shape == b.shape and bool(np.array_equal(a, b))
    if isinstance(a, (list, tuple)): return len(a) == len(b) and all(deep_same(x, y) for x, y in zip(a, b))
    return a == b

def reference_results(res):
    """with a reference configured in op_out_like (results are FORMATTED like it), no route may return the reference itself or write into it:
    every method, operator and function route is tried, and the result is then written to"""
    fx = lib.impl(); import numpy as np
    def snap(o): return (A.fmt_of(o), lib.codes_of(o) if o.val is not None else None, lib.status3(o), o.config.overflow, o.config.rounding)
    routes = {
        'm_sum': lambda x, y: x.sum(), 'm_cumsum': lambda x, y: x.cumsum(), 'm_cumprod': lambda x, y: x.cumprod(), 'm_prod': lambda x, y: x.prod(), 'm_max': lambda x, y: x.max(), 'm_min': lambda x, y: x.min(),
        'm_mean': lambda x, y: x.mean(), 'm_dot': lambda x, y: x.dot(y), 'm_clip': lambda x, y: x.clip(-1.0, 1.0), 'm_conj': lambda x, y: x.conj(), 'm_transpose': lambda x, y: x.transpose(), 'm_flatten': lambda x, y: x.flatten(),
        'm_reshape': lambda x, y: x.reshape((3, 1)), 'm_like': lambda x, y: x.like(y), 'm_copy': lambda x, y: x.copy(), 'm_deepcopy': lambda x, y: x.deepcopy(),
        'o_add': lambda x, y: x + y, 'o_sub': lambda x, y: x - y, 'o_mul': lambda x, y: x * y, 'o_truediv': lambda x, y: x / y, 'o_floordiv': lambda x, y: x // y, 'o_mod': lambda x, y: x % y,
        'o_radd': lambda x, y: 0.5 + x, 'o_const': lambda x, y: x * 2, 'o_neg': lambda x, y: -x, 'o_pos': lambda x, y: +x, 'o_abs': lambda x, y: abs(x), 'o_invert': lambda x, y: ~x,
        'o_lshift': lambda x, y: x << 1, 'o_rshift': lambda x, y: x >> 1, 'o_and': lambda x, y: x & y, 'o_or': lambda x, y: x | y, 'o_xor': lambda x, y: x ^ y, 'o_getitem': lambda x, y: x[1], 'o_slice': lambda x, y: x[0:2],
        'f_np_cumsum': lambda x, y: np.cumsum(x), 'f_np_sum': lambda x, y: np.sum(x), 'f_np_add': lambda x, y: np.add(x, y), 'f_np_multiply': lambda x, y: np.multiply(x, y), 'f_fx_add': lambda x, y: fx.add(x, y), 'f_fx_sub': lambda x, y: fx.sub(x, y),
        'f_fx_mul': lambda x, y: fx.mul(x, y), 'f_fx_cumsum': lambda x, y: fx.functions.cumsum(x), 'f_fx_sum': lambda x, y: fx.functions.sum(x), 'f_np_sort': lambda x, y: np.sort(x), 'f_np_abs': lambda x, y: np.abs(x),
    }
    for opt in ('op_out_like', 'array_op_out_like'):
        for name, fn in routes.items():
            c = {'reference_option': opt, 'route': name}
            res.count('U:reference-results', key=repr(c), nontrivial=True)
            try:
                t = fx.Fxp([0.5, 0.25, -1.0], True, 24, 4)
                x = fx.Fxp([1.5, -2.25, 2.625], True, 16, 8); y = fx.Fxp([0.5, 0.25, -1.0], True, 16, 8)
                setattr(x.config, opt, t)
                before = snap(t); xb = snap(x)
                try: z = fn(x, y)
                except Exception: continue          # (whether a route accepts the setting is not this property's matter)
                same = z is t
                if isinstance(z, fx.Fxp) and not same:
                    z.config.overflow = 'wrap'; z.config.rounding = 'around'
                    try: z(1e9 if np.asarray(z.val).ndim == 0 else np.full(np.asarray(z.val).shape, 1e9))
                    except Exception: pass
                after = snap(t)
            except Exception as e:
                res.fail(c, 'C20: a route with a configured reference raised %s' % lib.exc_name(e), got=str(e)[:200]); continue
            if same or after != before:
                res.fail(c, 'C20: the result of %s with %s configured IS the reference object, or the operation / a later write to the result changed the reference' % (name, opt), expected=before, got=(same, after))

def config_targets(res):
    """the four Fxp-valued settings of a configuration (op_out, op_out_like, array_op_out, array_op_out_like) are state too: an object derived
    from x (a result, -x, an object built with config=x.config) has its own copies, so using or changing them never reaches x's"""
    fx = lib.impl(); import numpy as np
    def snap(o): return (A.fmt_of(o), lib.codes_of(o) if o.val is not None else None, lib.status3(o), o.config.overflow, o.config.rounding)
    for opt in ('op_out', 'op_out_like', 'array_op_out', 'array_op_out_like'):
        for route in ('neg', 'add', 'ctor_config', 'np_abs'):
            c = {'target_option': opt, 'route': route}
            res.count('T:config-targets', key=repr(c), nontrivial=True)
            try:
                t = fx.Fxp([0.5, 0.25, -1.0], True, 24, 8)
                x = fx.Fxp([1.5, -2.25, 3.0], True, 16, 8); y = fx.Fxp([0.5, 0.25, -1.0], True, 16, 8)
                setattr(x.config, opt, t)
                before = snap(t)
                if route == 'neg': z = -x
                elif route == 'add': z = x + y if opt != 'op_out' else abs(x)       # (x + y with op_out set IS the destination: that is what op_out means)
                elif route == 'ctor_config': z = fx.Fxp([1.0, 2.0, 3.0], True, 16, 8, config=x.config)
                else: z = np.abs(x) if opt not in ('array_op_out',) else -x
                zt = getattr(z.config, opt)
                if zt is not None:
                    # mutate the derived object's copy in every way: values (with a flag), format, modes
                    zt.config.overflow = 'wrap'; zt.config.rounding = 'around'; zt([1e9, 1e9, 1e9]); zt.resize(True, 12, 2)
                    # ... and let the derived object use it
                    if opt in ('op_out', 'op_out_like'): _ = z - y
                    else: _ = np.sqrt(abs(z))
                after = snap(t)
            except Exception as e:
                res.fail(c, 'C20: deriving an object from one whose configuration holds an Fxp-valued setting raised %s' % lib.exc_name(e), got=str(e)[:200]); continue
            if zt is t or after != before:
                res.fail(c, 'C20: the Fxp-valued setting %s of a derived object is shared with its source: using / changing it changed the source\'s' % opt, expected=before, got=(zt is t, after))

def failed_derivation(res):
    """a derivation that FAILS (here: indexing / like= / arithmetic on an object whose callback raises during the construction of the
    derived object) leaves its operand as it was"""
    fx = lib.impl(); import numpy as np
    class Strict:
        def __init__(self, which): self.which = which
        def on_status_overflow(self, obj):
            if self.which == 'range': raise ArithmeticError('out of range')
        def on_status_underflow(self, obj):
            if self.which == 'range': raise ArithmeticError('out of range')
        def on_status_inaccuracy(self, obj): pass
        def on_value_change(self, obj):
            if self.which == 'readonly': raise PermissionError('read only')
    for which in ('range', 'readonly'):
        for route in ('getitem', 'slice', 'chained_write', 'like', 'add', 'neg'):
            c = {'failed_derivation': route, 'callback': which}
            res.count('F:failed-derivations', key=repr(c), nontrivial=True)
            x = fx.Fxp([[20.5, 21.25], [30.0, 17.0]], False, 8, 4, scale=1, bias=16)      # (the placeholder zero of a derived object is not representable here)
            before = (lib.codes_of(x), A.fmt_of(x), lib.status3(x), x.dtype)
            x.callbacks.append(Strict(which))
            try:
                if route == 'getitem': x[1]
                elif route == 'slice': x[0:1]
                elif route == 'chained_write': x[1][0] = 20.0
                elif route == 'like': fx.Fxp(18.0, like=x)
                elif route == 'add': x + x
                else: -x
            except (ArithmeticError, PermissionError): pass
            except Exception as e:
                res.fail(c, 'C20: a derivation with a raising callback raised %s' % lib.exc_name(e), got=str(e)[:200]); continue
            try: after = (lib.codes_of(x), A.fmt_of(x), lib.status3(x), x.dtype)
            except Exception as e: after = ('unreadable', lib.exc_name(e), str(e)[:80])
            if route == 'chained_write': before_cmp = before[1:]; after_cmp = after[1:]       # (a write that went through is fine; the object must still be whole)
            else: before_cmp, after_cmp = before, after
            if after_cmp != before_cmp or x.val is None:
                res.fail(c, 'C20: a derivation that failed (a callback raised while the derived object was built) changed / destroyed its operand', expected=before, got=after)

def inputs_unchanged(rng, res):
    fx = lib.impl(); import numpy as np
    containers = [
        ('list', [0.5, 1.25, -3.0]), ('tuple', (0.5, 1.25, -3.0)), ('nested', [[1, 2], [3, 4]]), ('ndarray', np.array([0.5, 1.25, -3.0])), ('int_ndarray', np.array([1, 2, 3], dtype=np.int16)),
        ('bin_strings', ['0b0101', '0b1111', '0b0001']), ('hex_strings', ['0x0F', '0xA1', '0x7f']), ('nested_tuple', ((1.5, 2.5), (3.5, 4.5))), ('mixed_list', [1, 2.5, 3]),
        ('dec_strings', ['1.5', '-2.25']),
        ('nested_bin_strings', [['0b0101', '0b0011'], ['0b0001', '0b0110']]), ('nested_hex_strings', [['0x0F', '0xA1'], ['0x7f', '0x01']]), ('nested_dec_strings', [['1.5', '-2.25'], ['0.5', '3']]),
        ('list_of_string_tuples', [('0b0101', '0b0011'), ('0b0001', '0b0110')]), ('list_of_string_arrays', [np.array(['0b0101', '0b0011']), np.array(['0b0001', '0b0110'])]),
        ('rendered_2d_bin', fx.Fxp([[1.5, -2.0], [0.25, 3.0]], True, 16, 4).bin()), ('rendered_2d_hex', fx.Fxp([[1.5, -2.0], [0.25, 3.0]], True, 16, 4).hex()),
        ('nested_3_levels', [[[1, 2], [3, 4]], [[5, 6], [7, 8]]]), ('list_of_int_arrays', [np.array([1, 2]), np.array([3, 4])]),
        # numbers and strings mixed in one list, the number first / last / in the middle, flat and nested
        ('number_then_strings', [3, '0b011', 5]), ('string_then_numbers', ['0b011', 3, 5]), ('float_then_string', [1.5, '0b0110', -2]), ('nested_number_then_string', [[1, '0b01'], [2, '0x3']]),
        ('numbers_then_last_string', [7, 0, 2, '0x2']), ('tuple_number_then_string', (3, '0b011', 5)), ('list_of_mixed_tuples', [(1, '0b01'), ('0x3', 2)]),
    ]
    for name, c in containers:
        before = copy.deepcopy(c)
        try:
            for route in ('ctor', 'call', 'set_val'):
                if route == 'ctor': fx.Fxp(c, True, 16, 4)
                elif route == 'call': fx.Fxp(None, True, 16, 4)(c)
                else: fx.Fxp(None, True, 16, 4).set_val(c)
                same = deep_same(before, c); types_same = True
                res.count('I:inputs', key=(name, route), nontrivial=True)
                if not same or not types_same:
                    res.fail({'container': name, 'route': route}, 'C20: building an object from a %s modified the caller\'s container' % name, expected=repr(before), got=repr(c)); break
        except Exception as e:
            res.fail({'container': name}, 'C20: building an object from a %s raised %s' % (name, lib.exc_name(e)), got=str(e)[:200])

def clip_bounds_unchanged(res):
    fx = lib.impl(); import numpy as np
    for name, lo, hi in (('float arrays', np.array([0.25, 0.5, -1.0]), np.array([1.0, 1.5, 2.0])), ('int arrays', np.array([-1, 0, 1]), np.array([2, 2, 2])), ('scalars', -1.0, 1.0)):
        for route in ('numpy', 'method', 'function'):
            x = fx.Fxp([0.5, 3.0, -2.25], True, 16, 4); b = (copy.deepcopy(lo), copy.deepcopy(hi))
            try:
                if route == 'numpy': np.clip(x, lo, hi)
                elif route == 'method': x.clip(lo, hi)
                else: fx.clip(x, lo, hi)
            except Exception as e:
                res.fail({'clip': name, 'route': route}, 'C20: clip with %s bounds raised %s' % (name, lib.exc_name(e)), got=str(e)[:200]); continue
            res.count('I:inputs', key=('clip', name, route), nontrivial=True)
            if not (np.array_equal(b[0], lo) and np.array_equal(b[1], hi)):
                res.fail({'clip': name, 'route': route}, 'C20: clip modified the arrays passed as bounds', expected=repr(b), got=repr((lo, hi))); break

def invalid_config(rng, res):
    fx = lib.impl()
    bad = {'overflow': ['clip', 'saturated', 1, None], 'rounding': ['nearest', 'truncate', 0, None], 'shifting': ['grow', 'expanding', 3, None], 'op_input_size': ['big', 1],
           'op_sizing': ['tight', 5], 'op_method': ['fast', None], 'const_op_sizing': ['tight', 2], 'array_output_type': ['list', 0], 'array_op_method': ['fast', 1], 'dtype_notation': ['q', 'fxpx', 7],
           'op_out': [3, 'x'], 'op_out_like': [3.5], 'array_op_out': ['y'], 'array_op_out_like': [1], 'n_word_max': [0, -3, 2.5, 'a'], 'max_error': [0, -1.0]}
    for key, vals in bad.items():
        for v in vals:
            for via in ('attr', 'kwarg', 'update'):
                x = fx.Fxp(0.5, True, 8, 4); old = getattr(x.config, key)
                raised = False
                try:
                    if via == 'attr': setattr(x.config, key, v)
                    elif via == 'kwarg': x = fx.Fxp(0.5, True, 8, 4, **{key: v})
                    else: x.config.update(**{key: v})
                except Exception: raised = True
                res.count('C:invalid-config', key=(key, repr(v), via), nontrivial=True)
                stored = getattr(x.config, key)
                if not raised or (stored is v and v is not old) or (stored != old and not raised):
                    res.fail({'key': key, 'value': repr(v), 'via': via}, 'C20: an invalid configuration value was stored instead of being rejected with an error', expected='error', got=repr(stored)); break

def shard(shard, nshards, rng, tier, extra):
    res = Result()
    import random
    for h in range((4500 if tier == 'quick' else 40000) // nshards):
        hseed = rng.getrandbits(62)                     # every history has its own generator, so that it can be replayed alone
        run_history(random.Random(hseed), res, hseed)
    for _ in range(12 if tier == 'quick' else 200): view_write_through(rng, res)
    if shard == 0:
        inputs_unchanged(rng, res); clip_bounds_unchanged(res); invalid_config(rng, res); config_targets(res); reference_results(res); failed_derivation(res)
    return res

def run(seed, tier):
    return run_sharded('c20', 'shard', 16, seed, tier)
def classify(fl): return None
def replay(payload):
    import random
    res = Result(); c = payload['case']
    if 'history' in c: run_history(random.Random(c['history']), res, c['history'])
    elif 'i' in c:
        for k in range(120): view_write_through(random.Random(k), res)
    elif 'container' in c: inputs_unchanged(None, res)
    elif 'clip' in c: clip_bounds_unchanged(res)
    elif 'key' in c: invalid_config(None, res)
    elif 'target_option' in c: config_targets(res)
    elif 'reference_option' in c: reference_results(res)
    elif 'failed_derivation' in c: failed_derivation(res)
    return {'holds': not res.failures, 'failures': res.failures}
