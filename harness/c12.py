# c12.py — C12: dtype strings and formats determine each other in every notation.
import itertools, math
import lib, storelib as S
from lib import Result, model_call, run_sharded, e_fmt, e_list, Reader

RULE = ('formats (signed, n_word 1..256, n_frac -8..n_word+8, complex or not; complex for n_word<=52): exhaustive over n_word<=24 and the boundary n_word set {31,32,33,52,53,63,64,65,100,128,255,256} in the quick tier '
        '(every n_word in the thorough tier); for each: x.dtype, get_dtype(\'fxp\'), get_dtype(\'Q\'), get_dtype(None) under both configured defaults (set at construction and switched afterwards on the object), Fxp(dtype=x.dtype), resize(dtype=...), fxp_sum(dtype=x.dtype), and parsing of Q/UQ/S/U spellings in lower, '
        'upper and mixed case (whenever m = n_word - n_frac >= 0). Strings are compared verbatim with the model renderer; parsed formats with the model parser. Non-trivial = n_frac is negative, exceeds n_word, or the format is complex or unsigned; distinct by format and notation.')
ASSUMPTIONS = ['the two regular expressions of _parseformatstr are represented by a hand-written matcher in the model; re itself is exercised only through the implementation']

def chars(s): return [ord(ch) for ch in s]
def fxp_str(s, n, nf, cx): return 'fxp-%s%d/%d%s' % ('s' if s else 'u', n, nf, '-complex' if cx else '')
def q_str(s, n, nf): return '%s%d.%d' % ('Q' if s else 'UQ', n - nf, nf)

def np_iscomplex(x):
    import numpy as np
    return np.iscomplexobj(x.val)

def run_cases(cases, res, stratum):
    fx = lib.impl()
    pend = []; reqs = []
    for c in cases:
        s, n, nf, cx = c['s'], c['n'], c['nf'], c['cx']
        try:
            x = fx.Fxp(0j if cx else None, s, n, nf)
            obs = {'dtype': x.dtype, 'get_fxp': x.get_dtype('fxp'), 'get_q': x.get_dtype('Q'), 'after': x.dtype}
            xq = fx.Fxp(0j if cx else None, s, n, nf, dtype_notation='Q')
            obs['q_default'] = xq.dtype; obs['q_default_get_none'] = xq.get_dtype(); obs['q_default_get_fxp'] = xq.get_dtype('fxp'); obs['q_default_get_q'] = xq.get_dtype('Q')
            obs['fxp_default_get_none'] = fx.Fxp(None, s, n, nf).get_dtype()
            # the configured default changed after construction (the rendering must not come from a stale cache)
            xs = fx.Fxp(0j if cx else None, s, n, nf); xs.config.dtype_notation = 'Q'
            obs['switched_to_q'] = (xs.get_dtype('Q'), xs.get_dtype(), xs.get_dtype('fxp'))
            xs = fx.Fxp(0j if cx else None, s, n, nf, dtype_notation='Q'); xs.config.dtype_notation = 'fxp'
            obs['switched_to_fxp'] = (xs.get_dtype('fxp'), xs.get_dtype(), xs.get_dtype('Q'))
            y = fx.Fxp(None, dtype=fxp_str(s, n, nf, cx)); obs['ctor'] = (bool(y.signed), int(y.n_word), int(y.n_frac), 'complex' in y.dtype)
            z = fx.Fxp(None, True, 8, 2); z.resize(dtype=fxp_str(s, n, nf, cx)); obs['resize'] = (bool(z.signed), int(z.n_word), int(z.n_frac), 'complex' in z.dtype)
            # receivers holding an integer / a real value: the dtype string and the object (format, complex or not) must agree
            zi = fx.Fxp(3, True, 8, 0); zi.resize(dtype=fxp_str(s, n, nf, False)); obs['resize_int'] = (bool(zi.signed), int(zi.n_word), int(zi.n_frac), zi.dtype)
            yr = fx.Fxp(0.5, dtype=fxp_str(s, n, nf, cx)) if n <= 52 else None
            obs['ctor_real'] = None if yr is None else (yr.dtype, yr.get_dtype('fxp'), bool(np_iscomplex(yr)))
            if cx:
                cr = fx.Fxp(1 + 2j, s, n, nf); cr(0.5); obs['complex_then_real'] = (cr.dtype, cr.get_dtype('fxp'), bool(np_iscomplex(cr)))
                if n <= 52 and (n >= 2 or not s):
                    # an object holding real values becomes complex by an ELEMENT write: its dtype string says so at once
                    xe = fx.Fxp([0, 0], s, n, nf); xe[0] = 1j * 2.0 ** (-nf)
                    obs['elem_complex'] = (xe.dtype, bool(np_iscomplex(xe)))
            if n <= 52:
                # resizing a SCALED holder with dtype=<string> reproduces the format the string denotes, the complex suffix included
                xs_ = fx.Fxp([1.0, 1.0], True, 8, 2, scale=2, bias=1); xs_.resize(dtype=fxp_str(s, n, nf, cx))
                obs['scaled_resize'] = (bool(xs_.signed), int(xs_.n_word), int(xs_.n_frac), 'complex' in xs_.dtype, xs_.dtype == xs_.get_dtype())
            if n <= 52:
                # resizing with a dtype string reproduces the format the string denotes whatever the object was declared before: a holder of REAL
                # values declared complex by an earlier resize and resized again with this string has this string's format, complex flag included
                xr_ = fx.Fxp([1.0, 0.5], True, 16, 4); xr_.resize(dtype='fxp-s16/4-complex'); xr_.resize(dtype=fxp_str(s, n, nf, cx))
                obs['redeclared'] = (bool(xr_.signed), int(xr_.n_word), int(xr_.n_frac), 'complex' in xr_.dtype, xr_.dtype == xr_.get_dtype())
                # ... and an ELEMENT write of a real number into an object that is complex by declaration only: the dtype attribute follows what the object is then
                xe_ = fx.Fxp([0.0, 0.0], s, n, nf); xe_.resize(dtype=fxp_str(s, n, nf, True)); xe_[0] = 0.0
                obs['declared_then_elem'] = (xe_.dtype == xe_.get_dtype(), ('complex' in xe_.dtype) == (xe_.vdtype == complex))
            # the second parser of dtype strings (utils.get_sizes_from_dtype, reached through fxp_sum(dtype=...))
            try:
                sm = fx.fxp_sum(fx.Fxp([0, 0], s, n, nf), dtype=fxp_str(s, n, nf, cx)); obs['sum_dtype'] = (bool(sm.signed), int(sm.n_word), int(sm.n_frac))
            except Exception as e:
                obs['sum_dtype'] = ('raised ' + lib.exc_name(e), str(e)[:120])
            obs['parse'] = {}
            spell = [fxp_str(s, n, nf, cx), fxp_str(s, n, nf, cx).upper()]
            if n - nf >= 0 and not cx:
                m = n - nf
                for pre in (['Q', 'q', 'S', 's'] if s else ['UQ', 'uq', 'Uq', 'U', 'u', 'QU', 'qu']):
                    spell.append('%s%d.%d' % (pre, m, nf))
                if nf == 0: spell.append('%s%d' % ('S' if s else 'U', m))
            obs['sum_parse'] = {}
            for sp in spell:
                w = fx.Fxp(None, dtype=sp); obs['parse'][sp] = (bool(w.signed), int(w.n_word), int(w.n_frac), 'complex' in w.dtype)
                try:
                    sm2 = fx.fxp_sum(fx.Fxp([0, 0], s, n, nf), dtype=sp); obs['sum_parse'][sp] = (bool(sm2.signed), int(sm2.n_word), int(sm2.n_frac))
                except Exception as e:
                    obs['sum_parse'][sp] = ('raised ' + lib.exc_name(e), str(e)[:80])
        except Exception as e:
            res.fail(c, 'C12: constructing / rendering / parsing raised %s' % lib.exc_name(e), got=str(e)[:300]); continue
        pend.append((c, obs))
        reqs.append([80] + e_fmt(s, n, nf) + [1 if cx else 0])
        for sp in obs['parse']: reqs.append([81] + e_list(chars(sp)))
    outs = model_call(reqs); k = 0
    for c, obs in pend:
        s, n, nf, cx = c['s'], c['n'], c['nf'], c['cx']
        rd = Reader(outs[k]); k += 1
        mf = ''.join(chr(t) for t in rd.lst(rd.z)); mq = ''.join(chr(t) for t in rd.lst(rd.z))
        want_f, want_q = fxp_str(s, n, nf, cx), q_str(s, n, nf)
        res.count(stratum, key=repr(c), nontrivial=(nf < 0 or nf > n or cx or not s), n=8 + len(obs['parse']))
        res.sample(c)
        bad = False
        checks = [('dtype', want_f), ('get_fxp', want_f), ('get_q', want_q), ('q_default', want_q), ('q_default_get_none', want_q), ('q_default_get_fxp', want_f),
                  ('q_default_get_q', want_q), ('fxp_default_get_none', fxp_str(s, n, nf, False)), ('after', want_f)]
        for key, want in checks:
            if obs[key] != want:
                res.fail(c, 'C12: %s does not spell the format in the requested notation' % key, expected=want, got=obs[key]); bad = True; break
        if not bad and (obs['switched_to_q'] != (want_q, want_q, want_f) or obs['switched_to_fxp'] != (want_f, want_f, want_q)):
            res.fail(c, 'C12: get_dtype does not render the requested / newly configured notation after config.dtype_notation was changed on the object',
                     expected=((want_q, want_q, want_f), (want_f, want_f, want_q)), got=(obs['switched_to_q'], obs['switched_to_fxp'])); bad = True
        if bad:
            k += len(obs['parse']); continue
        if obs['ctor'] != (s, n, nf, cx) or obs['resize'] != (s, n, nf, cx):
            res.fail(c, 'C12: constructing / resizing with dtype=x.dtype does not reproduce the format', expected=(s, n, nf, cx), got=(obs['ctor'], obs['resize'])); k += len(obs['parse']); continue
        if obs['resize_int'] != (s, n, nf, fxp_str(s, n, nf, False)):
            res.fail(c, 'C12: resizing an integer-valued object with dtype= does not give the format / dtype string', expected=(s, n, nf, fxp_str(s, n, nf, False)), got=obs['resize_int']); k += len(obs['parse']); continue
        bads = [(sp, g) for sp, g in obs.get('sum_parse', {}).items() if g != (s, n, nf)]
        if bads:
            res.fail(dict(c, spelling=bads[0][0]), 'C12: fxp_sum(dtype=<spelling>) (the second dtype parser) does not give the format the spelling denotes', expected=(s, n, nf), got=bads[0][1]); k += len(obs['parse']); continue
        if obs['sum_dtype'] != (s, n, nf):
            res.fail(c, 'C12: fxp_sum(dtype=x.dtype) (utils.get_sizes_from_dtype) does not reproduce the format', expected=(s, n, nf), got=obs['sum_dtype']); k += len(obs['parse']); continue
        if obs.get('scaled_resize') is not None and obs['scaled_resize'] != (s, n, nf, cx, True):
            res.fail(c, 'C12: resize(dtype=<string>) of a scaled object does not reproduce the format the string denotes (sizes, complex suffix)', expected=(s, n, nf, cx, True), got=obs['scaled_resize']); k += len(obs['parse']); continue
        if obs.get('redeclared') is not None and obs['redeclared'] != (s, n, nf, cx, True):
            res.fail(c, 'C12: resize(dtype=<string>) of an object of real values that an earlier resize had declared complex does not reproduce the format the string denotes', expected=(s, n, nf, cx, True), got=obs['redeclared']); k += len(obs['parse']); continue
        if obs.get('declared_then_elem') is not None and obs['declared_then_elem'] != (True, True):
            res.fail(c, 'C12: after an element write of a real number into an object declared complex by a resize, the dtype attribute is stale (it differs from get_dtype() / from the value type)', expected=(True, True), got=obs['declared_then_elem']); k += len(obs['parse']); continue
        if obs.get('elem_complex') is not None and obs['elem_complex'] != (fxp_str(s, n, nf, True), True):
            res.fail(c, 'C12: after a complex element was written into an object of real values its dtype string does not carry the complex suffix (stale attribute)', expected=(fxp_str(s, n, nf, True), True), got=obs['elem_complex']); k += len(obs['parse']); continue
        if obs.get('ctor_real') is not None and ('complex' in obs['ctor_real'][0]) != cx:
            res.fail(c, 'C12: constructing with dtype=<string> and a real value does not reproduce the format the string denotes (the complex suffix)', expected=fxp_str(s, n, nf, cx), got=obs['ctor_real']); k += len(obs['parse']); continue
        for key in ('ctor_real', 'complex_then_real'):
            ob = obs.get(key)
            if ob is not None and (ob[0] != ob[1] or ('complex' in ob[0]) != ob[2]):
                res.fail(c, 'C12: the dtype string and the object disagree after storing a real value (%s): complex suffix vs complex values, dtype vs get_dtype' % key, expected='dtype == get_dtype(), suffix iff complex', got=ob); bad = True; break
        if bad:
            k += len(obs['parse']); continue
        if mf != want_f or mq != want_q:
            res.fail(c, 'model Dtype renderer disagrees with the implementation although the property holds', expected=(mf, mq), got=(want_f, want_q)); res.failures[-1]['no_input'] = True
        for sp, got in obs['parse'].items():
            o = outs[k]; k += 1
            mp = (bool(o[1]), o[2], o[3], bool(o[4])) if o[0] == 0 else None
            if got != (s, n, nf, cx) and not bad:
                res.fail(dict(c, spelling=sp), 'C12: parsing a dtype spelling does not give the format it denotes', expected=(s, n, nf, cx), got=got); bad = True
            elif mp != got and not bad:
                res.fail(dict(c, spelling=sp), 'model Dtype parser disagrees with the implementation', expected=mp, got=got); res.failures[-1]['no_input'] = True; bad = True

def shard(shard, nshards, rng, tier, extra):
    res = Result()
    words = list(range(1, 25)) + [31, 32, 33, 52, 53, 63, 64, 65, 100, 128, 255, 256] if tier == 'quick' else list(range(1, 257))
    cases = []; idx = 0
    for n in words:
        for nf in range(-8, n + 9):
            for s in (True, False):
                for cx in ((False, True) if n <= 52 else (False,)):
                    idx += 1
                    if idx % nshards != shard: continue
                    if tier == 'quick' and n > 24 and nf not in (-8, -1, 0, 1, n // 2, n - 1, n, n + 1, n + 8): continue
                    cases.append({'s': s, 'n': n, 'nf': nf, 'cx': cx})
    run_cases(cases, res, 'A:formats')
    res.exhaustive = True
    return res

def run(seed, tier):
    return run_sharded('c12', 'shard', 16, seed, tier)
def classify(fl): return None
def replay(payload):
    res = Result(); run_cases([payload['case']], res, 'replay')
    return {'holds': not res.failures, 'failures': res.failures}
