# c16.py — C16: comparisons and numeric conversions agree with the exact stored value.
import itertools, math
from fractions import Fraction
import lib, storelib as S, arithlib as A
from lib import Result, model_call, run_sharded, e_fmt, e_f64, Reader

RULE = ('pairs of formats with n_word<=24 (any signedness mix, n_frac -1..n_word+1, a share with fraction lengths -30..60 far apart between the operands) with values chosen adjacent to each other across the two formats (equal, one LSB apart, at the bounds), '
        'Fxp vs Fxp (scalars and arrays) and Fxp vs plain number (int and float); conversions get_val / astype(float) / float() / astype(int) / int() / bool() / raw() / uraw() for every code of every '
        'format with n_word<=6 (quick) / <=8 (thorough) and n_frac -1..n_word+1, plus random wider formats; the left object is reached by six histories (raw constructor; built from integers, resized, then written raw or through equal(); like= an integer object with n_frac=; built from a list of uint64 scalars; raw constructor followed by a REJECTED indexed write of an integer). Numbers also on the left (Python, np.float64, np.int64 / np.float32), array_op_method raw on the left object, and the six NumPy comparison functions called by name (default method). The six relations and the conversions are evaluated with exact rationals on the implementation output and '
        'compared with the model. Non-trivial = the two values differ by at most 2 LSB of the finer format (comparisons) / the code is non-zero (conversions); distinct by full input.')
ASSUMPTIONS = []
OPS = ['<', '<=', '==', '!=', '>', '>=']

def pyop(op, a, b):
    return {'<': a < b, '<=': a <= b, '==': a == b, '!=': a != b, '>': a > b, '>=': a >= b}[op]

BUILDS = ['raw', 'int_resize_raw', 'int_resize_equal', 'like_int', 'u64list_raw', 'raw_rejected_write', 'int_resize_nint_raw', 'raw_vdtype_npint']
def build(fx, np, s, nw, nf, codes, shape=None, how='raw'):
    """an object holding the given raw codes, reached through different histories (the hidden value type differs: an object built
    from integers keeps an integer value type until a write resets it)"""
    if how == 'raw' or nw >= 64: return A.mk(fx, np, s, nw, nf, codes, shape=shape)
    if how == 'raw_rejected_write':
        # the object has seen a write that was REJECTED (an index out of range): the stored codes are untouched, and so must be every reading
        x = A.mk(fx, np, s, nw, nf, codes, shape=shape)
        try:
            if shape is None: x.set_val(2, index=1)
            else: x[int(np.prod(shape))] = 1
        except (IndexError, ValueError, TypeError): pass
        return x
    if how == 'raw_vdtype_npint':
        # a raw write that DECLARES an integer value type through the vdtype keyword, spelled as a NumPy integer type / dtype / 'int':
        # the format decides whether the readings are integers (n_frac <= 0) or not
        x = fx.Fxp(None, s, nw, nf)
        x.set_val(codes if shape is None else np.array(codes).reshape(shape), raw=True, vdtype=[np.int32, np.uint8, np.int64, np.dtype('int16'), int][(nw + len(str(codes))) % 5])
        return x
    if how == 'u64list_raw':
        # built from a LIST of NumPy uint64 scalars (the value type is then the dtype instance uint64, not a Python type), then written raw
        x = fx.Fxp([np.uint64(1), np.uint64(0)], s, nw, nf)
        if shape is None: x = x[0]; x.set_val(codes, raw=True)
        else: x.set_val(np.array(codes).reshape(shape), raw=True)
        return x
    zero = 0 if shape is None else np.zeros(shape, dtype=np.int64)
    if how == 'like_int':
        tmpl = fx.Fxp(zero, s, nw, 0)
        return fx.Fxp(codes if shape is None else np.array(codes).reshape(shape), like=tmpl, n_frac=nf, raw=True)
    x = fx.Fxp(zero, s, nw, 0)
    if how == 'int_resize_nint_raw': x.resize(n_word=nw, n_int=nw - nf - (1 if s else 0))       # (the fraction length follows from the other two sizes)
    else: x.resize(s, nw, nf)
    if how in ('int_resize_raw', 'int_resize_nint_raw'): x.set_val(codes if shape is None else np.array(codes).reshape(shape), raw=True)
    else: x.equal(A.mk(fx, np, s, nw, nf, codes, shape=shape))
    return x

def cmp_cases(rng, n):
    cases = []
    while len(cases) < n:
        def f():
            nw = rng.choice([1, 2, 3, 4, 6, 8, 12, 16, 24, rng.randint(1, 24)])
            if rng.random() < 0.15: return (rng.random() < 0.55, nw, rng.choice([-30, -12, nw + 8, 40, 41, 48, 60, rng.randint(-30, 60)]))    # (fraction lengths far from the word, far apart between the operands: every value is still an exact double)
            return (rng.random() < 0.55, nw, rng.randint(-1, nw + 1))
        fxm, fym = f(), f()
        lx, hx = S.fmt_bounds(fxm[0], fxm[1]); ly, hy = S.fmt_bounds(fym[0], fym[1])
        cx = rng.choice([lx, hx, 0, rng.randint(lx, hx), rng.randint(lx, hx)])
        # y adjacent to x's value
        xv = Fraction(cx) / Fraction(2) ** fxm[2]
        ty = xv * Fraction(2) ** fym[2]
        cy = rng.choice([math.floor(ty), math.ceil(ty), math.floor(ty) - 1, math.ceil(ty) + 1, ly, hy, rng.randint(ly, hy)])
        cy = max(ly, min(hy, cy))
        num = rng.choice([float(xv), float(xv) + float(Fraction(2) ** (-fxm[2])), float(xv) - 0.5, int(math.floor(xv)), int(math.floor(xv)) + 1, 0, rng.uniform(-4, 4)])
        if abs(num) >= 2 ** 53 or (isinstance(num, float) and num != 0 and abs(num) < 2.0 ** -60): num = rng.choice([0, 1, -1.5])     # (the plain number must be exact in every carrier it is handed over in)
        cases.append({'x': list(fxm), 'cx': cx, 'y': list(fym), 'cy': cy, 'num': num, 'array': rng.random() < 0.25, 'build': rng.choice(BUILDS),
                      'array_op_method': rng.choice(['repr', 'repr', 'raw'])})     # (a configuration field of x: comparisons are about values in both settings)
    return cases

def run_cmp(cases, res):
    fx = lib.impl(); import numpy as np
    pend = []; reqs = []
    for c in cases:
        fxm, fym = tuple(c['x']), tuple(c['y'])
        try:
            if c['array']:
                x = build(fx, np, *fxm, [c['cx'], c['cx']], shape=(2,), how=c.get('build', 'raw')); y = A.mk(fx, np, *fym, [c['cy'], c['cy']], shape=(2,))
                got = [bool(np.asarray(r).reshape(-1)[1]) for r in (x < y, x <= y, x == y, x != y, x > y, x >= y)]
                gotn = [bool(np.asarray(r).reshape(-1)[0]) for r in (x < c['num'], x <= c['num'], x == c['num'], x != c['num'], x > c['num'], x >= c['num'])]
            else:
                x = build(fx, np, *fxm, c['cx'], how=c.get('build', 'raw')); y = A.mk(fx, np, *fym, c['cy'])
                got = [bool(r) for r in (x < y, x <= y, x == y, x != y, x > y, x >= y)]
                gotn = [bool(r) for r in (x < c['num'], x <= c['num'], x == c['num'], x != c['num'], x > c['num'], x >= c['num'])]
            if c.get('array_op_method', 'repr') != 'repr': x.config.array_op_method = c['array_op_method']
            # the plain number on the LEFT (Python and NumPy numbers): k < x is x > k, etc.
            num = c['num']; gotl = {}
            for name, k in (('py', num), ('np.float64', np.float64(num)), ('np.int64', np.int64(num)) if isinstance(num, int) else ('np.float32', np.float32(num) if float(np.float32(num)) == float(num) else np.float64(num))):
                rs = (k < x, k <= x, k == x, k != x, k > x, k >= x)
                gotl[name] = [bool(np.asarray(r).reshape(-1)[0]) for r in rs]
            # the comparison functions of NumPy called by name: a truth value, the same one (values are compared, never raw codes, in both settings of array_op_method)
            gotu = None
            if True:
                UF = (np.less, np.less_equal, np.equal, np.not_equal, np.greater, np.greater_equal)
                ru = [u(x, y) for u in UF]; rk = [u(x, num) for u in UF]
                if any(isinstance(r, fx.Fxp) for r in ru + rk):
                    res.fail(c, 'C16: a NumPy comparison function (np.less ... np.greater_equal) returned a fixed-point object instead of a truth value', got=str([type(r).__name__ for r in ru + rk])); continue
                gotu = ([bool(np.asarray(r).reshape(-1)[-1]) for r in ru], [bool(np.asarray(r).reshape(-1)[0]) for r in rk])
        except Exception as e:
            res.fail(c, 'C16: a comparison raised %s' % lib.exc_name(e), got=str(e)[:200]); continue
        c['_gotl'] = gotl; c['_gotu'] = gotu
        pend.append((c, got, gotn)); reqs.append([50] + e_fmt(*fxm) + [c['cx']] + e_fmt(*fym) + [c['cy']] + e_f64(float(c['num'])))
    outs = model_call(reqs)
    for (c, got, gotn), out in zip(pend, outs):
        xv = Fraction(c['cx']) / Fraction(2) ** c['x'][2]; yv = Fraction(c['cy']) / Fraction(2) ** c['y'][2]; nv = Fraction(c['num'])
        want = [pyop(o, xv, yv) for o in OPS]; wantn = [pyop(o, xv, nv) for o in OPS]
        lsb = min(Fraction(2) ** (-c['x'][2]), Fraction(2) ** (-c['y'][2]))
        res.count('P:comparisons', key=repr(c), nontrivial=abs(xv - yv) <= 2 * lsb, n=12)
        res.sample(c)
        if got != want:
            res.fail(c, 'C16: comparison of two fixed-point objects disagrees with the exact stored values', expected=dict(zip(OPS, want)), got=dict(zip(OPS, got))); continue
        if gotn != wantn:
            res.fail(c, 'C16: comparison with a plain number disagrees with the exact stored value', expected=dict(zip(OPS, wantn)), got=dict(zip(OPS, gotn))); continue
        gotu = c.pop('_gotu')
        if gotu is not None and (gotu[0] != want or gotu[1] != wantn):
            res.fail(c, 'C16: a NumPy comparison function called by name disagrees with the exact stored values', expected=(dict(zip(OPS, want)), dict(zip(OPS, wantn))), got=(dict(zip(OPS, gotu[0])), dict(zip(OPS, gotu[1])))); c.pop('_gotl', None); continue
        gotl = c.pop('_gotl'); wantl = [pyop(o, nv, xv) for o in OPS]
        badl = [k for k, g in gotl.items() if g != wantl]
        if badl:
            res.fail(c, 'C16: comparison with a plain number on the left (%s) disagrees with the exact stored value' % badl[0], expected=dict(zip(OPS, wantl)), got=dict(zip(OPS, gotl[badl[0]]))); continue
        m = [bool(t) for t in out]
        if m[0:6] != got or m[6:12] != gotn or m[12:18] != want:
            res.fail(c, 'model Conv.fxp_cmp disagrees with the implementation although the property holds', expected=m, got=got + gotn); res.failures[-1]['no_input'] = True

def conv_cases(rng, tier, shard, nshards):
    nwmax = 6 if tier == 'quick' else 8
    fmts = [(s, nw, nf) for s in (True, False) for nw in range(1, nwmax + 1) for nf in range(-1, nw + 2)]
    cases = []
    for idx, (s, nw, nf) in enumerate(fmts):
        if idx % nshards != shard: continue
        lo, hi = S.fmt_bounds(s, nw)
        for c in range(lo, hi + 1): cases.append({'f': [s, nw, nf], 'c': c, 'build': BUILDS[(idx + c) % len(BUILDS)]})
    for _ in range((2400 if tier == 'quick' else 20000) // nshards):
        nw = rng.randint(9, 52); s = rng.random() < 0.5; nf = rng.randint(-1, nw + 1); lo, hi = S.fmt_bounds(s, nw)
        cases.append({'f': [s, nw, nf], 'c': rng.choice([lo, hi, -1 if s else 1, rng.randint(lo, hi)]), 'build': rng.choice(BUILDS)})
    return cases

def run_conv(cases, res):
    fx = lib.impl(); import numpy as np
    pend = []; reqs = []
    for c in cases:
        s, nw, nf = c['f']
        try:
            x = build(fx, np, s, nw, nf, c['c'], how=c.get('build', 'raw'))
            xa = build(fx, np, s, nw, nf, [c['c'], 0], shape=(2,), how=c.get('build', 'raw'))
            obs = {'get_val': lib.vals_of(x.get_val())[0], 'asfloat': lib.vals_of(x.astype(float))[0], 'float': Fraction(float(x)),
                   'asint': int(np.asarray(x.astype(int)).reshape(-1)[0]), 'int': int(x), 'bool': bool(x),
                   'raw': int(np.asarray(x.raw()).reshape(-1)[0]), 'uraw': int(np.asarray(x.uraw()).reshape(-1)[0]),
                   'arr_asint': int(np.asarray(xa.astype(int)).reshape(-1)[0]), 'arr_uraw': int(np.asarray(xa.uraw()).reshape(-1)[0]),
                   'arr_val': lib.vals_of(xa.get_val())[0]}
            x1 = build(fx, np, s, nw, nf, [c['c']], shape=(1,), how=c.get('build', 'raw'))         # a length-1 array converts like a scalar
            obs['len1'] = (int(x1), Fraction(float(x1)), bool(x1))
            # single elements of a 2-D object by item(): a flat index, an n-d index as separate arguments, an n-d index as one tuple (ndarray.item)
            x2 = build(fx, np, s, nw, nf, [0, 0, 0, c['c'], 0, c['c']], shape=(2, 3), how='raw')
            obs['item'] = tuple(Fraction(np.asarray(v).reshape(-1).tolist()[0]) if np.asarray(v).size == 1 else 'array' for v in (x2.item(3), x2.item(5), x2.item(1, 0), x2.item((1, 2)), xa.item(0), xa.item(-2), x1.item(), x1[0].item()))      # (no argument: the one element of a size-1 object, as ndarray.item())
        except Exception as e:
            res.fail(c, 'C16: a conversion raised %s' % lib.exc_name(e), got=str(e)[:200]); continue
        pend.append((c, obs)); reqs.append([51] + e_fmt(s, nw, nf) + [c['c']])
    outs = model_call(reqs)
    for (c, obs), out in zip(pend, outs):
        s, nw, nf = c['f']; v = Fraction(c['c']) / Fraction(2) ** nf
        rd = Reader(out); mval = rd.f64(); tag, mint = rd.z(), rd.z(); mbool = rd.b(); muraw, mfloor, mimg = rd.z(), rd.z(), rd.z()
        res.count('V:conversions', key=repr(c), nontrivial=c['c'] != 0, n=8)
        res.sample(c)
        if obs['item'] != (v,) * 8:
            res.fail(c, 'C16: item() of an element (flat index, n-d index, tuple index, negative index, no argument on a size-1 object) is not exactly code*2^-n_frac of that element', expected=str(v), got=[str(t) for t in obs['item']]); continue
        if obs['get_val'] != v or obs['asfloat'] != v or obs['float'] != v or obs['arr_val'] != v:
            res.fail(c, 'C16: get_val / astype(float) / float() is not exactly code*2^-n_frac', expected=str(v), got={k: str(obs[k]) for k in ('get_val', 'asfloat', 'float', 'arr_val')}); continue
        if obs['len1'] != (math.floor(v), v, c['c'] != 0):
            res.fail(c, 'C16: int() / float() / bool() of a length-1 array are not those of its element', expected=(math.floor(v), str(v), c['c'] != 0), got=(obs['len1'][0], str(obs['len1'][1]), obs['len1'][2])); continue
        if obs['asint'] != math.floor(v) or obs['int'] != math.floor(v) or obs['arr_asint'] != math.floor(v):
            res.fail(c, 'C16: astype(int) / int() is not the floor of the stored value', expected=math.floor(v), got=(obs['asint'], obs['int'], obs['arr_asint'])); continue
        if obs['bool'] != (c['c'] != 0):
            res.fail(c, 'C16: bool() is not (code != 0)', expected=c['c'] != 0, got=obs['bool']); continue
        if obs['raw'] != c['c'] or obs['uraw'] != c['c'] % (1 << nw) or obs['arr_uraw'] != c['c'] % (1 << nw):
            res.fail(c, 'C16: raw()/uraw() are not the signed code and its n_word-bit two\'s-complement image', expected=(c['c'], c['c'] % (1 << nw)), got=(obs['raw'], obs['uraw'], obs['arr_uraw'])); continue
        if mval != v or tag != 0 or mint != obs['asint'] or mbool != obs['bool'] or muraw != obs['uraw'] or mfloor != math.floor(v) or mimg != obs['uraw']:
            res.fail(c, 'model Conv conversions disagree with the implementation although the property holds', expected=(str(mval), tag, mint, mbool, muraw), got=obs['asint']); res.failures[-1]['no_input'] = True

def narrow_cases(rng, n):
    """comparands of a NARROW NumPy float type (np.float16 / np.float32) next to a stored value that the narrow type cannot hold: the relation
    is about the exact values (nothing may be rounded to the narrow type first); objects built from integer VALUES (integer value type) too"""
    cases = []
    while len(cases) < n:
        nw = rng.choice([12, 13, 14, 16, 20, 24]); s = rng.random() < 0.6; nf = rng.choice([0, -1, -2, -3, 1, 2])
        lo, hi = S.fmt_bounds(s, nw); c = rng.choice([hi, lo, hi - 1, rng.randint(lo, hi), rng.randint(lo, hi) | 1, (1 << (nw - 2)) + 1])
        c = max(lo, min(hi, c))
        cases.append({'f16': True, 'f': [s, nw, nf], 'c': c, 'build': rng.choice(['raw', 'intval', 'intval_elem', 'raw_elem']), 'ftype': rng.choice(['float16', 'float16', 'float32']), 'nb': rng.choice([0, 0, 1, -1])})
    return cases

def run_narrow(cases, res):
    fx = lib.impl(); import numpy as np
    for c in cases:
        s, nw, nf = c['f']; v = Fraction(c['c']) / Fraction(2) ** nf
        ft = getattr(np, c['ftype'])
        with np.errstate(all='ignore'): h = ft(float(v))
        if c['nb']: h = np.nextafter(h, ft(np.inf if c['nb'] > 0 else -np.inf))
        if not np.isfinite(h): continue
        try:
            b = c['build']
            if b in ('intval', 'intval_elem') and nf <= 0:
                x = fx.Fxp(int(v), s, nw, nf) if b == 'intval' else fx.Fxp([0, int(v)], s, nw, nf)[1]
            elif b == 'raw_elem': x = A.mk(fx, np, s, nw, nf, [0, c['c']], shape=(2,))[1]
            else: x = A.mk(fx, np, s, nw, nf, c['c'])
            if lib.codes_of(x) != [c['c']]: continue
            got = [bool(np.asarray(r).reshape(-1)[0]) for r in (x < h, x <= h, x == h, x != h, x > h, x >= h)]
            gotl = [bool(np.asarray(r).reshape(-1)[0]) for r in (h < x, h <= x, h == x, h != x, h > x, h >= x)]
            UF = (np.less, np.less_equal, np.equal, np.not_equal, np.greater, np.greater_equal)
            gotu = [bool(np.asarray(u(x, h)).reshape(-1)[0]) for u in UF]; gotul = [bool(np.asarray(u(h, x)).reshape(-1)[0]) for u in UF]
        except Exception as e:
            res.fail(c, 'C16: a comparison with a narrow NumPy float raised %s' % lib.exc_name(e), got=str(e)[:200]); continue
        hv = Fraction(float(h)); want = [pyop(o, v, hv) for o in OPS]; wantl = [pyop(o, hv, v) for o in OPS]
        res.count('N:narrow-float-comparands', key=repr(c), nontrivial=(v != hv), n=24)
        if got != want or gotl != wantl or gotu != want or gotul != wantl:
            res.fail(c, 'C16: comparison with a np.%s number disagrees with the exact stored value (%s against %s)' % (c['ftype'], v, hv), expected=(dict(zip(OPS, want)), dict(zip(OPS, wantl))), got=(dict(zip(OPS, got)), dict(zip(OPS, gotl)), dict(zip(OPS, gotu)), dict(zip(OPS, gotul))))

def layout_cases(rng, n):
    """3-D objects whose codes are laid out in neither C nor Fortran order (axes permuted, a fancy index on a middle axis): every conversion and
    comparison is about the element AT ITS INDEX"""
    cases = []
    for _ in range(n):
        nw = rng.choice([6, 8, 12]); s = rng.random() < 0.7; nf = rng.choice([-2, -1, 0, 1, 2, 3]); lo, hi = S.fmt_bounds(s, nw)
        cases.append({'layout3d': rng.choice(['transpose102', 'swapaxes12', 'transpose021', 'T', 'fancy_mid', 'intval_transposed']), 'f': [s, nw, nf], 'codes': [rng.randint(lo, hi) for _ in range(24)]})
    return cases

def run_layout(cases, res):
    fx = lib.impl(); import numpy as np
    for c in cases:
        s, nw, nf = c['f']; codes = np.array(c['codes'], dtype=np.int64).reshape(2, 3, 4); how = c['layout3d']
        try:
            if how == 'intval_transposed' and nf <= 0:
                x = fx.Fxp((codes * 2 ** (-nf)).transpose(1, 0, 2), s, nw, nf); want = codes.transpose(1, 0, 2)      # (integer value type)
            else:
                x0 = A.mk(fx, np, s, nw, nf, c['codes'], shape=(2, 3, 4))
                if how == 'transpose102' or how == 'intval_transposed': x = x0.transpose((1, 0, 2)); want = codes.transpose(1, 0, 2)
                elif how == 'swapaxes12': x = np.swapaxes(x0, 1, 2); want = np.swapaxes(codes, 1, 2)
                elif how == 'transpose021': x = x0.transpose((0, 2, 1)); want = codes.transpose(0, 2, 1)
                elif how == 'T': x = x0.T; want = codes.T
                else: x = x0[:, [2, 0], :]; want = codes[:, [2, 0], :]
            if not isinstance(x, fx.Fxp) or np.asarray(x.val).shape != want.shape or np.asarray(x.val).astype(object).tolist() != want.astype(object).tolist(): continue
            wl = want.astype(object).reshape(-1).tolist()
            ints = np.asarray(x.astype(int)).astype(object).reshape(-1).tolist()
            vals = [Fraction(float(v)) for v in np.asarray(x.get_val()).reshape(-1).tolist()]
            lt0 = np.asarray(x < 0).reshape(-1).tolist(); eq0 = np.asarray(x == 0).reshape(-1).tolist(); ge1 = np.asarray(x >= 1).reshape(-1).tolist()
        except Exception as e:
            res.fail(c, 'C16: a conversion or comparison of a 3-D object with permuted axes raised %s' % lib.exc_name(e), got=str(e)[:200]); continue
        ev = [Fraction(t) / Fraction(2) ** nf for t in wl]
        res.count('L:3-D-layouts', key=repr(c), nontrivial=True, n=24)
        if ints != [math.floor(v) for v in ev] or vals != ev or lt0 != [v < 0 for v in ev] or eq0 != [v == 0 for v in ev] or ge1 != [v >= 1 for v in ev]:
            res.fail(c, 'C16: astype(int) / get_val() / a comparison of a 3-D object with permuted axes is not about the element at its index', expected=[str(v) for v in ev[:8]], got=(ints[:8], [str(v) for v in vals[:8]], lt0[:8]))

def shard(shard, nshards, rng, tier, extra):
    res = Result()
    run_cmp(cmp_cases(rng, (12000 if tier == 'quick' else 100000) // nshards), res)
    run_conv(conv_cases(rng, tier, shard, nshards), res)
    run_layout(layout_cases(rng, (900 if tier == 'quick' else 8000) // nshards), res)
    run_narrow(narrow_cases(rng, (2400 if tier == 'quick' else 20000) // nshards), res)
    res.exhaustive = True
    return res

def run(seed, tier):
    return run_sharded('c16', 'shard', 16, seed, tier)
def classify(fl): return None
def replay(payload):
    c = payload['case']; res = Result()
    if c.get('f16'): run_narrow([c], res)
    elif c.get('layout3d'): run_layout([c], res)
    elif 'cx' in c: run_cmp([c], res)
    else: run_conv([c], res)
    return {'holds': not res.failures, 'failures': res.failures}
