# c02.py — C02: every produced object is well-formed: codes in range, metadata consistent.
import itertools, math
from fractions import Fraction
import lib, storelib as S, arithlib as A
from lib import Result, model_call, run_sharded, e_fmt, e_list, e_dy, Reader, RMODES, OMODES

RULE = ('random programs of up to 12 public operations over a pool of objects with core-domain formats: construct (values, raw codes, dtype strings, like=), set / call / indexed assignment, resize, like(), + - * with every sizing policy and constants, / // %, '
        'unary minus / abs, shifts in the three modes, ~ & | ^, indexing, sum / cumsum / dot / max / transpose; after every step EVERY live object is checked: codes inside its own range, n_int = n_word - n_frac - sign bit, upper / lower / precision equal to '
        'max code*2^-n_frac / min code*2^-n_frac / 2^-n_frac (through scale and bias when set), dtype string spelling exactly (signed, n_word, n_frac). Saturation side: float inputs up to 1.7e308 and Python integers up to 2^1000 (both signs) into formats with n_frac>=0 '
        'under saturate must store the bound on the input\'s own side (Spec op 4); float scalars, lists and arrays into words of 53..70 bits (the value upper + 1 LSB, multiples of it, the saturating element after an in-range one). Non-trivial = the program performs at least one overflowing or format-changing step; distinct by full program.')
ASSUMPTIONS = ['well-formedness is evaluated on the implementation objects with exact rationals; the NumPy dispatch glue is exercised, not modelled']

def wf(x, np):
    """returns None if well-formed, else a description"""
    s, nw, nf = bool(x.signed), int(x.n_word), int(x.n_frac)
    if nw < 1: return None        # (a zero-bit word - size inference gives fxp-u0/0 to all-zero unsigned values - is no format of the property's domain)
    lo, hi = S.fmt_bounds(s, nw)
    v = np.asarray(x.val)
    if np.iscomplexobj(v):
        # a complex object: both parts of every code inside the range (the limits / dtype string of complex objects are C12's business)
        parts = [t for z in v.reshape(-1).tolist() for t in (z.real, z.imag)]
        if any(not (lo <= p <= hi) or p != int(p) for p in parts): return 'a part of a stored complex code is outside the range of the object\'s own format (or not an integer): %r not in [%d, %d]' % ([p for p in parts if not (lo <= p <= hi) or p != int(p)][:3], lo, hi)
        return None
    codes = [int(t) for t in v.reshape(-1).tolist()]
    if any(not (lo <= c <= hi) for c in codes): return 'a stored code is outside the range of the object\'s own format: %r not in [%d, %d]' % ([c for c in codes if not (lo <= c <= hi)][:3], lo, hi)
    if x.n_int != nw - nf - (1 if s else 0): return 'n_int is not n_word - n_frac - sign bit (%r)' % (x.n_int,)
    want = 'fxp-%s%d/%d' % ('s' if s else 'u', nw, nf)
    if x.dtype != want: return 'the dtype string %r does not spell the format %r' % (x.dtype, want)
    sc = Fraction(x.scale) if x.scale is not None else Fraction(1); bi = Fraction(x.bias) if x.bias is not None else Fraction(0)
    lsb = Fraction(2) ** (-nf)
    try:
        up, low, pr = Fraction(x.upper), Fraction(x.lower), Fraction(x.precision)
    except Exception:
        return 'upper/lower/precision are not finite numbers'
    exp = (sc * hi * lsb + bi, sc * lo * lsb + bi, sc * lsb)
    exact = all(Fraction(float(t)) == t for t in exp) and -1000 < nf < 1000
    if exact and (up, low, pr) != exp: return 'upper/lower/precision are not max code*2^-n_frac, min code*2^-n_frac, 2^-n_frac: %r' % ((str(up), str(low), str(pr)),)
    return None

OPS = ['ctor', 'ctor_raw', 'ctor_dtype', 'ctor_like', 'ctor_like_scaled', 'best_sizes', 'set', 'call', 'setitem', 'resize', 'like', 'add', 'sub', 'mul', 'const', 'div', 'floordiv', 'mod', 'neg', 'abs', 'lshift', 'rshift', 'invert', 'and', 'getitem', 'sum', 'cumsum', 'dot', 'max', 'transpose', 'equal', 'conj', 'resize_rejected', 'minmax_out', 'np_inplace', 'setitem_rejected', 'view_widened']

def A_fmt(z): return (bool(z.signed), int(z.n_word), int(z.n_frac))
def rand_fmt(rng):
    nw = rng.choice([1, 2, 3, 4, 6, 8, 12, 16, 24, 32, rng.randint(1, 40)]); return (rng.random() < 0.6, nw, rng.choice([0, 1, nw // 2, nw - 1, nw, -2, nw + 3, rng.randint(-8, nw + 8)]))
def rand_vals(rng, n):
    return [rng.choice([0.0, 0.5, -0.75, 1.0, 3.25, -8.0, 100.5, -1000.0, 2.0 ** rng.randint(-6, 20), -2.0 ** rng.randint(-6, 20), rng.uniform(-50, 50)]) for _ in range(n)]

def run_program(rng, res, pid):
    fx = lib.impl(); import numpy as np
    log = []; pool = []
    try:
        for _ in range(3):
            s, nw, nf = rand_fmt(rng)
            pool.append(fx.Fxp(rand_vals(rng, 3), s, nw, nf, rounding=rng.choice(RMODES), overflow=rng.choice(OMODES)))
        nontriv = False
        for step in range(rng.randint(3, 12)):
            op = rng.choice(OPS); x = rng.choice(pool); y = rng.choice(pool); new = None
            s, nw, nf = rand_fmt(rng)
            log.append(op)
            try:
                if op == 'ctor': new = fx.Fxp(rand_vals(rng, 3), s, nw, nf, rounding=rng.choice(RMODES), overflow=rng.choice(OMODES))
                elif op == 'ctor_raw':
                    lo, hi = S.fmt_bounds(s, nw); new = fx.Fxp([rng.randint(lo - 5, hi + 5) for _ in range(3)], s, nw, nf, raw=True, overflow=rng.choice(OMODES))
                elif op == 'ctor_dtype': new = fx.Fxp(rand_vals(rng, 3), dtype='fxp-%s%d/%d' % ('s' if s else 'u', nw, nf))
                elif op == 'ctor_like': new = fx.Fxp(rand_vals(rng, 3), like=x)
                elif op == 'ctor_like_scaled':       # the template's sizes with a scale / bias of its own: the limits follow the new map
                    new = fx.Fxp(rand_vals(rng, 3), like=x, scale=rng.choice([2.0, 0.5, 4, 1]), bias=rng.choice([1.0, -0.5, 0, 8])); nontriv = True
                elif op == 'best_sizes':             # sizes inferred again from new values on an object that already has a format
                    x.set_best_sizes(rand_vals(rng, 2), **rng.choice([{}, {'n_frac': rng.choice([0, 2])}, {'n_word': rng.choice([8, 16])}])); nontriv = True
                elif op == 'set': x.set_val(rand_vals(rng, np.asarray(x.val).size or 1) if np.asarray(x.val).ndim else rand_vals(rng, 1)[0])
                elif op == 'call': x(rand_vals(rng, np.asarray(x.val).size or 1) if np.asarray(x.val).ndim else rand_vals(rng, 1)[0])
                elif op == 'setitem':
                    if np.asarray(x.val).ndim > 0 and np.asarray(x.val).size > 0: x[0] = rand_vals(rng, 1)[0]
                elif op == 'resize':
                    k = rng.random(); nontriv = True
                    if k < 0.4: x.resize(s, nw, nf)
                    elif k < 0.6: x.resize(signed=not x.signed)                 # related formats: only the signedness (and maybe the word) changes
                    elif k < 0.8: x.resize(not x.signed, x.n_word + rng.choice([0, 1, 4]), x.n_frac)
                    else: x.resize(dtype='fxp-%s%d/%d' % ('u' if x.signed else 's', x.n_word + rng.choice([0, 0, 2]), x.n_frac))
                elif op == 'like': new = x.like(y)
                elif op in ('add', 'sub', 'mul'):
                    if np.asarray(x.val).shape == np.asarray(y.val).shape:
                        x.config.op_sizing = rng.choice(['optimal', 'same', 'largest', 'smallest'])
                        new = x + y if op == 'add' else (x - y if op == 'sub' else x * y)
                        x.config.op_sizing = 'optimal'; nontriv = True
                elif op == 'const': new = rng.choice([lambda: x + 1.5, lambda: 2 - x, lambda: x * 0.25, lambda: x - 3])()
                elif op in ('div', 'floordiv', 'mod'):
                    if np.asarray(x.val).shape == np.asarray(y.val).shape and not np.any(np.asarray(y.val) == 0) and x.n_word + y.n_word <= 50 and min(x.n_frac, y.n_frac) >= 0:
                        new = x / y if op == 'div' else (x // y if op == 'floordiv' else x % y)
                elif op == 'neg': new = -x
                elif op == 'abs': new = abs(x)
                elif op in ('lshift', 'rshift'):
                    if x.n_word <= 40:
                        x.config.shifting = rng.choice(['expand', 'trunc', 'keep']); k = rng.randint(0, 5)
                        new = (x << k) if op == 'lshift' else (x >> k); x.config.shifting = 'expand'
                elif op == 'invert': new = ~x
                elif op == 'and': new = rng.choice([lambda: x & 5, lambda: x | 2, lambda: x ^ 7])() if np.asarray(x.val).ndim == 0 else None
                elif op == 'getitem':
                    if np.asarray(x.val).ndim > 0 and np.asarray(x.val).size > 0: new = x[0]
                elif op == 'sum': new = np.sum(x) if np.asarray(x.val).ndim > 0 and x.n_word <= 40 else None
                elif op == 'cumsum': new = np.cumsum(x) if np.asarray(x.val).ndim > 0 and x.n_word <= 40 else None
                elif op == 'dot':
                    if np.asarray(x.val).ndim == 1 and np.asarray(x.val).shape == np.asarray(y.val).shape and x.n_word + y.n_word <= 50: new = np.dot(x, y)
                elif op == 'max': new = np.max(x) if np.asarray(x.val).ndim > 0 else None
                elif op == 'transpose': new = np.transpose(x) if np.asarray(x.val).ndim > 0 else None
                elif op == 'equal':
                    if np.asarray(x.val).shape == np.asarray(y.val).shape: x.equal(y)
                elif op == 'conj':
                    # the conjugate of a REAL object (also of 54 bits and more, codes at the bounds) is that object's value again: real, same codes
                    nww = rng.choice([8, 16, 54, 60, 63, 64, 72]); sw = rng.random() < 0.6; lo_, hi_ = S.fmt_bounds(sw, nww)
                    w = fx.Fxp(rng.choice([hi_, lo_, hi_ - 1, rng.randint(lo_, hi_)]), sw, nww, rng.choice([0, nww - 1, nww // 2]), raw=True)
                    if nww <= 16 and sw and rng.random() < 0.5:
                        # a complex object whose imaginary code is the lowest one (reached by saturation) or a random one: the conjugate is well-formed
                        # too (the negated lowest code does not exist: it is clamped or wrapped like any other result), and exact otherwise
                        nfw = rng.choice([0, nww // 2]); im = rng.choice([lo_, lo_, lo_ + 1, rng.randint(lo_, hi_)])
                        w = fx.Fxp(complex(rng.randint(lo_, hi_), im) * 2.0 ** -nfw, sw, nww, nfw, overflow=rng.choice(OMODES))
                        new = rng.choice([lambda: np.conj(w), lambda: w.conj()])(); nontriv = True
                        wc = np.asarray(w.val).reshape(-1).tolist()[0]; nc = np.asarray(new.val).reshape(-1).tolist()[0]
                        if wf(new, np) or (im != lo_ and (nc.real, nc.imag) != (wc.real, -wc.imag)):
                            res.fail({'program': pid, 'log': log, 'object': -1, 'fmt': A_fmt(w), 'code': [wc.real, wc.imag]}, 'C02: the conjugate of a complex object is not well-formed / not the conjugate', expected=(wc.real, -wc.imag), got=(wf(new, np), nc.real, nc.imag)); return
                        continue
                    new = rng.choice([lambda: np.conj(w), lambda: np.conjugate(w), lambda: w.conj()])(); nontriv = True
                    if np.iscomplexobj(new.val) or lib.codes_of(new) != lib.codes_of(w) or A_fmt(new) != A_fmt(w):
                        res.fail({'program': pid, 'log': log, 'object': -1, 'fmt': A_fmt(w), 'code': lib.codes_of(w)}, 'C02: the conjugate of a real object is not that value again in the same format (real codes inside the range)', expected=(A_fmt(w), lib.codes_of(w)), got=(A_fmt(new), repr(new.val)[:80])); return
                    new = None       # (not added to the pool: its word may be wider than the pool's formats, whose limits are compared as doubles)
                elif op == 'minmax_out':
                    # the extreme of an array stored through out= into an object of the same sizes and the OTHER signedness (or one bit narrower)
                    if np.asarray(x.val).ndim > 0 and not np.iscomplexobj(x.val) and 2 <= x.n_word <= 40:
                        o_ = fx.Fxp(0, not x.signed, max(1, x.n_word - rng.choice([0, 0, 1])), x.n_frac, overflow=rng.choice(OMODES))
                        new = rng.choice([lambda: np.min(x, out=o_), lambda: np.max(x, out=o_), lambda: x.min(out=o_), lambda: x.max(out=o_)])(); nontriv = True
                elif op == 'np_inplace':
                    # NumPy functions that write in place (np.put, np.add.at, np.copyto) applied to the object, and writes into the plain array a reading
                    # returned (x(), get_val(), astype(), np.asarray(x)): the object stays well-formed (integer-valued objects with n_frac = 0 too)
                    sw = rng.random() < 0.6; nww = rng.choice([4, 8, 12, 16]); lo_, hi_ = S.fmt_bounds(sw, nww); big = rng.choice([hi_ + 1000, 10 ** 6, -(10 ** 6) if sw else 10 ** 7])
                    w = rng.choice([lambda: fx.Fxp([1, 2, 3], sw, nww, 0), lambda: fx.Fxp([1.0, 2.0, 3.0], sw, nww, 0), lambda: fx.Fxp([1, 2, 3], sw, nww, 2), lambda: fx.Fxp(np.array([1, 2, 3], dtype=np.int64), sw, nww, 0, overflow='wrap')])()
                    how = rng.choice(['put', 'add_at', 'copyto', 'call', 'get_val', 'astype_int', 'asarray', 'array', 'get_val_index', 'astype_index', 'get_val_ellipsis'])
                    try:
                        if how == 'put': np.put(w, [0], big)
                        elif how == 'add_at': np.add.at(w, [0], big)
                        elif how == 'copyto': np.copyto(w, [big, big, big])
                        elif how == 'call': a_ = w(); a_[0] = big
                        elif how == 'get_val': a_ = w.get_val(); a_[0] = big
                        elif how == 'astype_int': a_ = w.astype(int); a_[0] = big
                        elif how == 'asarray': a_ = np.asarray(w); a_[0] = big
                        elif how == 'get_val_index': a_ = w.get_val(index=slice(0, 2)); a_[0] = big      # (a selection read through the index= keyword)
                        elif how == 'astype_index': a_ = w.astype(int, index=slice(None)); a_[1] = big
                        elif how == 'get_val_ellipsis': a_ = w.get_val(index=Ellipsis); a_[2] = big
                        else: a_ = np.array(w, copy=False); a_[0] = big
                    except Exception: pass
                    nontriv = True; why = wf(w, np)
                    if why:
                        res.fail({'program': pid, 'log': log, 'object': -1, 'fmt': A_fmt(w), 'how': how}, 'C02: after %s (an in-place NumPy function on the object, or a write into the array a reading returned) an object is not well-formed' % how, got=why); return
                elif op == 'view_widened':
                    # a sub-array taken by slicing is RESIZED to a wider word (same sign and fraction) and written: what it stores then is its own
                    # matter - the parent keeps codes of its own format (and the other way round: the parent widened, the sub-array taken before)
                    sw = rng.random() < 0.6; nww = rng.choice([6, 8, 12, 64]); nfw = rng.choice([0, 2]); lo_, hi_ = S.fmt_bounds(sw, nww)
                    p_ = fx.Fxp([1, 2, 3, hi_], sw, nww, nfw, raw=True, overflow=rng.choice(OMODES)); v_ = p_[0:2]
                    big_ = (hi_ + 1) * 37
                    if rng.random() < 0.5: v_.resize(n_word=nww + rng.choice([4, 8, 16])); v_.set_val(big_, raw=True, index=0)
                    else: p_.resize(n_word=nww + rng.choice([4, 8, 16])); p_.set_val(big_, raw=True, index=1)
                    nontriv = True
                    for o_ in (p_, v_):
                        why = wf(o_, np)
                        if why:
                            res.fail({'program': pid, 'log': log, 'object': -1, 'fmt': A_fmt(o_)}, 'C02: after a sub-array (or its parent) was widened by resize and written, the other one holds codes outside its own format', got=why); return
                elif op == 'setitem_rejected':
                    # an indexed write that is rejected (a sequence that does not fit the selection; real or complex) leaves the object as it was
                    if x.n_word >= 1 and np.asarray(x.val).ndim == 1 and np.asarray(x.val).size >= 2 and not np.iscomplexobj(x.val):
                        before = (A_fmt(x), lib.codes_of(x), x.dtype, str(x.vdtype))
                        bad_ = rng.choice([[1j, 2j, 3j, 4j, 5j], [0.5, 0.25, 1.0, 2.0, 3.0, 1.0, 1.0], [1 + 1j] * 7])
                        try: x[0:2] = bad_; rejected = False
                        except ValueError: rejected = True
                        after = (A_fmt(x), lib.codes_of(x) if not np.iscomplexobj(x.val) else 'complex buffer', x.dtype, str(x.vdtype))
                        if rejected and after != before:
                            res.fail({'program': pid, 'log': log, 'object': pool.index(x), 'fmt': before[0]}, 'C02: a rejected indexed write (ValueError) left the object half-updated', expected=before, got=after); return
                elif op == 'resize_rejected':
                    # a resize that is rejected (dtype= together with another size parameter) leaves the object as it was
                    if x.n_word < 1: continue      # (a zero-bit word - what size inference gives to all-zero unsigned values - is outside every quantifier)
                    before = (A_fmt(x), lib.codes_of(x) if not np.iscomplexobj(x.val) else None, x.dtype)
                    try:
                        if rng.random() < 0.5: x.resize(signed=not x.signed, dtype='fxp-%s%d/%d' % ('u' if x.signed else 's', x.n_word, x.n_frac))
                        else: x.resize(signed=rng.choice([2, 3, -1, 7]))       # (an integer that is neither 0 nor 1: accepted by its truth value, or rejected - never half of each)
                        rejected = False
                    except ValueError: rejected = True
                    after = (A_fmt(x), lib.codes_of(x) if not np.iscomplexobj(x.val) else None, x.dtype)
                    if rejected and after != before:
                        res.fail({'program': pid, 'log': log, 'object': pool.index(x), 'fmt': before[0]}, 'C02: a rejected resize (ValueError) left the object half-updated', expected=before, got=after); return
            except (ValueError, TypeError, OverflowError, ZeroDivisionError) as e:
                # operations outside their documented domain (e.g. signed result into unsigned out) are not part of this property
                log[-1] = op + ':raised-' + type(e).__name__
                continue
            if isinstance(new, fx.Fxp): pool.append(new)
            for k, o in enumerate(pool):
                why = wf(o, np)
                if why:
                    res.fail({'program': pid, 'log': log, 'object': k, 'fmt': (bool(o.signed), int(o.n_word), int(o.n_frac))}, 'C02: after %s an object is not well-formed' % op.split(':')[0], got=why); return
        res.count('P:programs', key=repr((pid, log)), nontrivial=nontriv, n=len(log))
        res.sample({'log': log})
    except Exception as e:
        import traceback
        res.fail({'program': pid, 'log': log}, 'C02: a program raised %s' % lib.exc_name(e), got=traceback.format_exc()[-500:])

def saturation(rng, n_cases, res):
    gen = []
    for _ in range(n_cases):
        nw = rng.choice([1, 2, 4, 8, 16, 31, 32, 33, 48, 52, rng.randint(1, 52)]); s = rng.random() < 0.6; nf = rng.choice([0, 1, nw // 2, nw, nw + 3, rng.randint(0, nw + 8)])
        lo, hi = S.fmt_bounds(s, nw)
        if rng.random() < 0.5:
            v = rng.choice([1, -1]) * rng.choice([2.0 ** 53, 2.0 ** 62, 2.0 ** 63, 2.0 ** 64, 2.0 ** 65, 1e30, 1e100, 1.7e308, 2.0 ** 1023, float(hi) / 2.0 ** nf * 1.5 + 1, rng.uniform(1, 2) * 2.0 ** rng.randint(0, 1023)])
        else:
            v = rng.choice([1, -1]) * rng.choice([2 ** 62, 2 ** 63, 2 ** 63 - 1, 2 ** 64, 2 ** 64 - 1, 2 ** 65, 2 ** 100, 2 ** 1000, (hi >> max(nf, 0)) + 1 + rng.getrandbits(rng.randint(1, 200))])
        c = {'s': s, 'nw': nw, 'nf': nf, 'r': rng.choice(RMODES), 'v': v, 'route': rng.choice(['ctor', 'call', 'set_val'])}
        # the same integer held by a NumPy uint64 / int64 scalar or array, or read from another fixed-point object (x() of an
        # unsigned integer object is a uint64 array): the library's own outputs are inputs too
        if isinstance(v, int) and rng.random() < 0.4:
            if 0 <= v < 2**64: c['carrier'] = rng.choice(['np.uint64', 'arr.uint64', 'fxp.getval'])
            elif -2**63 <= v < 0: c['carrier'] = rng.choice(['np.int64', 'arr.int64'])
        if isinstance(v, int) and rng.random() < 0.2:
            c['bias'] = rng.choice([1, -1, 8, -8, 1000]); c['scale'] = rng.choice([1, 1, 2])      # (a scaled object with integer scale and bias: the side is that of (v - bias)/scale)
        gen.append(c)
    # words of 53..70 bits (formats with n_frac >= 0 beyond the core domain): a bound of more than 53 bits is not a float64, so the
    # comparison with it and the clamp must not be done in floats; the saturating element alone, and after an in-range element
    for _ in range(n_cases // 5):
        nw = rng.choice([53, 54, 55, 56, 60, 62, 63, 64, 65, 70]); s = rng.random() < 0.6; nf = rng.choice([0, 0, 1, nw // 2, nw - 1, nw])
        lo, hi = S.fmt_bounds(s, nw)
        up = float(Fraction(hi + 1) / Fraction(2) ** nf)             # upper + 1 LSB: a power of two, the first value out of range
        v = rng.choice([up, up, up * 2, up * 1.5, up * (1 + 2.0 ** -30), up * 2.0 ** 20, 1e300]) * (1 if not s else rng.choice([1, 1, -1]))
        if v < 0: v = rng.choice([v * (1 + 2.0 ** -40), v * 2, v * 3, -1e300])      # (the lower bound itself, -up, is in range)
        gen.append({'s': s, 'nw': nw, 'nf': nf, 'r': rng.choice(RMODES), 'v': v, 'route': rng.choice(['ctor', 'call', 'set_val']),
                    'carrier': rng.choice(['float', 'list2', 'list2', 'arr2', 'list1'])})
    run_sat_cases(gen, res)

def run_sat_cases(gen, res):
    fx = lib.impl()
    cases = []; reqs = []
    for c in gen:
        c = dict(c); s, nw, nf, v = c['s'], c['nw'], c['nf'], c['v']
        import numpy as np
        car = c.get('carrier'); v_in = v
        if car == 'np.uint64': v_in = np.uint64(v)
        elif car == 'arr.uint64': v_in = np.array([v], dtype=np.uint64)
        elif car == 'np.int64': v_in = np.int64(v)
        elif car == 'arr.int64': v_in = np.array([v], dtype=np.int64)
        elif car == 'fxp.getval': v_in = fx.Fxp(v, False, 64, 0)()
        elif car == 'list2': v_in = [0.0, v]            # (an in-range element first: the array stays a float array)
        elif car == 'arr2': v_in = np.array([0.0, v])
        elif car == 'list1': v_in = [v]
        skw = {'scale': c['scale'], 'bias': c['bias']} if 'bias' in c else {}
        try:
            if c['route'] == 'ctor': x = fx.Fxp(v_in, s, nw, nf, rounding=c['r'], overflow='saturate', **skw)
            else:
                x = fx.Fxp(None, s, nw, nf, rounding=c['r'], overflow='saturate', **skw); x.reset()
                (x if c['route'] == 'call' else x.set_val)(v_in)
            c['_got'] = (lib.codes_of(x)[-1], lib.status3(x)[:2])
        except Exception as e:
            res.fail({k: (repr(t) if isinstance(t, float) else t) for k, t in c.items()}, 'C02: storing an out-of-range value under saturate raised %s' % lib.exc_name(e), got=str(e)[:200]); continue
        t = (Fraction(v) - c['bias']) / c['scale'] if 'bias' in c else Fraction(v)
        if t.denominator & (t.denominator - 1): continue
        cases.append(c); reqs.append([4] + e_fmt(s, nw, nf) + [RMODES.index(c['r']), 0] + e_list([t], e_dy))
        # float inputs also go through the model of set_val (theorem C02_saturate_side_float_any_width speaks about it): the same array
        c['_model'] = isinstance(v, float) and 'bias' not in c
        if c['_model']:
            fl = [0.0, v] if car in ('list2', 'arr2') else [v]
            arr, vd = S.model_arr_enc('f', fl)
            reqs.append([10] + e_fmt(s, nw, nf) + [RMODES.index(c['r']), 0, 0] + arr + [vd])
    outs = model_call(reqs); oi = 0
    for c in cases:
        out = outs[oi]; oi += 1
        mo = None
        if c.pop('_model'): mo = S.read_model_store(outs[oi]); oi += 1
        rd = Reader(out); want = rd.lst(rd.z)[0]; so, su = rd.b(), rd.b()
        got, st = c.pop('_got')
        lo, hi = S.fmt_bounds(c['s'], c['nw'])
        jc = {k: (repr(t) if isinstance(t, float) else t) for k, t in c.items()}
        res.count('S:saturation-side', key=repr(jc), nontrivial=True)
        if got != want:
            res.fail(jc, 'C02: an out-of-range input under saturate is not stored as the bound on its own side', expected=want, got=got); continue
        if st != (so, su):
            res.fail(jc, 'C02: overflow/underflow flag of a saturated store is on the wrong side', expected=(so, su), got=st); continue
        if mo is not None and (mo['kind'] != 'ok' or mo['codes'][-1] != got or mo['status'][:2] != st):
            res.fail(jc, 'model Store.set_val_real disagrees with the implementation although the Spec agrees (float saturation)', expected=str(mo)[:200], got=(got, st))
            res.failures[-1]['no_input'] = True

def shard(shard, nshards, rng, tier, extra):
    res = Result()
    import random
    for p in range((3600 if tier == 'quick' else 30000) // nshards):
        pseed = rng.getrandbits(62)                   # every program has its own generator, so that it can be replayed alone
        run_program(random.Random(pseed), res, pseed)
    saturation(rng, (7500 if tier == 'quick' else 60000) // nshards, res)
    return res

def run(seed, tier):
    return run_sharded('c02', 'shard', 16, seed, tier)
def classify(fl): return None
def replay(payload):
    import random
    res = Result(); c = payload['case']
    if 'program' in c: run_program(random.Random(c['program']), res, c['program'])
    elif 'v' in c:
        c = dict(c)
        if isinstance(c['v'], str): c['v'] = float(c['v'])       # floats travel as their repr
        run_sat_cases([c], res)
    return {'holds': not res.failures, 'failures': res.failures}
