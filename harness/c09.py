# c09.py — C09: division family: quotient within one LSB, exact floor-division and modulo.
import itertools, math
from fractions import Fraction
import lib, storelib as S, arithlib as A
from lib import Result, RMODES, OMODES, model_call, run_sharded, e_fmt, Reader

RULE = ('every pair of operand formats with n_word<=3 (quick) / <=5 (thorough), every code pair with divisor != 0, n_frac 0..n_word, rounding in {trunc, floor, around}, methods raw and repr, the operands presented as two scalars, an array against a scalar (either side), two arrays, or an array against an element obtained by indexing; '
        'random format pairs with result word <=53 bits, extreme and random codes; operands up to 62 bits whose // and % result words are within 53 bits (x/y checked when its own word is). Checked on the implementation output with exact rationals: x/y exact when representable else one of the two '
        'neighbours (error < 1 LSB), no overflow with optimal sizing, x//y = floor(x/y), x%y = x - y*floor(x/y) with the divisor\'s sign, (x//y)*y + x%y == x, raw and repr agree on // and %; '
        'result formats against the extracted Spec; (D) x/y into an imposed format (sizing same / largest / smallest, plain-number divisors under the default configuration) when the quotient lies inside it: exact or neighbour, no flag; (E) // and % for formats with n_word<=5 whose fraction length is negative or exceeds the word. Non-trivial = the quotient is not an integer multiple of the result LSB; distinct by formats, codes, method, rounding.')
ASSUMPTIONS = ['real operands, divisor != 0']

def fmts_small(nwmax):
    return [(s, nw, nf) for s in (True, False) for nw in range(1, nwmax + 1) for nf in range(0, nw + 1)]

def wq_of(fxm, fym):
    s = fxm[0] or fym[0]
    return (1 if s else 0) + A.n_int_of(*fxm) + fym[2] + (1 if s else 0) + fxm[2] + A.n_int_of(*fym)
def wfl_of(fxm, fym):
    s = fxm[0] or fym[0]
    return (1 if s else 0) + A.n_int_of(*fxm) + fym[2] + (1 if s else 0)
def wmod_of(fxm, fym):
    s = fxm[0] or fym[0]; nix, niy = A.n_int_of(*fxm), A.n_int_of(*fym)
    return (1 if s else 0) + (max(nix, niy) if s else min(nix, niy)) + max(fxm[2], fym[2])

def run_cases(cases, res, stratum):
    """case: (fxm, cx, fym, cy, method, rounding)"""
    fx = lib.impl(); import numpy as np
    pend = []; reqs = []
    for ci, tup in enumerate(cases):
        (fxm, cx, fym, cy, method, rnd) = tup[:6]
        # how the operands present themselves: two scalars, an array against a scalar (either side), two arrays, an array against an element
        # obtained by indexing; the checked pair sits at position 0 of the result (the other positions hold a harmless second pair)
        lay = tup[6] if len(tup) > 6 else ('ss', 'ss', 'ss', 'as', 'sa', 'aa', 'ai')[(ci * 7 + cx + cy) % 7]
        case = {'x': list(fxm), 'cx': cx, 'y': list(fym), 'cy': cy, 'method': method, 'rounding': rnd, 'layout': lay}
        tmpl = tup[7] if len(tup) > 7 else None
        if tmpl: case['template'] = tmpl
        try:
            if tmpl: fx.Fxp.template = fx.Fxp(None, dtype=tmpl)       # a class-wide template (plain format): the results are sized by the operands, not by it
            x = A.mk(fx, np, *fxm, [cx, cx] if lay[0] == 'a' else cx, shape=(2,) if lay[0] == 'a' else None, rounding=rnd, op_method=method)
            y = A.mk(fx, np, *fym, [cy, cy] if lay[1] in 'ai' else cy, shape=(2,) if lay[1] in 'ai' else None, rounding=rnd, op_method=method)
            if lay[1] == 'i': y = y[0]
            md = x % y if 1 <= wmod_of(fxm, fym) <= 53 else None
            fl = x // y if 1 <= wfl_of(fxm, fym) <= 53 else None
            q = x / y if (wq_of(fxm, fym) <= 53 and fl is not None) else None      # (x/y only when ITS result word is within the domain)
            rec = fl * y + md if (fl is not None and md is not None and x.n_word + y.n_word <= 40) else None
            obs = {'q': (A.fmt_of(q), lib.codes_of(q)[0], lib.status3(q)) if q is not None else None, 'fl': (A.fmt_of(fl), lib.codes_of(fl)[0], lib.status3(fl)) if fl is not None else None,
                   'md': (A.fmt_of(md), lib.codes_of(md)[0], lib.status3(md)) if md is not None else None, 'rec': (Fraction(lib.codes_of(rec)[0]) / Fraction(2) ** rec.n_frac) if rec is not None else None}
        except Exception as e:
            res.fail(case, 'C09: division family raised %s' % lib.exc_name(e), got=str(e)[:200]); continue
        finally:
            fx.Fxp.template = None
        pend.append((case, obs)); reqs.append([43] + e_fmt(*fxm) + [cx] + e_fmt(*fym) + [cy])
        for d in (0, 1, 2):
            reqs.append([44, d, 0 if method == 'raw' else 1] + e_fmt(*fxm) + [1, cx] + e_fmt(*fym) + [1, cy] + [RMODES.index(rnd), 0])
    allouts = model_call(reqs)
    outs = allouts[0::4]
    for pi, ((case, obs), out) in enumerate(zip(pend, outs)):
        rd = Reader(out)
        gq = (rd.b(), rd.z(), rd.z()); zf = rd.z(); exact = rd.b()
        gf = (rd.b(), rd.z(), rd.z()); zfl = rd.z()
        gm = (rd.b(), rd.z(), rd.z()); zm = rd.z()
        xv = Fraction(case['cx']) / Fraction(2) ** case['x'][2]; yv = Fraction(case['cy']) / Fraction(2) ** case['y'][2]
        qv = xv / yv
        res.count(stratum, key=repr(case), nontrivial=not exact)
        res.sample(case)
        (fm, cm, sm) = obs['md'] if obs['md'] is not None else (gm, zm, (False, False, False))
        (ffl, cfl, sfl) = obs['fl'] if obs['fl'] is not None else (gf, zfl, (False, False, False))
        (fq, cq, sq) = obs['q'] if obs['q'] is not None else (gq, zf, (False, False, False))
        if obs['rec'] is None: obs['rec'] = xv
        if fq != gq or ffl != gf or fm != gm:
            res.fail(case, 'C09: result format of / // % differs from the optimal-size rule', expected=(gq, gf, gm), got=(fq, ffl, fm)); continue
        # true division: exact if representable, else one of the two neighbours; never overflows
        lsb = Fraction(2) ** (-fq[2]); got_q = cq * lsb
        if exact and cq != zf:
            res.fail(case, 'C09: x/y is representable in the result format but was not returned exactly', expected=zf, got=cq); continue
        if cq not in (zf, zf + 1) or abs(got_q - qv) >= lsb:
            res.fail(case, 'C09: x/y is not one of the two representable neighbours of the exact quotient', expected=[zf, zf + 1], got=cq); continue
        if sq[0] or sq[1]:
            res.fail(case, 'C09: x/y with optimal sizing raised an overflow/underflow flag', got=sq); continue
        # floor division and modulo: exact
        fval = Fraction(cfl) / Fraction(2) ** ffl[2]; mval = Fraction(cm) / Fraction(2) ** fm[2]
        if cfl != zfl or fval != math.floor(qv) or sfl[0] or sfl[1]:
            res.fail(case, 'C09: x//y is not floor(x/y)', expected=math.floor(qv), got=(str(fval), sfl)); continue
        want_m = xv - yv * math.floor(qv)
        if cm != zm or mval != want_m or sm[0] or sm[1]:
            res.fail(case, 'C09: x%y is not x - y*floor(x/y)', expected=str(want_m), got=(str(mval), sm)); continue
        if want_m != 0 and (want_m > 0) != (yv > 0):
            res.fail(case, 'C09: oracle inconsistency (sign of modulo)'); continue
        if obs['rec'] != xv:
            res.fail(case, 'C09: (x//y)*y + x%y does not reproduce x', expected=str(xv), got=str(obs['rec'])); continue
        for d, key in ((0, 'q'), (1, 'fl'), (2, 'md')):
            if obs[key] is None: continue
            mo = S.read_model_store(allouts[4 * pi + 1 + d])
            if mo['kind'] != 'ok' or mo['codes'] != [obs[key][1]] or mo['status'][:2] != obs[key][2][:2]:
                res.fail(case, 'model Div.div_%s disagrees with the implementation although the property holds (%s)' % (case['method'], key), expected=str(mo)[:160], got=obs[key][1])
                res.failures[-1]['no_input'] = True; break

def odd_cases(rng, n):
    """operand formats whose fraction length is negative or exceeds the word (so that the optimal result of // may need no
    magnitude bit at all): x // y = floor, x % y, reconstruction"""
    cases = []
    while len(cases) < n:
        def f():
            nw = rng.randint(1, 5); return (rng.random() < 0.6, nw, rng.choice([-3, -2, -1, nw + 1, nw + 2, nw + 4, rng.randint(0, nw)]))
        fxm, fym = f(), f()
        lx, hx = S.fmt_bounds(fxm[0], fxm[1]); ly, hy = S.fmt_bounds(fym[0], fym[1])
        cx, cy = rng.randint(lx, hx), rng.randint(ly, hy)
        if cy == 0: continue
        cases.append({'odd': True, 'x': list(fxm), 'cx': cx, 'y': list(fym), 'cy': cy})
        if rng.random() < 0.35:
            # strongly negative fraction lengths (the values reach 2^63 and beyond while the words stay narrow), operands built from integer
            # VALUES (their value type is int), by either method
            def g():
                nw = rng.randint(2, 12); return (rng.random() < 0.6, nw, -rng.choice([50, 52, 56, 58, 60, 62, rng.randint(40, 62)]))
            fxm, fym = g(), g()
            lx, hx = S.fmt_bounds(fxm[0], fxm[1]); ly, hy = S.fmt_bounds(fym[0], fym[1])
            cx, cy = rng.choice([hx, lx, hx - 1, rng.randint(lx, hx)]), rng.choice([hy, ly, 1, rng.randint(ly, hy)])
            if cy != 0: cases.append({'odd': True, 'x': list(fxm), 'cx': cx, 'y': list(fym), 'cy': cy, 'intval': True, 'method': rng.choice(['raw', 'repr'])})
    return cases

def run_odd(cases, res):
    fx = lib.impl(); import numpy as np
    for c in cases:
        fxm, fym = tuple(c['x']), tuple(c['y'])
        xv = Fraction(c['cx']) / Fraction(2) ** fxm[2]; yv = Fraction(c['cy']) / Fraction(2) ** fym[2]
        try:
            x = A.mk(fx, np, *fxm, c['cx']); y = A.mk(fx, np, *fym, c['cy'])
            if c.get('intval'):
                x = fx.Fxp(c['cx'] << -fxm[2], *fxm, op_method=c['method']); y = fx.Fxp(c['cy'] << -fym[2], *fym, op_method=c['method'])
            fl = x // y; md = x % y
            got = (Fraction(lib.codes_of(fl)[0]) / Fraction(2) ** fl.n_frac, lib.status3(fl)[:2], Fraction(lib.codes_of(md)[0]) / Fraction(2) ** md.n_frac, lib.status3(md)[:2], int(fl.n_word), int(md.n_word))
        except Exception as e:
            res.fail(c, 'C09: // or %% of operands with an unusual fraction length raised %s' % lib.exc_name(e), got=str(e)[:200]); continue
        res.count('E:unusual-fraction-lengths', key=repr(c), nontrivial=True)
        res.sample(c)
        want_fl = math.floor(xv / yv); want_md = xv - yv * want_fl
        if got[4] > 53 or got[5] > 53: continue
        if got[0] != want_fl or got[1] != (False, False):
            res.fail(c, 'C09: x//y is not floor(x/y) (unusual fraction lengths)', expected=want_fl, got=(str(got[0]), got[1])); continue
        if got[2] != want_md or got[3] != (False, False):
            res.fail(c, 'C09: x%y is not x - y*floor(x/y) (unusual fraction lengths)', expected=str(want_md), got=(str(got[2]), got[3])); continue

def imposed_cases(rng, n):
    """x / y into an imposed result format: sizing same / largest / smallest, or a plain-number divisor under the default
    configuration (the divisor becomes a constant in x's format and the result keeps x's format)"""
    cases = []
    while len(cases) < n:
        def f():
            # (non-negative integer length, as in C08's quantifier: 'smallest' of a format with n_int = -1 and one with n_frac = 0 is an empty word)
            nw = rng.choice([4, 8, 12, 16, 24, 32, 40, 48, rng.randint(2, 52)]); sg = rng.random() < 0.6
            return (sg, nw, min(rng.choice([0, 1, nw // 2, nw - 2, nw - 1, rng.randint(0, nw)]), nw - (1 if sg else 0)))
        fxm = f(); fym = f() if rng.random() < 0.5 else fxm
        sizing = rng.choice(['same', 'largest', 'smallest'])
        cx = A.interesting_codes(rng, fxm[0], fxm[1], 1)[0]; cy = A.interesting_codes(rng, fym[0], fym[1], 1)[0]
        if rng.random() < 0.5:       # small divisors / dividends: quotients that stay inside the imposed format
            ly, hy = S.fmt_bounds(fym[0], fym[1]); cy = max(ly, min(hy, rng.choice([1, 2, 3, -1, -2, 5, 1 << max(fym[2], 0), 1 << max(fym[2] - 1, 0), 3 << max(fym[2] - 1, 0)])))
        if cy == 0: continue
        c = {'x': list(fxm), 'cx': cx, 'y': list(fym), 'cy': cy, 'sizing': sizing, 'const': None}
        if rng.random() < 0.3:
            k = rng.choice([2, 3, 4, -2, 0.5, 0.25, 1.5, 8, -0.75]); c['const'] = k; c['y'] = list(fxm); c['sizing'] = 'same'
        cases.append(c)
    return cases

def run_imposed(cases, res):
    import c08
    fx = lib.impl(); import numpy as np
    for c in cases:
        fxm, fym = tuple(c['x']), tuple(c['y'])
        try:
            x = A.mk(fx, np, *fxm, c['cx'])
            if c['const'] is not None:
                yk = fx.Fxp(c['const'], like=x); cy = lib.codes_of(yk)[0]      # the constant in x's format (op_input_size='same')
                if cy == 0: continue
                z = x / c['const']
            else:
                y = A.mk(fx, np, *fym, c['cy']); cy = c['cy']
                x.config.op_sizing = c['sizing']; z = x / y
            got = (A.fmt_of(z), lib.codes_of(z)[0], lib.status3(z))
        except Exception as e:
            res.fail(c, 'C09: x/y into an imposed format raised %s' % lib.exc_name(e), got=str(e)[:200]); continue
        ft = c08.sizing_fmt(c['sizing'], '/', fxm, fym)
        if ft is None or not (1 <= ft[1] <= 53): continue
        qv = (Fraction(c['cx']) / Fraction(2) ** fxm[2]) / (Fraction(cy) / Fraction(2) ** fym[2])
        t = qv * Fraction(2) ** ft[2]; zf = math.floor(t); lo, hi = S.fmt_bounds(ft[0], ft[1])
        if not (lo <= zf and zf + 1 <= hi): continue          # (a quotient outside the imposed format is an overflow case: C01)
        res.count('D:imposed-result-format', key=repr(c), nontrivial=t.denominator != 1)
        res.sample(c)
        if got[0] != ft:
            res.fail(c, 'C09: x/y with an imposed sizing does not have the imposed format', expected=ft, got=got[0]); continue
        if (t.denominator == 1 and got[1] != t) or got[1] not in (zf, zf + 1):
            res.fail(c, 'C09: x/y into an imposed format is neither exact nor one of the two representable neighbours of the exact quotient', expected=[zf, zf + 1], got=got[1]); continue
        if got[2][0] or got[2][1]:
            res.fail(c, 'C09: x/y into an imposed format that holds the quotient raised an overflow/underflow flag', got=got[2]); continue
        mo = S.read_model_store(model_call([[45, 0, 0] + e_fmt(*fxm) + [1, c['cx']] + e_fmt(*fym) + [1, cy] + e_fmt(*ft) + [0, 0]])[0])
        if mo['kind'] != 'ok' or mo['codes'] != [got[1]] or mo['status'][:2] != got[2][:2]:
            res.fail(c, 'model Div.div_raw (imposed format) disagrees with the implementation although the property holds', expected=str(mo)[:160], got=got[1])
            res.failures[-1]['no_input'] = True

def shard(shard, nshards, rng, tier, extra):
    res = Result()
    fmts = fmts_small(3 if tier == 'quick' else 5)
    cases = []; idx = 0
    for fxm in fmts:
        for fym in fmts:
            idx += 1
            if idx % nshards != shard: continue
            lx, hx = S.fmt_bounds(fxm[0], fxm[1]); ly, hy = S.fmt_bounds(fym[0], fym[1])
            for mi, (method, rnd) in enumerate(itertools.product(['raw', 'repr'], ['trunc', 'floor', 'around'])):
                if tier == 'quick' and (idx + mi) % 3: continue
                for cx in range(lx, hx + 1):
                    for cy in range(ly, hy + 1):
                        if cy == 0: continue
                        cases.append((fxm, cx, fym, cy, method, rnd))
    run_cases(cases, res, 'A:all-code-pairs-small')
    cases = []
    n = (7500 if tier == 'quick' else 60000) // nshards
    while len(cases) < n:
        def f():
            nw = rng.choice([2, 4, 6, 8, 10, 12, 16, 20, 24, rng.randint(1, 26)]); return (rng.random() < 0.6, nw, rng.randint(0, nw))
        fxm, fym = f(), f()
        s = fxm[0] or fym[0]
        nix, niy = A.n_int_of(*fxm), A.n_int_of(*fym)
        wq = (1 if s else 0) + nix + fym[2] + (1 if s else 0) + fxm[2] + niy
        if wq > 53 or wq < 1: continue
        cx = A.interesting_codes(rng, fxm[0], fxm[1], 1)[0]; cy = A.interesting_codes(rng, fym[0], fym[1], 1)[0]
        if cy == 0: continue
        cases.append((fxm, cx, fym, cy, rng.choice(['raw', 'repr']), rng.choice(['trunc', 'floor', 'around'])))
    run_cases(cases, res, 'B:random-to-53-bits')
    # (T) the same while a class-wide template of either signedness is installed (Fxp.template)
    run_cases([t + (('ss', 'as', 'sa', 'aa')[i % 4], rng.choice(['fxp-u8/2', 'fxp-s16/4', 'fxp-u16/0', 'fxp-s8/7'])) for i, t in enumerate(cases[:len(cases) // 4])], res, 'T:class-template-installed')
    # (C) operands up to 62 bits whose // and % results stay within 53 bits (x/y is skipped when its own word is wider)
    cases = []
    n = (4500 if tier == 'quick' else 40000) // nshards
    tries = 0
    while len(cases) < n and tries < 50 * n:
        tries += 1
        def g():
            nw = rng.choice([8, 20, 30, 41, 48, 55, 60, rng.randint(1, 62)]); return (rng.random() < 0.5, nw, rng.randint(0, nw))
        fxm, fym = g(), g()
        if rng.random() < 0.3:
            # one signed and one unsigned operand whose aligned raw values need 54..63 bits (NumPy would promote the pair to float64)
            # (only x//y has a result word within 53 bits there; x%y and x/y are skipped)
            nwx = rng.randint(54, 62); nfy = rng.randint(0, 2); nfx = nwx - 49 + nfy + rng.randint(0, 3); fxm = (rng.random() < 0.5, nwx, nfx); nwy = rng.randint(max(2, nfy), 24); fym = (not fxm[0], nwy, nfy)
        elif rng.random() < 0.35:
            # two unsigned operands, one with a wide integer part, the other with many fraction bits: the modulo's own format is
            # narrow (min of the integer lengths) although the aligned operands need more than 64 bits
            nwx = rng.randint(35, 62); fxm = (False, nwx, rng.randint(0, 6)); nwy = rng.randint(2, 30); fym = (False, nwy, rng.randint(max(0, nwy - 6), nwy))
            if rng.random() < 0.5: fxm, fym = fym, fxm
        directed = False
        if rng.random() < 0.12:
            # directed: the dividend's integer length and the divisor's fraction length cancel (n_int(x) + n_frac(y) = 0, -1), the aligned divisor
            # needs 64 bits and more, the quotient is tiny: the most negative dividend over minus one LSB is exactly +1 (and its neighbours)
            nwx = rng.randint(34, 60); nix = rng.choice([0, 0, -1, 1]); fxm = (True, nwx, nwx - 1 - nix); nfy = max(0, -nix + rng.choice([0, 0, 1])); nwy = rng.randint(max(2, 65 - nwx + nfy), 40); fym = (True, nwy, nfy); directed = True
        if not (1 <= wmod_of(fxm, fym) <= 53 or 1 <= wfl_of(fxm, fym) <= 53): continue
        # (x//y and x/y are checked only when their own result words are within the domain)
        cx = A.interesting_codes(rng, fxm[0], fxm[1], 1)[0]; cy = A.interesting_codes(rng, fym[0], fym[1], 1)[0]
        if directed:
            lox, hix = S.fmt_bounds(fxm[0], fxm[1]); cx = rng.choice([lox, lox, lox + 1, hix, -1, 1]); cy = rng.choice([-1, -1, 1, -2, 2])
        if cy == 0: continue
        if rng.random() < 0.4 and fxm[2] >= fym[2] and not directed:
            # a dividend next to an exact multiple of the divisor (on the common fraction length): the floor changes with the last bit
            Y = cy << (fxm[2] - fym[2]); lo, hi = S.fmt_bounds(fxm[0], fxm[1])
            q = rng.randint(lo // abs(Y) if Y else 0, hi // abs(Y)) if abs(Y) <= hi else 0
            cand = q * Y + rng.choice([0, 1, -1, 2, abs(Y) - 1])
            if lo <= cand <= hi and abs(cand) >= 2**53: cx = cand
        # the value ('repr') method computes on the operands' float values: only for operands that are exact doubles
        # (only // and % are checked for operands beyond 53 bits - their result words are narrow - and there the two methods must agree as well)
        meth = rng.choice(['raw', 'repr'])
        cases.append((fxm, cx, fym, cy, meth, rng.choice(['trunc', 'floor', 'around'])))
    run_cases(cases, res, 'C:wide-operands-small-results')
    run_imposed(imposed_cases(rng, (4500 if tier == 'quick' else 40000) // nshards), res)
    run_odd(odd_cases(rng, (4500 if tier == 'quick' else 40000) // nshards), res)
    res.exhaustive = True
    return res

def run(seed, tier):
    return run_sharded('c09', 'shard', 16, seed, tier)

def classify(fl):
    return None

def replay(payload):
    c = payload['case']; res = Result()
    if 'sizing' in c:
        run_imposed([c], res); return {'holds': not res.failures, 'failures': res.failures}
    if c.get('odd'):
        run_odd([c], res); return {'holds': not res.failures, 'failures': res.failures}
    run_cases([(tuple(c['x']), c['cx'], tuple(c['y']), c['cy'], c['method'], c['rounding'], c.get('layout', 'ss'), c.get('template'))], res, 'replay')
    return {'holds': not res.failures, 'failures': res.failures}
