# c11.py — C11: binary and hex strings are faithful images of the code and parse back to it.
import itertools, math
from fractions import Fraction
import lib, storelib as S, arithlib as A
from lib import Result, model_call, run_sharded, e_fmt, e_list, Reader, outcome

RULE = ('rendering: every code for n_word<=6 (quick) / <=8 (thorough) and boundary/random codes for n_word up to 256, n_frac 0..n_word: bin(), bin(frac_dot=True) with each prefix, hex() with each prefix, '
        'base_repr(2/8/10/16), scalars and 1-D / 2-D arrays, compared with the independent Python rendering of (code mod 2^n_word) and with the model strings; parsing round trip (n_word>=2): value mode for n_word<=52 and '
        'raw=True mode for every n_word up to 256 through constructor, call, set_val and from_bin, for binary and hex strings, scalars and 1-D arrays (2-D string arrays: see ASSUMPTIONS). '
        'Non-trivial = the code is negative or has its top bit set; distinct by full input.')
ASSUMPTIONS = []

def py_bin(n, c): return format(c % (1 << n), '0%db' % n)
def py_hex(n, c): return format(c % (1 << n), '0%dX' % ((n + 3) // 4))
def insert_point(s, nf):
    if 0 < nf < len(s): return s[:-nf] + '.' + s[-nf:]
    if nf == 0: return s + '.'
    if nf == len(s): return '.' + s
    return '.' + '0' * (nf - len(s)) + s
def base_repr(c, b):
    if c == 0: return '0'
    digs = '0123456789ABCDEFGHIJKLMNOPQRSTUVWXYZ'; u = abs(c); out = ''
    while u: out = digs[u % b] + out; u //= b
    return ('-' if c < 0 else '') + out

def chars(s): return [ord(ch) for ch in s]

def run_cases(cases, res, stratum):
    fx = lib.impl(); import numpy as np
    pend = []; reqs = []
    for c in cases:
        s, n, nf = c['f']; code = c['c']; pb = c.get('pb', '0b'); ph = c.get('ph', '0x'); base = c.get('base', 2)
        try:
            x = A.mk(fx, np, s, n, nf, code)
            if (code + n) % 4 == 0: x = A.mk(fx, np, s, n, nf, [0, code], shape=(2,))[1]      # (an element taken out of an array renders like an object of its own)
            obs = {'bin': x.bin(), 'bin_dot': x.bin(frac_dot=True, prefix=pb), 'hex': x.hex(prefix=ph), 'hex_default': x.hex(), 'base': x.base_repr(base)}
            # the other ways of selecting a prefix / padding, and the numeral with a binary point
            obs['bin_prefix_true'] = x.bin(prefix=True); obs['hex_prefix_true'] = x.hex(prefix=True); obs['hex_nopad'] = x.hex(padding=False)
            obs['base2_dot'] = x.base_repr(2, frac_dot=True)
            # the unpadded hex numeral fed back raw restores the code (constructor and set_val)
            if n >= 2: yb = fx.Fxp(None, s, n, nf); yb.set_val(obs['hex_nopad'], raw=True); yc = fx.Fxp(obs['hex_nopad'], s, n, nf, raw=True)      # (as for the configured prefixes below: words of 2 bits and more)
            if n >= 2 and (lib.codes_of(yb) != [code] or lib.codes_of(yc) != [code]):
                res.fail(c, 'C11: the unpadded hex numeral (hex(padding=False)) fed back raw does not restore the code', expected=code, got=(obs['hex_nopad'], lib.codes_of(yb), lib.codes_of(yc))); continue
            xc = A.mk(fx, np, s, n, nf, code)
            import io, contextlib
            with contextlib.redirect_stdout(io.StringIO()):          # the setters print a warning for unusual prefixes
                xc.config.bin_prefix = pb; xc.config.hex_prefix = ph
            obs['bin_cfg'] = xc.bin(); obs['hex_cfg'] = xc.hex()
            # an explicit prefix argument wins over the configured one, the empty prefix included
            xe = A.mk(fx, np, s, n, nf, code); xe.config.bin_prefix = c.get('pbc', '0b'); xe.config.hex_prefix = c.get('phc', '0x')
            obs['explicit_over_cfg'] = (xe.bin(prefix=''), xe.bin(prefix='', frac_dot=True), xe.bin(prefix='b'), xe.hex(prefix=''), xe.hex(prefix='X'))
            # a configuration built from a template configuration with prefixes of its own given explicitly: the explicit ones are the selected ones
            house = fx.Config(bin_prefix='0b', hex_prefix='0x')
            xt = fx.Fxp(code, s, n, nf, raw=True, config=fx.Config(template=house, bin_prefix=c.get('pbc', 'b'), hex_prefix=c.get('phc', 'h')))
            obs['template_cfg'] = (xt.bin(), xt.hex())
            # every prefix the configuration accepts without a warning renders a string that parses back (raw mode; any word length)
            cfgrt = {}
            if n >= 2:
                for kind, pre in (('bin', c.get('pbc', '0b')), ('hex', c.get('phc', '0x'))):
                    xp = A.mk(fx, np, s, n, nf, code)
                    if kind == 'bin': xp.config.bin_prefix = pre
                    else: xp.config.hex_prefix = pre
                    st = xp.bin() if kind == 'bin' else xp.hex()
                    y = fx.Fxp(None, s, n, nf); y.set_val(st, raw=True)
                    got_codes = [lib.codes_of(y)[0], lib.codes_of(fx.Fxp(st, s, n, nf, raw=True))[0]]        # set_val and the constructor
                    if kind == 'bin':       # ... and from_bin, as a method and as the function of the package
                        y2 = fx.Fxp(None, s, n, nf); y2.from_bin(st, raw=True); got_codes.append(lib.codes_of(y2)[0])
                        got_codes.append(lib.codes_of(fx.from_bin(st, signed=s, n_word=n, n_frac=nf, raw=True))[0])
                    cfgrt[(kind, pre)] = (st, code if all(g == code for g in got_codes) else next(g for g in got_codes if g != code))
            obs['cfgrt'] = cfgrt
            xn = A.mk(fx, np, s, n, nf, code); xn.config.hex_prefix = None; obs['hex_noprefix'] = xn.hex()
            # round trips
            rt = {}
            bstr = x.bin(prefix='0b'); hstr = x.hex()
            if n >= 2:
                # the rendering WITH the binary point fed back as a raw code (the point is part of the rendered string; the digits are the code)
                dstr = x.bin(frac_dot=True, prefix=c['pbc'] if c.get('pbc') in ('b', '0b', 'B', '0B') else '0b')      # (with each binary prefix the library accepts, upper case included)
                yd = fx.Fxp(None, s, n, nf); yd.set_val(dstr, raw=True); rt[('set_val', 'bin_dot', True)] = lib.codes_of(yd)[0]
                rt[('ctor', 'bin_dot', True)] = lib.codes_of(fx.Fxp(dstr, s, n, nf, raw=True))[0]
                yd2 = fx.Fxp(None, s, n, nf); yd2.from_bin(x.bin(frac_dot=True), raw=True); rt[('from_bin', 'bin_dot', True)] = lib.codes_of(yd2)[0]
                for route in ('ctor', 'call', 'set_val', 'from_bin'):
                    for kind, st in (('bin', bstr), ('hex', hstr)):
                        if route == 'from_bin' and kind == 'hex': continue
                        for raw in (True, False):
                            if not raw and n > 52: continue
                            arg = x.bin() if route == 'from_bin' else st
                            if route == 'ctor': y = fx.Fxp(arg, s, n, nf, raw=raw)
                            else:
                                y = fx.Fxp(None, s, n, nf)
                                if route == 'call':
                                    if raw: continue
                                    y(arg)
                                elif route == 'set_val': y.set_val(arg, raw=raw)
                                else: y.from_bin(arg, raw=raw)
                            rt[(route, kind, raw)] = lib.codes_of(y)[0]
            obs['rt'] = rt
        except Exception as e:
            res.fail(c, 'C11: rendering or parsing raised %s' % lib.exc_name(e), got=str(e)[:300]); continue
        pend.append((c, obs))
        reqs.append([70] + e_fmt(s, n, nf) + [code] + e_list(chars(pb)) + e_list(chars(ph)) + [base])
        reqs.append([71, 0, 1 if s else 0, n] + e_list(chars(py_bin(n, code))))
        reqs.append([71, 1, 1 if s else 0, n] + e_list(chars(py_hex(n, code))))
    outs = model_call(reqs)
    for i, (c, obs) in enumerate(pend):
        s, n, nf = c['f']; code = c['c']; pb = c.get('pb', '0b'); ph = c.get('ph', '0x'); base = c.get('base', 2)
        want = {'bin': py_bin(n, code), 'bin_dot': pb + insert_point(py_bin(n, code), nf), 'hex': ph + py_hex(n, code), 'hex_default': '0x' + py_hex(n, code), 'base': base_repr(code, base)}
        mag = base_repr(abs(code), 2)
        want.update({'bin_prefix_true': '0b' + py_bin(n, code), 'hex_prefix_true': '0x' + py_hex(n, code), 'hex_nopad': '0x' + format(code % (1 << n), 'X'),
                     'base2_dot': ('-' if code < 0 else '') + insert_point(mag, nf), 'bin_cfg': pb + py_bin(n, code), 'hex_cfg': ph + py_hex(n, code)})
        res.count(stratum, key=repr(c), nontrivial=code < 0 or code >= (1 << (n - 1)), n=5 + len(obs['rt']))
        res.sample(c)
        bad = False
        want['hex_noprefix'] = py_hex(n, code)
        badp = [(k2, v) for k2, v in obs['cfgrt'].items() if v[1] != code or v[0] != k2[1] + (py_bin(n, code) if k2[0] == 'bin' else py_hex(n, code))]
        if badp:
            res.fail(c, 'C11: a string rendered with a prefix the configuration accepts does not parse back to the same code', expected=code, got=[(k2, v[0][:40], v[1]) for k2, v in badp][:2]); continue
        want_exp = (py_bin(n, code), insert_point(py_bin(n, code), nf), 'b' + py_bin(n, code), py_hex(n, code), 'X' + py_hex(n, code))
        if tuple(obs['explicit_over_cfg']) != want_exp:
            res.fail(c, 'C11: an explicit prefix argument (the empty one included) does not win over the configured prefix', expected=want_exp, got=obs['explicit_over_cfg']); continue
        if tuple(obs['template_cfg']) != (c.get('pbc', 'b') + py_bin(n, code), c.get('phc', 'h') + py_hex(n, code)):
            res.fail(c, 'C11: the prefixes given explicitly to a configuration built from a template configuration are not the ones rendered', expected=(c.get('pbc', 'b') + py_bin(n, code), c.get('phc', 'h') + py_hex(n, code)), got=obs['template_cfg']); continue
        for k in ('bin', 'bin_dot', 'hex', 'hex_default', 'base', 'bin_prefix_true', 'hex_prefix_true', 'hex_nopad', 'base2_dot', 'bin_cfg', 'hex_cfg', 'hex_noprefix'):
            if str(obs[k]) != want[k]:
                res.fail(c, 'C11: %s is not the faithful image of the stored code' % k, expected=want[k], got=str(obs[k])); bad = True; break
        if bad: continue
        for key, got in obs['rt'].items():
            if got != code:
                res.fail(c, 'C11: feeding a rendered %s string back by %s (raw=%s) does not restore the code' % (key[1], key[0], key[2]), expected=code, got=got); bad = True; break
        if bad: continue
        rd = Reader(outs[3 * i]); m = [''.join(chr(t) for t in rd.lst(rd.z)) for _ in range(4)]
        if m != [want['bin'], want['bin_dot'], want['hex'], want['base']]:
            res.fail(c, 'model Strings rendering disagrees with the implementation although the property holds', expected=m, got=[want['bin'], want['bin_dot'], want['hex'], want['base']]); res.failures[-1]['no_input'] = True; continue
        if n >= 2:
            for j in (1, 2):
                kind, r2 = outcome(outs[3 * i + j])
                if kind != 'ok' or r2.z() != code:
                    res.fail(c, 'model Strings parser does not restore the code', expected=code, got=kind); res.failures[-1]['no_input'] = True; break

def run_arrays(rng, n_cases, res):
    cases = []
    for _ in range(n_cases):
        n = rng.choice([2, 3, 5, 8, 13, 16, 32, 52, 54, 60, 63, 64, 65, 70, 128]); s = rng.random() < 0.5; nf = rng.randint(0, n); lo, hi = S.fmt_bounds(s, n)
        codes = [rng.choice([lo, hi, 0, rng.randint(lo, hi)]) for _ in range(4)]
        if n >= 64 and rng.random() < 0.5: codes[rng.randrange(4)] = hi if rng.random() < 0.5 else lo     # a code beyond int64 among small ones
        shape = rng.choice([(4,), (2, 2)])
        cases.append({'f': [s, n, nf], 'codes': codes, 'shape': list(shape)})
        if rng.random() < 0.5: cases[-1]['rewrite'] = rng.choice(['view', 'view', 'sort', 'setitem'])
        if rng.random() < 0.5: cases[-1]['strwrite'] = [rng.choice(['bin', 'hex']), rng.choice(['mask', 'index_list', 'index_array', 'slice', 'elem', 'neg_step'])]
    run_array_cases(cases, res)

def run_array_cases(cases, res):
    fx = lib.impl(); import numpy as np
    for c in cases:
        s, n, nf = c['f']; codes = list(c['codes']); shape = tuple(c['shape'])
        try:
            x = A.mk(fx, np, s, n, nf, codes, shape=shape)
            b = np.array(x.bin()).reshape(-1).tolist(); h = np.array(x.hex()).reshape(-1).tolist()
            res.count('R:arrays', key=repr(c), nontrivial=True, n=8)
            if [str(t) for t in b] != [py_bin(n, t) for t in codes] or [str(t) for t in h] != ['0x' + py_hex(n, t) for t in codes]:
                res.fail(c, 'C11: element-wise bin()/hex() of an array is not the image of each code', expected=[py_bin(n, t) for t in codes], got=b); continue
            if shape == (4,):
                bd = [str(t) for t in x.bin(frac_dot=True)]
                if bd != [insert_point(py_bin(n, t), nf) for t in codes]:
                    res.fail(c, 'C11: element-wise bin(frac_dot=True) of an array is not the image of each code with the point', expected=[insert_point(py_bin(n, t), nf) for t in codes], got=bd); continue
            if shape == (2, 2):
                # the rendering of a 2-D object (a list of NumPy string arrays), fed back as it is
                y2 = fx.Fxp(x.bin(prefix='0b'), s, n, nf, raw=True); z2 = fx.Fxp(None, s, n, nf); z2.set_val(x.hex(), raw=True)
                # the same rows in MIXED containers (a list row first, array rows later; and the other way round)
                rows_ = x.bin(prefix='0b'); m1 = fx.Fxp(None, s, n, nf); m1.set_val([list(rows_[0]), rows_[1]], raw=True); m2 = fx.Fxp([rows_[0], tuple(rows_[1])], s, n, nf, raw=True)
                if lib.codes_of(m1) != codes or lib.codes_of(m2) != codes:
                    res.fail(c, 'C11: feeding the rendered rows of a 2-D array back in mixed containers (a list row and an array row) does not restore the codes', expected=codes, got=(lib.codes_of(m1), lib.codes_of(m2))); continue
                if lib.codes_of(y2) != codes or lib.codes_of(z2) != codes or list(np.asarray(y2.val).shape) != [2, 2]:
                    res.fail(c, 'C11: feeding the rendered strings of a 2-D array back does not restore the codes', expected=codes, got=(lib.codes_of(y2), lib.codes_of(z2))); continue
            br = np.array(x.base_repr(10)).reshape(-1).tolist()
            if [str(t) for t in br] != [base_repr(t, 10) for t in codes]:
                res.fail(c, 'C11: element-wise base_repr of an array is not the numeral of each code', expected=[base_repr(t, 10) for t in codes], got=br); continue
            if shape == (4,):
                y = fx.Fxp(x.bin(prefix='0b'), s, n, nf, raw=True); z = fx.Fxp(None, s, n, nf); z.set_val(x.hex(), raw=True)
                w = fx.Fxp(None, s, n, nf); w.from_bin(x.bin(), raw=True)
                sb_ = x.bin(prefix='0b'); mm = fx.Fxp(None, s, n, nf); mm.set_val([str(sb_[0]), np.array(str(sb_[1])), np.str_(sb_[2]), str(sb_[3])], raw=True)      # (a plain string first, a 0-d string array and a NumPy string later)
                if lib.codes_of(mm) != codes:
                    res.fail(c, 'C11: feeding rendered strings back in a list that mixes plain strings, 0-d string arrays and NumPy strings does not restore the codes', expected=codes, got=lib.codes_of(mm)); continue
                if lib.codes_of(y) != codes or lib.codes_of(z) != codes or lib.codes_of(w) != codes:
                    res.fail(c, 'C11: feeding the rendered strings of an array back does not restore the codes', expected=codes, got=(lib.codes_of(y), lib.codes_of(z), lib.codes_of(w))); continue
                # the same strings held in a NumPy string array instead of a list
                ya = fx.Fxp(np.array(x.bin(prefix='0b')), s, n, nf, raw=True); za = fx.Fxp(None, s, n, nf); za.set_val(np.array(x.hex()), raw=True)
                if lib.codes_of(ya) != codes or lib.codes_of(za) != codes:
                    res.fail(c, 'C11: feeding the rendered strings back as a NumPy string array does not restore the codes', expected=codes, got=(lib.codes_of(ya), lib.codes_of(za)))
            if c.get('rewrite'):
                # codes changed in place AFTER a rendering (through a view, a row, an element write or sort()): the next rendering shows the codes held now
                lo_, hi_ = S.fmt_bounds(s, n); mode = c['rewrite']; after = list(codes)
                newc = lo_ if codes[1] != lo_ else hi_
                for kind in ('bin', 'hex', 'bin_dot'):
                    x = A.mk(fx, np, s, n, nf, codes, shape=shape); after = list(codes)
                    render = {'bin': lambda: x.bin(), 'hex': lambda: x.hex(), 'bin_dot': lambda: x.bin(frac_dot=True)}[kind]
                    render()
                    if mode == 'sort' and shape == (4,): x.sort(); after = sorted(codes)
                    elif mode == 'view' and shape == (4,): v_ = x[1:3]; v_[0] = A.mk(fx, np, s, n, nf, newc); after[1] = newc
                    elif mode == 'view': r_ = x[0]; r_[1] = A.mk(fx, np, s, n, nf, newc); after[1] = newc
                    else: x[1 if shape == (4,) else (0, 1)] = A.mk(fx, np, s, n, nf, newc); after[1] = newc
                    if lib.codes_of(x) != after: break      # (whether the write itself works is C04 / C20's matter)
                    got_ = [str(t) for t in np.array(render()).reshape(-1).tolist()]
                    want_ = {'bin': [py_bin(n, t) for t in after], 'hex': ['0x' + py_hex(n, t) for t in after], 'bin_dot': [insert_point(py_bin(n, t), nf) for t in after]}[kind]
                    if got_ != want_:
                        res.fail(dict(c, render=kind), 'C11: bin()/hex() of an array after its codes were changed in place (%s) is not the image of the codes it holds' % mode, expected=want_, got=got_); break
            if c.get('strwrite') and shape == (4,):
                # ONE rendered string written raw into a selection of the array (a mask, an index list, a slice, an element): every selected element takes its code
                kind_, sel_ = c['strwrite']; src_code = codes[0]
                img = ('0b' + py_bin(n, src_code)) if kind_ == 'bin' else ('0x' + py_hex(n, src_code))
                idx_ = {'mask': np.array([False, True, True, False]), 'index_list': [3, 1], 'index_array': np.array([2, 3]), 'slice': slice(1, 3), 'elem': 2, 'neg_step': slice(None, None, -2)}[sel_]
                hit = {'mask': [1, 2], 'index_list': [3, 1], 'index_array': [2, 3], 'slice': [1, 2], 'elem': [2], 'neg_step': [3, 1]}[sel_]
                d_ = A.mk(fx, np, s, n, nf, codes, shape=shape); d_.set_val(img, raw=True, index=idx_)
                want_ = [src_code if i in hit else t for i, t in enumerate(codes)]
                if lib.codes_of(d_) != want_:
                    res.fail(c, 'C11: a rendered %s string written raw into a selection (%s) of an array does not give every selected element its code' % (kind_, sel_), expected=want_, got=lib.codes_of(d_))
        except Exception as e:
            res.fail(c, 'C11: rendering or parsing an array raised %s' % lib.exc_name(e), got=str(e)[:300])

def shard(shard, nshards, rng, tier, extra):
    res = Result()
    nmax = 6 if tier == 'quick' else 8
    fmts = [(s, n, nf) for s in (True, False) for n in range(1, nmax + 1) for nf in range(0, n + 1)]
    cases = []
    for idx, (s, n, nf) in enumerate(fmts):
        if idx % nshards != shard: continue
        lo, hi = S.fmt_bounds(s, n)
        for code in range(lo, hi + 1):
            cases.append({'f': [s, n, nf], 'c': code, 'pb': rng.choice(['0b', 'b', '', '0B']), 'ph': rng.choice(['0x', '', 'x']), 'base': rng.choice([2, 8, 10, 16]),
                          'pbc': rng.choice(['b', '0b', 'B', '0B']), 'phc': rng.choice(['x', '0x', 'X', '0X', 'h', '0h', 'H', '0H'])})
    run_cases(cases, res, 'A:all-codes-small')
    cases = []
    for _ in range((1800 if tier == 'quick' else 15000) // nshards):
        n = rng.choice([9, 12, 15, 16, 17, 31, 32, 33, 52, 53, 63, 64, 65, 100, 127, 128, 129, 200, 256, rng.randint(9, 256)]); s = rng.random() < 0.5
        nf = rng.choice([0, 1, n // 2, n - 1, n]); lo, hi = S.fmt_bounds(s, n)
        code = rng.choice([lo, hi, 0, -1 if s else hi, lo + 1, hi - 1, rng.randint(lo, hi)])
        cases.append({'f': [s, n, nf], 'c': code, 'pb': rng.choice(['0b', 'b', '']), 'ph': rng.choice(['0x', '']), 'base': rng.choice([2, 8, 10, 16]),
                      'pbc': rng.choice(['b', '0b', 'B', '0B']), 'phc': rng.choice(['x', '0x', 'X', '0X', 'h', '0h', 'H', '0H'])})
    run_cases(cases, res, 'B:boundary-random-to-256')
    run_arrays(rng, (450 if tier == 'quick' else 4000) // nshards, res)
    res.exhaustive = True
    return res

def run(seed, tier):
    return run_sharded('c11', 'shard', 16, seed, tier)
def classify(fl): return None
def replay(payload):
    res = Result(); c = payload['case']
    if 'c' in c: run_cases([c], res, 'replay')
    elif 'codes' in c: run_array_cases([c], res)
    return {'holds': not res.failures, 'failures': res.failures}
