# c15.py — C15: NumPy reductions and linear algebra on fixed-point arrays are exact.
import itertools, math
from fractions import Fraction
import lib, storelib as S, arithlib as A
from lib import Result, RMODES, OMODES, model_call, run_sharded, e_fmt, e_list, Reader, outcome

RULE = ('array shapes up to 3x3 and lengths up to 8, operand formats with n_word<=12, element values from the extremes of the format (all most-negative, all most-positive, alternating) and random codes; '
        'sum, cumsum, prod, cumprod, dot / matmul (values only), trace, max, min, sort, clip, transpose, diagonal through the NumPy function and the equivalent method, axis None or any valid axis (also given as a negative number); trace and diagonal also with offset in {-2, -1, 1, 2}. '
        'The implementation result is compared with the exact result on the element values (Python integers / rationals), with the documented growth rule, with "no overflow flag", with isinstance(result, Fxp), and with the model (sum, cumsum, prod, cumprod, dot, trace). '
        'Stratum T: the accumulating functions and max / min into a caller-chosen format (out= / out_like=) that holds every result exactly; stratum F: sum / prod through out= into ANY format and modes (words to 70 bits, n_frac -3..66), implementation against the model Reduce.fxp_sum_into / fxp_prod_into (opcode 112) only; stratum V: the value method on integer-valued elements with negative n_frac. '
        'Non-trivial = at least two elements and a non-zero result; distinct by full input.')
ASSUMPTIONS = ['the NumPy dispatch glue (__array_function__, method wrappers) is exercised by running both call routes; it has no Gallina counterpart', 'matmul goes through the float route with an auto-sized result: only its values are compared']

def clog2(n): return int(math.ceil(math.log2(n))) if n > 1 else 0

def lo_code(s, nw): return S.fmt_bounds(s, nw)[0]
def hi_code(s, nw): return S.fmt_bounds(s, nw)[1]

def np_diag_idx(shape, off):
    """(row, column) positions of the diagonal with the given offset of a 2-D array"""
    return [(i, i + off) for i in range(shape[0]) if 0 <= i + off < shape[1]]

def gen(rng):
    nw = rng.randint(2, 12); s = rng.random() < 0.6; nf = rng.randint(0, nw); lo, hi = S.fmt_bounds(s, nw)
    if rng.random() < 0.15: nf = rng.choice([-2, -1, nw + 1, nw + 2])        # fraction lengths outside 0..n_word are formats too
    shape = rng.choice([(2,), (3,), (5,), (8,), (2, 2), (2, 3), (3, 3), (3, 2), (1, 3)])
    n = int(math.prod(shape)); k = rng.random()
    if k < 0.2: codes = [lo] * n
    elif k < 0.4: codes = [hi] * n
    elif k < 0.5: codes = [lo if i % 2 else hi for i in range(n)]
    else: codes = [rng.choice([lo, hi, 0, 1, rng.randint(lo, hi), rng.randint(lo, hi)]) for _ in range(n)]
    op = rng.choice(['sum', 'sum', 'cumsum', 'prod', 'cumprod', 'dot', 'dot', 'trace', 'max', 'min', 'sort', 'clip', 'transpose', 'diagonal', 'matmul'])
    axis = rng.choice([None] + list(range(len(shape)))) if op in ('sum', 'cumsum', 'prod', 'cumprod', 'max', 'min', 'sort') else None
    if op in ('sum', 'prod', 'max', 'min') and len(shape) == 2 and rng.random() < 0.2: axis = (0, 1)      # (a tuple of axes is a valid axis)
    route_ = rng.choice(['numpy', 'method'])
    if op == 'sort' and axis is None and route_ == 'method': axis = -1      # (np.sort(x, axis=None) sorts the flattened array; the in-place method needs an axis)
    if isinstance(axis, int) and not isinstance(axis, bool) and axis >= 0 and rng.random() < 0.3: axis = axis - len(shape)      # (a negative axis names the same axis)
    c = {'f': [s, nw, nf], 'shape': list(shape), 'codes': codes, 'op': op, 'axis': axis, 'route': route_}
    if op == 'sort' and len(shape) == 2 and rng.random() < 0.5: c['view_sort'] = rng.randint(0, 7)
    if op in ('dot', 'matmul'):
        nw2 = rng.randint(2, 12); s2 = rng.random() < 0.6; nf2 = rng.randint(0, nw2); lo2, hi2 = S.fmt_bounds(s2, nw2)
        if len(shape) == 1: shape2 = shape
        else: shape2 = (shape[1], rng.choice([1, 2, 3]))
        n2 = int(math.prod(shape2)); kk = rng.random()
        codes2 = [lo2] * n2 if kk < 0.25 else ([hi2] * n2 if kk < 0.5 else [rng.randint(lo2, hi2) for _ in range(n2)])
        c.update({'f2': [s2, nw2, nf2], 'shape2': list(shape2), 'codes2': codes2})
        if op == 'matmul' and rng.random() < 0.5: c['xcfg'] = rng.choice([{'n_word_max': 16}, {'max_error': 0.125}, {'n_word_max': 24, 'max_error': 0.01}])
    if op in ('trace', 'diagonal') and len(shape) != 2: c['op'] = 'sum'; c['axis'] = None
    if c['op'] in ('trace', 'diagonal') and rng.random() < 0.5:
        off = rng.choice([-1, 1, -2, 2])         # an off-diagonal (kept only when it is not empty)
        if len(np_diag_idx(shape, off)) > 0 or (c['op'] == 'trace' and rng.random() < 0.5): c['offset'] = off      # (an EMPTY diagonal has trace 0, as in NumPy)
    # the property's domain: result word <= 53 bits
    if op == 'cumprod' and n * max(nw, abs(nf) + nw) > 53: return gen(rng)
    if op == 'prod' and (n if (axis is None or isinstance(axis, tuple)) else shape[axis]) * nw > 53: return gen(rng)
    if op == 'clip':
        c['clip'] = [rng.randint(lo, 0) , rng.randint(0, hi)]
        if rng.random() < 0.15 and c['clip'][0] != c['clip'][1]: c['clip'] = c['clip'][::-1]     # (a_min > a_max: NumPy defines the result as minimum(maximum(x, a_min), a_max))
        # how the bounds are given: Python floats, one side only, NumPy integers of a narrow type (integral bounds), fixed-point objects
        c['clip_kind'] = rng.choice(['float', 'float', 'lower_only', 'upper_only', 'npint', 'fxp', 'fxp', 'kw', 'mixed_kw']); c['vpath'] = rng.random() < 0.5; c['bound_raw'] = rng.random() < 0.5
    if op == 'transpose' and rng.random() < 0.6:
        perm = list(range(len(shape))); rng.shuffle(perm); c['axes'] = perm
    return c

def run_cases(cases, res):
    fx = lib.impl(); import numpy as np
    pend = []; reqs = []
    for c in cases:
        s, nw, nf = c['f']; shape = tuple(c['shape']); op = c['op']; axis = c['axis']
        if isinstance(axis, list): axis = tuple(axis)       # (a replayed case: JSON has no tuples)
        try:
            x = A.mk(fx, np, s, nw, nf, c['codes'], shape=shape)
            arr = np.array(c['codes'], dtype=object).reshape(shape)
            lsb = Fraction(2) ** (-nf)
            meth = c['route'] == 'method'
            want_fmt = None
            if op == 'sum':
                z = x.sum(axis=axis) if meth else np.sum(x, axis=axis); exact = np.sum(arr, axis=axis) * lsb; want_fmt = (s, clog2(x.size) + nw, nf)
            elif op == 'cumsum':
                z = x.cumsum(axis=axis) if meth else np.cumsum(x, axis=axis); exact = np.cumsum(arr, axis=axis) * lsb; want_fmt = (s, clog2(x.size) + nw, nf)
            elif op == 'prod':
                k = x.size if (axis is None or isinstance(axis, tuple)) else shape[axis]
                z = x.prod(axis=axis) if meth else np.prod(x, axis=axis); exact = np.prod(arr, axis=axis) * lsb ** k; want_fmt = (s, k * nw, k * nf)
            elif op == 'cumprod':
                z = x.cumprod(axis=axis) if meth else np.cumprod(x, axis=axis)
                cp = np.cumprod(arr, axis=axis); cnt = np.cumsum(np.ones_like(arr, dtype=object), axis=axis)
                exact = np.array([p * lsb ** int(k) for p, k in zip(np.asarray(cp).reshape(-1), np.asarray(cnt).reshape(-1))], dtype=object).reshape(np.asarray(cp).shape)
                # documented growth (size times the word and the fraction) whenever that format holds every running product;
                # otherwise (n_frac outside 0..n_word - sign) only exactness and "no overflow" are demanded
                want_fmt = (s, x.size * nw, x.size * nf) if 0 <= nf <= nw - (1 if s else 0) else None
            elif op in ('dot', 'matmul'):
                s2, nw2, nf2 = c['f2']; y = A.mk(fx, np, s2, nw2, nf2, c['codes2'], shape=tuple(c['shape2']))
                arr2 = np.array(c['codes2'], dtype=object).reshape(tuple(c['shape2']))
                if op == 'dot':
                    z = x.dot(y) if meth else np.dot(x, y); want_fmt = (s or s2, clog2(shape[-1]) + nw + nw2, nf + nf2)
                else:
                    if c.get('xcfg'):      # size-inference settings in the LEFT operand's configuration: the product is exact all the same
                        for k_, v_ in c['xcfg'].items(): setattr(x.config, k_, v_)
                    z = np.matmul(x, y)
                exact = np.dot(arr, arr2) * (lsb * Fraction(2) ** (-nf2))
            elif op == 'trace':
                off = c.get('offset', 0)
                z = (x.trace(offset=off) if meth else np.trace(x, offset=off)) if off else (x.trace() if meth else np.trace(x))
                exact = np.trace(arr, offset=off) * lsb; want_fmt = (s, clog2(len(np_diag_idx(shape, off))) + nw, nf)
            elif op == 'max':
                z = x.max(axis=axis) if meth else np.max(x, axis=axis); exact = np.max(arr, axis=axis) * lsb; want_fmt = (s, nw, nf)
            elif op == 'min':
                z = x.min(axis=axis) if meth else np.min(x, axis=axis); exact = np.min(arr, axis=axis) * lsb; want_fmt = (s, nw, nf)
            elif op == 'sort' and meth and len(shape) == 2 and c.get('view_sort') is not None:
                # the in-place method on a VIEW (the NumPy idiom x[i].sort() / x[:, j].sort()): the parent array shows the sorted row / column
                k_ = c['view_sort'] % shape[0]
                z = x.deepcopy(); z[k_].sort()           # (in place: on a copy, the operand itself stays as it is for the checks below)
                ref = arr.astype(np.int64).copy(); ref[k_] = np.sort(ref[k_]); exact = ref.astype(object) * lsb; want_fmt = (s, nw, nf)
            elif op == 'sort' and meth:
                z = x.deepcopy(); z.sort(axis=axis); exact = np.sort(arr.astype(np.int64), axis=axis).astype(object) * lsb; want_fmt = (s, nw, nf)
            elif op == 'sort':
                z = np.sort(x, axis=axis); exact = np.sort(arr.astype(np.int64), axis=axis).astype(object) * lsb; want_fmt = (s, nw, nf)
            elif op == 'clip':
                a, b = c['clip']; kind = c.get('clip_kind', 'float')
                if kind == 'npint' and nf >= 0 and a > b and not (lo_code(s, nw) <= ((b >> nf) << nf)): kind = 'float'     # (crossed bounds: the upper one is the result and must be a code of the format)
                if kind == 'npint' and nf >= 0:      # integral bounds a NumPy int8 / int16 can hold, given in that type
                    a = (a >> nf) << nf; b = (b >> nf) << nf
                    if not (-128 <= min(a, b) >> nf and max(a, b) >> nf <= 127): kind = 'float'
                if kind == 'npint' and nf < 0: kind = 'float'
                ba, bb = float(a * lsb), float(b * lsb)
                if kind == 'npint': ba, bb = np.int8(a >> nf), np.int8(b >> nf)
                elif kind == 'fxp':
                    ba, bb = A.mk(fx, np, s, nw, nf, a), A.mk(fx, np, s, nw, nf, b)
                    if c.get('bound_raw'): ba.config.array_op_method = 'raw'; bb.config.array_op_method = 'raw'      # (how a BOUND presents itself to NumPy functions is its own matter: the bound is its value)
                if kind == 'lower_only': z = x.clip(ba, None) if meth else np.clip(x, ba, None); b = hi_code(s, nw)
                elif kind == 'upper_only': z = x.clip(None, bb) if meth else np.clip(x, None, bb); a = lo_code(s, nw)
                elif kind == 'kw': z = x.clip(a_min=ba, a_max=bb) if meth else np.clip(x, min=ba, max=bb)
                elif kind == 'mixed_kw': z = (x.clip(ba, max=bb) if c.get('vpath') else x.clip(min=ba, a_max=bb)) if meth else (np.clip(x, ba, max=bb) if c.get('vpath') else np.clip(x, min=ba, max=bb))      # (one bound positional or under the old name, the other under the new one)
                elif kind == 'fxp' and c.get('vpath'): z = x.clip(ba, bb, method='repr')      # fixed-point bounds on the value path
                else: z = x.clip(ba, bb) if meth else np.clip(x, ba, bb)
                exact = np.clip(arr.astype(np.int64), a, b).astype(object) * lsb; want_fmt = (s, nw, nf)
            elif op == 'transpose':
                ax = c.get('axes')      # None, or an explicit permutation of the axes
                if ax is None: z = x.transpose() if meth else np.transpose(x)
                else: z = x.transpose(tuple(ax)) if meth else np.transpose(x, tuple(ax))
                exact = np.transpose(arr, ax if ax is None else tuple(ax)) * lsb; want_fmt = (s, nw, nf)
            elif op == 'diagonal':
                off = c.get('offset', 0)
                z = (x.diagonal(offset=off) if meth else np.diagonal(x, offset=off)) if off else (x.diagonal() if meth else np.diagonal(x))
                exact = np.diagonal(arr, offset=off) * lsb; want_fmt = (s, nw, nf)
            obs = {'is_fxp': isinstance(z, fx.Fxp)}
            if obs['is_fxp']:
                obs.update({'fmt': A.fmt_of(z), 'vals': [Fraction(t) / Fraction(2) ** z.n_frac for t in lib.codes_of(z)], 'shape': list(np.asarray(z.val).shape), 'status': lib.status3(z),
                            'codes': lib.codes_of(z)})
            exact_flat = [Fraction(t) for t in np.asarray(exact, dtype=object).reshape(-1).tolist()]; exact_shape = list(np.asarray(exact, dtype=object).shape)
            x_after = lib.codes_of(x)
        except Exception as e:
            res.fail(c, 'C15: %s raised %s' % (c['op'], lib.exc_name(e)), got=str(e)[:300]); continue
        pend.append((c, obs, exact_flat, exact_shape, want_fmt, x_after))
        # model request for 1-D sum / cumsum / prod / dot
        mreq = None
        if len(shape) == 1 and axis in (None, 0):
            if op == 'sum': mreq = [110, 0] + e_fmt(s, nw, nf) + [len(c['codes'])] + e_list(c['codes'])
            elif op == 'cumsum': mreq = [110, 1] + e_fmt(s, nw, nf) + [len(c['codes'])] + e_list(c['codes'])
            elif op == 'prod': mreq = [110, 2] + e_fmt(s, nw, nf) + [len(c['codes'])] + e_list(c['codes'])
            elif op == 'cumprod' and nf >= 0: mreq = [110, 3] + e_fmt(s, nw, nf) + [len(c['codes'])] + e_list(c['codes'])
            elif op == 'dot': mreq = [111] + e_fmt(s, nw, nf) + e_fmt(*c['f2']) + e_list(c['codes']) + e_list(c['codes2'])
        if op == 'trace' and len(shape) == 2:
            # the model of trace: fxp_sum over the main diagonal, growth by the number of diagonal elements
            idx = np_diag_idx(shape, c.get('offset', 0)); k = len(idx); diag = [c['codes'][i * shape[1] + j] for i, j in idx]
            mreq = [110, 0] + e_fmt(s, nw, nf) + [k] + e_list(diag)
        reqs.append(mreq)
    outs = iter(model_call([m for m in reqs if m is not None]))
    for (c, obs, exact_flat, exact_shape, want_fmt, x_after), mreq in zip(pend, reqs):
        mout = next(outs) if mreq is not None else None
        res.count('R:' + c['op'], key=repr(c), nontrivial=len(c['codes']) >= 2 and any(v != 0 for v in exact_flat), n=1)
        res.sample({k: c[k] for k in ('f', 'shape', 'op', 'axis', 'route')} | {'codes': c['codes'][:4]})
        if not obs['is_fxp']:
            res.fail(c, 'C15: the result of %s is not a fixed-point object' % c['op']); continue
        if x_after != c['codes']:
            res.fail(c, 'C15: %s modified its operand' % c['op']); continue
        if obs['vals'] != exact_flat or obs['shape'] != exact_shape:
            res.fail(c, 'C15: %s is not the exact mathematical result on the element values' % c['op'], expected=[str(v) for v in exact_flat[:9]], got=[str(v) for v in obs['vals'][:9]]); continue
        if obs['status'][0] or obs['status'][1]:
            res.fail(c, 'C15: %s raised an overflow/underflow flag' % c['op'], got=obs['status']); continue
        if want_fmt is not None and obs['fmt'] != want_fmt:
            res.fail(c, 'C15: result format of %s differs from the documented growth rule' % c['op'], expected=want_fmt, got=obs['fmt']); continue
        if mout is not None:
            kind, rd = outcome(mout)
            if kind == 'ok':
                mf = (rd.b(), rd.z(), rd.z()); mc = rd.lst(rd.z)
            if kind != 'ok' or mf != obs['fmt'] or mc != obs['codes']:
                res.fail(c, 'model Reduce disagrees with the implementation although the property holds (%s)' % c['op'], expected=str(kind), got=(obs['fmt'], obs['codes'][:6])); res.failures[-1]['no_input'] = True

def run_vpath_int(rng, n, res):
    """the accumulating reductions by the value method (method='repr') on arrays built from integer VALUES in formats with a negative
    fraction length: the integer values have n_word - n_frac bits each, sums and products of them leave int64 while the result word is small"""
    fx = lib.impl(); import numpy as np
    for _ in range(n):
        nw = rng.choice([2, 3, 6, 12]); nf = -rng.choice([2, 12, 20, 40, 51]); k = rng.choice([2, 5, 8]); s = rng.random() < 0.3
        lo, hi = S.fmt_bounds(s, nw); codes = [rng.choice([hi, hi, hi - 1, lo]) for _ in range(k)]
        op = rng.choice(['prod', 'sum', 'cumsum', 'dot'])
        if op == 'prod' and k * nw > 53: k = max(2, 53 // nw); codes = codes[:k]
        c = {'f': [s, nw, nf], 'vcodes': codes, 'op': op}
        vals = [cd * 2 ** (-nf) for cd in codes]
        try:
            x = fx.Fxp(vals, s, nw, nf)
            z = {'prod': lambda: x.prod(method='repr'), 'sum': lambda: x.sum(method='repr'), 'cumsum': lambda: x.cumsum(method='repr'), 'dot': lambda: x.dot(x, method='repr')}[op]()
            got = [Fraction(int(v)) / Fraction(2) ** int(z.n_frac) for v in np.asarray(z.val).reshape(-1).tolist()]; st = lib.status3(z)[:2]
        except Exception as e:
            res.fail(c, 'C15: %s by the value method raised %s' % (op, lib.exc_name(e)), got=str(e)[:200]); continue
        if op == 'prod': want = [Fraction(math.prod(vals))]
        elif op == 'sum': want = [Fraction(sum(vals))]
        elif op == 'dot': want = [Fraction(sum(v * v for v in vals))]
        else: want = [Fraction(sum(vals[:i + 1])) for i in range(len(vals))]
        res.count('V:value-method-integer-values', key=repr(c), nontrivial=True)
        if got != want or st != (False, False):
            res.fail(c, 'C15: %s by the value method on integer-valued elements with a negative fraction length is not the exact result (an int64 intermediate wrapped)' % op, expected=[str(w) for w in want], got=([str(g) for g in got], st))

def frac_bits(q):
    """the least n with q * 2**n an integer (q a dyadic rational)"""
    d = Fraction(q).denominator; return d.bit_length() - 1

def gen_target(rng):
    """the accumulating functions writing into a caller-chosen format (out= / out_like=) that holds every result exactly"""
    s = rng.random() < 0.6; nw = rng.randint(2, 8); nf = rng.randint(0, nw); lo, hi = S.fmt_bounds(s, nw)
    shape = rng.choice([(2,), (3,), (4,), (5,), (2, 2), (2, 3), (3, 2)]); n = int(math.prod(shape))
    k = rng.random()
    # (codes with trailing zero bits: the results need fewer fraction bits than the optimal format has)
    sh = rng.choice([0, 0, 1, 2, nf])
    codes = [max(lo, min(hi, (rng.choice([lo, hi, 1, rng.randint(lo, hi), rng.randint(lo, hi)]) >> sh) << sh)) for _ in range(n)]
    op = rng.choice(['sum', 'cumsum', 'prod', 'cumprod', 'cumprod', 'max', 'min'])
    if op in ('prod', 'cumprod') and n * nw > 40: return gen_target(rng)
    return {'f': [s, nw, nf], 'shape': list(shape), 'codes': codes, 'op': op, 'target': rng.choice(['out', 'out_like', 'out_np']), 'slack': rng.choice([0, 0, 1, 3]), 'route': rng.choice(['numpy', 'method'])}

def run_target(cases, res):
    fx = lib.impl(); import numpy as np
    for c in cases:
        s, nw, nf = c['f']; shape = tuple(c['shape']); op = c['op']
        arr = np.array(c['codes'], dtype=object).reshape(shape); lsb = Fraction(2) ** (-nf)
        if op == 'sum': exact = [np.sum(arr) * lsb]; eshape = []
        elif op == 'prod': exact = [np.prod(arr) * lsb ** arr.size]; eshape = []
        elif op == 'max': exact = [np.max(arr) * lsb]; eshape = []
        elif op == 'min': exact = [np.min(arr) * lsb]; eshape = []
        elif op == 'cumsum': exact = [Fraction(int(v)) * lsb for v in np.cumsum(arr)]; eshape = [arr.size]
        else: exact = [Fraction(int(v)) * lsb ** (i + 1) for i, v in enumerate(np.cumprod(arr))]; eshape = [arr.size]
        exact = [Fraction(e) for e in exact]
        tnf = max(frac_bits(e) for e in exact) + c['slack']
        tnw = max(abs(int(e * 2 ** tnf)) for e in exact).bit_length() + 1 + c['slack']
        if tnw > 53: continue
        try:
            x = A.mk(fx, np, s, nw, nf, c['codes'], shape=shape)
            tgt = fx.Fxp(np.zeros(eshape) if eshape else 0.0, True, tnw, tnf) if c['target'] != 'out_like' else fx.Fxp(None, True, tnw, tnf)
            kw = {'out_like': tgt} if c['target'] == 'out_like' else {'out': tgt}
            z = getattr(x, op)(**kw) if c['route'] == 'method' else (getattr(fx.functions, {'max': 'fxp_max', 'min': 'fxp_min'}.get(op, op))(x, **kw) if c['target'] == 'out_like' else getattr(np, op)(x, **kw))      # (out_like is not a NumPy keyword: the library function takes it)
            got = [Fraction(t) / Fraction(2) ** z.n_frac for t in lib.codes_of(z)]; fmt = A.fmt_of(z); st = lib.status3(z)
            same = z is tgt
        except Exception as e:
            res.fail(c, 'C15: %s into a caller-chosen format raised %s' % (op, lib.exc_name(e)), got=str(e)[:300]); continue
        res.count('T:into-a-target-format', key=repr(c), nontrivial=any(e != 0 for e in exact))
        if op in ('sum', 'prod') and c['target'] != 'out_like' and not (got != exact or fmt != (True, tnw, tnf) or st[0] or st[1]):
            # the model of the same call (Reduce.fxp_sum_into / fxp_prod_into, opcode 112)
            mo = model_call([[112, 0 if op == 'sum' else 2] + e_fmt(s, nw, nf) + [arr.size] + e_list(c['codes']) + e_fmt(True, tnw, tnf) + [RMODES.index('trunc'), OMODES.index('saturate')]])[0]
            kind_, rd_ = outcome(mo)
            if kind_ == 'ok': mf_ = (rd_.b(), rd_.z(), rd_.z()); mc_ = rd_.lst(rd_.z); mfl_ = (rd_.b(), rd_.b())
            if kind_ != 'ok' or mc_ != lib.codes_of(z) or mfl_ != tuple(st[:2]):
                res.fail(c, 'model Reduce.fxp_%s_into disagrees with the implementation although the property holds' % op, expected=str((kind_, mc_ if kind_ == 'ok' else None)), got=(lib.codes_of(z), st)); res.failures[-1]['no_input'] = True; continue
        if got != exact or fmt != (True, tnw, tnf) or st[0] or st[1] or lib.codes_of(x) != c['codes'] or (c['target'] != 'out_like' and not same):
            res.fail(c, 'C15: %s into a caller-chosen format that holds every result is not the exact result' % op, expected=([str(e) for e in exact[:9]], (True, tnw, tnf)), got=([str(g) for g in got[:9]], fmt, st))

def gen_free_target(rng):
    """sum / prod into ANY target format and modes (rounding and overflow act): implementation against the model only"""
    s = rng.random() < 0.6; nw = rng.choice([2, 4, 8, 12, 20, 31]); nf = rng.randint(0, nw); lo, hi = S.fmt_bounds(s, nw)
    n = rng.choice([2, 3, 4, 5]); op = rng.choice(['sum', 'sum', 'prod'])
    if op == 'prod' and n * nw > 120: n = 2
    codes = [rng.choice([lo, hi, 1, rng.randint(lo, hi), rng.randint(lo, hi)]) for _ in range(n)]
    return {'f': [s, nw, nf], 'codes': codes, 'op': op, 'free_target': [True if s else rng.random() < 0.5, rng.choice([3, 8, 16, 33, 52, 64, 70]), rng.choice([-3, 0, 1, 5, 17, 40, 64, 66])],
            'r': rng.choice(RMODES), 'o': rng.choice(OMODES), 'target': 'out', 'route': rng.choice(['numpy', 'method'])}      # (out_like= computes on the float values - the value method - and is not this model)

def run_free_target(cases, res):
    fx = lib.impl(); import numpy as np
    pend = []; reqs = []
    for c in cases:
        s, nw, nf = c['f']; op = c['op']; ts, tnw, tnf = c['free_target']
        try:
            x = A.mk(fx, np, s, nw, nf, c['codes'], shape=(len(c['codes']),))
            tgt = fx.Fxp(0.0 if c['target'] == 'out' else None, ts, tnw, tnf, rounding=c['r'], overflow=c['o'])
            kw = {'out_like': tgt} if c['target'] == 'out_like' else {'out': tgt}
            z = getattr(x, op)(**kw) if (c['route'] == 'method' or c['target'] == 'out_like') else getattr(np, op)(x, **kw)
            obs = (A.fmt_of(z), lib.codes_of(z), tuple(lib.status3(z)[:2]))
        except Exception as e:
            obs = ('raised', lib.exc_name(e), str(e)[:100])
        pend.append((c, obs))
        reqs.append([112, 0 if op == 'sum' else 2] + e_fmt(s, nw, nf) + [len(c['codes'])] + e_list(c['codes']) + e_fmt(ts, tnw, tnf) + [RMODES.index(c['r']), OMODES.index(c['o'])])
    outs = model_call(reqs)
    for (c, obs), mo in zip(pend, outs):
        kind_, rd_ = outcome(mo)
        res.count('F:sum-prod-into-any-format-vs-model', key=repr(c), nontrivial=True)
        if kind_ == 'ok':
            mf_ = (rd_.b(), rd_.z(), rd_.z()); mc_ = rd_.lst(rd_.z); mfl_ = (rd_.b(), rd_.b())
            if obs != (mf_, mc_, mfl_):
                res.fail(c, 'model Reduce.fxp_%s_into disagrees with the implementation (sum / prod into an arbitrary format)' % c['op'], expected=(mf_, mc_, mfl_), got=obs); res.failures[-1]['no_input'] = True
        elif kind_ == 'unmodelled': continue
        elif obs[0] != 'raised':
            res.fail(c, 'model Reduce.fxp_%s_into raises where the implementation returns' % c['op'], expected=str(kind_), got=obs); res.failures[-1]['no_input'] = True

def shard(shard, nshards, rng, tier, extra):
    res = Result()
    run_cases([gen(rng) for _ in range((15000 if tier == 'quick' else 120000) // nshards)], res)
    run_vpath_int(rng, (900 if tier == 'quick' else 8000) // nshards, res)
    run_target([gen_target(rng) for _ in range((3000 if tier == 'quick' else 25000) // nshards)], res)
    run_free_target([gen_free_target(rng) for _ in range((3000 if tier == 'quick' else 25000) // nshards)], res)
    return res

def run(seed, tier):
    return run_sharded('c15', 'shard', 16, seed, tier)
def classify(fl): return None
def replay_vpath(c):
    import random
    res = Result(); fx = lib.impl(); import numpy as np
    s, nw, nf = c['f']; vals = [cd * 2 ** (-nf) for cd in c['vcodes']]; op = c['op']
    try:
        x = fx.Fxp(vals, s, nw, nf)
        z = {'prod': lambda: x.prod(method='repr'), 'sum': lambda: x.sum(method='repr'), 'cumsum': lambda: x.cumsum(method='repr'), 'dot': lambda: x.dot(x, method='repr')}[op]()
        got = [Fraction(int(v)) / Fraction(2) ** int(z.n_frac) for v in np.asarray(z.val).reshape(-1).tolist()]
    except Exception as e:
        return {'holds': False, 'failures': [str(e)]}
    want = [Fraction(math.prod(vals))] if op == 'prod' else ([Fraction(sum(vals))] if op == 'sum' else ([Fraction(sum(v * v for v in vals))] if op == 'dot' else [Fraction(sum(vals[:i + 1])) for i in range(len(vals))]))
    return {'holds': got == want and lib.status3(z)[:2] == (False, False), 'failures': [] if got == want else ['value differs']}

def replay(payload):
    if 'vcodes' in payload.get('case', {}): return replay_vpath(payload['case'])
    if 'free_target' in payload.get('case', {}):
        res = Result(); run_free_target([payload['case']], res)
        return {'holds': not res.failures, 'failures': res.failures}
    if 'target' in payload.get('case', {}):
        res = Result(); run_target([payload['case']], res)
        return {'holds': not res.failures, 'failures': res.failures}
    res = Result(); run_cases([payload['case']], res)
    return {'holds': not res.failures, 'failures': res.failures}
