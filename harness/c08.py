# c08.py — C08: arithmetic into an imposed format equals the exact result quantized into it.
import itertools, math
from fractions import Fraction
import lib, storelib as S, arithlib as A
from lib import Result, RMODES, OMODES, model_call, run_sharded, e_fmt, e_list, Reader

RULE = ('operand format pairs with 2<=n_word<=12 and 0<=n_frac<=n_word-sign bit; sizing optimal/same/largest/smallest, raw and repr methods, all rounding x overflow modes on the governing configuration '
        '(first operand, out, or out_like), operands as objects of their own or as elements x[i] of arrays (built from codes or from integer values), explicit out objects and out_like templates of random formats (templates fresh, built with a value that does not fit, or used as a register before: the flags of the result are about the result), dyadic constants (int and float) on either side with op_input_size same/best, through operators and fxpmath.add/sub/mul; '
        'every code pair for words <=3, random codes otherwise; unary - + abs on every code of small formats. Compared: code, format, overflow/underflow flags, governing modes carried by the result, identity z is out; '
        'with the extracted Spec (exact result quantized) and the model (raw and repr). Non-trivial = the exact result is not representable in the target (rounding or overflow acts); distinct by full input.')
ASSUMPTIONS = ['targets that would store a signed result into an unsigned out/out_like are not generated (the code rejects them with ValueError by design)',
               'constants converted with op_input_size=best are taken as the Fxp the implementation builds (size inference is C06); under op_input_size=same the constant must be the plain number quantized (C01) into the fixed-point operand\'s format under that operand\'s modes, which is what like=self means']
SIZINGS = ['optimal', 'same', 'largest', 'smallest']

def small_fmt(rng, maxw=12):
    s = rng.random() < 0.6
    nw = rng.randint(2, maxw)
    nf = rng.randint(0, nw - (1 if s else 0))
    return (s, nw, nf)

def sizing_fmt(sz, op, fxm, fym):
    s = fxm[0] or fym[0]
    nix, niy = A.n_int_of(*fxm), A.n_int_of(*fym)
    if sz == 'same': ni, nf = nix, fxm[2]
    elif sz == 'largest': ni, nf = max(nix, niy), max(fxm[2], fym[2])
    elif sz == 'smallest': ni, nf = min(nix, niy), min(fxm[2], fym[2])
    else: return None
    return (s, (1 if s else 0) + ni + nf, nf)

def gen(rng, small=None):
    fxm, fym = (small[0], small[1]) if small else (small_fmt(rng), small_fmt(rng))
    op = rng.choice('+-*')
    c = {'op': op, 'x': list(fxm), 'y': list(fym), 'sizing': rng.choice(SIZINGS), 'method': rng.choice(['raw', 'repr']),
         'rx': rng.choice(RMODES), 'ox': rng.choice(OMODES), 'ry': rng.choice(RMODES), 'oy': rng.choice(OMODES),
         'target': rng.choice(['none', 'none', 'out', 'out_like']), 'route': rng.choice(['operator', 'func'])}
    if c['target'] != 'none':
        s_any = fxm[0] or fym[0]
        t = small_fmt(rng)
        if rng.random() < 0.3:      # any core-domain target, including many more fraction bits than the operands have
            nwt = rng.randint(13, 52); t = (rng.random() < 0.6, nwt, min(36, rng.choice([0, nwt // 2, nwt - 1, nwt, nwt + 8, rng.randint(0, nwt + 8)])))   # (n_frac <= 36 keeps |exact result * 2^n_frac| < 2^62, C01's domain)
        if s_any and not t[0]: t = (True, max(t[1], 2), min(t[2], max(t[1], 2) - 1))
        c['t'] = list(t); c['rt'] = rng.choice(RMODES); c['ot'] = rng.choice(OMODES); c['route'] = 'func' if rng.random() < 0.7 else 'operator'
        if c['target'] == 'out_like': c['tmpl_life'] = rng.choice(['fresh', 'big', 'used'])
    c['build'] = rng.choice(['raw', 'raw', 'indexed', 'intval_indexed'])
    if small: c['cx'], c['cy'] = small[2], small[3]
    else:
        c['cx'] = A.interesting_codes(rng, fxm[0], fxm[1], 1)[0]; c['cy'] = A.interesting_codes(rng, fym[0], fym[1], 1)[0]
    # constants: replace one operand by a plain number
    k = rng.random()
    if k < 0.25 and not small:
        c['const'] = rng.choice(['y', 'x'])      # which side is the constant
        c['const_val'] = rng.choice([rng.randint(-40, 40), rng.randint(-300, 300) / 2.0**rng.randint(0, 5)])
        c['input_size'] = rng.choice(['same', 'best'])
        c['const_sizing'] = rng.choice(SIZINGS)
        c['route'] = 'operator'; c['target'] = 'none'; c.pop('t', None)
        c['const_carrier'] = rng.choice(['py', 'py', 'np'])      # the constant as a Python number or as a NumPy scalar (np.int64 / np.float64)
        if rng.random() < 0.2: c['reuse'] = [rng.choice(RMODES), rng.choice(OMODES)]
    return c

def run_impl(c, fx, np):
    if 'prelude' in c:
        # an earlier operation of the same process with the same constant and operand format under another configuration:
        # nothing of it may survive into this one (the case is self-contained, so its replay reproduces)
        try: run_impl(c['prelude'], fx, np)
        except Exception: pass
    fxm, fym = tuple(c['x']), tuple(c['y'])
    x = A.mk(fx, np, *fxm, c['cx'], rounding=c['rx'], overflow=c['ox'])
    y = A.mk(fx, np, *fym, c['cy'], rounding=c['ry'], overflow=c['oy'])
    if c.get('build') in ('indexed', 'intval_indexed'):
        # operands obtained by indexing an array (their raw value is a NumPy scalar), built from raw codes or - integer formats - from integer values
        def elem(fm, code, r_, o_, pos):
            codes = [0, code] if pos else [code, 0]
            if c['build'] == 'intval_indexed' and fm[2] == 0: a = fx.Fxp(np.array(codes, dtype=np.int64), *fm, rounding=r_, overflow=o_)
            else: a = A.mk(fx, np, *fm, codes, shape=(2,), rounding=r_, overflow=o_)
            return a[1 if pos else 0]
        x = elem(fxm, c['cx'], c['rx'], c['ox'], 1); y = elem(fym, c['cy'], c['ry'], c['oy'], 0)
    out = out_like = None
    if c['target'] == 'out': out = fx.Fxp(None, *c['t'], rounding=c['rt'], overflow=c['ot'])
    if c['target'] == 'out_like':
        life = c.get('tmpl_life', 'fresh')
        if life == 'fresh': out_like = fx.Fxp(None, *c['t'], rounding=c['rt'], overflow=c['ot'])
        elif life == 'big':        # a template built with a value that does not fit: ITS flags are raised; the result's flags are about the result only
            out_like = fx.Fxp(2.0 ** 58 + 0.3, *c['t'], rounding=c['rt'], overflow=c['ot'])
        else:                      # a template used as a register before
            out_like = fx.Fxp(None, *c['t'], rounding=c['rt'], overflow=c['ot']); out_like(-2.0 ** 58 - 0.3); out_like(0.0)
    info = {}
    if 'const' in c:
        fxp = x if c['const'] == 'y' else y          # the Fxp operand that drives the conversion
        fxp.config.op_input_size = c['input_size']; fxp.config.const_op_sizing = c['const_sizing']; fxp.config.op_method = c['method']
        k = c['const_val']
        if c.get('const_carrier') == 'np': k = np.int64(k) if isinstance(k, int) else np.float64(k)
        if c.get('reuse'):
            # the SAME object combined with the same constant earlier, under other modes that were changed since (x.config.rounding = ...):
            # the conversion of the constant follows the configuration the object has NOW
            r_now, o_now = fxp.config.rounding, fxp.config.overflow
            fxp.config.rounding, fxp.config.overflow = c['reuse']
            try:
                if c['const'] == 'y': (x + k if c['op'] == '+' else (x - k if c['op'] == '-' else x * k))
                else: (k + y if c['op'] == '+' else (k - y if c['op'] == '-' else k * y))
            except Exception: pass
            fxp.config.rounding, fxp.config.overflow = r_now, o_now
        kf = fxp._convert_op_input_value(k)           # the fixed-point constant the operator will use (same call the operator makes)
        info['const_fmt'] = A.fmt_of(kf); info['const_code'] = lib.codes_of(kf)[0]
        info['const_cfg'] = (kf.config.rounding, kf.config.overflow)
        if c['const'] == 'y':
            z = x + k if c['op'] == '+' else (x - k if c['op'] == '-' else x * k)
        else:
            z = k + y if c['op'] == '+' else (k - y if c['op'] == '-' else k * y)
    elif c['route'] == 'operator':
        x.config.op_sizing = c['sizing']; x.config.op_method = c['method']
        if out is not None: x.config.op_out = out
        if out_like is not None: x.config.op_out_like = out_like
        z = A.do_op(fx, np, c['op'], x, y)
    else:
        z = A.do_op(fx, np, c['op'], x, y, 'func', sizing=c['sizing'], method=c['method'], out=out, out_like=out_like)
    info.update({'fmt': A.fmt_of(z), 'code': lib.codes_of(z)[0], 'status': lib.status3(z), 'cfg': (z.config.rounding, z.config.overflow),
                 'is_out': (z is out) if out is not None else None, 'x_after': lib.codes_of(x)[0], 'y_after': lib.codes_of(y)[0]})
    return info

def expected_target(c, info):
    """(first-operand fmt/code/config, second..., target format, governing modes, method used)"""
    fxm, fym = tuple(c['x']), tuple(c['y'])
    a = (fxm, c['cx'], (c['rx'], c['ox'])); b = (fym, c['cy'], (c['ry'], c['oy']))
    sizing = c['sizing']
    if 'const' in c:
        k = (info['const_fmt'], info['const_code'], info['const_cfg'])
        if c['const'] == 'y': b = k
        elif c['op'] in '+*': a, b = b, k       # k + y and k * y are y.__radd__(k) / y.__rmul__(k): the Fxp is the first operand
        else: a = k                              # k - y is sub(const, y)
        sizing = c['const_sizing']
    if c['target'] == 'out': return a, b, tuple(c['t']), (c['rt'], c['ot']), c['method']
    if c['target'] == 'out_like': return a, b, tuple(c['t']), (c['rt'], c['ot']), 'repr'
    ft = sizing_fmt(sizing, c['op'], a[0], b[0])
    return a, b, ft, a[2], c['method']

def check(cases, res, stratum):
    fx = lib.impl(); import numpy as np
    pend = []
    for c in cases:
        try:
            info = run_impl(c, fx, np)
        except Exception as e:
            res.fail(c, 'C08: %s raised %s' % (c['op'], lib.exc_name(e)), got=str(e)[:200]); continue
        pend.append((c, info))
    reqs = []
    for c, info in pend:
        a, b, ft, (r, o), meth = expected_target(c, info)
        reqs.append(A.spec_req(c['op'], a[0], a[1], b[0], b[1], ft=ft, r=r, o=o))
    outs1 = model_call(reqs)
    mreqs = []
    for (c, info), o1 in zip(pend, outs1):
        a, b, ft, (r, o), meth = expected_target(c, info)
        sp = A.read_spec(o1)
        ft2 = ft or sp['grow']
        if ft is None:      # optimal sizing: quantize into the growth format
            mreqs.append(A.spec_req(c['op'], a[0], a[1], b[0], b[1], ft=ft2, r=r, o=o))
        else:
            mreqs.append(None)
    outs2 = model_call([m for m in mreqs if m is not None]); it2 = iter(outs2)
    finals = []
    for (c, info), o1, m in zip(pend, outs1, mreqs):
        sp = A.read_spec(o1)
        if m is not None: sp = A.read_spec(next(it2))
        finals.append(sp)
    # model requests (raw or repr)
    modreq = []
    for (c, info), sp in zip(pend, finals):
        a, b, ft, (r, o), meth = expected_target(c, info)
        ft2 = ft or sp['grow']
        modreq.append([41 if meth == 'raw' else 42, A.OPS[c['op']]] + e_fmt(*a[0]) + e_list([a[1]]) + e_fmt(*b[0]) + e_list([b[1]]) + e_fmt(*ft2) + [RMODES.index(r), OMODES.index(o)])
    mouts = model_call(modreq)
    # constants under op_input_size='same': the constant is the plain number quantized into the Fxp operand's format under that operand's modes (like=self)
    creq = []; cidx = {}
    for i, (c, info) in enumerate(pend):
        if 'const' in c and c['input_size'] == 'same':
            fm = tuple(c['x']) if c['const'] == 'y' else tuple(c['y']); md = (c['rx'], c['ox']) if c['const'] == 'y' else (c['ry'], c['oy'])
            cidx[i] = (len(creq), fm, md)
            creq.append([4] + e_fmt(*fm) + [RMODES.index(md[0]), OMODES.index(md[1])] + e_list([Fraction(c['const_val'])], lib.e_dy))
    couts = model_call(creq)
    for i, ((c, info), sp, mo_raw) in enumerate(zip(pend, finals, mouts)):
        if i in cidx:
            j, fm, md = cidx[i]; rd = Reader(couts[j]); kcode = rd.lst(rd.z)[0]
            if info['const_fmt'] != fm or info['const_code'] != kcode or info['const_cfg'] != md:
                res.count(stratum, key=repr(c), nontrivial=True)
                res.fail(c, 'C08: a constant operand under op_input_size=same is not the constant quantized into the fixed-point operand\'s format under that operand\'s rounding and overflow modes',
                         expected=(fm, kcode, md), got=(info['const_fmt'], info['const_code'], info['const_cfg'])); continue
        a, b, ft, (r, o), meth = expected_target(c, info)
        ft2 = ft or sp['grow']
        nontriv = sp['ovf'] or sp['unf'] or sp['inacc']
        res.count(stratum, key=repr(c), nontrivial=nontriv)
        res.sample(c)
        if info['x_after'] != c['cx'] or info['y_after'] != c['cy']:
            res.fail(c, 'C08: an operand was modified'); continue
        if info['fmt'] != tuple(ft2):
            res.fail(c, 'C08: result format is not the imposed one', expected=ft2, got=info['fmt']); continue
        if info['code'] != sp['code']:
            res.fail(c, 'C08: result differs from the exact result quantized into the imposed format', expected={'code': sp['code'], 'exact': str(sp['exact']), 'fmt': ft2, 'modes': (r, o)}, got=info['code']); continue
        if info['status'][:2] != (sp['ovf'], sp['unf']):
            res.fail(c, 'C08: overflow/underflow flags differ from the quantization conditions', expected=(sp['ovf'], sp['unf']), got=info['status'][:2]); continue
        if info['cfg'] != (r, o):
            res.fail(c, 'C08: the result does not carry the governing rounding/overflow modes', expected=(r, o), got=info['cfg']); continue
        if c['target'] == 'out' and info['is_out'] is not True:
            res.fail(c, 'C08: the returned object is not the out object'); continue
        mo = S.read_model_store(mo_raw)
        if mo['kind'] != 'ok' or mo['codes'] != [info['code']] or mo['status'][:2] != info['status'][:2]:
            res.fail(c, 'model arithmetic (%s method) disagrees with the implementation although Spec agrees' % meth, expected=str(mo)[:200], got=info['code'])
            res.failures[-1]['no_input'] = True

def unary(rng, res, tier, shard, nshards):
    nwmax = 4 if tier == 'quick' else 7
    fmts = [(s, nw, nf) for s in (True, False) for nw in range(2, nwmax + 1) for nf in range(0, nw - (1 if s else 0) + 1)]
    for idx, (s, nw, nf) in enumerate(fmts):
        if idx % nshards != shard: continue
        lo, hi = S.fmt_bounds(s, nw)
        for c in range(lo, hi + 1):
            unary_one(res, s, nw, nf, c, rng.choice(RMODES), rng.choice(OMODES))

def unary_one(res, s, nw, nf, c, r, o, only=None):
            fx = lib.impl(); import numpy as np
            lo, hi = S.fmt_bounds(s, nw)
            x = A.mk(fx, np, s, nw, nf, c, rounding=r, overflow=o)
            for name, f, g in (('neg', lambda t: -t, lambda v: -v), ('pos', lambda t: +t, lambda v: v), ('abs', lambda t: abs(t), lambda v: abs(v))):
                if only is not None and name != only: continue
                want = g(c)
                case = {'unary': name, 'x': [s, nw, nf], 'cx': c, 'r': r, 'o': o}
                res.count('U:unary', key=(name, s, nw, nf, c), nontrivial=c != 0)
                if not (lo <= want <= hi):
                    # not representable (the negated / absolute lowest code, a negated unsigned code): the result is still an object of the
                    # format, holding the bound or the residue according to the overflow mode IT carries (well-formed: C02 / C03)
                    try: z = f(x)
                    except Exception as e:
                        res.fail(case, 'C08: unary %s raised %s' % (name, lib.exc_name(e)), got=str(e)[:200]); continue
                    m_ = 1 << nw; wr = want % m_; wr = wr - m_ if (s and wr >= m_ // 2) else wr
                    want2 = wr if z.config.overflow == 'wrap' else max(lo, min(hi, want))
                    if A.fmt_of(z) != (s, nw, nf) or lib.codes_of(z) != [want2]:
                        res.fail(case, 'C08: unary %s of a code whose exact result is not representable does not store the bound / residue its own overflow mode demands (an out-of-range code?)' % name, expected=(want2, z.config.overflow), got=(A.fmt_of(z), lib.codes_of(z), lib.status3(z)))
                    continue
                try:
                    z = f(x)
                except Exception as e:
                    res.fail(case, 'C08: unary %s raised %s' % (name, lib.exc_name(e)), got=str(e)[:200]); continue
                if A.fmt_of(z) != (s, nw, nf) or lib.codes_of(z) != [want] or lib.status3(z)[:2] != (False, False) or lib.codes_of(x) != [c]:
                    res.fail(case, 'C08: unary %s is not exact although its result is representable' % name, expected=want, got=(A.fmt_of(z), lib.codes_of(z), lib.status3(z)))

def shard(shard, nshards, rng, tier, extra):
    res = Result()
    # (A) every code pair of words <= 3 under rotating sizing / method / modes
    fmts = [(s, nw, nf) for s in (True, False) for nw in (2, 3) for nf in range(0, nw - (1 if s else 0) + 1)]
    cases = []; idx = 0
    for fxm in fmts:
        for fym in fmts:
            idx += 1
            if idx % nshards != shard: continue
            lx, hx = S.fmt_bounds(fxm[0], fxm[1]); ly, hy = S.fmt_bounds(fym[0], fym[1])
            for cx in range(lx, hx + 1):
                for cy in range(ly, hy + 1):
                    if tier == 'quick' and rng.random() < 0.5: continue
                    cases.append(gen(rng, small=(fxm, fym, cx, cy)))
    check(cases, res, 'A:all-code-pairs-small')
    check([gen(rng) for _ in range((18000 if tier == 'quick' else 150000) // nshards)], res, 'B:random')
    # (Q) the same constant and operand format under two different configurations, one operation after the other
    seq = []
    while len(seq) < (1200 if tier == 'quick' else 10000) // nshards:
        c = gen(rng)
        if 'const' not in c or c['input_size'] != 'same': continue
        c['const_val'] = rng.choice([rng.randint(-300, 300) / 2.0**rng.randint(3, 6), rng.randint(-300, 300) / 4.0, 1000, -77.125])    # mostly not representable in the operand's format
        side = 'x' if c['const'] == 'y' else 'y'
        c2 = dict(c); c2['r' + side] = rng.choice([m for m in RMODES if m != c['r' + side]]); c2['o' + side] = rng.choice(OMODES)
        c2['prelude'] = dict(c)
        if rng.random() < 0.5: c2['reuse'] = [c['r' + side], c['o' + side]]      # (also on the same object, the modes changed in between)
        seq.append(c2)
    check(seq, res, 'Q:same-constant-under-two-configurations')
    unary(rng, res, tier, shard, nshards)
    return res

def run(seed, tier):
    return run_sharded('c08', 'shard', 16, seed, tier)

def classify(fl):
    return None

def replay(payload):
    res = Result(); c = payload['case']
    if 'unary' in c:
        unary_one(res, c['x'][0], c['x'][1], c['x'][2], c['cx'], c.get('r', 'trunc'), c.get('o', 'saturate'), only=c['unary'])
        return {'holds': not res.failures, 'failures': res.failures}
    check([c], res, 'replay')
    return {'holds': not res.failures, 'failures': res.failures}
