# storelib.py — generators and runners for "store a value" cases, shared by C01, C03,
# C04, C05 (and reused by C17/C18/C19).  A case is a dict:
#   {s, nw, nf, r, o, carrier, route, vals: [int | float], shape}
import math, random, itertools
from decimal import Decimal
from fractions import Fraction
import lib
from lib import RMODES, OMODES, e_fmt, e_list, e_f64, e_dy, Reader, outcome

INT_DTYPES = ['int8', 'int16', 'int32', 'int64', 'uint8', 'uint16', 'uint32', 'uint64']
FLT_DTYPES = ['float16', 'float32', 'float64']
ROUTES = ['ctor', 'call', 'set_val', 'setitem']

def fmt_bounds(s, nw):
    return (-(1 << (nw - 1)), (1 << (nw - 1)) - 1) if s else (0, (1 << nw) - 1)

def in_core(nf, v):
    """the property's core domain for a real input v (exact Fraction)"""
    v = Fraction(v)
    return abs(v) < 2**53 and abs(v * Fraction(2)**nf) < 2**62

def is_double(v):
    v = Fraction(v)
    try:
        return Fraction(float(v)) == v
    except OverflowError:
        return False

# ---------------------------------------------------------------------------------
# carriers
# ---------------------------------------------------------------------------------
def carriers_for(vals, rng, want_all=False):
    """names of the carriers that can hold [vals] exactly"""
    import numpy as np
    n = len(vals)
    all_int = all(isinstance(v, int) for v in vals)
    out = []
    if n == 1:
        out.append('pyint' if all_int else 'pyfloat')
        out.append('str')
        if not all_int: out.append('str_exp')      # (the same decimal number in exponent notation, no point: '25e-1')
    if all_int:
        for dt in INT_DTYPES:
            info = np.iinfo(dt)
            if all(info.min <= v <= info.max for v in vals):
                out.append('arr:' + dt)
                if n == 1: out.append('scalar:' + dt)
                if np.dtype(dt).itemsize < 8: out.append(('listnp:' if n % 2 else 'tuplenp:') + dt)    # a list / tuple of NumPy scalars
    for dt in FLT_DTYPES:
        ok = True
        for v in vals:
            with np.errstate(all='ignore'):
                c = np.dtype(dt).type(v)
            if not np.isfinite(c) or Fraction(float(c)) != Fraction(v):
                ok = False; break
        if ok:
            out.append('arr:' + dt)
            if n == 1: out.append('scalar:' + dt)
            if np.dtype(dt).itemsize < 8: out.append(('listnp:' if n % 2 else 'tuplenp:') + dt)
    out += ['list', 'tuple', 'list_str', 'arr_str']
    if n == 1: out.append('decimal')                      # (decimal.Decimal scalar holding exactly the value)
    if n >= 2 and not all(isinstance(v, int) for v in vals) and any(float(v) == int(v) for v in vals): out.append('arr_obj')   # (an object ndarray mixing Python ints and floats)
    if n == 1: out.append('npstr')
    if n >= 2 and n % 2 == 0: out += ['nested', 'arr2d']
    if n >= 4 and n % 2 == 0: out.append('arr2d_T')           # (a transposed view: the same 2 x n/2 matrix, not C-contiguous)
    if n >= 2 and n % 2 == 0 and not all_int and float(vals[0]) == int(float(vals[0])): out.append('arr_obj2d')    # (a 2-D object ndarray, a Python int first, floats elsewhere)
    if n >= 2 and float(vals[0]) == int(float(vals[0])) and not all_int:
        ok = True
        for v in vals[1:]:
            with np.errstate(all='ignore'): c = np.float32(v)
            if not np.isfinite(c) or Fraction(float(c)) != Fraction(v): ok = False; break
        if ok: out.append('arr_obj_f32')                      # (an object ndarray: a Python int first, np.float32 scalars elsewhere)
    return out

def dec_str(v):
    if isinstance(v, int): return str(v)
    return format(Decimal(v), 'f')

def exp_str(v):
    """a dyadic value as a decimal string in exponent notation without a point: 2.5 -> '25e-1'"""
    q = Fraction(v); k = 0
    while q.denominator != 1: q *= 10; k += 1
    e_ = 'E' if (q.numerator // 3) % 2 else 'e'          # (both spellings of the exponent marker)
    return '%d%s-%d' % (q.numerator, e_, k) if k else '%d%s0' % (q.numerator, e_)

def build_carrier(name, vals):
    import numpy as np
    if name in ('pyint', 'pyfloat'): return vals[0]
    if name == 'str': return dec_str(vals[0])
    if name == 'str_exp': return exp_str(vals[0])
    if name == 'list': return list(vals)
    if name == 'tuple': return tuple(vals)
    if name == 'list_str': return [dec_str(v) for v in vals]
    if name == 'arr_str': return np.array([dec_str(v) for v in vals])
    if name == 'npstr': return np.str_(dec_str(vals[0]))
    if name.startswith('fxp_src:'):
        # the values handed over by ANOTHER fixed-point object that holds them exactly (word W, fraction F; built from Python ints - an integer value
        # type - or from floats; an array, or a 0-d object for one value with shape 's')
        import lib as _lib
        fx = _lib.impl(); _, W, F, kind, shp = name.split(':'); W = int(W); F = int(F)
        src_vals = [int(v) for v in vals] if kind == 'int' else [float(v) for v in vals]
        return fx.Fxp(src_vals[0] if shp == 's' else src_vals, True, W, F)
    if name == 'decimal': return Decimal(vals[0])
    if name == 'list_int_then_dec': return [int(vals[0])] + [Decimal(v) for v in vals[1:]]      # (a Python int first, Decimals later: the kind of the first element must not decide for the others)
    if name == 'list_dec_first': return [Decimal(vals[0])] + [float(v) for v in vals[1:]]      # (a Decimal first: the list takes the Python-object path)
    if name == 'decimal_long': return Decimal(vals[0])                  # (vals are decimal STRINGS with more digits than a double holds)
    if name == 'decimal_long_list': return [Decimal(v) for v in vals]
    if name == 'arr_obj': return np.array([int(v) if float(v) == int(v) else float(v) for v in vals], dtype=object)
    if name.startswith('listnp:'): return [np.dtype(name[7:]).type(v) for v in vals]
    if name.startswith('tuplenp:'): return tuple(np.dtype(name[8:]).type(v) for v in vals)
    if name == 'nested': return [list(vals[:len(vals)//2]), list(vals[len(vals)//2:])]
    if name == 'arr2d':
        dt = np.int64 if all(isinstance(v, int) for v in vals) and all(-2**63 <= v < 2**63 for v in vals) else np.float64
        return np.array(vals, dtype=dt).reshape(2, -1)
    if name == 'arr2d_T':
        dt = np.int64 if all(isinstance(v, int) for v in vals) and all(-2**63 <= v < 2**63 for v in vals) else np.float64
        m_ = np.array(vals, dtype=dt).reshape(2, -1)
        return np.ascontiguousarray(m_.T).T           # (the same matrix as a transposed view of its C-contiguous transpose)
    if name == 'arr_obj2d':
        return np.array([int(float(vals[0]))] + [int(v) if (isinstance(v, int)) else float(v) for v in vals[1:]] + [None], dtype=object)[:-1].reshape(2, -1)
    if name == 'arr_obj_f32':
        return np.array([int(float(vals[0]))] + [np.float32(v) for v in vals[1:]] + [None], dtype=object)[:-1]
    kind, dt = name.split(':')
    if kind == 'scalar': return np.dtype(dt).type(vals[0])
    return np.array(vals, dtype=dt)

def carrier_model_arr(name, vals):
    """the (arr, vdt) the model receives: what np.array(carrier) / item(0) give.  Carrier
    glue (np.array dtype inference, float(str)) is outside the model and sampled only."""
    all_int = all(isinstance(v, int) for v in vals)
    if name == 'str_exp': return ('f', [float(v) for v in vals])
    if name in ('list_str', 'str', 'arr_str', 'npstr'):
        # str2num: float(x) if '.' in x or n_frac > 0 else int(x) -> decided by caller via [str_is_float]
        raise ValueError('string carriers are resolved by the caller')
    if name.startswith('arr:float') or name.startswith('scalar:float') or name.startswith('listnp:float') or name.startswith('tuplenp:float') or name == 'pyfloat' or name in ('decimal', 'arr_obj', 'arr_obj2d', 'arr_obj_f32') or not all_int:
        return ('f', [float(v) for v in vals])
    return ('i', [int(v) for v in vals])

def model_arr_enc(kind, vals):
    if kind == 'i':
        if all(-2**63 <= v < 2**63 for v in vals): return [0] + e_list(vals), 0
        if all(0 <= v < 2**64 for v in vals): return [1] + e_list(vals), 0
        return [3] + e_list(vals, lambda z: [0, z]), 0
    return [2] + e_list(vals, e_f64), 1

# ---------------------------------------------------------------------------------
# running the implementation
# ---------------------------------------------------------------------------------
class Recorder:
    """a Callback-like object recording the invocations in order"""
    def __init__(self): self.log = []
    def on_status_overflow(self, obj): self.log.append('ovf')
    def on_status_underflow(self, obj): self.log.append('unf')
    def on_status_inaccuracy(self, obj): self.log.append('inacc')
    def on_value_change(self, obj): self.log.append('change')

class Acknowledger:
    """a callback object that acknowledges every event by clearing the flags of the object at once (a 'log and reset' handler):
    what is stored does not depend on it"""
    def on_status_overflow(self, obj): obj.reset()
    def on_status_underflow(self, obj): obj.reset()
    def on_status_inaccuracy(self, obj): obj.reset()
    def on_value_change(self, obj): pass

def run_impl_store(case, with_callbacks=False):
    """returns dict(codes, getval, asfloat, status, events, shape) or dict(exc=...)"""
    fx = lib.impl(); import numpy as np
    s, nw, nf = case['s'], case['nw'], case['nf']
    kw = dict(rounding=case['r'], overflow=case['o'])
    vals = case['vals']
    val = build_carrier(case['carrier'], vals)
    rec = Recorder() if with_callbacks else None
    if rec is not None: kw['callbacks'] = [rec]
    if case.get('ack'): kw['callbacks'] = [Acknowledger()]
    try:
        route = case['route']
        if route == 'ctor':
            x = fx.Fxp(val, s, nw, nf, **kw)
        elif route == 'call':
            x = fx.Fxp(None, s, nw, nf, **kw)
            if rec: rec.log.clear()
            x(val)
        elif route == 'set_val':
            x = fx.Fxp(None, s, nw, nf, **kw)
            if rec: rec.log.clear()
            x.set_val(val)
        elif route == 'setitem':
            n = len(vals)
            x = fx.Fxp(np.zeros(n, dtype=int), s, nw, nf, **kw)
            if rec: rec.log.clear()
            mode = case.get('setmode', 'slice')
            flat = np.asarray(val).reshape(-1) if not isinstance(val, (int, float, str)) else [val]
            if mode == 'view':
                # element writes THROUGH A VIEW (row = x[1]; row[i] = v) of a 2-D object: the value lands in x rounded and overflowed by x's modes
                x = fx.Fxp(np.zeros((2, n), dtype=int), s, nw, nf, **kw)
                if rec: rec.log.clear()
                row = x[1]
                for i in range(n): row[i] = flat[i].item() if hasattr(flat[i], 'item') else flat[i]
                x = x[1]
            elif case['carrier'] in ('pyint', 'pyfloat', 'str', 'str_exp', 'npstr') or str(case['carrier']).startswith('scalar:'):
                x[0] = val
            elif mode == 'each':
                for i in range(n): x[i] = flat[i].item() if hasattr(flat[i], 'item') else flat[i]
            elif mode == 'fancy':
                idx = list(range(n))[::-1]
                x[idx] = [flat[i] for i in idx] if isinstance(val, (list, tuple)) and not isinstance(val[0], (list, tuple)) else flat[idx]
            else:
                x[:] = flat if not isinstance(val, (list, tuple)) else list(flat)
        else:
            raise ValueError(route)
        codes = lib.codes_of(x)
        gv = x.get_val()
        return {'codes': codes, 'getval': lib.vals_of(gv), 'asfloat': lib.vals_of(x.astype(float)),
                'status': lib.status3(x), 'events': list(rec.log) if rec else None,
                'shape': tuple(np.asarray(x.val).shape), 'valdtype': str(np.asarray(x.val).dtype)}
    except Exception as e:
        return {'exc': lib.exc_name(e), 'msg': str(e)[:200]}

# ---------------------------------------------------------------------------------
# model / spec requests
# ---------------------------------------------------------------------------------
def str_vals_as_model(case):
    """resolve decimal-string carriers the way utils.str2num does: float if '.' in the
    string or n_frac > 0, else int"""
    out = []
    for v in case['vals']:
        sv = dec_str(v)
        if '.' in sv or case['nf'] > 0: out.append(float(sv))
        else: out.append(int(sv))
    return out

def model_inputs(case):
    """(kind, vals) as the model sees the carrier"""
    name = case['carrier']
    if name in ('str', 'list_str', 'arr_str', 'npstr'):
        vals = str_vals_as_model(case)
        if name in ('list_str', 'arr_str') and not all(isinstance(v, int) for v in vals):
            vals = [float(v) for v in vals]
        kind = 'i' if all(isinstance(v, int) for v in vals) else 'f'
        return kind, vals
    if name in ('list', 'tuple', 'nested'):
        if all(isinstance(v, int) for v in case['vals']): return 'i', [int(v) for v in case['vals']]
        return 'f', [float(v) for v in case['vals']]
    return carrier_model_arr(name, case['vals'])

def model_store_request(case, raw=False):
    kind, vals = model_inputs(case)
    arr, vd = model_arr_enc(kind, vals)
    return [10] + e_fmt(case['s'], case['nw'], case['nf']) + [RMODES.index(case['r']), OMODES.index(case['o']), 1 if raw else 0] + arr + [vd]

def spec_requests(case):
    f = e_fmt(case['s'], case['nw'], case['nf'])
    ro = [RMODES.index(case['r']), OMODES.index(case['o'])]
    reqs = []
    for v in case['vals']:
        d = e_dy(Fraction(v))
        reqs.append([1] + f + ro + d)
        reqs.append([2] + f + ro + d)
    return reqs

def read_model_store(ints):
    kind, r = outcome(ints)
    if kind != 'ok': return {'kind': kind, 'exc': r}
    codes = r.lst(r.z)
    ovf, unf, inacc = r.b(), r.b(), r.b()
    back = r.lst(r.f64)
    return {'kind': 'ok', 'codes': codes, 'status': (ovf, unf, inacc), 'back': back}

# ---------------------------------------------------------------------------------
# value generators
# ---------------------------------------------------------------------------------
def quarter_lsb_sweep(s, nw, nf):
    """every quarter-LSB input over three times the representable range"""
    lo, hi = fmt_bounds(s, nw)
    span = hi - lo + 1
    out = []
    for k in range(4 * (lo - span), 4 * (hi + span) + 1):
        v = Fraction(k, 4) / (Fraction(2) ** nf)
        out.append(v)
    return out

def as_number(v):
    """Fraction -> int when integral else float (exact by construction)"""
    v = Fraction(v)
    if v.denominator == 1: return int(v)
    f = float(v)
    assert Fraction(f) == v
    return f

def random_format(rng, max_word=52):
    nw = rng.choice([1, 2, 3, 4, 5, 6, 7, 8, 12, 16, 24, 31, 32, 33, 40, 48, 51, 52, rng.randint(1, max_word)])
    nw = min(nw, max_word)
    nf = rng.choice([-8, -3, -1, 0, 1, nw // 2, nw - 1, nw, nw + 1, nw + 8, rng.randint(-8, nw + 8)])
    return rng.random() < 0.6, nw, nf

def boundary_values(rng, s, nw, nf, count):
    """values around the format: both bounds +-1, ties, zero, beyond the range, random"""
    lo, hi = fmt_bounds(s, nw)
    span = hi - lo + 1
    out = []
    fb_max = max(0, min(3, 53 - (nw + 2)))
    def val(code, num, fb):
        return (Fraction(code) + Fraction(num, 1 << fb)) / (Fraction(2) ** nf)
    anchors = [lo, hi, 0, -1, 1, lo - 1, hi + 1, lo + 1, hi - 1, lo - span, hi + span, hi // 2, lo // 2, hi + span // 2, lo - span // 2 - 1]
    while len(out) < count:
        k = rng.random()
        fb = rng.randint(0, fb_max)
        if k < 0.45:
            c = rng.choice(anchors) + rng.choice([0, 0, 1, -1, 2, -2])
        elif k < 0.8:
            c = rng.randint(lo - span // 2 - 2, hi + span // 2 + 2)
        else:
            c = rng.randint(lo - 2 * span, hi + 2 * span)
        num = rng.choice([0, 0, 1 << max(fb - 1, 0), rng.randint(0, (1 << fb) - 1) if fb else 0])
        v = val(c, num, fb)
        if in_core(nf, v) and is_double(v):
            out.append(v)
        elif len(out) == 0 and rng.random() < 0.05:
            out.append(Fraction(0))
    return out

# ---------------------------------------------------------------------------------
# the common comparison: implementation vs Spec (property predicate) vs model
# ---------------------------------------------------------------------------------
from lib import model_call
def spec_list_request(case):
    return [4] + e_fmt(case['s'], case['nw'], case['nf']) + [RMODES.index(case['r']), OMODES.index(case['o'])] + \
           e_list([Fraction(v) for v in case['vals']], e_dy)

def check_store_cases(cases, res, stratum, pid, huge=False, keep_array=False):
    """run implementation, Spec and model on the cases; record failures"""
    impl_out = [run_impl_store(c) for c in cases]
    reqs = []
    for c in cases:
        reqs.append(spec_list_request(c))
        reqs.append(model_store_request(c))
    outs = model_call(reqs)
    for i, c in enumerate(cases):
        io = impl_out[i]
        sp = Reader(outs[2 * i]); spec_codes = sp.lst(sp.z)
        mo = read_model_store(outs[2 * i + 1])
        nf = c['nf']
        exact_vals = [Fraction(v) for v in c['vals']]
        nontrivial = any(Fraction(sc) / Fraction(2) ** nf != v for sc, v in zip(spec_codes, exact_vals))
        res.count(stratum, key=(c['s'], c['nw'], c['nf'], c['r'], c['o'], c['carrier'], c['route'], tuple(c['vals'])), nontrivial=nontrivial, n=len(c['vals']))
        res.sample({k: c[k] for k in ('s', 'nw', 'nf', 'r', 'o', 'carrier', 'route')} | {'vals': c['vals'][:6], 'codes': spec_codes[:6]})
        small = dict(c); small['vals'] = list(c['vals'])
        if 'exc' in io:
            res.fail(small, pid + ': storing an in-domain value raised %s' % io['exc'], expected=spec_codes[:20], got=io.get('msg'))
            continue
        if io['codes'] != spec_codes:
            j = next(k for k in range(len(spec_codes)) if k >= len(io['codes']) or io['codes'][k] != spec_codes[k])
            one = dict(small); one['index_in_original'] = j
            if not (huge or keep_array or c['carrier'] == 'arr_obj'):          # (with a huge neighbour, or in a mixed object array, the whole array is the failing input)
                one['vals'] = [c['vals'][j]] * (2 if c['carrier'] in ('nested', 'arr2d') else 1) if c['carrier'] not in ('arr2d_T', 'arr_obj2d', 'arr_obj_f32') else list(c['vals'])   # (two-row carriers need an even count)
            res.fail(one, pid + ': stored code differs from OVERFLOW(ROUND(v*2^n_frac))', expected=spec_codes[j], got=io['codes'][j] if j < len(io['codes']) else None)
            continue
        want_back = [Fraction(cd) / Fraction(2) ** nf for cd in io['codes']]
        if io['getval'] != want_back or io['asfloat'] != want_back:
            res.fail(small, pid + ': value read back is not code*2^-n_frac', expected=[str(w) for w in want_back[:8]], got=[str(w) for w in io['getval'][:8]])
            continue
        want_shape = case_shape(c)
        if want_shape is not None and tuple(io['shape']) != tuple(want_shape):
            res.fail(small, pid + ': shape of the stored array differs from the input', expected=want_shape, got=io['shape'])
            continue
        if not huge:
            if mo['kind'] != 'ok':
                res.fail(small, 'model set_val_real is %s on an in-domain input (model no longer reflects the domain)' % mo['kind'], got=mo.get('exc'))
                res.failures[-1]['no_input'] = True
            elif mo['codes'] != io['codes'] or mo['back'] != want_back:
                res.fail(small, 'model set_val_real disagrees with the implementation although the Spec agrees', expected=mo['codes'][:8], got=io['codes'][:8])
                res.failures[-1]['no_input'] = True

def case_shape(c):
    n = len(c['vals']); name = c['carrier']
    if c['route'] == 'setitem': return (n,)
    if name in ('pyint', 'pyfloat', 'str', 'str_exp', 'npstr', 'decimal') or name.startswith('scalar:'): return ()
    if name in ('nested', 'arr2d', 'arr2d_T', 'arr_obj2d'): return (2, n // 2)
    return (n,)

