# c05.py — C05: rounding contracts (direction, error bound, tie parity), idempotence,
# monotonicity.  The relations are evaluated directly on the implementation's output with
# exact rationals — never through the reference quantizer.
import itertools, math
from fractions import Fraction
import lib, storelib as S
from lib import Result, RMODES, OMODES, run_sharded

RULE = ('same input stream as C01 (exhaustive quarter-LSB sweeps of formats with n_word<=3 quick / <=6 thorough; random core formats to 52 bits; scalar and array carriers); '
        'for every non-overflowing element the direction / bound / tie-parity relation of its mode is evaluated on the stored code; idempotence: every code of small formats '
        'and random codes of large ones re-stored in all ten mode pairs (also x(x())); monotonicity: sorted inputs under saturate must give sorted codes. '
        'Non-trivial = the element is not representable (rounding acted); distinct by full input.')
ASSUMPTIONS = ['"does not overflow" is decided per mode with elementary functions: floor / ceil / trunc of the exactly scaled input inside the range (both neighbours for around)']

def relation_ok(r, c, v, nf):
    """contract of mode r for stored code c and exact input v (Fractions)"""
    lsb = Fraction(2) ** (-nf)
    q = c * lsb
    if abs(q - v) >= lsb: return False, 'error >= 1 LSB'
    if r == 'floor':
        return (q <= v < q + lsb), 'floor: q <= v < q+LSB'
    if r == 'ceil':
        return (q - lsb < v <= q), 'ceil: q-LSB < v <= q'
    if r in ('trunc', 'fix'):
        return (abs(q) <= abs(v) < abs(q) + lsb and q * v >= 0), 'trunc/fix: nearest not farther from zero'
    if r == 'around':
        if abs(q - v) > lsb / 2: return False, 'around: |q-v| <= LSB/2'
        if abs(q - v) == lsb / 2 and c % 2 != 0: return False, 'around: even code on an exact tie'
        return True, ''
    return False, 'unknown mode'

def res_failed_here(res, c):
    return bool(res.failures) and res.failures[-1]['case'].get('vals') is not None and res.failures[-1]['case'].get('_id') == id(c)

def check_relations(cases, res, stratum, keep_array=False):
    for c in cases:
        io = S.run_impl_store(c)
        s, nw, nf, r = c['s'], c['nw'], c['nf'], c['r']
        lo, hi = S.fmt_bounds(s, nw)
        if 'exc' in io:
            res.fail(c, 'C05: storing an in-domain value raised %s' % io['exc'], got=io.get('msg')); continue
        nontriv = False; all_inside = True; n_inside = 0
        for j, (v, code) in enumerate(zip(c['vals'], io['codes'])):
            v = Fraction(v); sc = v * Fraction(2) ** nf
            # "does not overflow": the integer(s) the mode may legitimately produce are inside the range
            if r == 'floor': cand = [math.floor(sc)]
            elif r == 'ceil': cand = [math.ceil(sc)]
            elif r in ('trunc', 'fix'): cand = [math.trunc(sc)]
            else: cand = [math.floor(sc), math.ceil(sc)]
            if not all(lo <= t <= hi for t in cand): continue
            all_inside = all_inside and True
            n_inside += 1
            if sc.denominator != 1: nontriv = True
            ok, why = relation_ok(r, code, v, nf)
            if not ok:
                one = dict(c)
                if keep_array or c['carrier'] in ('arr_obj', 'arr2d_T', 'arr_obj2d', 'arr_obj_f32', 'list_int_then_dec'): one['index_in_original'] = j          # (the neighbours are part of the failing input)
                else: one['vals'] = [c['vals'][j]]
                res.fail(one, 'C05: rounding contract violated (%s)' % why, expected='relation holds', got={'code': code, 'v': str(v)})
                break
        if n_inside == len(c['vals']) and io['status'][:2] != (False, False) and not res_failed_here(res, c):
            res.fail(c, 'C05: overflow/underflow flag raised although no element overflows', expected=(False, False), got=io['status'][:2])
        res.count(stratum, key=(s, nw, nf, r, c['o'], c['carrier'], c['route'], tuple(c['vals'])), nontrivial=nontriv, n=len(c['vals']))
        res.sample({k: c[k] for k in ('s', 'nw', 'nf', 'r', 'o', 'carrier', 'route')} | {'vals': c['vals'][:5], 'codes': io['codes'][:5]})
        # monotonicity under saturate on the whole (sorted) array, overflowing values included
        if c['o'] == 'saturate':
            pairs = sorted(zip([Fraction(v) for v in c['vals']], io['codes']))
            for (v1, c1), (v2, c2) in zip(pairs, pairs[1:]):
                if c1 > c2:
                    one = dict(c); one['vals'] = [S.as_number(v1), S.as_number(v2)]
                    res.fail(one, 'C05: quantization under saturate is not monotone', expected='q(v1) <= q(v2)', got=[c1, c2]); break

def idempotence(rng, res, tier, shard, nshards):
    fx = lib.impl(); import numpy as np
    nwmax = 3 if tier == 'quick' else 6
    fmts = [(s, nw, nf) for s in (True, False) for nw in range(1, nwmax + 1) for nf in range(-8, nw + 9)]
    work = [(f, None) for i, f in enumerate(fmts) if i % nshards == shard]
    for _ in range((1200 if tier == 'quick' else 8000) // nshards):
        work.append((S.random_format(rng), 6))
    for (s, nw, nf), k in work:
        lo, hi = S.fmt_bounds(s, nw)
        if k is None: codes = list(range(lo, hi + 1))
        else: codes = [lo, hi, 0, lo + 1, hi - 1] + [rng.randint(lo, hi) for _ in range(k)]
        vals = [Fraction(c) / Fraction(2) ** nf for c in codes]
        if not all(S.in_core(nf, v) and S.is_double(v) for v in vals): continue
        nums = [S.as_number(v) for v in vals]
        for r, o in itertools.product(RMODES, OMODES):
            case = {'s': s, 'nw': nw, 'nf': nf, 'r': r, 'o': o, 'codes': codes}
            try:
                x = fx.Fxp(np.array([float(v) for v in nums]) if not all(isinstance(t, int) for t in nums) else nums, s, nw, nf, rounding=r, overflow=o)
                first = lib.codes_of(x); st1 = lib.status3(x)
                x(x())                      # re-storing an object's own value is a no-op
                second = lib.codes_of(x); st2 = lib.status3(x)
            except Exception as e:
                res.fail(case, 'C05: storing representable values raised %s' % lib.exc_name(e), got=str(e)[:200]); continue
            res.count('I:idempotence', key=(s, nw, nf, r, o, tuple(codes)), nontrivial=True, n=len(codes))
            if first != codes or second != codes:
                res.fail(case, 'C05: a representable value is not stored unchanged', expected=codes[:10], got=(first[:10], second[:10])); continue
            if st1 != (False, False, False) or st2 != (False, False, False):
                res.fail(case, 'C05: storing a representable value raised a status flag', expected=(False, False, False), got=(st1, st2))

def decimal_long(rng, n, res):
    """decimal.Decimal inputs with MORE digits than a double holds, a hair off a representable value or off a tie (fraction lengths of
    either sign): the decimal is an exact rational, rounded once by the configured mode"""
    from decimal import Decimal, getcontext
    cases = []
    for _ in range(n):
        s, nw, nf = S.random_format(rng, max_word=24)
        lo, hi = S.fmt_bounds(s, nw)
        code = rng.randint(max(lo, -2 ** 20) + 1, min(hi, 2 ** 20) - 1) if hi - lo > 2 else 0
        half = rng.choice([0, 0, 1])                     # on a representable value, or on a tie
        eps = rng.choice([1, -1]) * Fraction(1, 10 ** rng.choice([20, 22, 25]))
        v = (Fraction(2 * code + half, 2)) / Fraction(2) ** nf + eps * (Fraction(1) / Fraction(2) ** nf)
        # v as an exact decimal string (v is a dyadic rational plus a decimal fraction: finitely many decimal digits)
        getcontext().prec = 400
        d = Decimal(v.numerator) / Decimal(v.denominator)
        if Fraction(d) != v: continue
        cases.append({'s': s, 'nw': nw, 'nf': nf, 'r': rng.choice(RMODES), 'o': rng.choice(OMODES), 'carrier': rng.choice(['decimal_long', 'decimal_long_list']),
                      'route': rng.choice(S.ROUTES[:3]), 'vals': [format(d, 'f')], 'setmode': 'slice'})
    check_relations(cases, res, 'D:long-decimals')

def shard(shard, nshards, rng, tier, extra):
    res = Result()
    nwmax = 3 if tier == 'quick' else 6
    fmts = [(s, nw, nf) for s in (True, False) for nw in range(1, nwmax + 1) for nf in range(-8, nw + 9)]
    cases = []
    for idx, (s, nw, nf) in enumerate(fmts):
        if idx % nshards != shard: continue
        sweep = [S.as_number(v) for v in S.quarter_lsb_sweep(s, nw, nf)]
        for mi, (r, o) in enumerate(itertools.product(RMODES, OMODES)):
            cases.append({'s': s, 'nw': nw, 'nf': nf, 'r': r, 'o': o, 'carrier': 'arr:float64', 'route': S.ROUTES[(idx + mi) % 4], 'vals': sweep, 'setmode': 'slice'})
    check_relations(cases, res, 'A:exhaustive-quarter-LSB')
    cases = []
    for _ in range((15000 if tier == 'quick' else 150000) // nshards):
        s, nw, nf = S.random_format(rng)
        vals = [S.as_number(v) for v in S.boundary_values(rng, s, nw, nf, rng.choice([1, 1, 2, 5]))]
        cases.append({'s': s, 'nw': nw, 'nf': nf, 'r': rng.choice(RMODES), 'o': rng.choice(OMODES), 'carrier': rng.choice(S.carriers_for(vals, rng)),
                      'route': rng.choice(S.ROUTES), 'vals': vals, 'setmode': rng.choice(['slice', 'each', 'view'])})
        if len(vals) >= 2 and float(vals[0]) == int(float(vals[0])) and rng.random() < 0.25:
            cases[-1]['carrier'] = 'list_int_then_dec'; cases[-1]['setmode'] = 'slice'
    check_relations(cases, res, 'B:random-formats')
    # ---- (T) n_frac < 0: non-zero floats whose scaled value underflows to zero, in arrays together with exact zeros (of either sign) and
    # representable values, in any order: a repair applied to the vanishing element must not touch its neighbours
    cases = []
    for _ in range((1800 if tier == 'quick' else 15000) // nshards):
        s, nw, nf = S.random_format(rng); nf = -rng.randint(1, 8)
        vals = [rng.choice([1, -1]) * rng.choice([5e-324, 2.0 ** -1074, 2.0 ** rng.randint(-1074, -1060), 3 * 2.0 ** -1074]) for _k in range(rng.choice([1, 1, 2]))]
        vals += [rng.choice([0.0, -0.0, 0.0, float(rng.randint(0, 3) * 2 ** -nf), float(2 ** (-nf - 1))]) for _k in range(rng.choice([1, 2, 3]))]
        if not s: vals = [abs(v) for v in vals]
        rng.shuffle(vals)
        cases.append({'s': s, 'nw': nw, 'nf': nf, 'r': rng.choice(RMODES), 'o': rng.choice(OMODES), 'carrier': rng.choice(['arr:float64', 'list', 'tuple', 'list_dec_first']),
                      'route': rng.choice(S.ROUTES[:3]), 'vals': vals, 'setmode': 'slice'})
    check_relations(cases, res, 'T:vanishing-next-to-zeros', keep_array=True)
    # ---- (F) the values handed over by another fixed-point object (constructor, call, set_val): sources of 16..70 bits holding the values exactly,
    # integer-valued (built from Python ints) or not, arrays and 0-d objects; the destination is a random core format (negative n_frac included)
    cases = []
    for _ in range((3000 if tier == 'quick' else 25000) // nshards):
        s, nw, nf = S.random_format(rng)
        if rng.random() < 0.5: nf = -rng.randint(1, 6)
        W = rng.choice([16, 32, 53, 63, 64, 64, 65, 70]); kind = rng.choice(['int', 'int', 'flt']); F = 0 if kind == 'int' else rng.choice([0, 2, 5])
        lo, hi = S.fmt_bounds(s, nw); n = rng.choice([1, 1, 3, 4])
        def one():
            # around the destination's grid: a code, plus a part of the destination LSB that the source's grid can hold
            c = rng.choice([lo, hi, 0, 1, -1 if s else 1, rng.randint(lo, hi), rng.randint(lo, hi)])
            v = Fraction(c) / Fraction(2) ** nf + Fraction(rng.randint(-8, 8), 8) / Fraction(2) ** nf
            v = Fraction(math.floor(v * 2 ** F), 2 ** F)
            lim = 2 ** (min(W, 60) - 1 - F)
            return max(-lim, min(lim - 1, v)) if (s or v >= 0) else abs(v)
        vals = [one() for _k in range(n)]
        if any(abs(v) >= 2 ** 45 for v in vals): continue
        vals = [int(v) if kind == 'int' else S.as_number(v) for v in vals]
        cases.append({'s': s, 'nw': nw, 'nf': nf, 'r': rng.choice(RMODES), 'o': rng.choice(OMODES), 'carrier': 'fxp_src:%d:%d:%s:%s' % (W, F, kind, 's' if n == 1 and rng.random() < 0.5 else 'a'),
                      'route': rng.choice(S.ROUTES[:3]), 'vals': vals, 'setmode': 'slice'})
    check_relations(cases, res, 'F:from-another-fixed-point-object', keep_array=True)
    idempotence(rng, res, tier, shard, nshards)
    decimal_long(rng, (600 if tier == 'quick' else 15000) // nshards, res)
    res.exhaustive = True
    return res

def run(seed, tier):
    return run_sharded('c05', 'shard', 16, seed, tier)

def classify(fl):
    return None

def replay(payload):
    c = payload['case']; res = Result()
    if 'vals' in c: check_relations([c], res, 'replay')
    else:
        import random
        res.notes.append('idempotence case: rerun ./check C05')
    return {'holds': not res.failures, 'failures': res.failures}
