# lib.py — shared machinery of the correspondence check: talking to the extracted
# model, encoding values, importing the implementation from the working tree,
# parallel sharding, result bookkeeping.
import os, sys, json, math, random, subprocess, tempfile, time, traceback, hashlib
from fractions import Fraction

VERIF = os.path.dirname(os.path.dirname(os.path.abspath(__file__)))
REPO = os.environ.get('VERIF_REPO', '/repo')
DRIVER = os.environ.get('VERIF_DRIVER') or os.path.join(VERIF, 'build', 'driver')      # (the override is for trying a model change out of tree; the registered commands never set it)

RMODES = ['trunc', 'fix', 'floor', 'ceil', 'around']
OMODES = ['saturate', 'wrap']

# ----------------------------------------------------------------------------
# implementation import (always from the working tree, never an installed copy)
# ----------------------------------------------------------------------------
_impl = None
def impl():
    global _impl
    if _impl is None:
        import warnings
        warnings.filterwarnings('ignore')
        if sys.path[0] != REPO:
            sys.path.insert(0, REPO)
        for m in [k for k in sys.modules if k == 'fxpmath' or k.startswith('fxpmath.')]:
            del sys.modules[m]
        import numpy as np
        np.seterr(all='ignore')
        import fxpmath
        assert os.path.abspath(fxpmath.__file__).startswith(os.path.abspath(REPO) + os.sep), fxpmath.__file__
        _impl = fxpmath
    return _impl

# ----------------------------------------------------------------------------
# wire encoding (mirrors coq/Wire.v)
# ----------------------------------------------------------------------------
def hx(z):
    z = int(z)
    return ('-%x' % -z) if z < 0 else ('%x' % z)

def enc_line(ints):
    return ' '.join(hx(z) for z in ints)

def dec_line(line):
    toks = line.split()
    if toks and toks[0] == 'ERR':
        raise RuntimeError('driver error: ' + line)
    return [int(t, 16) for t in toks]

def e_fmt(signed, n_word, n_frac):
    return [1 if signed else 0, n_word, n_frac]

def e_list(items, enc=lambda z: [z]):
    out = [len(items)]
    for it in items:
        out.extend(enc(it))
    return out

def float_me(x):
    """exact (m, e) with x == m * 2**e for a finite float"""
    n, d = float(x).as_integer_ratio()
    return n, -(d.bit_length() - 1)

def e_f64(x):
    x = float(x)
    if math.isnan(x): return [3, 0, 0]
    if math.isinf(x): return [1 if x > 0 else 2, 0, 0]
    m, e = float_me(x)
    return [0, m, e]

def e_dy(q):
    """a dyadic rational given as Fraction/int/float -> m e"""
    q = Fraction(q)
    d = q.denominator
    assert d & (d - 1) == 0, 'not dyadic: %r' % q
    return [q.numerator, -(d.bit_length() - 1)]

def e_num(x):
    if isinstance(x, float): return [1] + e_f64(x)
    return [0, int(x)]

class Reader:
    def __init__(self, ints): self.l = ints; self.i = 0
    def z(self):
        v = self.l[self.i]; self.i += 1; return v
    def b(self): return self.z() != 0
    def lst(self, item):
        n = self.z(); return [item() for _ in range(n)]
    def f64(self):
        k, m, e = self.z(), self.z(), self.z()
        if k == 0: return Fraction(m) * (Fraction(2) ** e)
        if k == 1: return math.inf
        if k == 2: return -math.inf
        return math.nan
    def done(self): return self.i >= len(self.l)

EXC_NAMES = {1: 'OverflowError', 2: 'ValueError', 3: 'TypeError', 4: 'ZeroDivisionError', 5: 'OtherError'}

def outcome(ints):
    """-> ('ok', Reader) | ('exc', name) | ('unmodelled', None) | ('bad', None)"""
    if not ints: return ('bad', None)
    if ints[0] == 0: return ('ok', Reader(ints[1:]))
    if ints[0] == 1: return ('exc', EXC_NAMES.get(ints[1], 'OtherError'))
    if ints[0] == 2: return ('unmodelled', None)
    return ('bad', None)

def model_call(requests):
    """requests: list of list-of-int; returns list of list-of-int (one driver process)"""
    if not requests: return []
    with tempfile.NamedTemporaryFile('w', suffix='.req', dir=os.path.join(VERIF, 'build'), delete=False) as fh:
        for r in requests:
            fh.write(enc_line(r)); fh.write('\n')
        path = fh.name
    try:
        with open(path) as fin:
            p = subprocess.run(['bash', '-c', 'ulimit -s unlimited 2>/dev/null; exec "$0"', DRIVER], stdin=fin, capture_output=True, text=True, timeout=3600)
        if p.returncode != 0:
            raise RuntimeError('model driver failed: rc=%s %s' % (p.returncode, p.stderr[:500]))
        lines = p.stdout.split('\n')
        if lines and lines[-1] == '': lines.pop()
        if len(lines) != len(requests):
            raise RuntimeError('model driver returned %d lines for %d requests' % (len(lines), len(requests)))
        return [dec_line(l) for l in lines]
    finally:
        os.unlink(path)

# ----------------------------------------------------------------------------
# canonicalisation of implementation observables
# ----------------------------------------------------------------------------
def codes_of(x):
    """flat list of Python ints of the stored codes of an Fxp"""
    import numpy as np
    v = np.asarray(x.val)
    return [int(t) for t in v.reshape(-1).tolist()]

def vals_of(a):
    """flat list of exact Fractions (or nan/inf floats) of a numeric result"""
    import numpy as np
    v = np.asarray(a).reshape(-1).tolist()
    out = []
    for t in v:
        if isinstance(t, float) and (math.isnan(t) or math.isinf(t)): out.append(t)
        else: out.append(Fraction(t))
    return out

def status3(x):
    s = x.status
    return (bool(s.get('overflow')), bool(s.get('underflow')), bool(s.get('inaccuracy')))

def exc_name(e):
    return type(e).__name__

def fxp_key(signed, n_word, n_frac):
    return '%s%d/%d' % ('s' if signed else 'u', n_word, n_frac)

# ----------------------------------------------------------------------------
# results
# ----------------------------------------------------------------------------
class Result:
    """accumulates what one shard (or the whole run) covered"""
    def __init__(self):
        self.evaluations = 0
        self.distinct = set()        # hashes of distinct non-trivial cases
        self.strata = {}
        self.samples = []
        self.failures = []           # dicts: {case, what, expected, got}
        self.notes = []
        self.exhaustive = None
    def count(self, stratum, key=None, nontrivial=True, n=1):
        self.evaluations += n
        self.strata[stratum] = self.strata.get(stratum, 0) + n
        if nontrivial and key is not None:
            self.distinct.add(hashlib.blake2b(repr(key).encode(), digest_size=8).digest())
    def sample(self, case, limit=6):
        if len(self.samples) < limit: self.samples.append(case)
    def fail(self, case, what, expected=None, got=None):
        # keep at most 12 failures per kind so that one frequent kind cannot hide another
        self.fail_counts = getattr(self, 'fail_counts', {})
        self.fail_counts[what] = self.fail_counts.get(what, 0) + 1
        if self.fail_counts[what] <= 12:
            self.failures.append({'case': case, 'what': what, 'expected': expected, 'got': got})
    def merge(self, other):
        self.evaluations += other.evaluations
        self.distinct |= other.distinct
        for k, v in other.strata.items(): self.strata[k] = self.strata.get(k, 0) + v
        for s in other.samples: self.sample(s, limit=8)
        self.fail_counts = getattr(self, 'fail_counts', {})
        for k, v in getattr(other, 'fail_counts', {}).items(): self.fail_counts[k] = self.fail_counts.get(k, 0) + v
        per = {}
        for fl in self.failures: per[fl['what']] = per.get(fl['what'], 0) + 1
        for fl in other.failures:
            if per.get(fl['what'], 0) < 40:
                self.failures.append(fl); per[fl['what']] = per.get(fl['what'], 0) + 1
        self.notes.extend(other.notes)
        if other.exhaustive is not None:
            self.exhaustive = other.exhaustive if self.exhaustive is None else (self.exhaustive and other.exhaustive)

# optional line coverage of the implementation (tools/coverage.sh): which lines of /repo's fxpmath the
# correspondence runs execute.  sys.monitoring, each location reported once.
_cov = None
def _cov_start():
    global _cov
    d = os.environ.get('VERIF_COV_DIR')
    if not d or _cov is not None or not hasattr(sys, 'monitoring'): return
    _cov = set(); root = os.path.abspath(REPO) + os.sep + 'fxpmath' + os.sep
    mon = sys.monitoring; tid = 3
    try: mon.use_tool_id(tid, 'fxpverif-cov')
    except Exception: return
    def on_line(code, line):
        fn = code.co_filename
        if fn.startswith(root): _cov.add((fn[len(root):], line))
        return mon.DISABLE
    mon.register_callback(tid, mon.events.LINE, on_line)
    mon.set_events(tid, mon.events.LINE)
def _cov_dump(tag):
    d = os.environ.get('VERIF_COV_DIR')
    if d and _cov is not None:
        os.makedirs(d, exist_ok=True)
        with open(os.path.join(d, '%s-%d.json' % (tag, os.getpid())), 'w') as f: json.dump(sorted(_cov), f)

def _shard_entry(args):
    modname, funcname, shard, nshards, seed, tier, extra = args
    try:
        import importlib
        _cov_start()
        mod = importlib.import_module(modname)
        rng = random.Random(seed * 1000003 + shard * 7919 + 17)
        try:
            return getattr(mod, funcname)(shard, nshards, rng, tier, extra)
        finally:
            _cov_dump('%s-%d' % (modname, shard))
    except Exception:
        r = Result()
        r.fail({'shard': shard}, 'harness exception', got=traceback.format_exc())
        return r

def run_sharded(modname, funcname, nshards, seed, tier, extra=None, procs=None):
    """run mod.func(shard, nshards, rng, tier, extra) -> Result in a process pool and merge"""
    import multiprocessing as mp
    procs = procs or min(16, os.cpu_count() or 4, nshards)
    tasks = [(modname, funcname, s, nshards, seed, tier, extra) for s in range(nshards)]
    total = Result()
    if procs <= 1 or nshards == 1:
        for t in tasks: total.merge(_shard_entry(t))
        return total
    ctx = mp.get_context('fork')
    with ctx.Pool(procs) as pool:
        for r in pool.imap_unordered(_shard_entry, tasks):
            total.merge(r)
    return total

def jsonable(x):
    if isinstance(x, Fraction):
        return str(x)
    if isinstance(x, float):
        if math.isnan(x) or math.isinf(x): return repr(x)
        return x
    if isinstance(x, (list, tuple)): return [jsonable(t) for t in x]
    if isinstance(x, dict): return {str(k): jsonable(v) for k, v in x.items()}
    if isinstance(x, (int, str, bool)) or x is None: return x
    try:
        import numpy as np
        if isinstance(x, np.generic): return jsonable(x.item())
        if isinstance(x, np.ndarray): return jsonable(x.tolist())
    except Exception:
        pass
    return repr(x)
