# np_layer.py — validates the TRUSTED layer coq/NP.v directly against the running
# CPython / NumPy, independently of fxpmath (DESIGN.md 4.4).  A failure here makes every
# dependent check fail closed.
import math, random, struct
from fractions import Fraction
import lib
from lib import Result, e_f64, Reader, model_call

def _rand_double(rng):
    k = rng.random()
    if k < 0.25:
        return float(rng.randint(-2**20, 2**20)) / 2**rng.randint(0, 12)
    if k < 0.5:
        return rng.uniform(-1, 1) * 2.0**rng.randint(-30, 70)
    if k < 0.6:
        return float(rng.choice([1, -1]) * (2**rng.randint(0, 63) + rng.choice([-1, 0, 1])))
    if k < 0.7:
        # anywhere in the finite range, including subnormals
        bits = rng.getrandbits(64)
        x = struct.unpack('<d', struct.pack('<Q', bits))[0]
        return x if (not math.isnan(x) and not math.isinf(x)) else 1.5
    if k < 0.85:
        return (rng.randint(-2**53, 2**53)) * 2.0**rng.randint(-60, 10)
    return rng.choice([0.0, 0.5, -0.5, 1.5, 2.5, -2.5, 2.0**52 + 0.5, 2.0**53, -2.0**63, 2.0**63, 1e308, 5e-324])

def validate(seed, tier):
    import numpy as np
    np.seterr(all='ignore')
    rng = random.Random(seed ^ 0x5eed)
    res = Result()
    n = 400 if tier == 'quick' else 4000
    reqs = []; exp = []
    def add(req, expected, desc):
        reqs.append(req); exp.append((expected, desc))
    for _ in range(n):
        a, b = _rand_double(rng), _rand_double(rng)
        # int -> float
        z = rng.choice([1, -1]) * rng.getrandbits(rng.choice([10, 53, 54, 64, 65, 100, 200]))
        add([3, 12, z], ('f', float(z)), ('float(int)', z))
        add([3, 1] + e_f64(a) + e_f64(b), ('f', float(np.float64(a) * np.float64(b))), ('mul', a, b))
        add([3, 2] + e_f64(a) + e_f64(b), ('f', float(np.float64(a) + np.float64(b))), ('add', a, b))
        add([3, 3] + e_f64(a) + e_f64(b), ('f', float(np.float64(a) - np.float64(b))), ('sub', a, b))
        if b != 0:
            add([3, 4] + e_f64(a) + e_f64(b), ('f', float(np.float64(a) / np.float64(b))), ('div', a, b))
        for ri, fn in enumerate([np.trunc, np.trunc, np.floor, np.ceil, np.around]):
            add([3, 5, ri] + e_f64(a), ('f', float(fn(np.float64(a)))), ('round', ri, a))
        if abs(a) < 2.0**63:
            add([3, 6] + e_f64(a), ('z', int(np.array([a]).astype(np.int64)[0])), ('astype_i64', a))
        add([3, 11] + e_f64(a) + e_f64(b), ('b3', (a < b, a <= b, a == b)), ('cmp', a, b))
        # floor-division / remainder where the exact results are representable (the only use in scope)
        ka, kb = rng.randint(-2**20, 2**20), rng.choice([1, -1]) * rng.randint(1, 2**10)
        sa, sb = rng.randint(0, 8), rng.randint(0, 8)
        fa, fb = ka / 2.0**sa, kb / 2.0**sb
        add([3, 7] + e_f64(fa) + e_f64(fb), ('f', float(np.floor_divide(np.float64(fa), np.float64(fb)))), ('floordiv', fa, fb))
        add([3, 8] + e_f64(fa) + e_f64(fb), ('f', float(np.mod(np.float64(fa), np.float64(fb)))), ('mod', fa, fb))
        # int64 wrap of products (NEP 50: array * python int stays int64)
        x = rng.randint(-2**62, 2**62); k = 2**rng.randint(0, 62)
        w = int((np.array([x], dtype=np.int64) * k)[0])
        u = int((np.array([abs(x)], dtype=np.uint64) * k)[0])
        add([3, 9, x * k], ('z', w), ('int64*pyint', x, k))
        add([3, 9, abs(x) * k], ('z2', u), ('uint64*pyint', abs(x), k))
        nn = rng.randint(1, 5000)
        add([3, 10, nn], ('z', int(np.ceil(np.log2(nn)))), ('clog2', nn))
        v = rng.choice([1, -1]) * rng.getrandbits(rng.randint(1, 47))
        if v != 0:
            add([3, 10, v], ('z2', int(np.ceil(np.log2(np.abs(np.int64(v)) + 0.5)))), ('bitlen_half', v))
        # bit-mask wrap against Python integers
        nwd = rng.randint(1, 80); xx = rng.choice([1, -1]) * rng.getrandbits(rng.randint(1, 100)); sgn = rng.random() < 0.5
        m = 1 << nwd; y = xx & (m - 1)
        if sgn and y >= (1 << (nwd - 1)): y = y | (-m)
        add([3, 13, 1 if sgn else 0, nwd, xx], ('z', y), ('wrap', sgn, nwd, xx))
    outs = model_call(reqs)
    for (expected, desc), out in zip(exp, outs):
        kind, want = expected
        ok = True
        try:
            r = Reader(out)
            if kind == 'f':
                got = r.f64()
                if isinstance(want, float) and math.isnan(want): ok = isinstance(got, float) and math.isnan(got)
                elif isinstance(want, float) and math.isinf(want): ok = (got == want)
                else: ok = (not isinstance(got, float)) and got == Fraction(want)
            elif kind == 'z':
                if desc[0] == 'astype_i64': ok = (len(out) == 2 and out[0] == 0 and out[1] == want)
                else: got = out[0]; ok = (got == want)
            elif kind == 'z2':
                ok = (out[1] == want)
            elif kind == 'b3':
                ok = tuple(bool(t) for t in out[:3]) == tuple(bool(t) for t in want)
        except Exception as e:
            ok = False
        res.count('np:' + str(desc[0]), key=desc)
        if not ok:
            res.fail({'primitive': desc}, 'NP-layer primitive %s disagrees with the interpreter' % desc[0], expected=want, got=out)
    return res

if __name__ == '__main__':
    r = validate(1, 'thorough')
    print(r.evaluations, len(r.failures), r.strata)
    for f in r.failures[:10]: print(f)
