# c17.py — C17: scale and bias act as an exact affine wrapper around the stored code.
import itertools, math
from fractions import Fraction
import lib, storelib as S, arithlib as A
from lib import Result, RMODES, OMODES, model_call, run_sharded, e_fmt, e_f64, e_list, e_dy, Reader, outcome

RULE = ('float, Python-int, int64-array, int-list and narrow NumPy carriers (int8..uint64, float32, float16; a targeted 12% has inputs exact in float16/float32 whose transformed value needs more bits than the carrier); core-domain formats with n_word<=16, all 10 mode pairs, dyadic scale s = +-2^j (so that (v-b)/s is dyadic) and s = k/2^j with inputs chosen as v = s*t + b for a dyadic t, dyadic bias b; '
        'every intermediate (v-b, (v-b)/s, s*q, s*q+b) is verified to be an exact double before a case is used (cases failing that test are discarded and counted). Inputs t sweep codes and quarter-LSB offsets '
        'over twice the range. Observed: val, get_val(), upper, lower, precision, status after the constructor and after calls; best-size construction (no sizes given) for scaled objects. '
        '(O) a scaled object as first or second operand of + - * or as the out= target counts by the value it reads back: the result is the quantization of the exact result of the values under the modes and the scale of the result. Compared with Spec.quantize of t, s*code*2^-n_frac+b, the affine images of the limits, and with the model Conv.store_scaled. Non-trivial = quantization changes t; distinct by full input.')
ASSUMPTIONS = ['the property quantifies over intermediates that are exact doubles; the harness checks that premise per case with exact rationals']

def exact_double(q):
    try: return Fraction(float(q)) == q
    except OverflowError: return False

def gen_narrow_float(rng):
    """an input that is exact in float16 / float32 while (v - bias)/scale needs more significant bits than that carrier has"""
    while True:
        nw = rng.choice([8, 12, 16, rng.randint(4, 16)]); s_ = rng.random() < 0.7; nf = rng.choice([0, 1, 2, nw // 2, rng.randint(0, nw)])
        half = rng.random() < 0.6
        bits = 11 if half else 24
        n = rng.choice([1, 1, 3]); vs = []
        for _ in range(n):
            k = rng.randint(1, (1 << bits) - 1) * rng.choice([1, -1]); j = rng.randint(0, 14 if half else 24)
            vs.append(Fraction(k, 1 << j))
        scale = Fraction(rng.choice([1, 1, -1, 2, 4]), 2 ** rng.randint(0, 2)); bias = Fraction(rng.randint(-2048, 2048), 2 ** rng.randint(0, 3))
        if rng.random() < 0.4:
            # no bias, and a quotient v / scale that leaves the RANGE of the carrier (beyond its largest number, or below its smallest one)
            bias = Fraction(0); scale = Fraction(rng.choice([1, -1]) * 2 ** rng.choice([-4, -3, -2, -1, 2, 3, 4, 6]))
            lim = (15, -24) if half else (127, -149)
            if scale < 1 and abs(scale) < 1: vs = [Fraction(rng.choice([1, -1]) * rng.randint(1 << (bits - 1), (1 << bits) - 1) * 2 ** (lim[0] - bits + 1 - rng.randint(0, 1))) for _ in range(n)] if half else vs
            else: vs = [Fraction(rng.choice([1, -1]) * rng.randint(1, 3), 2 ** (-lim[1] - rng.randint(0, 1))) for _ in range(n)] if half else vs
        if scale == 1 and bias == 0: continue
        ts = [(v - bias) / scale for v in vs]
        if not all(exact_double(v) and exact_double(v - bias) and exact_double(t) and S.in_core(nf, t) and abs(v) <= 65504 for v, t in zip(vs, ts)): continue
        return {'s': s_, 'nw': nw, 'nf': nf, 'r': rng.choice(RMODES), 'o': rng.choice(OMODES), 'scale': scale, 'bias': bias, 'vs': vs, 'ts': ts,
                'route': rng.choice(['ctor', 'call', 'set_val']), 'carrier': 'np:float16' if half else 'np:float32', 'pyint_params': rng.random() < 0.5}

def gen(rng):
    if rng.random() < 0.12: return gen_narrow_float(rng)
    while True:
        nw = rng.choice([2, 3, 4, 6, 8, 12, 16, rng.randint(1, 16)]); s_ = rng.random() < 0.6
        nf = rng.choice([0, 1, nw // 2, nw, -2, nw + 3, rng.randint(-8, nw + 8)])
        all_int = rng.random() < 0.1          # an all-integer object: integer format, integral scale and bias given as Python ints, integer inputs (the value type stays int)
        if all_int: nf = 0
        lo, hi = S.fmt_bounds(s_, nw); span = hi - lo + 1
        j = rng.randint(0, 6)
        scale = Fraction(rng.choice([1, -1, 3, -3, 5, 7, 2, 4, 1, 1]), 2 ** j)
        if rng.random() < 0.3: scale = Fraction(1)
        bias = Fraction(rng.randint(-64, 64), 2 ** rng.randint(0, 4))
        if rng.random() < 0.15: bias = Fraction(0)
        if all_int: scale = Fraction(rng.choice([1, 1, 1, 2, -1, 3])); bias = Fraction(rng.choice([0, 3, -5, 17, rng.randint(-64, 64)]))
        if scale == 1 and bias == 0: bias = Fraction(1, 2)
        n = rng.choice([1, 1, 3])
        ts = []
        for _ in range(n):
            c = rng.choice([lo, hi, 0, lo - 1, hi + 1, rng.randint(lo - span // 2 - 1, hi + span // 2 + 1)])
            t = (Fraction(c) + Fraction(rng.choice([0, 0, 1, 2, 3]), 4)) / Fraction(2) ** nf
            if rng.random() < 0.4 or all_int:      # make the INPUT v an integer (integer carriers have their own vdtype handling)
                v_int = Fraction(math.floor(scale * t + bias)); t = (v_int - bias) / scale
            ts.append(t)
        vs = [scale * t + bias for t in ts]
        ok = all(exact_double(v) and exact_double(v - bias) and exact_double((v - bias) / scale) and S.in_core(nf, t) for v, t in zip(vs, ts))
        ok = ok and exact_double(scale) and exact_double(bias)
        if not ok: continue
        return {'s': s_, 'nw': nw, 'nf': nf, 'r': rng.choice(RMODES), 'o': rng.choice(OMODES), 'scale': scale, 'bias': bias, 'vs': vs, 'ts': ts,
                'route': rng.choice(['ctor', 'call', 'set_val', 'ctor_like', 'equal', 'like_method']), 'carrier': rng.choice(['float', 'int', 'int', 'npint', 'listint', 'np:uint8', 'np:int8', 'np:int16', 'np:uint16', 'np:uint32', 'np:uint64', 'np:float32', 'fxp', 'fxp', 'listnp:uint64', 'listnp:uint64']),
                'pyint_params': all_int or rng.random() < 0.5,      # integral scale / bias passed as Python ints (not floats)
                'np_params': None if all_int else rng.choice([None, None, None, 'float32', 'float16', 'float64', '0d'])}

def jcase(c):
    return {k: (str(v) if isinstance(v, Fraction) else ([str(t) for t in v] if isinstance(v, list) else v)) for k, v in c.items()}
def unj(c):
    d = dict(c)
    for k in ('scale', 'bias'): d[k] = Fraction(d[k])
    for k in ('vs', 'ts'): d[k] = [Fraction(t) for t in d[k]]
    return d

def run_cases(cases, res):
    fx = lib.impl(); import numpy as np
    pend = []; reqs = []
    for c in cases:
        kw = dict(rounding=c['r'], overflow=c['o'], scale=float(c['scale']), bias=float(c['bias']))
        if c.get('pyint_params'):
            if c['scale'].denominator == 1: kw['scale'] = int(c['scale'])
            if c['bias'].denominator == 1: kw['bias'] = int(c['bias'])
        if c.get('np_params') == '0d':      # scale / bias handed over as 0-d arrays
            for k_ in ('scale', 'bias'): kw[k_] = np.array(float(c[k_]))
        elif c.get('np_params'):      # scale / bias handed over as NumPy floating scalars (when that type holds them exactly)
            for k_ in ('scale', 'bias'):
                t_ = getattr(np, c['np_params'])
                if Fraction(float(t_(float(c[k_])))) == c[k_]: kw[k_] = t_(float(c[k_]))
        val = [float(v) for v in c['vs']]
        if c.get('carrier', 'float') != 'float' and all(v.denominator == 1 for v in c['vs']):
            ints = [int(v) for v in c['vs']]
            val = ints if c['carrier'] != 'npint' else np.array(ints, dtype=np.int64)
            if c['carrier'] == 'int' and len(ints) > 1: val = ints
        if isinstance(val, list) and len(val) == 1: val = val[0]
        if str(c.get('carrier', '')).startswith('np:'):
            dt = np.dtype(c['carrier'][3:]); fl = [float(v) for v in c['vs']]
            try:
                ok = all(Fraction(float(dt.type(int(v) if dt.kind in 'iu' else v))) == Fraction(v) for v in fl) and (dt.kind == 'f' or all(v.denominator == 1 for v in c['vs']))
            except (OverflowError, ValueError): ok = False
            if ok: val = np.array([int(v) for v in fl] if dt.kind in 'iu' else fl, dtype=dt) if len(fl) > 1 else dt.type(int(fl[0]) if dt.kind in 'iu' else fl[0])
        if c.get('carrier') == 'listnp:uint64' and all(v.denominator == 1 and 0 <= v < 2**64 for v in c['vs']):
            val = [np.uint64(int(v)) for v in c['vs']]          # a list of NumPy uint64 scalars
        if c.get('carrier') == 'fxp':        # the value supplied as an (unscaled) fixed-point object that holds it exactly
            fl = [float(v) for v in c['vs']]
            val = fx.Fxp(np.array(fl) if len(fl) > 1 else fl[0])
            if [Fraction(t) for t in np.asarray(val.get_val()).reshape(-1).tolist()] != [Fraction(t) for t in fl] or val.n_word > 52:
                val = fl if len(fl) > 1 else fl[0]
            elif (len(fl) + c['nw']) % 2: val.config.array_op_method = 'raw'      # (how the SOURCE presents itself to NumPy functions is its own matter: its VALUE is what is handed over)
        try:
            if c['route'] == 'ctor_like':
                # sizes and modes from a template, scale and bias given explicitly
                # (the template carries a scaling of its own when the case says so: the explicit scale= / bias= override it, zero and one included)
                tmpl = fx.Fxp(None, c['s'], c['nw'], c['nf'], rounding=c['r'], overflow=c['o'], **({'scale': 0.5, 'bias': 3.0} if (len(c['vs']) + c['nw']) % 2 else {}))
                x = fx.Fxp(val, like=tmpl, scale=kw['scale'], bias=kw['bias'])
            elif c['route'] == 'ctor': x = fx.Fxp(val, c['s'], c['nw'], c['nf'], **kw)
            else:
                x = fx.Fxp(None, c['s'], c['nw'], c['nf'], **kw)
                x.reset()        # the initial value 0 is itself transformed and may raise flags at construction
                if c['route'] == 'call': x(val)
                elif c['route'] == 'equal': x.equal(val)
                elif c['route'] == 'like_method' and isinstance(val, fx.Fxp): x = val.like(x)       # the (unscaled) source converted into an object like the scaled one
                else: x.set_val(val)
            obs = {'codes': lib.codes_of(x), 'get': lib.vals_of(x.get_val()), 'upper': Fraction(float(x.upper)), 'lower': Fraction(float(x.lower)), 'prec': Fraction(float(x.precision)),
                   'status': lib.status3(x)}
            # an element taken by indexing, and an object created with no value: no write of a value ever happened to them, so no flag is raised
            if len(obs['codes']) > 1: e0 = x[0]; obs['elem'] = (lib.status3(e0), lib.vals_of(e0.get_val())[0])
            obs['novalue'] = lib.status3(fx.Fxp(None, c['s'], c['nw'], c['nf'], **kw))
            # reading is an observation: the stored codes are the same after it, and a second reading returns the same values
            obs['codes_after_read'] = lib.codes_of(x); obs['get2'] = lib.vals_of(x.get_val()); _ = str(x); _ = (x == 0)
            obs['codes_after_reads'] = lib.codes_of(x)
            # a raw write of the same codes, then a widening resize: the object keeps its scaling (reading, limits)
            x.set_val(np.array(obs['codes']) if len(obs['codes']) > 1 else obs['codes'][0], raw=True)
            obs['get_after_raw'] = lib.vals_of(x.get_val())
            x.resize(n_word=c['nw'] + 2)
            obs['after_resize'] = (lib.codes_of(x), lib.vals_of(x.get_val()), Fraction(float(x.upper)), Fraction(float(x.lower)), Fraction(float(x.precision)))
        except Exception as e:
            res.fail(jcase(c), 'C17: storing into a scaled object raised %s' % lib.exc_name(e), got=str(e)[:200]); continue
        pend.append((c, obs))
        f = e_fmt(c['s'], c['nw'], c['nf']); ro = [RMODES.index(c['r']), OMODES.index(c['o'])]
        reqs.append([4] + f + ro + e_list(c['ts'], e_dy))
        reqs.append([52] + f + ro + e_f64(float(c['scale'])) + e_f64(float(c['bias'])) + e_list([float(v) for v in c['vs']], e_f64))
    outs = model_call(reqs)
    for i, (c, obs) in enumerate(pend):
        sp = Reader(outs[2 * i]); want = sp.lst(sp.z); so, su, si = sp.b(), sp.b(), sp.b()
        nf = c['nf']; lo, hi = S.fmt_bounds(c['s'], c['nw']); lsb = Fraction(2) ** (-nf)
        res.count('S:scaled-stores', key=repr(jcase(c)), nontrivial=so or su or si, n=len(c['vs']))
        res.sample(jcase(c))
        if obs['codes'] != want:
            res.fail(jcase(c), 'C17: stored code is not the C01 quantization of (v - bias)/scale', expected=want, got=obs['codes']); continue
        if obs['codes_after_read'] != obs['codes'] or obs['codes_after_reads'] != obs['codes'] or obs['get2'] != obs['get']:
            res.fail(jcase(c), 'C17: reading a scaled object (get_val, str, ==) changed its stored codes or a second reading returned other values', expected=(obs['codes'], [str(g) for g in obs['get']]), got=(obs['codes_after_read'], obs['codes_after_reads'], [str(g) for g in obs['get2']])); continue
        if obs['novalue'] != (False, False, False):
            res.fail(jcase(c), 'C17: a scaled object created with NO value has raised flags (nothing was stored: the placeholder zero is not an input)', expected=(False, False, False), got=obs['novalue']); continue
        if 'elem' in obs and obs['status'] == (False, False, False) and (obs['elem'][0] != (False, False, False) or obs['elem'][1] != obs['get'][0]):
            res.fail(jcase(c), 'C17: the element x[0] of a scaled array has raised flags (or another value) although no write into it or into x raised any', expected=((False, False, False), str(obs['get'][0])), got=(obs['elem'][0], str(obs['elem'][1]))); continue
        want_get = [c['scale'] * (Fraction(cd) * lsb) + c['bias'] for cd in obs['codes']]
        if all(exact_double(c['scale'] * (Fraction(cd) * lsb)) and exact_double(w) for cd, w in zip(obs['codes'], want_get)) and obs['get'] != want_get:
            res.fail(jcase(c), 'C17: value read back is not scale*code*2^-n_frac + bias', expected=[str(w) for w in want_get], got=[str(g) for g in obs['get']]); continue
        up, low = c['scale'] * (hi * lsb) + c['bias'], c['scale'] * (lo * lsb) + c['bias']
        if all(exact_double(t) for t in (up, low, c['scale'] * lsb, c['scale'] * hi * lsb, c['scale'] * lo * lsb)) and (obs['upper'], obs['lower'], obs['prec']) != (up, low, c['scale'] * lsb):
            res.fail(jcase(c), 'C17: upper/lower/precision are not the unscaled ones mapped through the affine map', expected=(str(up), str(low), str(c['scale'] * lsb)), got=(str(obs['upper']), str(obs['lower']), str(obs['prec']))); continue
        if all(exact_double(c['scale'] * (Fraction(cd) * lsb)) and exact_double(w) for cd, w in zip(obs['codes'], want_get)):
            if obs['get_after_raw'] != want_get:
                res.fail(jcase(c), 'C17: after a raw write of the same codes the value read back is not scale*code*2^-n_frac + bias', expected=[str(w) for w in want_get], got=[str(g) for g in obs['get_after_raw']]); continue
            lo2, hi2 = S.fmt_bounds(c['s'], c['nw'] + 2); up2, low2 = c['scale'] * (hi2 * lsb) + c['bias'], c['scale'] * (lo2 * lsb) + c['bias']
            rc, rg, ru, rl, rp = obs['after_resize']
            if all(exact_double(t) for t in (up2, low2, c['scale'] * lsb, c['scale'] * hi2 * lsb, c['scale'] * lo2 * lsb)) and (rc != obs['codes'] or rg != want_get or (ru, rl, rp) != (up2, low2, c['scale'] * lsb)):
                res.fail(jcase(c), 'C17: after a raw write and a widening resize the object lost its scaling (value or upper/lower/precision)', expected=(obs['codes'], str(up2), str(low2), str(c['scale'] * lsb)), got=(rc, [str(g) for g in rg], str(ru), str(rl), str(rp))); continue
        if obs['status'] != (so, su, si):
            res.fail(jcase(c), 'C17: flags differ from those of the unscaled value (v - bias)/scale', expected=(so, su, si), got=obs['status']); continue
        kind, rd = outcome(outs[2 * i + 1])
        if kind == 'ok':
            mc = rd.lst(rd.z); mf = (rd.b(), rd.b(), rd.b())
        if kind != 'ok' or mc != obs['codes'] or mf != obs['status']:
            res.fail(jcase(c), 'model Conv.store_scaled disagrees with the implementation although the property holds', expected=str((kind,))[:100], got=obs['codes']); res.failures[-1]['no_input'] = True

def best_sizes(rng, n, res):
    """size inference for scaled objects sizes the transformed value: same sizes as the unscaled Fxp of t"""
    cases = []
    for _ in range(n):
        scale = Fraction(rng.choice([1, -1, 2, 4, 1]), 2 ** rng.randint(0, 4)); bias = Fraction(rng.randint(-16, 16), 2 ** rng.randint(0, 3))
        t = Fraction(rng.randint(-2**12, 2**12), 2 ** rng.randint(0, 8)); v = scale * t + bias
        if not all(exact_double(q) for q in (v, v - bias, t, scale, bias)) or (scale == 1 and bias == 0): continue
        cases.append({'scale': str(scale), 'bias': str(bias), 't': str(t)})
        if rng.random() < 0.4: cases[-1]['max_error'] = rng.choice([1, 2, 3, 4, 6])      # (a coarse max_error = 2^-k: the same configuration on both sides)
    best_sizes_cases(cases, res)

def best_sizes_cases(cases, res):
    fx = lib.impl()
    for c in cases:
        scale, bias, t = Fraction(c['scale']), Fraction(c['bias']), Fraction(c['t']); v = scale * t + bias
        try:
            kwm = {'max_error': 2.0 ** -c['max_error']} if c.get('max_error') else {}
            a = fx.Fxp(float(v), scale=float(scale), bias=float(bias), **kwm); b = fx.Fxp(float(t), **kwm)
        except Exception as e:
            res.fail(c, 'C17: best-size construction of a scaled object raised %s' % lib.exc_name(e), got=str(e)[:200]); continue
        res.count('B:best-sizes-scaled', key=repr(c), nontrivial=True)
        if A.fmt_of(a) != A.fmt_of(b) or lib.codes_of(a) != lib.codes_of(b):
            res.fail(c, 'C17: size inference for a scaled object does not size the transformed value (as the unscaled object of that value under the same configuration)', expected=(A.fmt_of(b), lib.codes_of(b)), got=(A.fmt_of(a), lib.codes_of(a)))

def operand_cases(rng, n):
    """a scaled object as an operand of + - * (first, second) or as the out= target: it counts by the value it reads back"""
    cases = []
    while len(cases) < n:
        def f():
            nw = rng.choice([4, 6, 8, 12, rng.randint(2, 12)]); return [rng.random() < 0.6, nw, rng.choice([0, 1, nw // 2, nw])]
        fxm, fym = f(), f()
        def code(fm):
            lo, hi = S.fmt_bounds(fm[0], fm[1]); return rng.choice([lo, hi, rng.randint(lo, hi), rng.randint(lo, hi)])
        scale = Fraction(rng.choice([2, 4, -2, 3, 1, 1]), 2 ** rng.randint(0, 2)); bias = Fraction(rng.randint(-16, 16), 2 ** rng.randint(0, 2))
        if scale == 1 and bias == 0: bias = Fraction(3)
        which = rng.choice(['x', 'y', 'y', 'out'])
        c = {'x': fxm, 'cx': code(fxm), 'y': fym, 'cy': code(fym), 'op': rng.choice('+-*'), 'which': which, 'scale': str(scale), 'bias': str(bias), 'r': rng.choice(RMODES), 'o': rng.choice(OMODES)}
        if which == 'out':
            nwo = rng.choice([8, 12, 16]); c['out'] = [True, nwo, rng.choice([0, 2, nwo // 2])]
            if rng.random() < 0.4: c['unary'] = rng.choice(['np.conjugate', 'sum_tuple', 'max_tuple', 'sum_plain', 'sum_initial'])
        cases.append(c)
    return cases

def run_operand(cases, res):
    fx = lib.impl(); import numpy as np
    pend = []; reqs = []
    for c in cases:
        scale, bias = Fraction(c['scale']), Fraction(c['bias'])
        kw = dict(rounding=c['r'], overflow=c['o']); skw = dict(kw, scale=float(scale), bias=float(bias))
        try:
            x = fx.Fxp(c['cx'], *c['x'], raw=True, **(skw if c['which'] == 'x' else kw)); y = fx.Fxp(c['cy'], *c['y'], raw=True, **(skw if c['which'] == 'y' else kw))
            xv = Fraction(c['cx']) / Fraction(2) ** c['x'][2]; yv = Fraction(c['cy']) / Fraction(2) ** c['y'][2]
            if c['which'] == 'x': xv = scale * xv + bias
            if c['which'] == 'y': yv = scale * yv + bias
            if lib.vals_of(x.get_val())[0] != xv or lib.vals_of(y.get_val())[0] != yv:
                res.fail(c, 'C17: reading a scaled object does not return scale*code*2^-n_frac + bias', expected=(str(xv), str(yv)), got=(str(lib.vals_of(x.get_val())[0]), str(lib.vals_of(y.get_val())[0]))); continue
            e = xv + yv if c['op'] == '+' else (xv - yv if c['op'] == '-' else xv * yv)
            if c['which'] == 'out':
                out = fx.Fxp(None, *c['out'], **skw); out.reset()    # (the initial value 0 is itself transformed and may leave the range: flags are sticky)
                if c.get('unary'):
                    # a ONE-operand function storing x itself into the scaled target (out= as NumPy hands it over - a 1-tuple - or plain)
                    e = xv + (Fraction(3, 2) if c['unary'] == 'sum_initial' else 0)
                    z = {'np.conjugate': lambda: np.conjugate(x, out=out), 'sum_tuple': lambda: fx.sum(x, out=(out,)), 'max_tuple': lambda: fx.fxp_max(x, out=(out,)), 'sum_plain': lambda: fx.sum(x, out=out),
                         'sum_initial': lambda: fx.sum(x, initial=1.5, out=out)}[c['unary']]()      # (a start value counts by its value when the target is scaled)
                else:
                    z = {'+': fx.add, '-': fx.sub, '*': fx.mul}[c['op']](x, y, out=out)
                if z is not out:
                    res.fail(c, 'C17: arithmetic through out= did not return the target object', got=str(type(z))); continue
            else:
                z = x + y if c['op'] == '+' else (x - y if c['op'] == '-' else x * y)
            zs = Fraction(z.scale) if getattr(z, 'scaled', False) else Fraction(1); zb = Fraction(z.bias) if getattr(z, 'scaled', False) else Fraction(0)
            t = (e - zb) / zs
            zf = (bool(z.signed), int(z.n_word), int(z.n_frac))
            if not (exact_double(e) and exact_double(e - zb) and exact_double(t) and S.in_core(zf[2], t)):
                res.count('O:operand-discarded(not exact doubles)', key=repr(c), nontrivial=False); continue
            got = (lib.codes_of(z)[0], lib.status3(z)[:2], lib.vals_of(z.get_val())[0])
            zr, zo = z.config.rounding, z.config.overflow
        except Exception as e_:
            res.fail(c, 'C17: arithmetic with a scaled operand / target raised %s' % lib.exc_name(e_), got=str(e_)[:200]); continue
        pend.append((c, got, zf, zs, zb, zr)); reqs.append([4] + e_fmt(*zf) + [RMODES.index(zr), OMODES.index(zo)] + e_list([t], e_dy))
    outs = model_call(reqs)
    for (c, got, zf, zs, zb, zr), o in zip(pend, outs):
        rd = Reader(o); want = rd.lst(rd.z)[0]; wflags = (rd.b(), rd.b())
        res.count('O:scaled-operand-or-target', key=repr(c), nontrivial=True)
        res.sample(c)
        if got[0] != want or got[1] != wflags:
            res.fail(c, 'C17: a scaled object used as an operand (or as the out= target) of + - * does not count by its value scale*code*2^-n_frac + bias: the result is not the quantization of the exact result of the values', expected=(want, wflags, zf), got=got[:2]); continue
        if got[2] != zs * Fraction(want) / Fraction(2) ** zf[2] + zb:
            res.fail(c, 'C17: the result of arithmetic with a scaled operand does not read back scale*code*2^-n_frac + bias', expected=str(zs * Fraction(want) / Fraction(2) ** zf[2] + zb), got=str(got[2]))

def run_complex_scaled(cases, res):
    """a complex value into a scaled object: each component is (component - bias) / scale (the bias is real) quantized like a real value.
    Cases are the real cases with the value handed over as v + w*scale*j (complex128 or complex64): the real code is the one of the real
    case, the imaginary code is the quantization of w"""
    fx = lib.impl(); import numpy as np
    pend = []; reqs = []
    for c in cases:
        kw = dict(rounding=c['r'], overflow=c['o'], scale=float(c['scale']), bias=float(c['bias']))
        v, t = c['vs'][0], c['ts'][0]; w = Fraction(c['w']); vi = w * c['scale']
        if not (exact_double(vi) and exact_double(w) and S.in_core(c['nf'], w)): continue
        z = complex(float(v), float(vi))
        if c['ctype'] == 'complex64':
            z = np.complex64(z)
            if Fraction(float(z.real)) != v or Fraction(float(z.imag)) != vi: continue
        try:
            x = fx.Fxp(z, c['s'], c['nw'], c['nf'], **kw)
            got = (int(np.real(x.val)), int(np.imag(x.val)))
        except Exception as e:
            res.fail(jcase(c), 'C17: storing a complex value into a scaled object raised %s' % lib.exc_name(e), got=str(e)[:200]); continue
        pend.append((c, got)); reqs.append([4] + e_fmt(c['s'], c['nw'], c['nf']) + [RMODES.index(c['r']), OMODES.index(c['o'])] + e_list([t, w], e_dy))
    for (c, got), o in zip(pend, model_call(reqs)):
        rd = Reader(o); want = tuple(rd.lst(rd.z))
        res.count('X:complex-into-scaled', key=repr(jcase(c)), nontrivial=True)
        if got != want:
            res.fail(jcase(c), 'C17: a complex value stored into a scaled object is not, component by component, the quantization of (component - bias) / scale', expected=want, got=got)

def shard(shard, nshards, rng, tier, extra):
    res = Result()
    run_cases([gen(rng) for _ in range((12000 if tier == 'quick' else 100000) // nshards)], res)
    best_sizes(rng, (1800 if tier == 'quick' else 15000) // nshards, res)
    run_operand(operand_cases(rng, (3600 if tier == 'quick' else 30000) // nshards), res)
    cx = []
    while len(cx) < (1500 if tier == 'quick' else 12000) // nshards:
        c = gen(rng)
        if len(c['vs']) != 1: continue
        c['scale'] = Fraction(rng.choice([49, 3, 7, 75, 1, 2, -3, 5]), 2 ** rng.randint(0, 3)); c['vs'] = [c['scale'] * c['ts'][0] + c['bias']]
        if not all(exact_double(q) for q in (c['vs'][0], c['vs'][0] - c['bias'], c['scale'])): continue
        c['w'] = str(Fraction(rng.randint(-40, 40), 2 ** rng.randint(0, max(c['nf'], 0) + 2))); c['ctype'] = rng.choice(['complex128', 'complex128', 'complex64'])
        cx.append(c)
    run_complex_scaled(cx, res)
    return res

def run(seed, tier):
    return run_sharded('c17', 'shard', 16, seed, tier)
def classify(fl): return None
def replay(payload):
    c = payload['case']; res = Result()
    if 'ctype' in c: run_complex_scaled([unj(c)], res)
    elif 'vs' in c: run_cases([unj(c)], res)
    elif 'which' in c: run_operand([c], res)
    elif 't' in c: best_sizes_cases([c], res)
    return {'holds': not res.failures, 'failures': res.failures}
