# arithlib.py — shared by C07, C08, C09, C19: building operands, running operators by
# every call route, asking the extracted Spec for the exact result.
import math, itertools
from fractions import Fraction
import lib, storelib as S
from lib import RMODES, OMODES, e_fmt, Reader

OPS = {'+': 0, '-': 1, '*': 2}

def mk(fx, np, s, nw, nf, codes, shape=None, **cfg):
    """an Fxp holding the given raw codes (int or list), with optional config kwargs"""
    if isinstance(codes, int):
        v = codes
    else:
        v = np.array(codes, dtype=object if nw >= 64 else None)
        if shape is not None: v = v.reshape(shape)
    return fx.Fxp(v, s, nw, nf, raw=True, **cfg)

def do_op(fx, np, op, x, y, route='operator', **kw):
    if route == 'operator':
        return x + y if op == '+' else (x - y if op == '-' else x * y)
    if route == 'func':
        f = {'+': fx.add, '-': fx.sub, '*': fx.mul}[op]
        return f(x, y, **kw)
    if route == 'numpy':
        f = {'+': np.add, '-': np.subtract, '*': np.multiply}[op]
        return f(x, y)
    raise ValueError(route)

def fmt_of(z):
    return (bool(z.signed), int(z.n_word), int(z.n_frac))

def spec_req(op, fxm, a, fym, b, ft=None, r='trunc', o='saturate'):
    """op 40 request; ft = target format (default: placeholder, the optimal one is returned anyway)"""
    ft = ft or (True, 8, 0)
    return [40, OPS[op]] + e_fmt(*fxm) + [a] + e_fmt(*fym) + [b] + e_fmt(*ft) + [RMODES.index(r), OMODES.index(o)]

def read_spec(out):
    rd = Reader(out)
    g = (rd.b(), rd.z(), rd.z())
    m, e = rd.z(), rd.z()
    code = rd.z(); ovf, unf, inacc = rd.b(), rd.b(), rd.b()
    return {'grow': g, 'exact': Fraction(m) * Fraction(2) ** e, 'code': code, 'ovf': ovf, 'unf': unf, 'inacc': inacc}

def extremes(s, nw):
    lo, hi = S.fmt_bounds(s, nw)
    return [lo, hi]

def interesting_codes(rng, s, nw, k):
    lo, hi = S.fmt_bounds(s, nw)
    base = [lo, hi, lo + 1, hi - 1, 0, 1, -1 if s else 1, hi // 2, lo // 2]
    out = [c for c in base if lo <= c <= hi]
    while len(out) < k + len(base):
        out.append(rng.randint(lo, hi))
    rng.shuffle(out)
    return out[:k]

def n_int_of(s, nw, nf):
    return nw - nf - (1 if s else 0)

def grow_word(op, fxm, fym):
    """result word of the optimal format (used only to select in-domain format pairs)"""
    (sx, wx, fx_), (sy, wy, fy_) = fxm, fym
    s = sx or sy
    if op == '*': return wx + wy
    return (1 if s else 0) + max(n_int_of(*fxm), n_int_of(*fym)) + 1 + max(fx_, fy_)
