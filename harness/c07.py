# c07.py — C07: add, subtract, multiply with optimal sizing are exact and never overflow.
import itertools, math
from fractions import Fraction
import lib, storelib as S, arithlib as A
from lib import Result, RMODES, OMODES, model_call, run_sharded

RULE = ('(A) every pair of codes for operand words <=3 (quick) / <=4 (thorough), every signedness mix, n_frac -1..n_word+1, the three operators, evaluated as broadcast (n x 1) op (1 x m) arrays; '
        '(B) the four extreme-code corners of random format pairs whose optimal result word is <=53 bits; (C) random codes, scalar and array operands, through the operator, fxpmath.add/sub/mul and np.add/subtract/multiply, with the integer-code method and (a quarter / a third of the cases) the value method op_method=repr, either operand possibly carrying array_op_method=raw in its configuration; '
        '(D) random expression trees of depth <=4 (every node checked). Compared with the extracted Spec: exact dyadic result, documented growth rule, flags. '
        'Non-trivial = both operands non-zero; distinct by formats, codes, operator and route.')
ASSUMPTIONS = ['operands are built from raw codes or (integer formats, half of the cases) from integer values; operands carry no scale/bias; default configuration except where stated']

def check_pairs(items, res, stratum):
    """items: list of (op, fxm, codes_x (flat), shape_x, fym, codes_y, shape_y, route, cfg)"""
    fx = lib.impl(); import numpy as np
    pend = []
    for it in items:
        op, fxm, cx, shx, fym, cy, shy, route, cfg = it
        case = {'op': op, 'x': list(fxm), 'cx': cx if len(cx) <= 8 else cx[:8] + ['...'], 'shape_x': shx, 'y': list(fym), 'cy': cy if len(cy) <= 8 else cy[:8] + ['...'], 'shape_y': shy, 'route': route, 'cfg': cfg}
        full = {'op': op, 'x': list(fxm), 'cx': cx, 'shape_x': shx, 'y': list(fym), 'cy': cy, 'shape_y': shy, 'route': route, 'cfg': cfg}
        try:
            cfg2 = dict(cfg); build = cfg2.pop('_build', None); tmpl = cfg2.pop('_template', None); ycfg = cfg2.pop('_ycfg', {})
            if tmpl: fx.Fxp.template = fx.Fxp(None, dtype=tmpl)       # a class-wide template (plain format, no scaling): results are sized by the operands, not by it
            x = A.mk(fx, np, *fxm, cx if shx is not None else cx[0], shape=shx, **cfg2)
            y = A.mk(fx, np, *fym, cy if shy is not None else cy[0], shape=shy, **ycfg)
            if build == 'intval':
                # operands built from integer VALUES (not raw codes) in integer formats: their value type is int
                if fxm[2] == 0: x = fx.Fxp(np.array(cx, dtype=np.int64).reshape(shx) if shx is not None else int(cx[0]), *fxm, **cfg2)
                if fym[2] == 0: y = fx.Fxp(np.array(cy, dtype=np.int64).reshape(shy) if shy is not None else int(cy[0]), *fym)
            if build == 'indexed' and shx is None and shy is None:
                # scalar operands obtained by indexing an array (their raw value is a NumPy scalar or a Python int)
                x = A.mk(fx, np, *fxm, [0, cx[0]], shape=(2,), **cfg2)[1]; y = A.mk(fx, np, *fym, [cy[0], 0], shape=(2,))[0]
            if build == 'intval_indexed' and shx is None and shy is None and fxm[2] == 0 and fym[2] == 0:
                # elements of arrays built from integer VALUES (an integer value type and a NumPy-scalar raw value at once)
                x = fx.Fxp(np.array([0, cx[0]], dtype=np.int64), *fxm, **cfg2)[1]; y = fx.Fxp(np.array([cy[0], 0], dtype=np.int64), *fym)[0]
            if build == 'iterated' and shx is None and shy is None:
                # scalar operands obtained by ITERATING over an array (for a in x / zip(x, y) / list(x))
                x = [e for e in A.mk(fx, np, *fxm, [0, cx[0]], shape=(2,), **cfg2)][1]; y = list(A.mk(fx, np, *fym, [cy[0], 0], shape=(2,)))[0]
            if build == 'same_object': y = x      # ONE object as both operands (np.add(x, x), x * x)
            if build == 'rewritten' and shx is not None and len(shx) == 1:
                # an array operand that was used in the same operation BEFORE, holding other codes, and whose codes were then rewritten in place
                # through a view (v = x[0:n]; v[i] = ...): the operation sees the codes held now
                lo_, hi_ = S.fmt_bounds(fxm[0], fxm[1])
                x = A.mk(fx, np, *fxm, [hi_ if t != hi_ else lo_ for t in cx], shape=shx, **cfg2)
                _ = A.do_op(fx, np, op, x, y, route)
                v_ = x[0:len(cx)]
                for i_, t in enumerate(cx): v_[i_] = A.mk(fx, np, *fxm, t)
                if lib.codes_of(x) != list(cx): x = A.mk(fx, np, *fxm, cx, shape=shx, **cfg2)      # (whether the write reaches x is C20's matter)
            z = A.do_op(fx, np, op, x, y, route)
            if cfg2.get('array_output_type') == 'array' and isinstance(z, np.ndarray):
                # the configuration asks for a plain array of VALUES from NumPy functions: compared with the exact results
                bx_ = np.broadcast_to(np.array(cx, dtype=object).reshape(shx if shx is not None else ()), z.shape).reshape(-1).tolist()
                by_ = np.broadcast_to(np.array(cy, dtype=object).reshape(shy if shy is not None else ()), z.shape).reshape(-1).tolist()
                ex_ = [{'+': a_ + b_, '-': a_ - b_, '*': a_ * b_}[op] for a_, b_ in ((Fraction(int(a)) / Fraction(2) ** fxm[2], Fraction(int(b)) / Fraction(2) ** fym[2]) for a, b in zip(bx_, by_))]
                got_ = [Fraction(float(v)) for v in z.reshape(-1).tolist()]
                res.count(stratum, key=repr(full), nontrivial=True, n=len(ex_))
                if got_ != ex_ and all(Fraction(float(e)) == e for e in ex_) and not (op == '-' and not fxm[0] and not fym[0]):      # (an unsigned difference has an unsigned format: a negative one is not representable)
                    res.fail(full, 'C07: %s through the NumPy function with array_output_type=array does not return the exact values' % op, expected=[str(e) for e in ex_][:6], got=[str(g) for g in got_][:6])
                continue
            zc = np.asarray(z.val)
            bx = np.broadcast_to(np.array(cx, dtype=object).reshape(shx if shx is not None else ()), zc.shape).reshape(-1).tolist()
            by = np.broadcast_to(np.array(cy, dtype=object).reshape(shy if shy is not None else ()), zc.shape).reshape(-1).tolist()
            pend.append((full, A.fmt_of(z), lib.codes_of(z), lib.status3(z), z.dtype, bx, by, lib.codes_of(x) == list(cx) and lib.codes_of(y) == list(cy), isinstance(z, fx.Fxp)))
        except Exception as e:
            res.fail(full, 'C07: %s raised %s' % (op, lib.exc_name(e)), got=str(e)[:200])
        finally:
            fx.Fxp.template = None
    reqs = []
    for full, zf, zc, st, dt, bx, by, unchanged, isf in pend:
        r = full['cfg'].get('rounding', 'trunc'); o = full['cfg'].get('overflow', 'saturate')
        g = None
        for a, b in zip(bx, by):
            reqs.append(A.spec_req(full['op'], tuple(full['x']), int(a), tuple(full['y']), int(b), ft=zf, r=r, o=o))
    mreqs = []
    for full, zf, zc, st, dt, bx, by, unchanged, isf in pend:
        r = full['cfg'].get('rounding', 'trunc'); o = full['cfg'].get('overflow', 'saturate')
        mreqs.append([41, A.OPS[full['op']]] + lib.e_fmt(*full['x']) + lib.e_list([int(a) for a in bx]) + lib.e_fmt(*full['y']) + lib.e_list([int(b) for b in by])
                     + lib.e_fmt(*zf) + [RMODES.index(r), OMODES.index(o)])
    outs = model_call(reqs + mreqs)
    mouts = outs[len(reqs):]
    k = 0
    for pi, (full, zf, zc, st, dt, bx, by, unchanged, isf) in enumerate(pend):
        n = len(bx); sp = [A.read_spec(outs[k + j]) for j in range(n)]; k += n
        res.count(stratum, key=repr(full), nontrivial=any(a != 0 and b != 0 for a, b in zip(bx, by)), n=n)
        res.sample({kk: full[kk] for kk in ('op', 'x', 'y', 'route')} | {'cx': full['cx'][:4], 'cy': full['cy'][:4]})
        if not isf:
            res.fail(full, 'C07: the result is not an Fxp object'); continue
        if not unchanged:
            res.fail(full, 'C07: an operand was modified'); continue
        if zf != sp[0]['grow'] or dt != 'fxp-%s%d/%d' % ('s' if zf[0] else 'u', zf[1], zf[2]):
            res.fail(full, 'C07: result format differs from the documented growth rule', expected=sp[0]['grow'], got=(zf, dt)); continue
        uu_sub = full['op'] == '-' and not full['x'][0] and not full['y'][0]
        bad = False
        for j in range(n):
            exact_ok = Fraction(zc[j]) / Fraction(2) ** zf[2] == sp[j]['exact']
            if zc[j] != sp[j]['code'] or (not exact_ok and not (uu_sub and sp[j]['exact'] < 0)):
                one = dict(full); one['cx'] = [int(bx[j])]; one['cy'] = [int(by[j])]; one['shape_x'] = None; one['shape_y'] = None
                if full['cfg'].get('_build') == 'rewritten': one = full      # (the history of the whole array is part of the failing input)
                res.fail(one, 'C07: %s with optimal sizing is not the exact result' % full['op'], expected={'code': sp[j]['code'], 'exact': str(sp[j]['exact'])}, got=zc[j]); bad = True; break
        if bad: continue
        want_flags = (any(s_['ovf'] for s_ in sp), any(s_['unf'] for s_ in sp))
        if st[:2] != want_flags or (st[2] and zf[1] <= 53 and not any(s_['inacc'] for s_ in sp)):
            res.fail(full, 'C07: status flags of an exact result are wrong', expected=want_flags + (False,), got=st); continue
        mo = S.read_model_store(mouts[pi])
        if full['cfg'].get('op_method') == 'repr': continue      # (the model request is the raw method; the value method is compared with the Spec only here, with its model in C08)
        if mo['kind'] != 'ok' or mo['codes'] != zc or mo['status'][:2] != st[:2]:
            res.fail(full, 'model Arith.arith_raw disagrees with the implementation although Spec agrees', expected=str(mo)[:200], got=zc[:8])
            res.failures[-1]['no_input'] = True

def all_pairs_items(tier, shard, nshards):
    nwmax = 3 if tier == 'quick' else 4
    fmts = [(s, nw, nf) for s in (True, False) for nw in range(1, nwmax + 1) for nf in range(-1, nw + 2)]
    items = []
    idx = 0
    for fxm in fmts:
        for fym in fmts:
            idx += 1
            if idx % nshards != shard: continue
            lx, hx = S.fmt_bounds(fxm[0], fxm[1]); ly, hy = S.fmt_bounds(fym[0], fym[1])
            cx = list(range(lx, hx + 1)); cy = list(range(ly, hy + 1))
            for op in '+-*':
                items.append((op, fxm, cx, (len(cx), 1), fym, cy, (1, len(cy)), ['operator', 'func', 'numpy'][idx % 3], ({'op_method': 'repr'} if idx % 4 == 0 else {}) | ({'_build': 'intval'} if idx % 2 == 0 else {})))
    return items

def rand_fmt(rng, maxw=40):
    nw = rng.choice([1, 2, 3, 4, 5, 8, 12, 16, 20, 24, 26, 27, 31, 32, rng.randint(1, maxw)])
    nf = rng.choice([-1, 0, 1, nw // 2, nw - 1, nw, nw + 1, rng.randint(-1, nw + 1)])
    return (rng.random() < 0.6, nw, nf)

def corner_items(rng, n):
    items = []
    while len(items) < n:
        fxm, fym = rand_fmt(rng, 52), rand_fmt(rng, 52)
        for op in '+-*':
            if A.grow_word(op, fxm, fym) > 53: continue
            cx = A.extremes(fxm[0], fxm[1]); cy = A.extremes(fym[0], fym[1])
            items.append((op, fxm, cx, (2, 1), fym, cy, (1, 2), rng.choice(['operator', 'func', 'numpy']), {}))
    return items

def random_items(rng, n):
    items = []
    while len(items) < n:
        fxm, fym = rand_fmt(rng, 40), rand_fmt(rng, 40)
        op = rng.choice('+-*')
        forced = rng.random() < 0.15
        if forced:      # integer formats holding integer values, computed by the value method (NumPy integer arithmetic on the values)
            fxm = (fxm[0], fxm[1], 0); fym = (fym[0], fym[1], 0)
        if A.grow_word(op, fxm, fym) > 53: continue
        kx, ky = rng.choice([1, 1, 3, 4]), rng.choice([1, 1, 3, 4])
        cx = A.interesting_codes(rng, fxm[0], fxm[1], kx); cy = A.interesting_codes(rng, fym[0], fym[1], ky)
        shx = None if kx == 1 and rng.random() < 0.7 else (kx,)
        shy = None if ky == 1 and rng.random() < 0.7 else ((ky,) if shx is None or kx == ky or kx == 1 or ky == 1 else None)
        if shy is None and ky != 1: cy = cy[:1]
        if shx is not None and shy is not None and kx != ky and kx != 1 and ky != 1: continue
        if forced:
            if rng.random() < 0.3:      # directed: scalar elements (by index) of integer-valued arrays, both signedness pairs, by the operators
                sx_, sy_ = rng.choice([(False, False), (False, False), (True, False), (False, True), (True, True)])
                fxm = (sx_, fxm[1], 0); fym = (sy_, fym[1], 0)
                if A.grow_word(op, fxm, fym) > 53: continue
                cx = A.interesting_codes(rng, fxm[0], fxm[1], 1); cy = A.interesting_codes(rng, fym[0], fym[1], 1)
                items.append((op, fxm, cx, None, fym, cy, None, 'operator', {'op_method': 'repr', '_build': 'intval_indexed'})); continue
            items.append((op, fxm, cx, shx, fym, cy, shy, rng.choice(['operator', 'numpy']), {'op_method': 'repr', '_build': rng.choice(['intval', 'intval_indexed'])})); continue
        cfg_ = ({'op_method': 'repr'} if rng.random() < 0.3 else {}) | ({'_build': 'intval'} if rng.random() < 0.4 else {})
        # how an operand presents itself to NumPy (array_op_method) is a field of its own configuration: the operators compute on values in both settings
        if rng.random() < 0.3: cfg_['array_op_method'] = 'raw'
        if rng.random() < 0.15 and '_build' not in cfg_: cfg_['array_output_type'] = 'array'      # (only the NumPy-function route looks at it)
        if rng.random() < 0.3 and '_build' not in cfg_: cfg_['_ycfg'] = {'array_op_method': 'raw'}
        if rng.random() < 0.06 and A.grow_word(op, fxm, fxm) <= 53:
            # one object given as both operands, through the NumPy functions too, with an operator-sizing policy in its configuration
            # (the functions called by name size their results by their own default, the optimal rule)
            rt_ = rng.choice(['numpy', 'numpy', 'func'])
            items.append((op, fxm, cx, shx, fxm, cx, shx, rt_, {'_build': 'same_object'} | ({'op_sizing': rng.choice(['same', 'smallest', 'largest', 'fit'])} if rng.random() < 0.7 else {}))); continue
        if shx is not None and len(cx) > 1 and '_build' not in cfg_ and 'array_output_type' not in cfg_ and rng.random() < 0.4: cfg_['_build'] = 'rewritten'
        items.append((op, fxm, cx, shx, fym, cy, shy, rng.choice(['operator', 'func', 'numpy']), cfg_))
    return items

def tree_cases(rng, n, res):
    """random expression trees of depth <= 4; every node is checked against the Spec"""
    trees = []
    for _ in range(n):
        depth = rng.randint(2, 4)
        leaves = []
        def build(d):
            if d == 0 or (d < depth and rng.random() < 0.25):
                f = rand_fmt(rng, 10); c = A.interesting_codes(rng, f[0], f[1], 1)[0]
                leaves.append((f, c)); return ('leaf', f, c)
            return ('op', rng.choice('+-*'), build(d - 1), build(d - 1))
        trees.append(build(depth))
    # products of up to 16 integer-valued leaves with n_frac in {-1, 0} by the value method: the result word stays within 53 bits while
    # the integer VALUE of the product needs more than 64
    for _ in range(max(2, n // 20)):
        words = [4] * rng.choice([3, 4, 5, 5]) + [3] * 16; words = words[:16]; rng.shuffle(words)       # (the words add up to 53 bits at most)
        def buildp(d):
            if d == 0:
                nw = words.pop(); f = (rng.random() < 0.1, nw, -1 if rng.random() < 0.95 else 0); lo, hi = S.fmt_bounds(f[0], f[1])
                return ('leafv', f, rng.choice([hi, hi, hi, hi, hi - 1, lo if f[0] else hi]))
            return ('op', '*', buildp(d - 1), buildp(d - 1))
        trees.append(buildp(4))
    check_trees(trees, res)

def check_trees(trees, res):
    fx = lib.impl(); import numpy as np
    for t in trees:
        def width(t):
            if t[0] in ('leaf', 'leafv'): return t[1]
            a, b = width(t[2]), width(t[3])
            if a is None or b is None: return None
            w = A.grow_word(t[1], a, b)
            if w > 53: return None
            s = a[0] or b[0]
            if t[1] == '*': return (s, a[1] + b[1], a[2] + b[2])
            nfr = max(a[2], b[2]); return (s, w, nfr)
        if width(t) is None: continue
        log = []
        def ev(t):
            if t[0] == 'leaf': return A.mk(fx, np, *t[1], t[2])
            if t[0] == 'leafv':      # a leaf built from its integer VALUE (n_frac <= 0) and computing by the value method
                return fx.Fxp(int(t[2]) * 2 ** (-t[1][2]), *t[1], op_method='repr')
            a, b = ev(t[2]), ev(t[3])
            z = A.do_op(fx, np, t[1], a, b)
            log.append((t[1], A.fmt_of(a), lib.codes_of(a)[0], A.fmt_of(b), lib.codes_of(b)[0], A.fmt_of(z), lib.codes_of(z)[0], lib.status3(z)))
            return z
        case = {'tree': repr(t)}
        try:
            ev(t)
        except Exception as e:
            res.fail(case, 'C07: evaluating an expression tree raised %s' % lib.exc_name(e), got=str(e)[:200]); continue
        outs = model_call([A.spec_req(op, fa, ca, fb, cb, ft=fz) for (op, fa, ca, fb, cb, fz, cz, st) in log])
        res.count('D:expression-trees', key=repr(t), nontrivial=True, n=len(log))
        for (op, fa, ca, fb, cb, fz, cz, st), o in zip(log, outs):
            sp = A.read_spec(o)
            uu = op == '-' and not fa[0] and not fb[0] and sp['exact'] < 0
            if fz != sp['grow'] or cz != sp['code'] or (not uu and (st[0] or st[1] or Fraction(cz) / Fraction(2) ** fz[2] != sp['exact'])):
                res.fail({'tree': repr(t), 'node': [op, list(fa), ca, list(fb), cb]}, 'C07: a node of a nested + - * expression is not exact', expected=(sp['grow'], sp['code']), got=(fz, cz, st)); break

def shard(shard, nshards, rng, tier, extra):
    res = Result()
    check_pairs(all_pairs_items(tier, shard, nshards), res, 'A:all-code-pairs-small-words')
    check_pairs(corner_items(rng, (4500 if tier == 'quick' else 40000) // nshards), res, 'B:extreme-corners')
    check_pairs(random_items(rng, (9000 if tier == 'quick' else 80000) // nshards), res, 'C:random')
    # the same operations while a class-wide template is installed (Fxp.template): the result format follows the operands
    its = []
    for it in corner_items(rng, (1500 if tier == 'quick' else 12000) // nshards):
        cfg = dict(it[8]); cfg['_template'] = rng.choice(['fxp-u8/2', 'fxp-s16/4', 'fxp-u16/0', 'fxp-s8/7'])
        if '_build' not in cfg: its.append(it[:8] + (cfg,))
    check_pairs(its, res, 'T:class-template-installed')
    tree_cases(rng, (1800 if tier == 'quick' else 15000) // nshards, res)
    res.exhaustive = True
    return res

def run(seed, tier):
    return run_sharded('c07', 'shard', 16, seed, tier)

def classify(fl):
    return None

def replay(payload):
    c = payload['case']; res = Result()
    if 'tree' in c:
        import ast
        check_trees([ast.literal_eval(c['tree'])], res)
        return {'holds': not res.failures, 'failures': res.failures}
    check_pairs([(c['op'], tuple(c['x']), c['cx'], tuple(c['shape_x']) if c['shape_x'] else None, tuple(c['y']), c['cy'], tuple(c['shape_y']) if c['shape_y'] else None, c['route'], c.get('cfg', {}))], res, 'replay')
    return {'holds': not res.failures, 'failures': res.failures}
