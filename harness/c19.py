# c19.py — C19: no silent wrap at the 64-bit machine boundary in arithmetic or storing.
import itertools, math
from fractions import Fraction
import lib, storelib as S
from lib import Result, RMODES, OMODES, e_fmt, e_list, e_dy, model_call, run_sharded, Reader

RULE = ('(S) scalar Python integers up to 2^1000 into formats of 1..52 bits with 0<=n_frac<=n_word+3 (and, 15% of the cases, -8<=n_frac<0 with magnitudes around 2^53..2^64 and around the format bound) by constructor, call, set_val and indexed assignment, '
        'compared with Spec.quantize evaluated on the exact integer; magnitudes stratified around 2^31, 2^53, 2^62, 2^63, 2^64 (scaled and unscaled) and huge; '
        '(A) add/sub/mul with optimal sizing for operand words 2..70, results up to 256 bits, codes at extremes, near extremes and random, compared with exact integers; 12% of the cases (half of them with operand words adding up to 62..66 bits) are integer formats holding integer values computed by the value method. '
        'Non-trivial = the scaled input or an intermediate needs more than 53 bits; distinct by full input.')
ASSUMPTIONS = []

def big_int(rng):
    k = rng.random()
    if k < 0.5:
        e = rng.choice([31, 32, 52, 53, 54, 59, 60, 61, 62, 63, 64, 65, 66, 70, 100, 128, 200, 512, 1000])
        v = (1 << e) + rng.choice([0, 0, 1, -1, rng.randint(-1000, 1000)])
        if e >= 1000: v = (1 << 1000) - abs(rng.randint(0, 1000))
    elif k < 0.8:
        v = rng.getrandbits(rng.randint(30, 140))
    else:
        v = rng.getrandbits(rng.randint(1, 1000))
    return v * rng.choice([1, -1])

def store_cases(rng, n):
    cases = []
    for _ in range(n):
        nw = rng.choice([1, 2, 4, 8, 16, 31, 32, 33, 48, 52, rng.randint(1, 52)])
        nf = rng.choice([0, 1, 4, nw // 2, nw, nw + 3, rng.randint(0, nw + 3)])
        s = rng.random() < 0.6
        v = big_int(rng)
        if rng.random() < 0.15:
            # ("any format": a negative fraction length, where integers of more than 53 bits are scaled with an exact rational factor)
            nf = -rng.randint(1, 8)
            if rng.random() < 0.6:
                t = rng.choice([53, 54, 55, 60, 62, 63, 64, nw - nf - 1, nw - nf, nw - nf + 1])
                v = rng.choice([1, -1]) * ((1 << t) + rng.choice([0, 1, -1, (1 << -nf) - 1, 1 << (-nf - 1), rng.randint(0, 1 << max(t - 1, 0))]))
        if rng.random() < 0.3:
            # scaled value near the int64 boundary
            t = rng.choice([62, 63, 64]) - nf
            if t >= 0: v = rng.choice([1, -1]) * ((1 << t) + rng.choice([0, 1, -1, rng.randint(0, 1 << max(t - 1, 0))]))
        cases.append({'s': s, 'nw': nw, 'nf': nf, 'r': rng.choice(RMODES), 'o': rng.choice(OMODES), 'v': v, 'route': rng.choice(S.ROUTES)})
        if cases[-1]['route'] == 'setitem' and nw <= 50 and rng.random() < 0.4: cases[-1]['route'] = 'setitem_cplx'
    return cases

def run_store(cases, res):
    fx = lib.impl(); import numpy as np
    impl_out = []; reqs = []
    for c in cases:
        kw = dict(rounding=c['r'], overflow=c['o'])
        try:
            if c['route'] == 'ctor': x = fx.Fxp(c['v'], c['s'], c['nw'], c['nf'], **kw)
            elif c['route'] == 'call': x = fx.Fxp(None, c['s'], c['nw'], c['nf'], **kw); x(c['v'])
            elif c['route'] == 'set_val': x = fx.Fxp(None, c['s'], c['nw'], c['nf'], **kw); x.set_val(c['v'])
            elif c['route'] == 'setitem_cplx':
                # the array took a COMPLEX element earlier (its value type is complex since then): a Python integer written by index afterwards
                # is stored in the real part exactly as into a real array
                x = fx.Fxp([0, 0, 0], c['s'], c['nw'], c['nf'], **kw); x[0] = 0j; x.reset(); x[2] = c['v']
                codes = [int(np.asarray(x.val).reshape(-1)[2].real)]
                if np.asarray(x.val).reshape(-1)[2].imag != 0: codes = ['imaginary part set']
            else:
                x = fx.Fxp([0, 0], c['s'], c['nw'], c['nf'], **kw); x[1] = c['v']
            if c['route'] != 'setitem_cplx': codes = lib.codes_of(x)
            impl_out.append({'code': codes[-1], 'status': lib.status3(x)})
        except Exception as e:
            impl_out.append({'exc': lib.exc_name(e), 'msg': str(e)[:200]})
        reqs.append([4] + e_fmt(c['s'], c['nw'], c['nf']) + [RMODES.index(c['r']), OMODES.index(c['o'])] + e_list([Fraction(c['v'])], e_dy))
    # the model of set_val on the same Python integer (int64 / uint64 / object carrier as np.array(v) gives it)
    mreqs = []
    for c in cases:
        arr, vd = S.model_arr_enc('i', [c['v']])
        mreqs.append([10] + e_fmt(c['s'], c['nw'], c['nf']) + [RMODES.index(c['r']), OMODES.index(c['o']), 0] + arr + [vd])
    allouts = model_call(reqs + mreqs)
    outs = allouts[:len(reqs)]; mouts = allouts[len(reqs):]
    for ci, (c, io, o) in enumerate(zip(cases, impl_out, outs)):
        rd = Reader(o); want = rd.lst(rd.z)[0]; so, su = rd.b(), rd.b(); si = rd.b()
        scaled = abs(c['v']) << c['nf'] if c['nf'] >= 0 else abs(c['v'])
        res.count('S:store-python-int', key=tuple(sorted(c.items())), nontrivial=scaled >= 2**53)
        res.sample(c)
        if 'exc' in io:
            res.fail(c, 'C19: storing a Python integer raised %s' % io['exc'], expected=want, got=io['msg']); continue
        if io['code'] != want:
            res.fail(c, 'C19: stored Python integer differs from OVERFLOW(ROUND(v*2^n_frac))', expected=want, got=io['code']); continue
        if io['status'][:2] != (so, su):
            res.fail(c, 'C19: overflow/underflow flag wrong when storing a Python integer', expected=(so, su), got=io['status'][:2]); continue
        if c['nf'] < 0 and io['status'][2] != si:
            res.fail(c, 'C19: inaccuracy flag wrong when storing a Python integer into a format with a negative fraction length (the integer was rounded before it was compared)', expected=si, got=io['status'][2]); continue
        mo = S.read_model_store(mouts[ci])
        if mo['kind'] != 'ok' or mo['codes'] != [io['code']] or mo['status'][:2] != io['status'][:2] or (c['nf'] < 0 and mo['status'][2] != io['status'][2]):
            res.fail(c, 'model Store.set_val_real disagrees with the implementation although the Spec agrees (Python integer input)', expected=str(mo)[:200], got=(io['code'], io['status']))
            res.failures[-1]['no_input'] = True

def arith_items(rng, n):
    import arithlib as A
    items = []
    while len(items) < n:
        def f():
            nw = rng.choice([2, 8, 16, 26, 27, 31, 32, 33, 40, 48, 52, 53, 54, 60, 61, 62, 63, 64, 65, 66, 70, rng.randint(2, 70)])
            nf = rng.choice([0, 0, 1, nw // 2, nw - 1, nw, rng.randint(0, nw)])
            return (rng.random() < 0.55, nw, nf)
        fxm, fym = f(), f()
        op = rng.choice('+-*')
        intrepr = rng.random() < 0.12      # integer formats holding integer values, computed by the value method (NumPy integer arithmetic on the values)
        if intrepr:
            fxm = (fxm[0], fxm[1], 0); fym = (fym[0], fym[1], 0)
            if rng.random() < 0.5:
                # operand words adding up to 62..66 bits: the window in which a product first leaves int64 / uint64
                tot = rng.choice([62, 63, 64, 64, 65, 66]); nwx = rng.randint(2, tot - 2); sg = rng.random() < 0.3
                fxm = (sg and rng.random() < 0.5, nwx, 0); fym = (sg and rng.random() < 0.5, tot - nwx, 0); op = rng.choice('**+-')
        def codes(fm):
            lo, hi = S.fmt_bounds(fm[0], fm[1])
            k = rng.random()
            if k < 0.4: return [rng.choice([lo, hi])]
            if k < 0.7: return [rng.choice([lo + rng.randint(0, 3), hi - rng.randint(0, 3)])]
            return [rng.randint(lo, hi)]
        cx, cy = codes(fxm), codes(fym)
        if intrepr:
            items.append((op, fxm, cx, None, fym, cy, None, rng.choice(['operator', 'numpy']), {'op_method': 'repr', '_build': 'intval'})); continue
        if rng.random() < 0.2:
            cx = cx + codes(fxm) + codes(fxm); cy = cy + codes(fym) + codes(fym)
            items.append((op, fxm, cx, (3,), fym, cy, (3,), rng.choice(['operator', 'func']), {'_build': 'rewritten'} if rng.random() < 0.5 else {}))
        else:
            cfg = {'_build': rng.choice(['indexed', 'iterated'])} if rng.random() < 0.45 else {}
            if not cfg and rng.random() < 0.3:
                # both operands configured with a larger n_word_max (the width at which the arithmetic must leave int64 does not depend on it)
                m = rng.choice([65, 128, 256]); cfg = {'n_word_max': m, '_ycfg': {'n_word_max': m}}
            items.append((op, fxm, cx, None, fym, cy, None, rng.choice(['operator', 'func', 'numpy']), cfg))
    return items

def arith(rng, tier, nshards, res):
    import c07
    before = len(res.failures)
    c07.check_pairs(arith_items(rng, (15000 if tier == 'quick' else 120000) // nshards), res, 'A:add-sub-mul-wide')
    for fl in res.failures[before:]:
        fl['what'] = fl['what'].replace('C07:', 'C19:')

def replay_arith(c, res):
    import c07
    c07.check_pairs([(c['op'], tuple(c['x']), c['cx'], tuple(c['shape_x']) if c['shape_x'] else None, tuple(c['y']), c['cy'], tuple(c['shape_y']) if c['shape_y'] else None, c['route'], c.get('cfg', {}))], res, 'replay')

def shard(shard, nshards, rng, tier, extra):
    res = Result()
    run_store(store_cases(rng, (18000 if tier == 'quick' else 150000) // nshards), res)
    if 'arith' in globals():
        arith(rng, tier, nshards, res)
    return res

def run(seed, tier):
    return run_sharded('c19', 'shard', 16, seed, tier)

def classify(fl):
    return None

def replay(payload):
    c = payload['case']; res = Result()
    if 'v' in c: run_store([c], res)
    else: replay_arith(c, res)
    return {'holds': not res.failures, 'failures': res.failures}
