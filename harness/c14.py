# c14.py — C14: shifts scale by powers of two: lossless in expand mode, arithmetic otherwise.
import itertools, math
from fractions import Fraction
import lib, storelib as S, arithlib as A
from lib import Result, model_call, run_sharded, e_fmt, e_list, Reader, outcome

RULE = ('all codes for n_word<=4 (quick) / <=6 (thorough), boundary/random codes for n_word<=32 with shift counts 0..n_word+3 subject to n_word+n<=62, and (stratum C) words 33..96 with counts to 70 (results to 166 bits, codes at and next to powers of two), signed and unsigned, n_frac in {0, n_word/2}, '
        'the three shifting modes (expand, trunc, keep), scalars, elements taken out of arrays by indexing, and arrays (array-wide min_pow2 and word growth), shift counts given as Python or NumPy integers. Checked with exact rationals on the implementation output: expand: value(x<<n) = value*2^n, '
        'value(x>>n) = value/2^n, no flag; trunc/keep: format unchanged, x>>n = floor(code/2^n), x<<n exact when representable else inside the range; shift by zero is the identity; operand unchanged; and against the model. '
        'Non-trivial = code != 0 and n > 0; distinct by full input.')
ASSUMPTIONS = []
MODES = ['expand', 'trunc', 'keep']

def run_cases(cases, res, stratum):
    fx = lib.impl(); import numpy as np
    pend = []; reqs = []
    for c in cases:
        s, nw, nf = c['f']; n = c['n']; codes = c['codes']; arr = len(codes) > 1
        try:
            x = A.mk(fx, np, s, nw, nf, codes if arr else codes[0], shape=(len(codes),) if arr else None, shifting=c['mode'])
            if arr and len(codes) == 4 and c.get('layoutT'):      # a transposed 2 x 2 view (not C-contiguous) holding the codes in reading order
                x = A.mk(fx, np, s, nw, nf, [codes[0], codes[2], codes[1], codes[3]], shape=(2, 2), shifting=c['mode']).T
            if not arr and c.get('elem'):       # the operand is an element taken out of an array by indexing (its raw value is a NumPy scalar)
                x = A.mk(fx, np, s, nw, nf, [codes[0], 0] if c['elem'] == 1 else [0, 0, codes[0]], shape=(2,) if c['elem'] == 1 else (3,), shifting=c['mode'])[0 if c['elem'] == 1 else 2]
            if c.get('nwm'): x.config.n_word_max = c['nwm']      # (a limit for INFERRED words in the operand's configuration: the shifts grow their results by their own rule)
            if c.get('tmpl'):       # a format template for ARITHMETIC results sits in the operand's configuration (op_out_like): the shifts size their results by their own rule
                x.config.op_out_like = fx.Fxp(None, dtype=c['tmpl'])
            nn = n
            if c.get('count') == 'np.int64': nn = np.int64(n)       # (the shift count as a NumPy integer, e.g. taken from np.arange)
            elif c.get('count') == 'np.uint8': nn = np.uint8(n)
            l = x << nn; r = x >> nn
            obs = {'l': (A.fmt_of(l), lib.codes_of(l), lib.status3(l)[:2]), 'r': (A.fmt_of(r), lib.codes_of(r), lib.status3(r)[:2]), 'x_after': lib.codes_of(x),
                   'x_fmt': A.fmt_of(x), 'views': (lib.vals_of(l.get_val()), lib.vals_of(np.asarray(l.real)), lib.vals_of(r.get_val()), lib.vals_of(np.asarray(r.real))),
                   'val_is_array': (isinstance(l.val, np.ndarray), isinstance(r.val, np.ndarray))}
            if arr and c['mode'] == 'expand' and (n + len(codes)) % 2 == 0:
                # a second shift of the same object after its codes changed through a VIEW (no memo of the first shift may survive)
                lo_, hi_ = S.fmt_bounds(s, nw)
                x2 = A.mk(fx, np, s, nw, nf, codes, shape=(len(codes),), shifting='expand'); _ = x2 >> nn
                v_ = x2[0:1]; v_[0] = fx.Fxp(1 if hi_ >= 1 else lo_, s, nw, nf, raw=True)
                r2 = x2 >> nn; new_codes = [1 if hi_ >= 1 else lo_] + list(codes[1:])
                if lib.codes_of(x2) == new_codes:
                    obs['again'] = ([Fraction(t) / Fraction(2) ** r2.n_frac for t in lib.codes_of(r2)], [Fraction(t) / Fraction(2) ** (nf + n) for t in new_codes])
            if arr and c['mode'] == 'expand' and (n + len(codes)) % 2 == 1 and not c.get('layoutT'):
                # the operand of the second shift is itself the RESULT of an expand-mode shift (codes with trailing zero bits), rewritten through a view
                lo_, hi_ = S.fmt_bounds(s, nw)
                base = A.mk(fx, np, s, nw, nf, [(t >> 2) << 2 for t in codes], shape=(len(codes),), shifting='expand')
                y_ = base >> (n % 2)
                yc = lib.codes_of(y_); odd = 1 if (hi_ >= 1) else lo_
                v_ = y_[0:1]; v_[0] = fx.Fxp(odd, y_.signed, y_.n_word, y_.n_frac, raw=True)
                if lib.codes_of(y_) == [odd] + yc[1:]:
                    r3 = y_ >> 1
                    obs['again2'] = ([Fraction(t) / Fraction(2) ** r3.n_frac for t in lib.codes_of(r3)], [Fraction(t) / Fraction(2) ** (y_.n_frac + 1) for t in [odd] + yc[1:]])
        except Exception as e:
            res.fail(c, 'C14: a shift raised %s' % lib.exc_name(e), got=str(e)[:200]); continue
        pend.append((c, obs))
        m = 0 if c['mode'] == 'expand' else 1
        reqs.append([91, m] + e_fmt(s, nw, nf) + e_list(codes) + [n])
        if not arr: reqs.append([90, m] + e_fmt(s, nw, nf) + [codes[0], n])
        reqs.append([92, m] + e_fmt(s, nw, nf) + e_list(codes) + [n])
    outs = model_call(reqs); k = 0
    for c, obs in pend:
        s, nw, nf = c['f']; n = c['n']; codes = c['codes']; arr = len(codes) > 1
        xs = [Fraction(t) / Fraction(2) ** nf for t in codes]
        (fl, cl, sl), (fr, cr, sr) = obs['l'], obs['r']
        lv = [Fraction(t) / Fraction(2) ** fl[2] for t in cl]; rv = [Fraction(t) / Fraction(2) ** fr[2] for t in cr]
        res.count(stratum, key=repr(c), nontrivial=any(codes) and n > 0, n=2 * len(codes))
        res.sample(c)
        o_r = outs[k]; k += 1
        o_l = None
        if not arr: o_l = outs[k]; k += 1
        o_la = outs[k]; k += 1
        if obs['x_after'] != codes or obs['x_fmt'] != (s, nw, nf):
            res.fail(c, 'C14: the operand was modified by a shift'); continue
        lo, hi = S.fmt_bounds(s, nw)
        views_exact = all(abs(t) < 2 ** 53 for t in cl + cr)          # (the value views are doubles: exact below 2^53 in magnitude)
        if views_exact and list(obs['views']) != [lv, lv, rv, rv]:
            res.fail(c, 'C14: a value view of the shifted result (get_val(), .real) is not code*2^-n_frac of the result', expected=([str(v) for v in lv], [str(v) for v in rv]), got=[[str(v) for v in w] for w in obs['views']]); continue
        if obs['val_is_array'] != (True, True):
            res.fail(c, 'C14: the raw value of a shifted result is not an array (a bare number)', expected=(True, True), got=obs['val_is_array']); continue
        if 'again2' in obs and obs['again2'][0] != obs['again2'][1]:
            res.fail(c, 'C14: the RESULT of an expand-mode shift, rewritten through a view and shifted right again, is not its value / 2 exactly', expected=[str(v) for v in obs['again2'][1]], got=[str(v) for v in obs['again2'][0]]); continue
        if 'again' in obs and obs['again'][0] != obs['again'][1]:
            res.fail(c, 'C14: x >> n in expand mode, repeated after the codes of x changed through a view, is not x / 2^n exactly', expected=[str(v) for v in obs['again'][1]], got=[str(v) for v in obs['again'][0]]); continue
        if c['mode'] == 'expand':
            if lv != [v * 2 ** n for v in xs] or sl != (False, False) or fl[0] != s:
                res.fail(c, 'C14: x << n in expand mode is not x * 2^n exactly', expected=[str(v * 2 ** n) for v in xs], got=([str(v) for v in lv], fl, sl)); continue
            if rv != [v / 2 ** n for v in xs] or sr != (False, False) or fr[0] != s:
                res.fail(c, 'C14: x >> n in expand mode is not x / 2^n exactly', expected=[str(v / 2 ** n) for v in xs], got=([str(v) for v in rv], fr, sr)); continue
        else:
            if fl != (s, nw, nf) or fr != (s, nw, nf):
                res.fail(c, 'C14: a shift in %s mode changed the format' % c['mode'], expected=(s, nw, nf), got=(fl, fr)); continue
            if cr != [t >> n for t in codes]:
                res.fail(c, 'C14: x >> n in %s mode is not the arithmetic shift floor(code/2^n)' % c['mode'], expected=[t >> n for t in codes], got=cr); continue
            bad = False
            for t, g in zip(codes, cl):
                if lo <= (t << n) <= hi:
                    if g != (t << n): bad = True
                elif not (lo <= g <= hi): bad = True
            if bad:
                res.fail(c, 'C14: x << n in %s mode is neither x*2^n (when representable) nor a value inside the range' % c['mode'], expected=[t << n for t in codes], got=cl); continue
        if n == 0 and (lv != xs or rv != xs or (c['mode'] != 'expand' and (fl != (s, nw, nf) or fr != (s, nw, nf)))):
            res.fail(c, 'C14: shifting by zero is not the identity', expected=codes, got=(cl, cr)); continue
        # model
        kind, rd = outcome(o_r)
        if kind != 'ok': res.fail(c, 'model rshift is %s' % kind); res.failures[-1]['no_input'] = True; continue
        mf = (rd.b(), rd.z(), rd.z()); mc = rd.lst(rd.z)
        if mf != fr or mc != cr:
            res.fail(c, 'model Shift.rshift disagrees with the implementation although the property holds', expected=(mf, mc), got=(fr, cr)); res.failures[-1]['no_input'] = True; continue
        if o_l is not None:
            kind, rd = outcome(o_l)
            if kind == 'ok':
                mf = (rd.b(), rd.z(), rd.z()); mc = rd.lst(rd.z)
            if kind != 'ok' or mf != fl or mc != cl:
                res.fail(c, 'model Shift.lshift disagrees with the implementation although the property holds', expected=str(kind), got=(fl, cl)); res.failures[-1]['no_input'] = True; continue
        kind, rd = outcome(o_la)
        if kind == 'ok':
            mf = (rd.b(), rd.z(), rd.z()); mc = rd.lst(rd.z); mflags = (rd.b(), rd.b())
        if kind != 'ok' or mf != fl or mc != cl or mflags != sl:
            res.fail(c, 'model Shift.fxp_lshift_arr disagrees with the implementation although the property holds', expected=(str(kind), (mf, mc, mflags) if kind == 'ok' else None), got=(fl, cl, sl)); res.failures[-1]['no_input'] = True

def shard(shard, nshards, rng, tier, extra):
    res = Result()
    nmax = 4 if tier == 'quick' else 6
    cases = []; idx = 0
    for nw in range(1, nmax + 1):
        for s in (True, False):
            for nf in sorted({0, nw // 2}):
                lo, hi = S.fmt_bounds(s, nw)
                for mode in MODES:
                    for n in range(0, nw + 4):
                        idx += 1
                        if idx % nshards != shard: continue
                        for code in range(lo, hi + 1):
                            cases.append({'f': [s, nw, nf], 'codes': [code], 'n': n, 'mode': mode, 'elem': (code + n) % 3})
                        cases.append({'f': [s, nw, nf], 'codes': [rng.randint(lo, hi) for _ in range(3)], 'n': n, 'mode': mode})
                        if s and nw >= 3:      # directed: -2^k before / after +2^k as the extremes of an array (the widest element is not the first of largest magnitude)
                            k_ = 1 << (nw - 2); cases.append({'f': [s, nw, nf], 'codes': [-k_, k_], 'n': n, 'mode': mode}); cases.append({'f': [s, nw, nf], 'codes': [k_, 1, -k_], 'n': n, 'mode': mode})
    run_cases(cases, res, 'A:all-codes-small')
    cases = []
    for _ in range((7500 if tier == 'quick' else 60000) // nshards):
        nw = rng.choice([7, 8, 12, 16, 24, 31, 32, rng.randint(7, 32)]); s = rng.random() < 0.6; nf = rng.choice([0, nw // 2]); lo, hi = S.fmt_bounds(s, nw)
        n = rng.randint(0, min(nw + 3, 62 - nw))
        k = rng.choice([1, 1, 1, 3, 4])
        def code():
            return rng.choice([lo, hi, 0, 1, -1 if s else 1, lo + 1, hi - 1, rng.randint(lo, hi), (rng.randint(lo, hi) >> rng.randint(0, 6)) << rng.randint(0, 6)])
        cs = [max(lo, min(hi, code())) for _ in range(k)]
        if s and k >= 2 and rng.random() < 0.15: j_ = rng.randint(0, nw - 2); cs[0], cs[1] = -(1 << j_), (1 << j_)       # (-2^j before +2^j)
        cases.append({'f': [s, nw, nf], 'codes': cs, 'n': n, 'mode': rng.choice(MODES), 'count': rng.choice(['int', 'int', 'np.int64', 'np.uint8']), 'elem': rng.choice([0, 0, 1, 2]), 'layoutT': len(cs) == 4 and rng.random() < 0.7, 'tmpl': rng.choice([None, None, None, 'fxp-s8/0', 'fxp-u12/6']), 'nwm': rng.choice([None, None, None, 12, 16, 32])})
    run_cases(cases, res, 'B:boundary-random-to-32')
    # C: wider words (33..96) and large counts: the shifted code leaves int64 / uint64, object arrays of Python integers
    cases = []
    for _ in range((4500 if tier == 'quick' else 40000) // nshards):
        nw = rng.choice([33, 40, 47, 48, 49, 52, 53, 54, 60, 62, 63, 64, 65, 72, 96, rng.randint(33, 96)]); s = rng.random() < 0.6; nf = rng.choice([0, nw // 2]); lo, hi = S.fmt_bounds(s, nw)
        n = rng.choice([0, 1, 2, 3, rng.randint(0, 70), max(0, 62 - nw), max(0, 63 - nw), max(0, 64 - nw), 64])
        def code():
            k = rng.randint(1, nw - 1)
            c = rng.choice([1 << k, (1 << k) - 1, (1 << k) + 1, 3 << (k - 1), hi, hi - 1, 0, 1, rng.randint(0, hi), rng.randint(0, hi) >> rng.randint(0, nw)])
            if s and rng.random() < 0.45: c = rng.choice([-c, -c - 1, lo, lo + 1, -1])
            return max(lo, min(hi, c))
        cs = [code() for _k in range(rng.choice([1, 1, 2, 3]))]
        if rng.random() < 0.08: cs = rng.choice([[lo], [hi], [lo, 0], [0, lo]])       # (codes with as many trailing zero bits as the word allows)
        cases.append({'f': [s, nw, nf], 'codes': cs, 'n': n, 'mode': rng.choice(MODES), 'count': rng.choice(['int', 'int', 'np.int64', 'np.uint8']), 'elem': rng.choice([0, 0, 1, 2]), 'tmpl': rng.choice([None, None, None, 'fxp-s8/0', 'fxp-u12/6'])})
    run_cases(cases, res, 'C:wide-words-large-counts')
    res.exhaustive = True
    return res

def run(seed, tier):
    return run_sharded('c14', 'shard', 16, seed, tier)
def classify(fl): return None
def replay(payload):
    res = Result(); run_cases([payload['case']], res, 'replay')
    return {'holds': not res.failures, 'failures': res.failures}
