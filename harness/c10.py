# c10.py — C10: format conversion gives the same correctly quantized value by every route.
import itertools, math
from fractions import Fraction
import lib, storelib as S
from lib import Result, RMODES, OMODES, e_fmt, e_list, e_dy, model_call, run_sharded, Reader, outcome

ROUTES = ['resize', 'resize_dtype', 'like_kw', 'like_method', 'ctor', 'set_val', 'call', 'equal', 'setitem', 'setitem_resized', 'resize_nint_nfrac', 'resize_nword_nint', 'like_kw_nint']
SRC_BUILDS = ['raw', 'float', 'int', 'indexed']
RULE = ('source/destination format pairs of the core domain (exhaustive source codes for n_word<=3 quick / <=6 thorough, random and boundary codes up to 52 bits, and codes whose rescaled value sits at the 2^62..2^65 machine boundary), all 10 destination mode pairs, '
        '12 conversion routes (resize by sizes, resize by dtype string, resize / like= with the destination given through n_int and one other size together with its signedness, like=, like(), constructor, set_val, call, equal, indexed assignment of Fxp elements), scalar / 1-D / 2-D sources built from raw codes, '
        'floats, Python ints and indexed elements (hidden vdtype / storage dtype vary), chains of up to 6 conversions; complex sources (values and complex results) through seven routes, each component on its own, read back complex. Compared: destination codes with Spec.quantize of the exact source value, shape, dtype string, '
        'overflow/underflow flags, source unchanged; and with the conversion model. Non-trivial = the conversion changes the value (rounding or overflow); distinct by full input.')
ASSUMPTIONS = []

def build_source(fx, np, s, nw, nf, codes, shape, how):
    """an Fxp holding exactly [codes] (flat) in the given shape, built by route [how]"""
    lsb = Fraction(2) ** (-nf)
    if how == 'raw':
        arr = np.array(codes, dtype=object if nw >= 64 else None).reshape(shape) if shape != () else codes[0]
        return fx.Fxp(arr, s, nw, nf, raw=True)
    if how == 'float':
        vals = [float(c * lsb) for c in codes]
        arr = np.array(vals).reshape(shape) if shape != () else vals[0]
        return fx.Fxp(arr, s, nw, nf)
    if how == 'int':      # only valid when every value is an integer
        vals = [int(c * lsb) for c in codes]
        arr = np.array(vals).reshape(shape).tolist() if shape != () else vals[0]
        return fx.Fxp(arr, s, nw, nf)
    if how == 'indexed':
        pad = [0] + list(codes)
        big = fx.Fxp(np.array(pad), s, nw, nf, raw=True)
        x = big[1:]
        if shape == (): return big[1]
        x2 = fx.Fxp(np.array(codes).reshape(shape), s, nw, nf, raw=True)
        return x if len(shape) == 1 else x2
    if how == 'u64list_raw':
        # an object first built from a LIST of NumPy uint64 scalars (its value type comes from that carrier), then holding the codes by a raw write
        n = len(codes)
        x = fx.Fxp([np.uint64(1)] * max(n, 2), s, nw, nf)
        if shape == (): x = x[0]; x.set_val(codes[0], raw=True)
        elif len(shape) == 1 and n >= 2: x.set_val(np.array(codes), raw=True)
        else: return fx.Fxp(np.array(codes).reshape(shape), s, nw, nf, raw=True)
        return x
    raise ValueError(how)

def convert(fx, np, src, route, ds, dnw, dnf, r, o):
    """returns the destination object"""
    kw = dict(rounding=r, overflow=o)
    if route in ('resize_nint_nfrac', 'resize_nword_nint', 'like_kw_nint'):
        # the destination given through the integer length (n_int = n_word - n_frac - sign) and one other size, together with its signedness
        ni = dnw - dnf - (1 if ds else 0)
        if route == 'like_kw_nint':
            tmpl = fx.Fxp(None, like=src); tmpl.config.rounding = r; tmpl.config.overflow = o
            return fx.Fxp(src, like=tmpl, n_int=ni, n_frac=dnf, **({} if (bool(src.signed) == bool(ds) and (dnw + dnf) % 2) else {'signed': ds}))
        d = fx.Fxp(src, like=src); d.config.rounding = r; d.config.overflow = o
        skw = {} if (bool(src.signed) == bool(ds) and (dnw + dnf) % 2) else {'signed': ds}      # (the sign argument left out when the signedness stays: it is then kept)
        if route == 'resize_nint_nfrac': d.resize(n_int=ni, n_frac=dnf, **skw)
        else: d.resize(n_word=dnw, n_int=ni, **skw)
        return d
    if route == 'resize':
        d = fx.Fxp(src, like=src); d.config.rounding = r; d.config.overflow = o   # same format copy, then resize in place
        d.resize(ds, dnw, dnf); return d
    if route == 'resize_dtype':
        d = fx.Fxp(src, like=src); d.config.rounding = r; d.config.overflow = o
        d.resize(dtype='fxp-%s%d/%d' % ('s' if ds else 'u', dnw, dnf)); return d
    if route == 'like_kw':
        tmpl = fx.Fxp(None, ds, dnw, dnf, **kw); return fx.Fxp(src, like=tmpl)
    if route == 'like_method':
        tmpl = fx.Fxp(None, ds, dnw, dnf, **kw); return src.like(tmpl)
    if route == 'ctor':
        return fx.Fxp(src, ds, dnw, dnf, **kw)
    d = fx.Fxp(np.zeros(src.shape, dtype=int) if src.shape != () else None, ds, dnw, dnf, **kw)
    if route == 'set_val': d.set_val(src); return d
    if route == 'call': d(src); return d
    if route == 'equal': d.equal(src); return d
    if route == 'setitem_resized':
        # indexed assignment into a destination ARRAY that reached its format by an in-place resize from the format of the other
        # signedness (what an earlier conversion leaves behind - carrier type, value type - must not matter)
        pre = (not ds, max(1, dnw - 1) if ds else dnw + 1, dnf)
        n = max(2, int(np.prod(src.shape)) if src.shape != () else 2)
        d = fx.Fxp(np.ones(n, dtype=int).reshape(src.shape if src.shape != () and len(src.shape) > 0 and int(np.prod(src.shape)) >= 2 else (n,)), *pre, raw=True, **kw)
        d.resize(ds, dnw, dnf); d.reset()
        if src.shape == ():
            d[1] = src; e = d[1]; e.status = d.status; return e
        if int(np.prod(src.shape)) < 2:
            d[0] = src[0] if len(src.shape) == 1 else src[0][0]; e = d[0:1] if len(src.shape) == 1 else d[0:1]
            e.status = d.status; return e if len(src.shape) == 1 else e.reshape(src.shape) if hasattr(e, 'reshape') else e
        if len(src.shape) == 1:
            for i in range(src.shape[0]): d[i] = src[i]
        else:
            d[:] = src
        return d
    if route == 'setitem':
        if src.shape == ():
            d = fx.Fxp([0, 0], ds, dnw, dnf, **kw); d[1] = src
            e = d[1]; e.status = d.status      # the element view, carrying the flags raised on d
            return e
        if len(src.shape) == 1:
            for i in range(src.shape[0]): d[i] = src[i]
        else:
            d[:] = src
        return d
    raise ValueError(route)

def gen_case(rng, tier, small=None):
    if small is not None:
        s, nw, nf, codes = small
        shape = (len(codes),)
    else:
        s, nw, nf = S.random_format(rng)
        lo, hi = S.fmt_bounds(s, nw)
        n = rng.choice([1, 1, 2, 4, 6])
        codes = [rng.choice([lo, hi, 0, lo + 1, hi - 1, 1, -1 if s else 1, rng.randint(lo, hi), rng.randint(lo, hi)]) for _ in range(n)]
        shape = () if n == 1 and rng.random() < 0.6 else ((n,) if n % 2 or rng.random() < 0.6 else (2, n // 2))
    k = rng.random()
    if k < 0.5:
        dnw = rng.choice([1, 2, 3, 4, 6, 8, 12, 16, 24, 32, 48, 52, rng.randint(1, 52)])
        dnf = rng.choice([nf, nf - 1, nf + 1, nf - 3, nf + 4, 0, dnw, dnw // 2, rng.randint(-8, dnw + 8)])
    else:
        dnw = max(1, min(52, nw + rng.choice([-3, -1, 0, 1, 2, 8])))
        dnf = nf + rng.choice([-4, -2, -1, 0, 1, 2, 5])
    dnf = max(-8, min(dnw + 8, dnf))
    ds = rng.random() < 0.6
    if rng.random() < 0.12: ds, dnw, dnf = s, nw, nf       # (a conversion into the SAME format: still a distinct object with a buffer of its own)
    if small is None and rng.random() < 0.12:
        # a source code whose rescaled value (code << shift) sits at the 63/64-bit machine boundary (it overflows the destination)
        nw = rng.randint(12, 52); nf = rng.randint(0, 8); s = rng.random() < 0.4
        lo, hi = S.fmt_bounds(s, nw)
        top = hi.bit_length()
        codes = [rng.choice([hi, hi - 1, (1 << (top - 1)) + rng.randint(0, (1 << (top - 1)) - 1), (1 << (top - 1)), lo, rng.randint(lo, hi)]) for _ in codes]
        bl = max(abs(c).bit_length() for c in codes)
        dnf = nf + rng.choice([63, 64, 64, 65, 62]) - bl
        dnw = rng.choice([52, 48, max(1, dnf - 8), max(1, dnf - 4), max(1, dnf)]); dnw = max(1, min(52, dnw)); dnf = max(-8, min(dnw + 8, dnf))
    lsb = Fraction(2) ** (-nf)
    builds = ['raw', 'float', 'indexed', 'u64list_raw'] + (['int'] if all((c * lsb).denominator == 1 for c in codes) else [])
    return {'s': s, 'nw': nw, 'nf': nf, 'codes': codes, 'shape': list(shape), 'build': rng.choice(builds),
            'steps': [{'route': rng.choice(ROUTES), 'ds': ds, 'dnw': dnw, 'dnf': dnf, 'r': rng.choice(RMODES), 'o': rng.choice(OMODES)}]}

def extend_chain(rng, c, k):
    for _ in range(k):
        last = c['steps'][-1]
        dnw = max(1, min(52, last['dnw'] + rng.choice([-3, -1, 0, 1, 4])))
        dnf = max(-8, min(dnw + 8, last['dnf'] + rng.choice([-3, -1, 0, 1, 2])))
        c['steps'].append({'route': rng.choice(ROUTES), 'ds': rng.random() < 0.6, 'dnw': dnw, 'dnf': dnf, 'r': rng.choice(RMODES), 'o': rng.choice(OMODES)})
    return c

def run_cases(cases, res, stratum):
    fx = lib.impl(); import numpy as np
    pend = []
    for c in cases:
        shape = tuple(c['shape'])
        try:
            src = build_source(fx, np, c['s'], c['nw'], c['nf'], c['codes'], shape, c['build'])
            if lib.codes_of(src) != list(c['codes']):
                continue      # the source could not be built as intended (not a conversion issue)
        except Exception as e:
            continue
        cur = src; cur_fmt = (c['s'], c['nw'], c['nf']); cur_codes = list(c['codes'])
        ok = True; trail = []
        for st in c['steps']:
            before = lib.codes_of(cur); before_dtype = cur.dtype
            vdt = cur.vdtype
            try: st['_vd'] = 1 if (vdt is not None and vdt != complex and np.issubdtype(vdt, np.integer)) else 2
            except Exception: st['_vd'] = 2
            try:
                d = convert(fx, np, cur, st['route'], st['ds'], st['dnw'], st['dnf'], st['r'], st['o'])
            except Exception as e:
                res.fail(c, 'C10: conversion by %s raised %s' % (st['route'], lib.exc_name(e)), got=str(e)[:200]); ok = False; break
            if lib.codes_of(cur) != before or cur.dtype != before_dtype:
                res.fail(c, 'C10: the source object was modified by a conversion (%s)' % st['route'], expected=before[:8], got=lib.codes_of(cur)[:8]); ok = False; break
            trail.append({'codes': lib.codes_of(d), 'shape': list(np.asarray(d.val).shape), 'dtype': d.dtype, 'status': lib.status3(d),
                          'fmt': (bool(d.signed), int(d.n_word), int(d.n_frac)), 'getval': lib.vals_of(d.get_val()), 'call': lib.vals_of(d())})
            if np.asarray(d.val).ndim > 0 and np.asarray(d.val).size > 0 and st['route'] not in ('setitem', 'setitem_resized') and (len(before) + st['dnw']) % 3 == 0:
                # the destination is an object of its own: an element written into a second result of the same conversion does not show in the source
                try:
                    d2 = convert(fx, np, cur, st['route'], st['ds'], st['dnw'], st['dnf'], st['r'], st['o'])
                    lo_, hi_ = S.fmt_bounds(st['ds'], st['dnw']); c0 = lib.codes_of(d2)[0]
                    d2[(0,) * np.asarray(d2.val).ndim] = fx.Fxp(0 if c0 != 0 else (1 if hi_ >= 1 else lo_), st['ds'], st['dnw'], st['dnf'], raw=True)
                except Exception as e:
                    res.fail(c, 'C10: an element write into the result of a conversion (%s) raised %s' % (st['route'], lib.exc_name(e)), got=str(e)[:200]); ok = False; break
                if lib.codes_of(cur) != before:
                    res.fail(c, 'C10: the result of a conversion (%s) shares its value buffer with the source: an element written into it changed the source' % st['route'], expected=before[:8], got=lib.codes_of(cur)[:8]); ok = False; break
            cur = d
        if ok: pend.append((c, trail))
    # Spec: sequential quantization of the exact values
    reqs = []
    for c, trail in pend:
        vals = [Fraction(cd) / Fraction(2) ** c['nf'] for cd in c['codes']]
        for st, tr in zip(c['steps'], trail):
            reqs.append([4] + e_fmt(st['ds'], st['dnw'], st['dnf']) + [RMODES.index(st['r']), OMODES.index(st['o'])] + e_list(vals, e_dy))
            # the next step starts from what the implementation stored (so one wrong step is reported once)
            vals = [Fraction(cd) / Fraction(2) ** st['dnf'] for cd in tr['codes']] if len(tr['codes']) == len(vals) else vals
    # model: the whole chain through Convert.convert
    mreqs = []
    for c, trail in pend:
        req = [30] + e_fmt(c['s'], c['nw'], c['nf']) + e_list(c['codes']) + [len(c['steps'])]
        for st in c['steps']:
            rt = 0 if st['route'] in ('resize', 'resize_dtype', 'like_method', 'equal') else st.get('_vd', 2)
            req += [rt] + e_fmt(st['ds'], st['dnw'], st['dnf']) + [RMODES.index(st['r']), OMODES.index(st['o'])]
        mreqs.append(req)
    outs = model_call(reqs + mreqs)
    mouts = outs[len(reqs):]
    k = 0
    for ci, (c, trail) in enumerate(pend):
        nontriv = False; bad = False
        in_shape = list(c['shape'])
        for st, tr in zip(c['steps'], trail):
            rd = Reader(outs[k]); k += 1
            want = rd.lst(rd.z); so, su, si = rd.b(), rd.b(), rd.b()
            if bad: continue
            if so or su or si: nontriv = True
            if tr['fmt'] != (st['ds'], st['dnw'], st['dnf']) or tr['dtype'] != 'fxp-%s%d/%d' % ('s' if st['ds'] else 'u', st['dnw'], st['dnf']):
                res.fail(c, 'C10: destination format/dtype after %s is not the requested one' % st['route'], expected=(st['ds'], st['dnw'], st['dnf']), got=(tr['fmt'], tr['dtype'])); bad = True; continue
            if tr['shape'] != in_shape:
                res.fail(c, 'C10: array shape not preserved by %s' % st['route'], expected=in_shape, got=tr['shape']); bad = True; continue
            if tr['codes'] != want:
                res.fail(c, 'C10: converted value differs from the exact source value quantized into the destination (%s)' % st['route'], expected=want[:8], got=tr['codes'][:8]); bad = True; continue
            back = [Fraction(cd) / Fraction(2) ** st['dnf'] for cd in tr['codes']]
            if tr['getval'] != back or tr['call'] != back:
                res.fail(c, 'C10: the value read back after %s is not code*2^-n_frac of the converted object' % st['route'], expected=[str(b) for b in back[:6]], got=[str(b) for b in tr['getval'][:6]]); bad = True; continue
            if tr['status'][:2] != (so, su):
                res.fail(c, 'C10: overflow/underflow flags after %s differ from the quantization conditions' % st['route'], expected=(so, su), got=tr['status'][:2]); bad = True; continue
        if not bad:
            rd = Reader(mouts[ci]); nst = rd.z(); mtrail = []
            for _ in range(nst):
                tag = rd.z()
                if tag == 0:
                    codes = rd.lst(rd.z); mtrail.append((codes, rd.b(), rd.b(), rd.b()))
                elif tag == 1: mtrail.append(('exc', rd.z()))
                else: mtrail.append(('unmodelled',))
            for j, (st, tr) in enumerate(zip(c['steps'], trail)):
                if j >= len(mtrail) or mtrail[j][0] in ('exc', 'unmodelled') or mtrail[j][0] != tr['codes'] or (mtrail[j][1], mtrail[j][2]) != tr['status'][:2]:
                    res.fail(c, 'model Convert.convert disagrees with the implementation although Spec agrees (%s)' % st['route'], expected=str(mtrail[j] if j < len(mtrail) else None)[:200], got=tr['codes'][:8])
                    res.failures[-1]['no_input'] = True; break
        for st in c['steps']: st.pop('_vd', None)
        res.count(stratum, key=repr(c), nontrivial=nontriv, n=len(c['steps']))
        res.sample({k2: c[k2] for k2 in ('s', 'nw', 'nf', 'shape', 'build')} | {'codes': c['codes'][:4], 'steps': c['steps'][:2]})

def complex_cases(rng, n):
    cases = []
    for _ in range(n):
        nw = rng.randint(3, 16); s = True; nf = rng.randint(0, nw - 2); lo, hi = S.fmt_bounds(s, nw)
        k = rng.choice([1, 2, 3])
        re = [rng.randint(lo, hi) for _ in range(k)]; im = [rng.randint(lo, hi) for _ in range(k)]
        dnw = rng.randint(3, 20); dnf = max(-2, min(dnw + 2, nf + rng.choice([-3, -1, 0, 1, 2])))
        cases.append({'cplx': True, 'nw': nw, 'nf': nf, 're': re, 'im': im, 'shape': [] if k == 1 and rng.random() < 0.5 else [k],
                      'route': rng.choice(['like_kw', 'like_method', 'ctor', 'set_val', 'call', 'equal', 'resize']), 'ds': True, 'dnw': dnw, 'dnf': dnf,
                      'r': rng.choice(RMODES), 'o': rng.choice(OMODES), 'src': rng.choice(['value', 'product'])})
    return cases

def run_complex_conv(cases, res):
    """a complex source: each component is converted on its own, by every route, and reads back complex"""
    fx = lib.impl(); import numpy as np
    pend = []; reqs = []
    for c in cases:
        nw, nf = c['nw'], c['nf']; lsb = Fraction(2) ** (-nf)
        zs = [complex(float(a * lsb), float(b * lsb)) for a, b in zip(c['re'], c['im'])]
        try:
            src = fx.Fxp(np.array(zs) if c['shape'] else zs[0], True, nw, nf)
            if c['src'] == 'product':       # a complex RESULT (its value type is not set by a constructor): same value, times one
                src = src * fx.Fxp(1, True, 2, 0); nfs = src.n_frac
            else: nfs = nf
            d = convert(fx, np, src, c['route'], c['ds'], c['dnw'], c['dnf'], c['r'], c['o'])
            v = np.asarray(d.val).reshape(-1); g = np.asarray(d.get_val()).reshape(-1)
            got = {'re': [int(t.real) for t in v], 'im': [int(t.imag) for t in v], 'get': [(Fraction(float(t.real)), Fraction(float(t.imag))) for t in g], 'dtype': d.dtype,
                   'elem': (lambda e: (complex(e.get_val()), e.dtype))(d[0]) if c['shape'] else None}
        except Exception as e:
            res.fail(c, 'C10: converting a complex value raised %s' % lib.exc_name(e), got=str(e)[:200]); continue
        pend.append((c, got)); f = e_fmt(c['ds'], c['dnw'], c['dnf']); ro = [RMODES.index(c['r']), OMODES.index(c['o'])]
        reqs.append([4] + f + ro + e_list([Fraction(a) * lsb for a in c['re']], e_dy)); reqs.append([4] + f + ro + e_list([Fraction(b) * lsb for b in c['im']], e_dy))
    outs = model_call(reqs)
    for i, (c, got) in enumerate(pend):
        r1 = Reader(outs[2 * i]); wre = r1.lst(r1.z); r2 = Reader(outs[2 * i + 1]); wim = r2.lst(r2.z)
        dl = Fraction(2) ** (-c['dnf'])
        res.count('X:complex-sources', key=repr(c), nontrivial=True, n=2 * len(wre))
        res.sample(c)
        if got['re'] != wre or got['im'] != wim:
            res.fail(c, 'C10: a component of a converted complex value is not the exact source component quantized into the destination (%s)' % c['route'], expected=(wre, wim), got=(got['re'], got['im'])); continue
        back = [(a * dl, b * dl) for a, b in zip(wre, wim)]
        if got['get'] != back or not got['dtype'].endswith('-complex'):
            res.fail(c, 'C10: a converted complex value does not read back complex (imaginary parts dropped) (%s)' % c['route'], expected=[(str(a), str(b)) for a, b in back], got=([(str(a), str(b)) for a, b in got['get']], got['dtype'])); continue
        if got['elem'] is not None and (Fraction(got['elem'][0].real) != back[0][0] or Fraction(got['elem'][0].imag) != back[0][1] or not got['elem'][1].endswith('-complex')):
            res.fail(c, 'C10: an element indexed out of a converted complex array is not complex', expected=(str(back[0][0]), str(back[0][1])), got=(str(got['elem'][0]), got['elem'][1]))

def shard(shard, nshards, rng, tier, extra):
    res = Result()
    nwmax = 3 if tier == 'quick' else 6
    fmts = [(s, nw, nf) for s in (True, False) for nw in range(1, nwmax + 1) for nf in range(-2, nw + 3)]
    cases = []
    for idx, (s, nw, nf) in enumerate(fmts):
        if idx % nshards != shard: continue
        lo, hi = S.fmt_bounds(s, nw)
        for route in ROUTES:
            for _ in range(2 if tier == 'quick' else 6):
                c = gen_case(rng, tier, small=(s, nw, nf, list(range(lo, hi + 1))))
                c['steps'][0]['route'] = route
                cases.append(c)
    run_cases(cases, res, 'A:all-codes-small-source')
    cases = [gen_case(rng, tier) for _ in range((18000 if tier == 'quick' else 150000) // nshards)]
    run_cases(cases, res, 'B:random-pairs-routes')
    cases = [extend_chain(rng, gen_case(rng, tier), rng.randint(1, 5)) for _ in range((3600 if tier == 'quick' else 30000) // nshards)]
    run_cases(cases, res, 'C:chains')
    run_complex_conv(complex_cases(rng, (1500 if tier == 'quick' else 12000) // nshards), res)
    res.exhaustive = True
    return res

def run(seed, tier):
    return run_sharded('c10', 'shard', 16, seed, tier)

def classify(fl):
    return None

def shrink(fl):
    c = fl['case']; what = fl['what']
    best = fl
    # fewer elements
    if len(c['codes']) > 1:
        for j in range(len(c['codes'])):
            cand = dict(c); cand['codes'] = [c['codes'][j]]; cand['shape'] = []
            if cand['build'] == 'indexed': cand['build'] = 'raw'
            r = Result(); run_cases([cand], r, 'shrink')
            if r.failures and r.failures[0]['what'] == what: best = r.failures[0]; break
    return best

def replay(payload):
    if payload.get('case', {}).get('cplx'):
        res = Result(); run_complex_conv([payload['case']], res); return {'holds': not res.failures, 'failures': res.failures}
    res = Result(); run_cases([payload['case']], res, 'replay')
    return {'holds': not res.failures, 'failures': res.failures}
