# c13.py — C13: bitwise operators act on the n_word-bit two's-complement word.
import itertools, math
from fractions import Fraction
import lib, storelib as S, arithlib as A
from lib import Result, model_call, run_sharded, e_fmt, Reader, RMODES, OMODES

RULE = ('all code pairs for n_word<=4 (quick) / <=6 (thorough) with every signedness combination and n_frac in 0..n_word; boundary and random codes for n_word in {16,31,32,33,63,64,65,100,128}; '
        'x scalar, and x holding arrays of 1..4 codes (element-wise); y is a scalar fixed-point object or (60% of the array cases with an object y) an array object of the same shape, or x a scalar object against an array y, or (stratum S) two array objects of different shapes that broadcast against each other (a column against a row, a vector against a column; sizes 1..3, equal sizes included): the result is the table of every pair; y is otherwise a scalar fixed-point object of the same word length (either signedness, any n_frac) or an integer mask on either side (also negative masks and masks wider than the word); operators ~ & | ^, the laws ~~x == x, '
        '~x == -x - LSB (signed), De Morgan; malformed stream: operands of different word lengths must raise. The expected pattern is computed with Python integer bit operations on (code mod 2^n_word); compared also with the model. '
        'Non-trivial = both patterns are neither 0 nor all-ones; distinct by full input.')
ASSUMPTIONS = ['x and y may hold arrays of codes (the same shape, shapes that broadcast against each other, or one of them a scalar object); an integer mask is a single integer']
WIDE = [16, 31, 32, 33, 63, 64, 65, 100, 128]

def code_of_pattern(s, n, u):
    return u - (1 << n) if (s and u >= (1 << (n - 1))) else u

def run_cases(cases, res, stratum):
    fx = lib.impl(); import numpy as np
    reqs = []; pend = []
    for c in cases:
        s, n, nf = c['x']; mask = (1 << n) - 1
        ux = c['cx'] & mask
        try:
            x = A.mk(fx, np, s, n, nf, c['cx'], **({'array_output_type': 'array'} if c.get('aot') else {}))     # (how NumPy FUNCTION results are returned is a setting of x: the operators return fixed-point objects in both settings)
            if c.get('elem'): x = A.mk(fx, np, s, n, nf, [0, c['cx']], shape=(2,), **({'array_output_type': 'array'} if c.get('aot') else {}))[1]     # (an element taken out of an array)
            if c.get('subclass') and not c.get('elem') and n < 64:
                # the left operand is an instance of a user SUBCLASS of the fixed-point class (class Word(Fxp): pass): its operators treat another
                # fixed-point object as what it is, whatever its class
                class Word(fx.Fxp): pass
                x = Word(c['cx'], s, n, nf, raw=True)
            if c['y'] is not None:
                sy, ny, nfy = c['y']; y = A.mk(fx, np, sy, ny, nfy, c['cy'])
                if c.get('elem') == 2: y = A.mk(fx, np, sy, ny, nfy, [c['cy'], 0], shape=(2,))[0]
            else: y = c['cy']
            uy = c['cy'] & mask
            if c['y'] is not None and c['y'][1] != n:
                raised = []
                for f in (lambda: x & y, lambda: x | y, lambda: x ^ y):
                    try: f(); raised.append(False)
                    except Exception: raised.append(True)
                res.count('M:word-mismatch', key=repr(c), nontrivial=True)
                if not all(raised):
                    res.fail(c, 'C13: operands of different word lengths were combined instead of rejected', expected='error', got=raised)
                continue
            side = c.get('side', 'right')
            if side == 'left' and c['y'] is None:
                if c.get('mask_carrier') == 'np' and -2**63 <= y < 2**63: y = np.int64(y)      # the mask as a NumPy integer on the left
                got = {'&': y & x, '|': y | x, '^': y ^ x}
            else:
                got = {'&': x & y, '|': x | y, '^': x ^ y}
            got['~'] = ~x
            obs = {k: (A.fmt_of(v), lib.codes_of(v)[0], lib.status3(v)[:2]) for k, v in got.items()}
            obs['~~'] = lib.codes_of(~(~x))[0]
            if c['y'] is not None and (sy, ny) == (s, n):
                obs['dm1'] = (lib.codes_of(~(x & y))[0], lib.codes_of((~x) | (~y))[0])
                obs['dm2'] = (lib.codes_of(~(x | y))[0], lib.codes_of((~x) & (~y))[0])
            obs['x_after'] = lib.codes_of(x)[0]
        except Exception as e:
            res.fail(c, 'C13: a bitwise operator raised %s' % lib.exc_name(e), got=str(e)[:200]); continue
        pend.append((c, obs, ux, uy))
        for bi in range(4):
            reqs.append([60, bi] + e_fmt(s, n, nf) + [c['cx'], 0, 0, c['cy'], 0, 0])
    outs = model_call(reqs)
    for i, (c, obs, ux, uy) in enumerate(pend):
        s, n, nf = c['x']; mask = (1 << n) - 1
        want = {'&': ux & uy, '|': ux | uy, '^': ux ^ uy, '~': mask - ux}
        res.count(stratum, key=repr(c), nontrivial=ux not in (0, mask) and uy not in (0, mask), n=4)
        res.sample(c)
        bad = False
        for bi, k in enumerate(['&', '|', '^', '~']):
            f, code, st = obs[k]
            wc = code_of_pattern(s, n, want[k])
            if f != (s, n, nf) or code != wc or st != (False, False):
                res.fail(c, 'C13: result of %s is not the object of x\'s format holding the bitwise pattern' % k, expected={'fmt': (s, n, nf), 'code': wc}, got=(f, code, st)); bad = True; break
            mo = S.read_model_store(outs[4 * i + bi])
            if mo['kind'] != 'ok' or mo['codes'] != [code]:
                res.fail(c, 'model Bitwise disagrees with the implementation although the property holds (%s)' % k, expected=str(mo)[:120], got=code); res.failures[-1]['no_input'] = True; bad = True; break
        if bad: continue
        if obs['~~'] != c['cx'] or obs['x_after'] != c['cx']:
            res.fail(c, 'C13: ~~x differs from x (or the operand was modified)', expected=c['cx'], got=(obs['~~'], obs['x_after'])); continue
        if s and obs['~'][1] != -c['cx'] - 1:
            res.fail(c, 'C13: ~x differs from -x - LSB for signed x', expected=-c['cx'] - 1, got=obs['~'][1]); continue
        for k in ('dm1', 'dm2'):
            if k in obs and obs[k][0] != obs[k][1]:
                res.fail(c, 'C13: De Morgan law violated', expected=obs[k][0], got=obs[k][1]); break

def run_array_cases(cases, res, stratum):
    """x holds an array of codes, y is a scalar object of the same word length or an integer mask: element-wise patterns"""
    fx = lib.impl(); import numpy as np
    mreqs = []; mpend = []
    for c in cases:
        s, n, nf = c['x']; mask = (1 << n) - 1
        try:
            x = fx.Fxp(list(c['cxs']), s, n, nf, raw=True)
            if c.get('x0d'): x = A.mk(fx, np, s, n, nf, c['cxs'][0])              # (a scalar object against an array object: the result has the array's shape)
            tr = c.get('layout') == 'T' and 'cys' in c and not c.get('x0d')
            if tr:
                # 2-D operands that are not C-contiguous (transposed views): elements are paired by position, not by memory order
                m = len(c['cxs']) // 2
                x = fx.Fxp(np.array(list(c['cxs']), dtype=object if n >= 64 else None).reshape(2, m), s, n, nf, raw=True).T
            if c['y'] is not None and 'cys' in c:
                sy, ny, nfy = c['y']; y = fx.Fxp(list(c['cys']), sy, ny, nfy, raw=True)      # y holds an array of codes too: paired element by element
                if tr: y = fx.Fxp(np.array(list(c['cys']), dtype=object if ny >= 64 else None).reshape(2, m), sy, ny, nfy, raw=True).T
            elif c['y'] is not None:
                sy, ny, nfy = c['y']; y = A.mk(fx, np, sy, ny, nfy, c['cy'])
            else: y = c['cy']
            got = {'&': x & y, '|': x | y, '^': x ^ y, '~': ~x}
            if 'cys' in c:
                dm = (lib.codes_of(~(x & y)), lib.codes_of((~x) | (~y)), lib.codes_of(y))
            obs = {k: (A.fmt_of(v), lib.codes_of(v), lib.status3(v)[:2]) for k, v in got.items()}
            obs['~~'] = lib.codes_of(~(~x)); obs['x_after'] = lib.codes_of(x)
            # in-place update of one element: x[0] ^= 1 (the operator result stored back by indexed assignment)
            x2 = fx.Fxp(list(c['cxs']), s, n, nf, raw=True); x2[0] ^= 1; obs['inplace'] = lib.codes_of(x2)
        except Exception as e:
            res.fail(c, 'C13: a bitwise operator on an array of codes raised %s' % lib.exc_name(e), got=str(e)[:200]); continue
        cxs_, cys_ = list(c['cxs']), list(c.get('cys', []))
        if c.get('layout') == 'T' and 'cys' in c and not c.get('x0d'):
            m = len(cxs_) // 2; perm = [i * m + j for j in range(m) for i in range(2)]      # C-order positions of the transposed arrays
            cxs_ = [cxs_[k] for k in perm]; cys_ = [cys_[k] for k in perm]
        uy = c['cy'] & mask; uxs = [cx & mask for cx in cxs_]
        uys = [cy & mask for cy in cys_] if 'cys' in c else [uy] * len(uxs)
        if c.get('x0d'): uxs = uxs[:1] * len(uys)
        res.count(stratum, key=repr(c), nontrivial=any(u not in (0, mask) for u in uxs) and any(u not in (0, mask) for u in uys), n=4 * len(uxs))
        res.sample(c)
        want = {'&': [u & v for u, v in zip(uxs, uys)], '|': [u | v for u, v in zip(uxs, uys)], '^': [u ^ v for u, v in zip(uxs, uys)], '~': [mask - u for u in (uxs[:1] if c.get('x0d') else uxs)]}
        bad = False
        for k in ('&', '|', '^', '~'):
            f, codes, st = obs[k]; wc = [code_of_pattern(s, n, u) for u in want[k]]
            if f != (s, n, nf) or codes != wc or st != (False, False):
                res.fail(c, 'C13: result of %s on an array is not, element by element, the bitwise pattern in x\'s format' % k, expected={'fmt': (s, n, nf), 'codes': wc}, got=(f, codes, st)); bad = True; break
        if bad: continue
        if 'cys' in c and (dm[0] != dm[1] or dm[2] != (cys_ if cys_ else list(c['cys']))):
            res.fail(c, 'C13: De Morgan law violated on arrays (or the second operand was modified)', expected=dm[0], got=dm[1:]); continue
        w0 = [code_of_pattern(s, n, (c['cxs'][0] & mask) ^ 1)] + list(c['cxs'][1:])
        if obs['inplace'] != w0:
            res.fail(c, 'C13: x[0] ^= 1 on an array of codes does not leave the XOR pattern in element 0 (and the other elements alone)', expected=w0, got=obs['inplace']); continue
        if not c.get('x0d') and (obs['~~'] != cxs_ or obs['x_after'] != cxs_):
            res.fail(c, 'C13: ~~x differs from x on an array (or the operand was modified)', expected=cxs_, got=(obs['~~'], obs['x_after'])); continue
        # the array model (Bitwise.fxp_bitwise_arr / fxp_invert_arr, theorems C13_arrays_*): same codes, no flag
        mx = cxs_[:1] if c.get('x0d') else cxs_; my = cys_ if 'cys' in c else [c['cy']]
        for bi, k in enumerate(('&', '|', '^', '~')):
            mreqs.append([61, bi] + e_fmt(s, n, nf) + lib.e_list(mx) + [1 if c['y'] is not None else 0, n] + lib.e_list(my) + [0, 0])
        mpend.append((c, obs))
    mouts = model_call(mreqs)
    for i, (c, obs) in enumerate(mpend):
        for bi, k in enumerate(('&', '|', '^', '~')):
            mo = S.read_model_store(mouts[4 * i + bi])
            if k == '~' and c.get('x0d'): continue
            if mo['kind'] != 'ok' or mo['codes'] != obs[k][1] or mo['status'][:2] != obs[k][2]:
                res.fail(c, 'model Bitwise (arrays) disagrees with the implementation although the bit-level oracle agrees (%s)' % k, expected=str(mo)[:200], got=obs[k][1:]); res.failures[-1]['no_input'] = True; break

def gen_y(rng, n, small_codes=None):
    k = rng.random()
    if k < 0.55:
        sy = rng.random() < 0.5; nfy = rng.randint(0, n); lo, hi = S.fmt_bounds(sy, n)
        return [sy, n, nfy], (rng.choice(small_codes) if small_codes else rng.choice([lo, hi, 0, -1 if sy else hi, rng.randint(lo, hi)])) if not small_codes else rng.randint(lo, hi)
    # integer mask, possibly negative or wider than the word
    return None, rng.choice([0, 1, -1, (1 << n) - 1, 1 << (n - 1), rng.getrandbits(n), -rng.getrandbits(n), rng.getrandbits(n + 8)])

def run_bcast_cases(cases, res, stratum):
    """two array operands of DIFFERENT shapes that NumPy broadcasts against each other (a column against a row, a vector against a column):
    the result is the table of every pair, whatever the sizes (equal sizes included)"""
    fx = lib.impl(); import numpy as np
    for c in cases:
        s, n, nf = c['x']; sy, ny, nfy = c['y']; cxs, cys = c['bx'], c['by']
        dt = object if n >= 64 else None
        try:
            x = fx.Fxp(np.array(cxs, dtype=dt).reshape(c['shx']), s, n, nf, raw=True); y = fx.Fxp(np.array(cys, dtype=dt).reshape(c['shy']), sy, ny, nfy, raw=True)
            obs = {}
            for k, r in (('&', x & y), ('|', x | y), ('^', x ^ y)):
                obs[k] = (A.fmt_of(r), tuple(np.asarray(r.val).shape), lib.codes_of(r))
            # the one-operand and mask forms on the same (possibly 3-D) array
            inv = ~x; msk = x & ((1 << n) - 2); obs['~'] = (tuple(np.asarray(inv.val).shape), lib.codes_of(inv)); obs['m'] = (tuple(np.asarray(msk.val).shape), lib.codes_of(msk))
        except Exception as e:
            res.fail(c, 'C13: a bitwise operator on two arrays of broadcastable shapes raised %s' % lib.exc_name(e), got=str(e)[:200]); continue
        res.count(stratum, key=repr(c), nontrivial=True, n=3 * len(cxs) * len(cys)); res.sample(c)
        mask = (1 << n) - 1
        bx = np.broadcast_to(np.array(cxs, dtype=object).reshape(c['shx']), np.broadcast_shapes(tuple(c['shx']), tuple(c['shy'])))
        by = np.broadcast_to(np.array(cys, dtype=object).reshape(c['shy']), bx.shape)
        px = [int(v) & mask for v in bx.reshape(-1).tolist()]; py = [int(v) & mask for v in by.reshape(-1).tolist()]
        def back(u): return u - (1 << n) if (s and u >> (n - 1)) else u
        ux_ = [int(v) & mask for v in cxs]
        if obs['~'] != (tuple(c['shx']), [back(mask - u) for u in ux_]) or obs['m'] != (tuple(c['shx']), [back(u & (mask - 1)) for u in ux_]):
            res.fail(c, 'C13: ~x / x & mask on an array of shape %s is not the bit pattern of every element' % (tuple(c['shx']),), expected=([back(mask - u) for u in ux_], [back(u & (mask - 1)) for u in ux_]), got=(obs['~'], obs['m'])); continue
        for k, f in (('&', lambda a, b: a & b), ('|', lambda a, b: a | b), ('^', lambda a, b: a ^ b)):
            want = [back(f(a, b)) for a, b in zip(px, py)]
            fz, shp, got = obs[k]
            if shp != tuple(bx.shape) or got != want or fz != (s, n, nf):
                res.fail(c, 'C13: x %s y on arrays of shapes %s and %s is not the table of the bit patterns of every pair' % (k, tuple(c['shx']), tuple(c['shy'])), expected=(tuple(bx.shape), want), got=(shp, got, fz)); break

def bcast_cases(rng, count):
    cases = []
    for _ in range(count):
        n = rng.choice(WIDE + [2, 4, 8]); s = rng.random() < 0.5; sy = rng.random() < 0.5; lo, hi = S.fmt_bounds(s, n); ly, hy = S.fmt_bounds(sy, n)
        N = rng.choice([1, 2, 2, 3]); M = rng.choice([N, N, 1, 2, 3])
        shx, shy = rng.choice([((N, 1), (1, M)), ((N, 1), (M,)), ((N,), (M, 1)), ((1, N), (M, 1)), ((N, 1, 1), (M,)), ((1, N, 1), (M, 1, 1))])
        cases.append({'x': [s, n, rng.choice([0, 1, n // 2])], 'y': [sy, n, rng.choice([0, 1, n // 2])], 'shx': list(shx), 'shy': list(shy),
                      'bx': [rng.choice([lo, hi, 0, -1 if s else 1, rng.randint(lo, hi), rng.randint(lo, hi)]) for _k in range(N)],
                      'by': [rng.choice([ly, hy, 0, -1 if sy else 1, rng.randint(ly, hy), rng.randint(ly, hy)]) for _k in range(M)]})
    return cases

def shard(shard, nshards, rng, tier, extra):
    res = Result()
    nmax = 4 if tier == 'quick' else 6
    cases = []; idx = 0
    for n in range(1, nmax + 1):
        for s in (True, False):
            for sy in (True, False):
                idx += 1
                if idx % nshards != shard: continue
                lo, hi = S.fmt_bounds(s, n); ly, hy = S.fmt_bounds(sy, n)
                for cx in range(lo, hi + 1):
                    for cy in range(ly, hy + 1):
                        cases.append({'x': [s, n, rng.randint(0, n)], 'cx': cx, 'y': [sy, n, rng.randint(0, n)], 'cy': cy, 'elem': (cx + cy) % 3})
                    cases.append({'x': [s, n, rng.randint(0, n)], 'cx': cx, 'y': None, 'cy': rng.randint(-(1 << n), (1 << (n + 1))), 'side': rng.choice(['left', 'right']), 'mask_carrier': rng.choice(['py', 'np']), 'aot': rng.random() < 0.4})
    run_cases(cases, res, 'A:all-code-pairs-small')
    cases = []
    for _ in range((7500 if tier == 'quick' else 60000) // nshards):
        n = rng.choice(WIDE); s = rng.random() < 0.5; lo, hi = S.fmt_bounds(s, n)
        cx = rng.choice([lo, hi, 0, lo + 1, hi - 1, rng.randint(lo, hi), rng.randint(lo, hi)])
        y, cy = gen_y(rng, n)
        if y is not None:
            ly, hy = S.fmt_bounds(y[0], n); cy = rng.choice([ly, hy, 0, rng.randint(ly, hy)])
        cases.append({'x': [s, n, rng.choice([0, 1, n // 2, n])], 'cx': cx, 'y': y, 'cy': cy, 'side': rng.choice(['left', 'right']), 'mask_carrier': rng.choice(['py', 'np']), 'aot': rng.random() < 0.3, 'elem': rng.choice([0, 0, 1, 2]), 'subclass': rng.random() < 0.3})
    run_cases(cases, res, 'B:wide-words')
    cases = []
    for _ in range((1800 if tier == 'quick' else 15000) // nshards):
        n = rng.choice(WIDE + [2, 4, 8]); s = rng.random() < 0.5; lo, hi = S.fmt_bounds(s, n)
        cxs = [rng.choice([lo, hi, 0, lo + 1, hi - 1, -1 if s else 1, rng.randint(lo, hi), rng.randint(lo, hi)]) for _k in range(rng.randint(1, 4))]
        y, cy = gen_y(rng, n)
        if y is not None:
            ly, hy = S.fmt_bounds(y[0], n); cy = rng.choice([ly, hy, 0, rng.randint(ly, hy)])
        cases.append({'x': [s, n, rng.choice([0, 1, n // 2, n])], 'cxs': cxs, 'y': y, 'cy': cy})
        if y is not None and rng.random() < 0.6:
            # the second operand holds an array as well (same shape), or x is a scalar object and y an array
            x0d = rng.random() < 0.25
            cases[-1]['cys'] = [rng.choice([ly, hy, 0, rng.randint(ly, hy), rng.randint(ly, hy)]) for _k in range(len(cxs) if not x0d else rng.randint(1, 4))]
            if x0d: cases[-1]['x0d'] = True; cases[-1]['cxs'] = cxs[:1]
            elif rng.random() < 0.4:
                k = rng.choice([4, 6]); cases[-1]['layout'] = 'T'
                cases[-1]['cxs'] = [rng.choice([lo, hi, 0, -1 if s else 1, rng.randint(lo, hi), rng.randint(lo, hi)]) for _k in range(k)]
                cases[-1]['cys'] = [rng.choice([ly, hy, 0, rng.randint(ly, hy), rng.randint(ly, hy)]) for _k in range(k)]
    run_array_cases(cases, res, 'R:arrays-of-codes')
    run_bcast_cases(bcast_cases(rng, (900 if tier == 'quick' else 8000) // nshards), res, 'S:broadcast-shapes')
    cases = []
    for _ in range((900 if tier == 'quick' else 5000) // nshards):
        n = rng.choice([3, 8, 16, 32, 64, 65]); ny = n + rng.choice([-1, 1, 8, -2])
        if ny < 1: ny = n + 1
        cases.append({'x': [rng.random() < 0.5, n, 0], 'cx': 1, 'y': [rng.random() < 0.5, ny, 0], 'cy': 1})
    run_cases(cases, res, 'M:malformed')
    res.exhaustive = True
    return res

def run(seed, tier):
    return run_sharded('c13', 'shard', 16, seed, tier)
def classify(fl): return None
def replay(payload):
    res = Result(); c = payload['case']
    if 'bx' in c: run_bcast_cases([c], res, 'replay')
    elif 'cxs' in c: run_array_cases([c], res, 'replay')
    else: run_cases([c], res, 'replay')
    return {'holds': not res.failures, 'failures': res.failures}
