(* ProofsShift.v — C14. *)
From Coq Require Import ZArith List Bool Lia ZifyBool.
From FxpVerif Require Import Spec NP Store ProofsCore ProofsStore ProofsArith Bitwise ProofsBitwise Shift.
Import ListNotations.
Open Scope Z_scope.
Ltac Zify.zify_post_hook ::= Z.to_euclidean_division_equations.

(* loop invariant of min_pow2: the result q is the 2-adic valuation of the array *)
Lemma min_pow2_loop_spec fuel codes p q : 1 <= p ->
  Forall (fun c => c mod 2^(p - 1) = 0) codes ->
  min_pow2_loop fuel codes p = Some q ->
  p - 1 <= q /\ Forall (fun c => c mod 2^q = 0) codes /\ ~ Forall (fun c => c mod 2^(q + 1) = 0) codes.
Proof.
  revert p. induction fuel as [|fuel IH]; intros p Hp Hinv H; [discriminate|].
  cbn [min_pow2_loop] in H. destruct (forallb (fun c => c mod 2^p =? 0) codes) eqn:E.
  - assert (Hinv': Forall (fun c => c mod 2^(p + 1 - 1) = 0) codes).
    { replace (p + 1 - 1) with p by lia. rewrite forallb_forall in E. apply Forall_forall. intros c Hc. specialize (E c Hc). lia. }
    destruct (IH (p + 1) ltac:(lia) Hinv' H) as (H1 & H2 & H3). split; [lia|]. split; assumption.
  - injection H as <-. split; [lia|]. split; [exact Hinv|]. replace (p - 1 + 1) with p by lia.
    intros Hall. assert (forallb (fun c => c mod 2^p =? 0) codes = true); [|congruence].
    apply forallb_forall. intros c Hc. rewrite Forall_forall in Hall. specialize (Hall c Hc). lia.
Qed.

Lemma min_pow2_spec codes q : min_pow2 codes = Ok (Some q) ->
  0 <= q /\ Forall (fun c => c mod 2^q = 0) codes /\ ~ Forall (fun c => c mod 2^(q + 1) = 0) codes.
Proof.
  unfold min_pow2. destruct (forallb (fun c => c =? 0) codes); [discriminate|].
  destruct (min_pow2_loop 300 codes 1) as [q'|] eqn:E; [|discriminate]. intros H. injection H as <-.
  apply (min_pow2_loop_spec 300 codes 1 q' ltac:(lia)); [|exact E].
  apply Forall_forall. intros c _. cbn. apply Z.mod_1_r.
Qed.

(* >> in expand mode is an exact division by 2^n of the value: code' * 2^(n - e) = code, and the
   fraction grew by e, so value' = code' * 2^-(nf + e) = code * 2^-nf / 2^n *)
Theorem rshift_expand_exact f codes n fz cz : 0 <= n ->
  rshift_fmt_codes ShExpand f codes n = Ok (fz, cz) ->
  exists e, 0 <= e <= n /\ nf fz = nf f + e /\ nw fz = nw f + e /\ sg fz = sg f /\
    Forall2 (fun c z => z * 2^(n - e) = c) codes cz.
Proof.
  intros Hn H. unfold rshift_fmt_codes in H. destruct (min_pow2 codes) as [mp| |] eqn:Emp; cbn [bind] in H; try discriminate.
  injection H as <- <-.
  destruct mp as [q|].
  - destruct (min_pow2_spec codes q Emp) as (Hq & Hdiv & _).
    destruct (q <? n) eqn:Eq.
    + exists (n - q). cbn [nf nw sg]. repeat split; try lia.
      replace (n - (n - q)) with q by lia. clear Emp. induction codes as [|c codes IH]; cbn [map]; constructor.
      * inversion Hdiv; subst. rewrite Z.shiftr_div_pow2 by lia. assert (0 < 2^q) by (apply pow2_pos; lia). nia.
      * apply IH. inversion Hdiv; assumption.
    + exists 0. cbn [nf nw sg]. repeat split; try lia. rewrite Z.sub_0_r.
      assert (Hdn: Forall (fun c => c mod 2^n = 0) codes).
      { eapply Forall_impl; [|exact Hdiv]. intros c Hc. cbv beta in *.
        assert (E2: 2^q = 2^n * 2^(q - n)) by (rewrite <- pow2_split by lia; f_equal; lia).
        assert (0 < 2^n) by (apply pow2_pos; lia). assert (0 < 2^(q - n)) by (apply pow2_pos; lia).
        apply Z.mod_divide; [lia|]. apply Z.mod_divide in Hc; [|lia]. destruct Hc as [k Hk]. exists (k * 2^(q - n)). nia. }
      clear Emp Hdiv. induction codes as [|c codes IH]; cbn [map]; constructor.
      * inversion Hdn; subst. rewrite Z.shiftr_div_pow2 by lia. assert (0 < 2^n) by (apply pow2_pos; lia). nia.
      * apply IH. inversion Hdn; assumption.
  - (* all zeros *)
    exists 0. cbn [nf nw sg]. repeat split; try lia. rewrite Z.sub_0_r.
    unfold min_pow2 in Emp. destruct (forallb (fun c => c =? 0) codes) eqn:Ez.
    + rewrite forallb_forall in Ez. clear Emp. induction codes as [|c codes IH]; cbn [map]; constructor.
      * assert (c = 0) by (specialize (Ez c (or_introl eq_refl)); lia). subst. rewrite Z.shiftr_0_l. lia.
      * apply IH. intros x Hx. apply Ez. right. exact Hx.
    + destruct (min_pow2_loop 300 codes 1); discriminate.
Qed.

(* >> in trunc/keep mode: floor(code / 2^n), same format, still in range *)
Theorem rshift_keep_floor f c n : 0 <= n -> 1 <= nw f -> in_range f c ->
  rshift_fmt_codes ShKeep f [c] n = Ok (f, [c / 2^n]) /\ in_range f (c / 2^n).
Proof.
  intros Hn Hw Hr. unfold rshift_fmt_codes. cbn [map]. rewrite Z.shiftr_div_pow2 by lia. split; [reflexivity|].
  unfold in_range, cmin, cmax in *. assert (0 < 2^n) by (apply pow2_pos; lia). assert (0 < 2^(nw f - 1)) by (apply pow2_pos; lia).
  destruct (sg f); nia.
Qed.

(* << in expand mode: the grown word holds code * 2^n exactly, for |code| < 2^47 *)
Lemma bitlen_lower_bound c : c <> 0 -> 2^(bitlen c - 1) <= Z.abs c.
Proof.
  intros Hc. unfold bitlen. replace (c =? 0) with false by lia.
  replace (Z.log2 (Z.abs c) + 1 - 1) with (Z.log2 (Z.abs c)) by lia. apply Z.log2_spec. lia.
Qed.
Lemma bitlen_bound c : c <> 0 -> Z.abs c < 2^(bitlen c).
Proof.
  intros Hc. unfold bitlen. replace (c =? 0) with false by lia.
  pose proof (Z.log2_spec (Z.abs c) ltac:(lia)) as (_ & H). replace (Z.succ (Z.log2 (Z.abs c))) with (Z.log2 (Z.abs c) + 1) in H by lia. exact H.
Qed.
Lemma py_bits_nonneg c : 0 <= py_bits c.
Proof. unfold py_bits. destruct (0 <=? c); apply bitlen_nonneg. Qed.
Lemma py_bits_bound c : - 2^(py_bits c) <= c < 2^(py_bits c).
Proof.
  unfold py_bits. destruct (0 <=? c) eqn:E.
  - destruct (Z.eq_dec c 0) as [->|Hc]; [cbn; lia|]. pose proof (bitlen_bound c Hc). pose proof (bitlen_nonneg c).
    assert (0 < 2^(bitlen c)) by (apply pow2_pos; lia). lia.
  - destruct (Z.eq_dec (- c - 1) 0) as [H0|Hc]; [rewrite H0; cbn; lia|]. pose proof (bitlen_bound (- c - 1) Hc). pose proof (bitlen_nonneg (- c - 1)).
    assert (0 < 2^(bitlen (- c - 1))) by (apply pow2_pos; lia). lia.
Qed.
Theorem lshift_expand_in_range f c n : 0 <= n -> 1 <= nw f -> in_range f c ->
  in_range (lshift_fmt ShExpand f [c] n) (c * 2^n).
Proof.
  intros Hn Hw Hr. unfold lshift_fmt. cbn [map fold_right].
  assert (Pn: 0 < 2^n) by (apply pow2_pos; lia).
  pose proof (py_bits_nonneg c) as Hb0. pose proof (py_bits_bound c) as Hb.
  replace (Z.max (py_bits c) 0) with (py_bits c) by lia.
  unfold in_range, cmin, cmax. cbn [sg nw].
  set (W := Z.max (nw f) (py_bits c + (if sg f then 1 else 0) + n)).
  unfold in_range, cmin, cmax in Hr.
  destruct (sg f) eqn:Es.
  - assert (HW: py_bits c + n <= W - 1) by (unfold W; lia).
    assert (H: 2^(py_bits c + n) <= 2^(W - 1)) by (apply pow2_le; lia). rewrite pow2_split in H by lia. nia.
  - assert (HW: py_bits c + n <= W) by (unfold W; lia).
    assert (H: 2^(py_bits c + n) <= 2^W) by (apply pow2_le; lia). rewrite pow2_split in H by lia. nia.
Qed.

(* the shifted raw value is exact whatever the word length and the count: int64 / uint64 below 64 bits, Python integers from there on *)
Lemma lshift_raw_exact f c n : 0 <= n -> 1 <= nw f -> in_range f c -> lshift_raw f c n = c * 2^n.
Proof.
  intros Hn Hw Hr. unfold lshift_raw. rewrite Z.shiftl_mul_pow2 by lia. destruct (64 <=? nw f + n) eqn:E; [reflexivity|].
  destruct (code_mag f c Hw Hr) as (Hs & Hu). assert (Pn: 0 < 2^n) by (apply pow2_pos; lia).
  assert (E63: 2^(nw f + n) <= 2^63) by (apply pow2_le; lia). rewrite pow2_split in E63 by lia.
  assert (2^63 < 2^64) by (apply pow2_lt; lia).
  assert (2^(nw f) = 2 * 2^(nw f - 1)) by (apply pow2_double; lia). assert (0 < 2^(nw f - 1)) by (apply pow2_pos; lia).
  destruct (sg f).
  - specialize (Hs eq_refl). apply wrap_i64_small. rewrite Z.abs_mul, (Z.abs_eq (2^n)) by lia. nia.
  - specialize (Hu eq_refl). apply wrap_u64_small. nia.
Qed.

(* the whole << in expand mode: value(x << n) = value(x) * 2^n, no flag, for EVERY word length and every count; the operand is
   a function argument, hence unchanged *)
Theorem lshift_expand_exact f c n : 0 <= n -> 1 <= nw f -> in_range f c ->
  exists w, fxp_lshift ShExpand f c n = Ok (lshift_fmt ShExpand f [c] n, w) /\
    w_codes w = [c * 2^n] /\ w_ovf w = false /\ w_unf w = false /\ nf (lshift_fmt ShExpand f [c] n) = nf f.
Proof.
  intros Hn Hw Hr. unfold fxp_lshift. rewrite (lshift_raw_exact f c n Hn Hw Hr).
  pose proof (lshift_expand_in_range f c n Hn Hw Hr) as Hin.
  set (f' := lshift_fmt ShExpand f [c] n) in *.
  assert (Hw': 1 <= nw f') by (unfold f', lshift_fmt; cbn [nw]; lia).
  destruct (raw_arr_store f' Trunc Saturate (c * 2^n) Hw' Hin) as (w & Hs & Hc & Ho & Hu).
  rewrite Hs. cbn [bind]. exists w. repeat split; try assumption.
Qed.
(* a shift by zero keeps the format (no bit is added that is not needed) *)
Theorem lshift_zero_keeps_format f c : 1 <= nw f -> in_range f c -> lshift_fmt ShExpand f [c] 0 = f.
Proof.
  intros Hw Hr. unfold lshift_fmt. cbn [map fold_right]. pose proof (py_bits_nonneg c) as Hb0.
  replace (Z.max (py_bits c) 0) with (py_bits c) by lia.
  assert (Hle: py_bits c + (if sg f then 1 else 0) <= nw f).
  { unfold in_range, cmin, cmax in Hr. unfold py_bits. destruct (sg f) eqn:Es.
    - destruct (0 <=? c) eqn:E.
      + destruct (Z.eq_dec c 0) as [->|Hc]; [cbn; lia|]. assert (Hlt: bitlen c < nw f); [|lia].
        apply Z.nle_gt. intros Hge. pose proof (bitlen_lower_bound c Hc) as Hl.
        assert (2^(nw f - 1) <= 2^(bitlen c - 1)) by (apply pow2_le; lia). lia.
      + destruct (Z.eq_dec (- c - 1) 0) as [H0|Hc]; [rewrite H0; cbn; lia|]. assert (Hlt: bitlen (- c - 1) < nw f); [|lia].
        apply Z.nle_gt. intros Hge. pose proof (bitlen_lower_bound (- c - 1) Hc) as Hl.
        assert (2^(nw f - 1) <= 2^(bitlen (- c - 1) - 1)) by (apply pow2_le; lia). lia.
    - replace (0 <=? c) with true by lia. destruct (Z.eq_dec c 0) as [->|Hc]; [cbn; lia|]. assert (Hlt: bitlen c <= nw f); [|lia].
      apply Z.nlt_ge. intros Hge. pose proof (bitlen_lower_bound c Hc) as Hl.
      assert (2^(nw f) <= 2^(bitlen c - 1)) by (apply pow2_le; lia). lia. }
  destruct f as [s w k]. cbn [sg nw nf] in *. f_equal. lia.
Qed.

(* arrays: the common word holds every shifted element *)
Lemma fold_max_ge (l : list Z) x : In x l -> x <= fold_right Z.max 0 l.
Proof. induction l as [|a l IH]; intros H; [destruct H|]. cbn [fold_right]. destruct H as [->|H]; [lia|]. specialize (IH H). lia. Qed.
Lemma fold_max_nonneg (l : list Z) : 0 <= fold_right Z.max 0 l.
Proof. induction l as [|a l IH]; cbn [fold_right]; lia. Qed.
Theorem lshift_expand_arr_in_range f codes n : 0 <= n -> 1 <= nw f -> Forall (in_range f) codes ->
  Forall (in_range (lshift_fmt ShExpand f codes n)) (map (fun c => c * 2^n) codes).
Proof.
  intros Hn Hw Hr. apply Forall_forall. intros z Hz. apply in_map_iff in Hz. destruct Hz as (c & <- & Hc).
  assert (Pn: 0 < 2^n) by (apply pow2_pos; lia).
  pose proof (py_bits_bound c) as Hb. pose proof (py_bits_nonneg c) as Hb0.
  assert (Hm: py_bits c <= fold_right Z.max 0 (map py_bits codes)) by (apply fold_max_ge, in_map, Hc).
  rewrite Forall_forall in Hr. specialize (Hr c Hc). unfold in_range, cmin, cmax in Hr.
  unfold lshift_fmt, in_range, cmin, cmax. cbn [sg nw].
  set (B := fold_right Z.max 0 (map py_bits codes)) in *.
  set (W := Z.max (nw f) (B + (if sg f then 1 else 0) + n)).
  destruct (sg f) eqn:Es.
  - assert (HW: py_bits c + n <= W - 1) by (unfold W; lia).
    assert (H: 2^(py_bits c + n) <= 2^(W - 1)) by (apply pow2_le; lia). rewrite pow2_split in H by lia. nia.
  - assert (HW: py_bits c + n <= W) by (unfold W; lia).
    assert (H: 2^(py_bits c + n) <= 2^W) by (apply pow2_le; lia). rewrite pow2_split in H by lia. nia.
Qed.
Theorem lshift_expand_arr_exact f codes n : 0 <= n -> 1 <= nw f -> Forall (in_range f) codes ->
  exists w, fxp_lshift_arr ShExpand f codes n = Ok (lshift_fmt ShExpand f codes n, w) /\
    w_codes w = map (fun c => c * 2^n) codes /\ w_ovf w = false /\ w_unf w = false /\ nf (lshift_fmt ShExpand f codes n) = nf f.
Proof.
  intros Hn Hw Hr. unfold fxp_lshift_arr.
  assert (Hmap: map (fun c => lshift_raw f c n) codes = map (fun c => c * 2^n) codes).
  { apply map_ext_in. intros c Hc. rewrite Forall_forall in Hr. apply lshift_raw_exact; [exact Hn | exact Hw | apply Hr; exact Hc]. }
  rewrite Hmap. pose proof (lshift_expand_arr_in_range f codes n Hn Hw Hr) as Hin.
  set (f' := lshift_fmt ShExpand f codes n) in *.
  assert (Hw': 1 <= nw f') by (unfold f', lshift_fmt; cbn [nw]; lia).
  destruct (raw_arr_list_store f' Trunc Saturate _ Hw' Hin) as (w & Hs & Hc & Ho & Hu).
  rewrite Hs. cbn [bind]. exists w. repeat split; try assumption.
Qed.
(* the common word is the least one: either the operand's own word, or some element needs every bit of it after the shift *)
Theorem lshift_expand_arr_word_least f codes n : 0 <= n -> 1 <= nw f -> Forall (in_range f) codes -> Exists (fun c => c <> 0) codes ->
  let f' := lshift_fmt ShExpand f codes n in
  nw f <= nw f' /\ (nw f < nw f' -> exists c, In c codes /\ ~ in_range {| sg := sg f; nw := nw f' - 1; nf := nf f |} (c * 2^n)).
Proof.
  intros Hn Hw Hr Hnz f'. unfold f', lshift_fmt. cbn [nw]. set (B := fold_right Z.max 0 (map py_bits codes)).
  split; [lia|]. intros Hlt.
  assert (Pn: 0 < 2^n) by (apply pow2_pos; lia).
  assert (HB: nw f < B + (if sg f then 1 else 0) + n) by lia.
  replace (Z.max (nw f) (B + (if sg f then 1 else 0) + n)) with (B + (if sg f then 1 else 0) + n) by lia.
  destruct (Z.eq_dec B 0) as [HB0|HBn].
  { (* every code is 0 or -1; some code is not 0, so it is -1 and the operand is signed *)
    apply Exists_exists in Hnz. destruct Hnz as (c & Hc & Hcn). exists c. split; [exact Hc|].
    assert (Hpb: py_bits c <= 0) by (rewrite <- HB0; apply fold_max_ge, in_map, Hc).
    pose proof (py_bits_bound c) as Hbd. pose proof (py_bits_nonneg c) as Hb0. replace (py_bits c) with 0 in Hbd by lia.
    change (2^0) with 1 in Hbd. assert (Hm1: c = -1) by lia. subst c.
    rewrite Forall_forall in Hr. specialize (Hr (-1) Hc). unfold in_range, cmin, cmax in Hr |- *. cbn [sg nw].
    destruct (sg f); [|lia]. rewrite HB0. replace (0 + 1 + n - 1 - 1) with (n - 1) by lia.
    destruct (Z.eq_dec n 0) as [->|Hn0]; [lia|]. assert (2^n = 2 * 2^(n - 1)) by (apply pow2_double; lia).
    assert (0 < 2^(n - 1)) by (apply pow2_pos; lia). lia. }
  assert (HBpos: 0 < B) by (pose proof (fold_max_nonneg (map py_bits codes)); unfold B in *; lia).
  assert (Hex: exists c, In c codes /\ py_bits c = B).
  { unfold B in *. clear - HBpos. induction codes as [|c cs IH]; cbn [map fold_right] in *; [lia|].
    destruct (Z.max_spec (py_bits c) (fold_right Z.max 0 (map py_bits cs))) as [(Hl & He)|(Hl & He)]; rewrite He in *.
    - destruct (IH HBpos) as (c' & Hi & Hb). exists c'. split; [right; exact Hi|exact Hb].
    - exists c. split; [left; reflexivity|reflexivity]. }
  destruct Hex as (c & Hc & Hb). exists c. split; [exact Hc|].
  unfold in_range, cmin, cmax. cbn [sg nw]. unfold py_bits in Hb.
  destruct (0 <=? c) eqn:E.
  - assert (Hc0: c <> 0) by (intros ->; cbn in Hb; lia). pose proof (bitlen_lower_bound c Hc0) as Hl. rewrite Hb in Hl.
    rewrite Z.abs_eq in Hl by lia.
    assert (Hp: 2^(B - 1 + n) = 2^(B - 1) * 2^n) by (apply pow2_split; lia).
    destruct (sg f); [replace (B + 1 + n - 1 - 1) with (B - 1 + n) by lia | replace (B + 0 + n - 1) with (B - 1 + n) by lia]; nia.
  - assert (Hc0: - c - 1 <> 0) by (intros H0; rewrite H0 in Hb; cbn in Hb; lia). pose proof (bitlen_lower_bound (- c - 1) Hc0) as Hl.
    rewrite Hb in Hl. rewrite Z.abs_eq in Hl by lia.
    assert (Hp: 2^(B - 1 + n) = 2^(B - 1) * 2^n) by (apply pow2_split; lia).
    rewrite Forall_forall in Hr. specialize (Hr c Hc). unfold in_range, cmin, cmax in Hr.
    destruct (sg f); [replace (B + 1 + n - 1 - 1) with (B - 1 + n) by lia; nia | lia].
Qed.

(* << in trunc/keep mode: same format; exact when representable, else the saturated value *)
Theorem lshift_keep f c n : 0 <= n -> 1 <= nw f -> nw f + n <= 62 -> in_range f c ->
  exists w, fxp_lshift ShKeep f c n = Ok (f, w) /\ w_codes w = [sat f (c * 2^n)] /\
    (in_range f (c * 2^n) -> w_codes w = [c * 2^n] /\ w_ovf w = false /\ w_unf w = false).
Proof.
  intros Hn Hw H62 Hr. unfold fxp_lshift. cbn [lshift_fmt].
  assert (Hraw: lshift_raw f c n = c * 2^n) by (apply lshift_raw_exact; assumption).
  rewrite Hraw. set (z := c * 2^n).
  assert (Hzb: Z.abs z < 2^63).
  { unfold z. destruct (code_mag f c Hw Hr) as (Hs & Hu). assert (Pn: 0 < 2^n) by (apply pow2_pos; lia).
    assert (E62: 2^(nw f + n) <= 2^62) by (apply pow2_le; lia). rewrite pow2_split in E62 by lia.
    assert (2^62 < 2^63) by (apply pow2_lt; lia). assert (2^(nw f) = 2 * 2^(nw f - 1)) by (apply pow2_double; lia). assert (0 < 2^(nw f - 1)) by (apply pow2_pos; lia).
    rewrite Z.abs_mul, (Z.abs_eq (2^n)) by lia. destruct (sg f); [specialize (Hs eq_refl)|specialize (Hu eq_refl)]; nia. }
  unfold raw_arr. replace (64 <=? nw f) with false by lia.
  assert (Hfit: fits_i64 z = true) by (unfold fits_i64; lia). rewrite Hfit.
  destruct (set_val_raw_i64 f Trunc Saturate [z] Hw ltac:(constructor; [exact Hzb|constructor])) as (w & Hs & Hc & Ho & Hu).
  rewrite Hs. cbn [bind]. exists w. cbn [map existsb overflow] in *. split; [reflexivity|]. split; [exact Hc|].
  intros Hin. rewrite Hc, Ho, Hu. rewrite sat_id by exact Hin. unfold in_range in Hin. repeat split; lia.
Qed.
