(* ProofsHuge.v — C01 / C02: float inputs of ANY finite magnitude under saturate (n_frac >= 0).
   The scaled double may overflow to infinity, the whole array may travel as Python objects
   (some element beyond 2^64): whatever the path, each element is stored as the Spec says —
   sat(round(v * 2^n_frac)) with the exact flags. *)
From Coq Require Import ZArith List Bool Lia ZifyBool.
From FxpVerif Require Import Spec SpecArith NP Store ProofsCore ProofsStore ProofsRound.
Import ListNotations.
Open Scope Z_scope.
Ltac Zify.zify_post_hook ::= Z.to_euclidean_division_equations.

Lemma bitlen_lower m : m <> 0 -> 2^(bitlen m - 1) <= Z.abs m.
Proof.
  intros Hm. unfold bitlen. replace (m =? 0) with false by lia.
  replace (Z.log2 (Z.abs m) + 1 - 1) with (Z.log2 (Z.abs m)) by lia.
  apply Z.log2_spec. lia.
Qed.

(* any finite double: 53-bit mantissa, exponent from the subnormal range up *)
Definition dbl (v : dy) : Prop := Z.abs (dm v) < 2^53 /\ -1074 <= de v /\ (dm v = 0 -> de v = 0).

Lemma rnd64_scaled m E : Z.abs m < 2^53 -> -1074 <= E ->
  rnd64 m E = if bitlen m + E <=? 1024 then Fin m E else Inf (m <? 0).
Proof.
  intros Hm HE. unfold rnd64. pose proof (bitlen_le m 53 ltac:(lia) Hm).
  replace (Z.max (bitlen m - 53) (-1074 - E) <=? 0) with true by lia. reflexivity.
Qed.

Lemma dy_eqb_sym a b : dy_eqb a b = dy_eqb b a.
Proof. unfold dy_eqb, dy_align. rewrite (Z.min_comm (de a) (de b)). apply Z.eqb_sym. Qed.

Lemma back_value_any f (is_obj : bool) c : 0 <= nf f <= 60 -> Z.abs c < 2^53 -> back_value f false is_obj c = Fin c (- nf f).
Proof.
  intros Hf Hc. unfold back_value. cbv beta iota zeta.
  assert (Hfit: fits53 c (- nf f)).
  { pose proof (bitlen_le c 53 ltac:(lia) Hc). pose proof (bitlen_nonneg c). unfold fits53. lia. }
  destruct is_obj.
  - apply rnd64_exact. exact Hfit.
  - rewrite f64_of_Z_exact by exact Hc. cbn [f64_mul_pow2]. replace (0 + - nf f) with (- nf f) by lia. apply rnd64_exact. exact Hfit.
Qed.

Lemma elem_pipe_sat_any f r (is_obj : bool) v : 1 <= nw f <= 52 -> 0 <= nf f <= 60 -> dbl v ->
  elem_pipe f r Saturate false is_obj (NF (Fin (dm v) (de v))) = Ok (spec_eres f r Saturate v).
Proof.
  intros Hw Hf (Hm & He & Hz). destruct v as [m e]. cbn [dm de] in *.
  pose proof (cmax_bound f Hw) as (Hcx & Hcn). assert (E5253: 2^52 < 2^53) by (apply pow2_lt; lia).
  assert (E63: 2^53 < 2^63) by (apply pow2_lt; lia).
  unfold elem_pipe, scale_elem. replace (0 <=? nf f) with true by lia. cbn [bind f64_mul_pow2].
  rewrite rnd64_scaled by lia.
  set (R := round_dy r {| dm := m; de := e + nf f |}).
  assert (Hspec: spec_eres f r Saturate {| dm := m; de := e |} =
                 {| e_code := sat f R; e_gt := cmax f <? R; e_lt := R <? cmin f;
                    e_inacc := negb (dy_eqb {| dm := sat f R; de := - nf f |} {| dm := m; de := e |}) |}).
  { unfold spec_eres, quantize, ovf_cond, unf_cond, inacc_cond, quantize, val_of_code, dy_scale. cbn [dm de overflow]. fold R. reflexivity. }
  rewrite Hspec.
  assert (Hin: forall c, Z.abs c < 2^53 ->
            inacc_elem f false is_obj (NF (Fin m e)) c = negb (dy_eqb {| dm := c; de := - nf f |} {| dm := m; de := e |})).
  { intros c Hc. unfold inacc_elem. rewrite back_value_any by assumption. rewrite f64_eqb_fin. f_equal. apply dy_eqb_sym. }
  assert (Hsat: Z.abs (sat f R) < 2^53) by (unfold sat; lia).
  destruct (bitlen m + (e + nf f) <=? 1024) eqn:Efin.
  - (* the scaled double is finite *)
    cbn [round_elem np_round]. fold R.
    assert (Hgt: elem_gt (NF (Fin R 0)) (cmax f) = (cmax f <? R)) by (unfold elem_gt; apply f64_ltb_int).
    assert (Hlt: elem_lt (NF (Fin R 0)) (cmin f) = (R <? cmin f)) by (unfold elem_lt; apply f64_ltb_int).
    assert (Ho: overflow_elem f Saturate is_obj (NF (Fin R 0)) = Ok (sat f R)).
    { unfold overflow_elem. rewrite Hgt, Hlt. unfold sat.
      destruct (cmax f <? R) eqn:E1; [f_equal; lia|]. destruct (R <? cmin f) eqn:E2; [f_equal; lia|].
      destruct is_obj.
      - unfold elem_to_int, num_int, f64_trunc_Z. replace (0 <=? 0) with true by reflexivity. rewrite Z.pow_0_r, Z.mul_1_r. f_equal. lia.
      - cbn [elem_to_code]. rewrite astype_int by lia. cbn [of_option]. f_equal. lia. }
    rewrite Ho. cbn [bind]. rewrite Hgt, Hlt, Hin by exact Hsat. reflexivity.
  - (* the scaled double overflowed to infinity: the value is far beyond the format *)
    assert (Hm0: m <> 0).
    { intros ->. specialize (Hz eq_refl). subst e. change (bitlen 0) with 0 in Efin. lia. }
    pose proof (bitlen_le m 53 ltac:(lia) Hm) as Hbl. pose proof (bitlen_lower m Hm0) as Hlow.
    assert (HE: 971 < e + nf f) by lia.
    assert (HR: R = m * 2^(e + nf f)) by (unfold R; apply round_dy_int; lia).
    assert (Hbig: 2^53 <= Z.abs R).
    { rewrite HR, Z.abs_mul. assert (0 < 2^(e + nf f)) by (apply pow2_pos; lia). rewrite (Z.abs_eq (2^(e + nf f))) by lia.
      assert (2^53 <= 2^(e + nf f)) by (apply pow2_le; lia). nia. }
    assert (Hsign: (m <? 0) = (R <? 0)).
    { rewrite HR. assert (0 < 2^(e + nf f)) by (apply pow2_pos; lia). destruct (m <? 0) eqn:E1; destruct (m * 2^(e + nf f) <? 0) eqn:E2; try reflexivity; nia. }
    cbn [round_elem np_round]. unfold overflow_elem, elem_gt, elem_lt.
    unfold f64_ltb, f64_cmp.
    destruct (m <? 0) eqn:Es.
    + cbn [bind]. replace (sat f R) with (cmin f) by (unfold sat; lia).
      rewrite Hin by lia. replace (cmax f <? R) with false by lia. replace (R <? cmin f) with true by lia. reflexivity.
    + cbn [bind]. replace (sat f R) with (cmax f) by (unfold sat; lia).
      rewrite Hin by lia. replace (cmax f <? R) with true by lia. replace (R <? cmin f) with false by lia. reflexivity.
Qed.

(* whole float arrays, whichever path set_val takes *)
Theorem set_val_floats_saturate_any f r vs : 1 <= nw f <= 52 -> 0 <= nf f <= 60 -> Forall dbl vs ->
  set_val_real f r Saturate false (AF64 (map (fun v => Fin (dm v) (de v)) vs)) VFloat = Ok (spec_wres f r Saturate vs).
Proof.
  intros Hw Hf Hvs. unfold set_val_real. rewrite exact_factor_AF64.
  set (io := obj_path f false (AF64 (map (fun v => Fin (dm v) (de v)) vs)) VFloat).
  assert (Hvals: (if io then Ok (arr_nums (AF64 (map (fun v => Fin (dm v) (de v)) vs)))
                  else astype_vd (AF64 (map (fun v => Fin (dm v) (de v)) vs)) VFloat)
                 = Ok (map (fun v => NF (Fin (dm v) (de v))) vs)).
  { destruct io; cbn [arr_nums astype_vd]; rewrite map_map; reflexivity. }
  rewrite Hvals. cbn [bind].
  rewrite (mapM_Forall2 _ (spec_eres f r Saturate) _ vs).
  - cbn [bind]. unfold spec_wres. rewrite !map_map, !existsb_map. reflexivity.
  - clear Hvals. clearbody io. induction Hvs as [|v vs Hv _ IH]; cbn [map]; constructor; [|exact IH]. apply elem_pipe_sat_any; assumption.
Qed.

(* ---- any word length (fix b7d5946: floats that can reach a bound of more than 53 bits are compared and clamped as integers) ----
   Codes and the overflow / underflow conditions for every finite double and every word of 1..960 bits (beyond that a finite
   double times 2^n_frac can overflow to infinity while still being inside the format).  The inaccuracy flag is left out: for
   codes of more than 53 bits the implementation compares rounded doubles. *)
Lemma cmax_bound_wide f n : 1 <= nw f <= n -> - 2^n < cmin f /\ cmin f <= 0 /\ 0 <= cmax f < 2^n.
Proof.
  intros Hw. unfold cmax, cmin.
  assert (2^(nw f) <= 2^n) by (apply pow2_le; lia).
  assert (0 < 2^(nw f - 1)) by (apply pow2_pos; lia).
  assert (2^(nw f) = 2 * 2^(nw f - 1)) by (apply pow2_double; lia).
  destruct (sg f); lia.
Qed.

Lemma elem_pipe_sat_wide f r (is_obj : bool) v : 1 <= nw f <= 960 -> 0 <= nf f <= 960 -> (is_obj = true \/ nw f <= 63) -> dbl v ->
  exists b, elem_pipe f r Saturate false is_obj (NF (Fin (dm v) (de v))) =
            Ok {| e_code := quantize f r Saturate v; e_gt := ovf_cond f r v; e_lt := unf_cond f r v; e_inacc := b |}.
Proof.
  intros Hw Hf Hpath (Hm & He & Hz). destruct v as [m e]. cbn [dm de] in *.
  unfold elem_pipe, scale_elem. replace (0 <=? nf f) with true by lia. cbn [bind f64_mul_pow2].
  rewrite rnd64_scaled by lia.
  unfold quantize, ovf_cond, unf_cond, dy_scale. cbn [dm de overflow].
  set (R := round_dy r {| dm := m; de := e + nf f |}).
  destruct (bitlen m + (e + nf f) <=? 1024) eqn:Efin.
  - cbn [round_elem np_round]. fold R.
    assert (Hgt: elem_gt (NF (Fin R 0)) (cmax f) = (cmax f <? R)) by (unfold elem_gt; apply f64_ltb_int).
    assert (Hlt: elem_lt (NF (Fin R 0)) (cmin f) = (R <? cmin f)) by (unfold elem_lt; apply f64_ltb_int).
    assert (Ho: overflow_elem f Saturate is_obj (NF (Fin R 0)) = Ok (sat f R)).
    { pose proof (cmax_bound_wide f 960 Hw) as (Ha0 & Hb0 & Hc0).
      unfold overflow_elem. rewrite Hgt, Hlt. unfold sat.
      destruct (cmax f <? R) eqn:E1; [f_equal; lia|]. destruct (R <? cmin f) eqn:E2; [f_equal; lia|].
      destruct is_obj.
      - unfold elem_to_int, num_int, f64_trunc_Z. replace (0 <=? 0) with true by reflexivity. rewrite Z.pow_0_r, Z.mul_1_r. f_equal. lia.
      - assert (Hn: nw f <= 63) by (destruct Hpath; [discriminate|assumption]).
        pose proof (cmax_bound_wide f 63 ltac:(lia)) as (Ha & Hb & Hc).
        cbn [elem_to_code]. rewrite astype_int by lia. cbn [of_option]. f_equal. lia. }
    rewrite Ho. cbn [bind]. rewrite Hgt, Hlt. eexists. reflexivity.
  - assert (Hm0: m <> 0).
    { intros ->. specialize (Hz eq_refl). subst e. change (bitlen 0) with 0 in Efin. lia. }
    pose proof (bitlen_le m 53 ltac:(lia) Hm) as Hbl. pose proof (bitlen_lower m Hm0) as Hlow.
    assert (HE: 971 < e + nf f) by lia.
    assert (HR: R = m * 2^(e + nf f)) by (unfold R; apply round_dy_int; lia).
    pose proof (cmax_bound_wide f 960 Hw) as (Ha & Hb & Hc).
    assert (Hbig: 2^960 <= Z.abs R).
    { rewrite HR, Z.abs_mul. assert (0 < 2^(e + nf f)) by (apply pow2_pos; lia). rewrite (Z.abs_eq (2^(e + nf f))) by lia.
      assert (2^960 <= 2^(e + nf f)) by (apply pow2_le; lia). nia. }
    assert (Hsign: (m <? 0) = (R <? 0)).
    { rewrite HR. assert (0 < 2^(e + nf f)) by (apply pow2_pos; lia). destruct (m <? 0) eqn:E1; destruct (m * 2^(e + nf f) <? 0) eqn:E2; try reflexivity; nia. }
    cbn [round_elem np_round]. unfold overflow_elem, elem_gt, elem_lt. unfold f64_ltb, f64_cmp.
    destruct (m <? 0) eqn:Es.
    + cbn [bind]. replace (sat f R) with (cmin f) by (unfold sat; lia).
      replace (cmax f <? R) with false by lia. replace (R <? cmin f) with true by lia. eexists. reflexivity.
    + cbn [bind]. replace (sat f R) with (cmax f) by (unfold sat; lia).
      replace (cmax f <? R) with true by lia. replace (R <? cmin f) with false by lia. eexists. reflexivity.
Qed.

Lemma mapM_sat_wide f r (is_obj : bool) vs : 1 <= nw f <= 960 -> 0 <= nf f <= 960 -> (is_obj = true \/ nw f <= 63) -> Forall dbl vs ->
  exists rs, mapM (elem_pipe f r Saturate false is_obj) (map (fun v => NF (Fin (dm v) (de v))) vs) = Ok rs /\
    map e_code rs = map (quantize f r Saturate) vs /\
    existsb e_gt rs = existsb (ovf_cond f r) vs /\ existsb e_lt rs = existsb (unf_cond f r) vs.
Proof.
  intros Hw Hf Hp Hvs. induction Hvs as [|v vs Hv _ (rs & IH & Hc & Hg & Hl)].
  - exists []. repeat split; reflexivity.
  - destruct (elem_pipe_sat_wide f r is_obj v Hw Hf Hp Hv) as (b & Hb).
    eexists. cbn [map mapM]. rewrite Hb. cbn [bind]. rewrite IH. cbn [bind]. split; [reflexivity|].
    cbn [map existsb e_code e_gt e_lt]. rewrite Hc, Hg, Hl. repeat split; reflexivity.
Qed.

Theorem set_val_floats_saturate_any_width f r vs : 1 <= nw f <= 960 -> 0 <= nf f <= 960 -> Forall dbl vs ->
  exists w, set_val_real f r Saturate false (AF64 (map (fun v => Fin (dm v) (de v)) vs)) VFloat = Ok w /\
    w_codes w = map (quantize f r Saturate) vs /\
    w_ovf w = existsb (ovf_cond f r) vs /\ w_unf w = existsb (unf_cond f r) vs.
Proof.
  intros Hw Hf Hvs. unfold set_val_real. rewrite exact_factor_AF64.
  set (io := obj_path f false (AF64 (map (fun v => Fin (dm v) (de v)) vs)) VFloat).
  assert (Hp: io = true \/ nw f <= 63).
  { destruct (64 <=? nw f) eqn:E; [left|right; lia]. unfold io, obj_path. rewrite E. rewrite orb_true_r. reflexivity. }
  assert (Hvals: (if io then Ok (arr_nums (AF64 (map (fun v => Fin (dm v) (de v)) vs)))
                  else astype_vd (AF64 (map (fun v => Fin (dm v) (de v)) vs)) VFloat)
                 = Ok (map (fun v => NF (Fin (dm v) (de v))) vs)).
  { destruct io; cbn [arr_nums astype_vd]; rewrite map_map; reflexivity. }
  rewrite Hvals. cbn [bind]. clearbody io. cbv beta iota.
  destruct (mapM_sat_wide f r io vs Hw Hf Hp Hvs) as (rs & Hrs & Hc & Hg & Hl).
  change (fun x : num => elem_pipe f r Saturate false io x) with (elem_pipe f r Saturate false io).
  rewrite Hrs. cbn [bind]. eexists. split; [reflexivity|]. cbn [w_codes w_ovf w_unf]. auto.
Qed.
