(* ProofsRawImposed.v — C08, integer-code ('raw', the default) method into an IMPOSED format:
   the raw functions _add_raw/_sub_raw/_mul_raw rescale the operand codes to the result's
   fraction length (an integer factor when it grows, a FLOAT factor when it shrinks), NumPy
   combines them (same dtype: integers; int64 with uint64, or anything with a float: float64),
   and set_val(raw=True) rounds and overflows the outcome.  For the operand domain of C08 all
   these floats are exact, so the result is Spec.quantize of the exact result, flags included,
   and the raw and repr methods agree. *)
From Coq Require Import ZArith List Bool Lia ZifyBool.
From FxpVerif Require Import Spec SpecArith NP Store ProofsCore ProofsStore ProofsRound ProofsConvert Arith ProofsArith ProofsImposed.
Import ListNotations.
Open Scope Z_scope.
Ltac Zify.zify_post_hook ::= Z.to_euclidean_division_equations.

(* ---------- comparing dyadics on any common exponent ---------- *)
Lemma dy_eqb_at E a b : E <= de a -> E <= de b ->
  dy_eqb a b = (dm a * 2^(de a - E) =? dm b * 2^(de b - E)).
Proof.
  intros Ha Hb. unfold dy_eqb, dy_align. set (e := Z.min (de a) (de b)).
  assert (He: E <= e) by (unfold e; lia).
  assert (P: 0 < 2^(e - E)) by (apply pow2_pos; lia).
  replace (de a - E) with ((de a - e) + (e - E)) by lia. replace (de b - E) with ((de b - e) + (e - E)) by lia.
  rewrite !pow2_split by (unfold e; lia).
  set (x := dm a * 2^(de a - e)). set (y := dm b * 2^(de b - e)).
  replace (dm a * (2^(de a - e) * 2^(e - E))) with (x * 2^(e - E)) by (unfold x; ring).
  replace (dm b * (2^(de b - e) * 2^(e - E))) with (y * 2^(e - E)) by (unfold y; ring).
  destruct (x =? y) eqn:E1; destruct (x * 2^(e - E) =? y * 2^(e - E)) eqn:E2; try reflexivity; nia.
Qed.

(* the inaccuracy comparison of a raw write against the one of the Spec *)
Lemma inacc_shift k c q v : dy_eqb q (dy_scale k v) = true ->
  dy_eqb (dy_of_Z c) q = dy_eqb {| dm := c; de := - k |} v.
Proof.
  intros H. destruct q as [m e], v as [mv ev]. unfold dy_scale, dy_of_Z in *. cbn [dm de] in *.
  set (E := Z.min (Z.min 0 e) (ev + k)).
  rewrite (dy_eqb_at E) in H by (cbn [de]; unfold E; lia). cbn [dm de] in H.
  rewrite (dy_eqb_at E) by (cbn [de]; unfold E; lia). cbn [dm de].
  rewrite (dy_eqb_at (E - k)) by (cbn [de]; unfold E; lia). cbn [dm de].
  replace (- k - (E - k)) with (0 - E) by lia. replace (ev - (E - k)) with (ev + k - E) by lia.
  apply Z.eqb_eq in H. rewrite H. reflexivity.
Qed.

(* ---------- set_val(raw=True) on one element, with the exact inaccuracy condition ---------- *)
(* what a raw write of the (dyadic) raw value q produces, in Spec terms *)
Definition raw_eres (f : fmt) (r : rmode) (o : omode) (q : dy) : eres :=
  let c := overflow o f (round_dy r q) in
  {| e_code := c; e_gt := cmax f <? round_dy r q; e_lt := round_dy r q <? cmin f;
     e_inacc := negb (dy_eqb (dy_of_Z c) q) |}.

Lemma back_value_raw f c : Z.abs c < 2^53 -> back_value f true false c = Fin c 0.
Proof.
  intros Hc. unfold back_value. cbv beta iota zeta. rewrite f64_of_Z_exact by exact Hc. cbn [f64_mul_pow2].
  replace (0 + - 0) with 0 by reflexivity. apply rnd64_exact.
  pose proof (bitlen_le c 53 ltac:(lia) Hc). pose proof (bitlen_nonneg c). unfold fits53. lia.
Qed.

Lemma elem_pipe_raw_int f r o z : 1 <= nw f <= 52 -> Z.abs z < 2^53 ->
  elem_pipe f r o true false (NI z) = Ok (raw_eres f r o (dy_of_Z z)).
Proof.
  intros Hw Hz. unfold elem_pipe. cbn [negb scale_elem bind round_elem].
  rewrite overflow_elem_int by exact Hw. cbn [bind elem_gt elem_lt].
  unfold raw_eres. cbv zeta. unfold dy_of_Z. rewrite !round_dy_int by lia. rewrite !Z.pow_0_r, !Z.mul_1_r.
  f_equal. f_equal. unfold inacc_elem.
  rewrite back_value_raw by (apply code_bound; exact Hw).
  rewrite f64_of_Z_exact by exact Hz. rewrite f64_eqb_fin.
  f_equal. unfold dy_eqb, dy_align. cbn [dm de]. rewrite Z.min_id, Z.sub_diag, Z.pow_0_r, !Z.mul_1_r. apply Z.eqb_sym.
Qed.

Lemma elem_pipe_raw_float f r o q : 1 <= nw f <= 52 ->
  Z.abs (dm q) < 2^53 -> (0 <= de q -> Z.abs (dm q) * 2^(de q) < 2^62) ->
  elem_pipe f r o true false (NF (Fin (dm q) (de q))) = Ok (raw_eres f r o q).
Proof.
  intros Hw Hm Hmag. unfold elem_pipe. cbn [negb scale_elem bind round_elem np_round].
  assert (Hq: - 2^63 < round_dy r {| dm := dm q; de := de q |} < 2^63).
  { assert (E63: 2^63 = 2 * 2^62) by reflexivity. assert (E62: 2^62 = 512 * 2^53) by reflexivity.
    assert (P53: 0 < 2^53) by (apply pow2_pos; lia).
    destruct (Z_le_gt_dec 0 (de q)) as [Hge|Hlt].
    - specialize (Hmag Hge). rewrite round_dy_int by lia. assert (0 < 2^(de q)) by (apply pow2_pos; lia). nia.
    - pose proof (round_dy_bound r (dm q) (- de q) ltac:(lia)) as Hb.
      replace (- - de q) with (de q) in Hb by lia. lia. }
  rewrite overflow_elem_float by (try exact Hw; exact Hq). cbn [bind].
  rewrite elem_gt_rounded, elem_lt_rounded by exact Hw.
  unfold raw_eres. cbv zeta. destruct q as [m e]. cbn [dm de] in *.
  f_equal. f_equal. unfold inacc_elem.
  rewrite back_value_raw by (apply code_bound; exact Hw).
  rewrite f64_eqb_fin. f_equal.
  unfold dy_of_Z, dy_eqb, dy_align. cbn [dm de]. rewrite (Z.min_comm e 0). lia.
Qed.

(* in Spec terms: a raw value that denotes v * 2^n_frac gives exactly what the Spec says of v *)
Lemma raw_eres_spec f r o q v : dy_eqb q (dy_scale (nf f) v) = true -> raw_eres f r o q = spec_eres f r o v.
Proof.
  intros H. unfold raw_eres, spec_eres, quantize, ovf_cond, unf_cond, inacc_cond. cbv zeta.
  rewrite (round_dy_eqv r _ _ H). f_equal.
  f_equal. unfold val_of_code, quantize. apply inacc_shift. exact H.
Qed.

(* ---------- set_val(raw=True) on whole arrays, per dtype of the raw array ---------- *)
(* a raw value the property's domain can produce: below 2^53, and below 2^62 once shifted *)
Definition rawq_ok (q : dy) : Prop :=
  Z.abs (dm q) < 2^53 /\ (0 <= de q -> Z.abs (dm q) * 2^(de q) < 2^62).

Lemma finish_raw f r o xs vs :
  Forall2 (fun x v => elem_pipe f r o true false x = Ok (spec_eres f r o v)) xs vs ->
  bind (mapM (elem_pipe f r o true false) xs) (fun rs =>
    Ok {| w_codes := map e_code rs; w_ovf := existsb e_gt rs; w_unf := existsb e_lt rs; w_inacc := existsb e_inacc rs |})
  = Ok (spec_wres f r o vs).
Proof.
  intros H. rewrite (mapM_Forall2 _ (spec_eres f r o) _ vs H). cbn [bind].
  unfold spec_wres. rewrite !map_map, !existsb_map. reflexivity.
Qed.

Lemma raw_store_f64 f r o qs vs : 1 <= nw f <= 52 ->
  Forall2 (fun q v => rawq_ok q /\ dy_eqb q (dy_scale (nf f) v) = true) qs vs ->
  set_val_real f r o true (AF64 (map (fun q => Fin (dm q) (de q)) qs)) VFloat = Ok (spec_wres f r o vs).
Proof.
  intros Hw H.
  assert (Hobj: obj_path f true (AF64 (map (fun q => Fin (dm q) (de q)) qs)) VFloat = false).
  { rewrite obj_path_AF64. rewrite map_map, existsb_map.
    replace (64 <=? nw f) with false by lia. rewrite !orb_false_r.
    apply existsb_false. clear - H. induction H as [|q v qs vs ((Hm & Hmag) & _) _ IH]; constructor; [|exact IH].
    unfold num_big64, f64_floor_Z. assert (2^53 < 2^64) by (apply pow2_lt; lia). assert (2^62 < 2^64) by (apply pow2_lt; lia).
    destruct (0 <=? de q) eqn:E.
    - specialize (Hmag ltac:(lia)). lia.
    - assert (0 < 2^(- de q)) by (apply pow2_pos; lia). nia. }
  rewrite (set_val_real_eq _ _ _ _ _ _ _ Hobj (exact_factor_raw _ _)). cbn [astype_vd bind]. rewrite map_map. apply finish_raw.
  clear Hobj. induction H as [|q v qs vs ((Hm & Hmag) & He) _ IH]; cbn [map]; constructor; [|exact IH].
  rewrite elem_pipe_raw_float by assumption. f_equal. apply raw_eres_spec. exact He.
Qed.

Lemma raw_store_i64 f r o zs vs : 1 <= nw f <= 52 ->
  Forall2 (fun z v => Z.abs z < 2^53 /\ dy_eqb (dy_of_Z z) (dy_scale (nf f) v) = true) zs vs ->
  set_val_real f r o true (AI64 zs) VInt = Ok (spec_wres f r o vs).
Proof.
  intros Hw H.
  assert (E1: 2^53 < 2^63) by (apply pow2_lt; lia). assert (E2: 2^63 < 2^64) by (apply pow2_lt; lia).
  assert (Hobj: obj_path f true (AI64 zs) VInt = false).
  { rewrite obj_path_AI64_int, exact_factor_raw, orb_false_r. unfold conv_factor_int. rewrite existsb_map.
    replace (64 <=? nw f) with false by lia. replace (2^63 <=? 1) with false by reflexivity. cbn [orb].
    rewrite !existsb_false; [reflexivity| |].
    - clear - H E1. induction H as [|z v zs vs (Hz & _) _ IH]; constructor; [lia|exact IH].
    - clear - H E1 E2. induction H as [|z v zs vs (Hz & _) _ IH]; constructor; [unfold num_big64; lia|exact IH]. }
  rewrite (set_val_real_eq _ _ _ _ _ _ _ Hobj (exact_factor_raw _ _)). cbn [astype_vd bind]. apply finish_raw.
  clear Hobj. induction H as [|z v zs vs (Hz & He) _ IH]; cbn [map]; constructor; [|exact IH].
  rewrite elem_pipe_raw_int by assumption. f_equal. apply raw_eres_spec. exact He.
Qed.

Lemma raw_store_u64 f r o zs vs : 1 <= nw f <= 52 ->
  Forall2 (fun z v => Z.abs z < 2^53 /\ dy_eqb (dy_of_Z z) (dy_scale (nf f) v) = true) zs vs ->
  set_val_real f r o true (AU64 (map wrap_u64 zs)) VInt = Ok (spec_wres f r o vs).
Proof.
  intros Hw H.
  assert (E1: 2^53 < 2^63) by (apply pow2_lt; lia).
  assert (Hobj: obj_path f true (AU64 (map wrap_u64 zs)) VInt = false).
  { rewrite obj_path_AU64_raw. rewrite map_map, existsb_map.
    replace (64 <=? nw f) with false by lia. rewrite !orb_false_r.
    apply existsb_false. apply Forall_forall. intros z _. unfold num_big64, wrap_u64.
    assert (0 < 2^64) by (apply pow2_pos; lia). pose proof (Z.mod_pos_bound z (2^64) ltac:(lia)). lia. }
  rewrite (set_val_real_eq _ _ _ _ _ _ _ Hobj (exact_factor_raw _ _)). cbn [astype_vd bind]. rewrite map_map. apply finish_raw.
  clear Hobj. induction H as [|z v zs vs (Hz & He) _ IH]; cbn [map]; constructor; [|exact IH].
  rewrite wrap_i64_of_u64 by lia.
  rewrite elem_pipe_raw_int by assumption. f_equal. apply raw_eres_spec. exact He.
Qed.

(* ---------- the value of a dyadic on a common exponent; exact operations ---------- *)
Definition at_exp (E : Z) (a : dy) : Z := dm a * 2^(de a - E).
Lemma dy_eqb_at' E a b : E <= de a -> E <= de b -> dy_eqb a b = (at_exp E a =? at_exp E b).
Proof. apply dy_eqb_at. Qed.
Lemma at_addsub op E a b : op <> OpMul -> E <= de a -> E <= de b ->
  at_exp E (exact_op op a b) = z_op op (at_exp E a) (at_exp E b).
Proof.
  intros Hop Ha Hb. unfold at_exp.
  assert (forall x y e, e = Z.min (de a) (de b) ->
          (x * 2^(de a - e)) * 2^(e - E) = x * 2^(de a - E) /\ (y * 2^(de b - e)) * 2^(e - E) = y * 2^(de b - E)) as Hsplit.
  { intros x y e ->. split.
    - replace (de a - E) with ((de a - Z.min (de a) (de b)) + (Z.min (de a) (de b) - E)) by lia. rewrite pow2_split by lia. ring.
    - replace (de b - E) with ((de b - Z.min (de a) (de b)) + (Z.min (de a) (de b) - E)) by lia. rewrite pow2_split by lia. ring. }
  destruct (Hsplit (dm a) (dm b) _ eq_refl) as (H1 & H2).
  destruct op; [| |congruence]; cbn [exact_op z_op]; unfold dy_add, dy_sub, dy_align; cbn [dm de]; rewrite <- H1, <- H2; ring.
Qed.
Lemma at_scale E k a : at_exp E (dy_scale k a) = at_exp (E - k) a.
Proof. unfold at_exp, dy_scale. cbn [dm de]. f_equal. f_equal. lia. Qed.
Lemma dy_eqb_refl a : dy_eqb a a = true.
Proof. unfold dy_eqb, dy_align. apply Z.eqb_refl. Qed.

(* ---------- one operand rescaled to the result's fraction length ---------- *)
Inductive rk3 := RI | RU | RF.
Definition renc (K : rk3) (q : dy) : mval :=
  match K with RI => MI (dm q) | RU => MU (wrap_u64 (dm q)) | RF => MF (Fin (dm q) (de q)) end.
Definition skind (f : fmt) (k : Z) : rk3 := if 0 <=? k then (if sg f then RI else RU) else RF.
Definition sval (c k : Z) : dy := if 0 <=? k then {| dm := c * 2^k; de := 0 |} else {| dm := c; de := k |}.

Lemma sval_eqv c k : dy_eqb (sval c k) {| dm := c; de := k |} = true.
Proof.
  unfold sval. destruct (0 <=? k) eqn:E; [|apply dy_eqb_refl].
  rewrite (dy_eqb_at 0) by (cbn [de]; lia). cbn [dm de]. rewrite Z.sub_diag, Z.pow_0_r, Z.sub_0_r. lia.
Qed.

Lemma sval_bound f c k : small_op f -> in_range f c -> -12 <= k <= 26 ->
  Z.abs (dm (sval c k)) <= 2^38 /\ -12 <= de (sval c k) <= 0 /\ (sg f = false -> 0 <= dm (sval c k)).
Proof.
  intros Hf Hr Hk. pose proof (small_code f c Hf Hr) as Hc. unfold sval.
  assert (E38: 2^38 = 2^12 * 2^26) by reflexivity. assert (P12: 0 < 2^12) by reflexivity.
  destruct (0 <=? k) eqn:E; cbn [dm de].
  - assert (0 < 2^k <= 2^26) by (split; [apply pow2_pos; lia | apply pow2_le; lia]).
    repeat split; try lia; try nia. intros Hs. unfold in_range, cmin in Hr. rewrite Hs in Hr. nia.
  - repeat split; try lia. intros Hs. unfold in_range, cmin in Hr. rewrite Hs in Hr. lia.
Qed.

Lemma mscale_small f c k : small_op f -> in_range f c -> -12 <= k <= 26 ->
  mscale (load (storage f) c) k = Ok (renc (skind f k) (sval c k)).
Proof.
  intros Hf Hr Hk. pose proof (sval_bound f c k Hf Hr Hk) as (Hb & _ & Hpos). pose proof (small_code f c Hf Hr) as Hc.
  destruct Hf as (Hw & Hfr). rewrite storage_small by lia.
  assert (E38: 2^38 < 2^63) by (apply pow2_lt; lia). assert (E64: 2^63 < 2^64) by (apply pow2_lt; lia).
  assert (E12: 2^12 < 2^53) by (apply pow2_lt; lia).
  unfold mscale, skind, sval in *. destruct (0 <=? k) eqn:E; cbn [dm de] in *.
  - assert (0 < 2^k <= 2^26) by (split; [apply pow2_pos; lia | apply pow2_le; lia]). assert (2^26 < 2^38) by (apply pow2_lt; lia).
    destruct (sg f) eqn:Es; cbn [load renc dm].
    + unfold fits_i64. replace (- 2^63 <=? 2^k) with true by lia. replace (2^k <? 2^63) with true by lia. cbn [andb].
      rewrite wrap_i64_small by lia. reflexivity.
    + unfold fits_u64. replace (0 <=? 2^k) with true by lia. replace (2^k <? 2^64) with true by lia. cbn [andb]. reflexivity.
  - destruct (sg f); cbn [load renc dm de as_num num_to_f64]; rewrite f64_of_Z_exact by lia; cbn [f64_mul_pow2];
      replace (0 + k) with k by lia; f_equal; f_equal; apply rnd64_exact;
      pose proof (bitlen_le c 53 ltac:(lia) ltac:(lia)); pose proof (bitlen_nonneg c); unfold fits53; lia.
Qed.

(* functions._rescale without exact rationals, when utils.scale_raw has no reason to switch to Python
   integers: the plain product by 2**k *)
Lemma rescale_plain v k : k < 63 ->
  match v with MI z => 0 < k -> Z.abs z * 2^k < 2^63 | MU z => 0 < k -> 0 <= z /\ z * 2^k < 2^63 | MF _ => True | MO _ => False end ->
  rescale false false v k = mscale v k.
Proof.
  intros Hk Hv. unfold rescale. destruct (k <? 0) eqn:En.
  - unfold mscale_raw. replace (0 <? k) with false by lia. rewrite andb_false_r. reflexivity.
  - unfold mscale_raw. rewrite En. cbn [andb]. destruct (0 <? k) eqn:Ep; [|reflexivity].
    assert (P: 0 < 2^k < 2^63) by (split; [apply pow2_pos; lia | apply pow2_lt; lia]). assert (P64: 2^63 < 2^64) by (apply pow2_lt; lia).
    unfold mscale. replace (0 <=? k) with true by lia.
    destruct v as [z|z|x|n]; [| |reflexivity|contradiction].
    + specialize (Hv ltac:(lia)). replace (63 <=? k) with false by lia. replace (2^63 <=? Z.abs z * 2^k) with false by lia. cbn [orb].
      unfold fits_i64. replace (- 2^63 <=? 2^k) with true by lia. replace (2^k <? 2^63) with true by lia. cbn [andb].
      rewrite wrap_i64_small by (rewrite Z.abs_mul, (Z.abs_eq (2^k)) by lia; lia). reflexivity.
    + destruct (Hv ltac:(lia)) as (Hz0 & Hzk). replace (63 <=? k) with false by lia. rewrite (Z.abs_eq z) by lia. replace (2^63 <=? z * 2^k) with false by lia. cbn [orb].
      unfold fits_u64. replace (0 <=? 2^k) with true by lia. replace (2^k <? 2^64) with true by lia. cbn [andb].
      rewrite wrap_u64_small by nia. reflexivity.
Qed.
Lemma rescale_small f c k : small_op f -> in_range f c -> -12 <= k <= 26 ->
  rescale false false (load (storage f) c) k = Ok (renc (skind f k) (sval c k)).
Proof.
  intros Hf Hr Hk. rewrite rescale_plain; [apply mscale_small; assumption|lia|].
  pose proof (small_code f c Hf Hr) as Hc. destruct Hf as (Hw & _). rewrite storage_small by lia.
  assert (E38: 2^12 * 2^26 = 2^38) by reflexivity. assert (2^38 < 2^63) by (apply pow2_lt; lia).
  destruct (sg f) eqn:Es; cbn [load]; intros Hp; assert (0 < 2^k <= 2^26) by (split; [apply pow2_pos; lia | apply pow2_le; lia]).
  - nia.
  - unfold in_range, cmin in Hr. rewrite Es in Hr. split; [lia|nia].
Qed.

(* ---------- NumPy's elementwise + and - on two rescaled operands ---------- *)
Definition join (a b : rk3) : rk3 := match a, b with RI, RI => RI | RU, RU => RU | _, _ => RF end.
Definition opnd_ok (K : rk3) (q : dy) : Prop :=
  Z.abs (dm q) <= 2^38 /\ -12 <= de q <= 0 /\ (K <> RF -> de q = 0) /\ (K = RU -> 0 <= dm q).

Lemma to_f64_renc K q : opnd_ok K q -> num_to_f64 (as_num (renc K q)) = Fin (dm q) (de q).
Proof.
  intros (Hm & He & H0 & Hpos). assert (E38: 2^38 < 2^53) by (apply pow2_lt; lia). assert (E64: 2^53 < 2^64) by (apply pow2_lt; lia).
  destruct K; cbn [renc as_num num_to_f64].
  - rewrite (H0 ltac:(discriminate)). apply f64_of_Z_exact. lia.
  - rewrite (H0 ltac:(discriminate)). specialize (Hpos eq_refl). rewrite wrap_u64_small by lia. apply f64_of_Z_exact. lia.
  - reflexivity.
Qed.

Lemma f64_addsub_exact op a b : op <> OpMul ->
  Z.abs (dm a) <= 2^38 -> -12 <= de a <= 0 -> Z.abs (dm b) <= 2^38 -> -12 <= de b <= 0 ->
  f64_op op (Fin (dm a) (de a)) (Fin (dm b) (de b)) = Fin (dm (exact_op op a b)) (de (exact_op op a b))
  /\ Z.abs (dm (exact_op op a b)) <= 2^51 /\ -12 <= de (exact_op op a b) <= 0.
Proof.
  intros Hop Ha Hea Hb Heb. set (e := Z.min (de a) (de b)).
  assert (0 <= de a - e <= 12) by (unfold e; lia). assert (0 <= de b - e <= 12) by (unfold e; lia).
  assert (0 < 2^(de a - e) <= 2^12) by (split; [apply pow2_pos; lia | apply pow2_le; lia]).
  assert (0 < 2^(de b - e) <= 2^12) by (split; [apply pow2_pos; lia | apply pow2_le; lia]).
  assert (E51: 2^51 = 2 * (2^38 * 2^12)) by reflexivity. assert (P: 0 < 2^38) by reflexivity.
  assert (E53: 2^51 < 2^53) by (apply pow2_lt; lia).
  destruct op; [| |congruence]; cbn [f64_op exact_op f64_sub f64_neg f64_add]; unfold dy_add, dy_sub, dy_align; cbn [dm de]; fold e.
  - assert (Hm: Z.abs (dm a * 2^(de a - e) + dm b * 2^(de b - e)) <= 2^51) by nia.
    split; [|split; [exact Hm | unfold e; lia]]. apply rnd64_exact.
    pose proof (bitlen_le _ 53 ltac:(lia) (Z.le_lt_trans _ _ _ Hm E53)). pose proof (bitlen_nonneg (dm a * 2^(de a - e) + dm b * 2^(de b - e))). unfold fits53. lia.
  - assert (Hm: Z.abs (dm a * 2^(de a - e) - dm b * 2^(de b - e)) <= 2^51) by nia.
    split; [|split; [exact Hm | unfold e; lia]].
    replace (dm a * 2^(de a - e) + - dm b * 2^(de b - e)) with (dm a * 2^(de a - e) - dm b * 2^(de b - e)) by ring.
    apply rnd64_exact.
    pose proof (bitlen_le _ 53 ltac:(lia) (Z.le_lt_trans _ _ _ Hm E53)). pose proof (bitlen_nonneg (dm a * 2^(de a - e) - dm b * 2^(de b - e))). unfold fits53. lia.
Qed.

Lemma exact_int_case op a b : op <> OpMul -> de a = 0 -> de b = 0 ->
  dm (exact_op op a b) = z_op op (dm a) (dm b) /\ de (exact_op op a b) = 0.
Proof.
  intros Hop Ha Hb. destruct a as [ma ea], b as [mb eb]. cbn [dm de] in *. subst ea eb.
  destruct op; [| |congruence]; cbn [exact_op z_op]; unfold dy_add, dy_sub, dy_align; cbn [dm de];
    change (Z.min 0 0) with 0; rewrite Z.sub_diag, Z.pow_0_r, !Z.mul_1_r; split; reflexivity.
Qed.

Lemma mbin_addsub op Ka Kb qa qb : op <> OpMul -> opnd_ok Ka qa -> opnd_ok Kb qb ->
  let q := exact_op op qa qb in
  mbin op (renc Ka qa) (renc Kb qb) = renc (join Ka Kb) q
  /\ Z.abs (dm q) <= 2^51 /\ -12 <= de q <= 0 /\ (join Ka Kb <> RF -> de q = 0).
Proof.
  intros Hop Ha Hb q.
  pose proof (to_f64_renc Ka qa Ha) as Fa. pose proof (to_f64_renc Kb qb Hb) as Fb.
  destruct Ha as (Hma & Hea & H0a & Hpa). destruct Hb as (Hmb & Heb & H0b & Hpb).
  destruct (f64_addsub_exact op qa qb Hop Hma Hea Hmb Heb) as (Hf & Hqm & Hqe). fold q in Hf, Hqm, Hqe.
  assert (E51: 2^51 < 2^63) by (apply pow2_lt; lia).
  assert (Hfl: mbin op (renc Ka qa) (renc Kb qb) = MF (Fin (dm q) (de q)) \/ (Ka = RI /\ Kb = RI) \/ (Ka = RU /\ Kb = RU)).
  { destruct Ka, Kb; try (right; left; split; reflexivity); try (right; right; split; reflexivity); left;
      cbn [renc mbin]; cbn [renc] in Fa, Fb; rewrite ?Fa, ?Fb; try (rewrite Hf; reflexivity);
      cbn [as_num num_to_f64] in *; rewrite ?Fa, ?Fb, Hf; reflexivity. }
  destruct Hfl as [Hfl | [(-> & ->) | (-> & ->)]].
  - destruct Ka, Kb; cbn [join]; try (split; [exact Hfl|]; repeat split; try lia; intros; congruence).
    + exfalso. cbn [renc mbin] in Hfl. discriminate.
    + exfalso. cbn [renc mbin] in Hfl. discriminate.
  - destruct (exact_int_case op qa qb Hop (H0a ltac:(discriminate)) (H0b ltac:(discriminate))) as (Hd & He0). fold q in Hd, He0.
    cbn [join renc mbin]. rewrite Hd in *. split; [|repeat split; try lia].
    rewrite wrap_i64_small by lia. reflexivity.
  - destruct (exact_int_case op qa qb Hop (H0a ltac:(discriminate)) (H0b ltac:(discriminate))) as (Hd & He0). fold q in Hd, He0.
    cbn [join renc mbin]. rewrite Hd in *. split; [|repeat split; try lia].
    rewrite wrap_u64_op. reflexivity.
Qed.

(* _sub_raw: two uint64 operands are subtracted in int64 *)
Definition subjoin (a b : rk3) : rk3 := match join a b with RU => RI | K => K end.
Lemma msub_exact Ka Kb qa qb : opnd_ok Ka qa -> opnd_ok Kb qb ->
  let q := exact_op OpSub qa qb in
  msub (renc Ka qa) (renc Kb qb) = renc (subjoin Ka Kb) q
  /\ Z.abs (dm q) <= 2^51 /\ -12 <= de q <= 0 /\ (subjoin Ka Kb <> RF -> de q = 0).
Proof.
  intros Ha Hb q.
  destruct (mbin_addsub OpSub Ka Kb qa qb ltac:(discriminate) Ha Hb) as (Hm & Hqm & Hqe & Hq0). fold q in Hm, Hqm, Hqe, Hq0.
  destruct Ka, Kb; try (unfold subjoin; cbn [join renc msub] in *; split; [exact Hm|]; repeat split; try lia; exact Hq0).
  (* two unsigned operands *)
  destruct Ha as (Hma & Hea & H0a & Hpa). destruct Hb as (Hmb & Heb & H0b & Hpb).
  specialize (Hpa eq_refl). specialize (Hpb eq_refl).
  destruct (exact_int_case OpSub qa qb ltac:(discriminate) (H0a ltac:(discriminate)) (H0b ltac:(discriminate))) as (Hd & He0). fold q in Hd, He0.
  assert (E38: 2^38 < 2^63) by (apply pow2_lt; lia). assert (E64: 2^63 < 2^64) by (apply pow2_lt; lia).
  unfold subjoin. cbn [join renc msub]. rewrite !wrap_u64_small by lia. rewrite !(wrap_i64_small (dm _)) by lia.
  cbn [z_op] in Hd. rewrite wrap_i64_small by lia. rewrite Hd. repeat split; try lia.
Qed.

(* ---------- _add_raw / _sub_raw on one pair of codes ---------- *)
Definition rkind (op : aop) (fx fy ft : fmt) : rk3 :=
  match op with
  | OpMul => if 0 <=? nf ft - nf fx - nf fy then join (skind fx 0) (skind fy 0) else RF
  | OpSub => subjoin (skind fx (nf ft - nf fx)) (skind fy (nf ft - nf fy))
  | OpAdd => join (skind fx (nf ft - nf fx)) (skind fy (nf ft - nf fy))
  end.

Lemma opnd_of_sval f c k : small_op f -> in_range f c -> -12 <= k <= 26 -> opnd_ok (skind f k) (sval c k).
Proof.
  intros Hf Hr Hk. destruct (sval_bound f c k Hf Hr Hk) as (Hb & He & Hpos). unfold opnd_ok. repeat split; try lia.
  - unfold skind, sval. destruct (0 <=? k); [reflexivity|]. intros H. exfalso. apply H. reflexivity.
  - unfold skind. destruct (0 <=? k); [|discriminate]. destruct (sg f) eqn:Es; [discriminate|]. intros _. apply Hpos. reflexivity.
Qed.

Lemma raw_cast_small dx dy n : n <= 53 -> raw_cast dx dy n = false.
Proof. intros Hn. unfold raw_cast. replace (64 <=? n) with false by lia. replace (53 <? n) with false by lia. rewrite andb_false_r. reflexivity. Qed.

Lemma raw_elem_addsub op fx fy ft cx cy : op <> OpMul -> small_op fx -> small_op fy -> small_tgt ft ->
  in_range fx cx -> in_range fy cy ->
  exists q, raw_elem false op fx fy (nf ft) cx cy = Ok (renc (rkind op fx fy ft) q) /\
    rawq_ok q /\ (rkind op fx fy ft <> RF -> de q = 0) /\
    dy_eqb q (dy_scale (nf ft) (exact_codes op fx cx fy cy)) = true.
Proof.
  intros Hop Hx Hy Ht Hrx Hry.
  assert (Hkx: -12 <= nf ft - nf fx <= 26) by (destruct Hx as (? & ?), Ht as (? & ?); lia).
  assert (Hky: -12 <= nf ft - nf fy <= 26) by (destruct Hy as (? & ?), Ht as (? & ?); lia).
  pose proof (opnd_of_sval fx cx _ Hx Hrx Hkx) as Oa. pose proof (opnd_of_sval fy cy _ Hy Hry Hky) as Ob.
  assert (Hres: (match op with OpSub => msub (renc (skind fx (nf ft - nf fx)) (sval cx (nf ft - nf fx))) (renc (skind fy (nf ft - nf fy)) (sval cy (nf ft - nf fy)))
                          | _ => mbin op (renc (skind fx (nf ft - nf fx)) (sval cx (nf ft - nf fx))) (renc (skind fy (nf ft - nf fy)) (sval cy (nf ft - nf fy))) end)
                = renc (rkind op fx fy ft) (exact_op op (sval cx (nf ft - nf fx)) (sval cy (nf ft - nf fy)))
                /\ Z.abs (dm (exact_op op (sval cx (nf ft - nf fx)) (sval cy (nf ft - nf fy)))) <= 2^51
                /\ -12 <= de (exact_op op (sval cx (nf ft - nf fx)) (sval cy (nf ft - nf fy))) <= 0
                /\ (rkind op fx fy ft <> RF -> de (exact_op op (sval cx (nf ft - nf fx)) (sval cy (nf ft - nf fy))) = 0)).
  { destruct op; [| |congruence].
    - exact (mbin_addsub OpAdd _ _ _ _ Hop Oa Ob).
    - exact (msub_exact _ _ _ _ Oa Ob). }
  destruct Hres as (Hm & Hqm & Hqe & Hq0).
  set (q := exact_op op (sval cx (nf ft - nf fx)) (sval cy (nf ft - nf fy))) in *.
  exists q.
  assert (E51: 2^51 < 2^53) by (apply pow2_lt; lia). assert (E62: 2^53 < 2^62) by (apply pow2_lt; lia).
  split; [|split; [|split]].
  - unfold raw_elem.
    assert (Hrc: raw_cast (storage fx) (storage fy) (Z.max (nw fx + nf ft - nf fx) (nw fy + nf ft - nf fy) + 2) = false).
    { apply raw_cast_small. destruct Hx as (? & ?), Hy as (? & ?), Ht as (? & ?). lia. }
    assert (Hpc: precision_cast (nf ft) = false) by (unfold precision_cast; destruct Ht as (? & ?); lia).
    replace (match op with OpAdd | OpSub => _ | OpMul => _ end) with
      (bind (rescale false false (cast_if false (load (storage fx) cx)) (nf ft - nf fx)) (fun a =>
       bind (rescale false false (cast_if false (load (storage fy) cy)) (nf ft - nf fy)) (fun b => Ok (match op with OpSub => msub a b | _ => mbin op a b end)))).
    2: { destruct op; [| |congruence]; rewrite Hrc, Hpc; reflexivity. }
    cbn [cast_if]. rewrite (rescale_small fx cx _ Hx Hrx Hkx), (rescale_small fy cy _ Hy Hry Hky). cbn [bind].
    rewrite Hm. reflexivity.
  - split; [lia|]. intros H0. replace (de q) with 0 by lia. rewrite Z.pow_0_r. lia.
  - exact Hq0.
  - (* q and the scaled exact result have the same value *)
    set (E := Z.min (Z.min (-12) (- nf fx + nf ft)) (- nf fy + nf ft) - 12).
    assert (Hqe' : E <= de q) by (unfold E; lia).
    pose proof (sval_eqv cx (nf ft - nf fx)) as Sx. pose proof (sval_eqv cy (nf ft - nf fy)) as Sy.
    destruct Oa as (_ & Hea & _). destruct Ob as (_ & Heb & _).
    rewrite (dy_eqb_at' E) in Sx by (cbn [de]; unfold E; lia). rewrite (dy_eqb_at' E) in Sy by (cbn [de]; unfold E; lia).
    apply Z.eqb_eq in Sx, Sy.
    rewrite (dy_eqb_at' E).
    2: exact Hqe'.
    2: { unfold exact_codes, val_of_code, dy_scale. destruct op; [| |congruence]; cbn [exact_op]; unfold dy_add, dy_sub, dy_align; cbn [dm de]; unfold E; lia. }
    apply Z.eqb_eq. rewrite at_scale. unfold q, exact_codes.
    rewrite !at_addsub; try exact Hop; try (unfold E; lia); try (unfold val_of_code; cbn [de]; unfold E; lia).
    rewrite Sx, Sy. unfold at_exp, val_of_code. cbn [dm de]. f_equal; f_equal; f_equal; lia.
Qed.

(* ---------- _mul_raw on one pair of codes ---------- *)
Lemma fin_scale_exact z k : Z.abs z <= 2^24 -> -24 <= k <= 26 -> rnd64 z (0 + k) = Fin z k.
Proof.
  intros Hz Hk. replace (0 + k) with k by lia. apply rnd64_exact.
  assert (2^24 < 2^53) by (apply pow2_lt; lia).
  pose proof (bitlen_le z 53 ltac:(lia) ltac:(lia)). pose proof (bitlen_nonneg z). unfold fits53. lia.
Qed.

Lemma raw_elem_mul fx fy ft cx cy : small_op fx -> small_op fy -> small_tgt ft ->
  in_range fx cx -> in_range fy cy ->
  exists q, raw_elem false OpMul fx fy (nf ft) cx cy = Ok (renc (rkind OpMul fx fy ft) q) /\
    rawq_ok q /\ (rkind OpMul fx fy ft <> RF -> de q = 0) /\
    dy_eqb q (dy_scale (nf ft) (exact_codes OpMul fx cx fy cy)) = true.
Proof.
  intros Hx Hy Ht Hrx Hry.
  pose proof (small_code fx cx Hx Hrx) as Bx. pose proof (small_code fy cy Hy Hry) as By.
  set (z := cx * cy). set (k := nf ft - nf fx - nf fy).
  assert (Hz: Z.abs z <= 2^24) by (unfold z; assert (2^24 = 2^12 * 2^12) by reflexivity; nia).
  assert (Hk: -24 <= k <= 26) by (unfold k; destruct Hx as (? & ?), Hy as (? & ?), Ht as (? & ?); lia).
  assert (E24: 2^24 < 2^53) by (apply pow2_lt; lia). assert (E63: 2^53 < 2^63) by (apply pow2_lt; lia).
  assert (E64: 2^63 < 2^64) by (apply pow2_lt; lia). assert (E50: 2^50 = 2^24 * 2^26) by reflexivity.
  assert (E5053: 2^50 < 2^53) by (apply pow2_lt; lia). assert (E62: 2^53 < 2^62) by (apply pow2_lt; lia).
  assert (Hposx: sg fx = false -> 0 <= cx) by (intros Hs; unfold in_range, cmin in Hrx; rewrite Hs in Hrx; lia).
  assert (Hposy: sg fy = false -> 0 <= cy) by (intros Hs; unfold in_range, cmin in Hry; rewrite Hs in Hry; lia).
  (* the product before rescaling *)
  assert (Hp: mbin OpMul (load (storage fx) cx) (load (storage fy) cy)
              = match sg fx, sg fy with true, true => MI z | false, false => MU z | _, _ => MF (Fin z 0) end).
  { rewrite !storage_small by (destruct Hx as (? & ?), Hy as (? & ?); lia).
    destruct (sg fx) eqn:Esx, (sg fy) eqn:Esy; cbn [load mbin z_op as_num num_to_f64 f64_op].
    - fold z. rewrite wrap_i64_small by lia. reflexivity.
    - rewrite !f64_of_Z_exact by lia. rewrite f64_mul_int by (fold z; lia). reflexivity.
    - rewrite !f64_of_Z_exact by lia. rewrite f64_mul_int by (fold z; lia). reflexivity.
    - fold z. specialize (Hposx eq_refl). specialize (Hposy eq_refl). rewrite wrap_u64_small by (unfold z; nia). reflexivity. }
  assert (Hrc: raw_cast (storage fx) (storage fy) (nw fx + nw fy) = false) by (apply raw_cast_small; destruct Hx as (? & ?), Hy as (? & ?); lia).
  assert (Hpc: precision_cast (nf ft) = false) by (unfold precision_cast; destruct Ht as (? & ?); lia).
  assert (Hexp: dy_scale (nf ft) (exact_codes OpMul fx cx fy cy) = {| dm := z; de := k |}).
  { unfold exact_codes, val_of_code, dy_scale. cbn [exact_op dy_mul dm de]. fold z. f_equal. unfold k. lia. }
  rewrite Hexp. unfold raw_elem, raw_prod. rewrite Hrc, Hpc. cbn [cast_if]. rewrite Hp. fold k.
  assert (Hplain: rescale false false (match sg fx, sg fy with true, true => MI z | false, false => MU z | _, _ => MF (Fin z 0) end) k
                  = mscale (match sg fx, sg fy with true, true => MI z | false, false => MU z | _, _ => MF (Fin z 0) end) k).
  { apply rescale_plain; [lia|]. assert (0 < k -> 0 < 2^k <= 2^26) by (intros; split; [apply pow2_pos; lia | apply pow2_le; lia]).
    destruct (sg fx) eqn:Esx, (sg fy) eqn:Esy; try exact I; intros Hkp; specialize (H Hkp).
    - nia.
    - specialize (Hposx eq_refl). specialize (Hposy eq_refl). unfold z in *. split; nia. }
  rewrite Hplain.
  unfold rkind. fold k. unfold skind. replace (0 <=? 0) with true by reflexivity.
  destruct (0 <=? k) eqn:Ek.
  - assert (Hpk: 0 < 2^k <= 2^26) by (split; [apply pow2_pos; lia | apply pow2_le; lia]).
    assert (Hzk: Z.abs (z * 2^k) <= 2^50) by nia.
    destruct (sg fx) eqn:Esx, (sg fy) eqn:Esy; cbn [join].
    + exists {| dm := z * 2^k; de := 0 |}. cbn [renc dm de]. unfold mscale. rewrite Ek.
      unfold fits_i64. replace (- 2^63 <=? 2^k) with true by lia. replace (2^k <? 2^63) with true by lia. cbn [andb].
      rewrite wrap_i64_small by lia. split; [reflexivity|]. split; [split; cbn [dm de]; [lia | intros _; rewrite Z.pow_0_r; lia]|].
      split; [reflexivity|]. pose proof (sval_eqv z k) as S. unfold sval in S. rewrite Ek in S. exact S.
    + exists {| dm := z; de := k |}. cbn [renc dm de]. unfold mscale. rewrite Ek. cbn [f64_mul_pow2].
      rewrite fin_scale_exact by assumption. split; [reflexivity|]. split; [split; cbn [dm de]; [lia | intros _; nia]|].
      split; [intros H; exfalso; apply H; reflexivity | apply dy_eqb_refl].
    + exists {| dm := z; de := k |}. cbn [renc dm de]. unfold mscale. rewrite Ek. cbn [f64_mul_pow2].
      rewrite fin_scale_exact by assumption. split; [reflexivity|]. split; [split; cbn [dm de]; [lia | intros _; nia]|].
      split; [intros H; exfalso; apply H; reflexivity | apply dy_eqb_refl].
    + exists {| dm := z * 2^k; de := 0 |}. cbn [renc dm de]. unfold mscale. rewrite Ek.
      unfold fits_u64. replace (0 <=? 2^k) with true by lia. replace (2^k <? 2^64) with true by lia. cbn [andb].
      split; [reflexivity|]. split; [split; cbn [dm de]; [lia | intros _; rewrite Z.pow_0_r; lia]|].
      split; [reflexivity|]. pose proof (sval_eqv z k) as S. unfold sval in S. rewrite Ek in S. exact S.
  - exists {| dm := z; de := k |}. cbn [renc dm de].
    assert (Hms: forall p, num_to_f64 (as_num p) = Fin z 0 -> p <> MO (NI 0) ->
                 (match p with MO _ => False | _ => True end) -> mscale p k = Ok (MF (Fin z k))).
    { intros p Hp0 _ Hno. unfold mscale. rewrite Ek. destruct p; try contradiction; rewrite Hp0; cbn [f64_mul_pow2]; rewrite fin_scale_exact by assumption; reflexivity. }
    split.
    + destruct (sg fx), (sg fy); apply Hms; cbn [as_num num_to_f64]; try (apply f64_of_Z_exact; lia); try reflexivity; try discriminate; exact I.
    + split; [split; cbn [dm de]; [lia | intros; lia]|]. split; [intros H; exfalso; apply H; reflexivity | apply dy_eqb_refl].
Qed.

(* ---------- any operator; whole arrays ---------- *)
Lemma raw_elem_small op fx fy ft cx cy : small_op fx -> small_op fy -> small_tgt ft ->
  in_range fx cx -> in_range fy cy ->
  exists q, raw_elem false op fx fy (nf ft) cx cy = Ok (renc (rkind op fx fy ft) q) /\
    rawq_ok q /\ (rkind op fx fy ft <> RF -> de q = 0) /\
    dy_eqb q (dy_scale (nf ft) (exact_codes op fx cx fy cy)) = true.
Proof.
  intros. destruct op.
  - apply raw_elem_addsub; try assumption; discriminate.
  - apply raw_elem_addsub; try assumption; discriminate.
  - apply raw_elem_mul; assumption.
Qed.

Lemma map2M_raw op fx fy ft cxs cys : small_op fx -> small_op fy -> small_tgt ft -> length cxs = length cys ->
  Forall (in_range fx) cxs -> Forall (in_range fy) cys ->
  exists qs, map2M (raw_elem false op fx fy (nf ft)) cxs cys = Ok (map (renc (rkind op fx fy ft)) qs) /\
    Forall2 (fun q v => rawq_ok q /\ (rkind op fx fy ft <> RF -> de q = 0) /\ dy_eqb q (dy_scale (nf ft) v) = true)
            qs (map (fun p => exact_codes op fx (fst p) fy (snd p)) (combine cxs cys)).
Proof.
  intros Hx Hy Ht. revert cys. induction cxs as [|cx cxs IH]; intros [|cy cys] Hlen Hrx Hry; try discriminate.
  - exists []. split; [reflexivity|constructor].
  - inversion Hrx as [|? ? Hcx Hrx']; subst. inversion Hry as [|? ? Hcy Hry']; subst.
    destruct (raw_elem_small op fx fy ft cx cy Hx Hy Ht Hcx Hcy) as (q & Hq & Hok & H0 & He).
    destruct (IH cys ltac:(cbn in Hlen; lia) Hrx' Hry') as (qs & Hqs & Hall).
    exists (q :: qs). cbn [map2M map combine fst snd]. rewrite Hq. cbn [bind]. rewrite Hqs. cbn [bind].
    split; [reflexivity|]. constructor; [auto|exact Hall].
Qed.

Lemma all_MI_renc qs : all_MI (map (renc RI) qs) = Some (map dm qs).
Proof. induction qs as [|q qs IH]; [reflexivity|]. cbn [map all_MI fold_right renc] in *. unfold all_MI in IH. rewrite IH. reflexivity. Qed.
Lemma all_MU_renc qs : all_MU (map (renc RU) qs) = Some (map wrap_u64 (map dm qs)).
Proof. induction qs as [|q qs IH]; [reflexivity|]. cbn [map all_MU fold_right renc] in *. unfold all_MU in IH. rewrite IH. reflexivity. Qed.
Lemma all_MF_renc qs : all_MF (map (renc RF) qs) = Some (map (fun q => Fin (dm q) (de q)) qs).
Proof. induction qs as [|q qs IH]; [reflexivity|]. cbn [map all_MF fold_right renc] in *. unfold all_MF in IH. rewrite IH. reflexivity. Qed.

(* in this domain nothing needs exact rationals: sums and products stay below 2^53 *)
Lemma arith_exact_small op fx fy cxs cys ft : small_op fx -> small_op fy -> small_tgt ft ->
  Forall (in_range fx) cxs -> Forall (in_range fy) cys -> arith_exact op fx cxs fy cys (nf ft) = false.
Proof.
  intros Hx Hy Ht Hrx Hry.
  assert (Hsum: needs_exact_sum fx fy (nf ft) = false).
  { unfold needs_exact_sum. destruct Hx as (? & ?), Hy as (? & ?), Ht as (? & ?).
    destruct (0 <? Z.max (Z.max (nf fx - nf ft) (nf fy - nf ft)) 0) eqn:E; [|reflexivity]. cbn [andb]. lia. }
  destruct op; cbn [arith_exact]; try exact Hsum.
  apply andb_false_iff. right. apply existsb_false. apply Forall_forall. intros [cx cy] Hp. cbn [fst snd].
  rewrite Forall_forall in Hrx, Hry.
  pose proof (small_code fx cx Hx (Hrx _ (in_combine_l _ _ _ _ Hp))) as Bx. pose proof (small_code fy cy Hy (Hry _ (in_combine_r _ _ _ _ Hp))) as By.
  assert (Hz: Z.abs (cx * cy) <= 2^24) by (assert (2^24 = 2^12 * 2^12) by reflexivity; nia).
  assert (E24: 2^24 < 2^53) by (apply pow2_lt; lia). assert (E63: 2^53 < 2^63) by (apply pow2_lt; lia). assert (E64: 2^63 < 2^64) by (apply pow2_lt; lia).
  unfold raw_prod. rewrite raw_cast_small by (destruct Hx as (? & ?), Hy as (? & ?); lia). cbn [cast_if].
  rewrite !storage_small by (destruct Hx as (? & ?), Hy as (? & ?); lia).
  destruct (sg fx) eqn:Esx, (sg fy) eqn:Esy; cbn [load mbin z_op int_mag_ge]; try reflexivity.
  - rewrite wrap_i64_small by lia. lia.
  - unfold wrap_u64. assert (0 < 2^64) by lia. pose proof (Z.mod_pos_bound (cx * cy) (2^64) ltac:(lia)).
    destruct (Z_le_gt_dec 0 (cx * cy)); [rewrite Z.mod_small by lia; lia|].
    (* two unsigned codes are non-negative *)
    exfalso. pose proof (Hrx _ (in_combine_l _ _ _ _ Hp)) as Rx. pose proof (Hry _ (in_combine_r _ _ _ _ Hp)) as Ry.
    unfold in_range, cmin in Rx, Ry. rewrite Esx in Rx. rewrite Esy in Ry. nia.
Qed.

Theorem imposed_raw op fx fy cxs cys ft r o :
  small_op fx -> small_op fy -> small_tgt ft -> length cxs = length cys -> cxs <> [] ->
  Forall (in_range fx) cxs -> Forall (in_range fy) cys ->
  arith_raw op fx cxs fy cys ft r o
  = Ok (spec_wres ft r o (map (fun p => exact_codes op fx (fst p) fy (snd p)) (combine cxs cys))).
Proof.
  intros Hx Hy Ht Hlen Hne Hrx Hry. unfold arith_raw. rewrite (arith_exact_small op fx fy cxs cys ft Hx Hy Ht Hrx Hry).
  destruct (map2M_raw op fx fy ft cxs cys Hx Hy Ht Hlen Hrx Hry) as (qs & Hqs & Hall).
  rewrite Hqs. cbn [bind].
  set (vs := map (fun p => exact_codes op fx (fst p) fy (snd p)) (combine cxs cys)) in *.
  assert (Hqne: qs <> []).
  { intros ->. inversion Hall as [Hv|]. unfold vs in Hv. destruct cxs as [|a t]; [congruence|]. destruct cys as [|b u]; [discriminate|]. discriminate. }
  assert (Hw: 1 <= nw ft <= 52) by (destruct Ht as (? & ?); lia).
  destruct qs as [|q0 qs']; [congruence|].
  destruct (rkind op fx fy ft) eqn:EK.
  - assert (Harr: arr_of (map (renc RI) (q0 :: qs')) = Ok (AI64 (map dm (q0 :: qs')), VInt)).
    { unfold arr_of. cbn [map renc]. change (MI (dm q0) :: map (renc RI) qs') with (map (renc RI) (q0 :: qs')). rewrite all_MI_renc. reflexivity. }
    rewrite Harr. cbn [bind fst snd]. apply raw_store_i64; [exact Hw|].
    clear - Hall. induction Hall as [|q v qs vs ((Hm & _) & H0 & He) _ IH]; cbn [map]; constructor; [|exact IH].
    split; [exact Hm|]. replace (dy_of_Z (dm q)) with q; [exact He|]. destruct q as [m e]. cbn [dm de] in *. unfold dy_of_Z. f_equal. apply H0. discriminate.
  - assert (Harr: arr_of (map (renc RU) (q0 :: qs')) = Ok (AU64 (map wrap_u64 (map dm (q0 :: qs'))), VInt)).
    { unfold arr_of. cbn [map renc]. change (MU (wrap_u64 (dm q0)) :: map (renc RU) qs') with (map (renc RU) (q0 :: qs')). rewrite all_MU_renc. reflexivity. }
    rewrite Harr. cbn [bind fst snd]. apply raw_store_u64; [exact Hw|].
    clear - Hall. induction Hall as [|q v qs vs ((Hm & _) & H0 & He) _ IH]; cbn [map]; constructor; [|exact IH].
    split; [exact Hm|]. replace (dy_of_Z (dm q)) with q; [exact He|]. destruct q as [m e]. cbn [dm de] in *. unfold dy_of_Z. f_equal. apply H0. discriminate.
  - assert (Harr: arr_of (map (renc RF) (q0 :: qs')) = Ok (AF64 (map (fun q => Fin (dm q) (de q)) (q0 :: qs')), VFloat)).
    { unfold arr_of. cbn [map renc]. change (MF (Fin (dm q0) (de q0)) :: map (renc RF) qs') with (map (renc RF) (q0 :: qs')). rewrite all_MF_renc. reflexivity. }
    rewrite Harr. cbn [bind fst snd]. apply raw_store_f64; [exact Hw|].
    clear - Hall. induction Hall as [|q v qs vs (Hok & _ & He) _ IH]; constructor; [|exact IH]. split; assumption.
Qed.

(* hence the two methods agree on the whole domain *)
Corollary raw_repr_agree op fx fy cxs cys ft r o :
  small_op fx -> small_op fy -> small_tgt ft -> length cxs = length cys -> cxs <> [] ->
  Forall (in_range fx) cxs -> Forall (in_range fy) cys ->
  arith_raw op fx cxs fy cys ft r o = arith_repr op fx cxs fy cys ft r o.
Proof. intros. rewrite imposed_raw, imposed_repr by assumption. reflexivity. Qed.
