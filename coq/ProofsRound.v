(* ProofsRound.v — C05: rounding contracts (direction, error bound, tie parity),
   idempotence on representable values, monotonicity under saturate. *)
From Coq Require Import ZArith List Bool Lia ZifyBool.
From FxpVerif Require Import Spec NP Store ProofsCore ProofsStore.
Import ListNotations.
Open Scope Z_scope.
Ltac Zify.zify_post_hook ::= Z.to_euclidean_division_equations.

Lemma unfold_round m k r : 0 < k -> round_dy r {| dm := m; de := - k |} =
  match r with Floor => m / 2^k | Ceil => - ((- m) / 2^k) | Trunc | Fix => Z.quot m (2^k) | Around => rhe m k end.
Proof. intros Hk. unfold round_dy. cbn [dm de]. replace (0 <=? - k) with false by lia. replace (- - k) with k by lia. reflexivity. Qed.

Lemma floor_contract m k : 0 < k -> let q := round_dy Floor {| dm := m; de := - k |} in q * 2^k <= m < (q + 1) * 2^k.
Proof. intros Hk. cbv zeta. rewrite unfold_round by exact Hk. pose proof (pow2_pos k ltac:(lia)). set (d := 2^k) in *. nia. Qed.
Lemma ceil_contract m k : 0 < k -> let q := round_dy Ceil {| dm := m; de := - k |} in (q - 1) * 2^k < m <= q * 2^k.
Proof. intros Hk. cbv zeta. rewrite unfold_round by exact Hk. pose proof (pow2_pos k ltac:(lia)). set (d := 2^k) in *. nia. Qed.
Lemma trunc_contract m k : 0 < k -> forall r, r = Trunc \/ r = Fix ->
  let q := round_dy r {| dm := m; de := - k |} in Z.abs q * 2^k <= Z.abs m < (Z.abs q + 1) * 2^k /\ 0 <= q * m.
Proof.
  intros Hk r Hr. cbv zeta. assert (E: round_dy r {| dm := m; de := - k |} = Z.quot m (2^k)) by (destruct Hr; subst; apply unfold_round; exact Hk).
  rewrite E. pose proof (pow2_pos k ltac:(lia)) as Hd. set (d := 2^k) in *.
  destruct (Z_le_gt_dec 0 m) as [Hp|Hneg].
  - rewrite Z.quot_div_nonneg by lia. pose proof (Z.div_mod m d ltac:(lia)). pose proof (Z.mod_pos_bound m d ltac:(lia)).
    assert (0 <= m / d) by (apply Z.div_pos; lia). split; nia.
  - assert (Eq: Z.quot m d = - ((- m) / d)).
    { replace m with (- - m) at 1 by lia. rewrite Z.quot_opp_l by lia. rewrite Z.quot_div_nonneg by lia. reflexivity. }
    rewrite Eq. pose proof (Z.div_mod (- m) d ltac:(lia)). pose proof (Z.mod_pos_bound (- m) d ltac:(lia)).
    assert (0 <= (- m) / d) by (apply Z.div_pos; lia). split; nia.
Qed.
Lemma around_contract m k : 0 < k -> let q := round_dy Around {| dm := m; de := - k |} in
  2 * Z.abs (m - q * 2^k) <= 2^k /\ (2 * Z.abs (m - q * 2^k) = 2^k -> Z.even q = true).
Proof.
  intros Hk. cbv zeta. rewrite unfold_round by exact Hk. unfold rhe. pose proof (pow2_pos k ltac:(lia)) as Hd. set (d := 2^k) in *.
  pose proof (Z.mod_pos_bound m d ltac:(lia)). pose proof (Z.div_mod m d ltac:(lia)).
  destruct (2 * (m mod d) <? d) eqn:E1; [split; [nia|intros; nia]|].
  destruct (d <? 2 * (m mod d)) eqn:E2; [split; [nia|intros; nia]|].
  destruct (Z.even (m / d)) eqn:E3; split; try nia; intros _; [exact E3|].
  rewrite Z.even_add, E3. reflexivity.
Qed.
Lemma error_below_lsb m k : 0 < k -> forall r, let q := round_dy r {| dm := m; de := - k |} in Z.abs (m - q * 2^k) < 2^k.
Proof.
  intros Hk r. cbv zeta. pose proof (pow2_pos k ltac:(lia)) as Hd. destruct r.
  - pose proof (trunc_contract m k Hk Trunc (or_introl eq_refl)) as H. cbv zeta in H. set (d := 2^k) in *. nia.
  - pose proof (trunc_contract m k Hk Fix (or_intror eq_refl)) as H. cbv zeta in H. set (d := 2^k) in *. nia.
  - pose proof (floor_contract m k Hk) as H. cbv zeta in H. set (d := 2^k) in *. nia.
  - pose proof (ceil_contract m k Hk) as H. cbv zeta in H. set (d := 2^k) in *. nia.
  - pose proof (around_contract m k Hk) as H. cbv zeta in H. set (d := 2^k) in *. nia.
Qed.

(* monotonicity of every rounding mode on a common denominator *)
Lemma rhe_mono m1 m2 k : 0 < k -> m1 <= m2 -> rhe m1 k <= rhe m2 k.
Proof.
  intros Hk Hle. assert (Hd: 0 < 2^k) by (apply pow2_pos; lia).
  pose proof (around_contract m1 k Hk) as [A1 T1]. pose proof (around_contract m2 k Hk) as [A2 T2].
  cbv zeta in *. rewrite !unfold_round in A1, T1, A2, T2 by exact Hk.
  set (d := 2^k) in *. set (q1 := rhe m1 k) in *. set (q2 := rhe m2 k) in *.
  destruct (Z_le_gt_dec q1 q2) as [|Hgt]; [assumption|exfalso].
  (* q1 >= q2 + 1 and m1 <= m2: both errors are exactly d/2, q1 = q2 + 1, both even: impossible *)
  assert (q1 = q2 + 1) by nia.
  assert (2 * Z.abs (m1 - q1 * d) = d) by nia. assert (2 * Z.abs (m2 - q2 * d) = d) by nia.
  specialize (T1 H0). specialize (T2 H1). rewrite H in T1. rewrite Z.even_add in T1. rewrite T2 in T1. discriminate.
Qed.
Lemma round_dy_mono r m1 m2 k : 0 < k -> m1 <= m2 ->
  round_dy r {| dm := m1; de := - k |} <= round_dy r {| dm := m2; de := - k |}.
Proof.
  intros Hk Hle. rewrite !unfold_round by exact Hk. assert (Hd: 0 < 2^k) by (apply pow2_pos; lia).
  destruct r.
  - apply Z.quot_le_mono; lia.
  - apply Z.quot_le_mono; lia.
  - apply Z.div_le_mono; lia.
  - assert ((- m2) / 2^k <= (- m1) / 2^k) by (apply Z.div_le_mono; lia). lia.
  - apply rhe_mono; assumption.
Qed.
Lemma sat_mono f a b : a <= b -> sat f a <= sat f b.
Proof. unfold sat. lia. Qed.

Lemma quantize_monotone f r m1 m2 e : m1 <= m2 ->
  quantize f r Saturate {| dm := m1; de := e |} <= quantize f r Saturate {| dm := m2; de := e |}.
Proof.
  intros Hle. unfold quantize, overflow, dy_scale. cbn [dm de]. apply sat_mono.
  destruct (Z_le_gt_dec 0 (e + nf f)) as [Hge|Hlt].
  - rewrite !round_dy_int by lia. assert (0 < 2^(e + nf f)) by (apply pow2_pos; lia). nia.
  - replace (e + nf f) with (- (- (e + nf f))) by lia. apply round_dy_mono; lia.
Qed.

(* a value representable in the format (an in-range code c) is stored unchanged by all ten
   mode pairs, with no flag *)
Lemma representable_fixed f r o c : 1 <= nw f -> in_range f c ->
  let v := val_of_code f c in
  quantize f r o v = c /\ ovf_cond f r v = false /\ unf_cond f r v = false /\ inacc_cond f r o v = false.
Proof.
  intros Hn Hr. cbv zeta.
  assert (E: round_dy r (dy_scale (nf f) (val_of_code f c)) = c).
  { unfold dy_scale, val_of_code. cbn [dm de]. replace (- nf f + nf f) with 0 by lia.
    rewrite round_dy_int by lia. rewrite Z.pow_0_r. lia. }
  assert (Q: quantize f r o (val_of_code f c) = c) by (unfold quantize; rewrite E; apply overflow_id; assumption).
  unfold ovf_cond, unf_cond, inacc_cond. rewrite E, Q. unfold in_range in Hr.
  repeat split; try lia.
  unfold dy_eqb, dy_align. rewrite Z.min_id, Z.sub_diag, Z.pow_0_r. lia.
Qed.

(* ---------- rounding depends only on the VALUE of a dyadic, not on how it is written ---------- *)
Lemma round_dy_rep r m e j : 0 <= j -> round_dy r {| dm := m * 2^j; de := e - j |} = round_dy r {| dm := m; de := e |}.
Proof.
  intros Hj. assert (Pj: 0 < 2^j) by (apply pow2_pos; lia).
  destruct (Z_le_gt_dec 0 (e - j)) as [H1|H1].
  - rewrite !round_dy_int by lia. replace e with ((e - j) + j) at 2 by lia. rewrite pow2_split by lia. ring.
  - destruct (Z_le_gt_dec 0 e) as [H2|H2].
    + (* the new writing has a fraction field that is entirely zero *)
      rewrite (round_dy_int r m e) by lia.
      replace (e - j) with (- (j - e)) by lia. rewrite unfold_round by lia.
      assert (Pd: 0 < 2^(j - e)) by (apply pow2_pos; lia).
      assert (Em: m * 2^j = (m * 2^e) * 2^(j - e)) by (replace j with (e + (j - e)) at 1 by lia; rewrite pow2_split by lia; ring).
      rewrite Em. set (M := m * 2^e). set (d := 2^(j - e)) in *.
      destruct r.
      * apply Z.quot_mul. lia.
      * apply Z.quot_mul. lia.
      * apply Z.div_mul. lia.
      * replace (- (M * d)) with ((- M) * d) by ring. rewrite Z.div_mul by lia. lia.
      * unfold rhe. fold d. rewrite Z.div_mul, Z.mod_mul by lia. replace (2 * 0 <? d) with true by lia. reflexivity.
    + replace (e - j) with (- (- e + j)) by lia. replace e with (- - e) at 2 by lia. rewrite !unfold_round by lia.
      rewrite pow2_split by lia. assert (Pk: 0 < 2^(- e)) by (apply pow2_pos; lia).
      set (d := 2^(- e)) in *. set (c := 2^j) in *.
      destruct r.
      * apply Z.quot_mul_cancel_r; lia.
      * apply Z.quot_mul_cancel_r; lia.
      * apply Z.div_mul_cancel_r; lia.
      * replace (- (m * c)) with ((- m) * c) by ring. rewrite Z.div_mul_cancel_r by lia. reflexivity.
      * unfold rhe. replace (- e + j) with (- e + j) by lia. rewrite pow2_split by lia. fold d. fold c.
        rewrite Z.div_mul_cancel_r by lia. rewrite Z.mul_mod_distr_r by lia.
        assert (Hlt: (2 * (m mod d * c) <? d * c) = (2 * (m mod d) <? d)) by (destruct (2 * (m mod d) <? d) eqn:E; nia).
        assert (Hgt: (d * c <? 2 * (m mod d * c)) = (d <? 2 * (m mod d))) by (destruct (d <? 2 * (m mod d)) eqn:E; nia).
        rewrite Hlt, Hgt. reflexivity.
Qed.

Lemma round_dy_eqv r a b : dy_eqb a b = true -> round_dy r a = round_dy r b.
Proof.
  destruct a as [m1 e1], b as [m2 e2]. unfold dy_eqb, dy_align. cbn [dm de]. intros H.
  destruct (Z_le_gt_dec e1 e2) as [Hle|Hgt].
  - rewrite Z.min_l in H by lia. rewrite Z.sub_diag, Z.pow_0_r, Z.mul_1_r in H.
    assert (E: m1 = m2 * 2^(e2 - e1)) by lia. rewrite E.
    replace e1 with (e2 - (e2 - e1)) at 2 by lia. apply round_dy_rep. lia.
  - rewrite Z.min_r in H by lia. rewrite Z.sub_diag, Z.pow_0_r, Z.mul_1_r in H.
    assert (E: m2 = m1 * 2^(e1 - e2)) by lia. rewrite E.
    replace e2 with (e1 - (e1 - e2)) at 2 by lia. symmetry. apply round_dy_rep. lia.
Qed.

Lemma dy_scale_eqv k a b : dy_eqb a b = true -> dy_eqb (dy_scale k a) (dy_scale k b) = true.
Proof.
  destruct a as [m1 e1], b as [m2 e2]. unfold dy_eqb, dy_align, dy_scale. cbn [dm de]. intros H.
  replace (Z.min (e1 + k) (e2 + k)) with (Z.min e1 e2 + k) by lia.
  replace (e1 + k - (Z.min e1 e2 + k)) with (e1 - Z.min e1 e2) by lia.
  replace (e2 + k - (Z.min e1 e2 + k)) with (e2 - Z.min e1 e2) by lia. exact H.
Qed.
(* the quantizer depends only on the value of its input *)
Lemma quantize_eqv f r o a b : dy_eqb a b = true -> quantize f r o a = quantize f r o b.
Proof. intros H. unfold quantize. f_equal. apply round_dy_eqv. apply dy_scale_eqv. exact H. Qed.

(* monotonicity for ANY two dyadic inputs (whatever their exponents): align both on the
   smaller exponent — the value, hence the quantization, is unchanged — and compare mantissas *)
Lemma dy_realign a E : E <= de a -> dy_eqb a {| dm := dm a * 2^(de a - E); de := E |} = true.
Proof.
  intros HE. unfold dy_eqb, dy_align. cbn [dm de]. rewrite Z.min_r by lia. rewrite Z.sub_diag, Z.pow_0_r. lia.
Qed.
Theorem quantize_monotone_gen f r a b : dy_leb a b = true ->
  quantize f r Saturate a <= quantize f r Saturate b.
Proof.
  intros Hle. set (E := Z.min (de a) (de b)).
  rewrite (quantize_eqv f r Saturate a _ (dy_realign a E ltac:(unfold E; lia))).
  rewrite (quantize_eqv f r Saturate b _ (dy_realign b E ltac:(unfold E; lia))).
  apply quantize_monotone. unfold dy_leb, dy_align in Hle. fold E in Hle. lia.
Qed.
