(* ProofsWf.v — C02: every write ends inside the range of the object's own format; the bound on
   the input's own side under saturate. *)
From Coq Require Import ZArith List Bool Lia ZifyBool.
From FxpVerif Require Import Spec NP Store ProofsCore ProofsStore ProofsWrap ProofsConvert ProofsArith.
Import ListNotations.
Open Scope Z_scope.
Ltac Zify.zify_post_hook ::= Z.to_euclidean_division_equations.

Lemma cmin_le_cmax f : 1 <= nw f -> cmin f <= cmax f /\ cmin f <= 0 <= cmax f.
Proof.
  intros Hw. unfold cmin, cmax. assert (0 < 2^(nw f - 1)) by (apply pow2_pos; lia). assert (0 < 2^(nw f)) by (apply pow2_pos; lia).
  destruct (sg f); lia.
Qed.

Lemma wrap_model_in_range f z : 1 <= nw f -> in_range f (wrap_model (sg f) (nw f) z).
Proof. intros Hw. rewrite wrap_model_res by exact Hw. apply wrap_res_in_range. exact Hw. Qed.

(* a float that compares as neither above cmax nor below cmin truncates to an in-range code *)
Lemma sat_float_in_range f v c : 1 <= nw f <= 53 ->
  elem_gt (NF v) (cmax f) = false -> elem_lt (NF v) (cmin f) = false -> f64_trunc_Z v = Some c -> in_range f c.
Proof.
  intros Hw Hgt Hlt Ht. destruct (cmax_bound53 f Hw) as (Hcx & Hcn).
  unfold elem_gt, elem_lt in *.
  destruct v as [m e| |]; try discriminate. unfold f64_trunc_Z in Ht.
  unfold f64_ltb, f64_cmp in Hgt, Hlt.
  destruct (cmin_le_cmax f ltac:(lia)) as (Hr & Hc0).
  unfold in_range. destruct (0 <=? e) eqn:Ee.
  - injection Ht as <-. rewrite Z.min_l in Hgt by lia. rewrite (Z.min_r e 0) in Hlt by lia.
    rewrite !Z.sub_diag, !Z.pow_0_r, !Z.mul_1_r, !Z.sub_0_r in Hgt, Hlt.
    destruct (Z.compare_spec (cmax f) (m * 2^e)); destruct (Z.compare_spec (m * 2^e) (cmin f)); try discriminate; lia.
  - injection Ht as <-. assert (Hd: 0 < 2^(- e)) by (apply pow2_pos; lia).
    rewrite Z.min_r in Hgt by lia. rewrite Z.min_l in Hlt by lia.
    rewrite !Z.sub_diag, !Z.pow_0_r, !Z.mul_1_r in Hgt, Hlt. replace (0 - e) with (- e) in Hgt, Hlt by lia.
    set (d := 2^(- e)) in *.
    assert (Hm1: m <= cmax f * d) by (destruct (Z.compare_spec (cmax f * d) m); try discriminate; lia).
    assert (Hm2: cmin f * d <= m) by (destruct (Z.compare_spec m (cmin f * d)); try discriminate; lia).
    destruct (Z_le_gt_dec 0 m).
    + rewrite Z.quot_div_nonneg by lia. split; [assert (0 <= m / d) by (apply Z.div_pos; lia); lia|]. apply Z.div_le_upper_bound; lia.
    + assert (Eq: Z.quot m d = - ((- m) / d)).
      { replace m with (- - m) at 1 by lia. rewrite Z.quot_opp_l by lia. rewrite Z.quot_div_nonneg by lia. reflexivity. }
      rewrite Eq. assert (0 <= (- m) / d) by (apply Z.div_pos; lia). split; [|lia].
      assert ((- m) / d <= - cmin f) by (apply Z.div_le_upper_bound; lia). lia.
Qed.

Lemma overflow_elem_in_range f o is_obj x c : 1 <= nw f <= 53 -> overflow_elem f o is_obj x = Ok c -> in_range f c.
Proof.
  intros Hw H. destruct (cmin_le_cmax f ltac:(lia)) as (Hr & _).
  unfold overflow_elem in H. destruct o.
  - destruct (elem_gt x (cmax f)) eqn:Eg; [injection H as <-; unfold in_range; lia|].
    destruct (elem_lt x (cmin f)) eqn:El; [injection H as <-; unfold in_range; lia|].
    destruct x as [z|v|q]; [| |destruct is_obj; discriminate].
    + assert (c = z) by (destruct is_obj; cbn in H; congruence). subst. unfold elem_gt, elem_lt in *. unfold in_range. lia.
    + apply (sat_float_in_range f v c Hw Eg El).
      destruct is_obj.
      * unfold elem_to_int in H. cbn [num_int] in H. destruct (f64_trunc_Z v) as [t|]; [|discriminate]. congruence.
      * unfold elem_to_code, astype_i64 in H. destruct (f64_trunc_Z v) as [t|]; [|discriminate].
        destruct ((- 2^63 <=? t) && (t <? 2^63)); cbn [of_option] in H; [congruence|discriminate].
  - destruct ((64 <=? nw f) || is_obj).
    + destruct (elem_to_int x) as [z| |]; cbn [bind] in H; try discriminate. injection H as <-. apply wrap_model_in_range. lia.
    + destruct x as [z|v|q]; cbn [elem_to_code bind] in H; [| |discriminate].
      * injection H as <-. apply wrap_model_in_range. lia.
      * destruct (astype_i64 v); cbn [of_option bind] in H; [injection H as <-; apply wrap_model_in_range; lia|discriminate].
Qed.

(* every code written by set_val lies inside the range of the object's own format, whatever the
   input array, its dtype, the raw flag, the rounding and overflow modes (words up to 53 bits;
   wider words under wrap are covered by C03, under saturate with integers by C18) *)
Lemma mapM_Forall_out {A B} (k : A -> outcome B) (P : B -> Prop) l bs :
  (forall a b, k a = Ok b -> P b) -> mapM k l = Ok bs -> Forall P bs.
Proof.
  intros Hk. revert bs. induction l as [|a l IH]; intros bs H; cbn [mapM] in H.
  - injection H as <-. constructor.
  - destruct (k a) as [b| |] eqn:Ea; cbn [bind] in H; try discriminate.
    destruct (mapM k l) as [bs'| |] eqn:El; cbn [bind] in H; try discriminate. injection H as <-.
    constructor; [exact (Hk a b Ea)|apply IH; reflexivity].
Qed.

Theorem set_val_codes_in_range f r o raw a vd w : 1 <= nw f <= 53 ->
  set_val_real f r o raw a vd = Ok w -> Forall (in_range f) (w_codes w).
Proof.
  intros Hw H. unfold set_val_real in H.
  set (io := obj_path f raw a vd) in *. set (xq := exact_factor f raw a) in *.
  destruct (if io then Ok (arr_nums a) else astype_vd a vd) as [vals| |]; cbn [bind] in H; try discriminate.
  destruct (mapM (fun x => if xq then elem_pipe_q f r o x else elem_pipe f r o raw io x) vals) as [rs| |] eqn:Em; cbn [bind] in H; try discriminate.
  injection H as <-. cbn [w_codes]. rewrite Forall_map.
  apply (mapM_Forall_out (fun x => if xq then elem_pipe_q f r o x else elem_pipe f r o raw io x) (fun e => in_range f (e_code e)) vals rs); [|exact Em].
  intros x e He. cbv beta in He. destruct xq.
  - unfold elem_pipe_q in He. destruct x as [z|v|q]; try discriminate.
    destruct (overflow_elem f o true (NI (round_dy r {| dm := z; de := nf f |}))) as [c| |] eqn:Eo; cbn [bind] in He; try discriminate.
    injection He as <-. cbn [e_code]. exact (overflow_elem_in_range f o _ _ c Hw Eo).
  - unfold elem_pipe in He. destruct (scale_elem f raw (negb io) x) as [s| |]; cbn [bind] in He; try discriminate.
    destruct (overflow_elem f o io (round_elem r io s)) as [c| |] eqn:Eo; cbn [bind] in He; try discriminate.
    injection He as <-. cbn [e_code]. exact (overflow_elem_in_range f o _ _ c Hw Eo).
Qed.

(* saturation side for Python integers of ANY size (n_frac >= 0): the bound on the input's side *)
Theorem saturate_side_int f r v : 1 <= nw f -> 0 <= nf f ->
  exists w, set_val_real f r Saturate false (pyint_arr v) VInt = Ok w /\
    (cmax f < v * 2^(nf f) -> w_codes w = [cmax f] /\ w_ovf w = true /\ w_unf w = false) /\
    (v * 2^(nf f) < cmin f -> w_codes w = [cmin f] /\ w_unf w = true /\ w_ovf w = false).
Proof.
  intros Hw Hf. destruct (store_pyint_exact f r Saturate v Hw Hf) as (w & Hs & Hc & Ho & Hu).
  exists w. split; [exact Hs|]. rewrite Hc, Ho, Hu. cbn [overflow]. unfold sat.
  destruct (cmin_le_cmax f Hw) as (Hr & _).
  split; intros H; repeat split; try lia; f_equal; lia.
Qed.
