(* Conv.v — model of comparisons and numeric conversions (objects.py: __lt__..__ge__
   1479-1507 via get_val; astype/get_val/raw/uraw 934-1056; __int__/__float__/__bool__
   1149-1168) and of the scale/bias wrapper (741-758, 995-998, 487-491). *)
From Coq Require Import ZArith List Bool.
From FxpVerif Require Import Spec NP Store.
Import ListNotations.
Open Scope Z_scope.

Inductive cmpop := CLt | CLe | CEq | CNe | CGt | CGe.
Definition f64_cmpop (c : cmpop) (a b : f64) : bool :=
  match c with
  | CLt => f64_ltb a b | CLe => f64_leb a b | CEq => f64_eqb a b
  | CNe => negb (f64_eqb a b) | CGt => f64_gtb a b | CGe => f64_geb a b end.
Definition dy_cmpop (c : cmpop) (a b : dy) : bool :=
  match c with
  | CLt => dy_ltb a b | CLe => dy_leb a b | CEq => dy_eqb a b
  | CNe => negb (dy_eqb a b) | CGt => dy_ltb b a | CGe => dy_leb b a end.

(* x <op> y on two fixed-point objects: both sides are get_val() *)
Definition fxp_cmp (c : cmpop) (fx : fmt) (cx : Z) (fy : fmt) (cy : Z) : bool :=
  f64_cmpop c (get_val_f64 fx cx) (get_val_f64 fy cy).
(* x <op> number (a Python float / int given as a double) *)
Definition fxp_cmp_num (c : cmpop) (fx : fmt) (cx : Z) (y : f64) : bool :=
  f64_cmpop c (get_val_f64 fx cx) y.

(* astype(int) / int(): raw_val when n_frac == 0, else raw_val // conv_factor (an integer
   floor division for n_frac > 0, a float floor_divide by 2^n_frac for n_frac < 0) *)
Definition astype_int (f : fmt) (c : Z) : option Z :=
  if nf f =? 0 then Some c
  else if 0 <? nf f then Some (c / 2^(nf f))
  else f64_floor_Z (f64_floordiv (f64_of_Z c) (f64_mul_pow2 (Fin 1 0) (nf f))).
Definition fxp_bool (f : fmt) (c : Z) : bool := negb (f64_is_zero (get_val_f64 f c)).
(* uraw(): np.where(val < 0, (1 << n_word) + val, val) *)
Definition uraw (f : fmt) (c : Z) : Z := if c <? 0 then 2^(nw f) + c else c.

(* reference: floor of the exact value *)
Definition dy_floor (v : dy) : Z := if 0 <=? de v then dm v * 2^(de v) else dm v / 2^(- de v).

(* ---------- scale and bias (C17) ---------- *)
(* storing v into an object with scale s and bias b: (v - b) / s is what set_val quantizes *)
Definition scaled_input (s b v : f64) : f64 := f64_div (f64_sub v b) s.
Definition store_scaled (f : fmt) (r : rmode) (o : omode) (s b : f64) (vs : list f64) : outcome wres :=
  set_val_real f r o false (AF64 (map (scaled_input s b) vs)) VFloat.
(* reading: val * scale + bias *)
Definition read_scaled (f : fmt) (s b : f64) (c : Z) : f64 := f64_add (f64_mul (get_val_f64 f c) s) b.
(* upper, lower, precision of a scaled object (resize, 470-491) *)
Definition scaled_limits (f : fmt) (s b : f64) : f64 * f64 * f64 :=
  let up := get_val_f64 f (cmax f) in let lo := get_val_f64 f (cmin f) in let pr := get_val_f64 f 1 in
  (f64_add (f64_mul s up) b, f64_add (f64_mul s lo) b, f64_mul s pr).
