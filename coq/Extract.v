(* Extract.v — extraction with ExtrOcamlBasic only; Z, positive, nat stay the
   extracted inductives.  No Extract Constant / Extract Inductive of ours. *)
From Coq Require Extraction.
From Coq Require Import ExtrOcamlBasic.
From FxpVerif Require Import Dispatch.
Extraction Language OCaml.
Extraction "model.ml" dispatch.
