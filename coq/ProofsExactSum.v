(* ProofsExactSum.v — sums and differences of wide operands stored into a format with FEWER fraction bits than an operand
   (the wrap register of C03, the imposed formats of C08 beyond their 12-bit domain): when functions._needs_exact_sum holds
   (a negative shift on a side and a sum of more than 53 bits) the raw method rescales with exact rationals, and the stored
   result is the exact sum quantized once.  Operands of any width. *)
From Coq Require Import ZArith List Bool Lia ZifyBool.
From FxpVerif Require Import Spec SpecArith NP Store ProofsCore ProofsStore ProofsRound ProofsHuge ProofsRawImposed Convert ProofsConvert
  Arith ProofsArith ProofsExact.
Import ListNotations.
Open Scope Z_scope.
Ltac Zify.zify_post_hook ::= Z.to_euclidean_division_equations.

(* an integer element of an int64 / uint64 / object array that holds z without wrapping *)
Definition int_mval (v : mval) (z : Z) : Prop :=
  (v = MI z /\ Z.abs z < 2^63) \/ (v = MU z /\ 0 <= z < 2^63) \/ v = MO (NI z).

Lemma cast_load_int rc f c : 1 <= nw f -> in_range f c -> int_mval (cast_if rc (load (storage f) c)) c.
Proof.
  intros Hw Hr. destruct (code_mag f c Hw Hr) as (Hs & Hu). unfold storage.
  destruct (64 <=? nw f) eqn:E64; [destruct rc; right; right; reflexivity|].
  assert (P: 2^(nw f - 1) <= 2^62) by (apply pow2_le; lia). assert (P2: 2^62 < 2^63) by (apply pow2_lt; lia).
  assert (P3: 2^(nw f) <= 2^63) by (apply pow2_le; lia).
  destruct (sg f) eqn:Es; destruct rc; cbn [load cast_if to_obj as_num].
  - right; right; reflexivity.
  - left. split; [reflexivity|]. specialize (Hs eq_refl). lia.
  - right; right; reflexivity.
  - right; left. split; [reflexivity|]. specialize (Hu eq_refl). lia.
Qed.

(* a side with a negative shift, rescaled exactly *)
Lemma rescale_neg_exact pc v z k : k < 0 -> int_mval v z -> rescale true pc v k = Ok (MO (NR {| dm := z; de := k |})).
Proof.
  intros Hk Hv. unfold rescale. replace (k <? 0) with true by lia. unfold mscale_raw.
  replace (0 <? k) with false by lia. replace (k <? 0) with true by lia. cbn [andb].
  destruct Hv as [(-> & _)|[(-> & _)| ->]]; reflexivity.
Qed.

(* a side with a non-negative shift: an integer element again, exact *)
Lemma rescale_nonneg_int ex pc v z k : 0 <= k -> int_mval v z ->
  exists v', rescale ex pc v k = Ok v' /\ as_num v' = NI (z * 2^k).
Proof.
  intros Hk Hv. unfold rescale. replace (k <? 0) with false by lia.
  assert (Pk: 0 < 2^k) by (apply pow2_pos; lia). assert (P63: 2^63 < 2^64) by (apply pow2_lt; lia).
  destruct pc.
  - unfold mscale. replace (0 <=? k) with true by lia.
    destruct Hv as [(-> & _)|[(-> & _)| ->]]; cbn [to_obj as_num num_mul]; eexists; split; reflexivity.
  - unfold mscale_raw. destruct (0 <? k) eqn:Ek.
    + destruct Hv as [(-> & Hb)|[(-> & Hb)| ->]].
      * destruct ((63 <=? k) || (2^63 <=? Z.abs z * 2^k)); eexists; split; reflexivity.
      * destruct ((63 <=? k) || (2^63 <=? Z.abs z * 2^k)); eexists; split; reflexivity.
      * unfold mscale. replace (0 <=? k) with true by lia. cbn [num_mul]. eexists; split; reflexivity.
    + assert (k = 0) by lia. subst k. replace (0 <? 0) with false by lia. cbn [andb]. unfold mscale. cbn [Z.leb Z.compare].
      change (2^0) with 1. rewrite Z.mul_1_r.
      destruct Hv as [(-> & Hb)|[(-> & Hb)| ->]].
      * replace (fits_i64 1) with true by (unfold fits_i64; lia). rewrite Z.mul_1_r, wrap_i64_small by lia. eexists; split; reflexivity.
      * replace (fits_u64 1) with true by (unfold fits_u64; lia). rewrite Z.mul_1_r, wrap_u64_small by lia. eexists; split; reflexivity.
      * cbn [num_mul]. rewrite Z.mul_1_r. eexists; split; reflexivity.
Qed.

(* + / - with an exact rational on at least one side *)
Lemma addsub_rational_left op q b zb : op <> OpMul -> as_num b = NI zb ->
  (match op with OpSub => msub (MO (NR q)) b | _ => mbin op (MO (NR q)) b end) = MO (NR (exact_op op q (dy_of_Z zb))).
Proof.
  intros Hop Hb. assert (H: mbin op (MO (NR q)) b = MO (NR (exact_op op q (dy_of_Z zb)))).
  { unfold mbin. cbn [as_num]. rewrite Hb. reflexivity. }
  destruct op; [exact H| |congruence]. unfold msub. exact H.
Qed.
Lemma addsub_rational_right op a za q : op <> OpMul -> as_num a = NI za ->
  (match op with OpSub => msub a (MO (NR q)) | _ => mbin op a (MO (NR q)) end) = MO (NR (exact_op op (dy_of_Z za) q)).
Proof.
  intros Hop Ha. assert (H: mbin op a (MO (NR q)) = MO (NR (exact_op op (dy_of_Z za) q))).
  { unfold mbin. destruct a as [x|x|x|n]; cbn [as_num] in Ha |- *; try discriminate; try (injection Ha as ->; reflexivity). rewrite Ha. reflexivity. }
  destruct op; [exact H| |congruence]. unfold msub. destruct a; exact H.
Qed.
Lemma addsub_rational_both op qa qb : op <> OpMul ->
  (match op with OpSub => msub (MO (NR qa)) (MO (NR qb)) | _ => mbin op (MO (NR qa)) (MO (NR qb)) end) = MO (NR (exact_op op qa qb)).
Proof. intros Hop. destruct op; [reflexivity|reflexivity|congruence]. Qed.

(* the operand as the raw function sees it after the rescale: an exact rational (negative shift) or an integer *)
Definition side (c k : Z) : dy := if k <? 0 then {| dm := c; de := k |} else dy_of_Z (c * 2^k).
Lemma side_at E c k : E <= k -> E <= 0 -> at_exp E (side c k) = c * 2^(k - E).
Proof.
  intros H1 H2. unfold side, at_exp. destruct (k <? 0) eqn:Ek; cbn [dm de dy_of_Z]; [reflexivity|].
  replace (k - E) with (k + (0 - E)) by lia. rewrite pow2_split by lia. ring.
Qed.

Lemma raw_elem_addsub_exact op fx fy nfr cx cy : op <> OpMul -> 1 <= nw fx -> 1 <= nw fy ->
  in_range fx cx -> in_range fy cy -> (nfr - nf fx < 0 \/ nfr - nf fy < 0) ->
  raw_elem true op fx fy nfr cx cy = Ok (MO (NR (exact_op op (side cx (nfr - nf fx)) (side cy (nfr - nf fy))))).
Proof.
  intros Hop Hwx Hwy Hrx Hry Hneg. unfold raw_elem.
  set (rc := raw_cast (storage fx) (storage fy) (Z.max (nw fx + nfr - nf fx) (nw fy + nfr - nf fy) + 2)).
  set (pc := precision_cast nfr). set (kx := nfr - nf fx) in *. set (ky := nfr - nf fy) in *.
  pose proof (cast_load_int rc fx cx Hwx Hrx) as Hvx. pose proof (cast_load_int rc fy cy Hwy Hry) as Hvy.
  assert (Hgoal: forall a b, rescale true pc (cast_if rc (load (storage fx) cx)) kx = Ok a ->
                            rescale true pc (cast_if rc (load (storage fy) cy)) ky = Ok b ->
                            (match op with OpSub => msub a b | _ => mbin op a b end) = MO (NR (exact_op op (side cx kx) (side cy ky))) ->
          match op with
          | OpAdd | OpSub => bind (rescale true pc (cast_if rc (load (storage fx) cx)) kx) (fun a =>
                             bind (rescale true pc (cast_if rc (load (storage fy) cy)) ky) (fun b =>
                             Ok (match op with OpSub => msub a b | _ => mbin op a b end)))
          | OpMul => rescale true pc (raw_prod fx fy cx cy) (nfr - nf fx - nf fy) end
          = Ok (MO (NR (exact_op op (side cx kx) (side cy ky))))).
  { intros a b Ha Hb Hm. destruct op; [| |congruence]; rewrite Ha, Hb; cbn [bind]; rewrite Hm; reflexivity. }
  destruct (kx <? 0) eqn:Ekx, (ky <? 0) eqn:Eky.
  - eapply Hgoal; [apply rescale_neg_exact; [lia|exact Hvx] | apply rescale_neg_exact; [lia|exact Hvy] |].
    unfold side. rewrite Ekx, Eky. apply addsub_rational_both; exact Hop.
  - destruct (rescale_nonneg_int true pc _ cy ky ltac:(lia) Hvy) as (b & Hb & Hbn).
    eapply Hgoal; [apply rescale_neg_exact; [lia|exact Hvx] | exact Hb |].
    unfold side. rewrite Ekx, Eky. apply addsub_rational_left; [exact Hop|exact Hbn].
  - destruct (rescale_nonneg_int true pc _ cx kx ltac:(lia) Hvx) as (a & Ha & Han).
    eapply Hgoal; [exact Ha | apply rescale_neg_exact; [lia|exact Hvy] |].
    unfold side. rewrite Ekx, Eky. apply addsub_rational_right; [exact Hop|exact Han].
  - lia.
Qed.

Theorem addsub_into_fewer_fraction_bits op fx fy cxs cys ft r o :
  op <> OpMul -> 1 <= nw fx -> 1 <= nw fy -> 1 <= nw ft -> needs_exact_sum fx fy (nf ft) = true ->
  cxs <> [] -> length cxs = length cys -> Forall (in_range fx) cxs -> Forall (in_range fy) cys ->
  arith_raw op fx cxs fy cys ft r o
  = Ok (spec_wres ft r o (map (fun p => exact_codes op fx (fst p) fy (snd p)) (combine cxs cys))).
Proof.
  intros Hop Hwx Hwy Hw Hex Hne Hlen Hrx Hry.
  set (kx := nf ft - nf fx). set (ky := nf ft - nf fy).
  assert (Hneg: kx < 0 \/ ky < 0).
  { unfold needs_exact_sum in Hex. apply andb_true_iff in Hex. destruct Hex as (Hd & _). unfold kx, ky. lia. }
  assert (Hin: forall p, In p (combine cxs cys) -> in_range fx (fst p) /\ in_range fy (snd p)).
  { intros [a b] Hp. rewrite Forall_forall in Hrx, Hry. split; [apply Hrx; exact (in_combine_l _ _ _ _ Hp) | apply Hry; exact (in_combine_r _ _ _ _ Hp)]. }
  assert (Hae: arith_exact op fx cxs fy cys (nf ft) = true) by (destruct op; [exact Hex|exact Hex|congruence]).
  unfold arith_raw. rewrite Hae.
  rewrite (map2M_pairs _ (fun p => MO (NR (exact_op op (side (fst p) kx) (side (snd p) ky))))); [|exact Hlen|].
  2: { intros p Hp. destruct (Hin p Hp) as (Ha & Hb). apply raw_elem_addsub_exact; assumption. }
  cbn [bind].
  set (qs := map (fun p : Z * Z => exact_op op (side (fst p) kx) (side (snd p) ky)) (combine cxs cys)).
  assert (Hmap: map (fun p : Z * Z => MO (NR (exact_op op (side (fst p) kx) (side (snd p) ky)))) (combine cxs cys) = map (fun q => MO (NR q)) qs) by (unfold qs; rewrite map_map; reflexivity).
  rewrite Hmap.
  assert (Hqne: qs <> []).
  { unfold qs. destruct cxs as [|a cxs']; [congruence|]. destruct cys as [|b cys']; [discriminate|]. cbn. discriminate. }
  assert (Harr: arr_of (map (fun q => MO (NR q)) qs) = Ok (AObj (map NR qs), VFloat)).
  { destruct qs as [|q0 qs']; [congruence|]. unfold arr_of. cbn [map].
    change (MO (NR q0) :: map (fun q => MO (NR q)) qs') with (map (fun q => MO (NR q)) (q0 :: qs')). rewrite all_MO_rationals. reflexivity. }
  rewrite Harr. cbn [bind fst snd].
  assert (Hfrac: arr_has_frac (AObj (map NR qs)) = true) by (destruct qs as [|q0 qs']; [congruence|reflexivity]).
  rewrite (set_val_real_eq _ _ _ _ _ _ _ (obj_path_frac ft true _ VFloat Hfrac) (exact_factor_raw _ _)). cbn [arr_nums bind].
  rewrite (mapM_Forall2 _ (spec_eres ft r o) _ (map (fun p => exact_codes op fx (fst p) fy (snd p)) (combine cxs cys))).
  - cbn [bind]. unfold spec_wres. rewrite !map_map, !existsb_map. reflexivity.
  - unfold qs. clear - Hw Hop. induction (combine cxs cys) as [|p l IH]; cbn [map]; constructor; [|exact IH].
    apply elem_pipe_raw_rational; [exact Hw|].
    (* the rational handed over is the exact sum scaled to the target's fraction length *)
    set (a := fst p). set (b := snd p).
    set (E := Z.min (Z.min kx ky) (Z.min 0 (Z.min (- nf fx + nf ft) (- nf fy + nf ft))) - 1).
    assert (HEa: E <= de (side a kx) /\ E <= de (side b ky)).
    { unfold side. destruct (kx <? 0), (ky <? 0); cbn [de dy_of_Z]; unfold E; lia. }
    rewrite (dy_eqb_at' E).
    2: { destruct op; [| |congruence]; cbn [exact_op]; unfold dy_add, dy_sub, dy_align; cbn [dm de]; lia. }
    2: { unfold exact_codes, val_of_code, dy_scale. destruct op; [| |congruence]; cbn [exact_op]; unfold dy_add, dy_sub, dy_align; cbn [dm de]; unfold E, kx, ky; lia. }
    rewrite at_scale. unfold exact_codes. rewrite !at_addsub; try exact Hop; try (cbn [val_of_code de]; unfold E, kx, ky; lia); try apply HEa.
    rewrite !side_at by (unfold E; lia). unfold at_exp, val_of_code. cbn [dm de].
    replace (- nf fx - (E - nf ft)) with (kx - E) by (unfold kx; lia). replace (- nf fy - (E - nf ft)) with (ky - E) by (unfold ky; lia).
    apply Z.eqb_refl.
Qed.
