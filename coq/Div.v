(* Div.v — model of the division family (functions.py: floordiv 377-418, truediv 420-456,
   mod 458-479), raw and repr methods, on the dtype-level values of Arith.v. *)
From Coq Require Import ZArith List Bool.
From FxpVerif Require Import Spec SpecArith NP Store Arith.
Import ListNotations.
Open Scope Z_scope.

Inductive dop := DTrue | DFloor | DMod.

(* NumPy // and % on two array elements: integer floor semantics within one integer dtype
   (a zero divisor gives 0), float64 otherwise (int64 with uint64 is promoted) *)
Definition mfloordiv (a b : mval) : mval :=
  match a, b with
  | MO (NI x), MO (NI y) => MO (NI (x / y))
  | MO _, _ | _, MO _ => match as_num a, as_num b with
                         | NI x, NI y => MO (NI (x / y))       (* NumPy converts both sides to Python integers *)
                         | NF _, _ | _, NF _ => MO (NF (f64_floordiv (num_to_f64 (as_num a)) (num_to_f64 (as_num b))))
                         | na, nb => match num_exact na, num_exact nb with      (* Fraction // : the exact floor, an int *)
                                     | Some u, Some v => MO (NI (dy_floor_div u v))
                                     | _, _ => MO (NF (f64_floordiv (num_to_f64 na) (num_to_f64 nb))) end
                         end
  | MI x, MI y => MI (wrap_i64 (x / y))
  | MU x, MU y => MU (wrap_u64 (x / y))
  | _, _ => MF (f64_floordiv (num_to_f64 (as_num a)) (num_to_f64 (as_num b)))
  end.
Definition mmod (a b : mval) : mval :=
  match a, b with
  | MO (NI x), MO (NI y) => MO (NI (x mod y))
  | MO _, _ | _, MO _ => match as_num a, as_num b with
                         | NI x, NI y => MO (NI (x mod y))
                         | NF _, _ | _, NF _ => MO (NF (f64_mod (num_to_f64 (as_num a)) (num_to_f64 (as_num b))))
                         | na, nb => match num_exact na, num_exact nb with      (* Fraction % : exact *)
                                     | Some u, Some v => MO (NR (dy_mod u v))
                                     | _, _ => MO (NF (f64_mod (num_to_f64 na) (num_to_f64 nb))) end
                         end
  | MI x, MI y => MI (x mod y)
  | MU x, MU y => MU (x mod y)
  | _, _ => MF (f64_mod (num_to_f64 (as_num a)) (num_to_f64 (as_num b)))
  end.

(* the raw functions on one pair of codes; nfr = n_frac of the result format.  [exa exb exq]: the array-wide
   decisions of utils.needs_exact_scale for the three scale_raw calls (dividend, divisor, quotient) *)
Definition div_raw_elem (exa exb exq : bool) (d : dop) (fx fy : fmt) (nfr : Z) (cx cy : Z) : outcome mval :=
  let pc := precision_cast nfr in
  let lx := cast_if pc (load (storage fx) cx) in
  let ly := cast_if pc (load (storage fy) cy) in
  match d with
  | DTrue =>      (* scale_raw(x.val, shift) // y.val for shift = n_frac - x.n_frac + y.n_frac >= 0, x.val // scale_raw(y.val, -shift)
                     otherwise; Python integers when the scaled side needs 64 bits or more (_raw_cast) *)
      let k := nfr - nf fx + nf fy in
      let rc := raw_cast (storage fx) (storage fy) (Z.max (nw fx + Z.max k 0) (nw fy + Z.max (- k) 0)) in
      if 0 <=? k
      then bind (mscale_raw false (cast_if rc (load (storage fx) cx)) k) (fun a => Ok (mfloordiv a (cast_if rc (load (storage fy) cy))))
      else bind (mscale_raw false (cast_if rc (load (storage fy) cy)) (- k)) (fun b => Ok (mfloordiv (cast_if rc (load (storage fx) cx)) b))
  | DFloor =>     (* scale_raw(x.val, m - x.n_frac) // scale_raw(y.val, m - y.n_frac), m = max n_frac, then scale_raw(.., n_frac):
                     the raw values aligned on the finer fraction length, integer quotient, result fraction length *)
      let m := Z.max (nf fx) (nf fy) in
      let rc := raw_cast (storage fx) (storage fy) (Z.max (nw fx + m - nf fx) (nw fy + m - nf fy)) in
      bind (mscale_raw exa (cast_if rc (load (storage fx) cx)) (m - nf fx)) (fun a =>
      bind (mscale_raw exb (cast_if rc (load (storage fy) cy)) (m - nf fy)) (fun b =>
      mscale_raw exq (mfloordiv a b) nfr))
  | DMod =>       (* scale_raw(x.val, n_frac - x.n_frac) % scale_raw(y.val, n_frac - y.n_frac) *)
      let rc := raw_cast (storage fx) (storage fy) (Z.max (nw fx + nfr - nf fx) (nw fy + nfr - nf fy)) in
      bind (mscale_raw exa (cast_if rc (load (storage fx) cx)) (nfr - nf fx)) (fun a =>
      bind (mscale_raw exb (cast_if rc (load (storage fy) cy)) (nfr - nf fy)) (fun b => Ok (mmod a b)))
  end.

Definition div_fmt (d : dop) (fx fy : fmt) : fmt :=
  match d with DTrue => grow_truediv fx fy | DFloor => grow_floordiv fx fy | DMod => grow_mod fx fy end.

(* utils.needs_exact_scale(val, shift) for an array of raw codes: a negative shift and some code of more than 53 bits *)
Definition codes_need_exact (cs : list Z) (shift : Z) : bool := (shift <? 0) && existsb (fun c => 2^53 <=? Z.abs c) cs.
(* ... for the integer quotients of the floor division (computed with the two first decisions off: their shifts are >= 0) *)
Definition quot_need_exact (fx fy : fmt) (nfr : Z) (cxs cys : list Z) : bool :=
  (nfr <? 0) && existsb (fun p => match div_raw_elem false false false DFloor fx fy 0 (fst p) (snd p) with
                                  | Ok q => int_mag_ge q (2^53) | _ => false end) (combine cxs cys).
Definition div_raw (d : dop) (fx : fmt) (cxs : list Z) (fy : fmt) (cys : list Z) (fz : fmt) (r : rmode) (o : omode) : outcome wres :=
  let nfr := nf fz in
  let m := match d with DFloor => Z.max (nf fx) (nf fy) | _ => nfr end in
  let exa := codes_need_exact cxs (m - nf fx) in
  let exb := codes_need_exact cys (m - nf fy) in
  let exq := match d with DFloor => quot_need_exact fx fy nfr cxs cys | _ => false end in
  bind (map2M (div_raw_elem exa exb exq d fx fy nfr) cxs cys) (fun raws =>
  bind (arr_of raws) (fun av => set_val_real fz r o true (fst av) (snd av))).

(* repr method: x / y, x // y, x % y on the float values *)
Definition div_repr (d : dop) (fx : fmt) (cxs : list Z) (fy : fmt) (cys : list Z) (fz : fmt) (r : rmode) (o : omode) : outcome wres :=
  (* x // y and x % y with an operand of more than 53 bits: the float value of that operand is rounded, so the functions
     switch to the integer-code method (which is exact, and with which the value method must agree) *)
  match d with
  | DTrue => fun k => k
  | _ => fun k => if (53 <? nw fx) || (53 <? nw fy) then div_raw d fx cxs fy cys fz r o else k
  end
  (let f := fun a b => match d with DTrue => f64_div a b | DFloor => f64_floordiv a b | DMod => f64_mod a b end in
   bind (map2M (fun cx cy => Ok (f (get_val_f64 fx cx) (get_val_f64 fy cy))) cxs cys) (fun vals =>
   set_val_real fz r o false (AF64 vals) VFloat)).
