(* ProofsStore.v — inside the core domain the code-shaped store pipeline
   (coq/Store.v) computes exactly Spec.quantize and the Spec flag conditions. *)
From Coq Require Import ZArith List Bool Lia ZifyBool.
From FxpVerif Require Import Spec NP Store ProofsCore.
Import ListNotations.
Open Scope Z_scope.
Ltac Zify.zify_post_hook ::= Z.to_euclidean_division_equations.

(* the property's core domain (C01/C03/C04/C05 quantifier) *)
Definition core_fmt (f : fmt) : Prop := 1 <= nw f <= 52 /\ -8 <= nf f <= nw f + 8.
(* a real input v = dm * 2^de that is a double: |v| < 2^53, |v * 2^n_frac| < 2^62 *)
Definition core_dy (f : fmt) (v : dy) : Prop :=
  Z.abs (dm v) < 2^53 /\ -1074 <= de v <= 971 /\ -1074 <= de v + nf f
  /\ (0 <= de v -> Z.abs (dm v) * 2^(de v) < 2^53)
  /\ (0 <= de v + nf f -> Z.abs (dm v) * 2^(de v + nf f) < 2^62)
  /\ (dm v = 0 -> de v + nf f <= 1024).   (* a zero mantissa may carry any moderate exponent *)
Definition core_int (f : fmt) (z : Z) : Prop :=
  Z.abs z < 2^53 /\ (0 <= nf f -> Z.abs z * 2^(nf f) < 2^62).

Lemma core_int_dy f z : core_fmt f -> core_int f z -> core_dy f (dy_of_Z z).
Proof.
  intros (Hw & Hf) (Hz & Hs). unfold core_dy, dy_of_Z. cbn [dm de].
  repeat split; try lia. intros. apply Hs. lia.
Qed.

Lemma cmax_bound f : 1 <= nw f <= 52 -> 0 <= cmax f < 2^52 /\ - 2^52 <= cmin f <= 0.
Proof.
  intros Hw. unfold cmax, cmin.
  assert (2^(nw f) <= 2^52) by (apply pow2_le; lia).
  assert (2^(nw f - 1) <= 2^51) by (apply pow2_le; lia).
  assert (0 < 2^(nw f - 1)) by (apply pow2_pos; lia).
  assert (0 < 2^(nw f)) by (apply pow2_pos; lia).
  assert (2^51 < 2^52) by (apply pow2_lt; lia).
  destruct (sg f); lia.
Qed.

(* the rounded scaled value stays far inside int64 *)
Lemma rounded_bound f r v : core_fmt f -> core_dy f v ->
  - 2^63 < round_dy r (dy_scale (nf f) v) < 2^63.
Proof.
  intros (Hw & Hf) (Hm & He & Hs & Hv & Hmag & Hz0).
  assert (E63: 2^63 = 2 * 2^62) by reflexivity. assert (E62: 2^62 = 512 * 2^53) by reflexivity.
  assert (P53: 0 < 2^53) by (apply pow2_pos; lia).
  unfold dy_scale. cbn [dm de].
  destruct (Z_le_gt_dec 0 (de v + nf f)) as [Hge|Hlt].
  - specialize (Hmag Hge). rewrite round_dy_int by lia.
    assert (0 < 2^(de v + nf f)) by (apply pow2_pos; lia). nia.
  - pose proof (round_dy_bound r (dm v) (- (de v + nf f)) ltac:(lia)) as Hb.
    replace (- - (de v + nf f)) with (de v + nf f) in Hb by lia. lia.
Qed.

Lemma scaled_fits f v : core_fmt f -> core_dy f v -> fits53 (dm v) (de v + nf f).
Proof.
  intros (Hw & Hf) (Hm & He & Hs & Hv & Hmag & Hz0).
  unfold fits53. pose proof (bitlen_le (dm v) 53 ltac:(lia) Hm). pose proof (bitlen_nonneg (dm v)).
  repeat split; try lia.
  destruct (Z.eq_dec (dm v) 0) as [E0|Hnz]. { rewrite E0. change (bitlen 0) with 0. specialize (Hz0 E0). clear - Hw Hf He Hz0. lia. }
  destruct (Z_le_gt_dec 0 (de v + nf f)) as [Hge|Hlt]; [|lia].
  specialize (Hmag Hge).
  assert (de v + nf f < 62).
  { destruct (Z_lt_le_dec (de v + nf f) 62) as [|Hbig]; [assumption|]. exfalso.
    assert (2^62 <= 2^(de v + nf f)) by (apply pow2_le; lia). nia. }
  lia.
Qed.

(* ---- float element ---- *)
Lemma scale_float f v : core_fmt f -> core_dy f v ->
  scale_elem f false true (NF (Fin (dm v) (de v))) = Ok (NF (Fin (dm v) (de v + nf f))).
Proof.
  intros Hf Hv. unfold scale_elem. cbn [num_to_f64 f64_mul_pow2].
  rewrite (rnd64_exact _ _ (scaled_fits f v Hf Hv)).
  destruct (0 <=? nf f); [reflexivity|].
  (* the product is zero only if the value is: nothing vanishes *)
  cbn [f64_is_zero andb]. destruct (dm v =? 0); reflexivity.
Qed.

(* ---- int element ---- *)
Lemma scale_int f z : core_fmt f -> core_int f z ->
  exists s, scale_elem f false true (NI z) = Ok s /\
    match s with
    | NI c => 0 <= nf f /\ c = z * 2^(nf f)
    | NF x => nf f < 0 /\ x = Fin z (nf f)
    | NR _ => False end.
Proof.
  intros Hf Hz. pose proof (core_int_dy f z Hf Hz) as Hd.
  destruct Hf as (Hw & Hf). destruct Hz as (Hz & Hs).
  unfold scale_elem. destruct (0 <=? nf f) eqn:E.
  - assert (Hn: 0 <= nf f) by lia. specialize (Hs Hn).
    assert (P: 0 < 2^(nf f)) by (apply pow2_pos; lia).
    assert (2^(nf f) <= 2^60) by (apply pow2_le; lia).
    assert (2^60 < 2^63) by (apply pow2_lt; lia).
    assert (E63: 2^63 = 2 * 2^62) by reflexivity.
    assert (E64: 2^64 = 4 * 2^62) by reflexivity.
    unfold fits_i64. replace (- 2^63 <=? 2^(nf f)) with true by lia.
    replace (2^(nf f) <? 2^63) with true by lia. cbn [andb].
    eexists; split; [reflexivity|]. split; [lia|].
    unfold wrap_i64. set (p := z * 2^(nf f)) in *.
    assert (Hp: - 2^62 < p < 2^62) by lia.
    rewrite Z.mod_small by lia. lia.
  - eexists; split; [reflexivity|]. split; [lia|].
    cbn [num_to_f64 f64_mul_pow2]. rewrite f64_of_Z_exact by lia. cbn [f64_mul_pow2].
    replace (0 + nf f) with (nf f) by lia.
    pose proof (scaled_fits f (dy_of_Z z) ltac:(split; lia) Hd) as Hfit.
    unfold dy_of_Z in Hfit. cbn [dm de] in Hfit. replace (0 + nf f) with (nf f) in Hfit by lia.
    rewrite (rnd64_exact _ _ Hfit). cbn [f64_is_zero andb]. destruct (z =? 0); reflexivity.
Qed.

(* ---- comparisons with the bounds after rounding ---- *)
Lemma f64_ltb_int a b : f64_ltb (Fin a 0) (Fin b 0) = (a <? b).
Proof.
  unfold f64_ltb, f64_cmp. rewrite Z.min_id, Z.sub_diag, Z.pow_0_r, !Z.mul_1_r.
  destruct (Z.compare_spec a b); lia.
Qed.
Lemma f64_eqb_fin m1 e1 m2 e2 :
  f64_eqb (Fin m1 e1) (Fin m2 e2) = dy_eqb {| dm := m1; de := e1 |} {| dm := m2; de := e2 |}.
Proof.
  unfold f64_eqb, f64_cmp, dy_eqb, dy_align. cbn [dm de].
  destruct (Z.compare_spec (m1 * 2^(e1 - Z.min e1 e2)) (m2 * 2^(e2 - Z.min e1 e2))); lia.
Qed.

Lemma elem_gt_rounded f q : 1 <= nw f <= 52 -> elem_gt (NF (Fin q 0)) (cmax f) = (cmax f <? q).
Proof.
  intros Hw. pose proof (cmax_bound f Hw). assert (2^52 < 2^53) by (apply pow2_lt; lia).
  unfold elem_gt. apply f64_ltb_int.
Qed.
Lemma elem_lt_rounded f q : 1 <= nw f <= 52 -> elem_lt (NF (Fin q 0)) (cmin f) = (q <? cmin f).
Proof.
  intros Hw. pose proof (cmax_bound f Hw). assert (2^52 < 2^53) by (apply pow2_lt; lia).
  unfold elem_lt. apply f64_ltb_int.
Qed.

Lemma astype_int q : - 2^63 < q < 2^63 -> astype_i64 (Fin q 0) = Some q.
Proof.
  intros. unfold astype_i64, f64_trunc_Z. replace (0 <=? 0) with true by reflexivity.
  rewrite Z.pow_0_r, Z.mul_1_r.
  replace (- 2^63 <=? q) with true by lia. replace (q <? 2^63) with true by lia. reflexivity.
Qed.

(* _overflow_action on a rounded in-int64 element is Spec.overflow *)
Lemma overflow_elem_float f o q : 1 <= nw f <= 52 -> - 2^63 < q < 2^63 ->
  overflow_elem f o false (NF (Fin q 0)) = Ok (overflow o f q).
Proof.
  intros Hw Hq. unfold overflow_elem. rewrite elem_gt_rounded, elem_lt_rounded by exact Hw.
  pose proof (cmax_bound f Hw). cbn [elem_to_code].
  replace (64 <=? nw f) with false by lia. cbn [andb orb].
  rewrite astype_int by exact Hq. cbn [of_option bind].
  destruct o; cbn [overflow].
  - unfold sat. destruct (cmax f <? q) eqn:E1; [f_equal; lia|].
    destruct (q <? cmin f) eqn:E2; f_equal; lia.
  - f_equal. apply wrap_model_res. lia.
Qed.
Lemma overflow_elem_int f o q : 1 <= nw f <= 52 ->
  overflow_elem f o false (NI q) = Ok (overflow o f q).
Proof.
  intros Hw. unfold overflow_elem, elem_gt, elem_lt. pose proof (cmax_bound f Hw).
  replace (64 <=? nw f) with false by lia. cbn [andb orb elem_to_code bind].
  destruct o; cbn [overflow].
  - unfold sat. destruct (cmax f <? q) eqn:E1; [f_equal; lia|].
    destruct (q <? cmin f) eqn:E2; f_equal; lia.
  - f_equal. apply wrap_model_res. lia.
Qed.

(* ---- read-back and the inaccuracy comparison ---- *)
Lemma code_bound o f c : 1 <= nw f <= 52 -> Z.abs (overflow o f c) < 2^53.
Proof.
  intros Hw. pose proof (overflow_in_range o f c ltac:(lia)) as Hr. unfold in_range in Hr.
  pose proof (cmax_bound f Hw). assert (2^52 < 2^53) by (apply pow2_lt; lia). lia.
Qed.
Lemma get_val_exact f c : core_fmt f -> Z.abs c < 2^53 -> get_val_f64 f c = Fin c (- nf f).
Proof.
  intros (Hw & Hf) Hc. unfold get_val_f64. rewrite f64_of_Z_exact by exact Hc. cbn [f64_mul_pow2].
  replace (0 + - nf f) with (- nf f) by lia. apply rnd64_exact.
  pose proof (bitlen_le c 53 ltac:(lia) Hc). pose proof (bitlen_nonneg c). unfold fits53. lia.
Qed.
Lemma back_value_exact f c : core_fmt f -> Z.abs c < 2^53 -> back_value f false false c = Fin c (- nf f).
Proof. intros. unfold back_value. apply get_val_exact; assumption. Qed.

Lemma inacc_float f r o v : core_fmt f -> core_dy f v ->
  inacc_elem f false false (NF (Fin (dm v) (de v))) (quantize f r o v) = inacc_cond f r o v.
Proof.
  intros Hf Hv. unfold inacc_elem, inacc_cond. unfold quantize at 1.
  rewrite back_value_exact by (try exact Hf; apply code_bound; destruct Hf; lia).
  rewrite f64_eqb_fin. unfold val_of_code. f_equal.
  unfold dy_eqb, dy_align. cbn [dm de]. destruct v as [m e]. cbn [dm de].
  rewrite (Z.min_comm e). fold (quantize f r o {| dm := m; de := e |}). lia.
Qed.
Lemma inacc_int f r o z : core_fmt f -> core_int f z ->
  inacc_elem f false false (NI z) (quantize f r o (dy_of_Z z)) = inacc_cond f r o (dy_of_Z z).
Proof.
  intros Hf Hz. pose proof (core_int_dy f z Hf Hz) as Hd.
  rewrite <- (inacc_float f r o (dy_of_Z z) Hf Hd).
  unfold inacc_elem. rewrite f64_of_Z_exact by (destruct Hz; lia). reflexivity.
Qed.

(* ---- the whole element pipeline ---- *)
Definition spec_eres (f : fmt) (r : rmode) (o : omode) (v : dy) : eres :=
  {| e_code := quantize f r o v; e_gt := ovf_cond f r v; e_lt := unf_cond f r v;
     e_inacc := inacc_cond f r o v |}.

Lemma elem_pipe_float f r o v : core_fmt f -> core_dy f v ->
  elem_pipe f r o false false (NF (Fin (dm v) (de v))) = Ok (spec_eres f r o v).
Proof.
  intros Hf Hv. unfold elem_pipe. cbn [negb]. rewrite (scale_float f v Hf Hv). cbn [bind round_elem np_round].
  pose proof (rounded_bound f r v Hf Hv) as Hq. unfold dy_scale in Hq. cbn [dm de] in Hq.
  destruct Hf as (Hw & Hfr).
  rewrite overflow_elem_float by (try exact Hw; exact Hq). cbn [bind].
  rewrite elem_gt_rounded, elem_lt_rounded by exact Hw.
  unfold spec_eres. f_equal. f_equal.
  change (overflow o f (round_dy r {| dm := dm v; de := de v + nf f |})) with (quantize f r o v).
  apply inacc_float; [split; assumption | assumption].
Qed.

Lemma elem_pipe_int f r o z : core_fmt f -> core_int f z ->
  elem_pipe f r o false false (NI z) = Ok (spec_eres f r o (dy_of_Z z)).
Proof.
  intros Hf Hz. pose proof (core_int_dy f z Hf Hz) as Hd.
  destruct (scale_int f z Hf Hz) as (s & Hs & Hshape).
  unfold elem_pipe. cbn [negb]. rewrite Hs. cbn [bind].
  pose proof (rounded_bound f r (dy_of_Z z) Hf Hd) as Hq. unfold dy_scale, dy_of_Z in Hq. cbn [dm de] in Hq.
  replace (0 + nf f) with (nf f) in Hq by lia.
  pose proof Hf as (Hw & Hfr).
  destruct s as [c|x|q]; [| |contradiction].
  - destruct Hshape as (Hn & ->). cbn [round_elem].
    rewrite overflow_elem_int by exact Hw. cbn [bind]. unfold spec_eres.
    assert (Hr: round_dy r (dy_scale (nf f) (dy_of_Z z)) = z * 2^(nf f)).
    { unfold dy_scale, dy_of_Z. cbn [dm de]. apply round_dy_int. lia. }
    unfold quantize, ovf_cond, unf_cond. rewrite Hr. cbn [elem_gt elem_lt].
    f_equal. f_equal.
    replace (overflow o f (z * 2^(nf f))) with (quantize f r o (dy_of_Z z)) by (unfold quantize; rewrite Hr; reflexivity).
    apply inacc_int; assumption.
  - destruct Hshape as (Hn & ->). cbn [round_elem np_round].
    rewrite overflow_elem_float by (try exact Hw; exact Hq). cbn [bind].
    rewrite elem_gt_rounded, elem_lt_rounded by exact Hw.
    unfold spec_eres, quantize, ovf_cond, unf_cond, dy_scale, dy_of_Z. cbn [dm de].
    replace (0 + nf f) with (nf f) by lia. f_equal. f_equal.
    pose proof (inacc_int f r o z Hf Hz) as Hi. unfold quantize, dy_scale, dy_of_Z in Hi. cbn [dm de] in Hi.
    replace (0 + nf f) with (nf f) in Hi by lia. exact Hi.
Qed.

(* ---- lists ---- *)
Lemma mapM_Forall2 {A B C} (k : A -> outcome B) (g : C -> B) xs vs :
  Forall2 (fun x v => k x = Ok (g v)) xs vs -> mapM k xs = Ok (map g vs).
Proof.
  induction 1 as [|x v xs vs Hx _ IH]; [reflexivity|].
  cbn [mapM map]. rewrite Hx. cbn [bind]. rewrite IH. reflexivity.
Qed.
Lemma existsb_map {A B} (p : B -> bool) (g : A -> B) l : existsb p (map g l) = existsb (fun x => p (g x)) l.
Proof. induction l as [|a l IH]; [reflexivity|]. cbn [map existsb]. rewrite IH. reflexivity. Qed.

Definition spec_wres (f : fmt) (r : rmode) (o : omode) (vs : list dy) : wres :=
  {| w_codes := map (quantize f r o) vs; w_ovf := existsb (ovf_cond f r) vs;
     w_unf := existsb (unf_cond f r) vs; w_inacc := existsb (inacc_cond f r o) vs |}.

Lemma not_big_float f v : core_fmt f -> core_dy f v -> num_big64 (NF (Fin (dm v) (de v))) = false.
Proof.
  intros (Hw & Hf) (Hm & He & Hs & Hv & Hmag & Hz0). unfold num_big64, f64_floor_Z.
  assert (2^53 < 2^64) by (apply pow2_lt; lia).
  destruct (0 <=? de v) eqn:E.
  - specialize (Hv ltac:(lia)). lia.
  - assert (0 < 2^(- de v)) by (apply pow2_pos; lia). nia.
Qed.
Lemma not_big_int f z : core_int f z -> num_big64 (NI z) = false.
Proof. intros (Hz & _). unfold num_big64. assert (2^53 < 2^64) by (apply pow2_lt; lia). lia. Qed.

Lemma existsb_false {A} (p : A -> bool) l : Forall (fun x => p x = false) l -> existsb p l = false.
Proof. induction 1 as [|x l Hx _ IH]; [reflexivity|]. cbn [existsb]. rewrite Hx, IH. reflexivity. Qed.

Definition f64_of_core (v : dy) : f64 := Fin (dm v) (de v).

(* ---- the `_use_pyint` decision and the exact-rational factor, case by case ---- *)
Lemma exact_factor_raw f a : exact_factor f true a = false.
Proof. unfold exact_factor. cbn [negb]. rewrite !andb_false_r. reflexivity. Qed.
Lemma exact_factor_AF64 f raw l : exact_factor f raw (AF64 l) = false.
Proof. unfold exact_factor. cbn [arr_has_frac arr_is_int negb andb]. reflexivity. Qed.
Lemma exact_factor_nf f raw a : 0 <= nf f -> exact_factor f raw a = false.
Proof. intros H. unfold exact_factor. replace (nf f <? 0) with false by lia. rewrite andb_false_r. reflexivity. Qed.
Lemma exact_factor_small f raw a : arr_absmax_ge a (2^53) = false -> exact_factor f raw a = false.
Proof. intros H. unfold exact_factor. rewrite H, andb_false_r. reflexivity. Qed.
Lemma absmax_AI64 l b : arr_absmax_ge (AI64 l) b = existsb (fun z => b <=? Z.abs z) l.
Proof. unfold arr_absmax_ge. cbn [arr_nums]. rewrite existsb_map. reflexivity. Qed.
Lemma absmax_AU64 l b : arr_absmax_ge (AU64 l) b = existsb (fun z => b <=? Z.abs z) l.
Proof. unfold arr_absmax_ge. cbn [arr_nums]. rewrite existsb_map. reflexivity. Qed.
Lemma absmax_small_ints l b : Forall (fun z => Z.abs z < b) l -> existsb (fun z => b <=? Z.abs z) l = false.
Proof. intros H. apply existsb_false. eapply Forall_impl; [|exact H]. intros z Hz. cbv beta in *. lia. Qed.

Lemma obj_path_AF64 f raw l vd : obj_path f raw (AF64 l) vd = existsb num_big64 (map NF l) || (64 <=? nw f).
Proof.
  unfold obj_path. rewrite exact_factor_AF64. cbn [arr_nums arr_has_frac arr_is_int andb].
  destruct (conv_factor_int f raw); rewrite !orb_false_r; reflexivity.
Qed.
(* integer arrays cast to an integer value type: the old decision, plus the exact factor *)
Lemma obj_path_AI64_int f raw l : obj_path f raw (AI64 l) VInt =
  existsb num_big64 (map NI l) || (64 <=? nw f) ||
  match conv_factor_int f raw with Some k => (2^63 <=? k) || existsb (fun z => 2^63 <=? Z.abs z * k) l | None => false end ||
  exact_factor f raw (AI64 l).
Proof.
  unfold obj_path. cbn [arr_nums arr_has_frac arr_is_int vdt_is_int negb andb].
  destruct (conv_factor_int f raw); rewrite ?orb_false_r; reflexivity.
Qed.
(* any value type, but no integer of more than 53 bits *)
Lemma obj_path_AI64_small f raw l vd : existsb (fun z => 2^53 <=? Z.abs z) l = false -> obj_path f raw (AI64 l) vd =
  existsb num_big64 (map NI l) || (64 <=? nw f) ||
  match conv_factor_int f raw with Some k => (2^63 <=? k) || existsb (fun z => 2^63 <=? Z.abs z * k) l | None => false end.
Proof.
  intros H. unfold obj_path. rewrite (exact_factor_small f raw (AI64 l)) by (rewrite absmax_AI64; exact H).
  cbn [arr_nums arr_has_frac arr_is_int andb]. rewrite absmax_AI64, H.
  destruct (conv_factor_int f raw); rewrite ?andb_false_r, ?orb_false_r; reflexivity.
Qed.
Lemma obj_path_AU64_raw f l vd : obj_path f true (AU64 l) vd = existsb num_big64 (map NI l) || (64 <=? nw f).
Proof.
  unfold obj_path. rewrite exact_factor_raw. unfold conv_factor_int. cbn [arr_nums arr_has_frac negb andb].
  rewrite !orb_false_r. reflexivity.
Qed.
Lemma obj_path_AObj_ints_raw f l : obj_path f true (AObj (map NI l)) VInt =
  existsb num_big64 (map NI l) || (64 <=? nw f) || ((2^63 <=? 1) || existsb (fun x => 2^63 <=? num_abs_int x * 1) (map NI l)).
Proof.
  unfold obj_path. rewrite exact_factor_raw. unfold conv_factor_int. cbn [arr_nums vdt_is_int negb andb].
  assert (Hi: arr_is_int (AObj (map NI l)) = true).
  { cbn [arr_is_int]. rewrite forallb_forall. intros x Hx. apply in_map_iff in Hx. destruct Hx as (z & <- & _). reflexivity. }
  assert (Hf: arr_has_frac (AObj (map NI l)) = false).
  { cbn [arr_has_frac]. rewrite existsb_map. apply existsb_false. apply Forall_forall. intros z _. reflexivity. }
  rewrite Hi, Hf. cbn [andb]. rewrite !orb_false_r. reflexivity.
Qed.

(* set_val_real once the two decisions are known *)
Lemma set_val_real_eq f r o raw a vd b : obj_path f raw a vd = b -> exact_factor f raw a = false ->
  set_val_real f r o raw a vd =
  bind (if b then Ok (arr_nums a) else astype_vd a vd) (fun vals =>
  bind (mapM (elem_pipe f r o raw b) vals) (fun rs =>
  Ok {| w_codes := map e_code rs; w_ovf := existsb e_gt rs; w_unf := existsb e_lt rs;
        w_inacc := existsb e_inacc rs |})).
Proof. intros Hb Hx. unfold set_val_real. rewrite Hb, Hx. reflexivity. Qed.

Theorem set_val_floats_core f r o vs : core_fmt f -> Forall (core_dy f) vs ->
  set_val_real f r o false (AF64 (map f64_of_core vs)) VFloat = Ok (spec_wres f r o vs).
Proof.
  intros Hf Hvs.
  assert (Hobj: obj_path f false (AF64 (map f64_of_core vs)) VFloat = false).
  { rewrite obj_path_AF64. rewrite map_map. rewrite existsb_map.
    rewrite existsb_false.
    - destruct Hf; cbn [orb]; lia.
    - eapply Forall_impl; [|exact Hvs]. intros v Hv. apply (not_big_float f v Hf Hv). }
  rewrite (set_val_real_eq _ _ _ _ _ _ _ Hobj (exact_factor_AF64 _ _ _)). cbn [astype_vd bind]. rewrite map_map.
  rewrite (mapM_Forall2 _ (spec_eres f r o) _ vs).
  - cbn [bind]. unfold spec_wres. rewrite !map_map, !existsb_map. reflexivity.
  - clear Hobj. induction Hvs as [|v vs Hv _ IH]; cbn [map]; [constructor|].
    constructor; [|exact IH]. apply elem_pipe_float; assumption.
Qed.

Theorem set_val_ints_core f r o zs : core_fmt f -> Forall (core_int f) zs ->
  set_val_real f r o false (AI64 zs) VInt = Ok (spec_wres f r o (map dy_of_Z zs)).
Proof.
  intros Hf Hzs.
  assert (Hsm: existsb (fun z => 2^53 <=? Z.abs z) zs = false).
  { apply absmax_small_ints. eapply Forall_impl; [|exact Hzs]. intros z (Hz1 & _). exact Hz1. }
  assert (Hobj: obj_path f false (AI64 zs) VInt = false).
  { rewrite (obj_path_AI64_small _ _ _ _ Hsm). rewrite existsb_map.
    rewrite existsb_false; [|eapply Forall_impl; [|exact Hzs]; intros z Hz; apply (not_big_int f z Hz)].
    replace (64 <=? nw f) with false by (destruct Hf; lia). cbn [orb].
    unfold conv_factor_int. destruct (0 <=? nf f) eqn:E; [|reflexivity].
    assert (Hk: 2^(nf f) < 2^63) by (apply pow2_lt; destruct Hf; lia).
    replace (2^63 <=? 2^(nf f)) with false by lia. cbn [orb].
    apply existsb_false. eapply Forall_impl; [|exact Hzs]. intros z (Hz1 & Hz2).
    assert (2^62 < 2^63) by (apply pow2_lt; lia). specialize (Hz2 ltac:(lia)). lia. }
  rewrite (set_val_real_eq _ _ _ _ _ _ _ Hobj (exact_factor_small _ _ _ ltac:(rewrite absmax_AI64; exact Hsm))). cbn [astype_vd bind].
  rewrite (mapM_Forall2 _ (spec_eres f r o) _ (map dy_of_Z zs)).
  - cbn [bind]. unfold spec_wres. rewrite !map_map, !existsb_map. reflexivity.
  - clear Hobj Hsm. induction Hzs as [|z zs Hz _ IH]; cbn [map]; [constructor|].
    constructor; [|exact IH]. apply elem_pipe_int; assumption.
Qed.

(* reading back: get_val is exactly code * 2^-n_frac *)
Theorem get_val_core f r o v : core_fmt f ->
  get_val_f64 f (quantize f r o v) = Fin (quantize f r o v) (- nf f).
Proof. intros Hf. apply get_val_exact; [exact Hf|]. apply code_bound. destruct Hf; lia. Qed.

(* ---- complex inputs: each component is quantized on its own (C01, C04) ---- *)
Theorem set_val_complex_core f r o vre vim : core_fmt f -> Forall (core_dy f) vre -> Forall (core_dy f) vim ->
  set_val_complex f r o (map f64_of_core vre) (map f64_of_core vim)
  = Ok {| cw_re := map (quantize f r o) vre; cw_im := map (quantize f r o) vim;
          cw_ovf := existsb (ovf_cond f r) vre || existsb (ovf_cond f r) vim;
          cw_unf := existsb (unf_cond f r) vre || existsb (unf_cond f r) vim;
          cw_inacc := existsb (inacc_cond f r o) vre || existsb (inacc_cond f r o) vim |}.
Proof.
  intros Hf Hre Him. unfold set_val_complex.
  assert (Hbig: existsb num_big64 (map NF (map f64_of_core vre)) = false).
  { rewrite map_map, existsb_map. apply existsb_false. eapply Forall_impl; [|exact Hre]. intros v Hv. apply (not_big_float f v Hf Hv). }
  rewrite Hbig. replace (64 <=? nw f) with false by (destruct Hf; lia). cbn [orb].
  assert (Hpipe: forall vs, Forall (core_dy f) vs ->
            mapM (elem_pipe f r o false false) (map NF (map f64_of_core vs)) = Ok (map (spec_eres f r o) vs)).
  { intros vs Hvs. apply mapM_Forall2. induction Hvs as [|v vs Hv _ IH]; cbn [map]; constructor; [|exact IH]. apply elem_pipe_float; assumption. }
  rewrite (Hpipe vre Hre). cbn [bind]. rewrite (Hpipe vim Him). cbn [bind].
  rewrite !map_map, !existsb_map. reflexivity.
Qed.
