(* ProofsArith.v — C07 / C19 / C08: the raw arithmetic functions, guarded by _raw_cast,
   deliver exact integers to set_val at every width; set_val(raw=True) on them is
   Spec.overflow; the optimal format holds every exact result. *)
From Coq Require Import ZArith List Bool Lia ZifyBool.
From FxpVerif Require Import Spec SpecArith NP Store ProofsCore ProofsStore ProofsConvert Arith.
Import ListNotations.
Open Scope Z_scope.
Ltac Zify.zify_post_hook ::= Z.to_euclidean_division_equations.

(* ---------- set_val(raw=True) on exact integers, per array kind ---------- *)
Definition int_wres (f : fmt) (o : omode) (zs : list Z) (w : wres) : Prop :=
  w_codes w = map (overflow o f) zs /\
  w_ovf w = existsb (fun z => cmax f <? z) zs /\ w_unf w = existsb (fun z => z <? cmin f) zs.

Lemma overflow_elem_int_gen f o q : 1 <= nw f < 64 -> overflow_elem f o false (NI q) = Ok (overflow o f q).
Proof.
  intros Hw. unfold overflow_elem, elem_gt, elem_lt.
  pose proof (range_width f ltac:(lia)) as Hrw. assert (0 < 2^(nw f)) by (apply pow2_pos; lia).
  replace (64 <=? nw f) with false by lia. cbn [orb elem_to_code bind].
  destruct o; cbn [overflow].
  - unfold sat. destruct (cmax f <? q) eqn:E1; [f_equal; lia|].
    destruct (q <? cmin f) eqn:E2; f_equal; lia.
  - f_equal. apply wrap_model_res. lia.
Qed.
Lemma elem_pipe_raw_int_gen f r o z : 1 <= nw f < 64 ->
  exists ia, elem_pipe f r o true false (NI z) =
    Ok {| e_code := overflow o f z; e_gt := cmax f <? z; e_lt := z <? cmin f; e_inacc := ia |}.
Proof.
  intros Hw. unfold elem_pipe. cbn [negb scale_elem bind round_elem].
  rewrite overflow_elem_int_gen by exact Hw. cbn [bind elem_gt elem_lt]. eexists. reflexivity.
Qed.

Lemma finish_ints f r o (is_obj : bool) zs :
  (forall z, In z zs -> exists ia, elem_pipe f r o true is_obj (NI z) =
     Ok {| e_code := overflow o f z; e_gt := cmax f <? z; e_lt := z <? cmin f; e_inacc := ia |}) ->
  exists w, bind (mapM (elem_pipe f r o true is_obj) (map NI zs)) (fun rs =>
      Ok {| w_codes := map e_code rs; w_ovf := existsb e_gt rs; w_unf := existsb e_lt rs; w_inacc := existsb e_inacc rs |}) = Ok w
    /\ int_wres f o zs w.
Proof.
  intros H.
  destruct (mapM_char (elem_pipe f r o true is_obj) (fun x => overflow o f (match x with NI z => z | _ => 0 end))
             (fun x => cmax f <? (match x with NI z => z | _ => 0 end)) (fun x => (match x with NI z => z | _ => 0 end) <? cmin f)
             (map NI zs)) as (rs & Hrs & Hc & Hg & Hl).
  { intros x Hx. apply in_map_iff in Hx. destruct Hx as (z & <- & Hz). apply H. exact Hz. }
  rewrite Hrs. cbn [bind]. eexists. split; [reflexivity|]. unfold int_wres. cbn [w_codes w_ovf w_unf].
  rewrite Hc, Hg, Hl, ?map_map, ?existsb_map. auto.
Qed.

Lemma set_val_raw_i64 f r o zs : 1 <= nw f -> Forall (fun z => Z.abs z < 2^63) zs ->
  exists w, set_val_real f r o true (AI64 zs) VInt = Ok w /\ int_wres f o zs w.
Proof.
  intros Hw Hz.
  assert (E64: 2^63 < 2^64) by (apply pow2_lt; lia).
  assert (Hobj: obj_path f true (AI64 zs) VInt = (64 <=? nw f)).
  { rewrite obj_path_AI64_int, exact_factor_raw. unfold conv_factor_int. rewrite existsb_map.
    replace (2^63 <=? 1) with false by reflexivity. cbn [orb].
    rewrite existsb_false, existsb_false; [destruct (64 <=? nw f); reflexivity| |].
    - eapply Forall_impl; [|exact Hz]. intros z Hb. cbv beta in *. lia.
    - eapply Forall_impl; [|exact Hz]. intros z Hb. cbv beta in *. unfold num_big64. lia. }
  rewrite (set_val_real_eq _ _ _ _ _ _ _ Hobj (exact_factor_raw _ _)). destruct (64 <=? nw f) eqn:E.
  - cbn [arr_nums bind]. apply finish_ints. intros z _. apply elem_pipe_raw_obj_int. exact Hw.
  - cbn [astype_vd bind]. apply finish_ints. intros z _. apply elem_pipe_raw_int_gen. lia.
Qed.

Lemma wrap_i64_of_u64 z : - 2^63 <= z < 2^63 -> wrap_i64 (wrap_u64 z) = z.
Proof.
  intros Hz. unfold wrap_i64, wrap_u64. assert (E: 2^64 = 2 * 2^63) by reflexivity.
  rewrite Zplus_mod_idemp_l. rewrite Z.mod_small by lia. lia.
Qed.

Lemma set_val_raw_u64 f r o zs : 1 <= nw f < 64 -> Forall (fun z => - 2^63 <= z < 2^63) zs ->
  exists w, set_val_real f r o true (AU64 (map wrap_u64 zs)) VInt = Ok w /\ int_wres f o zs w.
Proof.
  intros Hw Hz.
  assert (Hobj: obj_path f true (AU64 (map wrap_u64 zs)) VInt = false).
  { rewrite obj_path_AU64_raw. rewrite map_map, existsb_map.
    replace (64 <=? nw f) with false by lia. rewrite !orb_false_r.
    apply existsb_false. apply Forall_forall. intros z _. unfold num_big64, wrap_u64.
    assert (0 < 2^64) by (apply pow2_pos; lia). pose proof (Z.mod_pos_bound z (2^64) ltac:(lia)). lia. }
  rewrite (set_val_real_eq _ _ _ _ _ _ _ Hobj (exact_factor_raw _ _)). cbn [astype_vd bind]. rewrite map_map.
  assert (Heq: map (fun x => NI (wrap_i64 (wrap_u64 x))) zs = map NI zs).
  { apply map_ext_in. intros z Hin. rewrite Forall_forall in Hz. rewrite wrap_i64_of_u64 by (apply Hz; exact Hin). reflexivity. }
  rewrite Heq. apply finish_ints. intros z _. apply elem_pipe_raw_int_gen. lia.
Qed.

Lemma set_val_raw_obj f r o zs : 1 <= nw f ->
  exists w, set_val_real f r o true (AObj (map NI zs)) VInt = Ok w /\ int_wres f o zs w.
Proof.
  intros Hw. destruct (obj_path f true (AObj (map NI zs)) VInt) eqn:Hobj;
    rewrite (set_val_real_eq _ _ _ _ _ _ _ Hobj (exact_factor_raw _ _)).
  - cbn [arr_nums bind]. apply finish_ints. intros z _. apply elem_pipe_raw_obj_int. exact Hw.
  - (* not the object path: every |z| < 2^63 and the word is below 64 bits *)
    rewrite obj_path_AObj_ints_raw in Hobj.
    apply orb_false_iff in Hobj. destruct Hobj as (H1 & H2). apply orb_false_iff in H1. destruct H1 as (_ & Hnw).
    replace (2^63 <=? 1) with false in H2 by reflexivity. cbn [orb] in H2. rewrite existsb_map in H2.
    assert (Hsmall: forall z, In z zs -> Z.abs z < 2^63).
    { intros z Hin. destruct (2^63 <=? Z.abs z) eqn:E; [|lia]. exfalso.
      assert (existsb (fun x => 2^63 <=? num_abs_int (NI x) * 1) zs = true).
      { apply existsb_exists. exists z. split; [exact Hin|]. unfold num_abs_int. cbn [num_int]. lia. }
      congruence. }
    cbn [astype_vd].
    set (k := fun x : num => match num_int x with Some z => if fits_i64 z then Ok (NI z) else Exc OverflowError | None => Exc OverflowError end).
    assert (Hk: forall z, Z.abs z < 2^63 -> k (NI z) = Ok (NI z)).
    { intros z Hz. unfold k. cbn [num_int]. unfold fits_i64.
      replace (- 2^63 <=? z) with true by lia. replace (z <? 2^63) with true by lia. reflexivity. }
    assert (Hm: mapM k (map NI zs) = Ok (map NI zs)).
    { clear - Hsmall Hk. induction zs as [|z zs IH]; [reflexivity|]. cbn [map mapM].
      rewrite Hk by (apply Hsmall; left; reflexivity). cbn [bind].
      rewrite IH; [reflexivity|]. intros y Hy. apply Hsmall. right. exact Hy. }
    rewrite Hm. cbn [bind]. apply finish_ints. intros z _. apply elem_pipe_raw_int_gen. lia.
Qed.

(* float64 arrays of exact integers below 2^53, words up to 53 bits *)
Lemma cmax_bound53 f : 1 <= nw f <= 53 -> Z.abs (cmax f) < 2^53 /\ Z.abs (cmin f) < 2^53.
Proof.
  intros Hw. unfold cmax, cmin.
  assert (2^(nw f) <= 2^53) by (apply pow2_le; lia).
  assert (2^(nw f - 1) <= 2^52) by (apply pow2_le; lia).
  assert (0 < 2^(nw f - 1)) by (apply pow2_pos; lia). assert (0 < 2^(nw f)) by (apply pow2_pos; lia).
  assert (2^52 < 2^53) by (apply pow2_lt; lia). destruct (sg f); lia.
Qed.
Lemma elem_pipe_raw_fint f r o z : 1 <= nw f <= 53 -> Z.abs z < 2^53 ->
  exists ia, elem_pipe f r o true false (NF (Fin z 0)) =
    Ok {| e_code := overflow o f z; e_gt := cmax f <? z; e_lt := z <? cmin f; e_inacc := ia |}.
Proof.
  intros Hw Hz. pose proof (cmax_bound53 f Hw) as (Hcx & Hcn).
  assert (E: 2^53 < 2^63) by (apply pow2_lt; lia).
  pose proof (range_width f ltac:(lia)) as Hrw. assert (0 < 2^(nw f)) by (apply pow2_pos; lia).
  unfold elem_pipe. cbn [negb scale_elem bind round_elem np_round].
  rewrite round_dy_int by lia. rewrite Z.pow_0_r, Z.mul_1_r.
  assert (Hgt: elem_gt (NF (Fin z 0)) (cmax f) = (cmax f <? z)) by (unfold elem_gt; apply f64_ltb_int).
  assert (Hlt: elem_lt (NF (Fin z 0)) (cmin f) = (z <? cmin f)) by (unfold elem_lt; apply f64_ltb_int).
  assert (Ho: overflow_elem f o false (NF (Fin z 0)) = Ok (overflow o f z)).
  { unfold overflow_elem. rewrite Hgt, Hlt. replace (64 <=? nw f) with false by lia. cbn [orb elem_to_code].
    rewrite astype_int by lia. cbn [of_option bind]. destruct o; cbn [overflow].
    - unfold sat. destruct (cmax f <? z) eqn:E1; [f_equal; lia|]. destruct (z <? cmin f) eqn:E2; f_equal; lia.
    - f_equal. apply wrap_model_res. lia. }
  rewrite Ho. cbn [bind]. rewrite Hgt, Hlt. eexists. reflexivity.
Qed.
Lemma set_val_raw_f64 f r o zs : 1 <= nw f <= 53 -> Forall (fun z => Z.abs z < 2^53) zs ->
  exists w, set_val_real f r o true (AF64 (map (fun z => Fin z 0) zs)) VFloat = Ok w /\ int_wres f o zs w.
Proof.
  intros Hw Hz.
  assert (E: 2^53 < 2^64) by (apply pow2_lt; lia).
  assert (Hobj: obj_path f true (AF64 (map (fun z => Fin z 0) zs)) VFloat = false).
  { rewrite obj_path_AF64. rewrite map_map, existsb_map.
    replace (64 <=? nw f) with false by lia. rewrite !orb_false_r.
    apply existsb_false. eapply Forall_impl; [|exact Hz]. intros z Hb. cbv beta in *.
    unfold num_big64, f64_floor_Z. replace (0 <=? 0) with true by reflexivity. rewrite Z.pow_0_r, Z.mul_1_r. lia. }
  rewrite (set_val_real_eq _ _ _ _ _ _ _ Hobj (exact_factor_AF64 _ _ _)). cbn [astype_vd bind]. rewrite map_map.
  destruct (mapM_char (elem_pipe f r o true false) (fun x => overflow o f (match x with NF (Fin z _) => z | _ => 0 end))
             (fun x => cmax f <? (match x with NF (Fin z _) => z | _ => 0 end)) (fun x => (match x with NF (Fin z _) => z | _ => 0 end) <? cmin f)
             (map (fun z => NF (Fin z 0)) zs)) as (rs & Hrs & Hc & Hg & Hl).
  { intros x Hx. apply in_map_iff in Hx. destruct Hx as (z & <- & Hzin). rewrite Forall_forall in Hz.
    apply elem_pipe_raw_fint; [exact Hw | apply Hz; exact Hzin]. }
  rewrite Hrs. cbn [bind]. eexists. split; [reflexivity|]. unfold int_wres. cbn [w_codes w_ovf w_unf].
  rewrite Hc, Hg, Hl, ?map_map, ?existsb_map. auto.
Qed.

(* ---------- the raw functions deliver the exact integer, in a statically known dtype ---------- *)
Inductive rkind := KI | KU | KF | KO.
Definition encode (k : rkind) (z : Z) : mval :=
  match k with KI => MI z | KU => MU (wrap_u64 z) | KF => MF (Fin z 0) | KO => MO (NI z) end.
(* the magnitude the dtype can carry without loss *)
Definition kind_ok (k : rkind) (z : Z) : Prop :=
  match k with KI => Z.abs z < 2^63 | KU => - 2^63 <= z < 2^63 | KF => Z.abs z < 2^53 | KO => True end.

Definition add_bits (fx fy : fmt) : Z :=
  let nfr := Z.max (nf fx) (nf fy) in Z.max (nw fx + nfr - nf fx) (nw fy + nfr - nf fy) + 2.
Definition raw_kind (op : aop) (fx fy : fmt) : rkind :=
  let nb := match op with OpMul => nw fx + nw fy | _ => add_bits fx fy end in
  let nfr := nf (grow op fx fy) in
  if raw_cast (storage fx) (storage fy) nb || (match op with OpMul => false | _ => precision_cast nfr end) then KO
  else match storage fx, storage fy with
       | SI64, SI64 => KI
       | SU64, SU64 => match op with OpSub => KI | _ => KU end      (* _sub_raw subtracts two uint64 arrays in int64 *)
       | _, _ => KF end.

(* the exact result in units of 2^-n_frac of the optimal format *)
Definition exact_int (op : aop) (fx fy : fmt) (cx cy : Z) : Z :=
  let nfr := Z.max (nf fx) (nf fy) in
  match op with
  | OpAdd => cx * 2^(nfr - nf fx) + cy * 2^(nfr - nf fy)
  | OpSub => cx * 2^(nfr - nf fx) - cy * 2^(nfr - nf fy)
  | OpMul => cx * cy end.

Definition wf_op (f : fmt) : Prop := 1 <= nw f /\ nf f <= nw f + 1.

Lemma grow_nf op fx fy : nf (grow op fx fy) = match op with OpMul => nf fx + nf fy | _ => Z.max (nf fx) (nf fy) end.
Proof. destruct op; reflexivity. Qed.

Lemma code_mag f c : 1 <= nw f -> in_range f c ->
  (sg f = true -> Z.abs c <= 2^(nw f - 1)) /\ (sg f = false -> 0 <= c < 2^(nw f)).
Proof.
  intros Hw Hr. unfold in_range, cmin, cmax in Hr. assert (0 < 2^(nw f - 1)) by (apply pow2_pos; lia).
  split; intros E; rewrite E in Hr; lia.
Qed.

Lemma storage_small f : nw f < 64 -> storage f = if sg f then SI64 else SU64.
Proof. intros. unfold storage. replace (64 <=? nw f) with false by lia. reflexivity. Qed.

Lemma scaled_bound f c k : 1 <= nw f -> in_range f c -> 0 <= k ->
  Z.abs (c * 2^k) <= 2^(nw f + k - (if sg f then 1 else 0)) /\ (sg f = false -> 0 <= c * 2^k).
Proof.
  intros Hw Hr Hk. destruct (code_mag f c Hw Hr) as (Hs & Hu).
  assert (Hp: 0 < 2^k) by (apply pow2_pos; lia). rewrite Z.abs_mul, (Z.abs_eq (2^k)) by lia.
  destruct (sg f) eqn:E.
  - specialize (Hs eq_refl). replace (nw f + k - 1) with ((nw f - 1) + k) by lia. rewrite pow2_split by lia. split; [nia|discriminate].
  - specialize (Hu eq_refl). replace (nw f + k - 0) with (nw f + k) by lia. rewrite pow2_split by lia. split; [nia|intros _; nia].
Qed.

Lemma f64_addsub_int op a b : op <> OpMul -> Z.abs (z_op op a b) < 2^53 ->
  f64_op op (Fin a 0) (Fin b 0) = Fin (z_op op a b) 0.
Proof.
  intros Hop Hb. destruct op; [| |congruence]; cbn [f64_op z_op f64_sub f64_neg f64_add] in *.
  - rewrite Z.min_id, Z.sub_diag, Z.pow_0_r, !Z.mul_1_r. apply rnd64_exact.
    pose proof (bitlen_le (a + b) 53 ltac:(lia) Hb). pose proof (bitlen_nonneg (a + b)). unfold fits53. lia.
  - rewrite Z.min_id, Z.sub_diag, Z.pow_0_r, !Z.mul_1_r. replace (a + - b) with (a - b) by lia. apply rnd64_exact.
    pose proof (bitlen_le (a - b) 53 ltac:(lia) Hb). pose proof (bitlen_nonneg (a - b)). unfold fits53. lia.
Qed.
Lemma f64_mul_int a b : Z.abs (a * b) < 2^53 -> f64_mul (Fin a 0) (Fin b 0) = Fin (a * b) 0.
Proof.
  intros Hb. cbn [f64_mul]. replace (0 + 0) with 0 by lia. apply rnd64_exact.
  pose proof (bitlen_le (a * b) 53 ltac:(lia) Hb). pose proof (bitlen_nonneg (a * b)). unfold fits53. lia.
Qed.
Lemma wrap_i64_small z : Z.abs z < 2^63 -> wrap_i64 z = z.
Proof. intros. unfold wrap_i64. assert (2^64 = 2 * 2^63) by reflexivity. rewrite Z.mod_small by lia. lia. Qed.
Lemma wrap_u64_small z : 0 <= z < 2^64 -> wrap_u64 z = z.
Proof. intros. unfold wrap_u64. apply Z.mod_small. lia. Qed.
Lemma wrap_u64_op op a b : wrap_u64 (z_op op (wrap_u64 a) (wrap_u64 b)) = wrap_u64 (z_op op a b).
Proof.
  unfold wrap_u64. assert (0 < 2^64) by (apply pow2_pos; lia). destruct op; cbn [z_op].
  - rewrite <- Zplus_mod. reflexivity.
  - rewrite <- Zminus_mod. reflexivity.
  - rewrite <- Zmult_mod. reflexivity.
Qed.

Lemma load_num d c : as_num (load d c) = NI c.
Proof. destruct d; reflexivity. Qed.
(* functions._rescale with a non-negative shift: Python integers once the operands were cast ... *)
Lemma rescale_obj ex pc rc v k c : 0 <= k -> as_num v = NI c -> rc || pc = true ->
  rescale ex pc (cast_if rc v) k = Ok (MO (NI (c * 2^k))).
Proof.
  intros Hk Hv Hc. unfold rescale. replace (k <? 0) with false by lia.
  assert (Hcv: as_num (cast_if rc v) = NI c) by (destruct rc; cbn [cast_if]; [unfold to_obj; cbn [as_num]|]; exact Hv).
  destruct pc.
  - unfold to_obj. rewrite Hcv. unfold mscale. replace (0 <=? k) with true by lia. reflexivity.
  - rewrite orb_false_r in Hc. subst rc. cbn [cast_if]. unfold to_obj. rewrite Hv.
    unfold mscale_raw, mscale. replace (0 <=? k) with true by lia. replace (k <? 0) with false by lia. destruct (0 <? k); reflexivity.
Qed.
(* ... and the machine product when it fits (utils.scale_raw does not switch to Python integers) *)
Lemma rescale_machine ex v k : 0 <= k < 63 ->
  match v with MI z => Z.abs z * 2^k < 2^63 | MU z => 0 <= z /\ z * 2^k < 2^63 | _ => False end ->
  rescale ex false v k = Ok (match v with MI z => MI (z * 2^k) | MU z => MU (z * 2^k) | _ => v end).
Proof.
  intros Hk Hv. unfold rescale. replace (k <? 0) with false by lia. unfold mscale_raw.
  assert (P: 0 < 2^k < 2^63) by (split; [apply pow2_pos; lia | apply pow2_lt; lia]).
  assert (P64: 2^63 < 2^64) by (apply pow2_lt; lia).
  destruct v as [z|z|x|n]; try contradiction.
  - destruct (0 <? k) eqn:E.
    + replace (63 <=? k) with false by lia. replace (2^63 <=? Z.abs z * 2^k) with false by lia. reflexivity.
    + assert (k = 0) by lia. subst k. replace ((0 <? 0) && false) with false by reflexivity. unfold mscale. cbn [Z.leb Z.compare].
      rewrite Z.pow_0_r, Z.mul_1_r in *. unfold fits_i64. replace (- 2^63 <=? 1) with true by reflexivity. replace (1 <? 2^63) with true by reflexivity.
      cbn [andb]. rewrite wrap_i64_small by lia. reflexivity.
  - destruct Hv as (Hz0 & Hzk). destruct (0 <? k) eqn:E.
    + replace (63 <=? k) with false by lia. rewrite (Z.abs_eq z) by lia. replace (2^63 <=? z * 2^k) with false by lia. reflexivity.
    + assert (k = 0) by lia. subst k. replace ((0 <? 0) && false) with false by reflexivity. unfold mscale. cbn [Z.leb Z.compare].
      rewrite Z.pow_0_r, Z.mul_1_r in *. unfold fits_u64. replace (0 <=? 1) with true by reflexivity. replace (1 <? 2^64) with true by reflexivity.
      cbn [andb]. rewrite wrap_u64_small by lia. reflexivity.
Qed.

(* utils.scale_raw with a non-negative shift that needs no Python integers is the plain product *)
Lemma mscale_raw_plain ex v k : 0 <= k < 63 ->
  match v with MI z => Z.abs z * 2^k < 2^63 | MU z => 0 <= z /\ z * 2^k < 2^63 | MF _ => True | MO _ => False end ->
  mscale_raw ex v k = mscale v k.
Proof.
  intros Hk Hv. unfold mscale_raw. replace (k <? 0) with false by lia. cbn [andb].
  destruct (0 <? k) eqn:Ep; [|reflexivity].
  assert (P: 0 < 2^k < 2^63) by (split; [apply pow2_pos; lia | apply pow2_lt; lia]). assert (P64: 2^63 < 2^64) by (apply pow2_lt; lia).
  unfold mscale. replace (0 <=? k) with true by lia.
  destruct v as [z|z|x|n]; [| |reflexivity|contradiction].
  - replace (63 <=? k) with false by lia. replace (2^63 <=? Z.abs z * 2^k) with false by lia. cbn [orb].
    unfold fits_i64. replace (- 2^63 <=? 2^k) with true by lia. replace (2^k <? 2^63) with true by lia. cbn [andb].
    rewrite wrap_i64_small by (rewrite Z.abs_mul, (Z.abs_eq (2^k)) by lia; lia). reflexivity.
  - destruct Hv as (Hz0 & Hzk). replace (63 <=? k) with false by lia. rewrite (Z.abs_eq z) by lia. replace (2^63 <=? z * 2^k) with false by lia. cbn [orb].
    unfold fits_u64. replace (0 <=? 2^k) with true by lia. replace (2^k <? 2^64) with true by lia. cbn [andb].
    rewrite wrap_u64_small by nia. reflexivity.
Qed.

Lemma raw_add_exact ex op fx fy cx cy : op <> OpMul -> wf_op fx -> wf_op fy ->
  in_range fx cx -> in_range fy cy ->
  let K := raw_kind op fx fy in let z := exact_int op fx fy cx cy in
  raw_elem ex op fx fy (nf (grow op fx fy)) cx cy = Ok (encode K z) /\ kind_ok K z.
Proof.
  intros Hop (Hwx & Hfx) (Hwy & Hfy) Hrx Hry. cbv zeta.
  unfold raw_kind. rewrite !grow_nf. set (nfr := Z.max (nf fx) (nf fy)).
  set (kx := nfr - nf fx). set (ky := nfr - nf fy).
  assert (Hkx: 0 <= kx) by (unfold kx, nfr; lia). assert (Hky: 0 <= ky) by (unfold ky, nfr; lia).
  assert (Ez: exact_int op fx fy cx cy = z_op op (cx * 2^kx) (cy * 2^ky)) by (destruct op; [reflexivity|reflexivity|congruence]).
  rewrite Ez.
  assert (Enb: (match op with OpMul => nw fx + nw fy | _ => add_bits fx fy end) = add_bits fx fy) by (destruct op; [reflexivity|reflexivity|congruence]).
  assert (Enf: (match op with OpMul => nf fx + nf fy | _ => nfr end) = nfr) by (destruct op; [reflexivity|reflexivity|congruence]).
  assert (Epc: (match op with OpMul => false | _ => precision_cast nfr end) = precision_cast nfr) by (destruct op; [reflexivity|reflexivity|congruence]).
  rewrite Enb, Enf, Epc.
  set (rc := raw_cast (storage fx) (storage fy) (add_bits fx fy)). set (pc := precision_cast nfr).
  assert (Eraw: raw_elem ex op fx fy nfr cx cy =
    bind (rescale ex pc (cast_if rc (load (storage fx) cx)) kx) (fun a =>
    bind (rescale ex pc (cast_if rc (load (storage fy) cy)) ky) (fun b =>
    Ok (match op with OpSub => msub a b | _ => mbin op a b end)))).
  { unfold raw_elem. destruct op; [reflexivity|reflexivity|congruence]. }
  rewrite Eraw. clear Eraw.
  destruct (rc || pc) eqn:Ecast.
  - (* Python integers *)
    rewrite (rescale_obj ex pc rc _ kx cx Hkx (load_num _ _) Ecast), (rescale_obj ex pc rc _ ky cy Hky (load_num _ _) Ecast).
    cbn [bind]. split; [|exact I]. destruct op; [reflexivity|reflexivity|congruence].
  - apply orb_false_iff in Ecast. destruct Ecast as (Erc & Epc'). rewrite Erc, Epc'.
    unfold rc, raw_cast in Erc. apply orb_false_iff in Erc. destruct Erc as (Enb64 & Emixed).
    unfold pc, precision_cast in Epc'.
    assert (Hnb: add_bits fx fy < 64) by lia.
    assert (Hax: nw fx + kx <= add_bits fx fy - 2) by (unfold add_bits, kx, nfr; lia).
    assert (Hay: nw fy + ky <= add_bits fx fy - 2) by (unfold add_bits, ky, nfr; lia).
    assert (Hsx: storage fx = if sg fx then SI64 else SU64) by (apply storage_small; lia).
    assert (Hsy: storage fy = if sg fy then SI64 else SU64) by (apply storage_small; lia).
    destruct (scaled_bound fx cx kx Hwx Hrx Hkx) as (Bx & Ux).
    destruct (scaled_bound fy cy ky Hwy Hry Hky) as (By & Uy).
    destruct (code_mag fx cx Hwx Hrx) as (_ & UUx). destruct (code_mag fy cy Hwy Hry) as (_ & UUy).
    assert (P61: 2^61 < 2^62) by (apply pow2_lt; lia). assert (P62: 2^62 < 2^63) by (apply pow2_lt; lia). assert (P63: 2^63 < 2^64) by (apply pow2_lt; lia).
    assert (Pkx: 0 < 2^kx) by (apply pow2_pos; lia). assert (Pky: 0 < 2^ky) by (apply pow2_pos; lia).
    rewrite Z.abs_mul, (Z.abs_eq (2^kx)) in Bx by lia. rewrite Z.abs_mul, (Z.abs_eq (2^ky)) in By by lia.
    cbn [cast_if]. rewrite Hsx, Hsy in *.
    destruct (sg fx) eqn:Esx, (sg fy) eqn:Esy; cbn [load sdt_eqb negb andb] in *.
    + (* int64, int64 *)
      assert (Ba: Z.abs cx * 2^kx <= 2^61) by (eapply Z.le_trans; [exact Bx|apply pow2_le; lia]).
      assert (Bb: Z.abs cy * 2^ky <= 2^61) by (eapply Z.le_trans; [exact By|apply pow2_le; lia]).
      rewrite (rescale_machine ex (MI cx) kx) by (cbv beta iota; lia). rewrite (rescale_machine ex (MI cy) ky) by (cbv beta iota; lia).
      cbn [bind]. assert (Ba': Z.abs (cx * 2^kx) <= 2^61) by (rewrite Z.abs_mul, (Z.abs_eq (2^kx)) by lia; exact Ba).
      assert (Bb': Z.abs (cy * 2^ky) <= 2^61) by (rewrite Z.abs_mul, (Z.abs_eq (2^ky)) by lia; exact Bb).
      assert (Bz: Z.abs (z_op op (cx * 2^kx) (cy * 2^ky)) < 2^63) by (destruct op; cbn [z_op]; [lia|lia|congruence]).
      split; [|exact Bz]. destruct op; [| |congruence]; cbn [msub mbin encode]; rewrite wrap_i64_small by exact Bz; reflexivity.
    + (* int64, uint64: float64 promotion, allowed only up to 53 bits *)
      assert (Hnb53: add_bits fx fy <= 53) by lia.
      assert (Ba: Z.abs cx * 2^kx <= 2^50) by (eapply Z.le_trans; [exact Bx|apply pow2_le; lia]).
      assert (Bb: Z.abs cy * 2^ky <= 2^51) by (eapply Z.le_trans; [exact By|apply pow2_le; lia]).
      assert (2^50 < 2^51) by (apply pow2_lt; lia). assert (2^51 < 2^52) by (apply pow2_lt; lia). assert (2^52 < 2^53) by (apply pow2_lt; lia).
      specialize (UUy eq_refl).
      rewrite (rescale_machine ex (MI cx) kx) by (cbv beta iota; lia). rewrite (rescale_machine ex (MU cy) ky) by (cbv beta iota; rewrite (Z.abs_eq cy) in Bb by lia; lia).
      cbn [bind]. assert (Ba': Z.abs (cx * 2^kx) <= 2^50) by (rewrite Z.abs_mul, (Z.abs_eq (2^kx)) by lia; exact Ba).
      assert (Bb': Z.abs (cy * 2^ky) <= 2^51) by (rewrite Z.abs_mul, (Z.abs_eq (2^ky)) by lia; exact Bb).
      assert (Bz: Z.abs (z_op op (cx * 2^kx) (cy * 2^ky)) < 2^53) by (destruct op; cbn [z_op]; [lia|lia|congruence]).
      split; [|exact Bz]. destruct op; [| |congruence]; cbn [msub mbin as_num num_to_f64 encode];
        rewrite !f64_of_Z_exact by lia; rewrite f64_addsub_int by (try discriminate; exact Bz); reflexivity.
    + (* uint64, int64 *)
      assert (Hnb53: add_bits fx fy <= 53) by lia.
      assert (Ba: Z.abs cx * 2^kx <= 2^51) by (eapply Z.le_trans; [exact Bx|apply pow2_le; lia]).
      assert (Bb: Z.abs cy * 2^ky <= 2^50) by (eapply Z.le_trans; [exact By|apply pow2_le; lia]).
      assert (2^50 < 2^51) by (apply pow2_lt; lia). assert (2^51 < 2^52) by (apply pow2_lt; lia). assert (2^52 < 2^53) by (apply pow2_lt; lia).
      specialize (UUx eq_refl).
      rewrite (rescale_machine ex (MU cx) kx) by (cbv beta iota; rewrite (Z.abs_eq cx) in Ba by lia; lia). rewrite (rescale_machine ex (MI cy) ky) by (cbv beta iota; lia).
      cbn [bind]. assert (Ba': Z.abs (cx * 2^kx) <= 2^51) by (rewrite Z.abs_mul, (Z.abs_eq (2^kx)) by lia; exact Ba).
      assert (Bb': Z.abs (cy * 2^ky) <= 2^50) by (rewrite Z.abs_mul, (Z.abs_eq (2^ky)) by lia; exact Bb).
      assert (Bz: Z.abs (z_op op (cx * 2^kx) (cy * 2^ky)) < 2^53) by (destruct op; cbn [z_op]; [lia|lia|congruence]).
      split; [|exact Bz]. destruct op; [| |congruence]; cbn [msub mbin as_num num_to_f64 encode];
        rewrite !f64_of_Z_exact by lia; rewrite f64_addsub_int by (try discriminate; exact Bz); reflexivity.
    + (* uint64, uint64: sums stay in uint64, differences are computed in int64 *)
      assert (Ba: Z.abs cx * 2^kx <= 2^61) by (eapply Z.le_trans; [exact Bx|apply pow2_le; lia]).
      assert (Bb: Z.abs cy * 2^ky <= 2^61) by (eapply Z.le_trans; [exact By|apply pow2_le; lia]).
      specialize (UUx eq_refl). specialize (UUy eq_refl). rewrite (Z.abs_eq cx) in Ba by lia. rewrite (Z.abs_eq cy) in Bb by lia.
      rewrite (rescale_machine ex (MU cx) kx) by (cbv beta iota; lia). rewrite (rescale_machine ex (MU cy) ky) by (cbv beta iota; lia).
      cbn [bind]. assert (0 <= cx * 2^kx) by nia. assert (0 <= cy * 2^ky) by nia.
      destruct op; [| |congruence]; cbn [msub mbin z_op encode kind_ok].
      * split; [reflexivity|lia].
      * rewrite !(wrap_i64_small (_ * _)) by lia. rewrite wrap_i64_small by lia. split; [reflexivity|lia].
Qed.

Lemma rescale_zero ex pc p : rescale ex pc p 0 = mscale (cast_if pc p) 0.
Proof. unfold rescale, mscale_raw. cbn [Z.ltb Z.compare andb]. destruct pc; reflexivity. Qed.

Lemma raw_mul_exact ex fx fy cx cy : wf_op fx -> wf_op fy -> in_range fx cx -> in_range fy cy ->
  (nw fx + nw fy < 64 -> nf fx + nf fy < 64) ->
  let K := raw_kind OpMul fx fy in let z := exact_int OpMul fx fy cx cy in
  raw_elem ex OpMul fx fy (nf (grow OpMul fx fy)) cx cy = Ok (encode K z) /\ kind_ok K z.
Proof.
  intros (Hwx & Hfx) (Hwy & Hfy) Hrx Hry Hpc. cbv zeta.
  unfold raw_kind. rewrite !grow_nf. cbn [exact_int]. rewrite orb_false_r.
  unfold raw_elem. replace (nf fx + nf fy - nf fx - nf fy) with 0 by lia. rewrite rescale_zero. unfold raw_prod.
  destruct (scaled_bound fx cx 0 Hwx Hrx ltac:(lia)) as (Bx & Ux).
  destruct (scaled_bound fy cy 0 Hwy Hry ltac:(lia)) as (By & Uy).
  rewrite Z.pow_0_r, Z.mul_1_r in Bx, By, Ux, Uy. rewrite Z.add_0_r in Bx, By.
  destruct (code_mag fx cx Hwx Hrx) as (Sx & UUx). destruct (code_mag fy cy Hwy Hry) as (Sy & UUy).
  destruct (raw_cast (storage fx) (storage fy) (nw fx + nw fy)) eqn:Erc.
  - cbn [cast_if]. unfold to_obj.
    assert (Hl: forall d c, as_num (load d c) = NI c) by (intros [] c; reflexivity).
    rewrite !Hl. cbn [mbin as_num num_op z_op].
    assert (Hc: forall b, cast_if b (MO (NI (cx * cy))) = MO (NI (cx * cy))) by (intros []; reflexivity).
    rewrite Hc. unfold mscale. cbn [Z.leb Z.compare num_mul bind]. rewrite Z.pow_0_r, Z.mul_1_r. split; [reflexivity|exact I].
  - unfold raw_cast in Erc. apply orb_false_iff in Erc. destruct Erc as (Enb64 & Emixed).
    assert (Hnb: nw fx + nw fy < 64) by lia. specialize (Hpc Hnb).
    unfold precision_cast. replace (64 <=? nf fx + nf fy) with false by lia.
    assert (Hsx: storage fx = if sg fx then SI64 else SU64) by (apply storage_small; lia).
    assert (Hsy: storage fy = if sg fy then SI64 else SU64) by (apply storage_small; lia).
    rewrite Hsx, Hsy in *. cbn [cast_if].
    assert (P62: 2^62 < 2^63) by (apply pow2_lt; lia). assert (P63: 2^63 < 2^64) by (apply pow2_lt; lia).
    assert (Px: 0 < 2^(nw fx - 1)) by (apply pow2_pos; lia). assert (Py: 0 < 2^(nw fy - 1)) by (apply pow2_pos; lia).
    destruct (sg fx) eqn:Esx, (sg fy) eqn:Esy; cbn [load sdt_eqb negb andb mbin z_op as_num num_to_f64] in *.
    + (* int64 * int64 *)
      assert (Bz: Z.abs (cx * cy) <= 2^(nw fx + nw fy - 2)).
      { rewrite Z.abs_mul. replace (nw fx + nw fy - 2) with ((nw fx - 1) + (nw fy - 1)) by lia. rewrite pow2_split by lia. nia. }
      assert (2^(nw fx + nw fy - 2) <= 2^61) by (apply pow2_le; lia). assert (2^61 < 2^62) by (apply pow2_lt; lia).
      rewrite wrap_i64_small by lia. unfold mscale. cbn [Z.leb Z.compare]. rewrite Z.pow_0_r, Z.mul_1_r.
      unfold fits_i64. cbn [Z.leb Z.ltb Z.compare Z.opp Z.pow Z.pow_pos Pos.iter Z.mul Pos.mul andb].
      replace (- 2^63 <=? 1) with true by reflexivity. replace (1 <? 2^63) with true by reflexivity. cbn [andb].
      rewrite wrap_i64_small by lia. split; [reflexivity|]. cbn [kind_ok]. lia.
    + (* int64 * uint64 -> float64, only up to 53 bits *)
      assert (Hnb53: nw fx + nw fy <= 53) by lia. specialize (Uy eq_refl). specialize (UUy eq_refl). specialize (Sx eq_refl).
      assert (Bz: Z.abs (cx * cy) < 2^(nw fx + nw fy - 1)).
      { rewrite Z.abs_mul. replace (nw fx + nw fy - 1) with ((nw fx - 1) + nw fy) by lia. rewrite pow2_split by lia.
        assert (0 < 2^(nw fy)) by (apply pow2_pos; lia). rewrite (Z.abs_eq cy) by lia. nia. }
      assert (2^(nw fx + nw fy - 1) <= 2^52) by (apply pow2_le; lia). assert (2^52 < 2^53) by (apply pow2_lt; lia).
      assert (2^(nw fx - 1) <= 2^52) by (apply pow2_le; lia). assert (2^(nw fy) <= 2^52) by (apply pow2_le; lia).
      rewrite !f64_of_Z_exact by lia. cbn [f64_op]. rewrite f64_mul_int by lia.
      unfold mscale. cbn [Z.leb Z.compare f64_mul_pow2]. replace (0 + 0) with 0 by lia.
      rewrite rnd64_exact; [split; [reflexivity|cbn [kind_ok]; lia]|].
      pose proof (bitlen_le (cx * cy) 53 ltac:(lia) ltac:(lia)). pose proof (bitlen_nonneg (cx * cy)). unfold fits53. lia.
    + (* uint64 * int64 *)
      assert (Hnb53: nw fx + nw fy <= 53) by lia. specialize (Ux eq_refl). specialize (UUx eq_refl). specialize (Sy eq_refl).
      assert (Bz: Z.abs (cx * cy) < 2^(nw fx + nw fy - 1)).
      { rewrite Z.abs_mul. replace (nw fx + nw fy - 1) with (nw fx + (nw fy - 1)) by lia. rewrite pow2_split by lia.
        assert (0 < 2^(nw fx)) by (apply pow2_pos; lia). rewrite (Z.abs_eq cx) by lia. nia. }
      assert (2^(nw fx + nw fy - 1) <= 2^52) by (apply pow2_le; lia). assert (2^52 < 2^53) by (apply pow2_lt; lia).
      assert (2^(nw fy - 1) <= 2^52) by (apply pow2_le; lia). assert (2^(nw fx) <= 2^52) by (apply pow2_le; lia).
      rewrite !f64_of_Z_exact by lia. cbn [f64_op]. rewrite f64_mul_int by lia.
      unfold mscale. cbn [Z.leb Z.compare f64_mul_pow2]. replace (0 + 0) with 0 by lia.
      rewrite rnd64_exact; [split; [reflexivity|cbn [kind_ok]; lia]|].
      pose proof (bitlen_le (cx * cy) 53 ltac:(lia) ltac:(lia)). pose proof (bitlen_nonneg (cx * cy)). unfold fits53. lia.
    + (* uint64 * uint64 *)
      specialize (UUx eq_refl). specialize (UUy eq_refl).
      assert (Bz: 0 <= cx * cy < 2^(nw fx + nw fy)) by (rewrite pow2_split by lia; nia).
      assert (2^(nw fx + nw fy) <= 2^63) by (apply pow2_le; lia).
      rewrite wrap_u64_small by lia. unfold mscale. cbn [Z.leb Z.compare]. rewrite Z.pow_0_r, Z.mul_1_r.
      unfold fits_u64. replace (0 <=? 1) with true by reflexivity. replace (1 <? 2^64) with true by reflexivity. cbn [andb].
      split; [reflexivity|]. cbn [kind_ok]. lia.
Qed.

(* ---------- the optimal format holds every exact result (bound lemma, all formats) ---------- *)
Lemma scaled_range f c k : 1 <= nw f -> in_range f c -> 0 <= k ->
  let B := 2^(nw f + k - (if sg f then 1 else 0)) in
  (if sg f then - B else 0) <= c * 2^k <= B - 1.
Proof.
  intros Hw Hr Hk. cbv zeta. unfold in_range, cmin, cmax in Hr.
  assert (Hp: 0 < 2^k) by (apply pow2_pos; lia).
  destruct (sg f).
  - replace (nw f + k - 1) with ((nw f - 1) + k) by lia. rewrite pow2_split by lia.
    assert (0 < 2^(nw f - 1)) by (apply pow2_pos; lia). nia.
  - replace (nw f + k - 0) with (nw f + k) by lia. rewrite pow2_split by lia.
    assert (0 < 2^(nw f)) by (apply pow2_pos; lia). nia.
Qed.

Lemma n_int_width f : nw f - (if sg f then 1 else 0) = n_int f + nf f.
Proof. unfold n_int, sbit. lia. Qed.

Lemma addsub_in_grow op fx fy cx cy : op <> OpMul -> 1 <= nw fx -> 1 <= nw fy ->
  in_range fx cx -> in_range fy cy ->
  (op = OpSub -> sg fx || sg fy = true) ->
  in_range (grow op fx fy) (exact_int op fx fy cx cy).
Proof.
  intros Hop Hwx Hwy Hrx Hry Hsub.
  set (nfr := Z.max (nf fx) (nf fy)). set (kx := nfr - nf fx). set (ky := nfr - nf fy).
  assert (Hkx: 0 <= kx) by (unfold kx, nfr; lia). assert (Hky: 0 <= ky) by (unfold ky, nfr; lia).
  pose proof (scaled_range fx cx kx Hwx Hrx Hkx) as Rx. pose proof (scaled_range fy cy ky Hwy Hry Hky) as Ry. cbv zeta in Rx, Ry.
  set (mi := Z.max (n_int fx) (n_int fy)).
  assert (Ex: nw fx + kx - (if sg fx then 1 else 0) = n_int fx + nfr) by (pose proof (n_int_width fx); unfold kx; lia).
  assert (Ey: nw fy + ky - (if sg fy then 1 else 0) = n_int fy + nfr) by (pose proof (n_int_width fy); unfold ky; lia).
  rewrite Ex in Rx. rewrite Ey in Ry.
  assert (Hnx: 0 <= n_int fx + nfr) by (pose proof (n_int_width fx); destruct (sg fx); unfold nfr; lia).
  assert (Hny: 0 <= n_int fy + nfr) by (pose proof (n_int_width fy); destruct (sg fy); unfold nfr; lia).
  assert (Bx: 2^(n_int fx + nfr) <= 2^(mi + nfr)) by (apply pow2_le; unfold mi; lia).
  assert (By: 2^(n_int fy + nfr) <= 2^(mi + nfr)) by (apply pow2_le; unfold mi; lia).
  assert (HB: 0 < 2^(mi + nfr)) by (apply pow2_pos; unfold mi; lia).
  assert (Ez: exact_int op fx fy cx cy = z_op op (cx * 2^kx) (cy * 2^ky)) by (destruct op; [reflexivity|reflexivity|congruence]).
  rewrite Ez.
  assert (Eg: grow op fx fy = mkfmt (sg fx || sg fy) (mi + 1) nfr) by (destruct op; [reflexivity|reflexivity|congruence]).
  rewrite Eg. unfold in_range, cmin, cmax, mkfmt. cbn [sg nw nf].
  set (B := 2^(mi + nfr)) in *. set (Bxx := 2^(n_int fx + nfr)) in *. set (Byy := 2^(n_int fy + nfr)) in *.
  set (X := cx * 2^kx) in *. set (Y := cy * 2^ky) in *.
  destruct (sg fx) eqn:Esx, (sg fy) eqn:Esy; cbn [orb] in *.
  - replace (1 + (mi + 1) + nfr - 1) with ((mi + nfr) + 1) by lia. rewrite Z.pow_add_r by (unfold mi; lia). fold B. rewrite Z.pow_1_r.
    destruct op; cbn [z_op]; [lia|lia|congruence].
  - replace (1 + (mi + 1) + nfr - 1) with ((mi + nfr) + 1) by lia. rewrite Z.pow_add_r by (unfold mi; lia). fold B. rewrite Z.pow_1_r.
    destruct op; cbn [z_op]; [lia|lia|congruence].
  - replace (1 + (mi + 1) + nfr - 1) with ((mi + nfr) + 1) by lia. rewrite Z.pow_add_r by (unfold mi; lia). fold B. rewrite Z.pow_1_r.
    destruct op; cbn [z_op]; [lia|lia|congruence].
  - replace (0 + (mi + 1) + nfr) with ((mi + nfr) + 1) by lia. rewrite Z.pow_add_r by (unfold mi; lia). fold B. rewrite Z.pow_1_r.
    destruct op; cbn [z_op]; [lia| specialize (Hsub eq_refl); discriminate |congruence].
Qed.

Lemma mul_in_grow fx fy cx cy : 1 <= nw fx -> 1 <= nw fy -> in_range fx cx -> in_range fy cy ->
  in_range (grow OpMul fx fy) (exact_int OpMul fx fy cx cy).
Proof.
  intros Hwx Hwy Hrx Hry. cbn [exact_int grow]. unfold in_range, cmin, cmax in *. cbn [sg nw nf].
  assert (Px: 0 < 2^(nw fx - 1)) by (apply pow2_pos; lia). assert (Py: 0 < 2^(nw fy - 1)) by (apply pow2_pos; lia).
  assert (Ex: 2^(nw fx) = 2 * 2^(nw fx - 1)) by (apply pow2_double; lia).
  assert (Ey: 2^(nw fy) = 2 * 2^(nw fy - 1)) by (apply pow2_double; lia).
  assert (E1: 2^(nw fx + nw fy - 1) = 2 * (2^(nw fx - 1) * 2^(nw fy - 1))).
  { replace (nw fx + nw fy - 1) with (1 + ((nw fx - 1) + (nw fy - 1))) by lia. rewrite Z.pow_add_r, Z.pow_1_r by lia. rewrite pow2_split by lia. reflexivity. }
  assert (E2: 2^(nw fx + nw fy) = 4 * (2^(nw fx - 1) * 2^(nw fy - 1))).
  { replace (nw fx + nw fy) with (2 + ((nw fx - 1) + (nw fy - 1))) by lia. rewrite Z.pow_add_r by lia. rewrite pow2_split by lia. reflexivity. }
  set (P := 2^(nw fx - 1)) in *. set (Q := 2^(nw fy - 1)) in *.
  destruct (sg fx), (sg fy); cbn [orb]; rewrite ?E1, ?E2, ?Ex, ?Ey in *; nia.
Qed.

(* the exact integer denotes the exact dyadic result in the optimal format *)
Lemma exact_int_spec op fx fy cx cy :
  dy_eqb (val_of_code (grow op fx fy) (exact_int op fx fy cx cy)) (exact_codes op fx cx fy cy) = true.
Proof.
  unfold exact_codes, val_of_code, dy_eqb, dy_align. rewrite grow_nf.
  destruct op; cbn [exact_op exact_int dy_add dy_sub dy_mul dy_align dm de].
  - set (nfr := Z.max (nf fx) (nf fy)).
    replace (Z.min (- nf fx) (- nf fy)) with (- nfr) by (unfold nfr; lia).
    rewrite Z.min_id, Z.sub_diag, Z.pow_0_r, !Z.mul_1_r.
    replace (- nf fx - - nfr) with (nfr - nf fx) by lia. replace (- nf fy - - nfr) with (nfr - nf fy) by lia. lia.
  - set (nfr := Z.max (nf fx) (nf fy)).
    replace (Z.min (- nf fx) (- nf fy)) with (- nfr) by (unfold nfr; lia).
    rewrite Z.min_id, Z.sub_diag, Z.pow_0_r, !Z.mul_1_r.
    replace (- nf fx - - nfr) with (nfr - nf fx) by lia. replace (- nf fy - - nfr) with (nfr - nf fy) by lia. lia.
  - replace (- nf fx + - nf fy) with (- (nf fx + nf fy)) by lia.
    rewrite Z.min_id, Z.sub_diag, Z.pow_0_r, !Z.mul_1_r. lia.
Qed.

(* ---------- arrays ---------- *)
Definition arr_of_kind (K : rkind) (zs : list Z) : arr * vdt :=
  match K with
  | KI => (AI64 zs, VInt) | KU => (AU64 (map wrap_u64 zs), VInt)
  | KF => (AF64 (map (fun z => Fin z 0) zs), VFloat) | KO => (AObj (map NI zs), VInt) end.

Lemma all_MI_enc zs : all_MI (map (encode KI) zs) = Some zs.
Proof. induction zs as [|z zs IH]; [reflexivity|]. unfold all_MI in *. cbn [map fold_right encode]. rewrite IH. reflexivity. Qed.
Lemma all_MU_enc zs : all_MU (map (encode KU) zs) = Some (map wrap_u64 zs).
Proof. induction zs as [|z zs IH]; [reflexivity|]. unfold all_MU in *. cbn [map fold_right encode]. rewrite IH. reflexivity. Qed.
Lemma all_MF_enc zs : all_MF (map (encode KF) zs) = Some (map (fun z => Fin z 0) zs).
Proof. induction zs as [|z zs IH]; [reflexivity|]. unfold all_MF in *. cbn [map fold_right encode]. rewrite IH. reflexivity. Qed.
Lemma all_MO_enc zs : all_MO (map (encode KO) zs) = Some (map NI zs).
Proof. induction zs as [|z zs IH]; [reflexivity|]. unfold all_MO in *. cbn [map fold_right encode]. rewrite IH. reflexivity. Qed.

Lemma arr_of_encode K zs : zs <> [] -> arr_of (map (encode K) zs) = Ok (arr_of_kind K zs).
Proof.
  intros Hne. destruct zs as [|z zs]; [congruence|]. destruct K; unfold arr_of, arr_of_kind.
  - rewrite all_MI_enc. reflexivity.
  - rewrite all_MU_enc. reflexivity.
  - rewrite all_MF_enc. reflexivity.
  - rewrite all_MO_enc. reflexivity.
Qed.

Lemma map2M_pairs {A B C} (k : A -> B -> outcome C) (g : A * B -> C) l1 l2 :
  length l1 = length l2 -> (forall p, In p (combine l1 l2) -> k (fst p) (snd p) = Ok (g p)) ->
  map2M k l1 l2 = Ok (map g (combine l1 l2)).
Proof.
  revert l2. induction l1 as [|a l1 IH]; intros [|b l2] Hlen H; cbn [length] in Hlen; try discriminate; [reflexivity|].
  cbn [map2M combine map]. pose proof (H (a, b) (or_introl eq_refl)) as Hab. cbn [fst snd] in Hab. rewrite Hab. cbn [bind].
  rewrite IH; [reflexivity|lia|]. intros p Hp. apply H. right. exact Hp.
Qed.

Definition mul_pc_ok (op : aop) (fx fy : fmt) : Prop :=
  op = OpMul -> nw fx + nw fy < 64 -> nf fx + nf fy < 64.

Lemma raw_exact op fx fy cx cy : wf_op fx -> wf_op fy -> mul_pc_ok op fx fy ->
  in_range fx cx -> in_range fy cy ->
  forall ex, raw_elem ex op fx fy (nf (grow op fx fy)) cx cy = Ok (encode (raw_kind op fx fy) (exact_int op fx fy cx cy))
  /\ kind_ok (raw_kind op fx fy) (exact_int op fx fy cx cy).
Proof.
  intros Hx Hy Hpc Hrx Hry ex. destruct op.
  - apply raw_add_exact; [discriminate|assumption..].
  - apply raw_add_exact; [discriminate|assumption..].
  - apply raw_mul_exact; try assumption. apply Hpc. reflexivity.
Qed.

(* widths implied by the dtype the raw function stays in *)
Lemma kind_width op fx fy : wf_op fx -> wf_op fy ->
  (raw_kind op fx fy = KU -> nw (grow op fx fy) < 64) /\ (raw_kind op fx fy = KF -> nw (grow op fx fy) <= 53) /\ 1 <= nw (grow op fx fy).
Proof.
  intros (Hwx & Hfx) (Hwy & Hfy). pose proof (n_int_width fx) as Nx. pose proof (n_int_width fy) as Ny.
  unfold raw_kind, raw_cast, precision_cast. rewrite grow_nf.
  set (nb := match op with OpMul => nw fx + nw fy | _ => add_bits fx fy end).
  assert (Hg: nw (grow op fx fy) = match op with OpMul => nw fx + nw fy
            | _ => (if sg fx || sg fy then 1 else 0) + (Z.max (n_int fx) (n_int fy) + 1) + Z.max (nf fx) (nf fy) end) by (destruct op; reflexivity).
  rewrite Hg.
  assert (Hnb: match op with OpMul => nb = nw fx + nw fy
              | _ => nb = Z.max (nw fx + Z.max (nf fx) (nf fy) - nf fx) (nw fy + Z.max (nf fx) (nf fy) - nf fy) + 2 end) by (destruct op; reflexivity).
  clearbody nb.
  unfold storage.
  destruct (64 <=? nw fx) eqn:E1, (64 <=? nw fy) eqn:E2, (sg fx) eqn:Sx, (sg fy) eqn:Sy, op;
    cbn [sdt_eqb negb andb orb] in *;
    repeat match goal with |- context [if ?b then _ else _] => destruct b eqn:? end;
    repeat split; try (intros; discriminate); try lia.
Qed.

Theorem arith_optimal_model op fx fy cxs cys r o :
  wf_op fx -> wf_op fy -> mul_pc_ok op fx fy -> length cxs = length cys -> cxs <> [] ->
  Forall (in_range fx) cxs -> Forall (in_range fy) cys ->
  let zs := map (fun p => exact_int op fx fy (fst p) (snd p)) (combine cxs cys) in
  exists w, arith_raw op fx cxs fy cys (grow op fx fy) r o = Ok w /\ int_wres (grow op fx fy) o zs w.
Proof.
  intros Hx Hy Hpc Hlen Hne Hrx Hry. cbv zeta. unfold arith_raw.
  set (K := raw_kind op fx fy). set (g := fun p : Z * Z => exact_int op fx fy (fst p) (snd p)).
  assert (Hin: forall p, In p (combine cxs cys) -> in_range fx (fst p) /\ in_range fy (snd p)).
  { intros [a b] Hp. rewrite Forall_forall in Hrx, Hry. split; [apply Hrx; exact (in_combine_l _ _ _ _ Hp) | apply Hry; exact (in_combine_r _ _ _ _ Hp)]. }
  rewrite (map2M_pairs _ (fun p => encode K (g p))).
  2: exact Hlen.
  2: { intros p Hp. destruct (Hin p Hp) as (Ha & Hb). destruct (raw_exact op fx fy (fst p) (snd p) Hx Hy Hpc Ha Hb (arith_exact op fx cxs fy cys (nf (grow op fx fy)))) as (E & _). exact E. }
  cbn [bind]. rewrite <- (map_map g (encode K)).
  assert (Hzne: map g (combine cxs cys) <> []).
  { destruct cxs as [|a cxs]; [congruence|]. destruct cys as [|b cys]; [discriminate|]. cbn. discriminate. }
  rewrite arr_of_encode by exact Hzne. cbn [bind].
  assert (Hok: Forall (kind_ok K) (map g (combine cxs cys))).
  { rewrite Forall_map. apply Forall_forall. intros p Hp. destruct (Hin p Hp) as (Ha & Hb).
    destruct (raw_exact op fx fy (fst p) (snd p) Hx Hy Hpc Ha Hb false) as (_ & E). exact E. }
  destruct (kind_width op fx fy Hx Hy) as (WU & WF & W1).
  fold K in WU, WF. destruct K; cbn [arr_of_kind fst snd kind_ok] in *.
  - apply set_val_raw_i64; assumption.
  - apply set_val_raw_u64; [specialize (WU eq_refl); lia | assumption].
  - apply set_val_raw_f64; [specialize (WF eq_refl); lia | assumption].
  - apply set_val_raw_obj; assumption.
Qed.

Lemma map_fix {A} (f : A -> A) l : (forall x, In x l -> f x = x) -> map f l = l.
Proof. induction l as [|a l IH]; intros H; [reflexivity|]. cbn [map]. rewrite (H a (or_introl eq_refl)), IH; [reflexivity|]. intros x Hx. apply H. right. exact Hx. Qed.

(* exactness: everything except a difference of two unsigned operands *)
Theorem arith_optimal_exact op fx fy cxs cys r o :
  wf_op fx -> wf_op fy -> mul_pc_ok op fx fy -> length cxs = length cys -> cxs <> [] ->
  Forall (in_range fx) cxs -> Forall (in_range fy) cys ->
  (op = OpSub -> sg fx || sg fy = true) ->
  exists w, arith_raw op fx cxs fy cys (grow op fx fy) r o = Ok w /\
    w_codes w = map (fun p => exact_int op fx fy (fst p) (snd p)) (combine cxs cys) /\
    w_ovf w = false /\ w_unf w = false.
Proof.
  intros Hx Hy Hpc Hlen Hne Hrx Hry Hsub.
  destruct (arith_optimal_model op fx fy cxs cys r o Hx Hy Hpc Hlen Hne Hrx Hry) as (w & Hw & Hc & Ho & Hu).
  exists w. split; [exact Hw|].
  assert (Hin: Forall (in_range (grow op fx fy)) (map (fun p => exact_int op fx fy (fst p) (snd p)) (combine cxs cys))).
  { rewrite Forall_map. apply Forall_forall. intros [a b] Hp. cbn [fst snd]. rewrite Forall_forall in Hrx, Hry.
    pose proof (Hrx a (in_combine_l _ _ _ _ Hp)) as Ha. pose proof (Hry b (in_combine_r _ _ _ _ Hp)) as Hb.
    destruct Hx as (Hwx & _), Hy as (Hwy & _).
    destruct op; [apply addsub_in_grow; try assumption; discriminate | apply addsub_in_grow; try assumption; discriminate | apply mul_in_grow; assumption]. }
  destruct (kind_width op fx fy Hx Hy) as (_ & _ & W1).
  rewrite Hc, Ho, Hu. repeat split.
  - apply map_fix. intros z Hz. rewrite Forall_forall in Hin. apply overflow_id; [exact W1|]. apply Hin. exact Hz.
  - apply existsb_false. eapply Forall_impl; [|exact Hin]. intros z Hz. unfold in_range in Hz. lia.
  - apply existsb_false. eapply Forall_impl; [|exact Hin]. intros z Hz. unfold in_range in Hz. lia.
Qed.

(* ---------- storing a Python integer of any size (C19, second clause) ---------- *)
Definition pyint_arr (v : Z) : arr := if fits_i64 v then AI64 [v] else AObj [NI v].

Theorem store_pyint_exact f r o v : 1 <= nw f -> 0 <= nf f ->
  exists w, set_val_real f r o false (pyint_arr v) VInt = Ok w /\
    w_codes w = [overflow o f (v * 2^(nf f))] /\
    w_ovf w = (cmax f <? v * 2^(nf f)) /\ w_unf w = (v * 2^(nf f) <? cmin f).
Proof.
  intros Hw Hf. set (c := v * 2^(nf f)). assert (Hp: 0 < 2^(nf f)) by (apply pow2_pos; lia).
  assert (Hobj_elem: exists ia, elem_pipe f r o false true (NI v) =
            Ok {| e_code := overflow o f c; e_gt := cmax f <? c; e_lt := c <? cmin f; e_inacc := ia |}).
  { unfold elem_pipe. cbn [negb]. unfold scale_elem. replace (0 <=? nf f) with true by lia. cbn [bind round_elem]. fold c.
    assert (Ho: overflow_elem f o true (NI c) = Ok (overflow o f c)).
    { unfold overflow_elem, elem_gt, elem_lt.
      pose proof (range_width f Hw) as Hrw. assert (0 < 2^(nw f)) by (apply pow2_pos; lia).
      destruct o; cbn [overflow].
      - unfold sat. destruct (cmax f <? c) eqn:E1; [f_equal; lia|].
        destruct (c <? cmin f) eqn:E2; [f_equal; lia|]. cbn [elem_to_int num_int]. f_equal. lia.
      - rewrite orb_true_r. cbn [elem_to_int num_int bind]. f_equal. apply wrap_model_res. lia. }
    rewrite Ho. cbn [bind elem_gt elem_lt]. eexists. reflexivity. }
  destruct (obj_path f false (pyint_arr v) VInt) eqn:Hobj; rewrite (set_val_real_eq _ _ _ _ _ _ _ Hobj (exact_factor_nf _ _ _ Hf)).
  - assert (Hn: arr_nums (pyint_arr v) = [NI v]) by (unfold pyint_arr; destruct (fits_i64 v); reflexivity).
    rewrite Hn. cbn [bind mapM]. destruct Hobj_elem as (ia & He). rewrite He. cbn [bind map existsb e_code e_gt e_lt].
    eexists. split; [reflexivity|]. cbn [w_codes w_ovf w_unf]. rewrite !orb_false_r. auto.
  - (* int64 path: the scaled value fits *)
    unfold obj_path, conv_factor_int in Hobj. replace (0 <=? nf f) with true in Hobj by lia.
    apply orb_false_iff in Hobj. destruct Hobj as (Hobj & _). apply orb_false_iff in Hobj. destruct Hobj as (Hobj & _).
    apply orb_false_iff in Hobj. destruct Hobj as (Hobj & _).
    apply orb_false_iff in Hobj. destruct Hobj as (H1 & H2). apply orb_false_iff in H1. destruct H1 as (Hbig & Hnw).
    unfold pyint_arr in *. destruct (fits_i64 v) eqn:Efit.
    + cbn [arr_nums existsb] in *. apply orb_false_iff in H2. destruct H2 as (Hk & Hv). rewrite orb_false_r in Hv.
      cbn [astype_vd map bind mapM]. unfold elem_pipe. cbn [negb]. unfold scale_elem. replace (0 <=? nf f) with true by lia.
      assert (P63: 2^63 < 2^64) by (apply pow2_lt; lia).
      unfold fits_i64. replace (- 2^63 <=? 2^(nf f)) with true by lia. replace (2^(nf f) <? 2^63) with true by lia. cbn [andb bind round_elem].
      assert (Hc: Z.abs c < 2^63). { unfold c. rewrite Z.abs_mul, (Z.abs_eq (2^(nf f))) by lia. lia. }
      fold c. rewrite wrap_i64_small by exact Hc.
      rewrite overflow_elem_int_gen by lia. cbn [bind map existsb e_code e_gt e_lt elem_gt elem_lt].
      eexists. split; [reflexivity|]. cbn [w_codes w_ovf w_unf]. rewrite !orb_false_r. auto.
    + (* an integer outside int64 always takes the Python-integer path *)
      exfalso. cbn [arr_nums existsb] in *. apply orb_false_iff in H2. destruct H2 as (Hk & Hv). rewrite orb_false_r in Hv.
      unfold num_abs_int in Hv. cbn [num_int] in Hv. unfold fits_i64 in Efit. nia.
Qed.

(* ---------- nested expressions of any depth ---------- *)
Inductive expr := Leaf (f : fmt) (c : Z) | Node (op : aop) (a b : expr).
Fixpoint efmt (e : expr) : fmt :=
  match e with Leaf f _ => f | Node op a b => grow op (efmt a) (efmt b) end.
Fixpoint eint (e : expr) : Z :=
  match e with Leaf _ c => c | Node op a b => exact_int op (efmt a) (efmt b) (eint a) (eint b) end.
Fixpoint eval (r : rmode) (o : omode) (e : expr) : outcome (fmt * Z) :=
  match e with
  | Leaf f c => Ok (f, c)
  | Node op a b =>
      bind (eval r o a) (fun pa => bind (eval r o b) (fun pb =>
      bind (arith_raw op (fst pa) [snd pa] (fst pb) [snd pb] (grow op (fst pa) (fst pb)) r o) (fun w =>
      match w_codes w with [c] => Ok (grow op (fst pa) (fst pb), c) | _ => Unmodelled end)))
  end.
Fixpoint tree_ok (e : expr) : Prop :=
  match e with
  | Leaf f c => 1 <= nw f /\ nf f <= nw f /\ in_range f c
  | Node op a b => tree_ok a /\ tree_ok b /\ (op = OpSub -> sg (efmt a) || sg (efmt b) = true)
  end.

Lemma grow_wf op fx fy : 1 <= nw fx -> 1 <= nw fy -> nf fx <= nw fx -> nf fy <= nw fy ->
  1 <= nw (grow op fx fy) /\ nf (grow op fx fy) <= nw (grow op fx fy).
Proof.
  intros Hwx Hwy Hfx Hfy. pose proof (n_int_width fx). pose proof (n_int_width fy).
  destruct op; cbn [grow mkfmt nw nf]; destruct (sg fx), (sg fy); cbn [orb]; lia.
Qed.

Lemma tree_inv e : tree_ok e -> 1 <= nw (efmt e) /\ nf (efmt e) <= nw (efmt e) /\ in_range (efmt e) (eint e).
Proof.
  induction e as [f c|op a IHa b IHb]; cbn [tree_ok efmt eint]; [tauto|].
  intros (Ha & Hb & Hs). destruct (IHa Ha) as (A1 & A2 & A3). destruct (IHb Hb) as (B1 & B2 & B3).
  destruct (grow_wf op (efmt a) (efmt b) A1 B1 A2 B2) as (G1 & G2). split; [exact G1|]. split; [exact G2|].
  destruct op; [apply addsub_in_grow; try assumption; discriminate | apply addsub_in_grow; try assumption; discriminate | apply mul_in_grow; assumption].
Qed.

Theorem tree_exact r o e : tree_ok e -> eval r o e = Ok (efmt e, eint e).
Proof.
  induction e as [f c|op a IHa b IHb]; cbn [tree_ok eval efmt eint]; [reflexivity|].
  intros (Ha & Hb & Hs). rewrite (IHa Ha), (IHb Hb). cbn [bind fst snd].
  destruct (tree_inv a Ha) as (A1 & A2 & A3). destruct (tree_inv b Hb) as (B1 & B2 & B3).
  destruct (arith_optimal_exact op (efmt a) (efmt b) [eint a] [eint b] r o) as (w & Hw & Hc & _).
  - split; lia.
  - split; lia.
  - intros _ Hlt. lia.
  - reflexivity.
  - discriminate.
  - constructor; [exact A3|constructor].
  - constructor; [exact B3|constructor].
  - exact Hs.
  - rewrite Hw. cbn [bind]. rewrite Hc. reflexivity.
Qed.
