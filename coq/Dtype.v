(* Dtype.v — model of dtype strings (objects.py: _update_dtype / get_dtype 297-316, 777-800;
   _parseformatstr with the regexes _qfmt and _fxpfmt 318-352).  The two regular
   expressions are replaced by a hand-written matcher on the casefolded string. *)
From Coq Require Import ZArith List Bool String Ascii Decimal DecimalString DecimalZ DecimalN.
From FxpVerif Require Import Spec.
Import ListNotations.
Open Scope Z_scope.
Open Scope string_scope.

(* str(int) *)
Definition dec_of_Z (z : Z) : string := NilEmpty.string_of_int (Z.to_int z).

(* ---------- rendering ---------- *)
Definition render_fxp (f : fmt) (cx : bool) : string :=
  "fxp-" ++ (if sg f then "s" else "u") ++ dec_of_Z (nw f) ++ "/" ++ dec_of_Z (nf f) ++ (if cx then "-complex" else "").
Definition render_q (f : fmt) : string :=
  (if sg f then "Q" else "UQ") ++ dec_of_Z (nw f - nf f) ++ "." ++ dec_of_Z (nf f).
Inductive notation := NFxp | NQ.
(* get_dtype(notation): the notation asked for; None = the configured default *)
Definition get_dtype (asked : option notation) (configured : notation) (f : fmt) (cx : bool) : string :=
  match (match asked with Some n => n | None => configured end) with
  | NQ => render_q f
  | NFxp => render_fxp f cx end.

(* ---------- parsing ---------- *)
Definition is_digit (a : ascii) : bool := let n := N_of_ascii a in (N.leb 48 n) && (N.leb n 57).
Fixpoint span_digits (s : string) : string * string :=
  match s with
  | EmptyString => (EmptyString, EmptyString)
  | String a t => if is_digit a then let '(d, r) := span_digits t in (String a d, r) else (EmptyString, s)
  end.
(* \d+ : a non-empty run of digits *)
Definition take_nat (s : string) : option (Z * string) :=
  let '(d, r) := span_digits s in
  match d with
  | EmptyString => None
  | _ => match NilEmpty.uint_of_string d with Some u => Some (Z.of_uint u, r) | None => None end
  end.
(* [+-]?\d+ *)
Definition take_int (s : string) : option (Z * string) :=
  match s with
  | String "-" t => match take_nat t with Some (z, r) => Some (- z, r) | None => None end
  | String "+" t => take_nat t
  | _ => take_nat s
  end.
Fixpoint strip_prefix (p s : string) : option string :=
  match p with
  | EmptyString => Some s
  | String a p' => match s with
                   | String b s' => if Ascii.eqb a b then strip_prefix p' s' else None
                   | EmptyString => None end
  end.
Definition has_prefix (p s : string) : bool := match strip_prefix p s with Some _ => true | None => false end.

(* the Q/S regex (s|u|q|uq|qu)(\d+)(\.[+-]?\d+)? tried at the start of the string, with the
   alternation order and backtracking of re.match *)
Definition q_body (signed : bool) (t : string) : option (bool * Z * Z) :=
  match take_nat t with
  | None => None
  | Some (m, r) =>
      match r with
      | String "." r' => match take_int r' with
                         | Some (n, _) => Some (signed, m + n, n)
                         | None => Some (signed, m, 0) end      (* optional group absent *)
      | _ => Some (signed, m, 0)
      end
  end.
Definition try_q (pre : string) (signed : bool) (s : string) : option (bool * Z * Z) :=
  match strip_prefix pre s with None => None | Some t => q_body signed t end.
Definition parse_q (s : string) : option (bool * Z * Z) :=
  match try_q "s" true s with Some x => Some x | None =>
  match try_q "u" false s with Some x => Some x | None =>
  match try_q "q" true s with Some x => Some x | None =>
  match try_q "uq" false s with Some x => Some x | None => try_q "qu" false s end end end end.
(* fxp-(s|u)(\d+)/([+-]?\d+)(-complex)? *)
Definition parse_fxp (s : string) : option (bool * Z * Z * bool) :=
  match strip_prefix "fxp-" s with
  | None => None
  | Some t =>
      match t with
      | String c t' =>
          if (Ascii.eqb c "s" || Ascii.eqb c "u")%bool then
            match take_nat t' with
            | Some (n, String "/" r) =>
                match take_int r with
                | Some (fr, r2) => Some (Ascii.eqb c "s", n, fr, has_prefix "-complex" r2)
                | None => None end
            | _ => None end
          else None
      | _ => None end
  end.
Definition lower_ascii (a : ascii) : ascii :=
  let n := N_of_ascii a in if (N.leb 65 n) && (N.leb n 90) then ascii_of_N (n + 32) else a.
Fixpoint casefold (s : string) : string :=
  match s with EmptyString => EmptyString | String a t => String (lower_ascii a) (casefold t) end.
(* _parseformatstr: (signed, n_word, n_frac, complex) or ValueError *)
Definition parse_dtype (s : string) : option (bool * Z * Z * bool) :=
  let s := casefold s in
  match parse_q s with
  | Some (sg_, n, fr) => Some (sg_, n, fr, false)
  | None => parse_fxp s
  end.

(* wire conversions *)
Definition codes_of_string (s : string) : list Z := map (fun a => Z.of_N (N_of_ascii a)) (list_ascii_of_string s).
Definition string_of_codes (l : list Z) : string := string_of_list_ascii (map (fun z => ascii_of_N (Z.to_N z)) l).
