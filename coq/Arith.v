(* Arith.v — code-shaped model of fxpmath's two-operand arithmetic (functions.py:
   _get_sizing 47-86, _function_over_two_vars 138-188, add/sub/mul 313-375 with the
   _raw_cast guard) over an explicit model of the NumPy dtypes the raw codes flow through. *)
From Coq Require Import ZArith List Bool.
From FxpVerif Require Import Spec SpecArith NP Store.
Import ListNotations.
Open Scope Z_scope.

(* ---------- storage dtype of x.val and machine values ---------- *)
Inductive sdt := SI64 | SU64 | SObj.
Definition storage (f : fmt) : sdt := if 64 <=? nw f then SObj else if sg f then SI64 else SU64.
Definition sdt_eqb (a b : sdt) : bool :=
  match a, b with SI64, SI64 | SU64, SU64 | SObj, SObj => true | _, _ => false end.

(* an element of an int64 / uint64 / float64 / object array *)
Inductive mval := MI (z : Z) | MU (z : Z) | MF (x : f64) | MO (n : num).
Definition load (d : sdt) (c : Z) : mval :=
  match d with SI64 => MI c | SU64 => MU c | SObj => MO (NI c) end.
Definition as_num (v : mval) : num := match v with MI z | MU z => NI z | MF x => NF x | MO n => n end.
Definition to_obj (v : mval) : mval := MO (as_num v).

Definition z_op (op : aop) (a b : Z) : Z := match op with OpAdd => a + b | OpSub => a - b | OpMul => a * b end.
Definition f64_op (op : aop) (a b : f64) : f64 :=
  match op with OpAdd => f64_add a b | OpSub => f64_sub a b | OpMul => f64_mul a b end.
Definition num_op (op : aop) (a b : num) : num :=
  match a, b with
  | NI x, NI y => NI (z_op op x y)
  | NF _, _ | _, NF _ => NF (f64_op op (num_to_f64 a) (num_to_f64 b))
  | _, _ => match num_exact a, num_exact b with        (* Fraction with int / Fraction: exact *)
            | Some u, Some v => NR (exact_op op u v)
            | _, _ => NF (f64_op op (num_to_f64 a) (num_to_f64 b)) end
  end.

(* NumPy binary operation on two arrays (elementwise): same integer dtype wraps, int64 with
   uint64 is promoted to float64, anything with an object array is done on Python objects *)
Definition mbin (op : aop) (a b : mval) : mval :=
  match a, b with
  | MO _, _ | _, MO _ => MO (num_op op (as_num a) (as_num b))
  | MI x, MI y => MI (wrap_i64 (z_op op x y))
  | MU x, MU y => MU (wrap_u64 (z_op op x y))
  | _, _ => MF (f64_op op (num_to_f64 (as_num a)) (num_to_f64 (as_num b)))
  end.

(* array * 2**k : a Python int factor for k >= 0 (NEP 50: the array dtype is kept and the
   product wraps; OverflowError if the factor itself does not fit), a Python float for k < 0 *)
Definition mscale (v : mval) (k : Z) : outcome mval :=
  if 0 <=? k then
    match v with
    | MI z => if fits_i64 (2^k) then Ok (MI (wrap_i64 (z * 2^k))) else Exc OverflowError
    | MU z => if fits_u64 (2^k) then Ok (MU (wrap_u64 (z * 2^k))) else Exc OverflowError
    | MF x => Ok (MF (f64_mul_pow2 x k))
    | MO n => Ok (MO (num_mul n (NI (2^k))))
    end
  else
    match v with
    | MO n => Ok (MO (NF (f64_mul_pow2 (num_to_f64 n) k)))
    | _ => Ok (MF (f64_mul_pow2 (num_to_f64 (as_num v)) k))
    end.

(* utils.scale_raw(val, shift, exact) on one element: val * 2**shift, with Python integers when the factor
   or the scaled value would not fit in 63 bits (the decision is array-wide in the code; an array
   whose elements decide differently is not modelled: arr_of rejects mixed kinds).  For a negative
   shift and [ex] (utils.needs_exact_scale: some integer of the array has more than 53 bits; or the
   caller's `exact` argument) every integer becomes the exact rational val * Fraction(1, 1 << -shift). *)
Definition mscale_raw (ex : bool) (v : mval) (k : Z) : outcome mval :=
  if 0 <? k then
    match v with
    | MI z | MU z => if (63 <=? k) || (2^63 <=? Z.abs z * 2^k) then Ok (MO (NI (z * 2^k)))
                     else Ok (match v with MU _ => MU (z * 2^k) | _ => MI (z * 2^k) end)
    | _ => mscale v k
    end
  else if (k <? 0) && ex then
    match v with
    | MI z | MU z | MO (NI z) => Ok (MO (NR {| dm := z; de := k |}))
    | _ => mscale v k
    end
  else mscale v k.
(* the magnitude test of utils.needs_exact_scale on one element (integers only) *)
Definition int_mag_ge (v : mval) (b : Z) : bool :=
  match v with MI z | MU z | MO (NI z) => b <=? Z.abs z | _ => false end.

(* functions._rescale(val, shift, n_frac, exact): scale_raw for a negative shift; an object factor when
   n_frac >= 64 (precision_cast); scale_raw otherwise (Python integers when the product needs 64 bits) *)
Definition rescale (ex pc : bool) (v : mval) (k : Z) : outcome mval :=
  if k <? 0 then mscale_raw ex v k
  else if pc then mscale (to_obj v) k
  else mscale_raw false v k.
(* functions._needs_exact_sum: a negative shift on at least one side and a sum of more than 53 bits *)
Definition needs_exact_sum (fx fy : fmt) (nfr : Z) : bool :=
  let d := Z.max (Z.max (nf fx - nfr) (nf fy - nfr)) 0 in
  (0 <? d) && (53 <? Z.max (nw fx + nfr - nf fx) (nw fy + nfr - nf fy) + 2 + d).

(* functions._raw_cast: Python integers when the result needs 64 bits or more, or when
   operands of different dtypes would be promoted to float64 beyond 53 bits *)
Definition raw_cast (dx dy : sdt) (n_bits : Z) : bool :=
  (64 <=? n_bits) || (negb (sdt_eqb dx dy) && (53 <? n_bits)).
(* precision_cast: the factor 2**k becomes an object when n_frac >= 64 *)
Definition precision_cast (n_frac : Z) : bool := 64 <=? n_frac.

Definition cast_if (b : bool) (v : mval) : mval := if b then to_obj v else v.

(* the raw product of _mul_raw, before it is rescaled *)
Definition raw_prod (fx fy : fmt) (cx cy : Z) : mval :=
  let dx := storage fx in let dy := storage fy in
  let rc := raw_cast dx dy (nw fx + nw fy) in
  mbin OpMul (cast_if rc (load dx cx)) (cast_if rc (load dy cy)).
(* _sub_raw: two uint64 raw values are subtracted in int64 (their difference can be negative) *)
Definition msub (a b : mval) : mval :=
  match a, b with
  | MU x, MU y => MI (wrap_i64 (wrap_i64 x - wrap_i64 y))
  | _, _ => mbin OpSub a b end.
(* _add_raw / _sub_raw / _mul_raw on one pair of codes, result n_frac given; [ex] is the array-wide
   decision to rescale with exact rationals (needs_exact_sum for + and -, needs_exact_scale of the
   product array for * ) *)
Definition raw_elem (ex : bool) (op : aop) (fx fy : fmt) (nfr : Z) (cx cy : Z) : outcome mval :=
  let dx := storage fx in let dy := storage fy in
  let pc := precision_cast nfr in
  match op with
  | OpAdd | OpSub =>
      let rc := raw_cast dx dy (Z.max (nw fx + nfr - nf fx) (nw fy + nfr - nf fy) + 2) in
      bind (rescale ex pc (cast_if rc (load dx cx)) (nfr - nf fx)) (fun a =>
      bind (rescale ex pc (cast_if rc (load dy cy)) (nfr - nf fy)) (fun b =>
      Ok (match op with OpSub => msub a b | _ => mbin op a b end)))
  | OpMul => rescale ex pc (raw_prod fx fy cx cy) (nfr - nf fx - nf fy)
  end.
Definition arith_exact (op : aop) (fx : fmt) (cxs : list Z) (fy : fmt) (cys : list Z) (nfr : Z) : bool :=
  match op with
  | OpMul => (nfr - nf fx - nf fy <? 0) &&
             existsb (fun p => int_mag_ge (raw_prod fx fy (fst p) (snd p)) (2^53)) (combine cxs cys)
  | _ => needs_exact_sum fx fy nfr end.

(* the array handed to set_val(raw=True) and the vdtype it is cast to (type(val.item(0))) *)
Definition all_MI (l : list mval) : option (list Z) :=
  fold_right (fun v acc => match v, acc with MI z, Some t => Some (z :: t) | _, _ => None end) (Some []) l.
Definition all_MU (l : list mval) : option (list Z) :=
  fold_right (fun v acc => match v, acc with MU z, Some t => Some (z :: t) | _, _ => None end) (Some []) l.
Definition all_MF (l : list mval) : option (list f64) :=
  fold_right (fun v acc => match v, acc with MF x, Some t => Some (x :: t) | _, _ => None end) (Some []) l.
Definition all_MO (l : list mval) : option (list num) :=
  fold_right (fun v acc => match v, acc with MO n, Some t => Some (n :: t) | _, _ => None end) (Some []) l.
Definition arr_of (l : list mval) : outcome (arr * vdt) :=
  match l with
  | [] => Unmodelled
  | MI _ :: _ => match all_MI l with Some zs => Ok (AI64 zs, VInt) | None => Unmodelled end
  | MU _ :: _ => match all_MU l with Some zs => Ok (AU64 zs, VInt) | None => Unmodelled end
  | MF _ :: _ => match all_MF l with Some xs => Ok (AF64 xs, VFloat) | None => Unmodelled end
  | MO n :: _ => match all_MO l with
                 | Some ns => Ok (AObj ns, match n with NI _ => VInt | _ => VFloat end)   (* (type(val.item(0)); irrelevant for rationals) *)
                 | None => Unmodelled end
  end.

Fixpoint map2M {A B C} (k : A -> B -> outcome C) (l1 : list A) (l2 : list B) : outcome (list C) :=
  match l1, l2 with
  | a :: t1, b :: t2 => bind (k a b) (fun c => bind (map2M k t1 t2) (fun cs => Ok (c :: cs)))
  | [], [] => Ok []
  | _, _ => Unmodelled
  end.

(* ---------- sizing (functions._get_sizing) ---------- *)
Inductive sizing := SzOptimal | SzSame | SzLargest | SzSmallest.
Definition get_sizing (sz : sizing) (op : aop) (fx fy : fmt) : fmt :=
  let s := sg fx || sg fy in
  match sz with
  | SzOptimal => grow op fx fy
  | SzSame => mkfmt s (n_int fx) (nf fx)
  | SzLargest => mkfmt s (Z.max (n_int fx) (n_int fy)) (Z.max (nf fx) (nf fy))
  | SzSmallest => mkfmt s (Z.min (n_int fx) (n_int fy)) (Z.min (nf fx) (nf fy))
  end.

(* x op y by the raw method into format fz under modes r, o (those of the configuration the
   result carries): the raw function, then Fxp(val, ..., raw=True) i.e. set_val(raw=True).
   Operands are given elementwise (already broadcast to a common length). *)
Definition arith_raw (op : aop) (fx : fmt) (cxs : list Z) (fy : fmt) (cys : list Z)
  (fz : fmt) (r : rmode) (o : omode) : outcome wres :=
  bind (map2M (raw_elem (arith_exact op fx cxs fy cys (nf fz)) op fx fy (nf fz)) cxs cys) (fun raws =>
  bind (arr_of raws) (fun av =>
  set_val_real fz r o true (fst av) (snd av))).

(* the repr method: the NumPy function on the float values, then Fxp(val, ...) i.e. set_val *)
Definition arith_repr (op : aop) (fx : fmt) (cxs : list Z) (fy : fmt) (cys : list Z)
  (fz : fmt) (r : rmode) (o : omode) : outcome wres :=
  bind (map2M (fun cx cy => Ok (f64_op op (get_val_f64 fx cx) (get_val_f64 fy cy))) cxs cys) (fun vals =>
  set_val_real fz r o false (AF64 vals) VFloat).

(* unary operators (objects.py:1213-1223): Fxp(-val | +val | abs(val), same format, raw=True)
   with the DEFAULT configuration (trunc, saturate) *)
Inductive uop := UNeg | UPos | UAbs.
Definition unary_raw (u : uop) (fx : fmt) (cxs : list Z) : outcome wres :=
  let f := fun c => match u with UNeg => - c | UPos => c | UAbs => Z.abs c end in
  let vals := map (fun c => match storage fx with
                            | SI64 => MI (wrap_i64 (f c)) | SU64 => MU (wrap_u64 (f c)) | SObj => MO (NI (f c)) end) cxs in
  bind (arr_of vals) (fun av => set_val_real fx Trunc Saturate true (fst av) (snd av)).
