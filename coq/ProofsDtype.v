(* ProofsDtype.v — C12: parser/printer round trips for every word length and every n_frac. *)
From Coq Require Import ZArith List Bool String Ascii Decimal DecimalString DecimalZ DecimalN DecimalPos Lia.
From FxpVerif Require Import Spec Dtype.
Import ListNotations.
Open Scope Z_scope.
Open Scope string_scope.

Definition nondigit_start (s : string) : Prop :=
  match s with EmptyString => True | String a _ => is_digit a = false end.

Lemma app_assoc_s (a b c : string) : (a ++ b) ++ c = a ++ (b ++ c).
Proof. induction a as [|x a IH]; [reflexivity|]. cbn. rewrite IH. reflexivity. Qed.

Lemma span_uint d rest : nondigit_start rest ->
  span_digits (NilEmpty.string_of_uint d ++ rest) = (NilEmpty.string_of_uint d, rest).
Proof.
  intros Hr. induction d; cbn [NilEmpty.string_of_uint append];
    try (cbn [span_digits]; change (is_digit _) with true; cbn iota; rewrite IHd; reflexivity).
  destruct rest as [|a t]; [reflexivity|]. cbn [span_digits]. cbn in Hr. rewrite Hr. reflexivity.
Qed.

Lemma pos_uint_nonnil p : Pos.to_uint p <> Nil.
Proof. intros H. pose proof (DecimalPos.Unsigned.of_to p) as E. rewrite H in E. discriminate. Qed.

(* the decimal numeral of a non-negative integer is a non-empty digit string that parses back *)
Lemma to_uint_of_nonneg n : 0 <= n -> exists d, Z.to_int n = Pos d /\ d <> Nil /\ Z.of_uint d = n.
Proof.
  intros Hn. destruct n as [|p|p]; [| |lia].
  - exists (D0 Nil). split; [reflexivity|split; [discriminate|reflexivity]].
  - exists (Pos.to_uint p). split; [reflexivity|]. split; [apply pos_uint_nonnil|].
    pose proof (DecimalZ.of_to (Z.pos p)) as E. exact E.
Qed.

Lemma string_of_uint_nonempty d : d <> Nil -> NilEmpty.string_of_uint d <> EmptyString.
Proof. destruct d; cbn; congruence. Qed.

Lemma take_nat_dec n rest : 0 <= n -> nondigit_start rest -> take_nat (dec_of_Z n ++ rest) = Some (n, rest).
Proof.
  intros Hn Hr. destruct (to_uint_of_nonneg n Hn) as (d & Ed & Hd & Ez).
  unfold dec_of_Z, take_nat. rewrite Ed. cbn [NilEmpty.string_of_int]. rewrite span_uint by exact Hr.
  destruct (NilEmpty.string_of_uint d) eqn:Es; [exfalso; exact (string_of_uint_nonempty d Hd Es)|].
  rewrite <- Es. rewrite NilEmpty.usu. rewrite Ez. reflexivity.
Qed.

Lemma first_is_digit d : d <> Nil -> exists a t, NilEmpty.string_of_uint d = String a t /\ is_digit a = true.
Proof. destruct d; intros H; try congruence; cbn; eexists; eexists; split; reflexivity. Qed.

Lemma take_int_dec z rest : nondigit_start rest -> take_int (dec_of_Z z ++ rest) = Some (z, rest).
Proof.
  intros Hr. destruct (Z_le_gt_dec 0 z) as [Hz|Hz].
  - pose proof (take_nat_dec z rest Hz Hr) as Hn.
    destruct (to_uint_of_nonneg z Hz) as (d & Ed & Hd & _).
    unfold dec_of_Z in *. rewrite Ed in *. cbn [NilEmpty.string_of_int] in *.
    destruct (first_is_digit d Hd) as (a & t & Es & Hdig). rewrite Es in *. cbn [append] in *.
    unfold take_int.
    (* the first character is a digit, hence neither '-' nor '+' *)
    destruct a as [[|] [|] [|] [|] [|] [|] [|] [|]]; try discriminate Hdig; exact Hn.
  - destruct z as [|p|p]; try lia. unfold dec_of_Z. cbn [Z.to_int NilEmpty.string_of_int append take_int].
    pose proof (take_nat_dec (Z.pos p) rest ltac:(lia) Hr) as Hn. unfold dec_of_Z in Hn. cbn [Z.to_int NilEmpty.string_of_int] in Hn.
    rewrite Hn. reflexivity.
Qed.

(* casefolding leaves the rendered strings unchanged (except the leading Q / UQ) *)
Lemma casefold_app a b : casefold (a ++ b) = casefold a ++ casefold b.
Proof. induction a as [|x a IH]; [reflexivity|]. cbn. rewrite IH. reflexivity. Qed.
Lemma casefold_uint d : casefold (NilEmpty.string_of_uint d) = NilEmpty.string_of_uint d.
Proof. induction d; cbn; rewrite ?IHd; reflexivity. Qed.
Lemma casefold_dec z : casefold (dec_of_Z z) = dec_of_Z z.
Proof. unfold dec_of_Z. destruct (Z.to_int z); cbn; rewrite casefold_uint; reflexivity. Qed.

Theorem fxp_roundtrip f cx : 0 <= nw f -> parse_dtype (render_fxp f cx) = Some (sg f, nw f, nf f, cx).
Proof.
  intros Hn. unfold parse_dtype, render_fxp.
  rewrite !casefold_app, !casefold_dec.
  assert (Ec: casefold (if cx then "-complex" else "") = (if cx then "-complex" else "")) by (destruct cx; reflexivity).
  assert (Es: casefold (if sg f then "s" else "u") = (if sg f then "s" else "u")) by (destruct (sg f); reflexivity).
  rewrite Ec, Es. change (casefold "fxp-") with "fxp-". change (casefold "/") with "/".
  cbn [append]. 
  assert (Hq: forall t, parse_q (String "f" t) = None) by reflexivity.
  rewrite Hq. unfold parse_fxp. cbn [strip_prefix Ascii.eqb Bool.eqb].
  destruct (sg f); cbn [append Ascii.eqb Bool.eqb orb].
  - rewrite (take_nat_dec (nw f) _ Hn) by reflexivity.
    rewrite (take_int_dec (nf f) (if cx then "-complex" else "")) by (destruct cx; reflexivity).
    destruct cx; reflexivity.
  - rewrite (take_nat_dec (nw f) _ Hn) by reflexivity.
    rewrite (take_int_dec (nf f) (if cx then "-complex" else "")) by (destruct cx; reflexivity).
    destruct cx; reflexivity.
Qed.

Lemma take_nat_nondigit a t : is_digit a = false -> take_nat (String a t) = None.
Proof. intros H. unfold take_nat. cbn [span_digits]. rewrite H. reflexivity. Qed.

Lemma app_nil_s (s : string) : s ++ "" = s.
Proof. induction s as [|a s IH]; [reflexivity|]. cbn. rewrite IH. reflexivity. Qed.

Theorem q_roundtrip f : 0 <= nw f - nf f -> parse_dtype (render_q f) = Some (sg f, nw f, nf f, false).
Proof.
  intros Hm. unfold parse_dtype, render_q. rewrite !casefold_app, !casefold_dec. change (casefold ".") with ".".
  pose proof (take_int_dec (nf f) "" I) as Hfr. rewrite app_nil_s in Hfr.
  assert (Hbody: forall sgn, q_body sgn (dec_of_Z (nw f - nf f) ++ String "." (dec_of_Z (nf f))) = Some (sgn, nw f, nf f)).
  { intros sgn. unfold q_body. rewrite (take_nat_dec (nw f - nf f) _ Hm) by reflexivity. rewrite Hfr. repeat f_equal. lia. }
  destruct (sg f).
  - change (casefold "Q") with "q". cbn [append]. unfold parse_q.
    assert (E1: forall t, try_q "s" true (String "q" t) = None) by reflexivity.
    assert (E2: forall t, try_q "u" false (String "q" t) = None) by reflexivity.
    rewrite E1, E2. unfold try_q at 1. cbn [strip_prefix Ascii.eqb Bool.eqb]. rewrite (Hbody true). reflexivity.
  - change (casefold "UQ") with "uq". cbn [append]. unfold parse_q.
    assert (E1: forall t, try_q "s" true (String "u" t) = None) by reflexivity.
    assert (E2: forall t, try_q "u" false (String "u" (String "q" t)) = None).
    { intros t. unfold try_q. cbn [strip_prefix Ascii.eqb Bool.eqb]. unfold q_body. rewrite take_nat_nondigit by reflexivity. reflexivity. }
    assert (E3: forall t, try_q "q" true (String "u" t) = None) by reflexivity.
    rewrite E1, E2, E3. unfold try_q at 1. cbn [strip_prefix Ascii.eqb Bool.eqb]. rewrite (Hbody false). reflexivity.
Qed.

(* get_dtype renders the notation it is asked for, whatever the configured default *)
Theorem get_dtype_asked n conf f cx : get_dtype (Some n) conf f cx = match n with NQ => render_q f | NFxp => render_fxp f cx end.
Proof. reflexivity. Qed.

Lemma lower_idem a : lower_ascii (lower_ascii a) = lower_ascii a.
Proof. destruct a as [[|] [|] [|] [|] [|] [|] [|] [|]]; reflexivity. Qed.
Lemma casefold_idem s : casefold (casefold s) = casefold s.
Proof. induction s as [|a s IH]; [reflexivity|]. cbn. rewrite lower_idem, IH. reflexivity. Qed.
Theorem parse_case_insensitive s : parse_dtype (casefold s) = parse_dtype s.
Proof. unfold parse_dtype. rewrite casefold_idem. reflexivity. Qed.
