(* ProofsCore.v — lemmas shared by the property proofs: the bit-mask wrap is the
   residue, exactness of the float pipeline in the core domain, rounding bounds. *)
From Coq Require Import ZArith List Bool Lia ZifyBool.
From FxpVerif Require Import Spec NP Store.
Import ListNotations.
Open Scope Z_scope.
Ltac Zify.zify_post_hook ::= Z.to_euclidean_division_equations.

(* ---------- powers of two ---------- *)
Lemma pow2_pos k : 0 <= k -> 0 < 2^k.
Proof. intros; apply Z.pow_pos_nonneg; lia. Qed.
Lemma pow2_double n : 1 <= n -> 2^n = 2 * 2^(n-1).
Proof. intros; rewrite <- Z.pow_succ_r by lia; f_equal; lia. Qed.
Lemma pow2_le a b : 0 <= a <= b -> 2^a <= 2^b.
Proof. intros; apply Z.pow_le_mono_r; lia. Qed.
Lemma pow2_lt a b : 0 <= a < b -> 2^a < 2^b.
Proof. intros; apply Z.pow_lt_mono_r; lia. Qed.
Lemma pow2_split a b : 0 <= a -> 0 <= b -> 2^(a+b) = 2^a * 2^b.
Proof. intros; apply Z.pow_add_r; lia. Qed.

(* ---------- wrap: mask + lor = residue ---------- *)
Lemma lor_neg_pow2 n y : 0 <= n -> 0 <= y < 2^n -> Z.lor y (- 2^n) = y - 2^n.
Proof.
  intros Hn Hy. replace (y - 2^n) with (y + - 2^n) by lia.
  assert (Hl: Z.land y (- 2^n) = 0).
  { replace (- 2^n) with (Z.lnot (Z.ones n)) by (rewrite Z.ones_equiv; unfold Z.lnot; lia).
    rewrite <- Z.ldiff_land. rewrite Z.ldiff_ones_r by lia.
    rewrite Z.shiftr_div_pow2 by lia. rewrite Z.div_small by lia. apply Z.shiftl_0_l. }
  rewrite Z.add_nocarry_lxor by exact Hl. rewrite Z.lxor_lor by exact Hl. reflexivity.
Qed.

Lemma land_mask n x : 0 <= n -> Z.land x (2^n - 1) = x mod 2^n.
Proof.
  intros. replace (2^n - 1) with (Z.ones n) by (rewrite Z.ones_equiv; lia). apply Z.land_ones; lia.
Qed.

Lemma wrap_model_res f x : 1 <= nw f -> wrap_model (sg f) (nw f) x = wrap_res f x.
Proof.
  intros Hn. unfold wrap_model, wrap_res, cmin. set (n := nw f) in *.
  assert (H2: 2^n = 2 * 2^(n-1)) by (apply pow2_double; lia).
  assert (Hp: 0 < 2^(n-1)) by (apply pow2_pos; lia).
  rewrite land_mask by lia.
  destruct (sg f).
  - replace (x - - 2^(n-1)) with (x + 2^(n-1)) by lia.
    set (H := 2^(n-1)) in *. set (M := 2^n) in *.
    assert (HM: 0 < M) by lia.
    pose proof (Z.mod_pos_bound x M HM) as Hb.
    destruct (x mod M <? H) eqn:E.
    + symmetry. assert ((x + H) mod M = x mod M + H).
      { symmetry. apply (Z.mod_unique_pos _ _ (x / M)). lia. rewrite (Z.div_mod x M) at 1 by lia. lia. }
      lia.
    + assert (Hlor: Z.lor (x mod M) (- M) = x mod M - M) by (unfold M; apply lor_neg_pow2; [lia| fold M; lia]).
      rewrite Hlor.
      assert ((x + H) mod M = x mod M - H).
      { symmetry. apply (Z.mod_unique_pos _ _ (x / M + 1)). lia. rewrite (Z.div_mod x M) at 1 by lia. lia. }
      lia.
  - rewrite Z.sub_0_r. lia.
Qed.

(* the residue form is in range and congruent, and it is the only such integer *)
Lemma range_width f : 1 <= nw f -> cmax f - cmin f = 2^(nw f) - 1.
Proof.
  intros. unfold cmax, cmin. destruct (sg f); [|lia].
  rewrite (pow2_double (nw f)) by lia. lia.
Qed.
Lemma wrap_res_in_range f x : 1 <= nw f -> in_range f (wrap_res f x).
Proof.
  intros Hn. unfold in_range, wrap_res. pose proof (range_width f Hn).
  assert (0 < 2^(nw f)) by (apply pow2_pos; lia).
  pose proof (Z.mod_pos_bound (x - cmin f) (2^(nw f)) ltac:(lia)). lia.
Qed.
Lemma wrap_res_congr f x : 1 <= nw f -> (wrap_res f x - x) mod 2^(nw f) = 0.
Proof.
  intros Hn. unfold wrap_res. assert (0 < 2^(nw f)) by (apply pow2_pos; lia).
  set (M := 2^(nw f)) in *. set (a := x - cmin f).
  replace (cmin f + a mod M - x) with (a mod M - a) by (unfold a; lia).
  rewrite (Z.div_mod a M) at 2 by lia.
  replace (a mod M - (M * (a / M) + a mod M)) with ((- (a / M)) * M) by lia.
  apply Z.mod_mul. lia.
Qed.
Lemma wrap_res_unique f x y : 1 <= nw f -> in_range f y -> (y - x) mod 2^(nw f) = 0 -> y = wrap_res f x.
Proof.
  intros Hn Hr Hc. pose proof (wrap_res_in_range f x Hn) as Hr'. pose proof (wrap_res_congr f x Hn) as Hc'.
  pose proof (range_width f Hn). assert (HM: 0 < 2^(nw f)) by (apply pow2_pos; lia).
  unfold in_range in *. set (M := 2^(nw f)) in *. set (w := wrap_res f x) in *.
  assert (Hd: (y - w) mod M = 0).
  { replace (y - w) with ((y - x) - (w - x)) by lia. rewrite Zminus_mod, Hc, Hc'. reflexivity. }
  apply Z.mod_divide in Hd; [|lia]. destruct Hd as [k Hk].
  assert (k = 0) by nia. lia.
Qed.
Lemma wrap_res_id f c : 1 <= nw f -> in_range f c -> wrap_res f c = c.
Proof.
  intros Hn Hr. symmetry. apply wrap_res_unique; auto. rewrite Z.sub_diag. apply Z.mod_0_l.
  assert (0 < 2^(nw f)) by (apply pow2_pos; lia). lia.
Qed.
Lemma sat_id f c : in_range f c -> sat f c = c.
Proof. unfold in_range, sat. lia. Qed.
Lemma sat_in_range f c : 1 <= nw f -> in_range f (sat f c).
Proof.
  intros Hn. pose proof (range_width f Hn). assert (0 < 2^(nw f)) by (apply pow2_pos; lia).
  unfold in_range, sat. lia.
Qed.
Lemma overflow_in_range o f c : 1 <= nw f -> in_range f (overflow o f c).
Proof. destruct o; [apply sat_in_range | apply wrap_res_in_range]. Qed.
Lemma overflow_id o f c : 1 <= nw f -> in_range f c -> overflow o f c = c.
Proof. destruct o; intros; [apply sat_id | apply wrap_res_id]; auto. Qed.

(* ---------- bit length ---------- *)
Lemma bitlen_le m k : 0 <= k -> Z.abs m < 2^k -> bitlen m <= k.
Proof.
  intros Hk H. unfold bitlen. destruct (m =? 0) eqn:E; [lia|].
  assert (Z.log2 (Z.abs m) < k) by (apply Z.log2_lt_pow2; lia). lia.
Qed.
Lemma bitlen_nonneg m : 0 <= bitlen m.
Proof. unfold bitlen. destruct (m =? 0); [lia|]. pose proof (Z.log2_nonneg (Z.abs m)). lia. Qed.

Lemma rnd64_exact m e : fits53 m e -> rnd64 m e = Fin m e.
Proof.
  intros (H1 & H2 & H3). unfold rnd64.
  replace (Z.max (bitlen m - 53) (-1074 - e) <=? 0) with true by lia.
  replace (bitlen m + e <=? 1024) with true by lia. reflexivity.
Qed.
Lemma f64_of_Z_exact z : Z.abs z < 2^53 -> f64_of_Z z = Fin z 0.
Proof.
  intros. unfold f64_of_Z. apply rnd64_exact. pose proof (bitlen_le z 53 ltac:(lia) H).
  unfold fits53. lia.
Qed.

(* ---------- rounding ---------- *)
Lemma rhe_cases m k : 0 < k -> let d := 2^k in
  (rhe m k = m / d \/ rhe m k = m / d + 1) /\ 2 * Z.abs (m - rhe m k * d) <= d.
Proof.
  intros Hk d. assert (Hd: 0 < d) by (apply pow2_pos; lia).
  unfold rhe. fold d. pose proof (Z.mod_pos_bound m d Hd). pose proof (Z.div_mod m d ltac:(lia)).
  destruct (2 * (m mod d) <? d) eqn:E1; [split; [auto|nia]|].
  destruct (d <? 2 * (m mod d)) eqn:E2; [split; [auto|nia]|].
  destruct (Z.even (m / d)); split; auto; nia.
Qed.

Lemma round_dy_bound r m k : 0 < k -> Z.abs (round_dy r {| dm := m; de := - k |}) <= Z.abs m + 1.
Proof.
  intros Hk. unfold round_dy. cbn [de dm]. replace (0 <=? - k) with false by lia.
  replace (- - k) with k by lia.
  assert (Hd0: 0 < 2^k) by (apply pow2_pos; lia). assert (Hd: 1 <= 2^k) by lia.
  pose proof (rhe_cases m k Hk) as Hrhe. cbv zeta in Hrhe.
  set (d := 2^k) in *.
  assert (Hq: Z.abs (Z.quot m d) <= Z.abs m).
  { rewrite <- Z.quot_abs by lia. apply Z.quot_le_upper_bound; nia. }
  destruct r; try exact (Z.le_trans _ _ _ Hq ltac:(lia)); try nia.
Qed.

(* a rounded value never leaves the integer hull of the input: |round| <= |m * 2^e| + 1 *)
Lemma round_dy_int r m e : 0 <= e -> round_dy r {| dm := m; de := e |} = m * 2^e.
Proof. intros. unfold round_dy. cbn [de dm]. replace (0 <=? e) with true by lia. reflexivity. Qed.
