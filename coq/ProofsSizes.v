(* ProofsSizes.v — C06: the integer-bit search of set_best_sizes returns the least
   n_int whose range holds both extremes; reconciliation arithmetic of _init_size. *)
From Coq Require Import ZArith List Bool Lia ZifyBool.
From FxpVerif Require Import Spec NP Store ProofsCore Sizes.
Import ListNotations.
Open Scope Z_scope.
Ltac Zify.zify_post_hook ::= Z.to_euclidean_division_equations.

(* (x >> i) + [x < 0] == 0  <->  -2^i <= x < 2^i *)
Lemma msb_zero_iff x i : 0 <= i -> (msb x i =? 0) = ((- 2^i <=? x) && (x <? 2^i)).
Proof.
  intros Hi. unfold msb. rewrite Z.shiftr_div_pow2 by lia. assert (Hp: 0 < 2^i) by (apply pow2_pos; lia).
  destruct (x <? 0) eqn:Ex.
  - destruct (- 2^i <=? x) eqn:E1; cbn [andb].
    + replace (x <? 2^i) with true by lia. assert (x / 2^i = -1) by nia. lia.
    + assert (x / 2^i < -1) by nia. lia.
  - replace (- 2^i <=? x) with true by lia. cbn [andb].
    destruct (x <? 2^i) eqn:E2; [assert (x / 2^i = 0) by nia; lia | assert (1 <= x / 2^i) by nia; lia].
Qed.

Definition fits_int (vmax vmin i : Z) : bool := (- 2^i <=? vmax) && (vmax <? 2^i) && (- 2^i <=? vmin) && (vmin <? 2^i).

(* loop invariant: every j in [i0, i) fails the test; the result is the least fitting i, or the cap *)
Lemma int_loop_spec fuel cap vmax vmin i r : 0 <= i -> int_loop fuel cap vmax vmin i = Some r ->
  i <= r /\ (forall j, i <= j < r -> fits_int vmax vmin j = false) /\ (r < cap -> fits_int vmax vmin r = true) /\ (r <= Z.max cap i).
Proof.
  revert i. induction fuel as [|fuel IH]; intros i Hi H; [discriminate|].
  cbn [int_loop] in H. destruct (i <? cap) eqn:Ec.
  - destruct ((msb vmax i =? 0) && (msb vmin i =? 0)) eqn:Em.
    + injection H as <-. rewrite !msb_zero_iff in Em by lia. split; [lia|]. split; [intros j Hj; lia|]. split; [|lia].
      intros _. unfold fits_int. apply andb_true_iff in Em. destruct Em as (E1 & E2). rewrite <- andb_assoc. rewrite E1, E2. reflexivity.
    + destruct (IH (i + 1) ltac:(lia) H) as (H1 & H2 & H3 & H4). split; [lia|]. split; [|split; [exact H3|lia]].
      intros j Hj. destruct (Z.eq_dec j i) as [->|Hne]; [|apply H2; lia].
      rewrite !msb_zero_iff in Em by lia. unfold fits_int. rewrite <- andb_assoc. exact Em.
  - injection H as <-. split; [lia|]. split; [intros j Hj; lia|]. split; [intros; lia|lia].
Qed.

(* _init_size: when n_int is given with one other size the third follows arithmetically *)
Lemma init_size_nint_frac s f i wmax vals : 
  init_size (Some s) None (Some f) (Some i) wmax vals = Ok (s, i + f + (if s then 1 else 0), f).
Proof. reflexivity. Qed.
Lemma init_size_nint_word s w i wmax vals :
  init_size (Some s) (Some w) None (Some i) wmax vals = Ok (s, w, w - i - (if s then 1 else 0)).
Proof. reflexivity. Qed.
Lemma init_size_both s w f ni wmax vals : init_size (Some s) (Some w) (Some f) ni wmax vals = Ok (s, w, f).
Proof. destruct ni; reflexivity. Qed.
