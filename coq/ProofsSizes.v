(* ProofsSizes.v — C06: the integer-bit search of set_best_sizes returns the least
   n_int whose range holds both extremes; reconciliation arithmetic of _init_size. *)
From Coq Require Import ZArith List Bool Lia ZifyBool.
From FxpVerif Require Import Spec NP Store ProofsCore Sizes.
Import ListNotations.
Open Scope Z_scope.
Ltac Zify.zify_post_hook ::= Z.to_euclidean_division_equations.

(* (x >> i) + [x < 0] == 0  <->  -2^i <= x < 2^i *)
Lemma msb_zero_iff x i : 0 <= i -> (msb x i =? 0) = ((- 2^i <=? x) && (x <? 2^i)).
Proof.
  intros Hi. unfold msb. rewrite Z.shiftr_div_pow2 by lia. assert (Hp: 0 < 2^i) by (apply pow2_pos; lia).
  destruct (x <? 0) eqn:Ex.
  - destruct (- 2^i <=? x) eqn:E1; cbn [andb].
    + replace (x <? 2^i) with true by lia. assert (x / 2^i = -1) by nia. lia.
    + assert (x / 2^i < -1) by nia. lia.
  - replace (- 2^i <=? x) with true by lia. cbn [andb].
    destruct (x <? 2^i) eqn:E2; [assert (x / 2^i = 0) by nia; lia | assert (1 <= x / 2^i) by nia; lia].
Qed.

Definition fits_int (vmax vmin i : Z) : bool := (- 2^i <=? vmax) && (vmax <? 2^i) && (- 2^i <=? vmin) && (vmin <? 2^i).

(* loop invariant: every j in [i0, i) fails the test; the result is the least fitting i, or the cap *)
Lemma int_loop_spec fuel cap vmax vmin i r : 0 <= i -> int_loop fuel cap vmax vmin i = Some r ->
  i <= r /\ (forall j, i <= j < r -> fits_int vmax vmin j = false) /\ (r < cap -> fits_int vmax vmin r = true) /\ (r <= Z.max cap i).
Proof.
  revert i. induction fuel as [|fuel IH]; intros i Hi H; [discriminate|].
  cbn [int_loop] in H. destruct (i <? cap) eqn:Ec.
  - destruct ((msb vmax i =? 0) && (msb vmin i =? 0)) eqn:Em.
    + injection H as <-. rewrite !msb_zero_iff in Em by lia. split; [lia|]. split; [intros j Hj; lia|]. split; [|lia].
      intros _. unfold fits_int. apply andb_true_iff in Em. destruct Em as (E1 & E2). rewrite <- andb_assoc. rewrite E1, E2. reflexivity.
    + destruct (IH (i + 1) ltac:(lia) H) as (H1 & H2 & H3 & H4). split; [lia|]. split; [|split; [exact H3|lia]].
      intros j Hj. destruct (Z.eq_dec j i) as [->|Hne]; [|apply H2; lia].
      rewrite !msb_zero_iff in Em by lia. unfold fits_int. rewrite <- andb_assoc. exact Em.
  - injection H as <-. split; [lia|]. split; [intros j Hj; lia|]. split; [intros; lia|lia].
Qed.

(* _init_size: when n_int is given with one other size the third follows arithmetically *)
Lemma init_size_nint_frac s f i wmax vals : 
  init_size (Some s) None (Some f) (Some i) wmax vals = Ok (s, i + f + (if s then 1 else 0), f).
Proof. reflexivity. Qed.
Lemma init_size_nint_word s w i wmax vals :
  init_size (Some s) (Some w) None (Some i) wmax vals = Ok (s, w, w - i - (if s then 1 else 0)).
Proof. reflexivity. Qed.
Lemma init_size_both s w f ni wmax vals : init_size (Some s) (Some w) (Some f) ni wmax vals = Ok (s, w, f).
Proof. destruct ni; reflexivity. Qed.

(* ---------- the fraction-bit search: binary expansion of the fractional part ---------- *)
(* r = R / 2^k with 0 <= R < 2^(k-n) after n steps; the loop stops at the first n where R is
   zero, i.e. at the least n such that the fractional part is a multiple of 2^-n *)
Lemma mod_mod_pow2 R a b : 0 <= b <= a -> (R mod 2^a) mod 2^b = R mod 2^b.
Proof.
  intros H. symmetry. apply Znumtheory.Zmod_div_mod; [apply pow2_pos; lia | apply pow2_pos; lia|].
  exists (2^(a - b)). rewrite <- pow2_split by lia. f_equal. lia.
Qed.

Lemma frac_loop_spec fuel max_n k : forall R n e_pos, 0 <= n <= k -> k <= max_n -> 0 <= R < 2^(k - n) ->
  (e_pos = false -> R = 0) -> (Z.to_nat (k - n) < fuel)%nat ->
  exists res, frac_loop fuel max_n {| dm := R; de := - k |} n e_pos = Some res /\
    n <= res <= k /\ R mod 2^(k - res) = 0 /\ (forall j, n <= j < res -> R mod 2^(k - j) <> 0).
Proof.
  induction fuel as [|fuel IH]; intros R n e_pos Hn Hmax HR He Hfuel; [lia|].
  cbn [frac_loop]. unfold dy_is_zero. cbn [dm].
  destruct (R =? 0) eqn:ER.
  - (* the remainder is zero: stop *)
    rewrite andb_false_r. exists n. split; [reflexivity|]. split; [lia|]. split; [|intros j Hj; lia].
    replace R with 0 by lia. apply Z.mod_0_l. assert (0 < 2^(k - n)) by (apply pow2_pos; lia). lia.
  - assert (Hep: e_pos = true) by (destruct e_pos; [reflexivity|specialize (He eq_refl); lia]).
    assert (Hnk: n < k). { destruct (Z.eq_dec n k) as [->|]; [|lia]. rewrite Z.sub_diag in HR. change (2^0) with 1 in HR. lia. }
    rewrite Hep. replace (n <=? max_n) with true by lia. cbn [andb negb].
    (* one step of the expansion *)
    set (h := 2^(k - (n + 1))). assert (Ph: 0 < h) by (apply pow2_pos; lia).
    assert (E2: 2^(k - n) = 2 * h) by (unfold h; replace (k - n) with (k - (n + 1) + 1) by lia; rewrite Z.pow_add_r by lia; change (2^1) with 2; lia).
    assert (Hsub: dy_sub {| dm := R; de := - k |} {| dm := 1; de := - (n + 1) |} = {| dm := R - h; de := - k |}).
    { unfold dy_sub, dy_align. cbn [dm de]. rewrite Z.min_l by lia. rewrite Z.sub_diag, Z.pow_0_r, Z.mul_1_r, Z.mul_1_l.
      replace (- (n + 1) - - k) with (k - (n + 1)) by lia. reflexivity. }
    rewrite Hsub. cbn [dm].
    set (R' := if 0 <=? R - h then R - h else R).
    assert (HR2: 0 <= R < 2 * h) by lia.
    assert (HR': R' = R mod h).
    { unfold R'. destruct (0 <=? R - h) eqn:E; [apply (Z.mod_unique_pos R h 1 (R - h)); lia | symmetry; apply Z.mod_small; lia]. }
    assert (Hr': (if 0 <=? R - h then {| dm := R - h; de := - k |} else {| dm := R; de := - k |}) = {| dm := R'; de := - k |})
      by (unfold R'; destruct (0 <=? R - h); reflexivity).
    rewrite Hr'.
    destruct (IH R' (n + 1) (negb (R - h =? 0))) as (res & Hres & Hb & Hz & Hmin).
    + lia.
    + exact Hmax.
    + rewrite HR'. fold h. apply Z.mod_pos_bound. lia.
    + intros Hneg. unfold R'. destruct (R - h =? 0) eqn:E0; [|discriminate]. replace (0 <=? R - h) with true by lia. lia.
    + lia.
    + exists res. split; [exact Hres|]. split; [lia|].
      assert (Hcongr: forall j, n + 1 <= j <= k -> R' mod 2^(k - j) = R mod 2^(k - j)).
      { intros j Hj. rewrite HR'. unfold h. apply mod_mod_pow2. lia. }
      split; [rewrite <- Hcongr by lia; exact Hz|].
      intros j Hj. destruct (Z.eq_dec j n) as [->|Hne].
      * rewrite Z.mod_small by lia. lia.
      * rewrite <- Hcongr by lia. apply Hmin. lia.
Qed.

(* for a value m * 2^e with e < 0: the inferred fraction length is the LEAST n for which the value
   is a multiple of 2^-n (so storing with n fraction bits is exact, and with fewer it is not) *)
Theorem frac_bits_min max_n v : de v < 0 -> - de v <= max_n -> - de v <= 198 ->
  exists n, frac_bits max_n v = Some n /\ 0 <= n <= - de v /\
    dm v mod 2^(- de v - n) = 0 /\ (forall j, 0 <= j < n -> dm v mod 2^(- de v - j) <> 0).
Proof.
  intros He Hmax Hfuel. set (k := - de v). unfold frac_bits, dy_frac. replace (0 <=? de v) with false by lia.
  replace (de v) with (- k) by (unfold k; lia). replace (- - k) with k by lia.
  assert (Pk: 0 < 2^k) by (apply pow2_pos; unfold k; lia).
  assert (HR: 0 <= dm v mod 2^k < 2^(k - 0)) by (rewrite Z.sub_0_r; apply Z.mod_pos_bound; exact Pk).
  assert (Hk: 0 <= 0 <= k) by (unfold k; lia). assert (Hkm: k <= max_n) by (unfold k; lia).
  assert (Hfu: (Z.to_nat (k - 0) < 200)%nat) by (unfold k; lia).
  destruct (frac_loop_spec 200 max_n k (dm v mod 2^k) 0 true Hk Hkm HR ltac:(discriminate) Hfu) as (n & Hn & Hb & Hz & Hmin).
    exists n. split; [exact Hn|]. split; [lia|]. split.
    + rewrite mod_mod_pow2 in Hz by lia. exact Hz.
    + intros j Hj. specialize (Hmin j ltac:(lia)). rewrite mod_mod_pow2 in Hmin by lia. exact Hmin.
Qed.
