(* ProofsDivModel.v — C09: the dtype-level model of the raw division family (_truediv_raw,
   _floordiv_raw, _mod_raw + set_val(raw=True)) returns exactly the reference codes, for
   operands of ANY signedness combination (mixed signedness goes through float64
   floor_divide / remainder, exact at these sizes) and arrays of any positive length. *)
From Coq Require Import ZArith List Bool Lia ZifyBool.
From FxpVerif Require Import Spec SpecArith NP Store ProofsCore ProofsStore ProofsConvert Arith ProofsArith Div ProofsDiv.
Import ListNotations.
Open Scope Z_scope.
Ltac Zify.zify_post_hook ::= Z.to_euclidean_division_equations.

Definition div_small (f : fmt) : Prop := 1 <= nw f <= 26 /\ 0 <= nf f <= nw f.

Lemma raw_cast_small53 dx dy n : n <= 53 -> raw_cast dx dy n = false.
Proof. intros Hn. unfold raw_cast. replace (64 <=? n) with false by lia. replace (53 <? n) with false by lia. rewrite andb_false_r. reflexivity. Qed.

(* ---------- storing exact integers delivered in a known dtype ---------- *)
Lemma store_kind K f r o zs : zs <> [] -> Forall (kind_ok K) zs -> 1 <= nw f ->
  (K = KU -> nw f < 64) -> (K = KF -> nw f <= 53) ->
  exists w, bind (arr_of (map (encode K) zs)) (fun av => set_val_real f r o true (fst av) (snd av)) = Ok w /\ int_wres f o zs w.
Proof.
  intros Hne Hok Hw HU HF. rewrite arr_of_encode by exact Hne. cbn [bind].
  destruct K; cbn [arr_of_kind fst snd kind_ok] in *.
  - apply set_val_raw_i64; assumption.
  - apply set_val_raw_u64; [specialize (HU eq_refl); lia | assumption].
  - apply set_val_raw_f64; [specialize (HF eq_refl); lia | assumption].
  - apply set_val_raw_obj; assumption.
Qed.

(* from elementwise facts to the whole operation: in-range exact integers are stored
   unchanged with no flag *)
Lemma div_raw_from_elems d fx fy fz K (g : Z * Z -> Z) cxs cys r o :
  length cxs = length cys -> cxs <> [] -> 1 <= nw fz -> (K = KU -> nw fz < 64) -> (K = KF -> nw fz <= 53) ->
  (forall exa exb exq p, In p (combine cxs cys) ->
     div_raw_elem exa exb exq d fx fy (nf fz) (fst p) (snd p) = Ok (encode K (g p)) /\ kind_ok K (g p) /\ in_range fz (g p)) ->
  exists w, div_raw d fx cxs fy cys fz r o = Ok w /\
    w_codes w = map g (combine cxs cys) /\ w_ovf w = false /\ w_unf w = false.
Proof.
  intros Hlen Hne Hw HU HF Hel0. unfold div_raw. cbv zeta.
  rewrite (map2M_pairs _ (fun p => encode K (g p))); [|exact Hlen|intros p Hp; apply (Hel0 _ _ _ p Hp)].
  pose proof (Hel0 false false false) as Hel.
  cbn [bind]. rewrite <- (map_map g (encode K)).
  assert (Hzne: map g (combine cxs cys) <> []).
  { destruct cxs as [|a cxs]; [congruence|]. destruct cys as [|b cys]; [discriminate|]. cbn. discriminate. }
  destruct (store_kind K fz r o (map g (combine cxs cys)) Hzne) as (w & Hwr & Hc & Ho & Hu); try assumption.
  { rewrite Forall_map. apply Forall_forall. intros p Hp. apply (Hel p Hp). }
  exists w. split; [exact Hwr|].
  assert (Hin: Forall (in_range fz) (map g (combine cxs cys))).
  { rewrite Forall_map. apply Forall_forall. intros p Hp. apply (Hel p Hp). }
  rewrite Hc, Ho, Hu. repeat split.
  - apply map_fix. intros z Hz. rewrite Forall_forall in Hin. apply overflow_id; [exact Hw|]. apply Hin. exact Hz.
  - apply existsb_false. eapply Forall_impl; [|exact Hin]. intros z Hz. unfold in_range in Hz. lia.
  - apply existsb_false. eapply Forall_impl; [|exact Hin]. intros z Hz. unfold in_range in Hz. lia.
Qed.

(* ---------- dtype of the result: same-signedness operands stay in their integer dtype ---------- *)
Definition kind2 (fx fy : fmt) : rkind :=
  match sg fx, sg fy with true, true => KI | false, false => KU | _, _ => KF end.

Lemma small_mag f c : div_small f -> in_range f c -> Z.abs c <= 2^26 /\ (sg f = false -> 0 <= c).
Proof.
  intros (Hw & _) Hr. destruct (code_mag f c ltac:(lia) Hr) as (Hs & Hu).
  assert (2^(nw f - 1) <= 2^26) by (apply pow2_le; lia). assert (2^(nw f) <= 2^26) by (apply pow2_le; lia).
  destruct (sg f); [specialize (Hs eq_refl)|specialize (Hu eq_refl)]; split; try lia; intros; try discriminate; lia.
Qed.

(* NumPy // on two exact integers below 2^53, in the dtype kind2 gives *)
Lemma mfloordiv_ints fx fy A B : Z.abs A < 2^53 -> Z.abs B < 2^53 -> B <> 0 ->
  (sg fx = false -> 0 <= A) -> (sg fy = false -> 0 <= B) ->
  mfloordiv (encode (if sg fx then KI else KU) A) (encode (if sg fy then KI else KU) B) = encode (kind2 fx fy) (A / B).
Proof.
  intros HA HB HB0 PA PB. assert (E53: 2^53 < 2^63) by (apply pow2_lt; lia). assert (E64: 2^63 < 2^64) by (apply pow2_lt; lia).
  assert (Hq: Z.abs (A / B) <= Z.abs A) by (destruct (Z_lt_le_dec 0 B); destruct (Z_lt_le_dec 0 A); nia).
  assert (Hfd: f64_floordiv (Fin A 0) (Fin B 0) = Fin (A / B) 0).
  { unfold f64_floordiv. replace (B =? 0) with false by lia. rewrite Z.min_id, Z.sub_diag, Z.pow_0_r, !Z.mul_1_r.
    apply rnd64_exact. pose proof (bitlen_le (A / B) 53 ltac:(lia) ltac:(lia)). pose proof (bitlen_nonneg (A / B)). unfold fits53. lia. }
  unfold kind2. destruct (sg fx) eqn:Sx, (sg fy) eqn:Sy; cbn [encode mfloordiv as_num num_to_f64].
  - rewrite wrap_i64_small by lia. reflexivity.
  - specialize (PB eq_refl). rewrite (wrap_u64_small B) by lia. rewrite !f64_of_Z_exact by lia. rewrite Hfd. reflexivity.
  - specialize (PA eq_refl). rewrite (wrap_u64_small A) by lia. rewrite !f64_of_Z_exact by lia. rewrite Hfd. reflexivity.
  - specialize (PA eq_refl). specialize (PB eq_refl). rewrite (wrap_u64_small A), (wrap_u64_small B) by lia. reflexivity.
Qed.

(* an operand code rescaled by a non-negative power of two stays in its integer dtype *)
Lemma mscale_up f c k : div_small f -> in_range f c -> 0 <= k <= 26 ->
  mscale (load (storage f) c) k = Ok (encode (if sg f then KI else KU) (c * 2^k)).
Proof.
  intros Hf Hr Hk. destruct (small_mag f c Hf Hr) as (Hc & Hpos). destruct Hf as (Hw & _).
  rewrite storage_small by lia.
  assert (Pk: 0 < 2^k <= 2^26) by (split; [apply pow2_pos; lia | apply pow2_le; lia]).
  assert (E52: 2^26 * 2^26 = 2^52) by reflexivity. assert (E5263: 2^52 < 2^63) by (apply pow2_lt; lia). assert (E64: 2^63 < 2^64) by (apply pow2_lt; lia).
  unfold mscale. replace (0 <=? k) with true by lia.
  destruct (sg f) eqn:Es; cbn [load encode].
  - unfold fits_i64. replace (- 2^63 <=? 2^k) with true by lia. replace (2^k <? 2^63) with true by lia. cbn [andb].
    rewrite wrap_i64_small by (rewrite Z.abs_mul, (Z.abs_eq (2^k)) by lia; nia). reflexivity.
  - unfold fits_u64. replace (0 <=? 2^k) with true by lia. replace (2^k <? 2^64) with true by lia. cbn [andb]. reflexivity.
Qed.

Lemma load_enc f c : div_small f -> in_range f c -> load (storage f) c = encode (if sg f then KI else KU) c.
Proof.
  intros Hf Hr. destruct (small_mag f c Hf Hr) as (Hc & Hpos). destruct Hf as (Hw & _). rewrite storage_small by lia.
  assert (2^26 < 2^64) by (apply pow2_lt; lia).
  destruct (sg f); cbn [load encode]; [reflexivity|]. rewrite wrap_u64_small by (specialize (Hpos eq_refl); lia). reflexivity.
Qed.

(* utils.scale_raw on a small operand: never needs Python integers, same as the plain product *)
Lemma mscale_raw_up ex f c k : div_small f -> in_range f c -> 0 <= k <= 26 ->
  mscale_raw ex (load (storage f) c) k = Ok (encode (if sg f then KI else KU) (c * 2^k)).
Proof.
  intros Hf Hr Hk. unfold mscale_raw. replace (k <? 0) with false by lia. cbn [andb].
  destruct (0 <? k) eqn:Ek; [|apply mscale_up; assumption].
  destruct (small_mag f c Hf Hr) as (Hc & Hpos). destruct Hf as (Hw & _). rewrite storage_small by lia.
  assert (Pk: 0 < 2^k <= 2^26) by (split; [apply pow2_pos; lia | apply pow2_le; lia]).
  assert (E52: 2^26 * 2^26 = 2^52) by reflexivity. assert (E5263: 2^52 < 2^63) by (apply pow2_lt; lia). assert (E64: 2^63 < 2^64) by (apply pow2_lt; lia).
  assert (Hs: (63 <=? k) || (2^63 <=? Z.abs c * 2^k) = false) by (apply orb_false_iff; split; [lia | nia]).
  destruct (sg f) eqn:Es; cbn [load encode]; rewrite Hs; [reflexivity|].
  rewrite wrap_u64_small by (specialize (Hpos eq_refl); nia). reflexivity.
Qed.

Lemma kind2_ok fx fy z : Z.abs z < 2^53 -> kind_ok (kind2 fx fy) z.
Proof.
  intros Hz. assert (2^53 < 2^63) by (apply pow2_lt; lia). unfold kind2. destruct (sg fx), (sg fy); cbn [kind_ok]; lia.
Qed.

(* ---------- x / y ---------- *)
Lemma truediv_elem exa exb exq fx fy a b : div_small fx -> div_small fy -> in_range fx a -> in_range fy b -> b <> 0 ->
  div_raw_elem exa exb exq DTrue fx fy (nf (grow_truediv fx fy)) a b = Ok (encode (kind2 fx fy) (truediv_floor fx a fy b))
  /\ Z.abs (truediv_floor fx a fy b) < 2^53.
Proof.
  intros Hx Hy Hra Hrb Hb. destruct (small_mag fx a Hx Hra) as (Ha & Pa). destruct (small_mag fy b Hy Hrb) as (Hbm & Pb).
  unfold div_raw_elem.
  pose proof (n_int_width fy) as Ny.
  cbv zeta. fold (truediv_k fx fy). unfold truediv_floor. rewrite truediv_k_eq.
  set (k := nw fy - (if sg fy then 1 else 0)). assert (Hk: 0 <= k <= 26) by (unfold k; destruct Hy as (? & ?); destruct (sg fy); lia).
  replace (0 <=? k) with true by lia.
  rewrite raw_cast_small53 by (destruct Hx as (? & ?), Hy as (? & ?); lia). cbn [cast_if].
  assert (Hplain: mscale_raw false (load (storage fx) a) k = mscale (load (storage fx) a) k).
  { apply mscale_raw_plain; [lia|]. destruct Hx as (Hwx & _). rewrite storage_small by lia.
    assert (0 < 2^k <= 2^26) by (split; [apply pow2_pos; lia | apply pow2_le; lia]).
    assert (2^26 * 2^26 = 2^52) by reflexivity. assert (2^52 < 2^63) by (apply pow2_lt; lia).
    destruct (sg fx) eqn:Es; cbn [load]; [nia|]. specialize (Pa eq_refl). split; nia. }
  rewrite Hplain.
  assert (Pk: 0 < 2^k <= 2^26) by (split; [apply pow2_pos; lia | apply pow2_le; lia]).
  assert (E52: 2^26 * 2^26 = 2^52) by reflexivity. assert (E5253: 2^52 < 2^53) by (apply pow2_lt; lia).
  assert (HA: Z.abs (a * 2^k) < 2^53) by (rewrite Z.abs_mul, (Z.abs_eq (2^k)) by lia; nia).
  rewrite (mscale_up fx a k Hx Hra Hk). cbn [bind]. rewrite (load_enc fy b Hy Hrb).
  rewrite mfloordiv_ints; try lia; try (intros Hs; specialize (Pa Hs); nia); try assumption.
  split; [reflexivity|].
  set (n := a * 2^k) in *. assert (Hq: Z.abs (n / b) <= Z.abs n) by (destruct (Z_lt_le_dec 0 b); destruct (Z_lt_le_dec 0 n); nia). lia.
Qed.

Theorem truediv_raw_model_any fx fy cxs cys r o : div_small fx -> div_small fy ->
  length cxs = length cys -> cxs <> [] -> Forall (in_range fx) cxs -> Forall (fun b => in_range fy b /\ b <> 0) cys ->
  exists w, div_raw DTrue fx cxs fy cys (grow_truediv fx fy) r o = Ok w /\
    w_codes w = map (fun p => truediv_floor fx (fst p) fy (snd p)) (combine cxs cys) /\ w_ovf w = false /\ w_unf w = false.
Proof.
  intros Hx Hy Hlen Hne Hrx Hry.
  pose proof (n_int_width fx) as Nx. pose proof (n_int_width fy) as Ny.
  assert (Hwz: 1 <= nw (grow_truediv fx fy) <= 53).
  { unfold grow_truediv, mkfmt. cbn [nw]. destruct Hx as (? & ?), Hy as (? & ?). destruct (sg fx), (sg fy); cbn [orb]; lia. }
  apply (div_raw_from_elems DTrue fx fy (grow_truediv fx fy) (kind2 fx fy) (fun p => truediv_floor fx (fst p) fy (snd p))); try assumption; try lia.
  intros exa exb exq [a b] Hp. cbn [fst snd]. rewrite Forall_forall in Hrx, Hry.
  pose proof (Hrx a (in_combine_l _ _ _ _ Hp)) as Ha. destruct (Hry b (in_combine_r _ _ _ _ Hp)) as (Hb & Hb0).
  destruct (truediv_elem exa exb exq fx fy a b Hx Hy Ha Hb Hb0) as (He & Hm).
  split; [exact He|]. split; [apply kind2_ok; exact Hm|].
  apply truediv_in_range; try assumption; destruct Hx as (? & ?), Hy as (? & ?); lia.
Qed.

(* ---------- x % y ---------- *)
Lemma mmod_ints fx fy A B : Z.abs A < 2^53 -> Z.abs B < 2^53 -> B <> 0 ->
  (sg fx = false -> 0 <= A) -> (sg fy = false -> 0 <= B) ->
  mmod (encode (if sg fx then KI else KU) A) (encode (if sg fy then KI else KU) B) = encode (kind2 fx fy) (A mod B).
Proof.
  intros HA HB HB0 PA PB. assert (E53: 2^53 < 2^63) by (apply pow2_lt; lia). assert (E64: 2^63 < 2^64) by (apply pow2_lt; lia).
  assert (Hq: Z.abs (A mod B) < Z.abs B) by nia.
  assert (Hfd: f64_mod (Fin A 0) (Fin B 0) = Fin (A mod B) 0).
  { unfold f64_mod. replace (B =? 0) with false by lia. rewrite Z.min_id, Z.sub_diag, Z.pow_0_r, !Z.mul_1_r.
    apply rnd64_exact. pose proof (bitlen_le (A mod B) 53 ltac:(lia) ltac:(lia)). pose proof (bitlen_nonneg (A mod B)). unfold fits53. lia. }
  unfold kind2. destruct (sg fx) eqn:Sx, (sg fy) eqn:Sy; cbn [encode mmod as_num num_to_f64].
  - reflexivity.
  - specialize (PB eq_refl). rewrite (wrap_u64_small B) by lia. rewrite !f64_of_Z_exact by lia. rewrite Hfd. reflexivity.
  - specialize (PA eq_refl). rewrite (wrap_u64_small A) by lia. rewrite !f64_of_Z_exact by lia. rewrite Hfd. reflexivity.
  - specialize (PA eq_refl). specialize (PB eq_refl). rewrite (wrap_u64_small A), (wrap_u64_small B) by lia.
    rewrite (wrap_u64_small (A mod B)) by nia. reflexivity.
Qed.

Lemma mod_elem exa exb exq fx fy a b : div_small fx -> div_small fy -> in_range fx a -> in_range fy b -> b <> 0 ->
  div_raw_elem exa exb exq DMod fx fy (nf (grow_mod fx fy)) a b = Ok (encode (kind2 fx fy) (mod_code fx a fy b))
  /\ Z.abs (mod_code fx a fy b) < 2^53.
Proof.
  intros Hx Hy Hra Hrb Hb. destruct (small_mag fx a Hx Hra) as (Ha & Pa). destruct (small_mag fy b Hy Hrb) as (Hbm & Pb).
  unfold div_raw_elem.
  assert (Hnfr: nf (grow_mod fx fy) = Z.max (nf fx) (nf fy)) by reflexivity. rewrite Hnfr.
  assert (Hrc: raw_cast (storage fx) (storage fy) (Z.max (nw fx + Z.max (nf fx) (nf fy) - nf fx) (nw fy + Z.max (nf fx) (nf fy) - nf fy)) = false).
  { apply raw_cast_small53. destruct Hx as (? & ?), Hy as (? & ?). lia. }
  rewrite Hrc. cbn [cast_if]. unfold mod_code.
  set (kx := Z.max (nf fx) (nf fy) - nf fx). set (ky := Z.max (nf fx) (nf fy) - nf fy).
  assert (Hkx: 0 <= kx <= 26) by (unfold kx; destruct Hx as (? & ?), Hy as (? & ?); lia).
  assert (Hky: 0 <= ky <= 26) by (unfold ky; destruct Hx as (? & ?), Hy as (? & ?); lia).
  assert (Pkx: 0 < 2^kx <= 2^26) by (split; [apply pow2_pos; lia | apply pow2_le; lia]).
  assert (Pky: 0 < 2^ky <= 2^26) by (split; [apply pow2_pos; lia | apply pow2_le; lia]).
  assert (E52: 2^26 * 2^26 = 2^52) by reflexivity. assert (E5253: 2^52 < 2^53) by (apply pow2_lt; lia).
  assert (HA: Z.abs (a * 2^kx) < 2^53) by (rewrite Z.abs_mul, (Z.abs_eq (2^kx)) by lia; nia).
  assert (HB: Z.abs (b * 2^ky) < 2^53) by (rewrite Z.abs_mul, (Z.abs_eq (2^ky)) by lia; nia).
  rewrite (mscale_raw_up exa fx a kx Hx Hra Hkx), (mscale_raw_up exb fy b ky Hy Hrb Hky). cbn [bind].
  rewrite mmod_ints; try assumption; try nia; try (intros Hs; specialize (Pa Hs); nia); try (intros Hs; specialize (Pb Hs); nia).
  split; [reflexivity|]. set (A := a * 2^kx) in *. set (B := b * 2^ky) in *. assert (B <> 0) by (unfold B; nia). nia.
Qed.

(* the modulo fits the optimal format of mod for every signedness combination *)
Lemma mod_in_range fx a fy b : div_small fx -> div_small fy -> in_range fx a -> in_range fy b -> b <> 0 ->
  in_range (grow_mod fx fy) (mod_code fx a fy b).
Proof.
  intros (Hwx & Hfx) (Hwy & Hfy) Hra Hrb Hb.
  destruct (code_mag fx a ltac:(lia) Hra) as (Sa & Ua). destruct (code_mag fy b ltac:(lia) Hrb) as (Sb & Ub).
  pose proof (n_int_width fx) as Nx. pose proof (n_int_width fy) as Ny.
  unfold mod_code. set (nfr := Z.max (nf fx) (nf fy)).
  set (kx := nfr - nf fx). set (ky := nfr - nf fy).
  assert (Hkx: 0 <= kx) by (unfold kx, nfr; lia). assert (Hky: 0 <= ky) by (unfold ky, nfr; lia).
  assert (Pkx: 0 < 2^kx) by (apply pow2_pos; lia). assert (Pky: 0 < 2^ky) by (apply pow2_pos; lia).
  set (A := a * 2^kx). set (B := b * 2^ky). assert (HB0: B <> 0) by (unfold B; nia).
  unfold in_range, cmin, cmax, grow_mod, mkfmt. cbn [sg nw nf]. fold nfr.
  destruct (sg fx) eqn:Sx, (sg fy) eqn:Sy; cbn [orb].
  - (* signed % signed: bounded by the divisor, which has n_int fy integer bits *)
    specialize (Sb eq_refl).
    replace (1 + Z.max (n_int fx) (n_int fy) + nfr - 1) with (Z.max (n_int fx) (n_int fy) + nfr) by lia.
    assert (Hpow: 2^(nw fy - 1) * 2^ky <= 2^(Z.max (n_int fx) (n_int fy) + nfr)).
    { rewrite <- pow2_split by lia. apply pow2_le. unfold ky. lia. }
    assert (Z.abs B <= 2^(nw fy - 1) * 2^ky) by (unfold B; rewrite Z.abs_mul, (Z.abs_eq (2^ky)) by lia; nia).
    assert (0 < 2^(nw fy - 1)) by (apply pow2_pos; lia). nia.
  - specialize (Ub eq_refl).
    replace (1 + Z.max (n_int fx) (n_int fy) + nfr - 1) with (Z.max (n_int fx) (n_int fy) + nfr) by lia.
    assert (Hpow: 2^(nw fy) * 2^ky <= 2^(Z.max (n_int fx) (n_int fy) + nfr)).
    { rewrite <- pow2_split by lia. apply pow2_le. unfold ky. lia. }
    assert (0 < B < 2^(nw fy) * 2^ky) by (unfold B; nia). nia.
  - specialize (Sb eq_refl).
    replace (1 + Z.max (n_int fx) (n_int fy) + nfr - 1) with (Z.max (n_int fx) (n_int fy) + nfr) by lia.
    assert (Hpow: 2^(nw fy - 1) * 2^ky <= 2^(Z.max (n_int fx) (n_int fy) + nfr)).
    { rewrite <- pow2_split by lia. apply pow2_le. unfold ky. lia. }
    assert (Z.abs B <= 2^(nw fy - 1) * 2^ky) by (unfold B; rewrite Z.abs_mul, (Z.abs_eq (2^ky)) by lia; nia).
    assert (0 < 2^(nw fy - 1)) by (apply pow2_pos; lia). nia.
  - (* unsigned % unsigned: below the dividend and below the divisor *)
    specialize (Ua eq_refl). specialize (Ub eq_refl).
    replace (0 + Z.min (n_int fx) (n_int fy) + nfr) with (Z.min (n_int fx + nfr) (n_int fy + nfr)) by lia.
    assert (HA: 0 <= A < 2^(n_int fx + nfr)).
    { replace (n_int fx + nfr) with (nw fx + kx) by (unfold kx; lia). rewrite pow2_split by lia. unfold A. nia. }
    assert (HBb: 0 < B < 2^(n_int fy + nfr)).
    { replace (n_int fy + nfr) with (nw fy + ky) by (unfold ky; lia). rewrite pow2_split by lia. unfold B. nia. }
    assert (0 <= A mod B < B) by (apply Z.mod_pos_bound; lia). assert (A mod B <= A) by (apply Z.mod_le; lia).
    destruct (Z.min_spec (n_int fx + nfr) (n_int fy + nfr)) as [(_ & ->)|(_ & ->)]; lia.
Qed.

Theorem mod_raw_model_any fx fy cxs cys r o : div_small fx -> div_small fy ->
  length cxs = length cys -> cxs <> [] -> Forall (in_range fx) cxs -> Forall (fun b => in_range fy b /\ b <> 0) cys ->
  exists w, div_raw DMod fx cxs fy cys (grow_mod fx fy) r o = Ok w /\
    w_codes w = map (fun p => mod_code fx (fst p) fy (snd p)) (combine cxs cys) /\ w_ovf w = false /\ w_unf w = false.
Proof.
  intros Hx Hy Hlen Hne Hrx Hry.
  pose proof (n_int_width fx) as Nx. pose proof (n_int_width fy) as Ny.
  assert (Hwz: 1 <= nw (grow_mod fx fy) <= 53).
  { unfold grow_mod, mkfmt. cbn [nw]. destruct Hx as (? & ?), Hy as (? & ?). destruct (sg fx), (sg fy); cbn [orb]; lia. }
  apply (div_raw_from_elems DMod fx fy (grow_mod fx fy) (kind2 fx fy) (fun p => mod_code fx (fst p) fy (snd p))); try assumption; try lia.
  intros exa exb exq [a b] Hp. cbn [fst snd]. rewrite Forall_forall in Hrx, Hry.
  pose proof (Hrx a (in_combine_l _ _ _ _ Hp)) as Ha. destruct (Hry b (in_combine_r _ _ _ _ Hp)) as (Hb & Hb0).
  destruct (mod_elem exa exb exq fx fy a b Hx Hy Ha Hb Hb0) as (He & Hm).
  split; [exact He|]. split; [apply kind2_ok; exact Hm|]. apply mod_in_range; assumption.
Qed.

(* ---------- x // y ---------- *)
Lemma floordiv_code_mag fx a fy b : div_small fx -> div_small fy -> in_range fx a -> in_range fy b -> b <> 0 ->
  Z.abs (floordiv_code fx a fy b) < 2^53.
Proof.
  intros Hx Hy Hra Hrb Hb. destruct (small_mag fx a Hx Hra) as (Ha & _). destruct (small_mag fy b Hy Hrb) as (Hbm & _).
  rewrite floordiv_code_aligned. unfold aligned. cbn [fst snd].
  set (nfr := Z.max (nf fx) (nf fy)).
  assert (0 <= nfr - nf fx <= 26) by (unfold nfr; destruct Hx as (? & ?), Hy as (? & ?); lia).
  assert (0 <= nfr - nf fy <= 26) by (unfold nfr; destruct Hx as (? & ?), Hy as (? & ?); lia).
  assert (0 < 2^(nfr - nf fx) <= 2^26) by (split; [apply pow2_pos; lia | apply pow2_le; lia]).
  assert (0 < 2^(nfr - nf fy)) by (apply pow2_pos; lia).
  assert (E52: 2^26 * 2^26 = 2^52) by reflexivity. assert (E5253: 2^52 < 2^53) by (apply pow2_lt; lia).
  set (A := a * 2^(nfr - nf fx)). set (B := b * 2^(nfr - nf fy)). assert (B <> 0) by (unfold B; nia).
  assert (Z.abs A <= 2^52) by (unfold A; rewrite Z.abs_mul, (Z.abs_eq (2^(nfr - nf fx))) by lia; nia).
  assert (Z.abs (A / B) <= Z.abs A) by (destruct (Z_lt_le_dec 0 B); destruct (Z_lt_le_dec 0 A); nia). lia.
Qed.

(* the raw values aligned on the finer fraction length, integer quotient, n_frac = 0 *)
Lemma floordiv_elem exa exb exq fx fy a b : div_small fx -> div_small fy -> in_range fx a -> in_range fy b -> b <> 0 ->
  div_raw_elem exa exb exq DFloor fx fy (nf (grow_floordiv fx fy)) a b = Ok (encode (kind2 fx fy) (floordiv_code fx a fy b)).
Proof.
  intros Hx Hy Hra Hrb Hb. pose proof (floordiv_code_mag fx a fy b Hx Hy Hra Hrb Hb) as Hq.
  destruct (small_mag fx a Hx Hra) as (Ha & Pa). destruct (small_mag fy b Hy Hrb) as (Hbm & Pb).
  assert (E53: 2^53 < 2^63) by (apply pow2_lt; lia). assert (E64: 2^63 < 2^64) by (apply pow2_lt; lia).
  unfold div_raw_elem. change (nf (grow_floordiv fx fy)) with 0.
  set (m := Z.max (nf fx) (nf fy)).
  assert (Hrc: raw_cast (storage fx) (storage fy) (Z.max (nw fx + m - nf fx) (nw fy + m - nf fy)) = false).
  { apply raw_cast_small53. unfold m. destruct Hx as (? & ?), Hy as (? & ?). lia. }
  rewrite Hrc. cbn [cast_if].
  set (kx := m - nf fx). set (ky := m - nf fy).
  assert (Hkx: 0 <= kx <= 26) by (unfold kx, m; destruct Hx as (? & ?), Hy as (? & ?); lia).
  assert (Hky: 0 <= ky <= 26) by (unfold ky, m; destruct Hx as (? & ?), Hy as (? & ?); lia).
  assert (Pkx: 0 < 2^kx <= 2^26) by (split; [apply pow2_pos; lia | apply pow2_le; lia]).
  assert (Pky: 0 < 2^ky <= 2^26) by (split; [apply pow2_pos; lia | apply pow2_le; lia]).
  assert (E52: 2^26 * 2^26 = 2^52) by reflexivity. assert (E5253: 2^52 < 2^53) by (apply pow2_lt; lia).
  assert (HA: Z.abs (a * 2^kx) < 2^53) by (rewrite Z.abs_mul, (Z.abs_eq (2^kx)) by lia; nia).
  assert (HB: Z.abs (b * 2^ky) < 2^53) by (rewrite Z.abs_mul, (Z.abs_eq (2^ky)) by lia; nia).
  rewrite (mscale_raw_up exa fx a kx Hx Hra Hkx), (mscale_raw_up exb fy b ky Hy Hrb Hky). cbn [bind].
  rewrite mfloordiv_ints; try assumption; try nia; try (intros Hs; specialize (Pa Hs); nia); try (intros Hs; specialize (Pb Hs); nia).
  assert (Hc: a * 2^kx / (b * 2^ky) = floordiv_code fx a fy b) by (rewrite floordiv_code_aligned; reflexivity).
  rewrite Hc. unfold mscale_raw. change (0 <? 0) with false. cbn [andb]. cbv iota. unfold mscale. change (0 <=? 0) with true. cbv iota.
  unfold kind2. destruct (sg fx), (sg fy); cbn [encode].
  - unfold fits_i64. replace ((- 2^63 <=? 2^0) && (2^0 <? 2^63)) with true by reflexivity. rewrite Z.pow_0_r, Z.mul_1_r, wrap_i64_small by lia. reflexivity.
  - cbn [f64_mul_pow2]. rewrite (rnd64_exact _ (0 + 0)); [reflexivity|]. pose proof (bitlen_le (floordiv_code fx a fy b) 53 ltac:(lia) Hq). pose proof (bitlen_nonneg (floordiv_code fx a fy b)). unfold fits53. lia.
  - cbn [f64_mul_pow2]. rewrite (rnd64_exact _ (0 + 0)); [reflexivity|]. pose proof (bitlen_le (floordiv_code fx a fy b) 53 ltac:(lia) Hq). pose proof (bitlen_nonneg (floordiv_code fx a fy b)). unfold fits53. lia.
  - unfold fits_u64. replace ((0 <=? 2^0) && (2^0 <? 2^64)) with true by reflexivity. rewrite Z.pow_0_r, Z.mul_1_r.
    unfold wrap_u64. rewrite Z.mod_mod by lia. reflexivity.
Qed.

(* the floor quotient fits the optimal format of // for every signedness combination *)
Lemma floordiv_in_range fx a fy b : div_small fx -> div_small fy -> in_range fx a -> in_range fy b -> b <> 0 ->
  in_range (grow_floordiv fx fy) (floordiv_code fx a fy b).
Proof.
  intros (Hwx & Hfx) (Hwy & Hfy) Hra Hrb Hb.
  destruct (code_mag fx a ltac:(lia) Hra) as (Sa & Ua). destruct (code_mag fy b ltac:(lia) Hrb) as (Sb & Ub).
  pose proof (n_int_width fx) as Nx. pose proof (n_int_width fy) as Ny.
  rewrite floordiv_code_aligned. unfold aligned. cbn [fst snd]. set (nfr := Z.max (nf fx) (nf fy)).
  set (kx := nfr - nf fx). set (ky := nfr - nf fy).
  assert (Hkx: 0 <= kx) by (unfold kx, nfr; lia). assert (Hky: 0 <= ky) by (unfold ky, nfr; lia).
  assert (Pkx: 0 < 2^kx) by (apply pow2_pos; lia). assert (Pky: 0 < 2^ky) by (apply pow2_pos; lia).
  set (A := a * 2^kx). set (B := b * 2^ky). assert (HB0: B <> 0) by (unfold B; nia).
  assert (HBk: 2^ky <= Z.abs B) by (unfold B; rewrite Z.abs_mul, (Z.abs_eq (2^ky)) by lia; nia).
  unfold in_range, cmin, cmax, grow_floordiv, mkfmt. cbn [sg nw nf].
  destruct (sg fx) eqn:Sx.
  - (* signed dividend: |A| <= 2^(n_int fx + nfr), and P * |B| >= 2 |A| for P = 2^(n_int fx + nf fy + 1) *)
    specialize (Sa eq_refl). cbn [orb].
    replace (1 + (n_int fx + nf fy + 1) + 0 - 1) with (n_int fx + nf fy + 1) by lia.
    set (P := 2^(n_int fx + nf fy + 1)). assert (PP: 0 < P) by (apply pow2_pos; lia).
    assert (HA: 2 * Z.abs A <= P * 2^ky).
    { unfold P. rewrite <- pow2_split by lia. replace (n_int fx + nf fy + 1 + ky) with ((nw fx - 1) + kx + 1) by (unfold kx, ky; lia).
      rewrite Z.pow_add_r, Z.pow_1_r by lia. rewrite pow2_split by lia.
      unfold A. rewrite Z.abs_mul, (Z.abs_eq (2^kx)) by lia. assert (0 < 2^(nw fx - 1)) by (apply pow2_pos; lia). nia. }
    assert (HAB: 2 * Z.abs A <= P * Z.abs B) by nia.
    destruct (Z_lt_le_dec 0 B); nia.
  - specialize (Ua eq_refl). destruct (sg fy) eqn:Sy; cbn [orb].
    + replace (1 + (n_int fx + nf fy + 1) + 0 - 1) with (n_int fx + nf fy + 1) by lia.
      set (P := 2^(n_int fx + nf fy + 1)). assert (PP: 0 < P) by (apply pow2_pos; lia).
      assert (HA: 2 * Z.abs A <= P * 2^ky).
      { unfold P. rewrite <- pow2_split by lia. replace (n_int fx + nf fy + 1 + ky) with (nw fx + kx + 1) by (unfold kx, ky; lia).
        rewrite Z.pow_add_r, Z.pow_1_r by lia. rewrite pow2_split by lia.
        unfold A. rewrite Z.abs_mul, (Z.abs_eq (2^kx)), (Z.abs_eq a) by lia. assert (0 < 2^(nw fx)) by (apply pow2_pos; lia). nia. }
      assert (HAB: 2 * Z.abs A <= P * Z.abs B) by nia.
      destruct (Z_lt_le_dec 0 B); nia.
    + specialize (Ub eq_refl).
      replace (0 + (n_int fx + nf fy + 0) + 0) with (n_int fx + nf fy) by lia.
      set (P := 2^(n_int fx + nf fy)). assert (PP: 0 < P) by (apply pow2_pos; lia).
      assert (HA: A < P * 2^ky).
      { unfold P. rewrite <- pow2_split by lia. replace (n_int fx + nf fy + ky) with (nw fx + kx) by (unfold kx, ky; lia).
        rewrite pow2_split by lia. unfold A. nia. }
      assert (0 <= A) by (unfold A; nia). assert (0 < B) by (unfold B; nia).
      split; [apply Z.div_pos; lia|]. assert (A / B < P); [|lia]. apply Z.div_lt_upper_bound; nia.
Qed.

Theorem floordiv_raw_model_any fx fy cxs cys r o : div_small fx -> div_small fy -> 1 <= nw (grow_floordiv fx fy) <= 53 ->
  length cxs = length cys -> cxs <> [] -> Forall (in_range fx) cxs -> Forall (fun b => in_range fy b /\ b <> 0) cys ->
  exists w, div_raw DFloor fx cxs fy cys (grow_floordiv fx fy) r o = Ok w /\
    w_codes w = map (fun p => floordiv_code fx (fst p) fy (snd p)) (combine cxs cys) /\ w_ovf w = false /\ w_unf w = false.
Proof.
  intros Hx Hy Hw1 Hlen Hne Hrx Hry.
  apply (div_raw_from_elems DFloor fx fy (grow_floordiv fx fy) (kind2 fx fy) (fun p => floordiv_code fx (fst p) fy (snd p))); try assumption; try lia.
  intros exa exb exq [a b] Hp. cbn [fst snd]. rewrite Forall_forall in Hrx, Hry.
  pose proof (Hrx a (in_combine_l _ _ _ _ Hp)) as Ha. destruct (Hry b (in_combine_r _ _ _ _ Hp)) as (Hb & Hb0).
  split; [apply floordiv_elem; assumption|]. pose proof (floordiv_code_mag fx a fy b Hx Hy Ha Hb Hb0) as Hm.
  split; [apply kind2_ok; exact Hm | apply floordiv_in_range; assumption].
Qed.
