(* Store.v — code-shaped model of Fxp.set_val (real-valued path) and its helpers.
   Mirrors fxpmath/objects.py:802-932 (set_val), 765-775 (_get_conv_factor),
   1093-1111 (_overflow_action), 1113-1130 (_round) and fxpmath/utils.py:414-439
   (clip, wrap).  Proof-free: still runs when a proof breaks. *)
From Coq Require Import ZArith List Bool Lia.
From FxpVerif Require Import Spec NP.
Import ListNotations.
Open Scope Z_scope.

(* the array handed to set_val after _format_inupt_val, with its NumPy dtype *)
Inductive arr :=
| AI64 (l : list Z)      (* int64 (every integer carrier whose values fit) *)
| AU64 (l : list Z)      (* uint64 (Python ints in [2^63, 2^64), uint64 arrays) *)
| AF64 (l : list f64)    (* float64 *)
| AObj (l : list num).   (* object: Python ints / floats *)

(* original_vdtype: the Python/NumPy scalar type the values are cast to (objects.py:851) *)
Inductive vdt := VInt | VFloat.

Definition arr_len (a : arr) : nat :=
  match a with AI64 l | AU64 l => length l | AF64 l => length l | AObj l => length l end.

Definition arr_nums (a : arr) : list num :=
  match a with
  | AI64 l | AU64 l => map NI l
  | AF64 l => map NF l
  | AObj l => l end.

(* utils.clip (np.vectorize of max(val_min, min(val_max, x))) on integers *)
Definition clip_model (x lo hi : Z) : Z := Z.max lo (Z.min hi x).

(* utils.wrap: mask with 2^n - 1, then OR with -2^n where the sign bit is set *)
Definition wrap_model (signed : bool) (n x : Z) : Z :=
  let m := 2^n in
  let y := Z.land x (m - 1) in
  if signed then (if y <? 2^(n - 1) then y else Z.lor y (- m)) else y.

(* one element after scaling: int64/Python-int value or float64/Python-float value *)
(* a float is compared with the integer bound EXACTLY ([Fin b 0] is the integer itself, not its rounded double): for words of at
   most 53 bits the bound is a double anyway; beyond that _overflow_action compares and clamps rounded floats that can reach
   the bound as Python integers (fix b7d5946), and floats below 2^53 are on the same side of the bound and of its double *)
Definition elem_gt (x : num) (b : Z) : bool :=      (* new_val > val_max *)
  match x with
  | NI z => b <? z
  | NF v => f64_ltb (Fin b 0) v
  | NR q => dy_ltb (dy_of_Z b) q end.
Definition elem_lt (x : num) (b : Z) : bool :=      (* new_val < val_min *)
  match x with
  | NI z => z <? b
  | NF v => f64_ltb v (Fin b 0)
  | NR q => dy_ltb q (dy_of_Z b) end.

(* objects.py:845-847 — one decision for the whole array, on the UNSCALED values:
   np.max(val) >= 2**64 or np.min(val) < -2**64 or n_word >= 64 *)
Definition num_big64 (x : num) : bool :=
  match x with
  | NI z => (2^64 <=? z) || (z <? - 2^64)
  | NF (Inf _) => true
  | NF NaN => false
  | NF v => match f64_floor_Z v with
            | Some fl => (2^64 <=? fl) || (fl <? - 2^64)
            | None => false end
  | NR q => let fl := round_dy Floor q in (2^64 <=? fl) || (fl <? - 2^64)
  end.
(* the `_use_pyint` decision of set_val (objects.py, after the 64-bit fix): the old
   test on the unscaled values, or — for integer inputs other than uint64 and an integer
   conversion factor — the factor or the scaled magnitude reaching 2^63 *)
Definition conv_factor_int (f : fmt) (raw : bool) : option Z :=
  if raw then Some 1 else if 0 <=? nf f then Some (2^(nf f)) else None.
Definition num_abs_int (x : num) : Z :=
  match num_int x with Some z => Z.abs z | None => 0 end.
(* `_is_int_val`: an integer dtype, or an object array holding only Python integers *)
Definition arr_is_int (a : arr) : bool :=
  match a with
  | AI64 _ | AU64 _ => true
  | AF64 _ => false
  | AObj l => forallb (fun x => match x with NI _ => true | _ => false end) l end.
(* an object array holding exact rationals (a raw value rescaled by utils.scale_raw) *)
Definition arr_has_frac (a : arr) : bool :=
  match a with AObj l => existsb (fun x => match x with NR _ => true | _ => false end) l | _ => false end.
Definition arr_absmax_ge (a : arr) (b : Z) : bool := existsb (fun x => b <=? num_abs_int x) (arr_nums a).
(* negative n_frac (the factor 1/(1 << -n_frac) is a float): integer values of more than 53 bits are
   scaled with the exact rational factor Fraction(1, 1 << -n_frac) instead *)
Definition exact_factor (f : fmt) (raw : bool) (a : arr) : bool :=
  negb (arr_has_frac a) && arr_is_int a && negb raw && (nf f <? 0) && arr_absmax_ge a (2^53).
Definition vdt_is_int (vd : vdt) : bool := match vd with VInt => true | VFloat => false end.
Definition obj_path (f : fmt) (raw : bool) (a : arr) (vd : vdt) : bool :=
  existsb num_big64 (arr_nums a) || (64 <=? nw f) ||
  match conv_factor_int f raw, a with
  | Some k, AI64 l => (2^63 <=? k) || existsb (fun z => 2^63 <=? Z.abs z * k) l
  | Some k, AU64 l => if raw then false          (* raw unsigned codes keep their reinterpretation as int64 *)
                      else (2^63 <=? k) || existsb (fun z => 2^63 <=? Z.abs z * k) l
  | Some k, AObj l => arr_is_int a && ((2^63 <=? k) || existsb (fun x => 2^63 <=? num_abs_int x * k) l)
  | _, _ => false
  end ||
  (* integers of more than 53 bits are not cast to a float value type *)
  match conv_factor_int f raw, a with
  | Some _, AU64 _ => negb raw && negb (vdt_is_int vd) && arr_absmax_ge a (2^53)
  | Some _, _ => arr_is_int a && negb (vdt_is_int vd) && arr_absmax_ge a (2^53)
  | None, _ => false
  end ||
  arr_has_frac a || exact_factor f raw a.

(* val.astype(original_vdtype) on the non-object path (objects.py:851) *)
Definition astype_vd (a : arr) (vd : vdt) : outcome (list num) :=
  match vd, a with
  | VInt, AI64 l => Ok (map NI l)
  | VInt, AU64 l => Ok (map (fun z => NI (wrap_i64 z)) l)
  | VInt, AF64 l => mapM (fun x => bind (of_option (astype_i64 x)) (fun z => Ok (NI z))) l
  | VInt, AObj l => mapM (fun x => match num_int x with
                                   | Some z => if fits_i64 z then Ok (NI z) else Exc OverflowError
                                   | None => Exc OverflowError end) l
  | VFloat, AI64 l | VFloat, AU64 l => Ok (map (fun z => NF (f64_of_Z z)) l)
  | VFloat, AF64 l => Ok (map NF l)
  | VFloat, AObj l => Ok (map (fun x => NF (num_to_f64 x)) l)
  end.

(* val * conv_factor (objects.py:855, 765-775).  [machine] = the array has an int64
   dtype (products wrap); otherwise elements are Python objects or float64. *)
Definition scale_elem (f : fmt) (raw machine : bool) (x : num) : outcome num :=
  if raw then Ok x                                         (* conv_factor = 1 *)
  else if 0 <=? nf f then
    match x with
    | NI z => if machine
              then (if fits_i64 (2^(nf f)) then Ok (NI (wrap_i64 (z * 2^(nf f)))) else Exc OverflowError)
              else Ok (NI (z * 2^(nf f)))
    | NF v => Ok (NF (f64_mul_pow2 v (nf f)))
    | NR _ => Unmodelled                                   (* (rationals only arrive as raw values) *)
    end
  else match x with
       | NR _ => Unmodelled
       | _ => (* float factor 1/(1 << -n_frac); in a float64 array a non-zero value whose product underflows to zero is
                 replaced by the smallest double of its sign (Fxp._scale: ceil and floor need the sign) *)
              let v := num_to_f64 x in let y := f64_mul_pow2 v (nf f) in
              Ok (NF (if machine && f64_is_zero y && negb (f64_is_zero v)
                      then Fin (if f64_sign_neg v then -1 else 1) (-1074) else y)) end.

(* _round: identity on integers (machine or Python), NumPy rounding on floats — float64
   arrays as a whole, float elements of object arrays one by one (objects.py _round) *)
Definition round_elem (r : rmode) (is_obj : bool) (x : num) : num :=
  match x with
  | NI z => NI z
  | NF v => NF (np_round r v)
  | NR q => NI (round_dy r q) end.              (* Fxp._round_exact: round / math.floor / math.ceil / math.trunc of a Fraction *)

(* the integer an element denotes once it is cast to the storage dtype *)
Definition elem_to_code (x : num) : outcome Z :=
  match x with
  | NI z => Ok z
  | NF v => of_option (astype_i64 v)
  | NR _ => Unmodelled end.                     (* (every rational has been rounded to an integer before) *)
Definition elem_to_int (x : num) : outcome Z :=            (* int(x) on the object path *)
  match x with
  | NR _ => Unmodelled                          (* (every rational has been rounded to an integer before) *)
  | _ => match num_int x with Some z => Ok z | None => Exc OverflowError end end.

(* _overflow_action on one element: saturate = clip, wrap = utils.wrap *)
Definition overflow_elem (f : fmt) (o : omode) (is_obj : bool) (x : num) : outcome Z :=
  match o with
  | Saturate =>
      if elem_gt x (cmax f) then Ok (cmax f)
      else if elem_lt x (cmin f) then Ok (cmin f)
      else if is_obj then elem_to_int x else elem_to_code x
  | Wrap =>
      (* utils.wrap: Python integers for wide words and for object arrays, int64 otherwise *)
      bind (if (64 <=? nw f) || is_obj then elem_to_int x
            else elem_to_code x)
           (fun z => Ok (wrap_model (sg f) (nw f) z))
  end.

(* new_val / conv_factor compared with the input (objects.py:925) *)
Definition back_value (f : fmt) (raw is_obj : bool) (c : Z) : f64 :=
  let k := if raw then 0 else nf f in
  if is_obj then rnd64 c (- k)
  else f64_mul_pow2 (f64_of_Z c) (- k).
Definition inacc_elem (f : fmt) (raw is_obj : bool) (x : num) (c : Z) : bool :=
  let b := back_value f raw is_obj c in
  match x with
  | NI z => if is_obj then negb (match f64_to_dy b with Some d => dy_eqb d (dy_of_Z z) | None => false end)
            else negb (f64_eqb (f64_of_Z z) b)
  | NF v => negb (f64_eqb v b)
  | NR q => negb (dy_eqb q (dy_of_Z c)) end.    (* raw rationals: np.equal(val, new_val) on Fractions and integers is exact *)

Record wres := { w_codes : list Z; w_ovf : bool; w_unf : bool; w_inacc : bool }.

(* what one element contributes: its stored code and the three conditions *)
Record eres := { e_code : Z; e_gt : bool; e_lt : bool; e_inacc : bool }.
Definition elem_pipe (f : fmt) (r : rmode) (o : omode) (raw is_obj : bool) (x : num) : outcome eres :=
  bind (scale_elem f raw (negb is_obj) x) (fun s =>
  let rd := round_elem r is_obj s in
  bind (overflow_elem f o is_obj rd) (fun c =>
  Ok {| e_code := c; e_gt := elem_gt rd (cmax f); e_lt := elem_lt rd (cmin f);
        e_inacc := inacc_elem f raw is_obj x c |})).

(* set_val, real-valued path.  Returns the codes written and the three conditions
   raised by this write.  (The code performs each stage on the whole array before the
   next; since the stages are elementwise the result is the same, except for WHICH
   exception is reported when several elements fail in different stages.) *)
(* the same pipeline with the exact rational factor (exact_factor): z * Fraction(1, 1 << -n_frac), rounded
   exactly, overflow on Python integers, and the inaccuracy test new_val / conv_factor == val on rationals *)
Definition elem_pipe_q (f : fmt) (r : rmode) (o : omode) (x : num) : outcome eres :=
  match x with
  | NI z =>
      let rd := round_dy r {| dm := z; de := nf f |} in
      bind (overflow_elem f o true (NI rd)) (fun c =>
      Ok {| e_code := c; e_gt := cmax f <? rd; e_lt := rd <? cmin f;
            e_inacc := negb (dy_eqb (dy_of_Z z) {| dm := c; de := - nf f |}) |})
  | _ => Unmodelled end.

Definition set_val_real (f : fmt) (r : rmode) (o : omode) (raw : bool) (a : arr) (vd : vdt)
  : outcome wres :=
  let is_obj := obj_path f raw a vd in
  let xq := exact_factor f raw a in
  bind (if is_obj then Ok (arr_nums a) else astype_vd a vd) (fun vals =>
  bind (mapM (fun x => if xq then elem_pipe_q f r o x else elem_pipe f r o raw is_obj x) vals) (fun rs =>
  Ok {| w_codes := map e_code rs; w_ovf := existsb e_gt rs; w_unf := existsb e_lt rs;
        w_inacc := existsb e_inacc rs |})).

(* set_val, complex path (objects.py, second branch of set_val): the real and the imaginary
   parts are float64 arrays that go through scale and _round separately and through
   _overflow_action together (one report per write), then astype; the codes are rebuilt as a complex128 array
   (exact below 2^53).  The Python-object variant (real part beyond 2^64, or 64-bit words)
   is not modelled. *)
Record cwres := { cw_re : list Z; cw_im : list Z; cw_ovf : bool; cw_unf : bool; cw_inacc : bool }.
Definition set_val_complex (f : fmt) (r : rmode) (o : omode) (res ims : list f64) : outcome cwres :=
  if existsb num_big64 (map NF res) || (64 <=? nw f) then Unmodelled
  else
    bind (mapM (elem_pipe f r o false false) (map NF res)) (fun rr =>
    bind (mapM (elem_pipe f r o false false) (map NF ims)) (fun ri =>
    Ok {| cw_re := map e_code rr; cw_im := map e_code ri;
          cw_ovf := existsb e_gt rr || existsb e_gt ri; cw_unf := existsb e_lt rr || existsb e_lt ri;
          cw_inacc := existsb e_inacc rr || existsb e_inacc ri |})).

(* the value read back: astype(float) = raw_val / conv_factor (objects.py:976-978) *)
Definition get_val_f64 (f : fmt) (c : Z) : f64 := f64_mul_pow2 (f64_of_Z c) (- nf f).

(* callbacks invoked by one write, in call order (objects.py:1096,1099,927,930) *)
Inductive cbev := EvOvf | EvUnf | EvInacc | EvChange.
Definition write_events (w : wres) : list cbev :=
  (if w_ovf w then [EvOvf] else []) ++ (if w_unf w then [EvUnf] else []) ++
  (if w_inacc w then [EvInacc] else []) ++ [EvChange].
