(* SpecArith.v — what the arithmetic properties (C07, C08, C09, C19) mean: exact
   results as dyadics, the documented growth rules of the optimal result format. *)
From Coq Require Import ZArith List Bool.
From FxpVerif Require Import Spec.
Import ListNotations.
Open Scope Z_scope.

Inductive aop := OpAdd | OpSub | OpMul.

Definition exact_op (op : aop) (a b : dy) : dy :=
  match op with OpAdd => dy_add a b | OpSub => dy_sub a b | OpMul => dy_mul a b end.

Definition mkfmt (s : bool) (ni nfr : Z) : fmt := {| sg := s; nw := (if s then 1 else 0) + ni + nfr; nf := nfr |}.

(* sum/difference: one integer bit more than the wider operand and the finer fraction;
   product: sum of the word lengths and of the fraction lengths *)
Definition grow (op : aop) (fx fy : fmt) : fmt :=
  let s := sg fx || sg fy in
  match op with
  | OpAdd | OpSub => mkfmt s (Z.max (n_int fx) (n_int fy) + 1) (Z.max (nf fx) (nf fy))
  | OpMul => {| sg := s; nw := nw fx + nw fy; nf := nf fx + nf fy |}
  end.

(* the exact result of x op y on codes a, b *)
Definition exact_codes (op : aop) (fx : fmt) (a : Z) (fy : fmt) (b : Z) : dy :=
  exact_op op (val_of_code fx a) (val_of_code fy b).

(* C09 *)
Definition dy_floor_div (a b : dy) : Z :=          (* floor(a / b), b <> 0 *)
  let '(x, y, _) := dy_align a b in x / y.
Definition dy_mod (a b : dy) : dy :=               (* a - b * floor(a / b) *)
  let '(x, y, e) := dy_align a b in {| dm := x mod y; de := e |}.
(* optimal formats of the division family (functions.py:412-416, 450-454, 473-477) *)
Definition grow_truediv (fx fy : fmt) : fmt :=
  let s := sg fx || sg fy in mkfmt s (n_int fx + nf fy + (if s then 1 else 0)) (nf fx + n_int fy).
Definition grow_floordiv (fx fy : fmt) : fmt :=
  let s := sg fx || sg fy in mkfmt s (n_int fx + nf fy + (if s then 1 else 0)) 0.
Definition grow_mod (fx fy : fmt) : fmt :=
  let s := sg fx || sg fy in
  mkfmt s (if s then Z.max (n_int fx) (n_int fy) else Z.min (n_int fx) (n_int fy)) (Z.max (nf fx) (nf fy)).

(* C09 reference results as integer codes of the optimal formats.
   truediv: x/y = (a/b) * 2^(nfy - nfx); in units of 2^-nfr (nfr = nf (grow_truediv)) the
   exact quotient is a * 2^k / b with k = nfr - nfx + nfy; the two representable neighbours
   are floor and floor + 1 (equal when the division is exact). *)
Definition truediv_k (fx fy : fmt) : Z := nf (grow_truediv fx fy) - nf fx + nf fy.
Definition truediv_floor (fx : fmt) (a : Z) (fy : fmt) (b : Z) : Z := (a * 2^(truediv_k fx fy)) / b.
Definition truediv_exactb (fx : fmt) (a : Z) (fy : fmt) (b : Z) : bool := (a * 2^(truediv_k fx fy)) mod b =? 0.
Definition floordiv_code (fx : fmt) (a : Z) (fy : fmt) (b : Z) : Z := dy_floor_div (val_of_code fx a) (val_of_code fy b).
(* x mod y in units of 2^-max(nfx, nfy) *)
Definition mod_code (fx : fmt) (a : Z) (fy : fmt) (b : Z) : Z :=
  let nfr := Z.max (nf fx) (nf fy) in (a * 2^(nfr - nf fx)) mod (b * 2^(nfr - nf fy)).
