(* ProofsBitwise.v — C13: the result of ~ & | ^ is the in-range code whose n_word-bit
   two's-complement pattern is the bitwise NOT/AND/OR/XOR of the operands' patterns. *)
From Coq Require Import ZArith List Bool Lia ZifyBool.
From FxpVerif Require Import Spec NP Store ProofsCore ProofsStore ProofsConvert ProofsArith Bitwise.
Import ListNotations.
Open Scope Z_scope.
Ltac Zify.zify_post_hook ::= Z.to_euclidean_division_equations.

(* the code of a format whose n-bit pattern is u (0 <= u < 2^n) *)
Definition code_of_pattern (f : fmt) (u : Z) : Z := if sg f then (if u <? 2^(nw f - 1) then u else u - 2^(nw f)) else u.

Lemma pattern_code f u : 1 <= nw f -> 0 <= u < 2^(nw f) ->
  in_range f (code_of_pattern f u) /\ (code_of_pattern f u) mod 2^(nw f) = u.
Proof.
  intros Hw Hu. unfold code_of_pattern, in_range, cmin, cmax.
  assert (E: 2^(nw f) = 2 * 2^(nw f - 1)) by (apply pow2_double; lia). assert (0 < 2^(nw f - 1)) by (apply pow2_pos; lia).
  destruct (sg f).
  - destruct (u <? 2^(nw f - 1)) eqn:Eu.
    + split; [lia|apply Z.mod_small; lia].
    + split; [lia|]. symmetry. apply (Z.mod_unique_pos _ _ (-1)); lia.
  - split; [lia|apply Z.mod_small; lia].
Qed.

(* testing the sign bit by land is the comparison with 2^(n-1) *)
Lemma sign_bit_test v n : 1 <= n -> 0 <= v < 2^n -> (Z.land v (2^(n - 1)) =? 0) = (v <? 2^(n - 1)).
Proof.
  intros Hn Hv. assert (Hp: 0 < 2^(n - 1)) by (apply pow2_pos; lia). assert (E: 2^n = 2 * 2^(n - 1)) by (apply pow2_double; lia).
  destruct (v <? 2^(n - 1)) eqn:Ev.
  - apply Z.eqb_eq. apply Z.bits_inj'. intros i Hi. rewrite Z.land_spec, Z.bits_0, Z.pow2_bits_eqb by lia.
    destruct (Z.eqb_spec (n - 1) i) as [<-|Hne]; [|apply andb_false_r].
    rewrite andb_true_r. destruct (Z.eq_dec v 0) as [->|Hnz]; [apply Z.bits_0|].
    apply Z.bits_above_log2; [lia|]. apply Z.log2_lt_pow2; lia.
  - apply Z.eqb_neq. intros Hc.
    assert (Hb: Z.testbit (Z.land v (2^(n - 1))) (n - 1) = true).
    { rewrite Z.land_spec, Z.pow2_bits_true by lia. rewrite andb_true_r.
      (* v in [2^(n-1), 2^n): bit n-1 is set *)
      replace v with ((v - 2^(n - 1)) + 2^(n - 1)) by lia.
      rewrite <- (Z.mul_1_l (2^(n - 1))) at 2. rewrite Z.add_comm.
      rewrite Z.testbit_eqb by lia. rewrite Z.div_add_l by lia.
      rewrite (Z.div_small (v - 2^(n - 1))) by lia. reflexivity. }
    rewrite Hc, Z.bits_0 in Hb. discriminate.
Qed.

Lemma twos_complement_pattern f v : 1 <= nw f -> sg f = true -> 0 <= v < 2^(nw f) ->
  twos_complement_repr v (nw f) = code_of_pattern f v.
Proof.
  intros Hw Hs Hv. unfold twos_complement_repr, code_of_pattern. rewrite Hs.
  replace (v <? 0) with false by lia. rewrite Z.mod_small by lia. rewrite sign_bit_test by assumption. reflexivity.
Qed.

Lemma bop_range b x y n : 0 <= n -> 0 <= x < 2^n -> 0 <= y < 2^n -> 0 <= z_bop b x y < 2^n.
Proof.
  intros Hn Hx Hy.
  assert (Hlt: forall z, 0 <= z -> (forall i, n <= i -> Z.testbit z i = false) -> z < 2^n).
  { intros z Hz Hb. destruct (Z.eq_dec z 0) as [->|Hnz]; [apply pow2_pos; lia|].
    destruct (Z_lt_le_dec z (2^n)) as [|Hge]; [assumption|exfalso].
    assert (Hl: n <= Z.log2 z) by (apply Z.log2_le_pow2; lia).
    specialize (Hb (Z.log2 z) Hl). rewrite Z.bit_log2 in Hb by lia. discriminate. }
  assert (Hhi: forall z, 0 <= z < 2^n -> forall i, n <= i -> Z.testbit z i = false).
  { intros z Hz i Hi. destruct (Z.eq_dec z 0) as [->|Hnz]; [apply Z.bits_0|].
    apply Z.bits_above_log2; [lia|]. assert (Z.log2 z < n) by (apply Z.log2_lt_pow2; lia). lia. }
  destruct b; cbn [z_bop]; split.
  - apply Z.land_nonneg. lia.
  - apply Hlt; [apply Z.land_nonneg; lia|]. intros i Hi. rewrite Z.land_spec, (Hhi x Hx i Hi). reflexivity.
  - apply Z.lor_nonneg. lia.
  - apply Hlt; [apply Z.lor_nonneg; lia|]. intros i Hi. rewrite Z.lor_spec, (Hhi x Hx i Hi), (Hhi y Hy i Hi). reflexivity.
  - apply Z.lxor_nonneg. lia.
  - apply Hlt; [apply Z.lxor_nonneg; lia|]. intros i Hi. rewrite Z.lxor_spec, (Hhi x Hx i Hi), (Hhi y Hy i Hi). reflexivity.
Qed.

(* the raw value of x <op> y is the code whose pattern is pattern(x) op pattern(y) *)
Theorem bitwise_raw_spec b fx cx cy : 1 <= nw fx ->
  let u := z_bop b (uimage (nw fx) cx) (uimage (nw fx) cy) in
  bitwise_raw b fx cx cy = code_of_pattern fx u /\ in_range fx (bitwise_raw b fx cx cy) /\
  uimage (nw fx) (bitwise_raw b fx cx cy) = u.
Proof.
  intros Hw. cbv zeta. unfold bitwise_raw, binary_op, uimage.
  assert (HM: 0 < 2^(nw fx)) by (apply pow2_pos; lia).
  pose proof (Z.mod_pos_bound cx (2^(nw fx)) HM) as Bx. pose proof (Z.mod_pos_bound cy (2^(nw fx)) HM) as By.
  pose proof (bop_range b _ _ (nw fx) ltac:(lia) Bx By) as Bu.
  set (u := z_bop b (cx mod 2^(nw fx)) (cy mod 2^(nw fx))) in *.
  assert (E: (if sg fx then twos_complement_repr u (nw fx) else u) = code_of_pattern fx u).
  { destruct (sg fx) eqn:Es; [apply twos_complement_pattern; assumption|]. unfold code_of_pattern. rewrite Es. reflexivity. }
  rewrite E. destruct (pattern_code fx u Hw Bu) as (Hr & Hm). auto.
Qed.

Theorem invert_raw_spec fx cx : 1 <= nw fx -> in_range fx cx ->
  let u := 2^(nw fx) - 1 - uimage (nw fx) cx in
  invert_raw fx cx = code_of_pattern fx u /\ in_range fx (invert_raw fx cx) /\ uimage (nw fx) (invert_raw fx cx) = u.
Proof.
  intros Hw Hr. cbv zeta. unfold invert_raw, binary_invert, uimage.
  assert (HM: 0 < 2^(nw fx)) by (apply pow2_pos; lia). pose proof (Z.mod_pos_bound cx (2^(nw fx)) HM) as Bx.
  set (M := 2^(nw fx)) in *. set (u := M - 1 - cx mod M).
  assert (Bu: 0 <= u < M) by (unfold u; lia).
  assert (E2: M = 2 * 2^(nw fx - 1)) by (apply pow2_double; lia). assert (0 < 2^(nw fx - 1)) by (apply pow2_pos; lia).
  unfold in_range, cmin, cmax in Hr. fold M in Hr.
  assert (E: (if sg fx then twos_complement_repr (M - 1 - cx) (nw fx) else M - 1 - cx) = code_of_pattern fx u).
  { destruct (sg fx) eqn:Es.
    - (* signed: M - 1 - cx may exceed M when cx is negative; twos_complement_repr reduces it *)
      unfold twos_complement_repr. fold M. replace (M - 1 - cx <? 0) with false by lia.
      assert (Em: (M - 1 - cx) mod M = u).
      { unfold u. destruct (Z_lt_le_dec cx 0).
        - replace (cx mod M) with (cx + M) by (apply (Z.mod_unique_pos _ _ (-1)); lia).
          symmetry. apply (Z.mod_unique_pos _ _ 1); lia.
        - rewrite (Z.mod_small cx) by lia. apply Z.mod_small. lia. }
      rewrite Em. rewrite sign_bit_test by (try lia; exact Bu). unfold code_of_pattern. rewrite Es. reflexivity.
    - unfold code_of_pattern. rewrite Es. unfold u. rewrite Z.mod_small by lia. reflexivity. }
  rewrite E. destruct (pattern_code fx u Hw Bu) as (Hr' & Hm). auto.
Qed.

(* ~~x == x and ~x == -x - LSB (signed) *)
Theorem invert_involutive fx cx : 1 <= nw fx -> in_range fx cx -> invert_raw fx (invert_raw fx cx) = cx.
Proof.
  intros Hw Hr. destruct (invert_raw_spec fx cx Hw Hr) as (_ & Hr1 & Hu1).
  destruct (invert_raw_spec fx (invert_raw fx cx) Hw Hr1) as (E2 & _ & _). rewrite E2, Hu1.
  unfold uimage. replace (2^(nw fx) - 1 - (2^(nw fx) - 1 - cx mod 2^(nw fx))) with (cx mod 2^(nw fx)) by lia.
  assert (HM: 0 < 2^(nw fx)) by (apply pow2_pos; lia). pose proof (Z.mod_pos_bound cx (2^(nw fx)) HM).
  unfold code_of_pattern, in_range, cmin, cmax in *.
  assert (E: 2^(nw fx) = 2 * 2^(nw fx - 1)) by (apply pow2_double; lia). assert (0 < 2^(nw fx - 1)) by (apply pow2_pos; lia).
  destruct (sg fx).
  - destruct (Z_lt_le_dec cx 0).
    + replace (cx mod 2^(nw fx)) with (cx + 2^(nw fx)) by (apply (Z.mod_unique_pos _ _ (-1)); lia).
      replace (cx + 2^(nw fx) <? 2^(nw fx - 1)) with false by lia. lia.
    + rewrite Z.mod_small by lia. replace (cx <? 2^(nw fx - 1)) with true by lia. reflexivity.
  - apply Z.mod_small. lia.
Qed.
Theorem invert_signed_neg fx cx : 1 <= nw fx -> sg fx = true -> in_range fx cx -> invert_raw fx cx = - cx - 1.
Proof.
  intros Hw Hs Hr. destruct (invert_raw_spec fx cx Hw Hr) as (E & _ & _). rewrite E. unfold uimage, code_of_pattern. rewrite Hs.
  unfold in_range, cmin, cmax in Hr. rewrite Hs in Hr.
  assert (HM: 0 < 2^(nw fx)) by (apply pow2_pos; lia).
  assert (E2: 2^(nw fx) = 2 * 2^(nw fx - 1)) by (apply pow2_double; lia). assert (0 < 2^(nw fx - 1)) by (apply pow2_pos; lia).
  destruct (Z_lt_le_dec cx 0).
  - replace (cx mod 2^(nw fx)) with (cx + 2^(nw fx)) by (apply (Z.mod_unique_pos _ _ (-1)); lia).
    replace (2^(nw fx) - 1 - (cx + 2^(nw fx)) <? 2^(nw fx - 1)) with true by lia. lia.
  - rewrite Z.mod_small by lia. replace (2^(nw fx) - 1 - cx <? 2^(nw fx - 1)) with false by lia. lia.
Qed.

(* operands of different word lengths are rejected *)
Theorem mismatch_rejected b fx cx nwy cy r o : nw fx <> nwy -> fxp_bitwise b fx cx true nwy cy r o = Exc ValueError.
Proof. intros H. unfold fxp_bitwise. replace (nw fx =? nwy) with false by lia. reflexivity. Qed.

(* storing the raw value: the object holds exactly that code, no flag (any word length) *)
Lemma raw_arr_store f r o z : 1 <= nw f -> in_range f z ->
  exists w, set_val_real f r o true (raw_arr f z) VInt = Ok w /\ w_codes w = [z] /\ w_ovf w = false /\ w_unf w = false.
Proof.
  intros Hw Hr.
  assert (Hfin: forall w, int_wres f o [z] w -> w_codes w = [z] /\ w_ovf w = false /\ w_unf w = false).
  { intros w (Hc & Ho & Hu). cbn [map existsb] in *. rewrite Hc, Ho, Hu. rewrite overflow_id by assumption.
    unfold in_range in Hr. repeat split; lia. }
  unfold raw_arr. destruct (64 <=? nw f) eqn:E64.
  - destruct (set_val_raw_obj f r o [z] Hw) as (w & Hs & Hi). exists w. split; [exact Hs|apply Hfin; exact Hi].
  - destruct (fits_i64 z) eqn:Ef.
    + assert (Hzb: Z.abs z < 2^63).
      { unfold in_range, cmin, cmax in Hr. assert (2^(nw f - 1) <= 2^62) by (apply pow2_le; lia). assert (2^(nw f) <= 2^63) by (apply pow2_le; lia).
        assert (2^62 < 2^63) by (apply pow2_lt; lia). assert (0 < 2^(nw f - 1)) by (apply pow2_pos; lia). destruct (sg f); lia. }
      destruct (set_val_raw_i64 f r o [z] Hw ltac:(constructor; [exact Hzb|constructor])) as (w & Hs & Hi).
      exists w. split; [exact Hs|apply Hfin; exact Hi].
    + destruct (set_val_raw_obj f r o [z] Hw) as (w & Hs & Hi). exists w. split; [exact Hs|apply Hfin; exact Hi].
Qed.

Theorem fxp_bitwise_spec b fx cx cy r o : 1 <= nw fx ->
  exists w, fxp_bitwise b fx cx false 0 cy r o = Ok w /\
    w_codes w = [code_of_pattern fx (z_bop b (uimage (nw fx) cx) (uimage (nw fx) cy))] /\ w_ovf w = false /\ w_unf w = false.
Proof.
  intros Hw. unfold fxp_bitwise. cbn [andb]. destruct (bitwise_raw_spec b fx cx cy Hw) as (E & Hr & _).
  rewrite <- E. apply raw_arr_store; assumption.
Qed.
Theorem fxp_invert_spec fx cx r o : 1 <= nw fx -> in_range fx cx ->
  exists w, fxp_invert fx cx r o = Ok w /\
    w_codes w = [code_of_pattern fx (2^(nw fx) - 1 - uimage (nw fx) cx)] /\ w_ovf w = false /\ w_unf w = false.
Proof.
  intros Hw Hr. unfold fxp_invert. destruct (invert_raw_spec fx cx Hw Hr) as (E & Hr' & _).
  rewrite <- E. apply raw_arr_store; assumption.
Qed.

(* ---------- De Morgan's laws on the n-bit patterns, hence on the codes ---------- *)
Lemma compl_ldiff n u : 0 <= n -> 0 <= u < 2^n -> 2^n - 1 - u = Z.ldiff (Z.ones n) u.
Proof.
  intros Hn Hu. rewrite Z.ones_equiv. replace (2^n - 1 - u) with (Z.pred (2^n) - u) by lia.
  apply Z.sub_nocarry_ldiff. apply Z.bits_inj'. intros i Hi. rewrite Z.ldiff_spec, Z.bits_0.
  rewrite <- Z.ones_equiv. destruct (Z_lt_le_dec i n).
  - rewrite Z.ones_spec_low by lia. apply andb_false_r.
  - destruct (Z.eq_dec u 0) as [->|Hnz]; [rewrite Z.bits_0; reflexivity|].
    rewrite Z.bits_above_log2; [reflexivity|lia|]. assert (Z.log2 u < n) by (apply Z.log2_lt_pow2; lia). lia.
Qed.

Lemma demorgan_patterns n x y : 0 <= n -> 0 <= x < 2^n -> 0 <= y < 2^n ->
  2^n - 1 - Z.land x y = Z.lor (2^n - 1 - x) (2^n - 1 - y) /\
  2^n - 1 - Z.lor x y = Z.land (2^n - 1 - x) (2^n - 1 - y).
Proof.
  intros Hn Hx Hy.
  pose proof (bop_range BAnd x y n Hn Hx Hy) as Ba. pose proof (bop_range BOr x y n Hn Hx Hy) as Bo. cbn [z_bop] in Ba, Bo.
  rewrite !compl_ldiff by assumption. split; apply Z.bits_inj'; intros i Hi;
    rewrite ?Z.ldiff_spec, ?Z.lor_spec, ?Z.land_spec, ?Z.ldiff_spec;
    destruct (Z.testbit (Z.ones n) i), (Z.testbit x i), (Z.testbit y i); reflexivity.
Qed.

Theorem demorgan fx cx cy : 1 <= nw fx -> in_range fx cx -> in_range fx cy ->
  invert_raw fx (bitwise_raw BAnd fx cx cy) = bitwise_raw BOr fx (invert_raw fx cx) (invert_raw fx cy) /\
  invert_raw fx (bitwise_raw BOr fx cx cy) = bitwise_raw BAnd fx (invert_raw fx cx) (invert_raw fx cy).
Proof.
  intros Hw Hx Hy.
  assert (HM: 0 < 2^(nw fx)) by (apply pow2_pos; lia).
  pose proof (Z.mod_pos_bound cx (2^(nw fx)) HM) as Bx. pose proof (Z.mod_pos_bound cy (2^(nw fx)) HM) as By.
  destruct (invert_raw_spec fx cx Hw Hx) as (_ & _ & Ux). destruct (invert_raw_spec fx cy Hw Hy) as (_ & _ & Uy).
  destruct (demorgan_patterns (nw fx) _ _ ltac:(lia) Bx By) as (D1 & D2). fold (uimage (nw fx) cx) in D1, D2. fold (uimage (nw fx) cy) in D1, D2.
  split.
  - destruct (bitwise_raw_spec BAnd fx cx cy Hw) as (_ & Hr & Hu). cbn [z_bop] in Hu.
    destruct (invert_raw_spec fx _ Hw Hr) as (E1 & _ & _). rewrite E1, Hu.
    destruct (bitwise_raw_spec BOr fx (invert_raw fx cx) (invert_raw fx cy) Hw) as (E2 & _ & _). rewrite E2. cbn [z_bop].
    rewrite Ux, Uy, D1. reflexivity.
  - destruct (bitwise_raw_spec BOr fx cx cy Hw) as (_ & Hr & Hu). cbn [z_bop] in Hu.
    destruct (invert_raw_spec fx _ Hw Hr) as (E1 & _ & _). rewrite E1, Hu.
    destruct (bitwise_raw_spec BAnd fx (invert_raw fx cx) (invert_raw fx cy) Hw) as (E2 & _ & _). rewrite E2. cbn [z_bop].
    rewrite Ux, Uy, D2. reflexivity.
Qed.

(* ---- arrays of codes ---- *)
Lemma raw_arr_list_store f r o zs : 1 <= nw f -> Forall (in_range f) zs ->
  exists w, set_val_real f r o true (raw_arr_list f zs) VInt = Ok w /\ w_codes w = zs /\ w_ovf w = false /\ w_unf w = false.
Proof.
  intros Hw Hr.
  assert (Hfin: forall w, int_wres f o zs w -> w_codes w = zs /\ w_ovf w = false /\ w_unf w = false).
  { intros w (Hc & Ho & Hu). rewrite Hc, Ho, Hu. clear Hc Ho Hu. induction Hr as [|z zs Hz _ IH]; [repeat split; reflexivity|].
    destruct IH as (I1 & I2 & I3). cbn [map existsb]. rewrite I1, I2, I3. rewrite overflow_id by assumption.
    unfold in_range in Hz. replace (cmax f <? z) with false by lia. replace (z <? cmin f) with false by lia. repeat split; reflexivity. }
  unfold raw_arr_list. destruct ((64 <=? nw f) || negb (forallb fits_i64 zs)) eqn:E.
  - destruct (set_val_raw_obj f r o zs Hw) as (w & Hs & Hi). exists w. split; [exact Hs|apply Hfin; exact Hi].
  - apply orb_false_iff in E. destruct E as (E64 & _).
    assert (Hzb: Forall (fun z => Z.abs z < 2^63) zs).
    { apply Forall_forall. intros z Hin. rewrite Forall_forall in Hr. specialize (Hr z Hin).
      unfold in_range, cmin, cmax in Hr. assert (2^(nw f - 1) <= 2^62) by (apply pow2_le; lia). assert (2^(nw f) <= 2^63) by (apply pow2_le; lia).
      assert (2^62 < 2^63) by (apply pow2_lt; lia). assert (0 < 2^(nw f - 1)) by (apply pow2_pos; lia). destruct (sg f); lia. }
    destruct (set_val_raw_i64 f r o zs Hw Hzb) as (w & Hs & Hi). exists w. split; [exact Hs|apply Hfin; exact Hi].
Qed.

(* x <op> y on arrays: every pair of codes gives the code of x's format whose pattern is the AND / OR / XOR of the two patterns *)
Theorem fxp_bitwise_arr_spec b fx cxs cys ps r o : 1 <= nw fx -> pair_codes cxs cys = Some ps ->
  exists w, fxp_bitwise_arr b fx cxs false 0 cys r o = Ok w /\
    w_codes w = map (fun p => code_of_pattern fx (z_bop b (uimage (nw fx) (fst p)) (uimage (nw fx) (snd p)))) ps /\
    w_ovf w = false /\ w_unf w = false.
Proof.
  intros Hw Hp. unfold fxp_bitwise_arr. cbn [andb]. rewrite Hp.
  assert (E: map (fun p => bitwise_raw b fx (fst p) (snd p)) ps =
             map (fun p => code_of_pattern fx (z_bop b (uimage (nw fx) (fst p)) (uimage (nw fx) (snd p)))) ps).
  { apply map_ext. intros p. apply (bitwise_raw_spec b fx (fst p) (snd p) Hw). }
  rewrite <- E. apply raw_arr_list_store; [exact Hw|].
  apply Forall_forall. intros z Hin. apply in_map_iff in Hin. destruct Hin as (p & <- & _).
  apply (bitwise_raw_spec b fx (fst p) (snd p) Hw).
Qed.
Theorem fxp_invert_arr_spec fx cxs r o : 1 <= nw fx -> Forall (in_range fx) cxs ->
  exists w, fxp_invert_arr fx cxs r o = Ok w /\
    w_codes w = map (fun c => code_of_pattern fx (2^(nw fx) - 1 - uimage (nw fx) c)) cxs /\ w_ovf w = false /\ w_unf w = false.
Proof.
  intros Hw Hr. unfold fxp_invert_arr.
  assert (E: map (invert_raw fx) cxs = map (fun c => code_of_pattern fx (2^(nw fx) - 1 - uimage (nw fx) c)) cxs).
  { apply map_ext_in. intros c Hin. rewrite Forall_forall in Hr. apply (invert_raw_spec fx c Hw (Hr c Hin)). }
  rewrite <- E. apply raw_arr_list_store; [exact Hw|].
  apply Forall_forall. intros z Hin. apply in_map_iff in Hin. destruct Hin as (c & <- & Hc).
  rewrite Forall_forall in Hr. apply (invert_raw_spec fx c Hw (Hr c Hc)).
Qed.
(* pairing: equal lengths pair position by position; a single element is paired with every element of the other operand *)
Lemma pair_codes_same xs ys : length xs = length ys -> pair_codes xs ys = Some (combine xs ys).
Proof. intros H. unfold pair_codes. rewrite H, Nat.eqb_refl. reflexivity. Qed.
Lemma pair_codes_scalar_left x ys : pair_codes [x] ys = Some (map (fun y => (x, y)) ys).
Proof.
  unfold pair_codes. destruct (Nat.eqb (length [x]) (length ys)) eqn:E; [|reflexivity].
  apply Nat.eqb_eq in E. destruct ys as [|y [|y' ys]]; try discriminate. reflexivity.
Qed.
