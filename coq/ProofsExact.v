(* ProofsExact.v — the exact-rational region of the code (fix 9bf56de and its relatives): raw values of
   more than 53 bits rescaled by a negative power of two, and integer inputs of more than 53 bits stored
   into a format with a negative fraction length, travel as exact rationals (fractions.Fraction) and
   are rounded ONCE, by the destination's rounding mode.  The theorems here carry no bound on the
   width of the source, of the destination or of the values. *)
From Coq Require Import ZArith List Bool Lia ZifyBool.
From FxpVerif Require Import Spec SpecArith NP Store ProofsCore ProofsStore ProofsRound ProofsHuge ProofsRawImposed Convert ProofsConvert.
Import ListNotations.
Open Scope Z_scope.
Ltac Zify.zify_post_hook ::= Z.to_euclidean_division_equations.

(* _overflow_action on a Python integer of any size, any word length *)
Lemma overflow_elem_pyint f o z : 1 <= nw f -> overflow_elem f o true (NI z) = Ok (overflow o f z).
Proof.
  intros Hw. unfold overflow_elem, elem_gt, elem_lt.
  pose proof (range_width f Hw) as Hrw. assert (0 < 2^(nw f)) by (apply pow2_pos; lia).
  destruct o; cbn [overflow].
  - unfold sat. destruct (cmax f <? z) eqn:E1; [f_equal; lia|].
    destruct (z <? cmin f) eqn:E2; [f_equal; lia|]. cbn [elem_to_int num_int]. f_equal. lia.
  - rewrite orb_true_r. cbn [elem_to_int num_int bind]. f_equal. apply wrap_model_res. lia.
Qed.

(* ---------- a raw exact rational (utils.scale_raw with a negative shift) through set_val(raw=True) ---------- *)
Lemma elem_pipe_raw_rational f r o q v : 1 <= nw f -> dy_eqb q (dy_scale (nf f) v) = true ->
  elem_pipe f r o true true (NR q) = Ok (spec_eres f r o v).
Proof.
  intros Hw Hq. unfold elem_pipe. cbn [negb scale_elem bind round_elem].
  rewrite overflow_elem_pyint by exact Hw. cbn [bind elem_gt elem_lt].
  rewrite <- (raw_eres_spec f r o q v Hq). unfold raw_eres. cbv zeta. f_equal. f_equal.
  unfold inacc_elem. rewrite dy_eqb_sym. reflexivity.
Qed.

Lemma arr_has_frac_map (g : Z -> dy) cs : cs <> [] -> arr_has_frac (AObj (map (fun c => NR (g c)) cs)) = true.
Proof. intros H. destruct cs as [|c cs]; [congruence|]. reflexivity. Qed.

Lemma obj_path_frac f raw a vd : arr_has_frac a = true -> obj_path f raw a vd = true.
Proof. intros H. unfold obj_path. rewrite H. rewrite orb_true_r. reflexivity. Qed.

(* the conversion model on codes that need the exact path: ANY source format, ANY destination word *)
Theorem convert_exact rt fs fd r o codes : 1 <= nw fd -> nf fd - nf fs < 0 ->
  existsb (fun c => 2^53 <=? Z.abs c) codes = true ->
  convert rt fs codes fd r o = Ok (spec_wres fd r o (map (val_of_code fs) codes)).
Proof.
  intros Hw Hs Hbig. unfold convert. set (shift := nf fd - nf fs) in *.
  unfold scale_raw. replace (0 <? shift) with false by lia. replace (shift =? 0) with false by lia. rewrite Hbig.
  assert (Hne: codes <> []) by (intros ->; discriminate).
  pose proof (obj_path_frac fd true _ (conv_vdt rt shift) (arr_has_frac_map (fun c => {| dm := c; de := shift |}) codes Hne)) as Hobj.
  rewrite (set_val_real_eq _ _ _ _ _ _ _ Hobj (exact_factor_raw _ _)). cbn [arr_nums bind].
  rewrite (mapM_Forall2 _ (spec_eres fd r o) _ (map (val_of_code fs) codes)).
  - cbn [bind]. unfold spec_wres. rewrite !map_map, !existsb_map. reflexivity.
  - clear - Hw. induction codes as [|c cs IH]; cbn [map]; constructor; [|exact IH].
    apply elem_pipe_raw_rational; [lia|].
    unfold dy_scale, val_of_code. cbn [dm de]. replace (- nf fs + nf fd) with shift by (unfold shift; lia). apply dy_eqb_refl.
Qed.

(* with the float path below 2^53 (convert_core's negative-shift branch does not depend on the source being a
   core format): every conversion to FEWER fraction bits into a core destination, from a source of any width *)
Lemma elem_pipe_raw_float_spec f r o c k v : 1 <= nw f <= 52 -> Z.abs c < 2^53 -> -1074 <= k < 0 ->
  dy_eqb {| dm := c; de := k |} (dy_scale (nf f) v) = true ->
  elem_pipe f r o true false (NF (Fin c k)) = Ok (spec_eres f r o v).
Proof.
  intros Hw Hc Hk Hq.
  pose proof (ProofsRawImposed.elem_pipe_raw_float f r o {| dm := c; de := k |} Hw) as H. cbn [dm de] in H.
  rewrite H by lia. f_equal. apply raw_eres_spec. exact Hq.
Qed.

Theorem convert_fewer_fraction_bits rt fs fd r o codes : 1 <= nw fd <= 52 -> -1074 <= nf fd - nf fs < 0 -> codes <> [] ->
  convert rt fs codes fd r o = Ok (spec_wres fd r o (map (val_of_code fs) codes)).
Proof.
  intros Hw Hs Hne. destruct (existsb (fun c => 2^53 <=? Z.abs c) codes) eqn:Ebig.
  - apply convert_exact; [lia|lia|exact Ebig].
  - unfold convert. set (shift := nf fd - nf fs) in *.
    unfold scale_raw. replace (0 <? shift) with false by lia. replace (shift =? 0) with false by lia. rewrite Ebig.
    assert (Hb: Forall (fun c => Z.abs c < 2^53) codes).
    { apply Forall_forall. intros c Hin. destruct (2^53 <=? Z.abs c) eqn:E; [|lia]. exfalso.
      assert (existsb (fun c => 2^53 <=? Z.abs c) codes = true) by (apply existsb_exists; exists c; auto). congruence. }
    assert (Hvals: map (fun c => f64_mul_pow2 (f64_of_Z c) shift) codes = map (fun c => Fin c shift) codes).
    { apply map_ext_in. intros c Hc. rewrite Forall_forall in Hb. specialize (Hb c Hc). cbv beta in Hb.
      rewrite f64_of_Z_exact by lia. cbn [f64_mul_pow2]. replace (0 + shift) with shift by lia.
      apply rnd64_exact. pose proof (bitlen_le c 53 ltac:(lia) ltac:(lia)). pose proof (bitlen_nonneg c). unfold fits53. lia. }
    rewrite Hvals.
    assert (Evd: conv_vdt rt shift = VFloat) by (unfold conv_vdt; replace (shift <? 0) with true by lia; reflexivity).
    rewrite Evd.
    assert (Hobj: obj_path fd true (AF64 (map (fun c => Fin c shift) codes)) VFloat = false).
    { rewrite obj_path_AF64. rewrite map_map, existsb_map.
      replace (64 <=? nw fd) with false by lia. rewrite !orb_false_r.
      apply existsb_false. eapply Forall_impl; [|exact Hb]. intros c Hc. cbv beta in *.
      unfold num_big64, f64_floor_Z. replace (0 <=? shift) with false by lia.
      assert (0 < 2^(- shift)) by (apply pow2_pos; lia). assert (2^53 < 2^64) by (apply pow2_lt; lia). nia. }
    rewrite (set_val_real_eq _ _ _ _ _ _ _ Hobj (exact_factor_AF64 _ _ _)). cbn [astype_vd bind]. rewrite map_map.
    rewrite (mapM_Forall2 _ (spec_eres fd r o) _ (map (val_of_code fs) codes)).
    + cbn [bind]. unfold spec_wres. rewrite !map_map, !existsb_map. reflexivity.
    + clear - Hb Hw Hs. induction Hb as [|c cs Hc _ IH]; cbn [map]; constructor; [|exact IH].
      apply elem_pipe_raw_float_spec; try lia.
      unfold dy_scale, val_of_code. cbn [dm de]. replace (- nf fs + nf fd) with (nf fd - nf fs) by lia. apply dy_eqb_refl.
Qed.

(* ---------- integers of more than 53 bits stored (not raw) into a format with a negative fraction length ---------- *)
Lemma elem_pipe_q_spec f r o z : 1 <= nw f -> elem_pipe_q f r o (NI z) = Ok (spec_eres f r o (dy_of_Z z)).
Proof.
  intros Hw. unfold elem_pipe_q. rewrite overflow_elem_pyint by exact Hw. cbn [bind].
  unfold spec_eres, quantize, ovf_cond, unf_cond, inacc_cond, dy_scale, dy_of_Z, val_of_code. cbn [dm de].
  f_equal. f_equal. f_equal. unfold quantize, dy_scale. cbn [dm de]. apply dy_eqb_sym.
Qed.

Theorem set_val_wide_ints_negative_nfrac f r o zs : 1 <= nw f -> nf f < 0 ->
  existsb (fun z => 2^53 <=? Z.abs z) zs = true ->
  set_val_real f r o false (AI64 zs) VInt = Ok (spec_wres f r o (map dy_of_Z zs)).
Proof.
  intros Hw Hf Hbig. unfold set_val_real.
  assert (Hxq: exact_factor f false (AI64 zs) = true).
  { unfold exact_factor. cbn [arr_has_frac arr_is_int negb andb]. replace (nf f <? 0) with true by lia. rewrite absmax_AI64, Hbig. reflexivity. }
  assert (Hobj: obj_path f false (AI64 zs) VInt = true) by (unfold obj_path; rewrite Hxq; rewrite orb_true_r; reflexivity).
  rewrite Hobj, Hxq. cbn [arr_nums bind].
  rewrite (mapM_Forall2 _ (spec_eres f r o) _ (map dy_of_Z zs)).
  - cbn [bind]. unfold spec_wres. rewrite !map_map, !existsb_map. reflexivity.
  - clear - Hw. induction zs as [|z zs IH]; cbn [map]; constructor; [|exact IH]. apply elem_pipe_q_spec. exact Hw.
Qed.

(* ---------- a product of more than 53 bits stored into a format with FEWER fraction bits (the wrap register of C03,
   the imposed formats of C08 beyond their 12-bit domain): operands of any width ---------- *)
From FxpVerif Require Import Arith ProofsArith.

(* the raw product of _mul_raw is the exact product, in a dtype that carries it *)
Lemma raw_prod_exact fx fy cx cy : wf_op fx -> wf_op fy -> in_range fx cx -> in_range fy cy ->
  raw_prod fx fy cx cy = encode (raw_kind OpMul fx fy) (cx * cy) /\ kind_ok (raw_kind OpMul fx fy) (cx * cy)
  /\ (raw_kind OpMul fx fy = KU -> 0 <= cx * cy) /\ (raw_kind OpMul fx fy = KF -> Z.abs (cx * cy) < 2^53).
Proof.
  intros (Hwx & Hfx) (Hwy & Hfy) Hrx Hry. unfold raw_kind, raw_prod. rewrite orb_false_r.
  destruct (code_mag fx cx Hwx Hrx) as (Sx & UUx). destruct (code_mag fy cy Hwy Hry) as (Sy & UUy).
  destruct (raw_cast (storage fx) (storage fy) (nw fx + nw fy)) eqn:Erc.
  - cbn [cast_if]. unfold to_obj. rewrite !load_num. cbn [mbin as_num num_op z_op encode kind_ok].
    repeat split; try exact I; intros; discriminate.
  - unfold raw_cast in Erc. apply orb_false_iff in Erc. destruct Erc as (Enb64 & Emixed).
    assert (Hnb: nw fx + nw fy < 64) by lia.
    assert (Hsx: storage fx = if sg fx then SI64 else SU64) by (apply storage_small; lia).
    assert (Hsy: storage fy = if sg fy then SI64 else SU64) by (apply storage_small; lia).
    rewrite Hsx, Hsy in *. cbn [cast_if].
    assert (P62: 2^62 < 2^63) by (apply pow2_lt; lia). assert (P63: 2^63 < 2^64) by (apply pow2_lt; lia).
    assert (Px: 0 < 2^(nw fx - 1)) by (apply pow2_pos; lia). assert (Py: 0 < 2^(nw fy - 1)) by (apply pow2_pos; lia).
    destruct (sg fx) eqn:Esx, (sg fy) eqn:Esy; cbn [load sdt_eqb negb andb mbin z_op as_num num_to_f64 encode kind_ok] in *.
    + assert (Bz: Z.abs (cx * cy) <= 2^(nw fx + nw fy - 2)).
      { rewrite Z.abs_mul. replace (nw fx + nw fy - 2) with ((nw fx - 1) + (nw fy - 1)) by lia. rewrite pow2_split by lia. specialize (Sx eq_refl). specialize (Sy eq_refl). nia. }
      assert (2^(nw fx + nw fy - 2) <= 2^61) by (apply pow2_le; lia). assert (2^61 < 2^62) by (apply pow2_lt; lia).
      rewrite wrap_i64_small by lia. repeat split; try lia; intros; discriminate.
    + assert (Hnb53: nw fx + nw fy <= 53) by lia. specialize (UUy eq_refl). specialize (Sx eq_refl).
      assert (Bz: Z.abs (cx * cy) < 2^(nw fx + nw fy - 1)).
      { rewrite Z.abs_mul. replace (nw fx + nw fy - 1) with ((nw fx - 1) + nw fy) by lia. rewrite pow2_split by lia.
        assert (0 < 2^(nw fy)) by (apply pow2_pos; lia). rewrite (Z.abs_eq cy) by lia. nia. }
      assert (2^(nw fx + nw fy - 1) <= 2^52) by (apply pow2_le; lia). assert (2^52 < 2^53) by (apply pow2_lt; lia).
      assert (2^(nw fx - 1) <= 2^52) by (apply pow2_le; lia). assert (2^(nw fy) <= 2^52) by (apply pow2_le; lia).
      rewrite !f64_of_Z_exact by lia. cbn [f64_op]. rewrite f64_mul_int by lia. repeat split; try lia; intros; discriminate.
    + assert (Hnb53: nw fx + nw fy <= 53) by lia. specialize (UUx eq_refl). specialize (Sy eq_refl).
      assert (Bz: Z.abs (cx * cy) < 2^(nw fx + nw fy - 1)).
      { rewrite Z.abs_mul. replace (nw fx + nw fy - 1) with (nw fx + (nw fy - 1)) by lia. rewrite pow2_split by lia.
        assert (0 < 2^(nw fx)) by (apply pow2_pos; lia). rewrite (Z.abs_eq cx) by lia. nia. }
      assert (2^(nw fx + nw fy - 1) <= 2^52) by (apply pow2_le; lia). assert (2^52 < 2^53) by (apply pow2_lt; lia).
      assert (2^(nw fy - 1) <= 2^52) by (apply pow2_le; lia). assert (2^(nw fx) <= 2^52) by (apply pow2_le; lia).
      rewrite !f64_of_Z_exact by lia. cbn [f64_op]. rewrite f64_mul_int by lia. repeat split; try lia; intros; discriminate.
    + specialize (UUx eq_refl). specialize (UUy eq_refl).
      assert (Bz: 0 <= cx * cy < 2^(nw fx + nw fy)) by (rewrite pow2_split by lia; nia).
      assert (2^(nw fx + nw fy) <= 2^63) by (apply pow2_le; lia).
      repeat split; try lia; intros; discriminate.
Qed.

Lemma rescale_exact_encode K z k pc : k < 0 -> K <> KF -> kind_ok K z -> (K = KU -> 0 <= z) ->
  rescale true pc (encode K z) k = Ok (MO (NR {| dm := z; de := k |})).
Proof.
  intros Hk HK Hok Hpos. unfold rescale. replace (k <? 0) with true by lia. unfold mscale_raw.
  replace (0 <? k) with false by lia. replace (k <? 0) with true by lia. cbn [andb].
  destruct K; cbn [encode kind_ok] in *; try reflexivity; try congruence.
  assert (2^63 < 2^64) by (apply pow2_lt; lia). rewrite wrap_u64_small by (specialize (Hpos eq_refl); lia). reflexivity.
Qed.

Lemma all_MO_rationals qs : all_MO (map (fun q => MO (NR q)) qs) = Some (map NR qs).
Proof. induction qs as [|q qs IH]; [reflexivity|]. unfold all_MO in *. cbn [map fold_right]. rewrite IH. reflexivity. Qed.

Theorem mul_into_fewer_fraction_bits fx fy cxs cys ft r o :
  wf_op fx -> wf_op fy -> 1 <= nw ft -> nf ft - nf fx - nf fy < 0 ->
  length cxs = length cys -> Forall (in_range fx) cxs -> Forall (in_range fy) cys ->
  existsb (fun p => 2^53 <=? Z.abs (fst p * snd p)) (combine cxs cys) = true ->
  arith_raw OpMul fx cxs fy cys ft r o
  = Ok (spec_wres ft r o (map (fun p => exact_codes OpMul fx (fst p) fy (snd p)) (combine cxs cys))).
Proof.
  intros Hx Hy Hw Hk Hlen Hrx Hry Hbig. set (k := nf ft - nf fx - nf fy) in *.
  assert (Hin: forall p, In p (combine cxs cys) -> in_range fx (fst p) /\ in_range fy (snd p)).
  { intros [a b] Hp. rewrite Forall_forall in Hrx, Hry. split; [apply Hrx; exact (in_combine_l _ _ _ _ Hp) | apply Hry; exact (in_combine_r _ _ _ _ Hp)]. }
  (* the product array is not a float64 array: some product needs more than 53 bits *)
  assert (HK: raw_kind OpMul fx fy <> KF).
  { intros HKF. apply existsb_exists in Hbig. destruct Hbig as (p & Hp & Hb). destruct (Hin p Hp) as (Ha & Hbb).
    destruct (raw_prod_exact fx fy (fst p) (snd p) Hx Hy Ha Hbb) as (_ & _ & _ & HF). specialize (HF HKF). lia. }
  assert (Hex: arith_exact OpMul fx cxs fy cys (nf ft) = true).
  { cbn [arith_exact]. fold k. replace (k <? 0) with true by lia. cbn [andb].
    apply existsb_exists in Hbig. destruct Hbig as (p & Hp & Hb). apply existsb_exists. exists p. split; [exact Hp|].
    destruct (Hin p Hp) as (Ha & Hbb). destruct (raw_prod_exact fx fy (fst p) (snd p) Hx Hy Ha Hbb) as (E & Hok & Hpos & _).
    rewrite E. destruct (raw_kind OpMul fx fy); cbn [encode int_mag_ge kind_ok] in *; try lia; try congruence.
    assert (2^63 < 2^64) by (apply pow2_lt; lia). rewrite wrap_u64_small by (specialize (Hpos eq_refl); lia). lia. }
  unfold arith_raw. rewrite Hex.
  rewrite (map2M_pairs _ (fun p => MO (NR {| dm := fst p * snd p; de := k |}))); [|exact Hlen|].
  2: { intros p Hp. destruct (Hin p Hp) as (Ha & Hbb). destruct (raw_prod_exact fx fy (fst p) (snd p) Hx Hy Ha Hbb) as (E & Hok & Hpos & _).
       unfold raw_elem. fold k. rewrite E. apply rescale_exact_encode; [lia|exact HK|exact Hok|exact Hpos]. }
  cbn [bind].
  set (qs := map (fun p : Z * Z => {| dm := fst p * snd p; de := k |}) (combine cxs cys)).
  assert (Hmap: map (fun p : Z * Z => MO (NR {| dm := fst p * snd p; de := k |})) (combine cxs cys) = map (fun q => MO (NR q)) qs) by (unfold qs; rewrite map_map; reflexivity).
  rewrite Hmap.
  assert (Hne: qs <> []).
  { unfold qs. destruct (combine cxs cys) as [|p l] eqn:Ec; [cbn in Hbig; discriminate|]. cbn. discriminate. }
  assert (Harr: arr_of (map (fun q => MO (NR q)) qs) = Ok (AObj (map NR qs), VFloat)).
  { destruct qs as [|q0 qs']; [congruence|]. unfold arr_of. cbn [map].
    change (MO (NR q0) :: map (fun q => MO (NR q)) qs') with (map (fun q => MO (NR q)) (q0 :: qs')). rewrite all_MO_rationals. reflexivity. }
  rewrite Harr. cbn [bind fst snd].
  assert (Hfrac: arr_has_frac (AObj (map NR qs)) = true) by (destruct qs as [|q0 qs']; [congruence|reflexivity]).
  rewrite (set_val_real_eq _ _ _ _ _ _ _ (obj_path_frac ft true _ VFloat Hfrac) (exact_factor_raw _ _)). cbn [arr_nums bind].
  rewrite (mapM_Forall2 _ (spec_eres ft r o) _ (map (fun p => exact_codes OpMul fx (fst p) fy (snd p)) (combine cxs cys))).
  - cbn [bind]. unfold spec_wres. rewrite !map_map, !existsb_map. reflexivity.
  - unfold qs. clear - Hw. induction (combine cxs cys) as [|p l IH]; cbn [map]; constructor; [|exact IH].
    apply elem_pipe_raw_rational; [exact Hw|].
    unfold exact_codes, val_of_code, dy_scale. cbn [exact_op dy_mul dm de].
    replace (- nf fx + - nf fy + nf ft) with k by (unfold k; lia). apply dy_eqb_refl.
Qed.
