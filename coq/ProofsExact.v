(* ProofsExact.v — the exact-rational region of the code (fix 9bf56de and its relatives): raw values of
   more than 53 bits rescaled by a negative power of two, and integer inputs of more than 53 bits stored
   into a format with a negative fraction length, travel as exact rationals (fractions.Fraction) and
   are rounded ONCE, by the destination's rounding mode.  The theorems here carry no bound on the
   width of the source, of the destination or of the values. *)
From Coq Require Import ZArith List Bool Lia ZifyBool.
From FxpVerif Require Import Spec SpecArith NP Store ProofsCore ProofsStore ProofsRound ProofsHuge ProofsRawImposed Convert ProofsConvert.
Import ListNotations.
Open Scope Z_scope.
Ltac Zify.zify_post_hook ::= Z.to_euclidean_division_equations.

(* _overflow_action on a Python integer of any size, any word length *)
Lemma overflow_elem_pyint f o z : 1 <= nw f -> overflow_elem f o true (NI z) = Ok (overflow o f z).
Proof.
  intros Hw. unfold overflow_elem, elem_gt, elem_lt.
  pose proof (range_width f Hw) as Hrw. assert (0 < 2^(nw f)) by (apply pow2_pos; lia).
  destruct o; cbn [overflow].
  - unfold sat. destruct (cmax f <? z) eqn:E1; [f_equal; lia|].
    destruct (z <? cmin f) eqn:E2; [f_equal; lia|]. cbn [elem_to_int num_int]. f_equal. lia.
  - rewrite orb_true_r. cbn [elem_to_int num_int bind]. f_equal. apply wrap_model_res. lia.
Qed.

(* ---------- a raw exact rational (utils.scale_raw with a negative shift) through set_val(raw=True) ---------- *)
Lemma elem_pipe_raw_rational f r o q v : 1 <= nw f -> dy_eqb q (dy_scale (nf f) v) = true ->
  elem_pipe f r o true true (NR q) = Ok (spec_eres f r o v).
Proof.
  intros Hw Hq. unfold elem_pipe. cbn [negb scale_elem bind round_elem].
  rewrite overflow_elem_pyint by exact Hw. cbn [bind elem_gt elem_lt].
  rewrite <- (raw_eres_spec f r o q v Hq). unfold raw_eres. cbv zeta. f_equal. f_equal.
  unfold inacc_elem. rewrite dy_eqb_sym. reflexivity.
Qed.

Lemma arr_has_frac_map (g : Z -> dy) cs : cs <> [] -> arr_has_frac (AObj (map (fun c => NR (g c)) cs)) = true.
Proof. intros H. destruct cs as [|c cs]; [congruence|]. reflexivity. Qed.

Lemma obj_path_frac f raw a vd : arr_has_frac a = true -> obj_path f raw a vd = true.
Proof. intros H. unfold obj_path. rewrite H. rewrite orb_true_r. reflexivity. Qed.

(* the conversion model on codes that need the exact path: ANY source format, ANY destination word *)
Theorem convert_exact rt fs fd r o codes : 1 <= nw fd -> nf fd - nf fs < 0 ->
  existsb (fun c => 2^53 <=? Z.abs c) codes = true ->
  convert rt fs codes fd r o = Ok (spec_wres fd r o (map (val_of_code fs) codes)).
Proof.
  intros Hw Hs Hbig. unfold convert. set (shift := nf fd - nf fs) in *.
  unfold scale_raw. replace (0 <? shift) with false by lia. replace (shift =? 0) with false by lia. rewrite Hbig.
  assert (Hne: codes <> []) by (intros ->; discriminate).
  pose proof (obj_path_frac fd true _ (conv_vdt rt shift) (arr_has_frac_map (fun c => {| dm := c; de := shift |}) codes Hne)) as Hobj.
  rewrite (set_val_real_eq _ _ _ _ _ _ _ Hobj (exact_factor_raw _ _)). cbn [arr_nums bind].
  rewrite (mapM_Forall2 _ (spec_eres fd r o) _ (map (val_of_code fs) codes)).
  - cbn [bind]. unfold spec_wres. rewrite !map_map, !existsb_map. reflexivity.
  - clear - Hw. induction codes as [|c cs IH]; cbn [map]; constructor; [|exact IH].
    apply elem_pipe_raw_rational; [lia|].
    unfold dy_scale, val_of_code. cbn [dm de]. replace (- nf fs + nf fd) with shift by (unfold shift; lia). apply dy_eqb_refl.
Qed.

(* with the float path below 2^53 (convert_core's negative-shift branch does not depend on the source being a
   core format): every conversion to FEWER fraction bits into a core destination, from a source of any width *)
Lemma elem_pipe_raw_float_spec f r o c k v : 1 <= nw f <= 52 -> Z.abs c < 2^53 -> -1074 <= k < 0 ->
  dy_eqb {| dm := c; de := k |} (dy_scale (nf f) v) = true ->
  elem_pipe f r o true false (NF (Fin c k)) = Ok (spec_eres f r o v).
Proof.
  intros Hw Hc Hk Hq.
  pose proof (ProofsRawImposed.elem_pipe_raw_float f r o {| dm := c; de := k |} Hw) as H. cbn [dm de] in H.
  rewrite H by lia. f_equal. apply raw_eres_spec. exact Hq.
Qed.

Theorem convert_fewer_fraction_bits rt fs fd r o codes : 1 <= nw fd <= 52 -> -1074 <= nf fd - nf fs < 0 -> codes <> [] ->
  convert rt fs codes fd r o = Ok (spec_wres fd r o (map (val_of_code fs) codes)).
Proof.
  intros Hw Hs Hne. destruct (existsb (fun c => 2^53 <=? Z.abs c) codes) eqn:Ebig.
  - apply convert_exact; [lia|lia|exact Ebig].
  - unfold convert. set (shift := nf fd - nf fs) in *.
    unfold scale_raw. replace (0 <? shift) with false by lia. replace (shift =? 0) with false by lia. rewrite Ebig.
    assert (Hb: Forall (fun c => Z.abs c < 2^53) codes).
    { apply Forall_forall. intros c Hin. destruct (2^53 <=? Z.abs c) eqn:E; [|lia]. exfalso.
      assert (existsb (fun c => 2^53 <=? Z.abs c) codes = true) by (apply existsb_exists; exists c; auto). congruence. }
    assert (Hvals: map (fun c => f64_mul_pow2 (f64_of_Z c) shift) codes = map (fun c => Fin c shift) codes).
    { apply map_ext_in. intros c Hc. rewrite Forall_forall in Hb. specialize (Hb c Hc). cbv beta in Hb.
      rewrite f64_of_Z_exact by lia. cbn [f64_mul_pow2]. replace (0 + shift) with shift by lia.
      apply rnd64_exact. pose proof (bitlen_le c 53 ltac:(lia) ltac:(lia)). pose proof (bitlen_nonneg c). unfold fits53. lia. }
    rewrite Hvals.
    assert (Evd: conv_vdt rt shift = VFloat) by (unfold conv_vdt; replace (shift <? 0) with true by lia; reflexivity).
    rewrite Evd.
    assert (Hobj: obj_path fd true (AF64 (map (fun c => Fin c shift) codes)) VFloat = false).
    { rewrite obj_path_AF64. rewrite map_map, existsb_map.
      replace (64 <=? nw fd) with false by lia. rewrite !orb_false_r.
      apply existsb_false. eapply Forall_impl; [|exact Hb]. intros c Hc. cbv beta in *.
      unfold num_big64, f64_floor_Z. replace (0 <=? shift) with false by lia.
      assert (0 < 2^(- shift)) by (apply pow2_pos; lia). assert (2^53 < 2^64) by (apply pow2_lt; lia). nia. }
    rewrite (set_val_real_eq _ _ _ _ _ _ _ Hobj (exact_factor_AF64 _ _ _)). cbn [astype_vd bind]. rewrite map_map.
    rewrite (mapM_Forall2 _ (spec_eres fd r o) _ (map (val_of_code fs) codes)).
    + cbn [bind]. unfold spec_wres. rewrite !map_map, !existsb_map. reflexivity.
    + clear - Hb Hw Hs. induction Hb as [|c cs Hc _ IH]; cbn [map]; constructor; [|exact IH].
      apply elem_pipe_raw_float_spec; try lia.
      unfold dy_scale, val_of_code. cbn [dm de]. replace (- nf fs + nf fd) with (nf fd - nf fs) by lia. apply dy_eqb_refl.
Qed.

(* ---------- integers of more than 53 bits stored (not raw) into a format with a negative fraction length ---------- *)
Lemma elem_pipe_q_spec f r o z : 1 <= nw f -> elem_pipe_q f r o (NI z) = Ok (spec_eres f r o (dy_of_Z z)).
Proof.
  intros Hw. unfold elem_pipe_q. rewrite overflow_elem_pyint by exact Hw. cbn [bind].
  unfold spec_eres, quantize, ovf_cond, unf_cond, inacc_cond, dy_scale, dy_of_Z, val_of_code. cbn [dm de].
  f_equal. f_equal. f_equal. unfold quantize, dy_scale. cbn [dm de]. apply dy_eqb_sym.
Qed.

Theorem set_val_wide_ints_negative_nfrac f r o zs : 1 <= nw f -> nf f < 0 ->
  existsb (fun z => 2^53 <=? Z.abs z) zs = true ->
  set_val_real f r o false (AI64 zs) VInt = Ok (spec_wres f r o (map dy_of_Z zs)).
Proof.
  intros Hw Hf Hbig. unfold set_val_real.
  assert (Hxq: exact_factor f false (AI64 zs) = true).
  { unfold exact_factor. cbn [arr_has_frac arr_is_int negb andb]. replace (nf f <? 0) with true by lia. rewrite absmax_AI64, Hbig. reflexivity. }
  assert (Hobj: obj_path f false (AI64 zs) VInt = true) by (unfold obj_path; rewrite Hxq; rewrite orb_true_r; reflexivity).
  rewrite Hobj, Hxq. cbn [arr_nums bind].
  rewrite (mapM_Forall2 _ (spec_eres f r o) _ (map dy_of_Z zs)).
  - cbn [bind]. unfold spec_wres. rewrite !map_map, !existsb_map. reflexivity.
  - clear - Hw. induction zs as [|z zs IH]; cbn [map]; constructor; [|exact IH]. apply elem_pipe_q_spec. exact Hw.
Qed.
