(* ProofsStrings.v — C11: codec round trips over bit lists, for every word length. *)
From Coq Require Import ZArith List Bool Lia ZifyBool.
From FxpVerif Require Import Spec NP Store ProofsCore Strings.
Import ListNotations.
Open Scope Z_scope.
Ltac Zify.zify_post_hook ::= Z.to_euclidean_division_equations.

Lemma bits_nat_length n u : length (bits_nat n u) = n.
Proof. revert u. induction n as [|n IH]; intros u; [reflexivity|]. cbn [bits_nat]. rewrite app_length, IH. cbn. lia. Qed.
Lemma to_bits_length n u : 0 <= n -> Z.of_nat (length (to_bits n u)) = n.
Proof. intros. unfold to_bits. rewrite bits_nat_length. lia. Qed.

Lemma of_bits_acc_app acc l1 l2 : of_bits_acc acc (l1 ++ l2) = of_bits_acc (of_bits_acc acc l1) l2.
Proof. revert acc. induction l1 as [|b l1 IH]; intros acc; [reflexivity|]. cbn [app of_bits_acc]. apply IH. Qed.
Lemma of_bits_acc_shift acc l : of_bits_acc acc l = acc * 2^(Z.of_nat (length l)) + of_bits_acc 0 l.
Proof.
  revert acc. induction l as [|b l IH]; intros acc; [cbn; lia|].
  cbn [of_bits_acc length]. rewrite IH, (IH (2 * 0 + _)). rewrite Nat2Z.inj_succ, Z.pow_succ_r by lia. lia.
Qed.

(* MSB-first bits of u, n of them, decode to u mod 2^n *)
Lemma of_bits_nat n u : of_bits (bits_nat n u) = u mod 2^(Z.of_nat n).
Proof.
  revert u. induction n as [|n IH]; intros u.
  - cbn. rewrite Z.mod_1_r. reflexivity.
  - cbn [bits_nat]. unfold of_bits in *. rewrite of_bits_acc_app, IH. cbn [of_bits_acc].
    rewrite Nat2Z.inj_succ, Z.pow_succ_r by lia.
    assert (Hp: 0 < 2^(Z.of_nat n)) by (apply pow2_pos; lia).
    rewrite Z.rem_mul_r by lia. rewrite Zodd_mod. destruct (Zeq_bool (u mod 2) 1) eqn:E.
    + apply Zeq_is_eq_bool in E. lia.
    + assert (u mod 2 = 0). { pose proof (Z.mod_pos_bound u 2 ltac:(lia)). destruct (Z.eq_dec (u mod 2) 1) as [E1|E1]; [apply Zeq_is_eq_bool in E1; congruence|lia]. } lia.
Qed.
Lemma of_to_bits n u : 0 <= n -> of_bits (to_bits n u) = u mod 2^n.
Proof. intros. unfold to_bits. rewrite of_bits_nat, Z2Nat.id by lia. reflexivity. Qed.

(* the head of the n-bit pattern is the sign bit *)
Lemma bits_nat_S n u : bits_nat (S n) u = Z.odd (u / 2^(Z.of_nat n)) :: bits_nat n u.
Proof.
  revert u. induction n as [|n IH]; intros u.
  - cbn. rewrite Z.div_1_r. reflexivity.
  - change (bits_nat (S (S n)) u) with (bits_nat (S n) (u / 2) ++ [Z.odd u]). rewrite IH.
    cbn [app bits_nat]. f_equal. rewrite Nat2Z.inj_succ, Z.pow_succ_r by lia. rewrite Z.div_div by (try lia; apply pow2_pos; lia). reflexivity.
Qed.

Theorem strbin2int_roundtrip f c : (if sg f then 2 else 1) <= nw f -> in_range f c ->
  strbin2int (sg f) (nw f) (binary_repr (nw f) c) = Ok c.
Proof.
  intros Hn Hr. set (n := nw f) in *. assert (Hn1: 1 <= n) by (destruct (sg f); lia).
  unfold strbin2int, binary_repr. rewrite to_bits_length by lia. replace (n <? n) with false by lia.
  rewrite Z.sub_diag. cbn [Z.to_nat repeat app].
  assert (HM: 0 < 2^n) by (apply pow2_pos; lia). set (u := c mod 2^n).
  pose proof (Z.mod_pos_bound c (2^n) HM) as Bu. fold u in Bu.
  unfold in_range, cmin, cmax in Hr. fold n in Hr.
  assert (E2: 2^n = 2 * 2^(n - 1)) by (apply pow2_double; lia). assert (Hp: 0 < 2^(n - 1)) by (apply pow2_pos; lia).
  destruct (sg f) eqn:Es.
  - rewrite to_bits_length by lia. replace (n <? 2) with false by lia.
    unfold to_bits. replace (Z.to_nat n) with (S (Z.to_nat (n - 1))) by lia. rewrite bits_nat_S. cbn [hd tl].
    rewrite of_bits_nat, Z2Nat.id by lia.
    (* sign bit = floor(u / 2^(n-1)), which is 0 or 1 *)
    assert (Hq: u / 2^(n - 1) = 0 \/ u / 2^(n - 1) = 1) by nia.
    f_equal. destruct Hq as [Hq|Hq]; rewrite Hq; cbn [Z.odd].
    + (* u < 2^(n-1): c >= 0 *)
      assert (u < 2^(n - 1)) by nia. rewrite Z.mod_small by lia. unfold u. 
      destruct (Z_lt_le_dec c 0); [|apply Z.mod_small; lia].
      exfalso. assert (u = c + 2^n) by (unfold u; symmetry; apply (Z.mod_unique_pos _ _ (-1)); lia). lia.
    + assert (2^(n - 1) <= u) by nia.
      assert (Em: u mod 2^(n - 1) = u - 2^(n - 1)) by (symmetry; apply (Z.mod_unique_pos _ _ 1); lia).
      rewrite Em. destruct (Z_lt_le_dec c 0).
      * assert (u = c + 2^n) by (unfold u; symmetry; apply (Z.mod_unique_pos _ _ (-1)); lia). lia.
      * exfalso. assert (u = c) by (unfold u; apply Z.mod_small; lia). lia.
  - f_equal. fold (to_bits n u). rewrite of_to_bits by lia. rewrite Z.mod_small by lia. unfold u. apply Z.mod_small. lia.
Qed.

(* characters <-> bits *)
Lemma bits_of_str_render l : bits_of_str (bits_str l) = Some l.
Proof. unfold bits_str. induction l as [|b l IH]; [reflexivity|]. cbn [map bits_of_str]. rewrite IH. destruct b; reflexivity. Qed.

(* hexadecimal: k digits of u decode to u when 0 <= u < 16^k *)
Lemma of_hex_app acc l1 l2 : (forall d, In d l1 -> hex_val d <> None) ->
  of_hex acc (l1 ++ l2) = match of_hex acc l1 with Some a => of_hex a l2 | None => None end.
Proof.
  revert acc. induction l1 as [|d l1 IH]; intros acc H; [reflexivity|]. cbn [app of_hex].
  destruct (hex_val d) eqn:E; [|exfalso; apply (H d (or_introl eq_refl)); exact E].
  apply IH. intros x Hx. apply H. right. exact Hx.
Qed.
Lemma hex_val_chr d : 0 <= d < 16 -> hex_val (hex_chr d) = Some d.
Proof.
  intros Hd. unfold hex_chr, hex_val. destruct (d <? 10) eqn:E.
  - replace ((48 <=? 48 + d) && (48 + d <=? 57)) with true by lia. f_equal. lia.
  - replace ((48 <=? 55 + d) && (55 + d <=? 57)) with false by lia.
    replace ((65 <=? 55 + d) && (55 + d <=? 70)) with true by lia. f_equal. lia.
Qed.
Lemma hex_nat_valid k u d : In d (hex_nat k u) -> hex_val d <> None.
Proof.
  revert u. induction k as [|k IH]; intros u H; [destruct H|]. cbn [hex_nat] in H. apply in_app_or in H. destruct H as [H|[<-|[]]].
  - exact (IH _ H).
  - rewrite hex_val_chr by (apply Z.mod_pos_bound; lia). discriminate.
Qed.
Lemma of_hex_nat k u acc : 0 <= u -> of_hex acc (hex_nat k u) = Some (acc * 16^(Z.of_nat k) + u mod 16^(Z.of_nat k)).
Proof.
  revert u acc. induction k as [|k IH]; intros u acc Hu.
  - cbn. rewrite Z.mod_1_r. f_equal. lia.
  - cbn [hex_nat]. rewrite of_hex_app by (intros d Hd; exact (hex_nat_valid _ _ _ Hd)).
    rewrite IH by (apply Z.div_pos; lia). cbn [of_hex]. rewrite hex_val_chr by (apply Z.mod_pos_bound; lia).
    f_equal. rewrite Nat2Z.inj_succ, Z.pow_succ_r by lia. assert (0 < 16^(Z.of_nat k)) by (apply Z.pow_pos_nonneg; lia).
    rewrite (Z.rem_mul_r u 16 (16^(Z.of_nat k))) by lia. lia.
Qed.

Theorem strhex2int_roundtrip f c : (if sg f then 2 else 1) <= nw f -> in_range f c ->
  strhex2int (sg f) (nw f) (hex_nat (Z.to_nat ((nw f + 3) / 4)) (c mod 2^(nw f))) = Ok c.
Proof.
  intros Hn Hr. set (n := nw f) in *. assert (Hn1: 1 <= n) by (destruct (sg f); lia).
  assert (HM: 0 < 2^n) by (apply pow2_pos; lia). set (u := c mod 2^n).
  pose proof (Z.mod_pos_bound c (2^n) HM) as Bu. fold u in Bu.
  unfold strhex2int. rewrite of_hex_nat by lia. rewrite Z.mul_0_l, Z.add_0_l.
  set (k := (n + 3) / 4). assert (Hk: 0 <= k /\ n <= 4 * k) by (unfold k; lia).
  rewrite Z2Nat.id by lia.
  assert (H16: 16^k = 2^(4 * k)) by (rewrite Z.pow_mul_r by lia; reflexivity).
  assert (Hle: 2^n <= 16^k) by (rewrite H16; apply pow2_le; lia).
  rewrite Z.mod_small by lia. replace (2^n <=? u) with false by lia.
  assert (E: to_bits n u = binary_repr n c) by (unfold binary_repr; reflexivity).
  rewrite E. apply strbin2int_roundtrip; assumption.
Qed.

Lemma hex_nat_length k u : length (hex_nat k u) = k.
Proof. revert u. induction k as [|k IH]; intros u; [reflexivity|]. cbn [hex_nat]. rewrite app_length, IH. cbn. lia. Qed.
