(* Strings.v — model of the binary / hex / base string codecs (objects.py bin/hex/base_repr/
   from_bin 1556-1635; utils.py binary_repr, hex_repr, base_repr, insert_frac_point,
   add_binary_prefix 254-340; strbin2int, strbin2float, strhex2int, strhex2float 65-187).
   Strings are lists of character codes. *)
From Coq Require Import ZArith List Bool.
From FxpVerif Require Import Spec NP Store.
Import ListNotations.
Open Scope Z_scope.

Definition chr_of_bit (b : bool) : Z := if b then 49 else 48.          (* '1' / '0' *)
Definition bits_str (l : list bool) : list Z := map chr_of_bit l.

(* np.binary_repr(int(code), width=n_word) for an in-range code: the n_word-bit pattern *)
Definition binary_repr (n c : Z) : list bool := to_bits n (c mod 2^n).

(* utils.insert_frac_point on a string without sign symbol *)
Definition insert_frac_point (s : list Z) (nfr : Z) : list Z :=
  let len := Z.of_nat (length s) in
  if (0 <? nfr) && (nfr <? len) then firstn (Z.to_nat (len - nfr)) s ++ [46] ++ skipn (Z.to_nat (len - nfr)) s
  else if nfr =? 0 then s ++ [46]
  else if nfr <? 0 then s ++ repeat 35 (Z.to_nat (- nfr)) ++ [46]
  else if nfr =? len then 46 :: s
  else 46 :: repeat 48 (Z.to_nat (nfr - len)) ++ s.

(* Fxp.bin(frac_dot, prefix) of one code *)
Definition bin_model (f : fmt) (c : Z) (frac_dot : bool) (prefix : list Z) : list Z :=
  let s := bits_str (binary_repr (nw f) c) in
  prefix ++ (if frac_dot then insert_frac_point s (nf f) else s).

(* hexadecimal digits, MSB first, k digits *)
Definition hex_chr (d : Z) : Z := if d <? 10 then 48 + d else 55 + d.    (* '0'..'9', 'A'..'F' *)
Fixpoint hex_nat (k : nat) (u : Z) : list Z :=
  match k with O => [] | S k' => hex_nat k' (u / 16) ++ [hex_chr (u mod 16)] end.
(* Fxp.hex(): the same bit pattern in ceil(n_word/4) upper-case digits ('{0:0{k}X}'.format(u, k):
   exactly k digits because u < 2^n_word <= 16^k), prefix '0x' by default *)
Definition hex_model (f : fmt) (c : Z) (prefix : list Z) : list Z :=
  prefix ++ hex_nat (Z.to_nat ((nw f + 3) / 4)) (c mod 2^(nw f)).

(* np.base_repr(code, base): sign-magnitude numeral (digits 0-9A-Z) *)
Fixpoint base_digits (fuel : nat) (base u : Z) (acc : list Z) : list Z :=
  match fuel with
  | O => acc
  | S f => if u =? 0 then acc else base_digits f base (u / base) (hex_chr (u mod base) :: acc)
  end.
Definition base_repr_model (base c : Z) : list Z :=
  if c =? 0 then [48]
  else (if c <? 0 then [45] else []) ++ base_digits (Z.to_nat (Z.log2 (Z.abs c) + 2)) base (Z.abs c) [].

(* ---------- parsing ---------- *)
(* utils.strbin2int on the digit string (prefix, spaces and sign already removed) *)
Definition strbin2int (signed : bool) (n : Z) (l : list bool) : outcome Z :=
  let len := Z.of_nat (length l) in
  if n <? len then Exc ValueError
  else
    let ext := if signed then hd false l else false in
    let l' := repeat ext (Z.to_nat (n - len)) ++ l in
    if signed then
      (if Z.of_nat (length l') <? 2 then Exc TypeError
       else let v := of_bits (tl l') in Ok (if hd false l' then - (2^(n - 1) - v) else v))
    else Ok (of_bits l').

(* utils.strhex2int: bin(int(x, 16)) zero-padded to n_word, then strbin2int — i.e. the n_word-bit
   pattern of the parsed integer, or ValueError when it needs more than n_word bits *)
Definition hex_val (d : Z) : option Z :=
  if (48 <=? d) && (d <=? 57) then Some (d - 48)
  else if (65 <=? d) && (d <=? 70) then Some (d - 55)
  else if (97 <=? d) && (d <=? 102) then Some (d - 87) else None.
Fixpoint of_hex (acc : Z) (l : list Z) : option Z :=
  match l with [] => Some acc | d :: t => match hex_val d with Some v => of_hex (16 * acc + v) t | None => None end end.
Definition strhex2int (signed : bool) (n : Z) (digits : list Z) : outcome Z :=
  match of_hex 0 digits with
  | None => Exc ValueError
  | Some u => if 2^n <=? u then Exc ValueError else strbin2int signed n (to_bits n u)
  end.

(* a '0'/'1' string back to bits *)
Definition bit_of_chr (d : Z) : option bool := if d =? 48 then Some false else if d =? 49 then Some true else None.
Fixpoint bits_of_str (l : list Z) : option (list bool) :=
  match l with [] => Some [] | d :: t => match bit_of_chr d, bits_of_str t with Some b, Some bs => Some (b :: bs) | _, _ => None end end.
