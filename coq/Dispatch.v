(* Dispatch.v — the single entry point extracted to OCaml.  Opcode table:
     1  spec quantize            fmt r o dy                      -> code
     2  spec flag conditions     fmt r o dy                      -> ovf unf inacc
     4  spec quantize (list)     fmt r o [dy]                    -> codes, any-ovf any-unf any-inacc
     3  NP primitive             sub-op args                     -> value   (NP-layer validation)
    30  model conversion chain   src-fmt codes [step]            -> per step: outcome (codes, flags)
    20  model history            fmt r o status [step]           -> per step: status, callbacks fired
    10  model set_val (real)     fmt r o raw arr vd              -> codes, flags, read-back values
*)
From Coq Require Import ZArith List Bool.
From FxpVerif Require Import Spec SpecArith NP Store Status Convert Arith Div Conv Bitwise Strings Dtype Shift Sizes Reduce Wire.
Import ListNotations.
Open Scope Z_scope.

Definition dstatus : dec status :=
  a <- dbool ;; b <- dbool ;; c <- dbool ;; d <- dbool ;; dret {| st_ovf := a; st_unf := b; st_inacc := c; st_extp := d |}.
Definition dhstep : dec hstep :=
  t <- dZ ;; match t with 0 => (a <- darr ;; vd <- dvdt ;; dret (HWrite a vd)) | _ => dret HReset end.
Definition estatus (st : status) : list Z := ebool (st_ovf st) ++ ebool (st_unf st) ++ ebool (st_inacc st) ++ ebool (st_extp st).
Definition ecbev (e : cbev) : Z := match e with EvOvf => 0 | EvUnf => 1 | EvInacc => 2 | EvChange => 3 end.

Definition dcroute : dec croute :=
  t <- dZ ;; dret (match t with 0 => RArray | 1 => RFxpInput VInt | _ => RFxpInput VFloat end).
Definition dcstep : dec cstep :=
  rt <- dcroute ;; f <- dfmt ;; r <- drmode ;; o <- domode ;; dret {| cs_route := rt; cs_fmt := f; cs_r := r; cs_o := o |}.
(* trace of a conversion chain: the write result of every step *)
Fixpoint convert_trace (fs : fmt) (codes : list Z) (steps : list cstep) : list (outcome wres) :=
  match steps with
  | [] => []
  | s :: t => let w := convert (cs_route s) fs codes (cs_fmt s) (cs_r s) (cs_o s) in
              w :: match w with Ok w' => convert_trace (cs_fmt s) (w_codes w') t | _ => [] end
  end.

Definition daop : dec aop := t <- dZ ;; dret (match t with 0 => OpAdd | 1 => OpSub | _ => OpMul end).
Definition efmt (f : fmt) : list Z := ebool (sg f) ++ [nw f; nf f].
Definition edy (v : dy) : list Z := [dm v; de v].

Definition ewres (f : fmt) (w : wres) : list Z :=
  elist (fun c => [c]) (w_codes w) ++ ebool (w_ovf w) ++ ebool (w_unf w) ++ ebool (w_inacc w)
  ++ elist (fun c => ef64 (get_val_f64 f c)) (w_codes w).

Definition np_prim (op : Z) : list Z -> list Z :=
  match op with
  | 0 => run (m <- dZ ;; e <- dZ ;; dret (m, e)) (fun p => ef64 (rnd64 (fst p) (snd p)))
  | 1 => run (a <- df64 ;; b <- df64 ;; dret (a, b)) (fun p => ef64 (f64_mul (fst p) (snd p)))
  | 2 => run (a <- df64 ;; b <- df64 ;; dret (a, b)) (fun p => ef64 (f64_add (fst p) (snd p)))
  | 3 => run (a <- df64 ;; b <- df64 ;; dret (a, b)) (fun p => ef64 (f64_sub (fst p) (snd p)))
  | 4 => run (a <- df64 ;; b <- df64 ;; dret (a, b)) (fun p => ef64 (f64_div (fst p) (snd p)))
  | 5 => run (r <- drmode ;; a <- df64 ;; dret (r, a)) (fun p => ef64 (np_round (fst p) (snd p)))
  | 6 => run df64 (fun a => match astype_i64 a with Some z => [0; z] | None => [2] end)
  | 7 => run (a <- df64 ;; b <- df64 ;; dret (a, b)) (fun p => ef64 (f64_floordiv (fst p) (snd p)))
  | 8 => run (a <- df64 ;; b <- df64 ;; dret (a, b)) (fun p => ef64 (f64_mod (fst p) (snd p)))
  | 9 => run dZ (fun z => [wrap_i64 z; wrap_u64 z])
  | 10 => run dZ (fun z => [clog2 z; np_bitlen_half z])
  | 11 => run (a <- df64 ;; b <- df64 ;; dret (a, b))
            (fun p => ebool (f64_ltb (fst p) (snd p)) ++ ebool (f64_leb (fst p) (snd p)) ++ ebool (f64_eqb (fst p) (snd p)))
  | 12 => run dZ (fun z => ef64 (f64_of_Z z))
  | 13 => run (s <- dbool ;; n <- dZ ;; x <- dZ ;; dret (s, n, x))
            (fun p => [wrap_model (fst (fst p)) (snd (fst p)) (snd p)])
  | _ => fun _ => bad_request
  end.

Definition dispatch (req : list Z) : list Z :=
  match req with
  | 1 :: t => run (f <- dfmt ;; r <- drmode ;; o <- domode ;; v <- ddy ;; dret (f, r, o, v))
                (fun '(f, r, o, v) => [quantize f r o v]) t
  | 2 :: t => run (f <- dfmt ;; r <- drmode ;; o <- domode ;; v <- ddy ;; dret (f, r, o, v))
                (fun '(f, r, o, v) => ebool (ovf_cond f r v) ++ ebool (unf_cond f r v) ++ ebool (inacc_cond f r o v)) t
  | 3 :: op :: t => np_prim op t
  | 4 :: t => run (f <- dfmt ;; r <- drmode ;; o <- domode ;; vs <- dlist ddy ;; dret (f, r, o, vs))
                (fun '(f, r, o, vs) => elist (fun v => [quantize f r o v]) vs
                   ++ ebool (existsb (ovf_cond f r) vs) ++ ebool (existsb (unf_cond f r) vs)
                   ++ ebool (existsb (inacc_cond f r o) vs)) t
  | 10 :: t => run (f <- dfmt ;; r <- drmode ;; o <- domode ;; raw <- dbool ;; a <- darr ;; vd <- dvdt ;;
                    dret (f, r, o, raw, a, vd))
                (fun '(f, r, o, raw, a, vd) => eoutcome (ewres f) (set_val_real f r o raw a vd)) t
  | 11 :: t => run (f <- dfmt ;; r <- drmode ;; o <- domode ;; res <- dlist df64 ;; ims <- dlist df64 ;; dret (f, r, o, res, ims))
                (fun '(f, r, o, res, ims) =>
                   eoutcome (fun w => elist (fun c => [c]) (cw_re w) ++ elist (fun c => [c]) (cw_im w)
                                      ++ ebool (cw_ovf w) ++ ebool (cw_unf w) ++ ebool (cw_inacc w))
                            (set_val_complex f r o res ims)) t
  | 20 :: t => run (f <- dfmt ;; r <- drmode ;; o <- domode ;; st <- dstatus ;; steps <- dlist dhstep ;; dret (f, r, o, st, steps))
                (fun '(f, r, o, st, steps) =>
                   eoutcome (elist (fun p => estatus (fst p) ++ elist (fun e => [ecbev e]) (snd p)))
                            (history_run f r o st steps)) t
  | 30 :: t => run (fs <- dfmt ;; codes <- dlist dZ ;; steps <- dlist dcstep ;; dret (fs, codes, steps))
                (fun '(fs, codes, steps) =>
                   elist (eoutcome (fun w => elist (fun c => [c]) (w_codes w) ++ ebool (w_ovf w) ++ ebool (w_unf w) ++ ebool (w_inacc w)))
                         (convert_trace fs codes steps)) t
  (* 40: spec of x op y: exact value, optimal format, and the exact value quantized into a target format *)
  | 40 :: t => run (op <- daop ;; fx <- dfmt ;; a <- dZ ;; fy <- dfmt ;; b <- dZ ;; ft <- dfmt ;; r <- drmode ;; o <- domode ;;
                    dret (op, fx, a, fy, b, ft, r, o))
                (fun '(op, fx, a, fy, b, ft, r, o) =>
                   let ex := exact_codes op fx a fy b in
                   efmt (grow op fx fy) ++ edy ex ++ [quantize ft r o ex] ++ ebool (ovf_cond ft r ex) ++ ebool (unf_cond ft r ex)
                   ++ ebool (inacc_cond ft r o ex)) t
  (* 41: model x op y by the raw method into format fz under modes r o (elementwise lists);
     42: the same by the repr method *)
  | 41 :: t => run (op <- daop ;; fx <- dfmt ;; cxs <- dlist dZ ;; fy <- dfmt ;; cys <- dlist dZ ;; fz <- dfmt ;; r <- drmode ;; o <- domode ;;
                    dret (op, fx, cxs, fy, cys, fz, r, o))
                (fun '(op, fx, cxs, fy, cys, fz, r, o) => eoutcome (ewres fz) (arith_raw op fx cxs fy cys fz r o)) t
  | 42 :: t => run (op <- daop ;; fx <- dfmt ;; cxs <- dlist dZ ;; fy <- dfmt ;; cys <- dlist dZ ;; fz <- dfmt ;; r <- drmode ;; o <- domode ;;
                    dret (op, fx, cxs, fy, cys, fz, r, o))
                (fun '(op, fx, cxs, fy, cys, fz, r, o) => eoutcome (ewres fz) (arith_repr op fx cxs fy cys fz r o)) t
  (* 43: spec of the division family on codes a (format fx) and b (format fy), b <> 0 *)
  | 43 :: t => run (fx <- dfmt ;; a <- dZ ;; fy <- dfmt ;; b <- dZ ;; dret (fx, a, fy, b))
                (fun '(fx, a, fy, b) =>
                   efmt (grow_truediv fx fy) ++ [truediv_floor fx a fy b] ++ ebool (truediv_exactb fx a fy b)
                   ++ efmt (grow_floordiv fx fy) ++ [floordiv_code fx a fy b]
                   ++ efmt (grow_mod fx fy) ++ [mod_code fx a fy b]) t
  (* 44: model of / // % (d = 0,1,2), method (0 raw, 1 repr), into the optimal format, modes r o *)
  | 44 :: t => run (d <- dZ ;; m <- dZ ;; fx <- dfmt ;; cxs <- dlist dZ ;; fy <- dfmt ;; cys <- dlist dZ ;; r <- drmode ;; o <- domode ;;
                    dret (d, m, fx, cxs, fy, cys, r, o))
                (fun '(d, m, fx, cxs, fy, cys, r, o) =>
                   let dd := match d with 0 => DTrue | 1 => DFloor | _ => DMod end in
                   let fz := div_fmt dd fx fy in
                   eoutcome (ewres fz) (if m =? 0 then div_raw dd fx cxs fy cys fz r o else div_repr dd fx cxs fy cys fz r o)) t
  (* 45: the division family into an IMPOSED result format fz *)
  | 45 :: t => run (d <- dZ ;; m <- dZ ;; fx <- dfmt ;; cxs <- dlist dZ ;; fy <- dfmt ;; cys <- dlist dZ ;; fz <- dfmt ;; r <- drmode ;; o <- domode ;;
                    dret (d, m, fx, cxs, fy, cys, fz, r, o))
                (fun '(d, m, fx, cxs, fy, cys, fz, r, o) =>
                   let dd := match d with 0 => DTrue | 1 => DFloor | _ => DMod end in
                   eoutcome (ewres fz) (if m =? 0 then div_raw dd fx cxs fy cys fz r o else div_repr dd fx cxs fy cys fz r o)) t
  (* 50: the six comparisons of (fx, cx) with (fy, cy) and with a number; 51: conversions of (f, c);
     52: scaled store of values; 53: scaled read and limits *)
  | 50 :: t => run (fx <- dfmt ;; cx <- dZ ;; fy <- dfmt ;; cy <- dZ ;; y <- df64 ;; dret (fx, cx, fy, cy, y))
                (fun '(fx, cx, fy, cy, y) =>
                   flat_map (fun c => ebool (fxp_cmp c fx cx fy cy)) [CLt; CLe; CEq; CNe; CGt; CGe]
                   ++ flat_map (fun c => ebool (fxp_cmp_num c fx cx y)) [CLt; CLe; CEq; CNe; CGt; CGe]
                   ++ flat_map (fun c => ebool (dy_cmpop c (val_of_code fx cx) (val_of_code fy cy))) [CLt; CLe; CEq; CNe; CGt; CGe]) t
  | 51 :: t => run (f <- dfmt ;; c <- dZ ;; dret (f, c))
                (fun '(f, c) => ef64 (get_val_f64 f c) ++ (match astype_int f c with Some z => [0; z] | None => [2; 0] end)
                                ++ ebool (fxp_bool f c) ++ [uraw f c; dy_floor (val_of_code f c); c mod 2^(nw f)]) t
  | 52 :: t => run (f <- dfmt ;; r <- drmode ;; o <- domode ;; s <- df64 ;; b <- df64 ;; vs <- dlist df64 ;; dret (f, r, o, s, b, vs))
                (fun '(f, r, o, s, b, vs) => eoutcome (fun w => ewres f w ++ elist (fun c => ef64 (read_scaled f s b c)) (w_codes w))
                                                      (store_scaled f r o s b vs)) t
  | 53 :: t => run (f <- dfmt ;; s <- df64 ;; b <- df64 ;; dret (f, s, b))
                (fun '(f, s, b) => let '(u, l, p) := scaled_limits f s b in ef64 u ++ ef64 l ++ ef64 p) t
  (* 60: bitwise model: op (0 and,1 or,2 xor,3 not) fx cx y_is_fxp nwy cy r o -> outcome codes/flags *)
  | 60 :: t => run (b <- dZ ;; fx <- dfmt ;; cx <- dZ ;; yf <- dbool ;; nwy <- dZ ;; cy <- dZ ;; r <- drmode ;; o <- domode ;;
                    dret (b, fx, cx, yf, nwy, cy, r, o))
                (fun '(b, fx, cx, yf, nwy, cy, r, o) =>
                   eoutcome (ewres fx) (match b with
                                        | 0 => fxp_bitwise BAnd fx cx yf nwy cy r o | 1 => fxp_bitwise BOr fx cx yf nwy cy r o
                                        | 2 => fxp_bitwise BXor fx cx yf nwy cy r o | _ => fxp_invert fx cx r o end)) t
  (* 61: bitwise model on arrays: op (0 and,1 or,2 xor,3 not) fx cxs y_is_fxp nwy cys r o -> outcome codes/flags *)
  | 61 :: t => run (b <- dZ ;; fx <- dfmt ;; cxs <- dlist dZ ;; yf <- dbool ;; nwy <- dZ ;; cys <- dlist dZ ;; r <- drmode ;; o <- domode ;;
                    dret (b, fx, cxs, yf, nwy, cys, r, o))
                (fun '(b, fx, cxs, yf, nwy, cys, r, o) =>
                   eoutcome (ewres fx) (match b with
                                        | 0 => fxp_bitwise_arr BAnd fx cxs yf nwy cys r o | 1 => fxp_bitwise_arr BOr fx cxs yf nwy cys r o
                                        | 2 => fxp_bitwise_arr BXor fx cxs yf nwy cys r o | _ => fxp_invert_arr fx cxs r o end)) t
  (* 70: renderings of (f, c): bin (no dot, no prefix), bin with dot and prefix, hex with prefix, base_repr b
     71: parsers: strbin2int / strhex2int of a digit string *)
  | 70 :: t => run (f <- dfmt ;; c <- dZ ;; pb <- dlist dZ ;; ph <- dlist dZ ;; base <- dZ ;; dret (f, c, pb, ph, base))
                (fun '(f, c, pb, ph, base) =>
                   elist (fun x => [x]) (bin_model f c false []) ++ elist (fun x => [x]) (bin_model f c true pb)
                   ++ elist (fun x => [x]) (hex_model f c ph) ++ elist (fun x => [x]) (base_repr_model base c)) t
  | 71 :: t => run (hexp <- dbool ;; s <- dbool ;; n <- dZ ;; digits <- dlist dZ ;; dret (hexp, s, n, digits))
                (fun '(hexp, s, n, digits) =>
                   eoutcome (fun z => [z])
                     (if (hexp : bool) then strhex2int s n digits
                      else match bits_of_str digits with Some l => strbin2int s n l | None => Exc ValueError end)) t
  (* 80: render (f, complex) in fxp and Q notation; 81: parse a dtype string *)
  | 80 :: t => run (f <- dfmt ;; cx <- dbool ;; dret (f, cx))
                (fun '(f, cx) => elist (fun x => [x]) (codes_of_string (render_fxp f cx)) ++ elist (fun x => [x]) (codes_of_string (render_q f))) t
  | 81 :: t => run (dlist dZ)
                (fun l => match parse_dtype (string_of_codes l) with
                          | Some (s, n, fr, cx) => [0] ++ ebool s ++ [n; fr] ++ ebool cx
                          | None => [1] end) t
  (* 90: x << n ; 91: x >> n (array) -- mode 0 expand, 1 keep *)
  | 90 :: t => run (m <- dZ ;; f <- dfmt ;; c <- dZ ;; n <- dZ ;; dret (m, f, c, n))
                (fun '(m, f, c, n) => eoutcome (fun p => efmt (fst p) ++ ewres (fst p) (snd p))
                                               (fxp_lshift (if m =? 0 then ShExpand else ShKeep) f c n)) t
  | 91 :: t => run (m <- dZ ;; f <- dfmt ;; cs <- dlist dZ ;; n <- dZ ;; dret (m, f, cs, n))
                (fun '(m, f, cs, n) => eoutcome (fun p => efmt (fst p) ++ elist (fun z => [z]) (snd p))
                                                (rshift_fmt_codes (if m =? 0 then ShExpand else ShKeep) f cs n)) t
  (* 92: x << n on an array *)
  | 92 :: t => run (m <- dZ ;; f <- dfmt ;; cs <- dlist dZ ;; n <- dZ ;; dret (m, f, cs, n))
                (fun '(m, f, cs, n) => eoutcome (fun p => efmt (fst p) ++ ewres (fst p) (snd p))
                                               (fxp_lshift_arr (if m =? 0 then ShExpand else ShKeep) f cs n)) t
  (* 100: size inference: signed (0 F,1 T,2 None) then optional n_word n_frac n_int (flag, value), values *)
  | 100 :: t => run (sg_ <- dZ ;; hw <- dbool ;; w <- dZ ;; hf <- dbool ;; fr <- dZ ;; hi <- dbool ;; ni <- dZ ;; hv <- dbool ;; vs <- dlist ddy ;;
                     dret (sg_, hw, w, hf, fr, hi, ni, hv, vs))
                (fun '(sg_, hw, w, hf, fr, hi, ni, hv, vs) =>
                   eoutcome (fun '(s, nwd, nfr) => ebool s ++ [nwd; nfr])
                     (init_size (match sg_ with 0 => Some false | 1 => Some true | _ => None end)
                                (if hw : bool then Some w else None) (if hf : bool then Some fr else None) (if hi : bool then Some ni else None)
                                64 (if hv : bool then Some vs else None))) t
  (* 110: reductions on one slice: kind (0 sum,1 cumsum,2 prod) f count slice ; 111: dot fx fy xs ys *)
  | 110 :: t => run (k <- dZ ;; f <- dfmt ;; cnt <- dZ ;; l <- dlist dZ ;; dret (k, f, cnt, l))
                (fun '(k, f, cnt, l) => eoutcome (fun p => efmt (fst p) ++ ewres (fst p) (snd p))
                   (match k with 0 => fxp_sum f cnt l Trunc Saturate | 1 => fxp_cumsum f cnt l Trunc Saturate | 3 => fxp_cumprod f l Trunc Saturate | _ => fxp_prod f cnt l Trunc Saturate end)) t
  (* 112: sum (kind 0) / prod (kind 2) of one slice into a target format: kind f count slice ft r o *)
  | 112 :: t => run (k <- dZ ;; f <- dfmt ;; cnt <- dZ ;; l <- dlist dZ ;; ft <- dfmt ;; r <- drmode ;; o <- domode ;; dret (k, f, cnt, l, ft, r, o))
                (fun '(k, f, cnt, l, ft, r, o) => eoutcome (fun w => efmt ft ++ ewres ft w)
                   (match k with 0 => fxp_sum_into f cnt l ft r o | _ => fxp_prod_into f cnt l ft r o end)) t
  | 111 :: t => run (fx <- dfmt ;; fy <- dfmt ;; xs <- dlist dZ ;; ys <- dlist dZ ;; dret (fx, fy, xs, ys))
                (fun '(fx, fy, xs, ys) => eoutcome (fun p => efmt (fst p) ++ ewres (fst p) (snd p)) (fxp_dot fx fy xs ys Trunc Saturate)) t
  | _ => bad_request
  end.
