(* Convert.v — model of Fxp-to-Fxp format conversion (objects.py: resize 416-503,
   _format_inupt_val Fxp branch 666-680, equal 1058-1089, like 1644-1649, after the
   conversion fixes) on top of utils.scale_raw and Store.set_val_real. *)
From Coq Require Import ZArith List Bool.
From FxpVerif Require Import Spec NP Store.
Import ListNotations.
Open Scope Z_scope.

(* utils.scale_raw(val, shift): val * 2**shift on an int64/uint64 code array; Python integers
   when a scaled code reaches 2^63; for a negative shift a float64 array (the factor 2**shift is a
   float) unless some code has more than 53 bits (utils.needs_exact_scale): then every code becomes
   the exact rational code * Fraction(1, 1 << -shift), which set_val rounds once. *)
Definition scale_raw (codes : list Z) (shift : Z) : arr :=
  if 0 <? shift then
    (if existsb (fun c => 2^63 <=? Z.abs c * 2^shift) codes
     then AObj (map (fun c => NI (c * 2^shift)) codes)
     else AI64 (map (fun c => c * 2^shift) codes))
  else if shift =? 0 then AI64 codes
  else if existsb (fun c => 2^53 <=? Z.abs c) codes
  then AObj (map (fun c => NR {| dm := c; de := shift |}) codes)
  else AF64 (map (fun c => f64_mul_pow2 (f64_of_Z c) shift) codes).

(* which vdtype set_val casts the rescaled raw value to:
   - ndarray routes (resize, like(), equal): type(val.item(0))
   - Fxp-as-input routes (constructor, like=, set_val, call, indexed assignment): the source's
     vdtype, except that a fractional raw value is never cast to an integer type *)
Inductive croute := RArray | RFxpInput (src_vd : vdt).
Definition conv_vdt (rt : croute) (shift : Z) : vdt :=
  if shift <? 0 then VFloat
  else match rt with RArray => VInt | RFxpInput vd => vd end.

Definition convert (rt : croute) (fs : fmt) (codes : list Z) (fd : fmt) (r : rmode) (o : omode)
  : outcome wres :=
  let shift := nf fd - nf fs in
  set_val_real fd r o true (scale_raw codes shift) (conv_vdt rt shift).

(* a chain of conversions: each step converts the codes produced by the previous one *)
Record cstep := { cs_route : croute; cs_fmt : fmt; cs_r : rmode; cs_o : omode }.
Fixpoint convert_chain (fs : fmt) (codes : list Z) (steps : list cstep) : outcome (fmt * list Z) :=
  match steps with
  | [] => Ok (fs, codes)
  | s :: t => bind (convert (cs_route s) fs codes (cs_fmt s) (cs_r s) (cs_o s))
                   (fun w => convert_chain (cs_fmt s) (w_codes w) t)
  end.
