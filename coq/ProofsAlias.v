(* ProofsAlias.v — C20: separation invariant over histories of derivations. *)
From Coq Require Import Arith List Bool Lia.
From FxpVerif Require Import Alias.
Import ListNotations.

(* private locations (config, status, callbacks) are unique to their object and never coincide
   with a buffer; buffers coincide exactly within a view family *)
Definition private (o : obj) : list nat := [o_cfg o; o_st o; o_cbs o].
Definition inv (h : heap) : Prop :=
  (forall o, In o (h_objs h) -> o_cfg o < h_next h /\ o_st o < h_next h /\ o_buf o < h_next h /\ o_cbs o < h_next h /\ o_family o < length (h_objs h)) /\
  (forall i j oi oj, nth_error (h_objs h) i = Some oi -> nth_error (h_objs h) j = Some oj -> i <> j ->
     (forall l, In l (private oi) -> ~ In l (locs oj)) /\ (o_buf oi = o_buf oj <-> o_family oi = o_family oj)) /\
  (forall o, In o (h_objs h) -> NoDup (locs o)) /\
  (forall i oi, nth_error (h_objs h) i = Some oi -> o_family oi <= i /\
     exists r, nth_error (h_objs h) (o_family oi) = Some r /\ o_buf r = o_buf oi /\ o_family r = o_family oi).

Lemma inv0 : inv heap0.
Proof.
  unfold inv, heap0. cbn [h_next h_objs]. split; [|split; [|split]].
  - intros o Ho. destruct Ho.
  - intros i j oi oj Hi. destruct i; discriminate Hi.
  - intros o Ho. destruct Ho.
  - intros i oi Hi. destruct i; discriminate Hi.
Qed.

Lemma nth_error_snoc {A} (l : list A) (x : A) i : nth_error (l ++ [x]) i =
  if i <? length l then nth_error l i else if i =? length l then Some x else None.
Proof.
  destruct (i <? length l) eqn:E1.
  - apply Nat.ltb_lt in E1. apply nth_error_app1. exact E1.
  - apply Nat.ltb_ge in E1. rewrite nth_error_app2 by exact E1. destruct (i =? length l) eqn:E2.
    + apply Nat.eqb_eq in E2. subst. rewrite Nat.sub_diag. reflexivity.
    + apply Nat.eqb_neq in E2. destruct (i - length l) eqn:E3; [lia|]. cbn. destruct n; reflexivity.
Qed.

Lemma nodup4 (a b c d : nat) : NoDup [a; b; c; d] -> a <> c /\ b <> c /\ d <> c.
Proof.
  intros H. inversion H as [|? ? N1 H1]; subst. inversion H1 as [|? ? N2 H2]; subst. inversion H2 as [|? ? N3 H3]; subst.
  cbn [In] in *. repeat split; intros E; subst; intuition.
Qed.

Lemma alloc_inv h r : inv h -> inv (alloc h r).
Proof.
  intros (Hb & Hsep & Hnd & Hfam). unfold alloc.
  remember (h_next h) as n eqn:En in *. remember (length (h_objs h)) as idx eqn:Eidx in *.
  (* the new object and the facts about it that matter *)
  assert (Hnew: forall onew, (onew = {| o_cfg := n; o_st := n + 1; o_buf := n + 2; o_cbs := n + 3; o_family := idx |} \/
                  exists p po, nth_error (h_objs h) p = Some po /\ onew = {| o_cfg := n; o_st := n + 1; o_buf := o_buf po; o_cbs := n + 3; o_family := o_family po |}) ->
                inv {| h_next := n + 4; h_objs := h_objs h ++ [onew] |}).
  { intros onew Hon.
    assert (Hbuf: o_cfg onew = n /\ o_st onew = n + 1 /\ o_cbs onew = n + 3 /\
                  ((o_buf onew = n + 2 /\ o_family onew = idx) \/ (exists p po, nth_error (h_objs h) p = Some po /\ o_buf onew = o_buf po /\ o_family onew = o_family po))).
    { destruct Hon as [->|(p & po & Hp & ->)]; cbn; repeat split; auto. right. exists p, po. auto. }
    destruct Hbuf as (Ec & Es & Ecb & Hbf).
    unfold inv. cbn [h_next h_objs]. rewrite app_length. cbn [length]. rewrite <- Eidx.
    split; [|split; [|split]].
    - (* bounds *)
      intros o Ho. apply in_app_or in Ho. destruct Ho as [Ho|[<-|[]]].
      + destruct (Hb o Ho) as (B1 & B2 & B3 & B4 & B5). repeat split; lia.
      + rewrite Ec, Es, Ecb. destruct Hbf as [(Eb & Ef)|(p & po & Hp & Eb & Ef)].
        * rewrite Eb, Ef. repeat split; lia.
        * destruct (Hb po (nth_error_In _ _ Hp)) as (_ & _ & B3 & _ & B5). rewrite Eb, Ef. repeat split; lia.
    - (* separation *)
      intros i j oi oj Hi Hj Hij. rewrite nth_error_snoc in Hi, Hj. rewrite <- Eidx in Hi, Hj.
      destruct (i <? idx) eqn:Ei, (j <? idx) eqn:Ej.
      + exact (Hsep i j oi oj Hi Hj Hij).
      + (* i old, j new *)
        destruct (j =? idx) eqn:Ej2; [|discriminate]. injection Hj as <-.
        destruct (Hb oi (nth_error_In _ _ Hi)) as (B1 & B2 & B3 & B4 & B5).
        split.
        * intros l Hl. unfold private in Hl. unfold locs. rewrite Ec, Es, Ecb. cbn [In] in *.
          destruct Hbf as [(Eb & _)|(p & po & Hp & Eb & _)]; rewrite Eb.
          -- intros [H|[H|[H|[H|[]]]]]; destruct Hl as [<-|[<-|[<-|[]]]]; lia.
          -- (* the new buffer is po's buffer: private locations of oi are not po's buffer *)
             intros Hin.
             assert (Hlt: l < n) by (destruct Hl as [<-|[<-|[<-|[]]]]; lia).
             destruct Hin as [H|[H|[H|[H|[]]]]]; try lia.
             destruct (Nat.eq_dec i p) as [E|Hne].
             ++ subst p. rewrite Hp in Hi. injection Hi as Eo. subst oi.
                destruct (nodup4 _ _ _ _ (Hnd po (nth_error_In _ _ Hp))) as (D1 & D2 & D3).
                destruct Hl as [E1|[E1|[E1|[]]]]; rewrite <- H in E1; [apply D1|apply D2|apply D3]; exact E1.
             ++ destruct (Hsep i p oi po Hi Hp Hne) as (Hs1 & _). apply (Hs1 l Hl). unfold locs. cbn [In]. right. right. left. exact H.
        * destruct Hbf as [(Eb & Ef)|(p & po & Hp & Eb & Ef)]; rewrite Eb, Ef.
          -- split; intros H; lia.
          -- destruct (Nat.eq_dec i p) as [->|Hne].
             ++ rewrite Hp in Hi. injection Hi as <-. tauto.
             ++ destruct (Hsep i p oi po Hi Hp Hne) as (_ & Hs2). exact Hs2.
      + (* i new, j old *)
        destruct (i =? idx) eqn:Ei2; [|discriminate]. injection Hi as <-.
        destruct (Hb oj (nth_error_In _ _ Hj)) as (B1 & B2 & B3 & B4 & B5).
        split.
        * intros l Hl. unfold private in Hl. rewrite Ec, Es, Ecb in Hl. unfold locs. cbn [In] in *.
          intros [H|[H|[H|[H|[]]]]]; destruct Hl as [<-|[<-|[<-|[]]]]; lia.
        * destruct Hbf as [(Eb & Ef)|(p & po & Hp & Eb & Ef)]; rewrite Eb, Ef.
          -- split; intros H; lia.
          -- destruct (Nat.eq_dec j p) as [->|Hne].
             ++ rewrite Hp in Hj. injection Hj as <-. tauto.
             ++ destruct (Hsep p j po oj Hp Hj ltac:(lia)) as (_ & Hs2). exact Hs2.
      + destruct (i =? idx) eqn:Ei2; [|discriminate]. destruct (j =? idx) eqn:Ej2; [|discriminate].
        apply Nat.eqb_eq in Ei2, Ej2. lia.
    - (* NoDup of each object's own locations *)
      intros o Ho. apply in_app_or in Ho. destruct Ho as [Ho|[<-|[]]]; [exact (Hnd o Ho)|].
      unfold locs. rewrite Ec, Es, Ecb.
      destruct Hbf as [(Eb & _)|(p & po & Hp & Eb & _)]; rewrite Eb.
      + repeat constructor; cbn [In]; lia.
      + destruct (Hb po (nth_error_In _ _ Hp)) as (_ & _ & B3 & _). repeat constructor; cbn [In]; lia.
    - (* families point to an older root with the same buffer *)
      intros i oi Hi. rewrite nth_error_snoc in Hi. rewrite <- Eidx in Hi. destruct (i <? idx) eqn:Ei.
      + destruct (Hfam i oi Hi) as (Hle & rt & Hr & Hb1 & Hb2). split; [exact Hle|]. exists rt.
        assert (o_family oi < idx) by (apply Nat.ltb_lt in Ei; lia).
        rewrite nth_error_snoc. rewrite <- Eidx. replace (o_family oi <? idx) with true by (symmetry; apply Nat.ltb_lt; lia). auto.
      + destruct (i =? idx) eqn:Ei2; [|discriminate]. apply Nat.eqb_eq in Ei2. subst i. injection Hi as <-.
        destruct Hbf as [(Eb & Ef)|(p & po & Hp & Eb & Ef)].
        * rewrite Ef. split; [lia|]. exists onew. rewrite nth_error_snoc. rewrite <- Eidx. rewrite Nat.ltb_irrefl, Nat.eqb_refl. auto.
        * assert (Hpl: p < idx) by (rewrite Eidx; apply nth_error_Some; rewrite Hp; discriminate).
          destruct (Hfam p po Hp) as (Hle & rt & Hr & Hb1 & Hb2). rewrite Ef. split; [lia|]. exists rt.
          rewrite nth_error_snoc. rewrite <- Eidx. replace (o_family po <? idx) with true by (symmetry; apply Nat.ltb_lt; lia).
          split; [exact Hr|]. rewrite Eb. auto. }
  destruct r as [|p].
  - apply Hnew. left. reflexivity.
  - destruct (nth_error (h_objs h) p) as [po|] eqn:Hp; [|subst n idx; unfold inv; auto].
    apply Hnew. right. exists p, po. auto.
Qed.

Theorem run_inv rs : inv (run rs).
Proof.
  unfold run. assert (H: forall h, inv h -> inv (fold_left alloc rs h)).
  { induction rs as [|r rs IH]; intros h Hh; [exact Hh|]. cbn [fold_left]. apply IH. apply alloc_inv. exact Hh. }
  apply H. exact inv0.
Qed.

(* consequence: a mutation of one object is invisible to every other object, except an in-place
   value write within a view family *)
Theorem independence rs i j oi oj m :
  nth_error (h_objs (run rs)) i = Some oi -> nth_error (h_objs (run rs)) j = Some oj -> i <> j ->
  In (written oi m) (locs oj) -> m = MValueInPlace /\ o_family oi = o_family oj.
Proof.
  intros Hi Hj Hij Hin. destruct (run_inv rs) as (_ & Hsep & _ & _).
  destruct (Hsep i j oi oj Hi Hj Hij) as (Hp & Hb).
  destruct m; cbn [written] in Hin.
  - exfalso. apply (Hp (o_cfg oi)); [cbn; auto|exact Hin].
  - exfalso. apply (Hp (o_st oi)); [cbn; auto|exact Hin].
  - split; [reflexivity|]. apply Hb.
    destruct (Hsep j i oj oi Hj Hi ltac:(lia)) as (Hpj & _). unfold locs in Hin. cbn [In] in Hin.
    destruct Hin as [H|[H|[H|[H|[]]]]]; try (exfalso; apply (Hpj (written oj MConfig)) + apply (Hpj _); fail).
    + exfalso. apply (Hpj (o_cfg oj)); [cbn; auto|]. unfold locs. cbn [In]. rewrite H. auto.
    + exfalso. apply (Hpj (o_st oj)); [cbn; auto|]. unfold locs. cbn [In]. rewrite H. auto.
    + symmetry. exact H.
    + exfalso. apply (Hpj (o_cbs oj)); [cbn; auto|]. unfold locs. cbn [In]. rewrite H. auto.
  - exfalso. apply (Hp (o_cbs oi)); [cbn; auto|exact Hin].
Qed.
