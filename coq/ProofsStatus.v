(* ProofsStatus.v — C04: flags after any history = OR of the per-write Spec conditions
   since the last reset; callbacks per write; reset. *)
From Coq Require Import ZArith List Bool Lia.
From FxpVerif Require Import Spec NP Store ProofsCore ProofsStore Status.
Import ListNotations.
Open Scope Z_scope.

(* spec-level history: each write is the list of exact values written *)
Inductive sstep := SWrite (vs : list dy) | SReset.
Definition sflags := (bool * bool * bool)%type.
Definition scond (f : fmt) (r : rmode) (o : omode) (vs : list dy) : sflags :=
  (existsb (ovf_cond f r) vs, existsb (unf_cond f r) vs, existsb (inacc_cond f r o) vs).
Definition or3 (a b : sflags) : sflags :=
  let '(a1, a2, a3) := a in let '(b1, b2, b3) := b in (a1 || b1, a2 || b2, a3 || b3).
(* expected flags: OR of the conditions of the writes since the last reset *)
Fixpoint expected (f : fmt) (r : rmode) (o : omode) (acc : sflags) (steps : list sstep) : sflags :=
  match steps with
  | [] => acc
  | SWrite vs :: t => expected f r o (or3 acc (scond f r o vs)) t
  | SReset :: t => expected f r o (false, false, false) t
  end.
Definition flags_of (st : status) : sflags := (st_ovf st, st_unf st, st_inacc st).

(* how a spec-level step is presented to the code: as a float64 array *)
Definition to_hstep (s : sstep) : hstep :=
  match s with SWrite vs => HWrite (AF64 (map f64_of_core vs)) VFloat | SReset => HReset end.
Definition step_ok (f : fmt) (s : sstep) : Prop :=
  match s with SWrite vs => Forall (core_dy f) vs | SReset => True end.
Definition spec_events (f : fmt) (r : rmode) (o : omode) (s : sstep) : list cbev :=
  match s with
  | SWrite vs => write_events (spec_wres f r o vs)
  | SReset => [] end.

Fixpoint last_status (st : status) (l : list (status * list cbev)) : status :=
  match l with [] => st | p :: t => last_status (fst p) t end.

Lemma hstep_core f r o st s : core_fmt f -> step_ok f s ->
  hstep_run f r o st (to_hstep s) =
  Ok (match s with SWrite vs => status_write st (spec_wres f r o vs) | SReset => status_reset st end,
      spec_events f r o s).
Proof.
  intros Hf Hs. destruct s as [vs|]; cbn [to_hstep hstep_run spec_events]; [|reflexivity].
  rewrite (set_val_floats_core f r o vs Hf Hs). reflexivity.
Qed.

Theorem history_core f r o steps : core_fmt f -> Forall (step_ok f) steps -> forall st,
  exists trace, history_run f r o st (map to_hstep steps) = Ok trace /\
    map snd trace = map (spec_events f r o) steps /\
    flags_of (last_status st trace) = expected f r o (flags_of st) steps /\
    st_extp (last_status st trace) = st_extp st.
Proof.
  intros Hf Hs. induction Hs as [|s steps Hs1 _ IH]; intros st.
  - exists []. cbn. auto.
  - cbn [map history_run]. rewrite (hstep_core f r o st s Hf Hs1). cbn [bind fst].
    set (st' := match s with SWrite vs => status_write st (spec_wres f r o vs) | SReset => status_reset st end).
    destruct (IH st') as (tr & Htr & Hev & Hfl & Hx). rewrite Htr. cbn [bind].
    eexists. split; [reflexivity|]. cbn [map snd last_status fst]. rewrite Hev, Hfl, Hx.
    split; [reflexivity|]. split.
    + destruct s as [vs|]; cbn [expected]; [|reflexivity].
      unfold st', flags_of, status_write, spec_wres, scond, or3. cbn. reflexivity.
    + destruct s; reflexivity.
Qed.

(* stickiness: without a reset a raised flag stays raised *)
Lemma expected_sticky f r o acc steps :
  Forall (fun s => s <> SReset) steps ->
  let '(a1, a2, a3) := acc in let '(e1, e2, e3) := expected f r o acc steps in
  (a1 = true -> e1 = true) /\ (a2 = true -> e2 = true) /\ (a3 = true -> e3 = true).
Proof.
  intros H. revert acc. induction H as [|s steps Hs _ IH]; intros [[a1 a2] a3].
  - cbn. auto.
  - destruct s as [vs|]; [|congruence]. cbn [expected].
    specialize (IH (or3 (a1, a2, a3) (scond f r o vs))). unfold or3, scond in *.
    destruct (expected f r o _ steps) as [[e1 e2] e3].
    destruct IH as (I1 & I2 & I3). repeat split; intros ->; [apply I1|apply I2|apply I3]; reflexivity.
Qed.

Lemma reset_clears st : flags_of (status_reset st) = (false, false, false) /\ st_extp (status_reset st) = st_extp st.
Proof. split; reflexivity. Qed.

Lemma propagate ops own : existsb (fun b => b) ops = true -> result_inacc ops own = true.
Proof. intros H. unfold result_inacc. rewrite H. apply orb_true_r. Qed.
