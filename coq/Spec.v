(* Spec.v — the mathematical reference: what the properties mean, in exact
   arithmetic over Z and dyadic rationals.  Small enough to read in minutes.
   No reference to the code, to NumPy or to floats. *)
From Coq Require Import ZArith List Bool Lia.
Import ListNotations.
Open Scope Z_scope.

(* ---------- modes and formats ---------- *)
Inductive rmode := Trunc | Fix | Floor | Ceil | Around.
Inductive omode := Saturate | Wrap.

Record fmt := { sg : bool; nw : Z; nf : Z }.

Definition sbit (f : fmt) : Z := if sg f then 1 else 0.
Definition cmin (f : fmt) : Z := if sg f then - 2^(nw f - 1) else 0.
Definition cmax (f : fmt) : Z := if sg f then 2^(nw f - 1) - 1 else 2^(nw f) - 1.
Definition in_range (f : fmt) (c : Z) : Prop := cmin f <= c <= cmax f.
Definition in_rangeb (f : fmt) (c : Z) : bool := (cmin f <=? c) && (c <=? cmax f).
Definition n_int (f : fmt) : Z := nw f - nf f - sbit f.

(* ---------- dyadic rationals  dm * 2^de ---------- *)
Record dy := { dm : Z; de : Z }.

Definition dy_scale (k : Z) (v : dy) : dy := {| dm := dm v; de := de v + k |}.
Definition dy_of_Z (z : Z) : dy := {| dm := z; de := 0 |}.
(* align two dyadics on the smaller exponent *)
Definition dy_align (a b : dy) : Z * Z * Z :=
  let e := Z.min (de a) (de b) in
  (dm a * 2^(de a - e), dm b * 2^(de b - e), e).
Definition dy_add (a b : dy) : dy :=
  let '(x, y, e) := dy_align a b in {| dm := x + y; de := e |}.
Definition dy_sub (a b : dy) : dy :=
  let '(x, y, e) := dy_align a b in {| dm := x - y; de := e |}.
Definition dy_mul (a b : dy) : dy := {| dm := dm a * dm b; de := de a + de b |}.
Definition dy_neg (a : dy) : dy := {| dm := - dm a; de := de a |}.
Definition dy_eqb (a b : dy) : bool := let '(x, y, _) := dy_align a b in x =? y.
Definition dy_leb (a b : dy) : bool := let '(x, y, _) := dy_align a b in x <=? y.
Definition dy_ltb (a b : dy) : bool := let '(x, y, _) := dy_align a b in x <? y.
(* the value denoted by a code in a format *)
Definition val_of_code (f : fmt) (c : Z) : dy := {| dm := c; de := - nf f |}.

(* ---------- rounding a dyadic to an integer ---------- *)
(* round-half-even of m / 2^k, k > 0 *)
Definition rhe (m k : Z) : Z :=
  let d := 2^k in let q := m / d in let r := m mod d in
  if 2*r <? d then q else if d <? 2*r then q+1 else if Z.even q then q else q+1.

Definition round_dy (r : rmode) (v : dy) : Z :=
  if 0 <=? de v then dm v * 2^(de v) else
  let k := - de v in
  match r with
  | Floor => dm v / 2^k
  | Ceil => - ((- dm v) / 2^k)
  | Trunc | Fix => Z.quot (dm v) (2^k)
  | Around => rhe (dm v) k
  end.

(* is the dyadic an integer? *)
Definition dy_is_int (v : dy) : bool :=
  if 0 <=? de v then true else dm v mod 2^(- de v) =? 0.

(* ---------- overflow ---------- *)
Definition sat (f : fmt) (c : Z) : Z := Z.max (cmin f) (Z.min (cmax f) c).
Definition wrap_res (f : fmt) (c : Z) : Z := cmin f + (c - cmin f) mod 2^(nw f).
Definition overflow (o : omode) (f : fmt) (c : Z) : Z :=
  match o with Saturate => sat f c | Wrap => wrap_res f c end.

(* ---------- C01: the quantizer ---------- *)
Definition quantize (f : fmt) (r : rmode) (o : omode) (v : dy) : Z :=
  overflow o f (round_dy r (dy_scale (nf f) v)).

(* ---------- C04: per-element flag conditions ---------- *)
Definition ovf_cond (f : fmt) (r : rmode) (v : dy) : bool := cmax f <? round_dy r (dy_scale (nf f) v).
Definition unf_cond (f : fmt) (r : rmode) (v : dy) : bool := round_dy r (dy_scale (nf f) v) <? cmin f.
Definition inacc_cond (f : fmt) (r : rmode) (o : omode) (v : dy) : bool :=
  negb (dy_eqb (val_of_code f (quantize f r o v)) v).

(* ---------- C11/C13/C16: two's-complement image ---------- *)
Definition uimage (n c : Z) : Z := c mod 2^n.
(* MSB-first list of the n low bits of u *)
Fixpoint bits_nat (n : nat) (u : Z) : list bool :=
  match n with O => [] | S k => bits_nat k (u / 2) ++ [Z.odd u] end.
Definition to_bits (n u : Z) : list bool := bits_nat (Z.to_nat n) u.
Fixpoint of_bits_acc (acc : Z) (l : list bool) : Z :=
  match l with [] => acc | b :: t => of_bits_acc (2 * acc + (if b then 1 else 0)) t end.
Definition of_bits (l : list bool) : Z := of_bits_acc 0 l.
