(* Shift.v — model of << and >> (objects.py:1373-1398, utils.min_pow2 373-384). *)
From Coq Require Import ZArith List Bool.
From FxpVerif Require Import Spec NP Store Bitwise.
Import ListNotations.
Open Scope Z_scope.

Inductive shmode := ShExpand | ShKeep.      (* config.shifting: 'expand' | 'trunc' / 'keep' *)

(* utils.min_pow2(x): _pow = 1; while not any(x % 2**_pow): _pow += 1; return _pow - 1
   (None when every element is 0).  Explicit fuel; exhaustion = Unmodelled. *)
Fixpoint min_pow2_loop (fuel : nat) (codes : list Z) (p : Z) : option Z :=
  match fuel with
  | O => None
  | S f => if forallb (fun c => c mod 2^p =? 0) codes then min_pow2_loop f codes (p + 1) else Some (p - 1)
  end.
Definition min_pow2 (codes : list Z) : outcome (option Z) :=
  if forallb (fun c => c =? 0) codes then Ok None
  else match min_pow2_loop 300 codes 1 with Some q => Ok (Some q) | None => Unmodelled end.

(* x >> n *)
Definition rshift_fmt_codes (m : shmode) (f : fmt) (codes : list Z) (n : Z) : outcome (fmt * list Z) :=
  match m with
  | ShExpand =>
      bind (min_pow2 codes) (fun mp =>
      let e := match mp with Some q => if q <? n then n - q else 0 | None => 0 end in
      Ok ({| sg := sg f; nw := nw f + e; nf := nf f + e |}, map (fun c => Z.shiftr c (n - e)) codes))
  | ShKeep => Ok (f, map (fun c => Z.shiftr c n) codes)
  end.

(* x << n: the word grows to hold the largest magnitude shifted by n.  The bits a code needs are counted exactly on Python
   integers (fix of the float log2 formula): v.bit_length() for v >= 0, (~v).bit_length() for v < 0 *)
Definition py_bits (v : Z) : Z := if 0 <=? v then bitlen v else bitlen (- v - 1).
Definition lshift_fmt (m : shmode) (f : fmt) (codes : list Z) (n : Z) : fmt :=
  match m with
  | ShExpand =>
      let bl := fold_right Z.max 0 (map py_bits codes) in
      {| sg := sg f; nw := Z.max (nw f) (bl + (if sg f then 1 else 0) + n); nf := nf f |}
  | ShKeep => f
  end.
(* the shifted raw value is stored with set_val(raw=True) under the DEFAULT configuration of a
   new object (trunc, saturate) *)
Definition lshift_raw (f : fmt) (c n : Z) : Z :=
  if 64 <=? nw f + n then Z.shiftl c n       (* the raw array is cast to Python integers when n_word + n >= 64 *)
  else if sg f then wrap_i64 (Z.shiftl c n) else wrap_u64 (Z.shiftl c n).
Definition fxp_lshift (m : shmode) (f : fmt) (c n : Z) : outcome (fmt * wres) :=
  let f' := lshift_fmt m f [c] n in
  bind (set_val_real f' Trunc Saturate true (raw_arr f' (lshift_raw f c n)) VInt) (fun w => Ok (f', w)).
(* x << n on an array: one word for all elements (the largest magnitude decides), every element shifted *)
Definition fxp_lshift_arr (m : shmode) (f : fmt) (codes : list Z) (n : Z) : outcome (fmt * wres) :=
  let f' := lshift_fmt m f codes n in
  bind (set_val_real f' Trunc Saturate true (raw_arr_list f' (map (fun c => lshift_raw f c n) codes)) VInt) (fun w => Ok (f', w)).
Definition fxp_rshift (m : shmode) (f : fmt) (c n : Z) : outcome (fmt * wres) :=
  bind (rshift_fmt_codes m f [c] n) (fun fc =>
  match m, snd fc with
  | ShExpand, [z] => bind (set_val_real (fst fc) Trunc Saturate true (raw_arr (fst fc) z) VInt) (fun w => Ok (fst fc, w))
  | ShKeep, [z] => Ok (fst fc, {| w_codes := [z]; w_ovf := false; w_unf := false; w_inacc := false |})   (* direct buffer write *)
  | _, _ => Unmodelled end).
