(* ProofsReduce.v — C15: the accumulating reductions never overflow their optimal format
   (bound lemmas for ANY length) and the int64 accumulation is exact up to 62-bit results. *)
From Coq Require Import ZArith List Bool Lia ZifyBool.
From FxpVerif Require Import Spec SpecArith NP Store ProofsCore ProofsStore ProofsArith Arith Reduce.
Import ListNotations.
Open Scope Z_scope.
Ltac Zify.zify_post_hook ::= Z.to_euclidean_division_equations.

Definition zsum (l : list Z) : Z := fold_right Z.add 0 l.

Lemma zsum_bound l lo hi : Forall (fun c => lo <= c <= hi) l ->
  Z.of_nat (length l) * lo <= zsum l <= Z.of_nat (length l) * hi.
Proof.
  induction 1 as [|c l Hc _ IH]; [cbn; lia|]. cbn [zsum fold_right length]. fold (zsum l). rewrite Nat2Z.inj_succ. lia.
Qed.

Lemma clog2_ge n : 1 <= n -> n <= 2^(clog2 n).
Proof.
  intros Hn. unfold clog2. destruct (Z.eq_dec n 1) as [->|Hne]; [cbn; lia|].
  pose proof (Z.log2_up_spec n ltac:(lia)) as (_ & H). exact H.
Qed.
Lemma clog2_nonneg n : 0 <= clog2 n.
Proof. unfold clog2. apply Z.log2_up_nonneg. Qed.

(* sum of any number of in-range codes fits in the format grown by ceil(log2(count)) bits,
   for every count >= the number of summed elements *)
Theorem sum_in_range f total l : 1 <= nw f -> Z.of_nat (length l) <= total -> 1 <= total ->
  Forall (in_range f) l -> in_range (sum_fmt f total) (zsum l).
Proof.
  intros Hw Hlen Ht Hr. pose proof (clog2_ge total Ht) as Hc. pose proof (clog2_nonneg total) as Hc0.
  assert (Hb: Forall (fun c => cmin f <= c <= cmax f) l) by exact Hr.
  pose proof (zsum_bound l (cmin f) (cmax f) Hb) as Hs.
  unfold in_range, sum_fmt, cmin, cmax in *. cbn [sg nw].
  set (k := clog2 total) in *. set (n := Z.of_nat (length l)) in *. assert (Hn0: 0 <= n) by (unfold n; lia).
  assert (P: 0 < 2^k) by (apply pow2_pos; lia).
  destruct (sg f).
  - replace (k + nw f - 1) with (k + (nw f - 1)) by lia. rewrite pow2_split by lia.
    assert (0 < 2^(nw f - 1)) by (apply pow2_pos; lia). nia.
  - rewrite pow2_split by lia. assert (0 < 2^(nw f)) by (apply pow2_pos; lia). nia.
Qed.

(* dot product: sum of count products of in-range codes *)
Theorem dot_in_range fx fy xs ys : 1 <= nw fx -> 1 <= nw fy -> length xs = length ys -> (1 <= length xs)%nat ->
  Forall (in_range fx) xs -> Forall (in_range fy) ys ->
  in_range (dot_fmt fx fy (Z.of_nat (length xs))) (zsum (map (fun p => fst p * snd p) (combine xs ys))).
Proof.
  intros Hwx Hwy Hlen Hne Hrx Hry.
  set (prods := map (fun p => fst p * snd p) (combine xs ys)).
  assert (Hlp: length prods = length xs) by (unfold prods; rewrite map_length, combine_length; lia).
  assert (Hpr: Forall (in_range (grow OpMul fx fy)) prods).
  { unfold prods. rewrite Forall_map. apply Forall_forall. intros [a b] Hp. cbn [fst snd]. rewrite Forall_forall in Hrx, Hry.
    apply (mul_in_grow fx fy a b Hwx Hwy); [apply Hrx; exact (in_combine_l _ _ _ _ Hp) | apply Hry; exact (in_combine_r _ _ _ _ Hp)]. }
  pose proof (sum_in_range (grow OpMul fx fy) (Z.of_nat (length xs)) prods) as H.
  cbn [grow nw sg] in H. rewrite Hlp in H. specialize (H ltac:(lia) ltac:(lia) ltac:(lia) Hpr).
  unfold dot_fmt. unfold sum_fmt in H. cbn [grow sg nw nf] in *. replace (clog2 (Z.of_nat (length xs)) + nw fx + nw fy) with (clog2 (Z.of_nat (length xs)) + (nw fx + nw fy)) by lia.
  exact H.
Qed.

(* the int64 accumulation is the exact sum while every partial sum stays below 2^63 *)
Lemma sum_i64_exact_aux l acc B : 0 <= B -> Forall (fun c => Z.abs c <= B) l ->
  Z.abs acc + Z.of_nat (length l) * B < 2^63 ->
  fold_left (fun a c => acc_wrap true (a + c)) l acc = acc + zsum l.
Proof.
  intros HB Hl. revert acc. induction Hl as [|c l Hc _ IH]; intros acc Hacc; [cbn; lia|].
  cbn [fold_left zsum fold_right length] in *. fold (zsum l). rewrite Nat2Z.inj_succ in Hacc.
  unfold acc_wrap at 2. rewrite wrap_i64_small by lia. rewrite IH by lia. lia.
Qed.
Theorem sum_i64_exact l B : 0 <= B -> Forall (fun c => Z.abs c <= B) l -> Z.of_nat (length l) * B < 2^63 ->
  sum_i64 true l = zsum l.
Proof. intros HB Hl Hb. unfold sum_i64. rewrite (sum_i64_exact_aux l 0 B HB Hl) by (cbn; lia). lia. Qed.

Lemma sum_u64_exact_aux l acc B : 0 <= B -> Forall (fun c => 0 <= c <= B) l -> 0 <= acc ->
  acc + Z.of_nat (length l) * B < 2^64 ->
  fold_left (fun a c => acc_wrap false (a + c)) l acc = acc + zsum l.
Proof.
  intros HB Hl. revert acc. induction Hl as [|c l Hc _ IH]; intros acc Ha Hacc; [cbn; lia|].
  cbn [fold_left zsum fold_right length] in *. fold (zsum l). rewrite Nat2Z.inj_succ in Hacc.
  unfold acc_wrap at 2. rewrite wrap_u64_small by lia. rewrite IH by lia. lia.
Qed.

(* Python-integer accumulation (the wide path) is exact *)
Lemma fold_add_zsum l acc : fold_left Z.add l acc = acc + zsum l.
Proof. revert acc. induction l as [|c l IH]; intros acc; cbn [fold_left zsum fold_right]; [lia|]. fold (zsum l). rewrite IH. lia. Qed.
Lemma sum_py_zsum l : sum_py l = zsum l.
Proof. unfold sum_py. rewrite fold_add_zsum. lia. Qed.

(* sum over all elements or along an axis: the result holds the exact sum, no flag, for ANY
   number of elements, as long as the grown word stays within 62 bits *)
Theorem fxp_sum_exact f total l r o : 1 <= nw f -> 1 <= total -> Z.of_nat (length l) <= total ->
  clog2 total + nw f <= 62 -> Forall (in_range f) l ->
  exists w, fxp_sum f total l r o = Ok (sum_fmt f total, w) /\ w_codes w = [zsum l] /\ w_ovf w = false /\ w_unf w = false.
Proof.
  intros Hw Ht Hlen H62 Hr. pose proof (sum_in_range f total l Hw Hlen Ht Hr) as Hin.
  pose proof (clog2_ge total Ht) as Hc. pose proof (clog2_nonneg total) as Hc0.
  assert (Hsum: sum_i64 (sg f) l = zsum l).
  { assert (P62: 2^(clog2 total + nw f) <= 2^62) by (apply pow2_le; lia). rewrite pow2_split in P62 by lia.
    assert (2^62 < 2^63) by (apply pow2_lt; lia). assert (2^63 < 2^64) by (apply pow2_lt; lia).
    assert (E: 2^(nw f) = 2 * 2^(nw f - 1)) by (apply pow2_double; lia). assert (0 < 2^(nw f - 1)) by (apply pow2_pos; lia).
    assert (0 < 2^(clog2 total)) by (apply pow2_pos; lia).
    destruct (sg f) eqn:Es.
    - apply (sum_i64_exact l (2^(nw f - 1))); [lia| |nia].
      eapply Forall_impl; [|exact Hr]. intros c Hcr. unfold in_range, cmin, cmax in Hcr. rewrite Es in Hcr. lia.
    - unfold sum_i64. rewrite (sum_u64_exact_aux l 0 (2^(nw f))); [lia|lia| |lia|nia].
      eapply Forall_impl; [|exact Hr]. intros c Hcr. unfold in_range, cmin, cmax in Hcr. rewrite Es in Hcr. lia. }
  unfold fxp_sum. rewrite Hsum. unfold reduce_store. cbn [sum_fmt nw]. replace (64 <=? clog2 total + nw f) with false by lia.
  assert (Hw': 1 <= nw (sum_fmt f total)) by (cbn [sum_fmt nw]; lia).
  assert (Hzb: Z.abs (zsum l) < 2^63).
  { unfold in_range, cmin, cmax, sum_fmt in Hin. cbn [sg nw] in Hin.
    assert (2^(clog2 total + nw f - 1) <= 2^61) by (apply pow2_le; lia). assert (2^(clog2 total + nw f) <= 2^62) by (apply pow2_le; lia).
    assert (2^61 < 2^63) by (apply pow2_lt; lia). assert (2^62 < 2^63) by (apply pow2_lt; lia). assert (0 < 2^(clog2 total + nw f - 1)) by (apply pow2_pos; lia).
    destruct (sg f); lia. }
  destruct (set_val_raw_i64 (sum_fmt f total) r o [zsum l] Hw' ltac:(constructor; [exact Hzb|constructor])) as (w & Hs & Hcodes & Ho & Hu).
  change (nw (sum_fmt f total)) with (clog2 total + nw f) in *.
  rewrite Hs. cbn [bind]. exists w. split; [reflexivity|]. cbn [map existsb] in *. rewrite Hcodes, Ho, Hu.
  rewrite overflow_id by assumption. unfold in_range in Hin. repeat split; lia.
Qed.

(* ---------- storing a list of exact, in-range integers ---------- *)
Lemma reduce_store_exact fz r o zs : 1 <= nw fz <= 62 -> Forall (in_range fz) zs ->
  exists w, reduce_store fz r o zs = Ok w /\ w_codes w = zs /\ w_ovf w = false /\ w_unf w = false.
Proof.
  intros Hw Hin. unfold reduce_store. replace (64 <=? nw fz) with false by lia.
  assert (Hzb: Forall (fun z => Z.abs z < 2^63) zs).
  { eapply Forall_impl; [|exact Hin]. intros z Hz. unfold in_range, cmin, cmax in Hz.
    assert (2^(nw fz - 1) <= 2^61) by (apply pow2_le; lia). assert (2^(nw fz) <= 2^62) by (apply pow2_le; lia).
    assert (2^61 < 2^63) by (apply pow2_lt; lia). assert (2^62 < 2^63) by (apply pow2_lt; lia). assert (0 < 2^(nw fz - 1)) by (apply pow2_pos; lia).
    destruct (sg fz); lia. }
  destruct (set_val_raw_i64 fz r o zs ltac:(lia) Hzb) as (w & Hs & Hcodes & Ho & Hu).
  exists w. split; [exact Hs|]. rewrite Hcodes, Ho, Hu. repeat split.
  - apply map_fix. intros z Hz. rewrite Forall_forall in Hin. apply overflow_id; [lia|]. apply Hin. exact Hz.
  - apply existsb_false. eapply Forall_impl; [|exact Hin]. intros z Hz. unfold in_range in Hz. lia.
  - apply existsb_false. eapply Forall_impl; [|exact Hin]. intros z Hz. unfold in_range in Hz. lia.
Qed.

(* ---------- dot: the sum of the products, exact, no flag, any length ---------- *)
Theorem fxp_dot_exact fx fy xs ys r o : 1 <= nw fx -> 1 <= nw fy -> length xs = length ys -> (1 <= length xs)%nat ->
  clog2 (Z.of_nat (length xs)) + nw fx + nw fy <= 62 -> Forall (in_range fx) xs -> Forall (in_range fy) ys ->
  let prods := map (fun p => fst p * snd p) (combine xs ys) in
  exists w, fxp_dot fx fy xs ys r o = Ok (dot_fmt fx fy (Z.of_nat (length xs)), w) /\
    w_codes w = [zsum prods] /\ w_ovf w = false /\ w_unf w = false.
Proof.
  intros Hwx Hwy Hlen Hne H62 Hrx Hry prods.
  pose proof (dot_in_range fx fy xs ys Hwx Hwy Hlen Hne Hrx Hry) as Hin. fold prods in Hin.
  set (n := Z.of_nat (length xs)) in *. assert (Hn: 1 <= n) by (unfold n; lia).
  pose proof (clog2_ge n Hn) as Hc. pose proof (clog2_nonneg n) as Hc0.
  assert (Hlp: length prods = length xs) by (unfold prods; rewrite map_length, combine_length; lia).
  assert (Hsum: sum_i64 true prods = zsum prods).
  { apply (sum_i64_exact prods (2^(nw fx + nw fy))).
    - assert (0 < 2^(nw fx + nw fy)) by (apply pow2_pos; lia). lia.
    - unfold prods. rewrite Forall_map. apply Forall_forall. intros [a b] Hp. cbn [fst snd]. rewrite Forall_forall in Hrx, Hry.
      pose proof (Hrx a (in_combine_l _ _ _ _ Hp)) as Ha. pose proof (Hry b (in_combine_r _ _ _ _ Hp)) as Hb.
      destruct (code_mag fx a Hwx Ha) as (Sa & Ua). destruct (code_mag fy b Hwy Hb) as (Sb & Ub).
      assert (Z.abs a <= 2^(nw fx)).
      { assert (E: 2^(nw fx) = 2 * 2^(nw fx - 1)) by (apply pow2_double; lia). assert (0 < 2^(nw fx - 1)) by (apply pow2_pos; lia).
        destruct (sg fx); [specialize (Sa eq_refl)|specialize (Ua eq_refl)]; lia. }
      assert (Z.abs b <= 2^(nw fy)).
      { assert (E: 2^(nw fy) = 2 * 2^(nw fy - 1)) by (apply pow2_double; lia). assert (0 < 2^(nw fy - 1)) by (apply pow2_pos; lia).
        destruct (sg fy); [specialize (Sb eq_refl)|specialize (Ub eq_refl)]; lia. }
      rewrite pow2_split by lia. rewrite Z.abs_mul. nia.
    - rewrite Hlp. fold n. assert (P62: 2^(clog2 n + (nw fx + nw fy)) <= 2^62) by (apply pow2_le; lia). rewrite pow2_split in P62 by lia.
      assert (2^62 < 2^63) by (apply pow2_lt; lia). assert (0 < 2^(nw fx + nw fy)) by (apply pow2_pos; lia). nia. }
  unfold fxp_dot. fold n. fold prods. cbv zeta. rewrite Hsum, sum_py_zsum.
  match goal with |- context [if ?b then zsum prods else zsum prods] =>
    replace (if b then zsum prods else zsum prods) with (zsum prods) by (destruct b; reflexivity) end.
  destruct (reduce_store_exact (dot_fmt fx fy n) r o [zsum prods]) as (w & Hs & Hcodes & Ho & Hu).
  - unfold dot_fmt. cbn [nw]. lia.
  - constructor; [exact Hin|constructor].
  - rewrite Hs. cbn [bind]. exists w. auto.
Qed.

(* ---------- cumsum: every prefix sum, exact ---------- *)
Fixpoint prefix_sums (acc : Z) (l : list Z) : list Z :=
  match l with [] => [] | c :: t => (acc + c) :: prefix_sums (acc + c) t end.

Lemma scan_py_prefix l acc : scan_py Z.add acc l = prefix_sums acc l.
Proof. revert acc. induction l as [|c l IH]; intros acc; cbn [scan_py prefix_sums]; [reflexivity|]. rewrite IH. reflexivity. Qed.

Lemma scan_add_exact (signed : bool) l acc B : 0 <= B -> Forall (fun c => Z.abs c <= B) l ->
  (signed = false -> 0 <= acc /\ Forall (fun c => 0 <= c) l) ->
  Z.abs acc + Z.of_nat (length l) * B < 2^63 ->
  scan_i64 Z.add signed acc l = prefix_sums acc l.
Proof.
  intros HB Hl. revert acc. induction Hl as [|c l Hc _ IH]; intros acc Hpos Hacc; [reflexivity|].
  cbn [scan_i64 prefix_sums length] in *. rewrite Nat2Z.inj_succ in Hacc.
  assert (E64: 2^63 < 2^64) by (apply pow2_lt; lia).
  assert (Ew: acc_wrap signed (acc + c) = acc + c).
  { unfold acc_wrap. destruct signed; [apply wrap_i64_small; lia|].
    destruct (Hpos eq_refl) as (Ha & Hall). inversion Hall; subst. apply wrap_u64_small. lia. }
  rewrite Ew. f_equal. apply IH; [|lia].
  intros Hs. destruct (Hpos Hs) as (Ha & Hall). inversion Hall; subst. split; [lia|assumption].
Qed.

Lemma prefix_sums_in_range f total l acc done : 1 <= nw f -> 1 <= total ->
  Forall (in_range f) done -> acc = zsum done -> Forall (in_range f) l ->
  Z.of_nat (length done) + Z.of_nat (length l) <= total ->
  Forall (in_range (sum_fmt f total)) (prefix_sums acc l).
Proof.
  intros Hw Ht Hd Hacc Hl. revert acc done Hd Hacc. induction Hl as [|c l Hc _ IH]; intros acc done Hd Hacc Hlen; [constructor|].
  cbn [prefix_sums length] in *. rewrite Nat2Z.inj_succ in Hlen.
  assert (Hsum: acc + c = zsum (c :: done)) by (cbn [zsum fold_right]; fold (zsum done); lia).
  constructor.
  - rewrite Hsum. apply sum_in_range; try assumption; [cbn [length]; rewrite Nat2Z.inj_succ; lia | constructor; assumption].
  - apply (IH (acc + c) (c :: done)); [constructor; assumption | exact Hsum | cbn [length]; rewrite Nat2Z.inj_succ; lia].
Qed.

Theorem fxp_cumsum_exact f total l r o : 1 <= nw f -> 1 <= total -> Z.of_nat (length l) <= total ->
  clog2 total + nw f <= 62 -> Forall (in_range f) l ->
  exists w, fxp_cumsum f total l r o = Ok (sum_fmt f total, w) /\ w_codes w = prefix_sums 0 l /\ w_ovf w = false /\ w_unf w = false.
Proof.
  intros Hw Ht Hlen H62 Hr.
  pose proof (clog2_ge total Ht) as Hc. pose proof (clog2_nonneg total) as Hc0.
  assert (Hscan: scan_i64 Z.add (sg f) 0 l = prefix_sums 0 l).
  { assert (P62: 2^(clog2 total + nw f) <= 2^62) by (apply pow2_le; lia). rewrite pow2_split in P62 by lia.
    assert (2^62 < 2^63) by (apply pow2_lt; lia). assert (0 < 2^(nw f)) by (apply pow2_pos; lia). assert (0 < 2^(clog2 total)) by (apply pow2_pos; lia).
    apply (scan_add_exact (sg f) l 0 (2^(nw f))); [lia| | |cbn; nia].
    - eapply Forall_impl; [|exact Hr]. intros c Hcr. destruct (code_mag f c Hw Hcr) as (Sa & Ua).
      assert (E: 2^(nw f) = 2 * 2^(nw f - 1)) by (apply pow2_double; lia). assert (0 < 2^(nw f - 1)) by (apply pow2_pos; lia).
      destruct (sg f); [specialize (Sa eq_refl)|specialize (Ua eq_refl)]; lia.
    - intros Hs. split; [lia|]. eapply Forall_impl; [|exact Hr]. intros c Hcr. unfold in_range, cmin in Hcr. rewrite Hs in Hcr. lia. }
  unfold fxp_cumsum. rewrite Hscan, scan_py_prefix.
  match goal with |- context [if ?b then prefix_sums 0 l else prefix_sums 0 l] =>
    replace (if b then prefix_sums 0 l else prefix_sums 0 l) with (prefix_sums 0 l) by (destruct b; reflexivity) end.
  destruct (reduce_store_exact (sum_fmt f total) r o (prefix_sums 0 l)) as (w & Hs & Hcodes & Ho & Hu).
  - cbn [sum_fmt nw]. lia.
  - apply (prefix_sums_in_range f total l 0 [] Hw Ht (Forall_nil _) eq_refl Hr). cbn [length]. lia.
  - rewrite Hs. cbn [bind]. exists w. auto.
Qed.

(* ---------- prod: the product of all factors, exact, in a word count times as wide ---------- *)
Definition zprod (l : list Z) : Z := fold_right Z.mul 1 l.

Lemma fold_mul_zprod l acc : fold_left Z.mul l acc = acc * zprod l.
Proof. revert acc. induction l as [|c l IH]; intros acc; cbn [fold_left zprod fold_right]; [lia|]. fold (zprod l). rewrite IH. ring. Qed.
Lemma prod_py_zprod l : prod_py l = zprod l.
Proof. unfold prod_py. rewrite fold_mul_zprod. lia. Qed.

Lemma zprod_bound l B : 1 <= B -> Forall (fun c => Z.abs c <= B) l -> Z.abs (zprod l) <= B^(Z.of_nat (length l)).
Proof.
  intros HB. induction 1 as [|c l Hc _ IH]; [cbn; lia|].
  cbn [zprod fold_right length]. fold (zprod l). rewrite Nat2Z.inj_succ, Z.pow_succ_r by lia. rewrite Z.abs_mul.
  assert (0 < B^(Z.of_nat (length l))) by (apply Z.pow_pos_nonneg; lia). nia.
Qed.

Lemma prod_acc_exact (signed : bool) l acc B M : 1 <= B -> Forall (fun c => Z.abs c <= B) l ->
  (signed = false -> 0 <= acc /\ Forall (fun c => 0 <= c) l) ->
  Z.abs acc * B^(Z.of_nat (length l)) <= M -> M < 2^63 ->
  fold_left (fun a c => acc_wrap signed (a * c)) l acc = acc * zprod l.
Proof.
  intros HB Hl. revert acc. induction Hl as [|c l Hc _ IH]; intros acc Hpos Hacc HM; [cbn; lia|].
  cbn [fold_left zprod fold_right length] in *. fold (zprod l). rewrite Nat2Z.inj_succ, Z.pow_succ_r in Hacc by lia.
  assert (PB: 0 < B^(Z.of_nat (length l))) by (apply Z.pow_pos_nonneg; lia).
  assert (E64: 2^63 < 2^64) by (apply pow2_lt; lia).
  assert (Hac: Z.abs (acc * c) * B^(Z.of_nat (length l)) <= M) by (rewrite Z.abs_mul; nia).
  assert (Hsmall: Z.abs (acc * c) < 2^63) by nia.
  assert (Ew: acc_wrap signed (acc * c) = acc * c).
  { unfold acc_wrap. destruct signed; [apply wrap_i64_small; lia|].
    destruct (Hpos eq_refl) as (Ha & Hall). inversion Hall; subst. apply wrap_u64_small. nia. }
  rewrite Ew. rewrite IH; [ring| |exact Hac|exact HM].
  intros Hs. destruct (Hpos Hs) as (Ha & Hall). inversion Hall; subst. split; [nia|assumption].
Qed.

Lemma pow2_pow a n : 0 <= a -> 0 <= n -> (2^a)^n = 2^(n * a).
Proof. intros Ha Hn. rewrite <- Z.pow_mul_r by lia. f_equal. lia. Qed.

Theorem prod_in_range f l : 1 <= nw f -> (1 <= length l)%nat -> Forall (in_range f) l ->
  in_range (prod_fmt f (Z.of_nat (length l))) (zprod l).
Proof.
  intros Hw Hne Hr. set (n := Z.of_nat (length l)). assert (Hn: 1 <= n) by (unfold n; lia).
  unfold in_range, prod_fmt, cmin, cmax. cbn [sg nw].
  destruct (sg f) eqn:Es.
  - (* signed: |c| <= 2^(nw-1), so |prod| <= 2^(n*(nw-1)) *)
    assert (Hb: Forall (fun c => Z.abs c <= 2^(nw f - 1)) l).
    { eapply Forall_impl; [|exact Hr]. intros c Hc. destruct (code_mag f c Hw Hc) as (Sa & _). specialize (Sa Es). lia. }
    assert (P1: 1 <= 2^(nw f - 1)) by (assert (0 < 2^(nw f - 1)) by (apply pow2_pos; lia); lia).
    pose proof (zprod_bound l _ P1 Hb) as Hz. fold n in Hz. rewrite pow2_pow in Hz by lia.
    destruct (Z.eq_dec n 1) as [E1|Hn2].
    + (* a single factor: the code itself *)
      destruct l as [|c [|c2 l]]; cbn [length] in *; try lia. inversion Hr; subst. cbn [zprod fold_right].
      rewrite Z.mul_1_r. replace (n * nw f - 1) with (nw f - 1) by lia. unfold in_range, cmin, cmax in H1. rewrite Es in H1. exact H1.
    + assert (2^(n * (nw f - 1)) <= 2^(n * nw f - 2)) by (apply pow2_le; nia).
      assert (E: 2^(n * nw f - 1) = 2 * 2^(n * nw f - 2)) by (replace (n * nw f - 2) with (n * nw f - 1 - 1) by lia; apply pow2_double; nia).
      assert (0 < 2^(n * nw f - 2)) by (apply pow2_pos; nia). lia.
  - assert (Hb: Forall (fun c => 0 <= c <= 2^(nw f) - 1) l).
    { eapply Forall_impl; [|exact Hr]. intros c Hc. unfold in_range, cmin, cmax in Hc. rewrite Es in Hc. exact Hc. }
    assert (Hpos: 0 <= zprod l) by (clear - Hb; induction Hb as [|c l Hc _ IH]; cbn [zprod fold_right]; [lia | fold (zprod l); nia]).
    assert (Hb': Forall (fun c => Z.abs c <= 2^(nw f) - 1) l) by (eapply Forall_impl; [|exact Hb]; intros c Hc; cbv beta in *; lia).
    assert (P2: 2 <= 2^(nw f)) by (assert (2^1 <= 2^(nw f)) by (apply pow2_le; lia); lia).
    pose proof (zprod_bound l (2^(nw f) - 1) ltac:(lia) Hb') as Hz. fold n in Hz.
    assert (Hlt: (2^(nw f) - 1)^n < (2^(nw f))^n) by (apply Z.pow_lt_mono_l; lia).
    rewrite pow2_pow in Hlt by lia. lia.
Qed.

Theorem fxp_prod_exact f l r o : 1 <= nw f -> (1 <= length l)%nat -> Z.of_nat (length l) * nw f <= 62 -> Forall (in_range f) l ->
  exists w, fxp_prod f (Z.of_nat (length l)) l r o = Ok (prod_fmt f (Z.of_nat (length l)), w) /\
    w_codes w = [zprod l] /\ w_ovf w = false /\ w_unf w = false.
Proof.
  intros Hw Hne H62 Hr. pose proof (prod_in_range f l Hw Hne Hr) as Hin.
  set (n := Z.of_nat (length l)) in *. assert (Hn: 1 <= n) by (unfold n; lia).
  assert (Hprod: prod_i64 (sg f) l = zprod l).
  { unfold prod_i64. assert (P1: 1 <= 2^(nw f)) by (assert (0 < 2^(nw f)) by (apply pow2_pos; lia); lia).
    rewrite (prod_acc_exact (sg f) l 1 (2^(nw f)) (2^62) P1); [lia| | | |apply pow2_lt; lia].
    - eapply Forall_impl; [|exact Hr]. intros c Hc. destruct (code_mag f c Hw Hc) as (Sa & Ua).
      assert (E: 2^(nw f) = 2 * 2^(nw f - 1)) by (apply pow2_double; lia). assert (0 < 2^(nw f - 1)) by (apply pow2_pos; lia).
      destruct (sg f); [specialize (Sa eq_refl)|specialize (Ua eq_refl)]; lia.
    - intros Hs. split; [lia|]. eapply Forall_impl; [|exact Hr]. intros c Hc. unfold in_range, cmin in Hc. rewrite Hs in Hc. lia.
    - fold n. rewrite pow2_pow by lia. change (Z.abs 1) with 1. rewrite Z.mul_1_l. apply pow2_le. nia. }
  unfold fxp_prod. rewrite Hprod, prod_py_zprod.
  match goal with |- context [if ?b then zprod l else zprod l] =>
    replace (if b then zprod l else zprod l) with (zprod l) by (destruct b; reflexivity) end.
  destruct (reduce_store_exact (prod_fmt f n) r o [zprod l]) as (w & Hs & Hcodes & Ho & Hu).
  - unfold prod_fmt. cbn [nw]. nia.
  - constructor; [exact Hin|constructor].
  - rewrite Hs. cbn [bind]. exists w. auto.
Qed.

(* ================= any word length (fix aaa3394: Python-integer accumulation from 64 bits on) ================= *)
Lemma reduce_store_exact_any fz r o zs : 1 <= nw fz -> Forall (in_range fz) zs ->
  exists w, reduce_store fz r o zs = Ok w /\ w_codes w = zs /\ w_ovf w = false /\ w_unf w = false.
Proof.
  intros Hw Hin. unfold reduce_store.
  assert (Hfin: forall w, int_wres fz o zs w -> w_codes w = zs /\ w_ovf w = false /\ w_unf w = false).
  { intros w (Hc & Ho & Hu). rewrite Hc, Ho, Hu. repeat split.
    - apply map_fix. intros z Hz. rewrite Forall_forall in Hin. apply overflow_id; [lia|]. apply Hin. exact Hz.
    - apply existsb_false. eapply Forall_impl; [|exact Hin]. intros z Hz. unfold in_range in Hz. lia.
    - apply existsb_false. eapply Forall_impl; [|exact Hin]. intros z Hz. unfold in_range in Hz. lia. }
  destruct (64 <=? nw fz) eqn:E.
  - destruct (set_val_raw_obj fz r o zs Hw) as (w & Hs & Hi). exists w. split; [exact Hs|apply Hfin; exact Hi].
  - assert (Hzb: Forall (fun z => Z.abs z < 2^63) zs).
    { eapply Forall_impl; [|exact Hin]. intros z Hz. unfold in_range, cmin, cmax in Hz.
      assert (2^(nw fz - 1) <= 2^62) by (apply pow2_le; lia). assert (2^(nw fz) <= 2^63) by (apply pow2_le; lia).
      assert (2^62 < 2^63) by (apply pow2_lt; lia). assert (0 < 2^(nw fz - 1)) by (apply pow2_pos; lia).
      destruct (sg fz); lia. }
    destruct (set_val_raw_i64 fz r o zs Hw Hzb) as (w & Hs & Hi). exists w. split; [exact Hs|apply Hfin; exact Hi].
Qed.

(* the int64 / uint64 accumulation of in-range codes is exact as long as the grown word stays below 64 bits *)
Lemma sum_narrow_exact f total l : 1 <= nw f -> 1 <= total -> Z.of_nat (length l) <= total ->
  clog2 total + nw f <= 63 -> Forall (in_range f) l -> sum_i64 (sg f) l = zsum l.
Proof.
  intros Hw Ht Hlen H63 Hr. pose proof (clog2_ge total Ht) as Hc. pose proof (clog2_nonneg total) as Hc0.
  assert (P63: 2^(clog2 total + nw f) <= 2^63) by (apply pow2_le; lia). rewrite pow2_split in P63 by lia.
  assert (2^63 < 2^64) by (apply pow2_lt; lia).
  assert (E: 2^(nw f) = 2 * 2^(nw f - 1)) by (apply pow2_double; lia). assert (0 < 2^(nw f - 1)) by (apply pow2_pos; lia).
  assert (0 < 2^(clog2 total)) by (apply pow2_pos; lia).
  destruct (sg f) eqn:Es.
  - apply (sum_i64_exact l (2^(nw f - 1))); [lia| |nia].
    eapply Forall_impl; [|exact Hr]. intros c Hcr. unfold in_range, cmin, cmax in Hcr. rewrite Es in Hcr. lia.
  - unfold sum_i64. rewrite (sum_u64_exact_aux l 0 (2^(nw f))); [lia|lia| |lia|nia].
    eapply Forall_impl; [|exact Hr]. intros c Hcr. unfold in_range, cmin, cmax in Hcr. rewrite Es in Hcr. lia.
Qed.

Theorem fxp_sum_exact_any f total l r o : 1 <= nw f -> 1 <= total -> Z.of_nat (length l) <= total -> Forall (in_range f) l ->
  exists w, fxp_sum f total l r o = Ok (sum_fmt f total, w) /\ w_codes w = [zsum l] /\ w_ovf w = false /\ w_unf w = false.
Proof.
  intros Hw Ht Hlen Hr. pose proof (sum_in_range f total l Hw Hlen Ht Hr) as Hin. pose proof (clog2_nonneg total) as Hc0.
  unfold fxp_sum. cbv zeta.
  assert (Hsel: (if 64 <=? nw (sum_fmt f total) then sum_py l else sum_i64 (sg f) l) = zsum l).
  { cbn [sum_fmt nw]. destruct (64 <=? clog2 total + nw f) eqn:E; [apply sum_py_zsum|]. apply (sum_narrow_exact f total); try assumption. lia. }
  rewrite Hsel.
  destruct (reduce_store_exact_any (sum_fmt f total) r o [zsum l]) as (w & Hs & Hcodes & Ho & Hu).
  - cbn [sum_fmt nw]. lia.
  - constructor; [exact Hin|constructor].
  - rewrite Hs. cbn [bind]. exists w. auto.
Qed.

Theorem fxp_cumsum_exact_any f total l r o : 1 <= nw f -> 1 <= total -> Z.of_nat (length l) <= total -> Forall (in_range f) l ->
  exists w, fxp_cumsum f total l r o = Ok (sum_fmt f total, w) /\ w_codes w = prefix_sums 0 l /\ w_ovf w = false /\ w_unf w = false.
Proof.
  intros Hw Ht Hlen Hr. pose proof (clog2_ge total Ht) as Hc. pose proof (clog2_nonneg total) as Hc0.
  unfold fxp_cumsum. cbv zeta.
  assert (Hsel: (if 64 <=? nw (sum_fmt f total) then scan_py Z.add 0 l else scan_i64 Z.add (sg f) 0 l) = prefix_sums 0 l).
  { cbn [sum_fmt nw]. destruct (64 <=? clog2 total + nw f) eqn:E; [apply scan_py_prefix|].
    assert (P63: 2^(clog2 total + nw f) <= 2^63) by (apply pow2_le; lia). rewrite pow2_split in P63 by lia.
    assert (0 < 2^(nw f)) by (apply pow2_pos; lia). assert (0 < 2^(clog2 total)) by (apply pow2_pos; lia).
    assert (E2: 2^(nw f) = 2 * 2^(nw f - 1)) by (apply pow2_double; lia). assert (0 < 2^(nw f - 1)) by (apply pow2_pos; lia).
    destruct (sg f) eqn:Es.
    - apply (scan_add_exact true l 0 (2^(nw f - 1))); [lia| |discriminate|cbn; nia].
      eapply Forall_impl; [|exact Hr]. intros c Hcr. destruct (code_mag f c Hw Hcr) as (Sa & _). apply Sa. exact Es.
    - (* unsigned: the wrap is modulo 2^64 and the partial sums stay below 2^63 *)
      assert (Hgen: forall l' acc, Forall (fun c => 0 <= c < 2^(nw f)) l' -> 0 <= acc -> acc + Z.of_nat (length l') * 2^(nw f) <= 2^63 ->
                     scan_i64 Z.add false acc l' = prefix_sums acc l').
      { assert (E64: 2^63 < 2^64) by (apply pow2_lt; lia).
        induction l' as [|c l' IH]; intros acc Hl' Ha Hb; [reflexivity|]. cbn [scan_i64 prefix_sums length] in *. rewrite Nat2Z.inj_succ in Hb.
        pose proof (Forall_inv Hl') as Hc1. cbv beta in Hc1. assert (Hnn: 0 <= Z.of_nat (length l') * 2^(nw f)) by nia.
        unfold acc_wrap. rewrite wrap_u64_small by lia. f_equal. apply IH; [exact (Forall_inv_tail Hl')|lia|lia]. }
      apply Hgen; [|lia|nia].
      eapply Forall_impl; [|exact Hr]. intros c Hcr. unfold in_range, cmin, cmax in Hcr. rewrite Es in Hcr. lia. }
  rewrite Hsel.
  destruct (reduce_store_exact_any (sum_fmt f total) r o (prefix_sums 0 l)) as (w & Hs & Hcodes & Ho & Hu).
  - cbn [sum_fmt nw]. lia.
  - apply (prefix_sums_in_range f total l 0 [] Hw Ht (Forall_nil _) eq_refl Hr). cbn [length]. lia.
  - rewrite Hs. cbn [bind]. exists w. auto.
Qed.

(* the accumulated product handed on by fxp_prod: exact, whether NumPy accumulates in int64 / uint64 or in Python integers *)
Lemma prod_sel_exact f l : 1 <= nw f -> (1 <= length l)%nat -> Forall (in_range f) l ->
  (if 64 <=? Z.of_nat (length l) * nw f then prod_py l else prod_i64 (sg f) l) = zprod l.
Proof.
  intros Hw Hne Hr. set (n := Z.of_nat (length l)) in *. assert (Hn: 1 <= n) by (unfold n; lia).
  change (if 64 <=? n * nw f then prod_py l else prod_i64 (sg f) l) with (if 64 <=? nw (prod_fmt f n) then prod_py l else prod_i64 (sg f) l).
  cbn [prod_fmt nw]. destruct (64 <=? n * nw f) eqn:E; [apply prod_py_zprod|].
    unfold prod_i64. assert (P1: 1 <= 2^(nw f)) by (assert (0 < 2^(nw f)) by (apply pow2_pos; lia); lia).
    destruct (sg f) eqn:Es.
    - (* signed: |c| <= 2^(nw-1), the running product stays below 2^(n*(nw-1)) <= 2^62 *)
      assert (P1': 1 <= 2^(nw f - 1)) by (assert (0 < 2^(nw f - 1)) by (apply pow2_pos; lia); lia).
      rewrite (prod_acc_exact true l 1 (2^(nw f - 1)) (2^62) P1'); [lia| |discriminate| |apply pow2_lt; lia].
      + eapply Forall_impl; [|exact Hr]. intros c Hc. destruct (code_mag f c Hw Hc) as (Sa & _). apply Sa. exact Es.
      + fold n. rewrite pow2_pow by lia. change (Z.abs 1) with 1. rewrite Z.mul_1_l. apply pow2_le. nia.
    - (* unsigned: the product of n codes below 2^nw is below 2^(n*nw) <= 2^63 *)
      assert (Hgen: forall l' acc, Forall (fun c => 0 <= c < 2^(nw f)) l' -> 0 <= acc -> acc * (2^(nw f))^(Z.of_nat (length l')) <= 2^63 ->
                     fold_left (fun a c => acc_wrap false (a * c)) l' acc = acc * zprod l').
      { assert (E64: 2^63 < 2^64) by (apply pow2_lt; lia).
        induction l' as [|c l' IH]; intros acc Hl' Ha Hb; [cbn; lia|]. cbn [fold_left zprod fold_right length] in *. fold (zprod l').
        rewrite Nat2Z.inj_succ, Z.pow_succ_r in Hb by lia. pose proof (Forall_inv Hl') as Hc1. cbv beta in Hc1.
        set (P := (2^(nw f))^(Z.of_nat (length l'))) in *.
        assert (PB: 0 < P) by (apply Z.pow_pos_nonneg; lia).
        assert (H1: acc * c <= acc * 2^(nw f)) by (apply Z.mul_le_mono_nonneg_l; lia).
        assert (H2: (acc * c) * P <= (acc * 2^(nw f)) * P) by (apply Z.mul_le_mono_nonneg_r; lia).
        assert (Hac: (acc * c) * P <= 2^63) by lia.
        assert (H0: 0 <= acc * c) by (apply Z.mul_nonneg_nonneg; lia).
        assert (H3: acc * c <= (acc * c) * P) by nia.
        unfold acc_wrap. rewrite wrap_u64_small by lia. rewrite IH; [ring|exact (Forall_inv_tail Hl')|exact H0|exact Hac]. }
      rewrite Hgen; [lia| |lia|].
      + eapply Forall_impl; [|exact Hr]. intros c Hc. unfold in_range, cmin, cmax in Hc. rewrite Es in Hc. lia.
      + fold n. rewrite pow2_pow by lia. rewrite Z.mul_1_l. apply pow2_le. nia.
Qed.

Theorem fxp_prod_exact_any f l r o : 1 <= nw f -> (1 <= length l)%nat -> Forall (in_range f) l ->
  exists w, fxp_prod f (Z.of_nat (length l)) l r o = Ok (prod_fmt f (Z.of_nat (length l)), w) /\
    w_codes w = [zprod l] /\ w_ovf w = false /\ w_unf w = false.
Proof.
  intros Hw Hne Hr. pose proof (prod_in_range f l Hw Hne Hr) as Hin.
  set (n := Z.of_nat (length l)) in *. assert (Hn: 1 <= n) by (unfold n; lia).
  unfold fxp_prod. cbv zeta.
  assert (Hsel: (if 64 <=? nw (prod_fmt f n) then prod_py l else prod_i64 (sg f) l) = zprod l) by (exact (prod_sel_exact f l Hw Hne Hr)).
  rewrite Hsel.
  destruct (reduce_store_exact_any (prod_fmt f n) r o [zprod l]) as (w & Hs & Hcodes & Ho & Hu).
  - unfold prod_fmt. cbn [nw]. nia.
  - constructor; [exact Hin|constructor].
  - rewrite Hs. cbn [bind]. exists w. auto.
Qed.

Theorem fxp_dot_exact_any fx fy xs ys r o : 1 <= nw fx -> 1 <= nw fy -> length xs = length ys -> (1 <= length xs)%nat ->
  Forall (in_range fx) xs -> Forall (in_range fy) ys ->
  let prods := map (fun p => fst p * snd p) (combine xs ys) in
  exists w, fxp_dot fx fy xs ys r o = Ok (dot_fmt fx fy (Z.of_nat (length xs)), w) /\
    w_codes w = [zsum prods] /\ w_ovf w = false /\ w_unf w = false.
Proof.
  intros Hwx Hwy Hlen Hne Hrx Hry prods.
  pose proof (dot_in_range fx fy xs ys Hwx Hwy Hlen Hne Hrx Hry) as Hin. fold prods in Hin.
  set (n := Z.of_nat (length xs)) in *. assert (Hn: 1 <= n) by (unfold n; lia).
  pose proof (clog2_ge n Hn) as Hc. pose proof (clog2_nonneg n) as Hc0.
  assert (Hlp: length prods = length xs) by (unfold prods; rewrite map_length, combine_length; lia).
  unfold fxp_dot. fold n. fold prods. cbv zeta.
  match goal with |- context [if ?b then sum_py prods else sum_i64 true prods] =>
    assert (Hsel: (if b then sum_py prods else sum_i64 true prods) = zsum prods) end.
  { match goal with |- (if ?b then _ else _) = _ => destruct b eqn:Eb end; [apply sum_py_zsum|].
    apply orb_false_iff in Eb. destruct Eb as (E64 & _). cbn [dot_fmt nw] in E64.
    set (B := 2^(nw fx + nw fy) - 1).
    assert (PB: 0 < 2^(nw fx + nw fy)) by (apply pow2_pos; lia).
    apply (sum_i64_exact prods B); [unfold B; lia| |].
    - unfold prods. rewrite Forall_map. apply Forall_forall. intros [a b] Hp. cbn [fst snd]. rewrite Forall_forall in Hrx, Hry.
      pose proof (Hrx a (in_combine_l _ _ _ _ Hp)) as Ha. pose proof (Hry b (in_combine_r _ _ _ _ Hp)) as Hb.
      destruct (code_mag fx a Hwx Ha) as (Sa & Ua). destruct (code_mag fy b Hwy Hb) as (Sb & Ub).
      assert (Ex: 2^(nw fx) = 2 * 2^(nw fx - 1)) by (apply pow2_double; lia). assert (0 < 2^(nw fx - 1)) by (apply pow2_pos; lia).
      assert (Ey: 2^(nw fy) = 2 * 2^(nw fy - 1)) by (apply pow2_double; lia). assert (0 < 2^(nw fy - 1)) by (apply pow2_pos; lia).
      assert (Hxa: Z.abs a <= 2^(nw fx) - 1) by (destruct (sg fx); [specialize (Sa eq_refl)|specialize (Ua eq_refl)]; lia).
      assert (Hyb: Z.abs b <= 2^(nw fy) - 1) by (destruct (sg fy); [specialize (Sb eq_refl)|specialize (Ub eq_refl)]; lia).
      unfold B. rewrite pow2_split by lia. rewrite Z.abs_mul. nia.
    - rewrite Hlp. fold n. assert (P63: 2^(clog2 n + (nw fx + nw fy)) <= 2^63) by (apply pow2_le; lia). rewrite pow2_split in P63 by lia.
      unfold B. nia. }
  rewrite Hsel.
  destruct (reduce_store_exact_any (dot_fmt fx fy n) r o [zsum prods]) as (w & Hs & Hcodes & Ho & Hu).
  - unfold dot_fmt. cbn [nw]. lia.
  - constructor; [exact Hin|constructor].
  - rewrite Hs. cbn [bind]. exists w. auto.
Qed.
