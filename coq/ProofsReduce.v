(* ProofsReduce.v — C15: the accumulating reductions never overflow their optimal format
   (bound lemmas for ANY length) and the int64 accumulation is exact up to 62-bit results. *)
From Coq Require Import ZArith List Bool Lia ZifyBool.
From FxpVerif Require Import Spec SpecArith NP Store ProofsCore ProofsStore ProofsArith Arith Reduce.
Import ListNotations.
Open Scope Z_scope.
Ltac Zify.zify_post_hook ::= Z.to_euclidean_division_equations.

Definition zsum (l : list Z) : Z := fold_right Z.add 0 l.

Lemma zsum_bound l lo hi : Forall (fun c => lo <= c <= hi) l ->
  Z.of_nat (length l) * lo <= zsum l <= Z.of_nat (length l) * hi.
Proof.
  induction 1 as [|c l Hc _ IH]; [cbn; lia|]. cbn [zsum fold_right length]. fold (zsum l). rewrite Nat2Z.inj_succ. lia.
Qed.

Lemma clog2_ge n : 1 <= n -> n <= 2^(clog2 n).
Proof.
  intros Hn. unfold clog2. destruct (Z.eq_dec n 1) as [->|Hne]; [cbn; lia|].
  pose proof (Z.log2_up_spec n ltac:(lia)) as (_ & H). exact H.
Qed.
Lemma clog2_nonneg n : 0 <= clog2 n.
Proof. unfold clog2. apply Z.log2_up_nonneg. Qed.

(* sum of any number of in-range codes fits in the format grown by ceil(log2(count)) bits,
   for every count >= the number of summed elements *)
Theorem sum_in_range f total l : 1 <= nw f -> Z.of_nat (length l) <= total -> 1 <= total ->
  Forall (in_range f) l -> in_range (sum_fmt f total) (zsum l).
Proof.
  intros Hw Hlen Ht Hr. pose proof (clog2_ge total Ht) as Hc. pose proof (clog2_nonneg total) as Hc0.
  assert (Hb: Forall (fun c => cmin f <= c <= cmax f) l) by exact Hr.
  pose proof (zsum_bound l (cmin f) (cmax f) Hb) as Hs.
  unfold in_range, sum_fmt, cmin, cmax in *. cbn [sg nw].
  set (k := clog2 total) in *. set (n := Z.of_nat (length l)) in *. assert (Hn0: 0 <= n) by (unfold n; lia).
  assert (P: 0 < 2^k) by (apply pow2_pos; lia).
  destruct (sg f).
  - replace (k + nw f - 1) with (k + (nw f - 1)) by lia. rewrite pow2_split by lia.
    assert (0 < 2^(nw f - 1)) by (apply pow2_pos; lia). nia.
  - rewrite pow2_split by lia. assert (0 < 2^(nw f)) by (apply pow2_pos; lia). nia.
Qed.

(* dot product: sum of count products of in-range codes *)
Theorem dot_in_range fx fy xs ys : 1 <= nw fx -> 1 <= nw fy -> length xs = length ys -> (1 <= length xs)%nat ->
  Forall (in_range fx) xs -> Forall (in_range fy) ys ->
  in_range (dot_fmt fx fy (Z.of_nat (length xs))) (zsum (map (fun p => fst p * snd p) (combine xs ys))).
Proof.
  intros Hwx Hwy Hlen Hne Hrx Hry.
  set (prods := map (fun p => fst p * snd p) (combine xs ys)).
  assert (Hlp: length prods = length xs) by (unfold prods; rewrite map_length, combine_length; lia).
  assert (Hpr: Forall (in_range (grow OpMul fx fy)) prods).
  { unfold prods. rewrite Forall_map. apply Forall_forall. intros [a b] Hp. cbn [fst snd]. rewrite Forall_forall in Hrx, Hry.
    apply (mul_in_grow fx fy a b Hwx Hwy); [apply Hrx; exact (in_combine_l _ _ _ _ Hp) | apply Hry; exact (in_combine_r _ _ _ _ Hp)]. }
  pose proof (sum_in_range (grow OpMul fx fy) (Z.of_nat (length xs)) prods) as H.
  cbn [grow nw sg] in H. rewrite Hlp in H. specialize (H ltac:(lia) ltac:(lia) ltac:(lia) Hpr).
  unfold dot_fmt. unfold sum_fmt in H. cbn [grow sg nw nf] in *. replace (clog2 (Z.of_nat (length xs)) + nw fx + nw fy) with (clog2 (Z.of_nat (length xs)) + (nw fx + nw fy)) by lia.
  exact H.
Qed.

(* the int64 accumulation is the exact sum while every partial sum stays below 2^63 *)
Lemma sum_i64_exact_aux l acc B : 0 <= B -> Forall (fun c => Z.abs c <= B) l ->
  Z.abs acc + Z.of_nat (length l) * B < 2^63 ->
  fold_left (fun a c => acc_wrap true (a + c)) l acc = acc + zsum l.
Proof.
  intros HB Hl. revert acc. induction Hl as [|c l Hc _ IH]; intros acc Hacc; [cbn; lia|].
  cbn [fold_left zsum fold_right length] in *. fold (zsum l). rewrite Nat2Z.inj_succ in Hacc.
  unfold acc_wrap at 2. rewrite wrap_i64_small by lia. rewrite IH by lia. lia.
Qed.
Theorem sum_i64_exact l B : 0 <= B -> Forall (fun c => Z.abs c <= B) l -> Z.of_nat (length l) * B < 2^63 ->
  sum_i64 true l = zsum l.
Proof. intros HB Hl Hb. unfold sum_i64. rewrite (sum_i64_exact_aux l 0 B HB Hl) by (cbn; lia). lia. Qed.

Lemma sum_u64_exact_aux l acc B : 0 <= B -> Forall (fun c => 0 <= c <= B) l -> 0 <= acc ->
  acc + Z.of_nat (length l) * B < 2^64 ->
  fold_left (fun a c => acc_wrap false (a + c)) l acc = acc + zsum l.
Proof.
  intros HB Hl. revert acc. induction Hl as [|c l Hc _ IH]; intros acc Ha Hacc; [cbn; lia|].
  cbn [fold_left zsum fold_right length] in *. fold (zsum l). rewrite Nat2Z.inj_succ in Hacc.
  unfold acc_wrap at 2. rewrite wrap_u64_small by lia. rewrite IH by lia. lia.
Qed.

(* sum over all elements or along an axis: the result holds the exact sum, no flag, for ANY
   number of elements, as long as the grown word stays within 62 bits *)
Theorem fxp_sum_exact f total l r o : 1 <= nw f -> 1 <= total -> Z.of_nat (length l) <= total ->
  clog2 total + nw f <= 62 -> Forall (in_range f) l ->
  exists w, fxp_sum f total l r o = Ok (sum_fmt f total, w) /\ w_codes w = [zsum l] /\ w_ovf w = false /\ w_unf w = false.
Proof.
  intros Hw Ht Hlen H62 Hr. pose proof (sum_in_range f total l Hw Hlen Ht Hr) as Hin.
  pose proof (clog2_ge total Ht) as Hc. pose proof (clog2_nonneg total) as Hc0.
  assert (Hsum: sum_i64 (sg f) l = zsum l).
  { assert (P62: 2^(clog2 total + nw f) <= 2^62) by (apply pow2_le; lia). rewrite pow2_split in P62 by lia.
    assert (2^62 < 2^63) by (apply pow2_lt; lia). assert (2^63 < 2^64) by (apply pow2_lt; lia).
    assert (E: 2^(nw f) = 2 * 2^(nw f - 1)) by (apply pow2_double; lia). assert (0 < 2^(nw f - 1)) by (apply pow2_pos; lia).
    assert (0 < 2^(clog2 total)) by (apply pow2_pos; lia).
    destruct (sg f) eqn:Es.
    - apply (sum_i64_exact l (2^(nw f - 1))); [lia| |nia].
      eapply Forall_impl; [|exact Hr]. intros c Hcr. unfold in_range, cmin, cmax in Hcr. rewrite Es in Hcr. lia.
    - unfold sum_i64. rewrite (sum_u64_exact_aux l 0 (2^(nw f))); [lia|lia| |lia|nia].
      eapply Forall_impl; [|exact Hr]. intros c Hcr. unfold in_range, cmin, cmax in Hcr. rewrite Es in Hcr. lia. }
  unfold fxp_sum. rewrite Hsum. unfold reduce_store. cbn [sum_fmt nw]. replace (64 <=? clog2 total + nw f) with false by lia.
  assert (Hw': 1 <= nw (sum_fmt f total)) by (cbn [sum_fmt nw]; lia).
  assert (Hzb: Z.abs (zsum l) < 2^63).
  { unfold in_range, cmin, cmax, sum_fmt in Hin. cbn [sg nw] in Hin.
    assert (2^(clog2 total + nw f - 1) <= 2^61) by (apply pow2_le; lia). assert (2^(clog2 total + nw f) <= 2^62) by (apply pow2_le; lia).
    assert (2^61 < 2^63) by (apply pow2_lt; lia). assert (2^62 < 2^63) by (apply pow2_lt; lia). assert (0 < 2^(clog2 total + nw f - 1)) by (apply pow2_pos; lia).
    destruct (sg f); lia. }
  destruct (set_val_raw_i64 (sum_fmt f total) r o [zsum l] Hw' ltac:(constructor; [exact Hzb|constructor])) as (w & Hs & Hcodes & Ho & Hu).
  change (nw (sum_fmt f total)) with (clog2 total + nw f) in *.
  rewrite Hs. cbn [bind]. exists w. split; [reflexivity|]. cbn [map existsb] in *. rewrite Hcodes, Ho, Hu.
  rewrite overflow_id by assumption. unfold in_range in Hin. repeat split; lia.
Qed.
