(* Wire.v — the request/response protocol between the extracted model and the
   Python harness.  A request and a response are both [list Z]; the OCaml driver only
   converts lines of hexadecimal integers to and from [list Z] and calls [dispatch]
   (see Dispatch.v).  Everything structured is decoded here, inside Coq. *)
From Coq Require Import ZArith List Bool.
From FxpVerif Require Import Spec NP Store.
Import ListNotations.
Open Scope Z_scope.

Definition dec (A : Type) := list Z -> option (A * list Z).

Definition dZ : dec Z := fun l => match l with x :: t => Some (x, t) | [] => None end.
Definition dbool : dec bool := fun l => match l with x :: t => Some (negb (x =? 0), t) | [] => None end.
Definition dret {A} (a : A) : dec A := fun l => Some (a, l).
Definition dbind {A B} (d : dec A) (k : A -> dec B) : dec B :=
  fun l => match d l with Some (a, t) => k a t | None => None end.
Notation "x <- d ;; k" := (dbind d (fun x => k)) (at level 61, d at next level, right associativity).

Fixpoint dlist_n {A} (d : dec A) (n : nat) : dec (list A) :=
  match n with
  | O => dret []
  | S k => x <- d ;; xs <- dlist_n d k ;; dret (x :: xs)
  end.
Definition dlist {A} (d : dec A) : dec (list A) :=
  n <- dZ ;; dlist_n d (Z.to_nat n).

Definition drmode : dec rmode :=
  x <- dZ ;; dret (match x with 0 => Trunc | 1 => Fix | 2 => Floor | 3 => Ceil | _ => Around end).
Definition domode : dec omode :=
  x <- dZ ;; dret (match x with 0 => Saturate | _ => Wrap end).
Definition dfmt : dec fmt :=
  s <- dbool ;; w <- dZ ;; fr <- dZ ;; dret {| sg := s; nw := w; nf := fr |}.
Definition df64 : dec f64 :=
  k <- dZ ;; m <- dZ ;; e <- dZ ;;
  dret (match k with 0 => Fin m e | 1 => Inf false | 2 => Inf true | _ => NaN end).
Definition dnum : dec num :=
  t <- dZ ;; match t with
             | 0 => (z <- dZ ;; dret (NI z))
             | 2 => (m <- dZ ;; e <- dZ ;; dret (NR {| dm := m; de := e |}))
             | _ => (x <- df64 ;; dret (NF x)) end.
Definition ddy : dec dy := m <- dZ ;; e <- dZ ;; dret {| dm := m; de := e |}.
Definition darr : dec arr :=
  t <- dZ ;;
  match t with
  | 0 => (l <- dlist dZ ;; dret (AI64 l))
  | 1 => (l <- dlist dZ ;; dret (AU64 l))
  | 2 => (l <- dlist df64 ;; dret (AF64 l))
  | _ => (l <- dlist dnum ;; dret (AObj l))
  end.
Definition dvdt : dec vdt := x <- dZ ;; dret (match x with 0 => VInt | _ => VFloat end).

(* ---------- encoders ---------- *)
Definition ebool (b : bool) : list Z := [if b then 1 else 0].
Definition elist {A} (e : A -> list Z) (l : list A) : list Z :=
  Z.of_nat (length l) :: flat_map e l.
Definition ef64 (x : f64) : list Z :=
  match x with Fin m e => [0; m; e] | Inf false => [1; 0; 0] | Inf true => [2; 0; 0] | NaN => [3; 0; 0] end.
Definition enum (x : num) : list Z := match x with NI z => [0; z] | NF v => 1 :: ef64 v | NR q => [2; dm q; de q] end.
Definition eexc (e : exc) : Z :=
  match e with OverflowError => 1 | ValueError => 2 | TypeError => 3 | ZeroDivisionError => 4 | OtherError => 5 end.
(* response: 0 :: payload | 1 :: [exception class] | 2 :: [] (unmodelled) | 3 :: [] (bad request) *)
Definition eoutcome {A} (e : A -> list Z) (x : outcome A) : list Z :=
  match x with Ok a => 0 :: e a | Exc c => [1; eexc c] | Unmodelled => [2] end.
Definition bad_request : list Z := [3].
Definition run {A} (d : dec A) (k : A -> list Z) (l : list Z) : list Z :=
  match d l with Some (a, _) => k a | None => bad_request end.
