(* ProofsSizes2.v — C06: the combination step of set_best_sizes when both sizes are inferred: the fraction length is the
   least one that makes EVERY element exact, the word is the least one that holds every exact code with a non-negative
   integer length (below the cap). *)
From Coq Require Import ZArith List Bool Lia ZifyBool.
From FxpVerif Require Import Spec NP Store ProofsCore Sizes ProofsSizes.
Import ListNotations.
Open Scope Z_scope.
Ltac Zify.zify_post_hook ::= Z.to_euclidean_division_equations.

(* v * 2^-E as an integer (E below the exponent of v) *)
Definition sc (E : Z) (v : dy) : Z := dm v * 2^(de v - E).

Lemma dy_leb_sc E a b : E <= de a -> E <= de b -> dy_leb a b = (sc E a <=? sc E b).
Proof.
  intros Ha Hb. unfold dy_leb, dy_align, sc. set (e := Z.min (de a) (de b)).
  assert (He: E <= e) by (unfold e; lia).
  assert (Hp: 0 < 2^(e - E)) by (apply pow2_pos; lia).
  replace (de a - E) with ((de a - e) + (e - E)) by lia. replace (de b - E) with ((de b - e) + (e - E)) by lia.
  rewrite !pow2_split by (unfold e; lia). rewrite !Z.mul_assoc.
  destruct (dm a * 2^(de a - e) <=? dm b * 2^(de b - e)) eqn:E1; symmetry; [apply Z.leb_le | apply Z.leb_gt].
  - apply Z.mul_le_mono_nonneg_r; lia.
  - apply Z.mul_lt_mono_pos_r; lia.
Qed.

(* v is a multiple of 2^-n *)
Definition is_mult (v : dy) (n : Z) : Prop := if 0 <=? de v + n then True else dm v mod 2^(- (de v + n)) = 0.

Lemma is_mult_mono v n n' : is_mult v n -> n <= n' -> is_mult v n'.
Proof.
  unfold is_mult. intros H Hn. destruct (0 <=? de v + n') eqn:E'; [exact I|].
  replace (0 <=? de v + n) with false in H by lia.
  rewrite <- (mod_mod_pow2 (dm v) (- (de v + n)) (- (de v + n'))) by lia. rewrite H. apply Z.mod_0_l.
  assert (0 < 2^(- (de v + n'))) by (apply pow2_pos; lia). lia.
Qed.

(* for a multiple of 2^-n, int(v * 2^n) is the exact code: v * 2^-E = code * 2^(-n-E) *)
Lemma code_sc v n E : is_mult v n -> E <= de v -> E <= - n -> sc E v = scaled_trunc v n * 2^(- n - E).
Proof.
  unfold is_mult, sc, scaled_trunc. intros H He Hn. destruct (0 <=? de v + n) eqn:E1.
  - rewrite <- Z.mul_assoc, <- pow2_split by lia. f_equal. f_equal. lia.
  - set (k := - (de v + n)) in *. assert (Hk: 0 < 2^k) by (apply pow2_pos; unfold k; lia).
    assert (Hq: dm v = (dm v / 2^k) * 2^k) by (pose proof (Z.div_mod (dm v) (2^k) ltac:(lia)); lia).
    rewrite Hq at 2. rewrite Z.quot_mul by lia. rewrite Hq at 1.
    rewrite <- !Z.mul_assoc, <- pow2_split by (unfold k; lia). f_equal. f_equal. unfold k. lia.
Qed.

(* ---------- maximum and minimum of the elements ---------- *)
Lemma fold_max_spec E (l : list dy) x : E <= de x -> Forall (fun v => E <= de v) l ->
  let r := fold_right (fun a b => if dy_leb b a then a else b) x l in
  (r = x \/ In r l) /\ sc E x <= sc E r /\ Forall (fun v => sc E v <= sc E r) l.
Proof.
  intros Hx Hl. induction Hl as [|a l Ha Hl IH]; cbn [fold_right].
  - repeat split; [left; reflexivity | lia | constructor].
  - cbv zeta in IH. set (b := fold_right (fun a b => if dy_leb b a then a else b) x l) in *.
    destruct IH as (Hin & Hxb & Hall).
    assert (Hb: E <= de b).
    { destruct Hin as [->|Hin]; [exact Hx|]. rewrite Forall_forall in Hl. apply Hl. exact Hin. }
    rewrite (dy_leb_sc E b a Hb Ha). destruct (sc E b <=? sc E a) eqn:Ec.
    + split; [right; left; reflexivity|]. split; [lia|]. constructor; [lia|].
      eapply Forall_impl; [|exact Hall]. cbv beta. intros v Hv. lia.
    + split; [destruct Hin as [->|Hin]; [left; reflexivity | right; right; exact Hin]|].
      split; [exact Hxb|]. constructor; [lia | exact Hall].
Qed.
Lemma fold_min_spec E (l : list dy) x : E <= de x -> Forall (fun v => E <= de v) l ->
  let r := fold_right (fun a b => if dy_leb a b then a else b) x l in
  (r = x \/ In r l) /\ sc E r <= sc E x /\ Forall (fun v => sc E r <= sc E v) l.
Proof.
  intros Hx Hl. induction Hl as [|a l Ha Hl IH]; cbn [fold_right].
  - repeat split; [left; reflexivity | lia | constructor].
  - cbv zeta in IH. set (b := fold_right (fun a b => if dy_leb a b then a else b) x l) in *.
    destruct IH as (Hin & Hxb & Hall).
    assert (Hb: E <= de b).
    { destruct Hin as [->|Hin]; [exact Hx|]. rewrite Forall_forall in Hl. apply Hl. exact Hin. }
    rewrite (dy_leb_sc E a b Ha Hb). destruct (sc E a <=? sc E b) eqn:Ec.
    + split; [right; left; reflexivity|]. split; [lia|]. constructor; [lia|].
      eapply Forall_impl; [|exact Hall]. cbv beta. intros v Hv. lia.
    + split; [destruct Hin as [->|Hin]; [left; reflexivity | right; right; exact Hin]|].
      split; [exact Hxb|]. constructor; [lia | exact Hall].
Qed.
Lemma dy_max_spec E l : l <> [] -> Forall (fun v => E <= de v) l ->
  In (dy_max l) l /\ Forall (fun v => sc E v <= sc E (dy_max l)) l.
Proof.
  intros Hne Hl. destruct l as [|x l]; [congruence|]. unfold dy_max. cbn [hd].
  pose proof (Forall_inv Hl) as Hx.
  destruct (fold_max_spec E (x :: l) x Hx Hl) as (Hin & _ & Hall). split; [|exact Hall].
  destruct Hin as [->|Hin]; [left; reflexivity | exact Hin].
Qed.
Lemma dy_min_spec E l : l <> [] -> Forall (fun v => E <= de v) l ->
  In (dy_min l) l /\ Forall (fun v => sc E (dy_min l) <= sc E v) l.
Proof.
  intros Hne Hl. destruct l as [|x l]; [congruence|]. unfold dy_min. cbn [hd].
  pose proof (Forall_inv Hl) as Hx.
  destruct (fold_min_spec E (x :: l) x Hx Hl) as (Hin & _ & Hall). split; [|exact Hall].
  destruct Hin as [->|Hin]; [left; reflexivity | exact Hin].
Qed.

(* ---------- the fraction length of one element, and the maximum over the elements ---------- *)
Lemma frac_loop_zero fuel max_n n e : frac_loop (S fuel) max_n {| dm := 0; de := 0 |} n e = Some n.
Proof. cbn [frac_loop]. unfold dy_is_zero. cbn [dm]. rewrite Z.eqb_refl. rewrite !andb_false_r. reflexivity. Qed.
Lemma frac_bits_nonneg_exp max_n v : 0 <= de v -> frac_bits max_n v = Some 0.
Proof.
  intros H. unfold frac_bits, dy_frac. replace (0 <=? de v) with true by lia. apply (frac_loop_zero 199).
Qed.

Lemma frac_bits_least max_n v : - de v <= max_n -> - de v <= 198 ->
  exists n, frac_bits max_n v = Some n /\ 0 <= n /\ is_mult v n /\ (forall j, 0 <= j < n -> ~ is_mult v j).
Proof.
  intros Hm Hf. destruct (0 <=? de v) eqn:E.
  - exists 0. split; [apply frac_bits_nonneg_exp; lia|]. split; [lia|]. split; [unfold is_mult; replace (0 <=? de v + 0) with true by lia; exact I|].
    intros j Hj. lia.
  - destruct (frac_bits_min max_n v ltac:(lia) Hm Hf) as (n & Hn & Hb & Hz & Hmin).
    exists n. split; [exact Hn|]. split; [lia|]. split.
    + unfold is_mult. destruct (0 <=? de v + n); [exact I|]. replace (- (de v + n)) with (- de v - n) by lia. exact Hz.
    + intros j Hj Hmul. unfold is_mult in Hmul. replace (0 <=? de v + j) with false in Hmul by lia.
      apply (Hmin j Hj). replace (- de v - j) with (- (de v + j)) by lia. exact Hmul.
Qed.

Lemma omapM_Forall2 {A B} (k : A -> option B) (l : list A) (r : list B) : omapM k l = Some r -> Forall2 (fun a b => k a = Some b) l r.
Proof.
  revert r. induction l as [|a l IH]; intros r H; cbn [omapM] in H.
  - injection H as <-. constructor.
  - destruct (k a) eqn:Ea; [|discriminate]. destruct (omapM k l) eqn:El; [|discriminate]. injection H as <-.
    constructor; [exact Ea | apply IH; reflexivity].
Qed.

Lemma fold_zmax_spec ns : let m := fold_right Z.max 0 ns in 0 <= m /\ Forall (fun n => n <= m) ns /\ (m = 0 \/ In m ns).
Proof.
  induction ns as [|n ns IH]; cbn [fold_right]; [repeat split; [lia | constructor | left; reflexivity]|].
  cbv zeta in IH. set (m := fold_right Z.max 0 ns) in *. destruct IH as (H0 & Hall & Hin).
  split; [lia|]. split.
  - constructor; [lia|]. eapply Forall_impl; [|exact Hall]. cbv beta. intros; lia.
  - destruct (Z.max_spec n m) as [(Hlt & ->)|(Hge & ->)]; [destruct Hin as [Hm|Hin]; [left; exact Hm | right; right; exact Hin] | right; left; reflexivity].
Qed.

(* ---------- the combination step ---------- *)
Theorem best_sizes_minimal (signed : bool) wmax vals w f :
  let sign := if signed then 1 else 0 in
  vals <> [] -> Forall (fun v => - de v <= wmax - sign /\ - de v <= 198) vals ->
  best_sizes signed None None wmax vals = Ok (w, f) -> w < wmax ->
  0 <= f /\ Forall (fun v => is_mult v f) vals /\
  (forall j, 0 <= j < f -> exists v, In v vals /\ ~ is_mult v j) /\
  f <= w - sign /\
  Forall (fun v => - 2^(w - sign) <= scaled_trunc v f < 2^(w - sign)) vals /\
  (f < w - sign -> exists v, In v vals /\ ~ (- 2^(w - sign - 1) <= scaled_trunc v f < 2^(w - sign - 1))).
Proof.
  intros sign Hne Hdom H Hcap. unfold best_sizes in H. fold sign in H.
  destruct (omapM (frac_bits (wmax - sign)) vals) as [ns|] eqn:Ens; [|discriminate]. cbn [bind] in H.
  pose proof (omapM_Forall2 _ _ _ Ens) as HF2.
  destruct (fold_zmax_spec ns) as (Hm0 & Hmall & Hmin). set (nfr := fold_right Z.max 0 ns) in *.
  set (vmax := scaled_trunc (dy_max vals) nfr) in *. set (vmin := scaled_trunc (dy_min vals) nfr) in *.
  destruct (int_loop 400 (wmax - sign + nfr) vmax vmin 0) as [ni0|] eqn:Eloop; [|discriminate].
  injection H as Hw Hf.
  destruct (int_loop_spec 400 (wmax - sign + nfr) vmax vmin 0 ni0 ltac:(lia) Eloop) as (Hni0 & Hfail & Hfit & _).
  set (ni := Z.max (ni0 - nfr) 0) in *.
  (* below the cap: the fraction length is not shortened *)
  assert (Hnf: f = nfr) by lia. assert (Hww: w = nfr + ni + sign) by lia. clear Hw Hf. subst f.
  assert (Hlt: ni0 < wmax - sign + nfr) by lia. specialize (Hfit Hlt).
  (* every element is a multiple of 2^-nfr *)
  assert (Hmul: Forall (fun v => is_mult v nfr) vals).
  { clear - HF2 Hmall Hdom. clearbody nfr. induction HF2 as [|v n vals ns Hv _ IH]; [constructor|].
    pose proof (Forall_inv Hdom) as (Hd1 & Hd2). pose proof (Forall_inv Hmall) as Hn.
    constructor; [|apply IH; [exact (Forall_inv_tail Hdom) | exact (Forall_inv_tail Hmall)]].
    destruct (frac_bits_least (wmax - sign) v Hd1 Hd2) as (n' & Hn' & _ & Hm & _).
    rewrite Hv in Hn'. injection Hn' as <-. apply (is_mult_mono v n nfr Hm Hn). }
  split; [exact Hm0|]. split; [exact Hmul|]. split.
  { (* minimal: nfr is the fraction length of some element *)
    intros j Hj. destruct Hmin as [Hz|Hin]; [lia|].
    assert (Hex: exists v, In v vals /\ frac_bits (wmax - sign) v = Some nfr).
    { clear - HF2 Hin. clearbody nfr. induction HF2 as [|v n vals ns Hv _ IH]; [destruct Hin|].
      destruct Hin as [->|Hin]; [exists v; split; [left; reflexivity|exact Hv]|].
      destruct (IH Hin) as (v' & Hi & Hv'). exists v'. split; [right; exact Hi|exact Hv']. }
    destruct Hex as (v & Hiv & Hv). exists v. split; [exact Hiv|].
    rewrite Forall_forall in Hdom. destruct (Hdom v Hiv) as (Hd1 & Hd2).
    destruct (frac_bits_least (wmax - sign) v Hd1 Hd2) as (n' & Hn' & _ & _ & Hleast).
    rewrite Hv in Hn'. injection Hn' as <-. apply Hleast. exact Hj. }
  (* a common exponent below every element and below -nfr *)
  assert (HE: exists E, E <= - nfr /\ Forall (fun v => E <= de v) vals).
  { exists (- nfr - 198 - Z.abs wmax). split; [lia|]. eapply Forall_impl; [|exact Hdom]. cbv beta. intros v (H1 & H2). lia. }
  destruct HE as (E & HEn & HEv).
  destruct (dy_max_spec E vals Hne HEv) as (HinM & HallM). destruct (dy_min_spec E vals Hne HEv) as (Hinm & Hallm).
  set (P := 2^(- nfr - E)). assert (HP: 0 < P) by (apply pow2_pos; lia).
  assert (Hcode: forall v, In v vals -> sc E v = scaled_trunc v nfr * P).
  { intros v Hv. rewrite Forall_forall in Hmul, HEv. apply code_sc; [apply Hmul; exact Hv | apply HEv; exact Hv | exact HEn]. }
  assert (Hbetween: forall v, In v vals -> vmin <= scaled_trunc v nfr <= vmax).
  { intros v Hv. rewrite Forall_forall in HallM, Hallm. specialize (HallM v Hv). specialize (Hallm v Hv).
    rewrite (Hcode v Hv), (Hcode _ HinM) in HallM. rewrite (Hcode v Hv), (Hcode _ Hinm) in Hallm. fold vmax in HallM. fold vmin in Hallm. nia. }
  unfold fits_int in Hfit. apply andb_true_iff in Hfit. destruct Hfit as (Hfit & F4). apply andb_true_iff in Hfit. destruct Hfit as (Hfit & F3).
  apply andb_true_iff in Hfit. destruct Hfit as (F1 & F2).
  replace (w - sign) with (nfr + ni) by lia.
  assert (Hpow: 2^ni0 <= 2^(nfr + ni)) by (apply pow2_le; lia).
  split; [lia|]. split.
  - apply Forall_forall. intros v Hv. specialize (Hbetween v Hv). lia.
  - intros Hpos. assert (Hni: ni = ni0 - nfr) by lia.
    specialize (Hfail (ni0 - 1) ltac:(lia)). unfold fits_int in Hfail.
    replace (nfr + ni - 1) with (ni0 - 1) by lia.
    destruct ((- 2^(ni0 - 1) <=? vmax) && (vmax <? 2^(ni0 - 1))) eqn:EM.
    + exists (dy_min vals). split; [exact Hinm|]. fold vmin. cbn [andb] in Hfail. lia.
    + exists (dy_max vals). split; [exact HinM|]. fold vmax. lia.
Qed.

(* only n_frac given (and every element is a multiple of 2^-n_frac): the fraction length is kept and the word is the least one
   that holds every exact code with a non-negative integer length (below the cap) *)
Theorem best_sizes_given_frac (signed : bool) wmax vals w f nfr :
  let sign := if signed then 1 else 0 in
  vals <> [] -> Forall (fun v => - de v <= 198) vals -> 0 <= nfr -> Forall (fun v => is_mult v nfr) vals ->
  best_sizes signed None (Some nfr) wmax vals = Ok (w, f) -> w < wmax ->
  f = nfr /\ f <= w - sign /\
  Forall (fun v => - 2^(w - sign) <= scaled_trunc v f < 2^(w - sign)) vals /\
  (f < w - sign -> exists v, In v vals /\ ~ (- 2^(w - sign - 1) <= scaled_trunc v f < 2^(w - sign - 1))).
Proof.
  intros sign Hne Hdom Hm0 Hmul H Hcap. unfold best_sizes in H. fold sign in H. cbn [bind] in H.
  set (vmax := scaled_trunc (dy_max vals) nfr) in *. set (vmin := scaled_trunc (dy_min vals) nfr) in *.
  destruct (int_loop 400 (wmax - sign + nfr) vmax vmin 0) as [ni0|] eqn:Eloop; [|discriminate].
  injection H as Hw Hf.
  destruct (int_loop_spec 400 (wmax - sign + nfr) vmax vmin 0 ni0 ltac:(lia) Eloop) as (Hni0 & Hfail & Hfit & _).
  set (ni := Z.max (ni0 - nfr) 0) in *.
  assert (Hnf: f = nfr) by lia. assert (Hww: w = nfr + ni + sign) by lia. clear Hw Hf. subst f.
  assert (Hlt: ni0 < wmax - sign + nfr) by lia. specialize (Hfit Hlt).
  split; [reflexivity|].
  assert (HE: exists E, E <= - nfr /\ Forall (fun v => E <= de v) vals).
  { exists (- nfr - 198). split; [lia|]. eapply Forall_impl; [|exact Hdom]. cbv beta. intros v H1. lia. }
  destruct HE as (E & HEn & HEv).
  destruct (dy_max_spec E vals Hne HEv) as (HinM & HallM). destruct (dy_min_spec E vals Hne HEv) as (Hinm & Hallm).
  set (P := 2^(- nfr - E)). assert (HP: 0 < P) by (apply pow2_pos; lia).
  assert (Hcode: forall v, In v vals -> sc E v = scaled_trunc v nfr * P).
  { intros v Hv. rewrite Forall_forall in Hmul, HEv. apply code_sc; [apply Hmul; exact Hv | apply HEv; exact Hv | exact HEn]. }
  assert (Hbetween: forall v, In v vals -> vmin <= scaled_trunc v nfr <= vmax).
  { intros v Hv. rewrite Forall_forall in HallM, Hallm. specialize (HallM v Hv). specialize (Hallm v Hv).
    rewrite (Hcode v Hv), (Hcode _ HinM) in HallM. rewrite (Hcode v Hv), (Hcode _ Hinm) in Hallm. fold vmax in HallM. fold vmin in Hallm. nia. }
  unfold fits_int in Hfit. apply andb_true_iff in Hfit. destruct Hfit as (Hfit & F4). apply andb_true_iff in Hfit. destruct Hfit as (Hfit & F3).
  apply andb_true_iff in Hfit. destruct Hfit as (F1 & F2).
  replace (w - sign) with (nfr + ni) by lia.
  assert (Hpow: 2^ni0 <= 2^(nfr + ni)) by (apply pow2_le; lia).
  split; [lia|]. split.
  - apply Forall_forall. intros v Hv. specialize (Hbetween v Hv). lia.
  - intros Hpos. assert (Hni: ni = ni0 - nfr) by lia.
    specialize (Hfail (ni0 - 1) ltac:(lia)). unfold fits_int in Hfail.
    replace (nfr + ni - 1) with (ni0 - 1) by lia.
    destruct ((- 2^(ni0 - 1) <=? vmax) && (vmax <? 2^(ni0 - 1))) eqn:EM.
    + exists (dy_min vals). split; [exact Hinm|]. fold vmin. cbn [andb] in Hfail. lia.
    + exists (dy_max vals). split; [exact HinM|]. fold vmax. lia.
Qed.

(* the same for ANY given fraction length, negative ones included (the values are then divided by 2^-n_frac): below the cap lowered
   by a negative n_frac (the search for the integer length stops at n_word_max - sign + n_frac) *)
Theorem best_sizes_given_frac_any (signed : bool) wmax vals w f nfr :
  let sign := if signed then 1 else 0 in
  vals <> [] -> Forall (fun v => - de v <= 198) vals -> Forall (fun v => is_mult v nfr) vals ->
  best_sizes signed None (Some nfr) wmax vals = Ok (w, f) -> w < wmax + Z.min nfr 0 ->
  f = nfr /\ f <= w - sign /\
  Forall (fun v => - 2^(w - sign) <= scaled_trunc v f < 2^(w - sign)) vals /\
  (f < w - sign -> 0 < w - sign -> exists v, In v vals /\ ~ (- 2^(w - sign - 1) <= scaled_trunc v f < 2^(w - sign - 1))).
Proof.
  intros sign Hne Hdom Hmul H Hcap. unfold best_sizes in H. fold sign in H. cbn [bind] in H.
  set (vmax := scaled_trunc (dy_max vals) nfr) in *. set (vmin := scaled_trunc (dy_min vals) nfr) in *.
  destruct (int_loop 400 (wmax - sign + nfr) vmax vmin 0) as [ni0|] eqn:Eloop; [|discriminate].
  injection H as Hw Hf.
  destruct (int_loop_spec 400 (wmax - sign + nfr) vmax vmin 0 ni0 ltac:(lia) Eloop) as (Hni0 & Hfail & Hfit & _).
  set (ni := Z.max (ni0 - nfr) 0) in *.
  assert (Hnf: f = nfr) by lia. assert (Hww: w = nfr + ni + sign) by lia. clear Hw Hf. subst f.
  assert (Hlt: ni0 < wmax - sign + nfr) by lia. specialize (Hfit Hlt).
  split; [reflexivity|].
  assert (HE: exists E, E <= - nfr /\ Forall (fun v => E <= de v) vals).
  { exists (Z.min (- nfr) 0 - 198). split; [lia|]. eapply Forall_impl; [|exact Hdom]. cbv beta. intros v H1. lia. }
  destruct HE as (E & HEn & HEv).
  destruct (dy_max_spec E vals Hne HEv) as (HinM & HallM). destruct (dy_min_spec E vals Hne HEv) as (Hinm & Hallm).
  set (P := 2^(- nfr - E)). assert (HP: 0 < P) by (apply pow2_pos; lia).
  assert (Hcode: forall v, In v vals -> sc E v = scaled_trunc v nfr * P).
  { intros v Hv. rewrite Forall_forall in Hmul, HEv. apply code_sc; [apply Hmul; exact Hv | apply HEv; exact Hv | exact HEn]. }
  assert (Hbetween: forall v, In v vals -> vmin <= scaled_trunc v nfr <= vmax).
  { intros v Hv. rewrite Forall_forall in HallM, Hallm. specialize (HallM v Hv). specialize (Hallm v Hv).
    rewrite (Hcode v Hv), (Hcode _ HinM) in HallM. rewrite (Hcode v Hv), (Hcode _ Hinm) in Hallm. fold vmax in HallM. fold vmin in Hallm. nia. }
  unfold fits_int in Hfit. apply andb_true_iff in Hfit. destruct Hfit as (Hfit & F4). apply andb_true_iff in Hfit. destruct Hfit as (Hfit & F3).
  apply andb_true_iff in Hfit. destruct Hfit as (F1 & F2).
  replace (w - sign) with (nfr + ni) by lia.
  assert (Hpow: 2^ni0 <= 2^(nfr + ni)) by (apply pow2_le; lia).
  split; [lia|]. split.
  - apply Forall_forall. intros v Hv. specialize (Hbetween v Hv). lia.
  - intros Hpos Hpos2. assert (Hni: ni = ni0 - nfr) by lia.
    specialize (Hfail (ni0 - 1) ltac:(lia)). unfold fits_int in Hfail.
    replace (nfr + ni - 1) with (ni0 - 1) by lia.
    destruct ((- 2^(ni0 - 1) <=? vmax) && (vmax <? 2^(ni0 - 1))) eqn:EM.
    + exists (dy_min vals). split; [exact Hinm|]. fold vmin. cbn [andb] in Hfail. lia.
    + exists (dy_max vals). split; [exact HinM|]. fold vmax. lia.
Qed.

(* only n_word given (below the cap): the word is kept; the fraction length is the least exact one when the word has room for it
   and the values then fit, otherwise it is what is left beside the least integer length that holds every exact value *)
Theorem best_sizes_given_word (signed : bool) wmax vals w0 w f :
  let sign := if signed then 1 else 0 in
  vals <> [] -> Forall (fun v => - de v <= wmax - sign /\ - de v <= 198) vals ->
  best_sizes signed (Some w0) None wmax vals = Ok (w, f) -> w0 < wmax ->
  exists nfr,
    (0 <= nfr /\ Forall (fun v => is_mult v nfr) vals /\ (forall j, 0 <= j < nfr -> exists v, In v vals /\ ~ is_mult v j)) /\
    w = w0 /\ f <= nfr /\ f <= w - sign /\
    (f = nfr -> Forall (fun v => - 2^(w - sign) <= scaled_trunc v f < 2^(w - sign)) vals) /\
    (f < nfr -> f < w - sign ->
       exists v, In v vals /\ ~ (- 2^(w - sign - f - 1 + nfr) <= scaled_trunc v nfr < 2^(w - sign - f - 1 + nfr))).
Proof.
  intros sign Hne Hdom H Hcap. unfold best_sizes in H. fold sign in H.
  destruct (omapM (frac_bits (wmax - sign)) vals) as [ns|] eqn:Ens; [|discriminate]. cbn [bind] in H.
  pose proof (omapM_Forall2 _ _ _ Ens) as HF2.
  destruct (fold_zmax_spec ns) as (Hm0 & Hmall & Hmin). set (nfr := fold_right Z.max 0 ns) in *.
  set (vmax := scaled_trunc (dy_max vals) nfr) in *. set (vmin := scaled_trunc (dy_min vals) nfr) in *.
  destruct (int_loop 400 (wmax - sign + nfr) vmax vmin 0) as [ni0|] eqn:Eloop; [|discriminate].
  injection H as Hw Hf.
  destruct (int_loop_spec 400 (wmax - sign + nfr) vmax vmin 0 ni0 ltac:(lia) Eloop) as (Hni0 & Hfail & Hfit & _).
  set (ni := Z.max (ni0 - nfr) 0) in *.
  assert (Hmul: Forall (fun v => is_mult v nfr) vals).
  { clear - HF2 Hmall Hdom. clearbody nfr. induction HF2 as [|v n vals ns Hv _ IH]; [constructor|].
    pose proof (Forall_inv Hdom) as (Hd1 & Hd2). pose proof (Forall_inv Hmall) as Hn.
    constructor; [|apply IH; [exact (Forall_inv_tail Hdom) | exact (Forall_inv_tail Hmall)]].
    destruct (frac_bits_least (wmax - sign) v Hd1 Hd2) as (n' & Hn' & _ & Hm & _).
    rewrite Hv in Hn'. injection Hn' as <-. apply (is_mult_mono v n nfr Hm Hn). }
  exists nfr. split.
  { split; [exact Hm0|]. split; [exact Hmul|].
    intros j Hj. destruct Hmin as [Hz|Hin]; [lia|].
    assert (Hex: exists v, In v vals /\ frac_bits (wmax - sign) v = Some nfr).
    { clear - HF2 Hin. clearbody nfr. induction HF2 as [|v n vals ns Hv _ IH]; [destruct Hin|].
      destruct Hin as [->|Hin]; [exists v; split; [left; reflexivity|exact Hv]|].
      destruct (IH Hin) as (v' & Hi & Hv'). exists v'. split; [right; exact Hi|exact Hv']. }
    destruct Hex as (v & Hiv & Hv). exists v. split; [exact Hiv|].
    rewrite Forall_forall in Hdom. destruct (Hdom v Hiv) as (Hd1 & Hd2).
    destruct (frac_bits_least (wmax - sign) v Hd1 Hd2) as (n' & Hn' & _ & _ & Hleast).
    rewrite Hv in Hn'. injection Hn' as <-. apply Hleast. exact Hj. }
  assert (HE: exists E, E <= - nfr /\ Forall (fun v => E <= de v) vals).
  { exists (- nfr - 198 - Z.abs wmax). split; [lia|]. eapply Forall_impl; [|exact Hdom]. cbv beta. intros v (H1 & H2). lia. }
  destruct HE as (E & HEn & HEv).
  destruct (dy_max_spec E vals Hne HEv) as (HinM & HallM). destruct (dy_min_spec E vals Hne HEv) as (Hinm & Hallm).
  set (P := 2^(- nfr - E)). assert (HP: 0 < P) by (apply pow2_pos; lia).
  assert (Hcode: forall v, In v vals -> sc E v = scaled_trunc v nfr * P).
  { intros v Hv. rewrite Forall_forall in Hmul, HEv. apply code_sc; [apply Hmul; exact Hv | apply HEv; exact Hv | exact HEn]. }
  assert (Hbetween: forall v, In v vals -> vmin <= scaled_trunc v nfr <= vmax).
  { intros v Hv. rewrite Forall_forall in HallM, Hallm. specialize (HallM v Hv). specialize (Hallm v Hv).
    rewrite (Hcode v Hv), (Hcode _ HinM) in HallM. rewrite (Hcode v Hv), (Hcode _ Hinm) in Hallm. fold vmax in HallM. fold vmin in Hallm. nia. }
  assert (Hww: w = w0) by lia. split; [exact Hww|]. split; [lia|]. split; [lia|]. split.
  - intros Hfe. assert (Hlt: ni0 < wmax - sign + nfr) by lia. specialize (Hfit Hlt).
    unfold fits_int in Hfit. apply andb_true_iff in Hfit. destruct Hfit as (Hfit & F4). apply andb_true_iff in Hfit. destruct Hfit as (Hfit & F3).
    apply andb_true_iff in Hfit. destruct Hfit as (F1 & F2).
    assert (Hpow: 2^ni0 <= 2^(w - sign)) by (apply pow2_le; lia).
    rewrite Hfe. apply Forall_forall. intros v Hv. specialize (Hbetween v Hv). lia.
  - intros Hlt Hroom. assert (Hni: ni = ni0 - nfr) by lia. assert (Hfv: f = w0 - sign - ni) by lia.
    specialize (Hfail (ni0 - 1) ltac:(lia)). unfold fits_int in Hfail.
    replace (w - sign - f - 1 + nfr) with (ni0 - 1) by lia.
    destruct ((- 2^(ni0 - 1) <=? vmax) && (vmax <? 2^(ni0 - 1))) eqn:EM.
    + exists (dy_min vals). split; [exact Hinm|]. fold vmin. cbn [andb] in Hfail. lia.
    + exists (dy_max vals). split; [exact HinM|]. fold vmax. lia.
Qed.

(* an inferred word never exceeds the configured maximum, whichever sizes are given *)
Theorem best_sizes_word_within_max (signed : bool) nwo nfo wmax vals w f :
  best_sizes signed nwo nfo wmax vals = Ok (w, f) -> w <= wmax.
Proof.
  unfold best_sizes. intros H.
  destruct (match nfo with Some f0 => Ok f0 | None => match omapM (frac_bits (wmax - (if signed then 1 else 0))) vals with Some ns => Ok (fold_right Z.max 0 ns) | None => Unmodelled end end) as [nfr| |] eqn:E; cbn [bind] in H; try discriminate.
  destruct (int_loop 400 (wmax - (if signed then 1 else 0) + nfr) (scaled_trunc (dy_max vals) nfr) (scaled_trunc (dy_min vals) nfr) 0) as [ni0|]; [|discriminate].
  destruct nwo as [w0|]; injection H as Hw Hf; lia.
Qed.
