(* ProofsReduceInto.v — C15 / C08: a sum of ANY number of elements of ANY width written into a caller-chosen format with FEWER
   fraction bits (out=, a sizing policy), when the accumulated code needs more than 53 bits: the exact-rational region of
   functions._rescale_raw.  The result is the exact sum quantized ONCE into the target, by the target's modes. *)
From Coq Require Import ZArith List Bool Lia ZifyBool.
From FxpVerif Require Import Spec SpecArith NP Store Arith ProofsCore ProofsStore ProofsArith ProofsRound ProofsHuge ProofsRawImposed Convert ProofsConvert ProofsExact Reduce ProofsReduce.
Import ListNotations.
Open Scope Z_scope.
Ltac Zify.zify_post_hook ::= Z.to_euclidean_division_equations.

(* the accumulated code handed to the rescaling, whatever its carrier (int64, uint64, Python integer) *)
Lemma rescale_exact_acc wide sgn z k pc : k < 0 -> 2^53 <= Z.abs z ->
  rescale ((k <? 0) && int_mag_ge (acc_mval wide sgn z) (2^53)) pc (acc_mval wide sgn z) k = Ok (MO (NR {| dm := z; de := k |})).
Proof.
  intros Hk Hz. unfold rescale. replace (k <? 0) with true by lia. unfold mscale_raw.
  replace (0 <? k) with false by lia. replace (k <? 0) with true by lia.
  unfold acc_mval. destruct wide; [|destruct sgn]; cbn [int_mag_ge andb];
    (replace (2^53 <=? Z.abs z) with true by lia); reflexivity.
Qed.

Lemma reduce_into_exact wide sgn z k ft r o v : 1 <= nw ft -> k < 0 -> 2^53 <= Z.abs z ->
  dy_eqb {| dm := z; de := k |} (dy_scale (nf ft) v) = true ->
  reduce_into (acc_mval wide sgn z) k ft r o = Ok (spec_wres ft r o [v]).
Proof.
  intros Hw Hk Hz Hv. unfold reduce_into. rewrite rescale_exact_acc by assumption. cbn [bind].
  assert (Harr: arr_of [MO (NR {| dm := z; de := k |})] = Ok (AObj [NR {| dm := z; de := k |}], VFloat)) by reflexivity.
  rewrite Harr. cbn [bind fst snd].
  assert (Hfrac: arr_has_frac (AObj [NR {| dm := z; de := k |}]) = true) by reflexivity.
  rewrite (set_val_real_eq _ _ _ _ _ _ _ (obj_path_frac ft true _ VFloat Hfrac) (exact_factor_raw _ _)). cbn [arr_nums bind].
  rewrite (mapM_Forall2 _ (spec_eres ft r o) _ [v]).
  - cbn [bind]. unfold spec_wres. cbn [map existsb]. reflexivity.
  - constructor; [|constructor]. apply elem_pipe_raw_rational; assumption.
Qed.

(* sum into fewer fraction bits: every word length, every number of elements; the value of the sum is zsum l * 2^-nf f *)
Theorem sum_into_fewer_fraction_bits f total l ft r o :
  1 <= nw f -> 1 <= total -> Z.of_nat (length l) <= total -> Forall (in_range f) l ->
  1 <= nw ft -> nf ft - nf f < 0 -> 2^53 <= Z.abs (zsum l) ->
  fxp_sum_into f total l ft r o = Ok (spec_wres ft r o [ {| dm := zsum l; de := - nf f |} ]).
Proof.
  intros Hw Ht Hlen Hr Hwt Hk Hbig. unfold fxp_sum_into. cbv zeta.
  assert (Hsel: (if 64 <=? clog2 total + nw f then sum_py l else sum_i64 (sg f) l) = zsum l).
  { destruct (64 <=? clog2 total + nw f) eqn:E; [apply sum_py_zsum|]. apply (sum_narrow_exact f total); try assumption. lia. }
  rewrite Hsel. apply reduce_into_exact; try assumption.
  unfold dy_scale. cbn [dm de]. replace (- nf f + nf ft) with (nf ft - nf f) by lia. apply dy_eqb_refl.
Qed.

(* product into fewer fraction bits than the n * n_frac of the exact product *)
Theorem prod_into_fewer_fraction_bits f l ft r o :
  1 <= nw f -> (1 <= length l)%nat -> Forall (in_range f) l ->
  1 <= nw ft -> nf ft - Z.of_nat (length l) * nf f < 0 -> 2^53 <= Z.abs (zprod l) ->
  fxp_prod_into f (Z.of_nat (length l)) l ft r o = Ok (spec_wres ft r o [ {| dm := zprod l; de := - (Z.of_nat (length l) * nf f) |} ]).
Proof.
  intros Hw Hne Hr Hwt Hk Hbig. unfold fxp_prod_into. cbv zeta.
  rewrite (prod_sel_exact f l Hw Hne Hr). apply reduce_into_exact; try assumption.
  unfold dy_scale. cbn [dm de]. replace (- (Z.of_nat (length l) * nf f) + nf ft) with (nf ft - Z.of_nat (length l) * nf f) by lia. apply dy_eqb_refl.
Qed.

(* ---------- sum into a format with AT LEAST as many fraction bits (below the 64-bit factor threshold), signed operand: the code
   zsum l * 2^k is stored raw - clamped or wrapped by the target with exactly the Spec's overflow / underflow flags - whatever its
   size (int64 while it fits, a Python integer beyond) ---------- *)
Lemma reduce_into_int wide z k ft r o : 1 <= nw ft -> 0 <= k -> nf ft < 64 -> (wide = false -> Z.abs z < 2^63) ->
  exists w, reduce_into (acc_mval wide true z) k ft r o = Ok w /\ int_wres ft o [z * 2^k] w.
Proof.
  intros Hw Hk Hnf Hz. unfold reduce_into. replace (k <? 0) with false by lia. cbn [andb].
  unfold precision_cast. replace (64 <=? nf ft) with false by lia. unfold rescale. replace (k <? 0) with false by lia.
  assert (P: 0 < 2^k) by (apply pow2_pos; lia).
  unfold mscale_raw. replace (k <? 0) with false by lia. cbn [andb].
  destruct wide; cbn [acc_mval].
  - (* a Python integer already *)
    destruct (0 <? k) eqn:Ek; unfold mscale; replace (0 <=? k) with true by lia; cbn [num_mul bind arr_of all_MO fold_right fst snd];
      change [NI (z * 2^k)] with (map NI [z * 2^k]); apply set_val_raw_obj; exact Hw.
  - specialize (Hz eq_refl). destruct (0 <? k) eqn:Ek.
    + destruct ((63 <=? k) || (2^63 <=? Z.abs z * 2^k)) eqn:Eb; cbn [bind arr_of all_MO all_MI fold_right fst snd].
      * change [NI (z * 2^k)] with (map NI [z * 2^k]). apply set_val_raw_obj; exact Hw.
      * apply set_val_raw_i64; [exact Hw|]. constructor; [|constructor]. rewrite Z.abs_mul, (Z.abs_eq (2^k)) by lia. lia.
    + assert (k = 0) by lia. subst k. unfold mscale. cbn [Z.leb Z.compare]. change (2^0) with 1.
      replace (fits_i64 1) with true by reflexivity. rewrite Z.mul_1_r, wrap_i64_small by exact Hz.
      cbn [bind arr_of all_MI fold_right fst snd]. apply set_val_raw_i64; [exact Hw|]. constructor; [exact Hz|constructor].
Qed.

Theorem sum_into_more_fraction_bits f total l ft r o :
  sg f = true -> 1 <= nw f -> 1 <= total -> Z.of_nat (length l) <= total -> Forall (in_range f) l ->
  1 <= nw ft -> 0 <= nf ft - nf f -> nf ft < 64 ->
  exists w, fxp_sum_into f total l ft r o = Ok w /\ int_wres ft o [zsum l * 2^(nf ft - nf f)] w.
Proof.
  intros Hs Hw Ht Hlen Hr Hwt Hk Hnf. unfold fxp_sum_into. cbv zeta. rewrite Hs.
  assert (Hsel: (if 64 <=? clog2 total + nw f then sum_py l else sum_i64 true l) = zsum l).
  { destruct (64 <=? clog2 total + nw f) eqn:E; [apply sum_py_zsum|]. rewrite <- Hs. apply (sum_narrow_exact f total); try assumption. lia. }
  rewrite Hsel. apply reduce_into_int; try assumption.
  intros Hnar. pose proof (sum_in_range f total l Hw Hlen Ht Hr) as Hin. pose proof (clog2_nonneg total) as Hc0.
  unfold in_range, cmin, cmax, sum_fmt in Hin. cbn [sg nw] in Hin. rewrite Hs in Hin.
  assert (2^(clog2 total + nw f - 1) <= 2^62) by (apply pow2_le; lia). assert (2^62 < 2^63) by (apply pow2_lt; lia). lia.
Qed.

(* the same for an UNSIGNED operand (the accumulated code is a uint64 while it fits), into a target word below 64 bits *)
Lemma reduce_into_uint z k ft r o : 1 <= nw ft < 64 -> 0 <= k -> nf ft < 64 -> 0 <= z < 2^63 ->
  exists w, reduce_into (acc_mval false false z) k ft r o = Ok w /\ int_wres ft o [z * 2^k] w.
Proof.
  intros Hw Hk Hnf Hz. unfold reduce_into. replace (k <? 0) with false by lia. cbn [andb].
  unfold precision_cast. replace (64 <=? nf ft) with false by lia. unfold rescale. replace (k <? 0) with false by lia.
  assert (P: 0 < 2^k) by (apply pow2_pos; lia). assert (E64: 2^63 < 2^64) by (apply pow2_lt; lia).
  unfold mscale_raw. replace (k <? 0) with false by lia. cbn [andb acc_mval].
  destruct (0 <? k) eqn:Ek.
  - destruct ((63 <=? k) || (2^63 <=? Z.abs z * 2^k)) eqn:Eb; cbn [bind arr_of all_MO all_MU fold_right fst snd].
    + change [NI (z * 2^k)] with (map NI [z * 2^k]). apply set_val_raw_obj; lia.
    + assert (Hc: 0 <= z * 2^k < 2^63) by (rewrite (Z.abs_eq z) in Eb by lia; split; [apply Z.mul_nonneg_nonneg; lia | lia]).
      assert (Hm: map wrap_u64 [z * 2^k] = [z * 2^k]) by (cbn [map]; rewrite wrap_u64_small by lia; reflexivity).
      destruct (set_val_raw_u64 ft r o [z * 2^k] Hw ltac:(constructor; [lia|constructor])) as (w & Hs & Hi).
      rewrite Hm in Hs. exists w. split; assumption.
  - assert (k = 0) by lia. subst k. unfold mscale. cbn [Z.leb Z.compare]. change (2^0) with 1.
    replace (fits_u64 1) with true by reflexivity. rewrite Z.mul_1_r, wrap_u64_small by lia.
    cbn [bind arr_of all_MU fold_right fst snd].
    assert (Hm: map wrap_u64 [z] = [z]) by (cbn [map]; rewrite wrap_u64_small by lia; reflexivity).
    destruct (set_val_raw_u64 ft r o [z] Hw ltac:(constructor; [lia|constructor])) as (w & Hs & Hi).
    rewrite Hm in Hs. exists w. split; assumption.
Qed.

Theorem sum_into_more_fraction_bits_unsigned f total l ft r o :
  sg f = false -> 1 <= nw f -> 1 <= total -> Z.of_nat (length l) <= total -> Forall (in_range f) l ->
  1 <= nw ft -> (clog2 total + nw f < 64 -> nw ft < 64) -> 0 <= nf ft - nf f -> nf ft < 64 ->
  exists w, fxp_sum_into f total l ft r o = Ok w /\ int_wres ft o [zsum l * 2^(nf ft - nf f)] w.
Proof.
  intros Hs Hw Ht Hlen Hr Hwt Hnar Hk Hnf. unfold fxp_sum_into. cbv zeta. rewrite Hs.
  pose proof (sum_in_range f total l Hw Hlen Ht Hr) as Hin. pose proof (clog2_nonneg total) as Hc0.
  unfold in_range, cmin, cmax, sum_fmt in Hin. cbn [sg nw] in Hin. rewrite Hs in Hin.
  destruct (64 <=? clog2 total + nw f) eqn:E.
  - (* Python integers: the signed statement's object branch *)
    rewrite sum_py_zsum. unfold reduce_into. replace (nf ft - nf f <? 0) with false by lia. cbn [andb].
    unfold precision_cast. replace (64 <=? nf ft) with false by lia. unfold rescale. replace (nf ft - nf f <? 0) with false by lia.
    unfold mscale_raw. replace (nf ft - nf f <? 0) with false by lia. cbn [andb acc_mval].
    destruct (0 <? nf ft - nf f) eqn:Ek; unfold mscale; replace (0 <=? nf ft - nf f) with true by lia; cbn [num_mul bind arr_of all_MO fold_right fst snd];
      change [NI (zsum l * 2^(nf ft - nf f))] with (map NI [zsum l * 2^(nf ft - nf f)]); apply set_val_raw_obj; exact Hwt.
  - replace (sum_i64 false l) with (sum_i64 (sg f) l) by (rewrite Hs; reflexivity). rewrite (sum_narrow_exact f total l Hw Ht Hlen ltac:(lia) Hr).
    apply reduce_into_uint; try lia.
    assert (2^(clog2 total + nw f) <= 2^63) by (apply pow2_le; lia). lia.
Qed.

(* product into a format with at least as many fraction bits as the exact product has (signed operand) *)
Theorem prod_into_more_fraction_bits f l ft r o :
  sg f = true -> 1 <= nw f -> (1 <= length l)%nat -> Forall (in_range f) l ->
  1 <= nw ft -> 0 <= nf ft - Z.of_nat (length l) * nf f -> nf ft < 64 ->
  exists w, fxp_prod_into f (Z.of_nat (length l)) l ft r o = Ok w /\ int_wres ft o [zprod l * 2^(nf ft - Z.of_nat (length l) * nf f)] w.
Proof.
  intros Hs Hw Hne Hr Hwt Hk Hnf. unfold fxp_prod_into. cbv zeta.
  rewrite (prod_sel_exact f l Hw Hne Hr). rewrite Hs. apply reduce_into_int; try assumption.
  intros Hnar. pose proof (prod_in_range f l Hw Hne Hr) as Hin.
  set (n := Z.of_nat (length l)) in *. assert (Hn: 1 <= n) by (unfold n; lia).
  unfold in_range, cmin, cmax, prod_fmt in Hin. cbn [sg nw] in Hin. rewrite Hs in Hin.
  assert (n * nw f <= 63) by lia. assert (1 <= n * nw f) by nia.
  assert (2^(n * nw f - 1) <= 2^62) by (apply pow2_le; lia). assert (2^62 < 2^63) by (apply pow2_lt; lia). lia.
Qed.
