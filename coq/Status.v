(* Status.v — model of the status record and of callback invocation across a
   history of writes and resets on one object (objects.py:192-196, 1093-1100, 924-930,
   1652-1657) and of inaccuracy propagation through function wrappers
   (functions.py:132-134, 184-186). *)
From Coq Require Import ZArith List Bool.
From FxpVerif Require Import Spec NP Store.
Import ListNotations.
Open Scope Z_scope.

Record status := { st_ovf : bool; st_unf : bool; st_inacc : bool; st_extp : bool }.

(* status right after construction / resize: flags clear, extended_prec = (n_word >= 64) *)
Definition status_init (f : fmt) : status :=
  {| st_ovf := false; st_unf := false; st_inacc := false; st_extp := 64 <=? nw f |}.

(* a write ORs its three conditions into the record (flags are only ever set to True) *)
Definition status_write (st : status) (w : wres) : status :=
  {| st_ovf := st_ovf st || w_ovf w; st_unf := st_unf st || w_unf w;
     st_inacc := st_inacc st || w_inacc w; st_extp := st_extp st |}.

(* reset(): clears the three flags, keeps the rest of the record *)
Definition status_reset (st : status) : status :=
  {| st_ovf := false; st_unf := false; st_inacc := false; st_extp := st_extp st |}.

Inductive hstep := HWrite (a : arr) (vd : vdt) | HReset.

(* one step on an object of format f with modes r, o: new status and the callbacks fired *)
Definition hstep_run (f : fmt) (r : rmode) (o : omode) (st : status) (s : hstep)
  : outcome (status * list cbev) :=
  match s with
  | HWrite a vd => bind (set_val_real f r o false a vd) (fun w => Ok (status_write st w, write_events w))
  | HReset => Ok (status_reset st, [])
  end.

Fixpoint history_run (f : fmt) (r : rmode) (o : omode) (st : status) (steps : list hstep)
  : outcome (list (status * list cbev)) :=
  match steps with
  | [] => Ok []
  | s :: t => bind (hstep_run f r o st s) (fun p =>
              bind (history_run f r o (fst p) t) (fun rest => Ok (p :: rest)))
  end.

(* inaccuracy of the result of a one/two-operand function: the result's own write, OR the operands' *)
Definition result_inacc (operands : list bool) (own : bool) : bool := own || existsb (fun b => b) operands.
