(* ProofsCumprod.v — C15: cumprod.  Every running product, rescaled to the fraction length of the result, is
   exact and lies inside the optimal format (result words up to 53 bits: the property's domain). *)
From Coq Require Import ZArith List Bool Lia ZifyBool.
From FxpVerif Require Import Spec SpecArith NP Store ProofsCore ProofsStore ProofsArith Arith Reduce.
Import ListNotations.
Open Scope Z_scope.
Ltac Zify.zify_post_hook ::= Z.to_euclidean_division_equations.

(* what the k-th stored code must be: (c1 * ... * ck) * 2^((n - k) * n_frac) *)
Fixpoint cumprod_spec (nfr n k acc : Z) (l : list Z) : list Z :=
  match l with [] => [] | c :: t => (acc * c) * 2^((n - k) * nfr) :: cumprod_spec nfr n (k + 1) (acc * c) t end.

(* the value of the k-th entry is the product of the first k values: code_k * 2^-(n*nf) = (c1*...*ck) * 2^-(k*nf) *)
Lemma cumprod_entry_value p n k nfr : 0 <= nfr -> k <= n ->
  dy_eqb {| dm := p * 2^((n - k) * nfr); de := - (n * nfr) |} {| dm := p; de := - (k * nfr) |} = true.
Proof.
  intros Hf Hk. unfold dy_eqb, dy_align. cbn [dm de].
  assert (Hm: Z.min (- (n * nfr)) (- (k * nfr)) = - (n * nfr)) by nia. rewrite Hm.
  rewrite Z.sub_diag, Z.pow_0_r, Z.mul_1_r. replace (- (k * nfr) - - (n * nfr)) with ((n - k) * nfr) by ring. apply Z.eqb_refl.
Qed.

Lemma lin_max a b n k : 1 <= k <= n -> k * a + (n - k) * b <= Z.max (a + n * b - b) (n * a).
Proof. intros Hk. destruct (Z_le_gt_dec b a); nia. Qed.

Section Cumprod.
  (* no section variables: plain lemmas parameterised explicitly *)
End Cumprod.

Definition cp_kind (signed : bool) : rkind := if signed then KI else KF.

Lemma cumprod_codes_exact f n E : 1 <= nw f -> 0 <= nf f -> 1 <= n ->
  E = Z.max ((nw f - sbit f) + n * nf f - nf f) (n * (nw f - sbit f)) -> E <= 53 ->
  forall l k acc, 1 <= k -> k + Z.of_nat (length l) = n + 1 ->
    Forall (in_range f) l -> Z.abs acc <= (2^(nw f - sbit f))^(k - 1) -> (sg f = false -> 0 <= acc) ->
    cumprod_codes (sg f) (nf f) n k acc l = map (encode (cp_kind (sg f))) (cumprod_spec (nf f) n k acc l)
    /\ Forall (fun z => Z.abs z <= 2^E /\ (sg f = false -> 0 <= z < 2^E)) (cumprod_spec (nf f) n k acc l).
Proof.
  intros Hw Hf Hn HE H53. set (s := sbit f) in *. set (B := 2^(nw f - s)).
  assert (Hs: 0 <= s <= 1) by (unfold s, sbit; destruct (sg f); lia).
  assert (Hws: 0 <= nw f - s) by lia.
  assert (PB: 1 <= B) by (unfold B; assert (0 < 2^(nw f - s)) by (apply pow2_pos; lia); lia).
  assert (E63: 2^53 < 2^63) by (apply pow2_lt; lia). assert (E64: 2^63 < 2^64) by (apply pow2_lt; lia).
  assert (HE0: 0 <= E) by (subst E; apply Z.le_trans with (n * (nw f - s)); [nia | apply Z.le_max_r]).
  assert (P53: 2^E <= 2^53) by (apply pow2_le; lia).
  induction l as [|c t IH]; intros k acc Hk Hlen Hr Hacc Hpos; [split; [reflexivity|constructor]|].
  cbn [length] in Hlen. rewrite Nat2Z.inj_succ in Hlen. pose proof (Forall_inv Hr) as Hc. pose proof (Forall_inv_tail Hr) as Hr'.
  assert (Hkn: k <= n) by lia.
  (* |c| <= B (strictly below for unsigned codes) *)
  destruct (code_mag f c Hw Hc) as (Sc & Uc).
  assert (Hcb: Z.abs c <= B /\ (sg f = false -> 0 <= c <= B - 1)).
  { unfold B, s, sbit. destruct (sg f) eqn:Es.
    - specialize (Sc eq_refl). split; [exact Sc|discriminate].
    - specialize (Uc eq_refl). replace (nw f - 0) with (nw f) by lia. split; [lia|intros _; lia]. }
  destruct Hcb as (Hcb & Hcu).
  assert (PBk1: 0 < B^(k - 1)) by (apply Z.pow_pos_nonneg; lia).
  assert (EBk: B^k = B^(k - 1) * B) by (replace k with ((k - 1) + 1) at 1 by lia; rewrite Z.pow_add_r, Z.pow_1_r by lia; reflexivity).
  set (p := acc * c).
  assert (Hp: Z.abs p <= B^k) by (unfold p; rewrite Z.abs_mul, EBk; nia).
  assert (Hpu: sg f = false -> 0 <= p /\ p < B^k).
  { intros Hu. specialize (Hpos Hu). specialize (Hcu Hu). rewrite (Z.abs_eq acc) in Hacc by lia. unfold p. rewrite EBk. split; nia. }
  (* B^k * factor <= 2^E *)
  set (m := (n - k) * nf f). assert (Hm: 0 <= m) by (unfold m; nia).
  assert (Pm: 0 < 2^m) by (apply pow2_pos; lia).
  assert (HBk: B^k = 2^(k * (nw f - s))) by (unfold B; rewrite <- Z.pow_mul_r by lia; f_equal; lia).
  assert (Hlin: k * (nw f - s) + m <= E).
  { subst E. unfold m. pose proof (lin_max (nw f - s) (nf f) n k ltac:(lia)). lia. }
  assert (Hprod: B^k * 2^m <= 2^E).
  { rewrite HBk, <- Z.pow_add_r by nia. apply pow2_le. nia. }
  assert (Hcode: Z.abs (p * 2^m) <= 2^E) by (rewrite Z.abs_mul, (Z.abs_eq (2^m)) by lia; nia).
  assert (Hpk: B^k <= 2^E) by nia.
  assert (Hfct: 2^m <= 2^E) by nia.
  cbn [cumprod_codes cumprod_spec map]. fold p. fold m.
  assert (Ew: acc_wrap (sg f) p = p).
  { unfold acc_wrap. destruct (sg f) eqn:Es; [apply wrap_i64_small; lia|]. destruct (Hpu eq_refl). apply wrap_u64_small. lia. }
  rewrite Ew.
  destruct (IH (k + 1) p ltac:(lia) ltac:(lia) Hr') as (IH1 & IH2).
  { replace (k + 1 - 1) with k by lia. exact Hp. }
  { intros Hu. destruct (Hpu Hu). lia. }
  rewrite IH1. split.
  - f_equal. unfold cp_kind. destruct (sg f) eqn:Es; cbn [encode].
    + rewrite wrap_i64_small by lia. reflexivity.
    + destruct (Hpu eq_refl) as (Hp0 & Hplt).
      assert (Hps: p < 2^53) by lia.
      assert (Hfs: 2^m < 2^53).
      { (* B >= 2 for an unsigned word of at least one bit, so B^k * 2^m <= 2^E gives 2^m <= 2^(E-1) *)
        assert (HB2: 2 <= B) by (unfold B, s, sbit; rewrite Es; replace (nw f - 0) with (nw f) by lia; assert (2^1 <= 2^(nw f)) by (apply pow2_le; lia); lia).
        assert (B <= B^k) by (rewrite EBk; nia). nia. }
      rewrite !f64_of_Z_exact by lia. rewrite f64_mul_int by (rewrite Z.abs_mul, (Z.abs_eq (2^m)), (Z.abs_eq p) by lia; nia). reflexivity.
  - constructor; [|exact IH2]. split; [exact Hcode|]. intros Hu. destruct (Hpu Hu) as (Hp0 & Hplt). split; nia.
Qed.

Theorem fxp_cumprod_exact f l r o : 1 <= nw f -> 0 <= nf f -> (1 <= length l)%nat ->
  nw (cumprod_fmt f (Z.of_nat (length l))) <= 53 -> Forall (in_range f) l ->
  exists w, fxp_cumprod f l r o = Ok (cumprod_fmt f (Z.of_nat (length l)), w) /\
    w_codes w = cumprod_spec (nf f) (Z.of_nat (length l)) 1 1 l /\ w_ovf w = false /\ w_unf w = false.
Proof.
  intros Hw Hf Hne H53 Hr. set (n := Z.of_nat (length l)) in *. assert (Hn: 1 <= n) by (unfold n; lia).
  set (s := sbit f). assert (Hs: 0 <= s <= 1) by (unfold s, sbit; destruct (sg f); lia).
  set (E := Z.max ((nw f - s) + n * nf f - nf f) (n * (nw f - s))).
  assert (Hnw: nw (cumprod_fmt f n) = Z.max (n * nw f) (2 * s + E)) by reflexivity.
  assert (HE53: E <= 53) by lia.
  destruct (cumprod_codes_exact f n E Hw Hf Hn eq_refl HE53 l 1 1 ltac:(lia) ltac:(unfold n; lia) Hr) as (Hcodes & Hb).
  { replace (1 - 1) with 0 by lia. rewrite Z.pow_0_r. cbn. lia. }
  { intros _. lia. }
  assert (HE0: 0 <= E) by (unfold E; apply Z.le_trans with (n * (nw f - s)); [nia | apply Z.le_max_r]).
  set (zs := cumprod_spec (nf f) n 1 1 l) in *.
  assert (Hzne: zs <> []) by (unfold zs; destruct l; [cbn in Hne; lia|cbn; discriminate]).
  unfold fxp_cumprod. fold n.
  assert (Hnf63: (n - 1) * nf f < 63).
  { assert (nw f - s + n * nf f - nf f <= E) by (unfold E; apply Z.le_max_l). nia. }
  replace (nf f <? 0) with false by lia. replace (64 <=? nw (cumprod_fmt f n)) with false by lia. replace (63 <=? (n - 1) * nf f) with false by lia. cbn [orb].
  rewrite Hcodes. rewrite arr_of_encode by exact Hzne. cbn [bind].
  assert (Hin: Forall (in_range (cumprod_fmt f n)) zs).
  { eapply Forall_impl; [|exact Hb]. intros z (Hz & Hzu). unfold in_range, cmin, cmax. change (sg (cumprod_fmt f n)) with (sg f).
    assert (PE: 0 < 2^E) by (apply pow2_pos; lia).
    destruct (sg f) eqn:Es.
    - assert (Hs1: s = 1) by (unfold s, sbit; rewrite Es; reflexivity).
      assert (2^E <= 2^(nw (cumprod_fmt f n) - 2)) by (apply pow2_le; lia).
      assert (E2: 2^(nw (cumprod_fmt f n) - 1) = 2 * 2^(nw (cumprod_fmt f n) - 2)).
      { replace (nw (cumprod_fmt f n) - 2) with (nw (cumprod_fmt f n) - 1 - 1) by lia. apply pow2_double. lia. }
      lia.
    - assert (Hs0: s = 0) by (unfold s, sbit; rewrite Es; reflexivity).
      assert (2^E <= 2^(nw (cumprod_fmt f n))) by (apply pow2_le; lia). specialize (Hzu eq_refl). lia. }
  assert (Hw1: 1 <= nw (cumprod_fmt f n)) by nia.
  assert (E63: 2^53 < 2^63) by (apply pow2_lt; lia). assert (P53: 2^E <= 2^53) by (apply pow2_le; lia).
  assert (Hfinish: forall w, int_wres (cumprod_fmt f n) o zs w -> w_codes w = zs /\ w_ovf w = false /\ w_unf w = false).
  { intros w (Hc & Ho & Hu). rewrite Hc, Ho, Hu. repeat split.
    - apply map_fix. intros z Hz. rewrite Forall_forall in Hin. apply overflow_id; [exact Hw1|]. apply Hin. exact Hz.
    - apply existsb_false. eapply Forall_impl; [|exact Hin]. intros z Hz. unfold in_range in Hz. lia.
    - apply existsb_false. eapply Forall_impl; [|exact Hin]. intros z Hz. unfold in_range in Hz. lia. }
  unfold cp_kind. destruct (sg f) eqn:Es; cbn [arr_of_kind fst snd].
  - destruct (set_val_raw_i64 (cumprod_fmt f n) r o zs Hw1) as (w & Hsw & Hiw).
    { eapply Forall_impl; [|exact Hb]. intros z (Hz & _). lia. }
    rewrite Hsw. cbn [bind]. exists w. split; [reflexivity|]. apply Hfinish. exact Hiw.
  - (* an unsigned cumprod travels as float64: exact below 2^53, except that a code equal to 2^E = 2^53 is excluded by strictness *)
    destruct (set_val_raw_f64 (cumprod_fmt f n) r o zs ltac:(lia)) as (w & Hsw & Hiw).
    { eapply Forall_impl; [|exact Hb]. intros z (_ & Hzu). specialize (Hzu eq_refl). lia. }
    rewrite Hsw. cbn [bind]. exists w. split; [reflexivity|]. apply Hfinish. exact Hiw.
Qed.
