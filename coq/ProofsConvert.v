(* ProofsConvert.v — C10: every conversion route = quantization of the exact source value
   into the destination format; chains by induction. *)
From Coq Require Import ZArith List Bool Lia ZifyBool.
From FxpVerif Require Import Spec NP Store ProofsCore ProofsStore Convert.
Import ListNotations.
Open Scope Z_scope.
Ltac Zify.zify_post_hook ::= Z.to_euclidean_division_equations.

Definition conv_spec (fs fd : fmt) (r : rmode) (o : omode) (c : Z) : Z := quantize fd r o (val_of_code fs c).

(* raw float element: rounding then overflow, no scaling *)
Lemma elem_pipe_raw_float f r o m e : 1 <= nw f <= 52 -> Z.abs m < 2^53 -> -1074 <= e < 0 ->
  exists ia, elem_pipe f r o true false (NF (Fin m e)) =
    Ok {| e_code := overflow o f (round_dy r {| dm := m; de := e |});
          e_gt := cmax f <? round_dy r {| dm := m; de := e |};
          e_lt := round_dy r {| dm := m; de := e |} <? cmin f; e_inacc := ia |}.
Proof.
  intros Hw Hm He. unfold elem_pipe. cbn [negb scale_elem bind round_elem np_round].
  set (q := round_dy r {| dm := m; de := e |}).
  assert (Hq: - 2^63 < q < 2^63).
  { pose proof (round_dy_bound r m (- e) ltac:(lia)) as Hb. replace (- - e) with e in Hb by lia. fold q in Hb.
    assert (2^53 < 2^62) by (apply pow2_lt; lia). assert (2^62 < 2^63) by (apply pow2_lt; lia). lia. }
  rewrite overflow_elem_float by assumption. cbn [bind].
  rewrite elem_gt_rounded, elem_lt_rounded by exact Hw. eexists. reflexivity.
Qed.
Lemma elem_pipe_raw_int f r o z : 1 <= nw f <= 52 ->
  exists ia, elem_pipe f r o true false (NI z) =
    Ok {| e_code := overflow o f z; e_gt := cmax f <? z; e_lt := z <? cmin f; e_inacc := ia |}.
Proof.
  intros Hw. unfold elem_pipe. cbn [negb scale_elem bind round_elem].
  rewrite overflow_elem_int by exact Hw. cbn [bind elem_gt elem_lt]. eexists. reflexivity.
Qed.
Lemma elem_pipe_raw_obj_int f r o z : 1 <= nw f ->
  exists ia, elem_pipe f r o true true (NI z) =
    Ok {| e_code := overflow o f z; e_gt := cmax f <? z; e_lt := z <? cmin f; e_inacc := ia |}.
Proof.
  intros Hw. unfold elem_pipe. cbn [negb scale_elem bind round_elem].
  assert (Ho: overflow_elem f o true (NI z) = Ok (overflow o f z)).
  { unfold overflow_elem, elem_gt, elem_lt.
    pose proof (range_width f Hw) as Hrw. assert (0 < 2^(nw f)) by (apply pow2_pos; lia).
    destruct o; cbn [overflow].
    - unfold sat. destruct (cmax f <? z) eqn:E1; [f_equal; lia|].
      destruct (z <? cmin f) eqn:E2; [f_equal; lia|]. cbn [elem_to_int num_int]. f_equal. lia.
    - rewrite orb_true_r. cbn [elem_to_int num_int bind]. f_equal. apply wrap_model_res. lia. }
  rewrite Ho. cbn [bind elem_gt elem_lt]. eexists. reflexivity.
Qed.

(* generic assembly: an element-wise characterisation gives the array result *)
Lemma mapM_char {A} (k : A -> outcome eres) (code : A -> Z) (gt lt : A -> bool) xs :
  (forall x, In x xs -> exists ia, k x = Ok {| e_code := code x; e_gt := gt x; e_lt := lt x; e_inacc := ia |}) ->
  exists rs, mapM k xs = Ok rs /\ map e_code rs = map code xs /\
             existsb e_gt rs = existsb gt xs /\ existsb e_lt rs = existsb lt xs.
Proof.
  induction xs as [|x xs IH]; intros H.
  - exists []. cbn. auto.
  - destruct (H x (or_introl eq_refl)) as (ia & Hx).
    destruct IH as (rs & Hrs & Hc & Hg & Hl). { intros y Hy. apply H. right. exact Hy. }
    eexists. cbn [mapM]. rewrite Hx. cbn [bind]. rewrite Hrs. cbn [bind]. split; [reflexivity|].
    cbn [map existsb e_code e_gt e_lt]. rewrite Hc, Hg, Hl. auto.
Qed.

Lemma existsb_ext {A} (p q : A -> bool) l : (forall x, p x = q x) -> existsb p l = existsb q l.
Proof. intros H. induction l as [|a l IH]; [reflexivity|]. cbn [existsb]. rewrite H, IH. reflexivity. Qed.

Definition core_fmt_pair (fs fd : fmt) : Prop := core_fmt fs /\ core_fmt fd.

Lemma src_code_bound fs c : core_fmt fs -> in_range fs c -> Z.abs c < 2^52.
Proof.
  intros (Hw & _) Hr. unfold in_range, cmin, cmax in Hr.
  assert (2^(nw fs - 1) <= 2^51) by (apply pow2_le; lia).
  assert (2^(nw fs) <= 2^52) by (apply pow2_le; lia). assert (2^52 = 2 * 2^51) by reflexivity.
  assert (0 < 2^(nw fs - 1)) by (apply pow2_pos; lia).
  destruct (sg fs); lia.
Qed.

(* the main conversion theorem, for every route class and every value type of the source (integers of
   more than 53 bits are never cast to a float value type: set_val switches to Python integers) *)
Lemma obj_path_AI64_float_big f l : existsb (fun z => 2^53 <=? Z.abs z) l = true -> obj_path f true (AI64 l) VFloat = true.
Proof.
  intros H. unfold obj_path, conv_factor_int. cbn [arr_is_int vdt_is_int negb andb]. rewrite absmax_AI64, H.
  rewrite !orb_true_r. reflexivity.
Qed.
Lemma obj_path_AObj_big f l vd : existsb (fun z => 2^63 <=? Z.abs z) l = true -> obj_path f true (AObj (map NI l)) vd = true.
Proof.
  intros H. unfold obj_path, conv_factor_int.
  assert (Hi: arr_is_int (AObj (map NI l)) = true).
  { cbn [arr_is_int]. rewrite forallb_forall. intros x Hx. apply in_map_iff in Hx. destruct Hx as (z & <- & _). reflexivity. }
  rewrite Hi. cbn [andb].
  assert (He: existsb (fun x => 2^63 <=? num_abs_int x * 1) (map NI l) = true).
  { rewrite existsb_map. apply existsb_exists in H. destruct H as (z & Hin & Hz). apply existsb_exists. exists z. split; [exact Hin|].
    unfold num_abs_int. cbn [num_int]. lia. }
  rewrite He. rewrite !orb_true_r. reflexivity.
Qed.

Theorem convert_core rt fs fd r o codes :
  core_fmt fs -> core_fmt fd -> Forall (in_range fs) codes ->
  exists w, convert rt fs codes fd r o = Ok w /\
    w_codes w = map (conv_spec fs fd r o) codes /\
    w_ovf w = existsb (fun c => ovf_cond fd r (val_of_code fs c)) codes /\
    w_unf w = existsb (fun c => unf_cond fd r (val_of_code fs c)) codes.
Proof.
  intros Hfs Hfd Hr. unfold convert. set (shift := nf fd - nf fs) in *.
  assert (Hb: Forall (fun c => Z.abs c < 2^52) codes).
  { eapply Forall_impl; [|exact Hr]. intros c Hc. apply (src_code_bound fs c Hfs Hc). }
  assert (Hshift: -68 <= shift <= 68) by (unfold shift; destruct Hfs as (? & ?), Hfd as (? & ?); lia).
  pose proof Hfd as (Hwd & Hfrd).
  (* the scaled-dyadic of a source code, as the destination sees it *)
  assert (Hsc: forall c, dy_scale (nf fd) (val_of_code fs c) = {| dm := c; de := shift |}).
  { intros c. unfold dy_scale, val_of_code. cbn [dm de]. f_equal. unfold shift. lia. }
  unfold conv_spec, quantize, ovf_cond, unf_cond. unfold scale_raw.
  destruct (0 <? shift) eqn:Epos.
  - (* positive shift *)
    assert (Hrd: forall c, round_dy r {| dm := c; de := shift |} = c * 2^shift) by (intros; apply round_dy_int; lia).
    destruct (existsb (fun c => 2^63 <=? Z.abs c * 2^shift) codes) eqn:Ebig.
    + (* Python integers *)
      assert (Hobj: obj_path fd true (AObj (map (fun c => NI (c * 2^shift)) codes)) (conv_vdt rt shift) = true).
      { change (map (fun c => NI (c * 2^shift)) codes) with (map (fun c => NI ((fun c => c * 2^shift) c)) codes).
        rewrite <- (map_map (fun c => c * 2^shift) NI). apply obj_path_AObj_big. rewrite existsb_map.
        apply existsb_exists in Ebig. destruct Ebig as (c & Hin & Hc). apply existsb_exists. exists c. split; [exact Hin|].
        rewrite Z.abs_mul, (Z.abs_eq (2^shift)) by (apply Z.pow_nonneg; lia). lia. }
      rewrite (set_val_real_eq _ _ _ _ _ _ _ Hobj (exact_factor_raw _ _)). cbn [arr_nums bind].
      destruct (mapM_char (elem_pipe fd r o true true) (fun x => overflow o fd (match x with NI z => z | _ => 0 end))
                 (fun x => cmax fd <? (match x with NI z => z | _ => 0 end)) (fun x => (match x with NI z => z | _ => 0 end) <? cmin fd)
                 (map (fun c => NI (c * 2^shift)) codes)) as (rs & Hrs & Hc & Hg & Hl).
      { intros x Hx. apply in_map_iff in Hx. destruct Hx as (c & <- & _). apply elem_pipe_raw_obj_int. lia. }
      rewrite Hrs. cbn [bind]. eexists. split; [reflexivity|]. cbn [w_codes w_ovf w_unf].
      rewrite Hc, Hg, Hl, ?map_map, ?existsb_map. repeat split.
      * apply map_ext. intros c. rewrite Hsc, Hrd. reflexivity.
      * apply existsb_ext; intros c; rewrite Hsc, Hrd; reflexivity.
      * apply existsb_ext; intros c; rewrite Hsc, Hrd; reflexivity.
    + (* int64, no wrap *)
      assert (Hsmall: Forall (fun c => Z.abs c * 2^shift < 2^63) codes).
      { apply Forall_forall. intros c Hin. destruct (2^63 <=? Z.abs c * 2^shift) eqn:E; [|lia].
        exfalso. assert (existsb (fun c => 2^63 <=? Z.abs c * 2^shift) codes = true) by (apply existsb_exists; exists c; auto). congruence. }
      set (xs := map (fun c => c * 2^shift) codes).
      assert (2^63 < 2^64) by (apply pow2_lt; lia).
      assert (Hxs: Forall (fun z => Z.abs z < 2^63) xs).
      { unfold xs. rewrite Forall_map. eapply Forall_impl; [|exact Hsmall]. intros c Hc. cbv beta in *.
        rewrite Z.abs_mul, (Z.abs_eq (2^shift)) by (apply Z.pow_nonneg; lia). lia. }
      assert (Hold: existsb num_big64 (map NI xs) || (64 <=? nw fd) ||
                    match conv_factor_int fd true with Some k => (2^63 <=? k) || existsb (fun z => 2^63 <=? Z.abs z * k) xs | None => false end = false).
      { unfold conv_factor_int. rewrite existsb_map.
        replace (64 <=? nw fd) with false by lia. replace (2^63 <=? 1) with false by reflexivity. cbn [orb].
        rewrite existsb_false, existsb_false; [reflexivity| |].
        - eapply Forall_impl; [|exact Hxs]. intros z Hz. cbv beta in *. lia.
        - eapply Forall_impl; [|exact Hxs]. intros z Hz. cbv beta in *. unfold num_big64. lia. }
      destruct (conv_vdt rt shift) eqn:Evd.
      * (* cast to int: identity *)
        assert (Hobj: obj_path fd true (AI64 xs) VInt = false).
        { rewrite obj_path_AI64_int, exact_factor_raw, Hold. reflexivity. }
        rewrite (set_val_real_eq _ _ _ _ _ _ _ Hobj (exact_factor_raw _ _)).
        cbn [astype_vd bind].
        destruct (mapM_char (elem_pipe fd r o true false) (fun x => overflow o fd (match x with NI z => z | _ => 0 end))
                   (fun x => cmax fd <? (match x with NI z => z | _ => 0 end)) (fun x => (match x with NI z => z | _ => 0 end) <? cmin fd)
                   (map NI xs)) as (rs & Hrs & Hc & Hg & Hl).
        { intros x Hx. apply in_map_iff in Hx. destruct Hx as (z & <- & _). apply elem_pipe_raw_int. lia. }
        rewrite Hrs. cbn [bind]. eexists. split; [reflexivity|]. cbn [w_codes w_ovf w_unf].
        rewrite Hc, Hg, Hl. unfold xs. rewrite ?map_map, ?existsb_map. repeat split.
        -- apply map_ext. intros c. rewrite Hsc, Hrd. reflexivity.
        -- apply existsb_ext; intros c; rewrite Hsc, Hrd; reflexivity.
        -- apply existsb_ext; intros c; rewrite Hsc, Hrd; reflexivity.
      * (* a float value type *)
        destruct (existsb (fun z => 2^53 <=? Z.abs z) xs) eqn:E53.
        { (* some rescaled code has more than 53 bits: Python integers, nothing is cast to float *)
          pose proof (obj_path_AI64_float_big fd xs E53) as Hobj.
          rewrite (set_val_real_eq _ _ _ _ _ _ _ Hobj (exact_factor_raw _ _)). cbn [arr_nums bind].
          destruct (mapM_char (elem_pipe fd r o true true) (fun x => overflow o fd (match x with NI z => z | _ => 0 end))
                     (fun x => cmax fd <? (match x with NI z => z | _ => 0 end)) (fun x => (match x with NI z => z | _ => 0 end) <? cmin fd)
                     (map NI xs)) as (rs & Hrs & Hc & Hg & Hl).
          { intros x Hx. apply in_map_iff in Hx. destruct Hx as (z & <- & _). apply elem_pipe_raw_obj_int. lia. }
          rewrite Hrs. cbn [bind]. eexists. split; [reflexivity|]. cbn [w_codes w_ovf w_unf].
          rewrite Hc, Hg, Hl. unfold xs. rewrite ?map_map, ?existsb_map. repeat split.
          - apply map_ext. intros c. rewrite Hsc, Hrd. reflexivity.
          - apply existsb_ext; intros c; rewrite Hsc, Hrd; reflexivity.
          - apply existsb_ext; intros c; rewrite Hsc, Hrd; reflexivity. }
        (* all rescaled codes below 2^53: the cast to float is exact *)
        assert (Hvd: Forall (fun c => Z.abs c * 2^shift < 2^53) codes).
        { apply Forall_forall. intros c Hin. destruct (2^53 <=? Z.abs c * 2^shift) eqn:E; [|lia]. exfalso.
          assert (existsb (fun z => 2^53 <=? Z.abs z) xs = true).
          { unfold xs. rewrite existsb_map. apply existsb_exists. exists c. split; [exact Hin|].
            rewrite Z.abs_mul, (Z.abs_eq (2^shift)) by (apply Z.pow_nonneg; lia). exact E. }
          congruence. }
        assert (Hobj: obj_path fd true (AI64 xs) VFloat = false).
        { rewrite (obj_path_AI64_small _ _ _ _ E53), Hold. reflexivity. }
        rewrite (set_val_real_eq _ _ _ _ _ _ _ Hobj (exact_factor_raw _ _)).
        cbn [astype_vd bind].
        destruct (mapM_char (elem_pipe fd r o true false) (fun x => overflow o fd (match x with NF (Fin z _) => z | _ => 0 end))
                   (fun x => cmax fd <? (match x with NF (Fin z _) => z | _ => 0 end)) (fun x => (match x with NF (Fin z _) => z | _ => 0 end) <? cmin fd)
                   (map (fun z => NF (Fin z 0)) xs)) as (rs & Hrs & Hc & Hg & Hl).
        { intros x Hx. apply in_map_iff in Hx. destruct Hx as (z & <- & Hz).
          unfold xs in Hz. apply in_map_iff in Hz. destruct Hz as (c & <- & Hcin).
          rewrite Forall_forall in Hvd. specialize (Hvd c Hcin). cbv beta in Hvd.
          assert (Hzb: Z.abs (c * 2^shift) < 2^53) by (rewrite Z.abs_mul, (Z.abs_eq (2^shift)) by (apply Z.pow_nonneg; lia); lia).
          unfold elem_pipe. cbn [negb scale_elem bind round_elem np_round].
          rewrite round_dy_int by lia. rewrite Z.pow_0_r, Z.mul_1_r.
          assert (2^53 < 2^63) by (apply pow2_lt; lia).
          rewrite overflow_elem_float by (try exact Hwd; lia). cbn [bind].
          rewrite elem_gt_rounded, elem_lt_rounded by exact Hwd. eexists. reflexivity. }
        assert (Hcast: map (fun z => NF (f64_of_Z z)) xs = map (fun z => NF (Fin z 0)) xs).
        { apply map_ext_in. intros z Hz. unfold xs in Hz. apply in_map_iff in Hz. destruct Hz as (c & <- & Hcin).
          rewrite Forall_forall in Hvd. specialize (Hvd c Hcin). cbv beta in Hvd.
          rewrite f64_of_Z_exact; [reflexivity|]. rewrite Z.abs_mul, (Z.abs_eq (2^shift)) by (apply Z.pow_nonneg; lia). lia. }
        rewrite Hcast, Hrs. cbn [bind]. eexists. split; [reflexivity|]. cbn [w_codes w_ovf w_unf].
        rewrite Hc, Hg, Hl. unfold xs. rewrite ?map_map, ?existsb_map. repeat split.
        -- apply map_ext. intros c. rewrite Hsc, Hrd. reflexivity.
        -- apply existsb_ext; intros c; rewrite Hsc, Hrd; reflexivity.
        -- apply existsb_ext; intros c; rewrite Hsc, Hrd; reflexivity.
  - destruct (shift =? 0) eqn:Ez.
    + (* same fraction length: the codes themselves *)
      assert (Hrd: forall c, round_dy r {| dm := c; de := shift |} = c).
      { intros c. rewrite round_dy_int by lia. replace shift with 0 by lia. rewrite Z.pow_0_r. lia. }
      assert (2^52 < 2^53) by (apply pow2_lt; lia). assert (2^52 < 2^63) by (apply pow2_lt; lia). assert (2^63 < 2^64) by (apply pow2_lt; lia).
      assert (E53: existsb (fun z => 2^53 <=? Z.abs z) codes = false).
      { apply absmax_small_ints. eapply Forall_impl; [|exact Hb]. intros c Hc. cbv beta in *. lia. }
      assert (Hobj: obj_path fd true (AI64 codes) (conv_vdt rt shift) = false).
      { rewrite (obj_path_AI64_small _ _ _ _ E53). unfold conv_factor_int. rewrite existsb_map.
        replace (64 <=? nw fd) with false by lia. replace (2^63 <=? 1) with false by reflexivity. cbn [orb].
        rewrite existsb_false, existsb_false; [reflexivity| |].
        - eapply Forall_impl; [|exact Hb]. intros c Hc. cbv beta in *. lia.
        - eapply Forall_impl; [|exact Hb]. intros c Hc. cbv beta in *. unfold num_big64. lia. }
      rewrite (set_val_real_eq _ _ _ _ _ _ _ Hobj (exact_factor_raw _ _)).
      destruct (conv_vdt rt shift) eqn:Evd.
      * cbn [astype_vd bind].
        destruct (mapM_char (elem_pipe fd r o true false) (fun x => overflow o fd (match x with NI z => z | _ => 0 end))
                   (fun x => cmax fd <? (match x with NI z => z | _ => 0 end)) (fun x => (match x with NI z => z | _ => 0 end) <? cmin fd)
                   (map NI codes)) as (rs & Hrs & Hc & Hg & Hl).
        { intros x Hx. apply in_map_iff in Hx. destruct Hx as (z & <- & _). apply elem_pipe_raw_int. lia. }
        rewrite Hrs. cbn [bind]. eexists. split; [reflexivity|]. cbn [w_codes w_ovf w_unf].
        rewrite Hc, Hg, Hl, ?map_map, ?existsb_map. repeat split.
        -- apply map_ext. intros c. rewrite Hsc, Hrd. reflexivity.
        -- apply existsb_ext; intros c; rewrite Hsc, Hrd; reflexivity.
        -- apply existsb_ext; intros c; rewrite Hsc, Hrd; reflexivity.
      * cbn [astype_vd bind].
        assert (Hcast: map (fun z => NF (f64_of_Z z)) codes = map (fun z => NF (Fin z 0)) codes).
        { apply map_ext_in. intros z Hz. rewrite Forall_forall in Hb. specialize (Hb z Hz). cbv beta in Hb.
          rewrite f64_of_Z_exact; [reflexivity|lia]. }
        rewrite Hcast.
        destruct (mapM_char (elem_pipe fd r o true false) (fun x => overflow o fd (match x with NF (Fin z _) => z | _ => 0 end))
                   (fun x => cmax fd <? (match x with NF (Fin z _) => z | _ => 0 end)) (fun x => (match x with NF (Fin z _) => z | _ => 0 end) <? cmin fd)
                   (map (fun z => NF (Fin z 0)) codes)) as (rs & Hrs & Hc & Hg & Hl).
        { intros x Hx. apply in_map_iff in Hx. destruct Hx as (z & <- & Hz).
          rewrite Forall_forall in Hb. specialize (Hb z Hz). cbv beta in Hb.
          unfold elem_pipe. cbn [negb scale_elem bind round_elem np_round].
          rewrite round_dy_int by lia. rewrite Z.pow_0_r, Z.mul_1_r.
          rewrite overflow_elem_float by (try exact Hwd; lia). cbn [bind].
          rewrite elem_gt_rounded, elem_lt_rounded by exact Hwd. eexists. reflexivity. }
        rewrite Hrs. cbn [bind]. eexists. split; [reflexivity|]. cbn [w_codes w_ovf w_unf].
        rewrite Hc, Hg, Hl, ?map_map, ?existsb_map. repeat split.
        -- apply map_ext. intros c. rewrite Hsc, Hrd. reflexivity.
        -- apply existsb_ext; intros c; rewrite Hsc, Hrd; reflexivity.
        -- apply existsb_ext; intros c; rewrite Hsc, Hrd; reflexivity.
    + (* fewer fraction bits: float64 raw values, rounded by the destination's mode *)
      assert (Hneg: shift < 0) by lia.
      assert (2^52 < 2^53) by (apply pow2_lt; lia).
      assert (E53: existsb (fun c => 2^53 <=? Z.abs c) codes = false).
      { apply absmax_small_ints. eapply Forall_impl; [|exact Hb]. intros c Hc. cbv beta in *. lia. }
      rewrite E53.
      assert (Hvals: map (fun c => f64_mul_pow2 (f64_of_Z c) shift) codes = map (fun c => Fin c shift) codes).
      { apply map_ext_in. intros c Hc. rewrite Forall_forall in Hb. specialize (Hb c Hc). cbv beta in Hb.
        rewrite f64_of_Z_exact by lia. cbn [f64_mul_pow2]. replace (0 + shift) with shift by lia.
        apply rnd64_exact. pose proof (bitlen_le c 53 ltac:(lia) ltac:(lia)). pose proof (bitlen_nonneg c). unfold fits53. lia. }
      rewrite Hvals.
      assert (Evd: conv_vdt rt shift = VFloat) by (unfold conv_vdt; replace (shift <? 0) with true by lia; reflexivity).
      rewrite Evd.
      assert (Hobj: obj_path fd true (AF64 (map (fun c => Fin c shift) codes)) VFloat = false).
      { rewrite obj_path_AF64. rewrite map_map, existsb_map.
        replace (64 <=? nw fd) with false by lia. rewrite !orb_false_r.
        apply existsb_false. eapply Forall_impl; [|exact Hb]. intros c Hc. cbv beta in *.
        unfold num_big64, f64_floor_Z. replace (0 <=? shift) with false by lia.
        assert (0 < 2^(- shift)) by (apply pow2_pos; lia). assert (2^53 < 2^64) by (apply pow2_lt; lia). nia. }
      rewrite (set_val_real_eq _ _ _ _ _ _ _ Hobj (exact_factor_raw _ _)). cbn [astype_vd bind]. rewrite map_map.
      destruct (mapM_char (elem_pipe fd r o true false)
                 (fun x => overflow o fd (round_dy r (match x with NF (Fin m e) => {| dm := m; de := e |} | _ => {| dm := 0; de := 0 |} end)))
                 (fun x => cmax fd <? round_dy r (match x with NF (Fin m e) => {| dm := m; de := e |} | _ => {| dm := 0; de := 0 |} end))
                 (fun x => round_dy r (match x with NF (Fin m e) => {| dm := m; de := e |} | _ => {| dm := 0; de := 0 |} end) <? cmin fd)
                 (map (fun c => NF (Fin c shift)) codes)) as (rs & Hrs & Hc & Hg & Hl).
      { intros x Hx. apply in_map_iff in Hx. destruct Hx as (c & <- & Hcin).
        rewrite Forall_forall in Hb. specialize (Hb c Hcin). cbv beta in Hb.
        apply elem_pipe_raw_float; lia. }
      rewrite Hrs. cbn [bind]. eexists. split; [reflexivity|]. cbn [w_codes w_ovf w_unf].
      rewrite Hc, Hg, Hl, ?map_map, ?existsb_map. repeat split.
      * apply map_ext. intros c. rewrite Hsc. reflexivity.
      * apply existsb_ext; intros c; rewrite Hsc; reflexivity.
      * apply existsb_ext; intros c; rewrite Hsc; reflexivity.
Qed.

(* ---------- chains of conversions, any length ---------- *)
Fixpoint chain_spec (fs : fmt) (codes : list Z) (steps : list cstep) : fmt * list Z :=
  match steps with
  | [] => (fs, codes)
  | s :: t => chain_spec (cs_fmt s) (map (conv_spec fs (cs_fmt s) (cs_r s) (cs_o s)) codes) t
  end.
Fixpoint chain_ok (fs : fmt) (codes : list Z) (steps : list cstep) : Prop :=
  match steps with
  | [] => True
  | s :: t => core_fmt (cs_fmt s) /\
              chain_ok (cs_fmt s) (map (conv_spec fs (cs_fmt s) (cs_r s) (cs_o s)) codes) t
  end.

Lemma conv_spec_in_range fs fd r o codes : 1 <= nw fd -> Forall (in_range fd) (map (conv_spec fs fd r o) codes).
Proof. intros H. rewrite Forall_map. apply Forall_forall. intros c _. unfold conv_spec, quantize. apply overflow_in_range. exact H. Qed.

Theorem convert_chain_core steps : forall fs codes,
  core_fmt fs -> Forall (in_range fs) codes -> chain_ok fs codes steps ->
  convert_chain fs codes steps = Ok (chain_spec fs codes steps).
Proof.
  induction steps as [|s t IH]; intros fs codes Hfs Hr Hok; [reflexivity|].
  cbn [chain_ok] in Hok. destruct Hok as (Hfd & Hrest).
  cbn [convert_chain chain_spec].
  destruct (convert_core (cs_route s) fs (cs_fmt s) (cs_r s) (cs_o s) codes Hfs Hfd Hr) as (w & Hw & Hc & _).
  rewrite Hw. cbn [bind]. rewrite Hc. apply IH; [exact Hfd | | exact Hrest].
  apply conv_spec_in_range. destruct Hfd; lia.
Qed.

(* a representable value is preserved exactly by any conversion *)
Lemma conv_preserves fs fd r o c : 1 <= nw fd -> 
  (exists c', in_range fd c' /\ dy_eqb (val_of_code fd c') (val_of_code fs c) = true /\ nf fs <= nf fd /\ c' = c * 2^(nf fd - nf fs)) ->
  dy_eqb (val_of_code fd (conv_spec fs fd r o c)) (val_of_code fs c) = true.
Proof.
  intros Hn (c' & Hr & He & Hle & ->). unfold conv_spec, quantize.
  assert (Hs: dy_scale (nf fd) (val_of_code fs c) = {| dm := c; de := nf fd - nf fs |}).
  { unfold dy_scale, val_of_code. cbn [dm de]. f_equal. lia. }
  rewrite Hs, round_dy_int by lia. rewrite overflow_id by assumption. exact He.
Qed.
