(* Bitwise.v — model of ~ & | ^ (objects.py:1402-1474, utils.py:55-63 twos_complement_repr,
   387-412 binary_invert/and/or/xor): Python-integer bit operations on the n_word-bit images,
   re-signed for signed results, stored with set_val(raw=True) into a deep copy of x. *)
From Coq Require Import ZArith List Bool.
From FxpVerif Require Import Spec NP Store.
Import ListNotations.
Open Scope Z_scope.

(* utils.twos_complement_repr(val, nbits) *)
Definition twos_complement_repr (val n : Z) : Z :=
  if val <? 0 then 2^n + val
  else let v := val mod 2^n in if Z.land v (2^(n - 1)) =? 0 then v else v - 2^n.

Inductive bop := BAnd | BOr | BXor.
Definition z_bop (b : bop) (x y : Z) : Z := match b with BAnd => Z.land x y | BOr => Z.lor x y | BXor => Z.lxor x y end.

(* utils.binary_and/or/xor: (int(x) % 2^n) op (int(y) % 2^n) *)
Definition binary_op (b : bop) (x y n : Z) : Z := z_bop b (x mod 2^n) (y mod 2^n).
(* utils.binary_invert: (1 << n) - 1 - x *)
Definition binary_invert (x n : Z) : Z := 2^n - 1 - x.

(* the raw value handed to set_val by x <op> y  (y an Fxp code or an integer mask) *)
Definition bitwise_raw (b : bop) (fx : fmt) (cx cy : Z) : Z :=
  let v := binary_op b cx cy (nw fx) in if sg fx then twos_complement_repr v (nw fx) else v.
Definition invert_raw (fx : fmt) (cx : Z) : Z :=
  let v := binary_invert cx (nw fx) in if sg fx then twos_complement_repr v (nw fx) else v.

(* storage array for a single raw integer of format f (int64 / uint64 / object by word length) *)
Definition raw_arr (f : fmt) (z : Z) : arr :=
  if 64 <=? nw f then AObj [NI z] else if fits_i64 z then AI64 [z] else AObj [NI z].

(* x <op> y: word lengths must agree for two Fxp operands (ValueError otherwise) *)
Definition fxp_bitwise (b : bop) (fx : fmt) (cx : Z) (y_is_fxp : bool) (nwy cy : Z) (r : rmode) (o : omode) : outcome wres :=
  if y_is_fxp && negb (nw fx =? nwy) then Exc ValueError
  else set_val_real fx r o true (raw_arr fx (bitwise_raw b fx cx cy)) VInt.
Definition fxp_invert (fx : fmt) (cx : Z) (r : rmode) (o : omode) : outcome wres :=
  set_val_real fx r o true (raw_arr fx (invert_raw fx cx)) VInt.

(* ---- arrays of codes (fix b8389df: two array operands are paired element by element, broadcast like NumPy arrays) ---- *)
(* storage array for a list of raw integers of format f *)
Definition raw_arr_list (f : fmt) (zs : list Z) : arr :=
  if (64 <=? nw f) || negb (forallb fits_i64 zs) then AObj (map NI zs) else AI64 zs.
(* np.broadcast_arrays on two 1-D operands: equal lengths, or one of them a single element *)
Definition pair_codes (xs ys : list Z) : option (list (Z * Z)) :=
  if Nat.eqb (length xs) (length ys) then Some (combine xs ys)
  else match xs, ys with
       | [x], _ => Some (map (fun y => (x, y)) ys)
       | _, [y] => Some (map (fun x => (x, y)) xs)
       | _, _ => None end.
Definition fxp_bitwise_arr (b : bop) (fx : fmt) (cxs : list Z) (y_is_fxp : bool) (nwy : Z) (cys : list Z) (r : rmode) (o : omode)
  : outcome wres :=
  if y_is_fxp && negb (nw fx =? nwy) then Exc ValueError
  else match pair_codes cxs cys with
       | Some ps => set_val_real fx r o true (raw_arr_list fx (map (fun p => bitwise_raw b fx (fst p) (snd p)) ps)) VInt
       | None => Exc ValueError end.
Definition fxp_invert_arr (fx : fmt) (cxs : list Z) (r : rmode) (o : omode) : outcome wres :=
  set_val_real fx r o true (raw_arr_list fx (map (invert_raw fx) cxs)) VInt.
