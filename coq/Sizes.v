(* Sizes.v — model of size inference (objects.py: _init_size 354-385, set_best_sizes 505-595)
   on exact dyadic inputs (every float operation of the search is exact for the dyadic inputs
   of C06's domain: k/2^f with f <= 20, |k| < 2^40).  Both loops carry explicit fuel. *)
From Coq Require Import ZArith List Bool.
From FxpVerif Require Import Spec NP Store.
Import ListNotations.
Open Scope Z_scope.

(* fractional part r = v mod 1 as a dyadic in [0, 1) *)
Definition dy_frac (v : dy) : dy :=
  if 0 <=? de v then {| dm := 0; de := 0 |} else {| dm := dm v mod 2^(- de v); de := de v |}.
Definition dy_is_zero (v : dy) : bool := dm v =? 0.

(* the n_frac search for one value: e = 1.0; n = 0;
   while e > max_error and n <= max_n_frac and r > 0: n += 1; r_i = r - 0.5**n; e = |r_i|; if r_i >= 0: r = r_i *)
Fixpoint frac_loop (fuel : nat) (max_n : Z) (r : dy) (n : Z) (e_pos : bool) : option Z :=
  match fuel with
  | O => None
  | S f =>
      if e_pos && (n <=? max_n) && negb (dy_is_zero r) then
        let n' := n + 1 in
        let ri := dy_sub r {| dm := 1; de := - n' |} in
        let r' := if 0 <=? dm ri then ri else r in
        frac_loop f max_n r' n' (negb (dm ri =? 0))
      else Some n
  end.
Definition frac_bits (max_n : Z) (v : dy) : option Z := frac_loop 200 max_n (dy_frac v) 0 true.

(* the n_int search: n_int = 0; while n_int < cap: if (vmax >> n_int) + [vmax<0] == (vmin >> n_int) + [vmin<0] == 0: break; n_int += 1 *)
Definition msb (x i : Z) : Z := Z.shiftr x i + (if x <? 0 then 1 else 0).
Fixpoint int_loop (fuel : nat) (cap vmax vmin i : Z) : option Z :=
  match fuel with
  | O => None
  | S f => if i <? cap then (if (msb vmax i =? 0) && (msb vmin i =? 0) then Some i else int_loop f cap vmax vmin (i + 1)) else Some i
  end.

(* int(x * (1 << n_frac)) : truncation toward zero of the scaled value *)
Definition scaled_trunc (v : dy) (nfr : Z) : Z :=
  let e := de v + nfr in if 0 <=? e then dm v * 2^e else Z.quot (dm v) (2^(- e)).

Definition dy_max (l : list dy) : dy := fold_right (fun a b => if dy_leb b a then a else b) (hd {| dm := 0; de := 0 |} l) l.
Definition dy_min (l : list dy) : dy := fold_right (fun a b => if dy_leb a b then a else b) (hd {| dm := 0; de := 0 |} l) l.

Fixpoint omapM {A B} (k : A -> option B) (l : list A) : option (list B) :=
  match l with [] => Some [] | a :: t => match k a, omapM k t with Some b, Some bs => Some (b :: bs) | _, _ => None end end.

(* set_best_sizes for a non-None value: returns (n_word, n_frac) *)
Definition best_sizes (signed : bool) (n_word n_frac : option Z) (n_word_max : Z) (vals : list dy) : outcome (Z * Z) :=
  let sign := if signed then 1 else 0 in
  bind (match n_frac with
        | Some f => Ok f
        | None => match omapM (frac_bits (n_word_max - sign)) vals with
                  | Some ns => Ok (fold_right Z.max 0 ns)
                  | None => Unmodelled end
        end) (fun nfr =>
  (* a negative fraction length (given by the caller): the values are divided by 2^-n_frac, truncated like the products *)
  let vmax := scaled_trunc (dy_max vals) nfr in
  let vmin := scaled_trunc (dy_min vals) nfr in
  match int_loop 400 (n_word_max - sign + nfr) vmax vmin 0 with      (* while n_int < n_word_max - sign + n_frac: at most n_word_max - sign bits of integer part *)
  | None => Unmodelled
  | Some ni0 =>
      let ni := Z.max (ni0 - nfr) 0 in
      match n_word with
      | None => let nfr' := Z.min (n_word_max - sign - ni) nfr in Ok (Z.min (nfr' + ni + sign) n_word_max, nfr')
      | Some w => Ok (Z.min w n_word_max, Z.min (w - sign - ni) nfr)
      end
  end).

(* _init_size: reconciliation when n_int is given, then inference or plain resize *)
Definition init_size (signed : option bool) (n_word n_frac n_int : option Z) (n_word_max : Z) (vals : option (list dy)) : outcome (bool * Z * Z) :=
  let s := match signed with Some b => b | None => true end in
  let sign := if s then 1 else 0 in
  let n_word := match n_word, n_frac, n_int with None, Some f, Some i => Some (i + f + sign) | _, _, _ => n_word end in
  let n_frac := match n_frac, n_word, n_int with None, Some w, Some i => Some (w - i - sign) | _, _, _ => n_frac end in
  match n_word, n_frac with
  | Some w, Some f => Ok (s, w, f)
  | _, _ =>
      match vals with
      | None => Ok (match n_word, n_frac with
                    | None, None => (s, 16, 15) | Some w, None => (s, Z.min w n_word_max, w - 1)
                    | None, Some f => (s, Z.min (f + 1) n_word_max, f) | Some w, Some f => (s, w, f) end)
      | Some vs => bind (best_sizes s n_word n_frac n_word_max vs) (fun p => Ok (s, fst p, snd p))
      end
  end.
