(* Reduce.v — model of the accumulating reductions (functions.py: sum 545-563, cumsum 565-583,
   cumprod 585-606, prod 696-716, dot 718-738, trace 673-694): growth rule of the result format,
   int64 accumulation of the raw codes, Fxp(val, raw=True). *)
From Coq Require Import ZArith List Bool.
From FxpVerif Require Import Spec NP Store Arith.
Import ListNotations.
Open Scope Z_scope.

(* formats: n_word grows by ceil(log2(count)) for sums, multiplies by the count for products *)
Definition sum_fmt (f : fmt) (count : Z) : fmt := {| sg := sg f; nw := clog2 count + nw f; nf := nf f |}.
Definition prod_fmt (f : fmt) (count : Z) : fmt := {| sg := sg f; nw := count * nw f; nf := count * nf f |}.
Definition dot_fmt (fx fy : fmt) (count : Z) : fmt :=
  {| sg := sg fx || sg fy; nw := clog2 count + nw fx + nw fy; nf := nf fx + nf fy |}.

(* np.sum / np.prod / np.cumsum / np.cumprod / np.dot on an int64 (or uint64) array: wraps *)
Definition acc_wrap (signed : bool) (z : Z) : Z := if signed then wrap_i64 z else wrap_u64 z.
Definition sum_i64 (signed : bool) (l : list Z) : Z := fold_left (fun a c => acc_wrap signed (a + c)) l 0.
Definition prod_i64 (signed : bool) (l : list Z) : Z := fold_left (fun a c => acc_wrap signed (a * c)) l 1.
Fixpoint scan_i64 (op : Z -> Z -> Z) (signed : bool) (acc : Z) (l : list Z) : list Z :=
  match l with [] => [] | c :: t => let a := acc_wrap signed (op acc c) in a :: scan_i64 op signed a t end.

Definition reduce_store (f : fmt) (r : rmode) (o : omode) (zs : list Z) : outcome wres :=
  set_val_real f r o true (if 64 <=? nw f then AObj (map NI zs) else AI64 zs) VInt.

(* functions._accum_cast (fix aaa3394): when the exact result may need 64 bits or more - the optimal result word - the raw
   arrays are cast to Python integers before the NumPy reduction, which is then exact *)
Definition sum_py (l : list Z) : Z := fold_left Z.add l 0.
Definition prod_py (l : list Z) : Z := fold_left Z.mul l 1.
Fixpoint scan_py (op : Z -> Z -> Z) (acc : Z) (l : list Z) : list Z :=
  match l with [] => [] | c :: t => let a := op acc c in a :: scan_py op a t end.

(* sum of one slice of `count_total`-sized x (x.size drives the growth whatever the axis) *)
Definition fxp_sum (f : fmt) (total : Z) (slice : list Z) (r : rmode) (o : omode) : outcome (fmt * wres) :=
  let fz := sum_fmt f total in
  bind (reduce_store fz r o [if 64 <=? nw fz then sum_py slice else sum_i64 (sg f) slice]) (fun w => Ok (fz, w)).
Definition fxp_cumsum (f : fmt) (total : Z) (slice : list Z) (r : rmode) (o : omode) : outcome (fmt * wres) :=
  let fz := sum_fmt f total in
  bind (reduce_store fz r o (if 64 <=? nw fz then scan_py Z.add 0 slice else scan_i64 Z.add (sg f) 0 slice)) (fun w => Ok (fz, w)).
Definition fxp_prod (f : fmt) (count : Z) (slice : list Z) (r : rmode) (o : omode) : outcome (fmt * wres) :=
  let fz := prod_fmt f count in
  bind (reduce_store fz r o [if 64 <=? nw fz then prod_py slice else prod_i64 (sg f) slice]) (fun w => Ok (fz, w)).
(* sum / prod of one slice INTO a caller-chosen format ft (out= / out_like= / a sizing policy): functions._function_over_one_var takes
   n_frac from the target, the raw function rescales the accumulated code by 2^(n_frac - result fraction bits) (functions._rescale_raw:
   exact rationals for a negative shift of a code of more than 53 bits, Python integers when the scaled code needs 64 bits) and the
   target stores it with set_val(raw=True) *)
Definition acc_mval (wide signed : bool) (z : Z) : mval := if wide then MO (NI z) else if signed then MI z else MU z.
Definition reduce_into (v : mval) (k : Z) (ft : fmt) (r : rmode) (o : omode) : outcome wres :=
  bind (rescale ((k <? 0) && int_mag_ge v (2^53)) (precision_cast (nf ft)) v k) (fun m =>
  bind (arr_of [m]) (fun av => set_val_real ft r o true (fst av) (snd av))).
Definition fxp_sum_into (f : fmt) (total : Z) (slice : list Z) (ft : fmt) (r : rmode) (o : omode) : outcome wres :=
  let wide := 64 <=? clog2 total + nw f in
  reduce_into (acc_mval wide (sg f) (if wide then sum_py slice else sum_i64 (sg f) slice)) (nf ft - nf f) ft r o.
Definition fxp_prod_into (f : fmt) (count : Z) (slice : list Z) (ft : fmt) (r : rmode) (o : omode) : outcome wres :=
  let wide := 64 <=? count * nw f in
  reduce_into (acc_mval wide (sg f) (if wide then prod_py slice else prod_i64 (sg f) slice)) (nf ft - count * nf f) ft r o.
(* dot of two vectors (one entry of a matrix product): sum of products *)
Definition fxp_dot (fx fy : fmt) (xs ys : list Z) (r : rmode) (o : omode) : outcome (fmt * wres) :=
  let fz := dot_fmt fx fy (Z.of_nat (length xs)) in
  let prods := map (fun p => fst p * snd p) (combine xs ys) in
  (* (Python integers also when an int64 and an uint64 operand would be promoted to float64 beyond its 53 bits: _raw_cast) *)
  let wide := (64 <=? nw fz) || (negb (Bool.eqb (sg fx) (sg fy)) && (53 <? nw fz)) in
  bind (reduce_store fz r o [if wide then sum_py prods else sum_i64 true prods]) (fun w => Ok (fz, w)).

(* cumprod (functions.py cumprod): the k-th running product has k * n_frac fraction bits; the result keeps
   n * n_frac of them, so the k-th raw product is multiplied by 2^((n - k) * n_frac).  The word: the larger of
   n * n_word and (two sign positions when signed) + the largest k * (n_word - sign) + (n - k) * n_frac, k in {1, n}. *)
Definition cumprod_fmt (f : fmt) (n : Z) : fmt :=
  let s := sbit f in
  {| sg := sg f;
     nw := Z.max (n * nw f) (2 * s + Z.max ((nw f - s) + n * nf f - nf f) (n * (nw f - s)));
     nf := n * nf f |}.
(* np.cumprod(x.val) (int64 / uint64, wrapping) times the array of conversion factors (an int64 array of Python
   integers: int64 * int64 wraps, uint64 * int64 is promoted to float64) *)
Fixpoint cumprod_codes (signed : bool) (nfr n k acc : Z) (l : list Z) : list mval :=
  match l with
  | [] => []
  | c :: t => let p := acc_wrap signed (acc * c) in
              let fct := 2^((n - k) * nfr) in
              (if signed then MI (wrap_i64 (p * fct)) else MF (f64_mul (f64_of_Z p) (f64_of_Z fct)))
              :: cumprod_codes signed nfr n (k + 1) p t
  end.
Definition fxp_cumprod (f : fmt) (l : list Z) (r : rmode) (o : omode) : outcome (fmt * wres) :=
  let n := Z.of_nat (length l) in let fz := cumprod_fmt f n in
  if (nf f <? 0) || (64 <=? nw fz) || (63 <=? (n - 1) * nf f) then Unmodelled    (* (object-array variants are not modelled) *)
  else bind (arr_of (cumprod_codes (sg f) (nf f) n 1 1 l)) (fun av =>
       bind (set_val_real fz r o true (fst av) (snd av)) (fun w => Ok (fz, w))).
