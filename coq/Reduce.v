(* Reduce.v — model of the accumulating reductions (functions.py: sum 545-563, cumsum 565-583,
   cumprod 585-606, prod 696-716, dot 718-738, trace 673-694): growth rule of the result format,
   int64 accumulation of the raw codes, Fxp(val, raw=True). *)
From Coq Require Import ZArith List Bool.
From FxpVerif Require Import Spec NP Store Arith.
Import ListNotations.
Open Scope Z_scope.

(* formats: n_word grows by ceil(log2(count)) for sums, multiplies by the count for products *)
Definition sum_fmt (f : fmt) (count : Z) : fmt := {| sg := sg f; nw := clog2 count + nw f; nf := nf f |}.
Definition prod_fmt (f : fmt) (count : Z) : fmt := {| sg := sg f; nw := count * nw f; nf := count * nf f |}.
Definition dot_fmt (fx fy : fmt) (count : Z) : fmt :=
  {| sg := sg fx || sg fy; nw := clog2 count + nw fx + nw fy; nf := nf fx + nf fy |}.

(* np.sum / np.prod / np.cumsum / np.cumprod / np.dot on an int64 (or uint64) array: wraps *)
Definition acc_wrap (signed : bool) (z : Z) : Z := if signed then wrap_i64 z else wrap_u64 z.
Definition sum_i64 (signed : bool) (l : list Z) : Z := fold_left (fun a c => acc_wrap signed (a + c)) l 0.
Definition prod_i64 (signed : bool) (l : list Z) : Z := fold_left (fun a c => acc_wrap signed (a * c)) l 1.
Fixpoint scan_i64 (op : Z -> Z -> Z) (signed : bool) (acc : Z) (l : list Z) : list Z :=
  match l with [] => [] | c :: t => let a := acc_wrap signed (op acc c) in a :: scan_i64 op signed a t end.

Definition reduce_store (f : fmt) (r : rmode) (o : omode) (zs : list Z) : outcome wres :=
  set_val_real f r o true (if 64 <=? nw f then AObj (map NI zs) else AI64 zs) VInt.

(* sum of one slice of `count_total`-sized x (x.size drives the growth whatever the axis) *)
Definition fxp_sum (f : fmt) (total : Z) (slice : list Z) (r : rmode) (o : omode) : outcome (fmt * wres) :=
  let fz := sum_fmt f total in bind (reduce_store fz r o [sum_i64 (sg f) slice]) (fun w => Ok (fz, w)).
Definition fxp_cumsum (f : fmt) (total : Z) (slice : list Z) (r : rmode) (o : omode) : outcome (fmt * wres) :=
  let fz := sum_fmt f total in bind (reduce_store fz r o (scan_i64 Z.add (sg f) 0 slice)) (fun w => Ok (fz, w)).
Definition fxp_prod (f : fmt) (count : Z) (slice : list Z) (r : rmode) (o : omode) : outcome (fmt * wres) :=
  let fz := prod_fmt f count in bind (reduce_store fz r o [prod_i64 (sg f) slice]) (fun w => Ok (fz, w)).
(* dot of two vectors (one entry of a matrix product): sum of products *)
Definition fxp_dot (fx fy : fmt) (xs ys : list Z) (r : rmode) (o : omode) : outcome (fmt * wres) :=
  let fz := dot_fmt fx fy (Z.of_nat (length xs)) in
  let prods := map (fun p => fst p * snd p) (combine xs ys) in
  bind (reduce_store fz r o [sum_i64 true prods]) (fun w => Ok (fz, w)).
