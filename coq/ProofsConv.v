(* ProofsConv.v — C16 / C17. *)
From Coq Require Import ZArith List Bool Lia ZifyBool.
From FxpVerif Require Import Spec NP Store ProofsCore ProofsStore Conv.
Import ListNotations.
Open Scope Z_scope.
Ltac Zify.zify_post_hook ::= Z.to_euclidean_division_equations.

(* formats whose every value is an exact double and inside the core domain *)
Definition exact_fmt (f : fmt) : Prop := 1 <= nw f <= 52 /\ -8 <= nf f <= nw f + 8.

Lemma f64_cmp_fin m1 e1 m2 e2 c :
  f64_cmpop c (Fin m1 e1) (Fin m2 e2) = dy_cmpop c {| dm := m1; de := e1 |} {| dm := m2; de := e2 |}.
Proof.
  unfold f64_cmpop, dy_cmpop, f64_ltb, f64_leb, f64_eqb, f64_gtb, f64_geb, f64_ltb, f64_leb, f64_cmp, dy_ltb, dy_leb, dy_eqb, dy_align.
  cbn [dm de]. rewrite (Z.min_comm e2 e1).
  set (a := m1 * 2^(e1 - Z.min e1 e2)). set (b := m2 * 2^(e2 - Z.min e1 e2)).
  destruct c; destruct (Z.compare_spec a b); destruct (Z.compare_spec b a); try lia; try reflexivity.
Qed.

Lemma in_range_abs f c : 1 <= nw f <= 52 -> in_range f c -> Z.abs c < 2^53.
Proof.
  intros Hw Hr. pose proof (cmax_bound f Hw). unfold in_range in Hr. assert (2^52 < 2^53) by (apply pow2_lt; lia). lia.
Qed.

(* comparisons agree with the exact stored values, for any two formats (and any mix of
   signedness / fraction length) *)
Theorem cmp_exact c fx cx fy cy : exact_fmt fx -> exact_fmt fy -> in_range fx cx -> in_range fy cy ->
  fxp_cmp c fx cx fy cy = dy_cmpop c (val_of_code fx cx) (val_of_code fy cy).
Proof.
  intros Hx Hy Hrx Hry. unfold fxp_cmp.
  rewrite (get_val_exact fx cx Hx) by (apply (in_range_abs fx); [destruct Hx; lia | assumption]).
  rewrite (get_val_exact fy cy Hy) by (apply (in_range_abs fy); [destruct Hy; lia | assumption]).
  apply f64_cmp_fin.
Qed.
(* against a plain number (any finite double m * 2^e) *)
Theorem cmp_num_exact c fx cx m e : exact_fmt fx -> in_range fx cx ->
  fxp_cmp_num c fx cx (Fin m e) = dy_cmpop c (val_of_code fx cx) {| dm := m; de := e |}.
Proof.
  intros Hx Hrx. unfold fxp_cmp_num. rewrite get_val_exact; [apply f64_cmp_fin|exact Hx|].
  apply (in_range_abs fx); [destruct Hx; lia|assumption].
Qed.

(* a 53-bit integer times a power of two survives the trip through float64 *)
Lemma rnd64_shifted c k : Z.abs c < 2^53 -> 0 <= k <= 900 -> f64_floor_Z (rnd64 (c * 2^k) 0) = Some (c * 2^k).
Proof.
  intros Hc Hk. set (q := c * 2^k). assert (Pk: 0 < 2^k) by (apply pow2_pos; lia).
  assert (Hbl: bitlen q <= 53 + k).
  { unfold bitlen. destruct (q =? 0) eqn:Eq; [lia|].
    assert (Z.log2 (Z.abs q) < 53 + k); [|lia].
    apply Z.log2_lt_pow2; [lia|]. rewrite pow2_split by lia. unfold q. rewrite Z.abs_mul, (Z.abs_eq (2^k)) by lia. nia. }
  pose proof (bitlen_nonneg q) as Hb0.
  unfold rnd64. destruct (Z.max (bitlen q - 53) (-1074 - 0) <=? 0) eqn:Esh.
  - replace (bitlen q + 0 <=? 1024) with true by lia. unfold f64_floor_Z. cbn [Z.leb Z.compare]. rewrite Z.pow_0_r. f_equal. lia.
  - set (sh := Z.max (bitlen q - 53) (-1074 - 0)) in *.
    assert (Hsh: 0 < sh <= k) by lia.
    assert (Hdiv: q = (c * 2^(k - sh)) * 2^sh) by (unfold q; replace k with ((k - sh) + sh) at 1 by lia; rewrite pow2_split by lia; ring).
    assert (Ps: 0 < 2^sh) by (apply pow2_pos; lia).
    assert (Hr: rhe q sh = c * 2^(k - sh)).
    { unfold rhe. rewrite Hdiv. rewrite Z.div_mul, Z.mod_mul by lia. replace (2 * 0 <? 2^sh) with true by lia. reflexivity. }
    rewrite Hr.
    assert (Hbl2: bitlen (c * 2^(k - sh)) <= 53 + (k - sh)).
    { unfold bitlen. destruct (c * 2^(k - sh) =? 0) eqn:Eq; [lia|].
      assert (0 < 2^(k - sh)) by (apply pow2_pos; lia).
      assert (Z.log2 (Z.abs (c * 2^(k - sh))) < 53 + (k - sh)); [|lia].
      apply Z.log2_lt_pow2; [lia|]. rewrite pow2_split by lia. rewrite Z.abs_mul, (Z.abs_eq (2^(k - sh))) by lia. nia. }
    replace (bitlen (c * 2^(k - sh)) + (0 + sh) <=? 1024) with true by lia.
    unfold f64_floor_Z. replace (0 <=? 0 + sh) with true by lia. f_equal. replace (0 + sh) with sh by lia. lia.
Qed.

(* astype(int) is the floor of the exact value *)
Theorem astype_int_floor f c : exact_fmt f -> in_range f c -> astype_int f c = Some (dy_floor (val_of_code f c)).
Proof.
  intros (Hw & Hf) Hr. pose proof (in_range_abs f c Hw Hr) as Hc. unfold astype_int, dy_floor, val_of_code. cbn [dm de].
  destruct (nf f =? 0) eqn:E0.
  - replace (nf f) with 0 by lia. cbn. f_equal. lia.
  - destruct (0 <? nf f) eqn:E1.
    + replace (0 <=? - nf f) with false by lia. replace (- - nf f) with (nf f) by lia. reflexivity.
    + replace (0 <=? - nf f) with true by lia.
      rewrite f64_of_Z_exact by exact Hc. cbn [f64_mul_pow2]. replace (0 + nf f) with (nf f) by lia.
      assert (Eb1: bitlen 1 = 1) by reflexivity.
      rewrite (rnd64_exact 1 (nf f)) by (unfold fits53; rewrite Eb1; lia).
      unfold f64_floordiv. cbn [Z.eqb]. replace (Z.min 0 (nf f)) with (nf f) by lia.
      rewrite Z.sub_diag, Z.pow_0_r, Z.mul_1_l, Z.div_1_r. replace (0 - nf f) with (- nf f) by lia.
      apply rnd64_shifted; lia.
Qed.

Theorem bool_nonzero f c : exact_fmt f -> in_range f c -> fxp_bool f c = negb (c =? 0).
Proof.
  intros (Hw & Hf) Hr. unfold fxp_bool. rewrite get_val_exact; [reflexivity|split; lia|].
  apply (in_range_abs f); assumption.
Qed.

Theorem uraw_image f c : 1 <= nw f -> in_range f c -> uraw f c = c mod 2^(nw f).
Proof.
  intros Hw Hr. unfold uraw. unfold in_range, cmin, cmax in Hr. assert (0 < 2^(nw f)) by (apply pow2_pos; lia).
  assert (E: 2^(nw f) = 2 * 2^(nw f - 1)) by (apply pow2_double; lia). assert (0 < 2^(nw f - 1)) by (apply pow2_pos; lia).
  destruct (c <? 0) eqn:Ec.
  - apply (Z.mod_unique_pos _ _ (-1)); destruct (sg f); lia.
  - symmetry. apply Z.mod_small. destruct (sg f); lia.
Qed.

(* ---------- C17: scale and bias ---------- *)
(* when the transformed input (v - b) / s is an exact double t inside the core domain, storing v
   stores the C01 quantization of t, with the flags of t *)
Theorem store_scaled_core f r o s b vs ts : core_fmt f -> Forall (core_dy f) ts ->
  map (scaled_input s b) vs = map f64_of_core ts ->
  store_scaled f r o s b vs = Ok (spec_wres f r o ts).
Proof. intros Hf Ht Heq. unfold store_scaled. rewrite Heq. apply set_val_floats_core; assumption. Qed.
