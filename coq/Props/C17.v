(* C17 — scale and bias act as an exact affine wrapper around the stored code.
   Model: Conv.store_scaled ((v - b) / s in float64, then set_val), read_scaled, scaled_limits. *)
From Coq Require Import ZArith List Bool Lia.
From FxpVerif Require Import Spec NP Store ProofsCore ProofsStore ProofsRound Conv ProofsConv.
Import ListNotations.
Open Scope Z_scope.

(* "every intermediate is an exact double": the transformed inputs (v - b) / s, as computed in
   float64, are the doubles t of the core domain.  Then storing v stores the C01 quantization
   of t = (v - b) / s, with exactly the flags of t. *)
Theorem C17_store : forall f r o s b vs ts, core_fmt f -> Forall (core_dy f) ts ->
  map (scaled_input s b) vs = map f64_of_core ts ->
  store_scaled f r o s b vs
  = Ok {| w_codes := map (quantize f r o) ts; w_ovf := existsb (ovf_cond f r) ts;
          w_unf := existsb (unf_cond f r) ts; w_inacc := existsb (inacc_cond f r o) ts |}.
Proof. exact store_scaled_core. Qed.
Print Assumptions C17_store.

(* reading returns s * (code * 2^-n_frac) + b computed from the exact unscaled value *)
Theorem C17_read_uses_exact_value : forall f s b c, core_fmt f -> Z.abs c < 2^53 ->
  read_scaled f s b c = f64_add (f64_mul (Fin c (- nf f)) s) b.
Proof. intros f s b c Hf Hc. unfold read_scaled. rewrite get_val_exact by assumption. reflexivity. Qed.
Print Assumptions C17_read_uses_exact_value.

(* upper / lower / precision are the unscaled ones mapped through the same affine map *)
Theorem C17_limits : forall f s b, core_fmt f ->
  scaled_limits f s b =
  (f64_add (f64_mul s (Fin (cmax f) (- nf f))) b, f64_add (f64_mul s (Fin (cmin f) (- nf f))) b, f64_mul s (Fin 1 (- nf f))).
Proof.
  intros f s b Hf. unfold scaled_limits. pose proof Hf as (Hw & _). pose proof (cmax_bound f Hw).
  assert (2^52 < 2^53) by (apply pow2_lt; lia).
  rewrite !get_val_exact by (try exact Hf; lia). reflexivity.
Qed.
Print Assumptions C17_limits.

(* the quantization depends only on the VALUE of (v - b)/s, not on how the double is written *)
Theorem C17_value_only : forall f r o t t', dy_eqb t t' = true -> quantize f r o t = quantize f r o t'.
Proof. exact quantize_eqv. Qed.
Print Assumptions C17_value_only.

(* scale 0.5, bias 1.25, v = 3.0: (3 - 1.25) / 0.5 = 3.5, stored in s8/2 as code 14 *)
Example C17_nonvacuous :
  (exists t, scaled_input (Fin 1 (-1)) (Fin 5 (-2)) (Fin 3 0) = f64_of_core t /\ dy_eqb t {| dm := 7; de := -1 |} = true) /\
  store_scaled {| sg := true; nw := 8; nf := 2 |} Trunc Saturate (Fin 1 (-1)) (Fin 5 (-2)) [Fin 3 0]
  = Ok {| w_codes := [14]; w_ovf := false; w_unf := false; w_inacc := false |}.
Proof. split; [eexists {| dm := _; de := _ |}; split; vm_compute; reflexivity | vm_compute; reflexivity]. Qed.
