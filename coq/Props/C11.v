(* C11 — binary and hex strings are faithful images of the code and parse back to it.
   Model: Strings.bin_model / hex_model / base_repr_model (rendering), strbin2int / strhex2int
   (parsing).  Theorems hold for EVERY word length (they are about bit lists, not machine words). *)
From Coq Require Import ZArith List Bool Lia.
From FxpVerif Require Import Spec NP Store ProofsCore ProofsStore ProofsRound Strings ProofsStrings.
Import ListNotations.
Open Scope Z_scope.

(* bin() has exactly n_word digits and they are the two's-complement pattern of the code *)
Theorem C11_bin_is_pattern : forall f c, 0 <= nw f ->
  Z.of_nat (length (binary_repr (nw f) c)) = nw f /\ of_bits (binary_repr (nw f) c) = c mod 2^(nw f).
Proof.
  intros f c Hn. unfold binary_repr. split; [apply to_bits_length; exact Hn|].
  rewrite of_to_bits by exact Hn. apply Z.mod_mod. assert (0 < 2^(nw f)) by (apply pow2_pos; lia). lia.
Qed.
Print Assumptions C11_bin_is_pattern.

(* parsing a rendered binary string restores the code (raw mode), every word length *)
Theorem C11_bin_roundtrip : forall f c, (if sg f then 2 else 1) <= nw f -> in_range f c ->
  strbin2int (sg f) (nw f) (binary_repr (nw f) c) = Ok c.
Proof. exact strbin2int_roundtrip. Qed.
Print Assumptions C11_bin_roundtrip.
Theorem C11_chars_roundtrip : forall l, bits_of_str (bits_str l) = Some l.
Proof. exact bits_of_str_render. Qed.
Print Assumptions C11_chars_roundtrip.

(* hex(): ceil(n_word/4) digits that decode to the same pattern; parsing restores the code *)
Theorem C11_hex_digits : forall f c, 0 <= nw f ->
  length (hex_nat (Z.to_nat ((nw f + 3) / 4)) (c mod 2^(nw f))) = Z.to_nat ((nw f + 3) / 4) /\
  of_hex 0 (hex_nat (Z.to_nat ((nw f + 3) / 4)) (c mod 2^(nw f))) = Some ((c mod 2^(nw f)) mod 16^(Z.of_nat (Z.to_nat ((nw f + 3) / 4)))).
Proof.
  intros f c Hn. split; [apply hex_nat_length|]. rewrite of_hex_nat; [f_equal; lia|].
  apply Z.mod_pos_bound. apply pow2_pos. exact Hn.
Qed.
Print Assumptions C11_hex_digits.
Theorem C11_hex_roundtrip : forall f c, (if sg f then 2 else 1) <= nw f -> in_range f c ->
  strhex2int (sg f) (nw f) (hex_nat (Z.to_nat ((nw f + 3) / 4)) (c mod 2^(nw f))) = Ok c.
Proof. exact strhex2int_roundtrip. Qed.
Print Assumptions C11_hex_roundtrip.

(* value mode (n_word <= 52): the parsed code divided by 2^n_frac is stored back unchanged (C05) *)
Theorem C11_value_mode_restores : forall f r o c, 1 <= nw f -> in_range f c ->
  quantize f r o (val_of_code f c) = c.
Proof. intros f r o c Hw Hr. exact (proj1 (representable_fixed f r o c Hw Hr)). Qed.
Print Assumptions C11_value_mode_restores.

Example C11_nonvacuous :
  let f := {| sg := true; nw := 6; nf := 2 |} in
  bin_model f (-3) false [] = [49;49;49;49;48;49] /\ bin_model f (-3) true [48;98] = [48;98;49;49;49;49;46;48;49] /\
  hex_model f (-3) [48;120] = [48;120;51;68] /\ strhex2int true 6 [51;68] = Ok (-3) /\ base_repr_model 2 (-3) = [45;49;49].
Proof. vm_compute. repeat split; reflexivity. Qed.
