(* C10 — format conversion gives the same correctly quantized value by every route.
   Model: Convert.convert (utils.scale_raw + Store.set_val_real with raw=True), with the
   route only selecting the vdtype the raw value is cast to. *)
From Coq Require Import ZArith List Bool.
From FxpVerif Require Import Spec NP Store ProofsCore ProofsStore Convert ProofsConvert ProofsExact.
Import ListNotations.
Open Scope Z_scope.

(* every route (ndarray routes: resize, like(), equal; Fxp-input routes: constructor, like=,
   set_val, call, indexed assignment — with the source's vdtype), every pair of core
   formats, all 10 destination mode pairs, arrays of any length: the destination holds the
   exact source value quantized into the destination, with the flags of that quantization.
   No side condition on the value type of the source any more: rescaled integer codes of more
   than 53 bits are never cast to a float value type (set_val switches to Python integers). *)
Theorem C10_routes : forall rt fs fd r o codes,
  core_fmt fs -> core_fmt fd -> Forall (in_range fs) codes ->
  exists w, convert rt fs codes fd r o = Ok w /\
    w_codes w = map (fun c => quantize fd r o (val_of_code fs c)) codes /\
    w_ovf w = existsb (fun c => ovf_cond fd r (val_of_code fs c)) codes /\
    w_unf w = existsb (fun c => unf_cond fd r (val_of_code fs c)) codes.
Proof. exact convert_core. Qed.
Print Assumptions C10_routes.

(* sequences of conversions of any length *)
Theorem C10_chain : forall steps fs codes,
  core_fmt fs -> Forall (in_range fs) codes -> chain_ok fs codes steps ->
  convert_chain fs codes steps = Ok (chain_spec fs codes steps).
Proof. exact convert_chain_core. Qed.
Print Assumptions C10_chain.

(* the value is preserved exactly whenever it is representable in the destination *)
Theorem C10_preserves_representable : forall fs fd r o c, 1 <= nw fd ->
  (exists c', in_range fd c' /\ dy_eqb (val_of_code fd c') (val_of_code fs c) = true /\ nf fs <= nf fd /\ c' = c * 2^(nf fd - nf fs)) ->
  dy_eqb (val_of_code fd (quantize fd r o (val_of_code fs c))) (val_of_code fs c) = true.
Proof. exact conv_preserves. Qed.
Print Assumptions C10_preserves_representable.

(* sources of ANY width (64-bit and wider objects included), destinations of any width: when some source code has
   more than 53 bits and the destination has fewer fraction bits, the codes travel as exact rationals and are
   rounded once by the destination's mode — codes, the three flags of the write *)
Theorem C10_wide_codes_exact : forall rt fs fd r o codes, 1 <= nw fd -> nf fd - nf fs < 0 ->
  existsb (fun c => 2^53 <=? Z.abs c) codes = true ->
  convert rt fs codes fd r o = Ok (spec_wres fd r o (map (val_of_code fs) codes)).
Proof. exact convert_exact. Qed.
Print Assumptions C10_wide_codes_exact.

(* hence: every conversion to fewer fraction bits into a core destination word, from a source of any width
   holding any codes *)
Theorem C10_fewer_fraction_bits_any_source : forall rt fs fd r o codes, 1 <= nw fd <= 52 -> -1074 <= nf fd - nf fs < 0 -> codes <> [] ->
  convert rt fs codes fd r o = Ok (spec_wres fd r o (map (val_of_code fs) codes)).
Proof. exact convert_fewer_fraction_bits. Qed.
Print Assumptions C10_fewer_fraction_bits_any_source.

Example C10_wide_nonvacuous :
  let fs := {| sg := true; nw := 72; nf := 16 |} in let fd := {| sg := true; nw := 16; nf := 0 |} in
  convert RArray fs [2^61 + 1; -3] fd Floor Wrap = Ok {| w_codes := [0; -1]; w_ovf := true; w_unf := false; w_inacc := true |}.
Proof. vm_compute. reflexivity. Qed.

Example C10_nonvacuous :
  let fs := {| sg := true; nw := 8; nf := 0 |} in let fd := {| sg := true; nw := 8; nf := -2 |} in
  core_fmt fs /\ core_fmt fd /\ Forall (in_range fs) [7; -7] /\
  map (fun c => quantize fd Ceil Saturate (val_of_code fs c)) [7; -7] = [2; -1].
Proof. cbv zeta. unfold core_fmt, in_range. cbn. repeat split; try discriminate; repeat constructor; cbn; discriminate. Qed.
