(* C10 — format conversion gives the same correctly quantized value by every route.
   Model: Convert.convert (utils.scale_raw + Store.set_val_real with raw=True), with the
   route only selecting the vdtype the raw value is cast to. *)
From Coq Require Import ZArith List Bool.
From FxpVerif Require Import Spec NP Store ProofsCore ProofsStore Convert ProofsConvert.
Import ListNotations.
Open Scope Z_scope.

(* every route (ndarray routes: resize, like(), equal; Fxp-input routes: constructor, like=,
   set_val, call, indexed assignment — with the source's vdtype), every pair of core
   formats, all 10 destination mode pairs, arrays of any length: the destination holds the
   exact source value quantized into the destination, with the flags of that quantization.
   Side condition vd_ok: on the Fxp-input route with a FLOAT source vdtype and a positive
   shift, the rescaled codes stay below 2^53 (true whenever the value does not overflow
   the destination); the remaining corner is covered by the correspondence run only. *)
Theorem C10_routes : forall rt fs fd r o codes,
  core_fmt fs -> core_fmt fd -> Forall (in_range fs) codes -> vd_ok rt (nf fd - nf fs) codes ->
  exists w, convert rt fs codes fd r o = Ok w /\
    w_codes w = map (fun c => quantize fd r o (val_of_code fs c)) codes /\
    w_ovf w = existsb (fun c => ovf_cond fd r (val_of_code fs c)) codes /\
    w_unf w = existsb (fun c => unf_cond fd r (val_of_code fs c)) codes.
Proof. exact convert_core. Qed.
Print Assumptions C10_routes.

(* routes that never need the side condition *)
Theorem C10_routes_array_and_int : forall (fs fd : fmt) (codes : list Z),
  vd_ok RArray (nf fd - nf fs) codes /\ vd_ok (RFxpInput VInt) (nf fd - nf fs) codes.
Proof. intros. split; exact I. Qed.
Print Assumptions C10_routes_array_and_int.

(* sequences of conversions of any length *)
Theorem C10_chain : forall steps fs codes,
  core_fmt fs -> Forall (in_range fs) codes -> chain_ok fs codes steps ->
  convert_chain fs codes steps = Ok (chain_spec fs codes steps).
Proof. exact convert_chain_core. Qed.
Print Assumptions C10_chain.

(* the value is preserved exactly whenever it is representable in the destination *)
Theorem C10_preserves_representable : forall fs fd r o c, 1 <= nw fd ->
  (exists c', in_range fd c' /\ dy_eqb (val_of_code fd c') (val_of_code fs c) = true /\ nf fs <= nf fd /\ c' = c * 2^(nf fd - nf fs)) ->
  dy_eqb (val_of_code fd (quantize fd r o (val_of_code fs c))) (val_of_code fs c) = true.
Proof. exact conv_preserves. Qed.
Print Assumptions C10_preserves_representable.

Example C10_nonvacuous :
  let fs := {| sg := true; nw := 8; nf := 0 |} in let fd := {| sg := true; nw := 8; nf := -2 |} in
  core_fmt fs /\ core_fmt fd /\ Forall (in_range fs) [7; -7] /\
  map (fun c => quantize fd Ceil Saturate (val_of_code fs c)) [7; -7] = [2; -1].
Proof. cbv zeta. unfold core_fmt, in_range. cbn. repeat split; try discriminate; repeat constructor; cbn; discriminate. Qed.
